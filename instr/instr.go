// Package instr rewrites Go packages of the repository under test so that
// their synchronisation, channel, goroutine and clock operations go through
// the controlled runtime (rt/vrt).  It works on the sources of the current
// working tree (typed load through go/packages) and writes rewritten copies
// to a scratch directory; the caller feeds them to `go build -overlay`.
package instr

import (
	"bytes"
	"fmt"
	"go/ast"
	"go/format"
	"go/token"
	"go/types"
	"os"
	"path/filepath"
	"strings"

	"golang.org/x/tools/go/ast/astutil"
	"golang.org/x/tools/go/packages"
)

const (
	vrtPath     = "github.com/glyphlang/glyph/internal/verif/vrt"
	vsyncPath   = "github.com/glyphlang/glyph/internal/verif/vsync"
	vatomicPath = "github.com/glyphlang/glyph/internal/verif/vatomic"
)

// Spec says how one package directory (relative to the repo root) is rewritten.
type Spec struct {
	Dir      string
	Sync     bool     // sync, sync/atomic → shims
	Time     bool     // time.Now & co → virtual clock
	Chan     bool     // channel ops, select, go statements
	Race     bool     // shared-memory access recorders
	Files    []string // optional: restrict to these base names
	MapOrder bool     // range over maps → vrt.KeysOf order seam
}

var timeNames = map[string]bool{"Now": true, "Since": true, "Until": true, "After": true, "AfterFunc": true,
	"NewTimer": true, "NewTicker": true, "Sleep": true, "Tick": true, "Timer": true, "Ticker": true}

// Instrument rewrites the packages and returns overlay entries original→rewritten.
func Instrument(repo string, specs []Spec, outDir string) (map[string]string, error) {
	overlay := map[string]string{}
	if len(specs) == 0 {
		return overlay, nil
	}
	var pats []string
	byDir := map[string]Spec{}
	for _, s := range specs {
		pats = append(pats, "./"+s.Dir)
		abs, _ := filepath.Abs(filepath.Join(repo, s.Dir))
		byDir[abs] = s
	}
	cfg := &packages.Config{Mode: packages.NeedName | packages.NeedFiles | packages.NeedSyntax | packages.NeedTypes |
		packages.NeedTypesInfo | packages.NeedImports | packages.NeedCompiledGoFiles, Dir: repo,
		Env: append(os.Environ(), "GOFLAGS=-mod=mod", "GOPROXY=off")}
	pkgs, err := packages.Load(cfg, pats...)
	if err != nil {
		return nil, err
	}
	for _, p := range pkgs {
		if len(p.Errors) > 0 {
			return nil, fmt.Errorf("instr: %s does not type-check: %v", p.PkgPath, p.Errors[0])
		}
		for i, f := range p.Syntax {
			name := p.CompiledGoFiles[i]
			spec, ok := byDir[filepath.Dir(name)]
			if !ok {
				return nil, fmt.Errorf("instr: no spec for %s", name)
			}
			if len(spec.Files) > 0 {
				found := false
				for _, b := range spec.Files {
					if b == filepath.Base(name) {
						found = true
					}
				}
				if !found {
					continue
				}
			}
			rw := &rewriter{fset: p.Fset, info: p.TypesInfo, pkg: p.Types, spec: spec, file: f}
			changed, err := rw.rewrite()
			if err != nil {
				return nil, fmt.Errorf("instr: %s: %v", name, err)
			}
			if !changed {
				continue
			}
			var buf bytes.Buffer
			for _, cg := range f.Comments {
				for _, c := range cg.List {
					if strings.HasPrefix(c.Text, "//go:build") && c.Pos() < f.Package {
						buf.WriteString(c.Text + "\n\n")
					}
					if strings.HasPrefix(c.Text, "//go:embed") {
						return nil, fmt.Errorf("instr: %s uses go:embed", name)
					}
				}
			}
			f.Comments = nil
			if err := format.Node(&buf, p.Fset, f); err != nil {
				return nil, fmt.Errorf("instr: print %s: %v", name, err)
			}
			rel, _ := filepath.Rel(repo, name)
			out := filepath.Join(outDir, "instr", rel)
			if err := os.MkdirAll(filepath.Dir(out), 0o755); err != nil {
				return nil, err
			}
			if err := os.WriteFile(out, buf.Bytes(), 0o644); err != nil {
				return nil, err
			}
			overlay[name] = out
		}
	}
	return overlay, nil
}

type rewriter struct {
	fset    *token.FileSet
	info    *types.Info
	pkg     *types.Package
	spec    Spec
	file    *ast.File
	needVrt bool
	changed bool
	skip    map[ast.Node]bool
	err     error
	tmp     int
	// lhs marks expressions that are assignment targets / address-taken
	lhs map[ast.Expr]bool
	// shared marks local variables another goroutine might reach (markShared)
	shared map[*types.Var]bool
}

func (rw *rewriter) vrt(name string) ast.Expr {
	rw.needVrt = true
	rw.changed = true
	return &ast.SelectorExpr{X: ast.NewIdent("vrtX"), Sel: ast.NewIdent(name)}
}

func (rw *rewriter) call(name string, args ...ast.Expr) *ast.CallExpr {
	return &ast.CallExpr{Fun: rw.vrt(name), Args: args}
}

func (rw *rewriter) isChan(e ast.Expr) bool {
	t := rw.info.TypeOf(e)
	if t == nil {
		return false
	}
	_, ok := t.Underlying().(*types.Chan)
	return ok
}

func (rw *rewriter) isMap(e ast.Expr) bool {
	t := rw.info.TypeOf(e)
	if t == nil {
		return false
	}
	_, ok := t.Underlying().(*types.Map)
	return ok
}

func (rw *rewriter) isBuiltin(fun ast.Expr, name string) bool {
	id, ok := fun.(*ast.Ident)
	if !ok || id.Name != name {
		return false
	}
	_, ok = rw.info.Uses[id].(*types.Builtin)
	return ok
}

func (rw *rewriter) isPkg(e ast.Expr, path string) bool {
	id, ok := e.(*ast.Ident)
	if !ok {
		return false
	}
	pn, ok := rw.info.Uses[id].(*types.PkgName)
	return ok && pn.Imported().Path() == path
}

func unparen(e ast.Expr) ast.Expr {
	for {
		p, ok := e.(*ast.ParenExpr)
		if !ok {
			return e
		}
		e = p.X
	}
}

func isRecv(e ast.Expr) (*ast.UnaryExpr, bool) {
	u, ok := unparen(e).(*ast.UnaryExpr)
	if ok && u.Op == token.ARROW {
		return u, true
	}
	return nil, false
}

func (rw *rewriter) fresh(prefix string) string {
	rw.tmp++
	return fmt.Sprintf("_v%s%d", prefix, rw.tmp)
}

func (rw *rewriter) rewrite() (bool, error) {
	rw.skip = map[ast.Node]bool{}
	rw.lhs = map[ast.Expr]bool{}
	f := rw.file
	// imports
	if rw.spec.Sync {
		for _, im := range f.Imports {
			switch im.Path.Value {
			case `"sync"`:
				im.Path.Value = `"` + vsyncPath + `"`
				if im.Name == nil {
					im.Name = ast.NewIdent("sync")
				}
				rw.changed = true
			case `"sync/atomic"`:
				im.Path.Value = `"` + vatomicPath + `"`
				if im.Name == nil {
					im.Name = ast.NewIdent("atomic")
				}
				rw.changed = true
			}
		}
	}
	if rw.spec.Race {
		rw.markLHS(f)
		rw.markShared(f)
	}
	astutil.Apply(f, rw.pre, rw.post)
	if rw.err != nil {
		return false, rw.err
	}
	if rw.needVrt {
		astutil.AddNamedImport(rw.fset, f, "vrtX", vrtPath)
	}
	// drop a now-unused "time" import
	if rw.spec.Time && !usesPkgIdent(f, "time") {
		astutil.DeleteImport(rw.fset, f, "time")
	}
	return rw.changed, nil
}

func usesPkgIdent(f *ast.File, name string) bool {
	used := false
	ast.Inspect(f, func(n ast.Node) bool {
		if s, ok := n.(*ast.SelectorExpr); ok {
			if id, ok := s.X.(*ast.Ident); ok && id.Name == name && id.Obj == nil {
				used = true
			}
		}
		return !used
	})
	return used
}

func (rw *rewriter) pre(c *astutil.Cursor) bool {
	switch n := c.Node().(type) {
	case *ast.SelectStmt:
		if rw.spec.Chan {
			for _, cl := range n.Body.List {
				cc := cl.(*ast.CommClause)
				switch s := cc.Comm.(type) {
				case *ast.SendStmt:
					rw.skip[s] = true
				case *ast.ExprStmt:
					if u, ok := isRecv(s.X); ok {
						rw.skip[u] = true
					}
				case *ast.AssignStmt:
					if u, ok := isRecv(s.Rhs[0]); ok {
						rw.skip[u] = true
						rw.skip[s] = true
					}
				}
			}
		}
	case *ast.AssignStmt:
		if rw.spec.Chan && len(n.Lhs) == 2 && len(n.Rhs) == 1 {
			if u, ok := isRecv(n.Rhs[0]); ok && !rw.skip[n] {
				rw.skip[u] = true // handled at the assignment
			}
		}
	case *ast.ValueSpec:
		if rw.spec.Chan && len(n.Names) == 2 && len(n.Values) == 1 {
			if u, ok := isRecv(n.Values[0]); ok {
				rw.skip[u] = true
			}
		}
	}
	return true
}

func (rw *rewriter) post(c *astutil.Cursor) bool {
	if rw.err != nil {
		return false
	}
	switch n := c.Node().(type) {
	case *ast.SelectorExpr:
		if rw.spec.Time && timeNames[n.Sel.Name] && rw.isPkg(n.X, "time") {
			n.X = ast.NewIdent("vrtX")
			rw.needVrt, rw.changed = true, true
		}
	case *ast.SendStmt:
		if rw.spec.Chan && !rw.skip[n] {
			c.Replace(&ast.ExprStmt{X: rw.call("Send", n.Chan, n.Value)})
		}
	case *ast.UnaryExpr:
		if rw.spec.Chan && n.Op == token.ARROW && !rw.skip[n] {
			c.Replace(rw.call("Recv", n.X))
		}
	case *ast.AssignStmt:
		if rw.spec.Chan && len(n.Lhs) == 2 && len(n.Rhs) == 1 && !rw.skip[n] {
			if u, ok := isRecv(n.Rhs[0]); ok {
				n.Rhs[0] = rw.call("Recv2", u.X)
			}
		}
	case *ast.ValueSpec:
		if rw.spec.Chan && len(n.Names) == 2 && len(n.Values) == 1 {
			if u, ok := isRecv(n.Values[0]); ok {
				n.Values[0] = rw.call("Recv2", u.X)
			}
		}
	case *ast.CallExpr:
		if rw.spec.Chan && len(n.Args) == 1 {
			if rw.isBuiltin(n.Fun, "close") {
				n.Fun = rw.vrt("Close")
			} else if rw.isBuiltin(n.Fun, "len") && rw.isChan(n.Args[0]) {
				n.Fun = rw.vrt("Len")
			}
		}
		if rw.spec.Race {
			rw.opaqueCall(n)
		}
		if rw.spec.Race && len(n.Args) >= 1 {
			if rw.isBuiltin(n.Fun, "delete") && rw.isMap(n.Args[0]) {
				n.Args[0] = rw.call("WMap", n.Args[0])
			} else if rw.isBuiltin(n.Fun, "len") && rw.isMap(n.Args[0]) {
				n.Args[0] = rw.call("RMap", n.Args[0])
			}
		}
	case *ast.RangeStmt:
		if rw.spec.Chan && rw.isChan(n.X) {
			c.Replace(rw.rangeChan(n))
		} else if rw.spec.Race && rw.isMap(n.X) {
			n.X = rw.call("RMap", n.X)
		}
	case *ast.GoStmt:
		if rw.spec.Chan {
			c.Replace(rw.goStmt(n))
		}
	case *ast.SelectStmt:
		if rw.spec.Chan {
			c.Replace(rw.selectStmt(n))
		}
	case *ast.IndexExpr:
		if rw.spec.Race && rw.isMap(n.X) {
			if rw.lhs[n] {
				n.X = rw.call("WMap", n.X)
			} else {
				n.X = rw.call("RMap", n.X)
			}
		}
	}
	if rw.spec.Race {
		rw.raceExpr(c)
	}
	return true
}

// rangeChan: for x := range ch { B }  →  for _vc := ch; ; { x, _ok := vrt.Recv2(_vc); if !_ok { break }; B }
func (rw *rewriter) rangeChan(n *ast.RangeStmt) ast.Stmt {
	cv := rw.fresh("c")
	okv := rw.fresh("ok")
	init := &ast.AssignStmt{Lhs: []ast.Expr{ast.NewIdent(cv)}, Tok: token.DEFINE, Rhs: []ast.Expr{n.X}}
	var recv ast.Stmt
	key := n.Key
	if key == nil {
		key = ast.NewIdent("_")
	}
	call := rw.call("Recv2", ast.NewIdent(cv))
	var pre []ast.Stmt
	if n.Tok == token.ASSIGN {
		pre = append(pre, &ast.DeclStmt{Decl: &ast.GenDecl{Tok: token.VAR, Specs: []ast.Spec{
			&ast.ValueSpec{Names: []*ast.Ident{ast.NewIdent(okv)}, Type: ast.NewIdent("bool")}}}})
		recv = &ast.AssignStmt{Lhs: []ast.Expr{key, ast.NewIdent(okv)}, Tok: token.ASSIGN, Rhs: []ast.Expr{call}}
	} else {
		recv = &ast.AssignStmt{Lhs: []ast.Expr{key, ast.NewIdent(okv)}, Tok: token.DEFINE, Rhs: []ast.Expr{call}}
	}
	brk := &ast.IfStmt{Cond: &ast.UnaryExpr{Op: token.NOT, X: ast.NewIdent(okv)},
		Body: &ast.BlockStmt{List: []ast.Stmt{&ast.BranchStmt{Tok: token.BREAK}}}}
	body := append(pre, recv, brk)
	body = append(body, n.Body.List...)
	return &ast.ForStmt{Init: init, Body: &ast.BlockStmt{List: body}}
}

// goStmt: go f(a, b) → { _g0 := f; _g1 := a; _g2 := b; vrt.Go(func() { _g0(_g1, _g2) }) }
func (rw *rewriter) goStmt(n *ast.GoStmt) ast.Stmt {
	call := n.Call
	if lit, ok := call.Fun.(*ast.FuncLit); ok && len(call.Args) == 0 {
		return &ast.ExprStmt{X: rw.call("Go", lit)}
	}
	var stmts []ast.Stmt
	bind := func(e ast.Expr) ast.Expr {
		v := rw.fresh("g")
		stmts = append(stmts, &ast.AssignStmt{Lhs: []ast.Expr{ast.NewIdent(v)}, Tok: token.DEFINE, Rhs: []ast.Expr{e}})
		return ast.NewIdent(v)
	}
	fun := call.Fun
	// Function values and method values are bound now; plain function names
	// and conversions need no binding.
	switch f := unparen(fun).(type) {
	case *ast.Ident:
		if _, isVar := rw.info.Uses[f].(*types.Var); isVar {
			fun = bind(fun)
		}
	case *ast.SelectorExpr:
		if !rw.isPkgSel(f) {
			fun = bind(fun)
		}
	default:
		fun = bind(fun)
	}
	args := make([]ast.Expr, len(call.Args))
	for i, a := range call.Args {
		if tv, ok := rw.info.Types[a]; ok && tv.IsNil() {
			args[i] = a
			continue
		}
		if tv, ok := rw.info.Types[a]; ok && tv.Value != nil {
			args[i] = a // constants: keep untyped-ness
			continue
		}
		args[i] = bind(a)
	}
	inner := &ast.CallExpr{Fun: fun, Args: args, Ellipsis: call.Ellipsis}
	lit := &ast.FuncLit{Type: &ast.FuncType{Params: &ast.FieldList{}}, Body: &ast.BlockStmt{List: []ast.Stmt{&ast.ExprStmt{X: inner}}}}
	stmts = append(stmts, &ast.ExprStmt{X: rw.call("Go", lit)})
	return &ast.BlockStmt{List: stmts}
}

func (rw *rewriter) isPkgSel(s *ast.SelectorExpr) bool {
	id, ok := s.X.(*ast.Ident)
	if !ok {
		return false
	}
	_, ok = rw.info.Uses[id].(*types.PkgName)
	return ok
}

func simpleExpr(e ast.Expr) bool {
	switch x := unparen(e).(type) {
	case *ast.Ident:
		return true
	case *ast.SelectorExpr:
		return simpleExpr(x.X)
	case *ast.StarExpr:
		return simpleExpr(x.X)
	}
	return false
}

// selectStmt rewrites a select into a switch over vrt.Select.
func (rw *rewriter) selectStmt(n *ast.SelectStmt) ast.Stmt {
	iv, vv, okv := rw.fresh("i"), rw.fresh("v"), rw.fresh("ok")
	var cases []ast.Expr
	var clauses []ast.Stmt
	hasDefault := false
	idx := 0
	use := func() []ast.Stmt {
		return []ast.Stmt{&ast.AssignStmt{Lhs: []ast.Expr{ast.NewIdent("_"), ast.NewIdent("_")}, Tok: token.ASSIGN,
			Rhs: []ast.Expr{ast.NewIdent(vv), ast.NewIdent(okv)}}}
	}
	for _, cl := range n.Body.List {
		cc := cl.(*ast.CommClause)
		body := use()
		if cc.Comm == nil {
			hasDefault = true
			clauses = append(clauses, &ast.CaseClause{List: nil, Body: append(body, cc.Body...)})
			continue
		}
		switch s := cc.Comm.(type) {
		case *ast.SendStmt:
			cases = append(cases, rw.call("SendCase", s.Chan, s.Value))
		case *ast.ExprStmt:
			u, _ := isRecv(s.X)
			cases = append(cases, rw.call("RecvCase", u.X))
		case *ast.AssignStmt:
			u, _ := isRecv(s.Rhs[0])
			if !simpleExpr(u.X) {
				if call, ok := unparen(u.X).(*ast.CallExpr); !ok || len(s.Lhs) == 0 || !allBlank(s.Lhs) {
					_ = call
					rw.err = fmt.Errorf("select receive with binding from a non-simple channel expression at %s", rw.fset.Position(s.Pos()))
					return n
				}
			}
			cases = append(cases, rw.call("RecvCase", u.X))
			val := rw.call("Cast", u.X, ast.NewIdent(vv))
			rhs := []ast.Expr{val}
			if len(s.Lhs) == 2 {
				rhs = append(rhs, ast.NewIdent(okv))
			}
			if allBlank(s.Lhs) {
				// nothing to bind
			} else {
				body = append(body, &ast.AssignStmt{Lhs: s.Lhs, Tok: s.Tok, Rhs: rhs})
				if s.Tok == token.DEFINE {
					// avoid "declared and not used" for bindings the body ignores
					for _, l := range s.Lhs {
						if id, ok := l.(*ast.Ident); ok && id.Name != "_" {
							body = append(body, &ast.AssignStmt{Lhs: []ast.Expr{ast.NewIdent("_")}, Tok: token.ASSIGN, Rhs: []ast.Expr{ast.NewIdent(id.Name)}})
						}
					}
				}
			}
		}
		clauses = append(clauses, &ast.CaseClause{List: []ast.Expr{&ast.BasicLit{Kind: token.INT, Value: fmt.Sprint(idx)}}, Body: append(body, cc.Body...)})
		idx++
	}
	hd := "false"
	if hasDefault {
		hd = "true"
	} else {
		// keeps the statement terminating where the select was
		clauses = append(clauses, &ast.CaseClause{Body: append(use(), &ast.ExprStmt{X: &ast.CallExpr{
			Fun: ast.NewIdent("panic"), Args: []ast.Expr{&ast.BasicLit{Kind: token.STRING, Value: `"vrt: select without ready case"`}}}})})
	}
	args := append([]ast.Expr{ast.NewIdent(hd)}, cases...)
	init := &ast.AssignStmt{Lhs: []ast.Expr{ast.NewIdent(iv), ast.NewIdent(vv), ast.NewIdent(okv)}, Tok: token.DEFINE,
		Rhs: []ast.Expr{rw.call("Select", args...)}}
	return &ast.SwitchStmt{Init: init, Tag: ast.NewIdent(iv), Body: &ast.BlockStmt{List: clauses}}
}

func allBlank(l []ast.Expr) bool {
	for _, e := range l {
		if id, ok := e.(*ast.Ident); !ok || id.Name != "_" {
			return false
		}
	}
	return true
}

// ---------------------------------------------------------------------------
// race recorders

func (rw *rewriter) markLHS(f *ast.File) {
	mark := func(e ast.Expr) {
		e = unparen(e)
		rw.lhs[e] = true
	}
	ast.Inspect(f, func(n ast.Node) bool {
		switch s := n.(type) {
		case *ast.AssignStmt:
			if s.Tok != token.DEFINE {
				for _, l := range s.Lhs {
					mark(l)
				}
			} else {
				for _, l := range s.Lhs {
					rw.skip[unparen(l)] = true
				}
			}
		case *ast.IncDecStmt:
			mark(s.X)
		case *ast.RangeStmt:
			if s.Tok == token.ASSIGN {
				if s.Key != nil {
					mark(s.Key)
				}
				if s.Value != nil {
					mark(s.Value)
				}
			} else {
				if s.Key != nil {
					rw.skip[s.Key] = true
				}
				if s.Value != nil {
					rw.skip[s.Value] = true
				}
			}
		case *ast.UnaryExpr:
			if s.Op == token.AND {
				rw.skip[unparen(s.X)] = true
			}
		}
		return true
	})
}

// rootLocal returns the function-local variable whose own storage e denotes
// (x, x.f, x.f.g, x[i] for arrays - no pointer indirection on the way), or nil.
func (rw *rewriter) rootLocal(e ast.Expr) *types.Var {
	for {
		switch x := e.(type) {
		case *ast.ParenExpr:
			e = x.X
		case *ast.SelectorExpr:
			sel, ok := rw.info.Selections[x]
			if !ok || sel.Kind() != types.FieldVal || sel.Indirect() {
				return nil
			}
			e = x.X
		case *ast.IndexExpr:
			t := rw.info.TypeOf(x.X)
			if t == nil {
				return nil
			}
			if _, ok := t.Underlying().(*types.Array); !ok {
				return nil
			}
			e = x.X
		case *ast.Ident:
			obj := rw.info.Uses[x]
			if obj == nil {
				obj = rw.info.Defs[x]
			}
			v, ok := obj.(*types.Var)
			if !ok || v.IsField() || v.Parent() == nil || v.Parent() == rw.pkg.Scope() || v.Parent() == types.Universe {
				return nil
			}
			return v
		default:
			return nil
		}
	}
}

// markShared collects the local variables another goroutine might reach:
// captured by a function literal, address taken (explicitly, by a
// pointer-receiver method call on the value, or by slicing an array).
func (rw *rewriter) markShared(f *ast.File) {
	rw.shared = map[*types.Var]bool{}
	ast.Inspect(f, func(n ast.Node) bool {
		switch x := n.(type) {
		case *ast.FuncLit:
			ast.Inspect(x.Body, func(m ast.Node) bool {
				id, ok := m.(*ast.Ident)
				if !ok {
					return true
				}
				if v, ok := rw.info.Uses[id].(*types.Var); ok && !v.IsField() && (v.Pos() < x.Pos() || v.Pos() >= x.End()) {
					rw.shared[v] = true
				}
				return true
			})
		case *ast.UnaryExpr:
			if x.Op == token.AND {
				if v := rw.rootLocal(x.X); v != nil {
					rw.shared[v] = true
				}
			}
		case *ast.SliceExpr:
			if v := rw.rootLocal(x.X); v != nil {
				rw.shared[v] = true
			}
		case *ast.CallExpr:
			sel, ok := x.Fun.(*ast.SelectorExpr)
			if !ok {
				return true
			}
			s, ok := rw.info.Selections[sel]
			if !ok || s.Kind() != types.MethodVal {
				return true
			}
			if sig, ok := s.Obj().Type().(*types.Signature); ok && sig.Recv() != nil {
				if _, ptrRecv := sig.Recv().Type().(*types.Pointer); ptrRecv {
					if v := rw.rootLocal(sel.X); v != nil {
						rw.shared[v] = true
					}
				}
			}
		case *ast.SelectorExpr:
			// method value x.M with pointer receiver
			if s, ok := rw.info.Selections[x]; ok && s.Kind() == types.MethodVal {
				if sig, ok := s.Obj().Type().(*types.Signature); ok && sig.Recv() != nil {
					if _, ptrRecv := sig.Recv().Type().(*types.Pointer); ptrRecv {
						if v := rw.rootLocal(x.X); v != nil {
							rw.shared[v] = true
						}
					}
				}
			}
		}
		return true
	})
}

func syncType(t types.Type) bool {
	for {
		p, ok := t.(*types.Pointer)
		if !ok {
			break
		}
		t = p.Elem()
	}
	if n, ok := t.(*types.Named); ok && n.Obj().Pkg() != nil {
		switch n.Obj().Pkg().Path() {
		case "sync", "sync/atomic":
			return true
		}
	}
	if _, ok := t.Underlying().(*types.Chan); ok {
		return true
	}
	return false
}

func (rw *rewriter) wrapAccess(e ast.Expr) ast.Expr {
	fn := "R"
	if rw.lhs[e] {
		fn = "W"
	}
	w := &ast.ParenExpr{X: &ast.StarExpr{X: rw.call(fn, &ast.UnaryExpr{Op: token.AND, X: e})}}
	// keep the type of the wrapped expression known: the enclosing node (an
	// index expression on a map held in a field, a range over it, len, delete)
	// is classified by the type of this operand after the replacement
	if tv, ok := rw.info.Types[e]; ok {
		rw.info.Types[w] = tv
	}
	return w
}

func (rw *rewriter) raceExpr(c *astutil.Cursor) {
	switch n := c.Node().(type) {
	case *ast.SelectorExpr:
		if rw.skip[n] {
			return
		}
		sel, ok := rw.info.Selections[n]
		if !ok || sel.Kind() != types.FieldVal {
			return
		}
		tv, ok := rw.info.Types[n]
		if !ok || !tv.Addressable() || syncType(tv.Type) {
			return
		}
		if v := rw.rootLocal(n); v != nil && !rw.shared[v] {
			// storage of a function-local variable that no closure captures and
			// whose address is never taken: no other goroutine can reach it (and
			// it usually lives on the stack, whose addresses are recycled when a
			// stack is moved)
			return
		}
		if p, ok := c.Parent().(*ast.SelectorExpr); ok && p.X == n {
			// x.f.g: record the leaf only, unless x.f is a pointer (then x.f is read)
			if _, isPtr := tv.Type.Underlying().(*types.Pointer); !isPtr {
				return
			}
		}
		c.Replace(rw.wrapAccess(n))
	case *ast.Ident:
		if rw.skip[n] {
			return
		}
		v, ok := rw.info.Uses[n].(*types.Var)
		if !ok || v.IsField() || v.Parent() != rw.pkg.Scope() || syncType(v.Type()) {
			return
		}
		switch p := c.Parent().(type) {
		case *ast.SelectorExpr:
			if p.Sel == n {
				return
			}
		case *ast.KeyValueExpr:
			if p.Key == n {
				if _, isComp := rw.info.Types[p.Key]; !isComp {
					return
				}
			}
		}
		c.Replace(rw.wrapAccess(n))
	case *ast.IndexExpr:
		if rw.lhs[n] && !rw.isMap(n.X) {
			if tv, ok := rw.info.Types[n]; ok && tv.Addressable() {
				xt := rw.info.TypeOf(n.X)
				if xt == nil {
					return
				}
				if _, isSlice := xt.Underlying().(*types.Slice); isSlice {
					c.Replace(rw.wrapAccess(n))
				}
			}
		}
	}
}

// opaque mutable containers from uninstrumented packages: method calls are
// recorded as reads/writes of the receiver object.
var opaqueReadOnly = map[string]map[string]bool{
	"container/list": {"Len": true, "Front": true, "Back": true, "Next": true, "Prev": true},
}

func (rw *rewriter) opaqueCall(n *ast.CallExpr) {
	sel, ok := n.Fun.(*ast.SelectorExpr)
	if !ok {
		return
	}
	s, ok := rw.info.Selections[sel]
	if !ok || s.Kind() != types.MethodVal {
		return
	}
	rt := rw.info.TypeOf(sel.X)
	if rt == nil {
		return
	}
	pt, ok := rt.Underlying().(*types.Pointer)
	if !ok {
		return
	}
	named, ok := pt.Elem().(*types.Named)
	if !ok || named.Obj().Pkg() == nil {
		return
	}
	ro, ok := opaqueReadOnly[named.Obj().Pkg().Path()]
	if !ok {
		return
	}
	fn := "ObjW"
	if ro[sel.Sel.Name] {
		fn = "ObjR"
	}
	sel.X = rw.call(fn, sel.X)
}
