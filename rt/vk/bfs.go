package vk

import "time"

// BFSStats reports an explicit-state search.
type BFSStats struct {
	States      int64
	Transitions int64
	MaxDepth    int
	Emptied     bool // frontier emptied before the depth bound (full reachable set)
	Complete    bool // bound reached without hitting the deadline
}

// BFS is an explicit-state breadth-first search over event histories of a
// real system.  Real objects cannot be cloned, so `run` rebuilds a fresh
// instance, replays hist and returns the canonical form of the state reached;
// expand=false prunes (violation already recorded, or event disabled).  The
// oracle is evaluated inside run (on the last step; earlier steps were judged
// when their own history was visited).  With dedup=false every history up to
// the depth is executed (systems whose state is not observable).
func BFS(nEvents, maxDepth int, dedup bool, deadline time.Time, run func(hist []int) (canon string, expand bool)) BFSStats {
	st := BFSStats{Complete: true}
	seen := map[string]struct{}{}
	frontier := [][]int{{}}
	if c, ok := run(nil); ok {
		seen[c] = struct{}{}
	}
	st.States = 1
	for depth := 0; depth < maxDepth && len(frontier) > 0; depth++ {
		var next [][]int
		for _, h := range frontier {
			for e := 0; e < nEvents; e++ {
				if time.Now().After(deadline) {
					st.Complete = false
					return st
				}
				nh := append(append(make([]int, 0, len(h)+1), h...), e)
				c, ok := run(nh)
				st.Transitions++
				if !ok {
					continue
				}
				if dedup {
					if _, dup := seen[c]; dup {
						continue
					}
					seen[c] = struct{}{}
				}
				st.States++
				next = append(next, nh)
			}
		}
		st.MaxDepth = depth + 1
		frontier = next
	}
	st.Emptied = len(frontier) == 0
	return st
}
