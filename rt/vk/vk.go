// Package vk is the small kit shared by all verification harnesses: it reads
// the run parameters handed down by the driver (cmd/check) and writes the
// per-shard result file the driver merges into the evidence file.
package vk

import (
	"encoding/json"
	"fmt"
	"os"
	"sort"
	"strconv"
	"strings"
	"sync"
	"time"
)

// Violation is one failed case.
type Violation struct {
	Key    string `json:"key"`    // finding key (narrow identity of the failing case)
	Desc   string `json:"desc"`   // what was observed vs expected
	Replay any    `json:"replay"` // everything needed to re-run exactly this case
}

// Result is what one harness shard reports.
type Result struct {
	Evaluations int64            `json:"evaluations"`
	Distinct    int64            `json:"distinct_nontrivial"`
	States      int64            `json:"states"`
	Transitions int64            `json:"transitions"`
	Exhaustive  bool             `json:"exhaustive"`
	Rule        string           `json:"rule"`
	Samples     []any            `json:"samples"`
	Violations  []Violation      `json:"violations"`
	Counters    map[string]int64 `json:"counters"`
	Notes       []string         `json:"notes"`
	Bounds      map[string]any   `json:"bounds"`
	Replayed    *bool            `json:"replayed,omitempty"` // replay mode: did the violation reproduce
	mu          sync.Mutex
	seenV       map[string]bool
	Suppressed  int64 `json:"suppressed_duplicates"`
}

// Params are the run parameters.
type Params struct {
	Tier     string
	Thorough bool
	Shard    int
	NShard   int
	Seed     int64
	Replay   string // path of a replay file, "" in normal runs
	Deadline time.Time
	Out      string
}

// Env reads the parameters from the environment.
func Env() Params {
	p := Params{Tier: os.Getenv("VERIF_TIER"), NShard: 1, Out: os.Getenv("VERIF_OUT"), Replay: os.Getenv("VERIF_REPLAY")}
	if p.Tier == "" {
		p.Tier = "quick"
	}
	p.Thorough = p.Tier == "thorough"
	if s := os.Getenv("VERIF_SHARD"); s != "" {
		parts := strings.Split(s, "/")
		p.Shard, _ = strconv.Atoi(parts[0])
		p.NShard, _ = strconv.Atoi(parts[1])
	}
	p.Seed, _ = strconv.ParseInt(os.Getenv("VERIF_SEED"), 10, 64)
	budget := 60 * time.Second
	if s := os.Getenv("VERIF_BUDGET_S"); s != "" {
		if n, err := strconv.Atoi(s); err == nil {
			budget = time.Duration(n) * time.Second
		}
	}
	p.Deadline = time.Now().Add(budget)
	return p
}

// Mine reports whether work item i belongs to this shard.
func (p Params) Mine(i int) bool { return p.NShard <= 1 || i%p.NShard == p.Shard }

// Expired reports whether the internal time budget is used up.
func (p Params) Expired() bool { return time.Now().After(p.Deadline) }

// NewResult makes an empty result.
func NewResult(rule string) *Result {
	return &Result{Rule: rule, Exhaustive: true, Counters: map[string]int64{}, Bounds: map[string]any{}, seenV: map[string]bool{}}
}

// Violate records a violation (deduplicated by key; at most 200 kept).
func (r *Result) Violate(key, desc string, replay any) {
	r.mu.Lock()
	defer r.mu.Unlock()
	if r.seenV[key] {
		r.Suppressed++
		return
	}
	r.seenV[key] = true
	if len(r.Violations) < 200 {
		r.Violations = append(r.Violations, Violation{key, desc, replay})
	} else {
		r.Suppressed++
	}
}

// Sample records an example case (at most max kept).
func (r *Result) Sample(max int, s any) {
	r.mu.Lock()
	defer r.mu.Unlock()
	if len(r.Samples) < max {
		r.Samples = append(r.Samples, s)
	}
}

// Count bumps a named counter.
func (r *Result) Count(name string, d int64) {
	r.mu.Lock()
	r.Counters[name] += d
	r.mu.Unlock()
}

// Note appends a free-text note.
func (r *Result) Note(f string, a ...any) {
	r.mu.Lock()
	r.Notes = append(r.Notes, fmt.Sprintf(f, a...))
	r.mu.Unlock()
}

// Write stores the result where the driver expects it.
func (r *Result) Write(p Params) {
	sort.Slice(r.Violations, func(i, j int) bool { return r.Violations[i].Key < r.Violations[j].Key })
	b, err := json.MarshalIndent(r, "", " ")
	if err != nil {
		panic(err)
	}
	if p.Out == "" {
		os.Stdout.Write(b)
		return
	}
	if err := os.WriteFile(p.Out, b, 0o644); err != nil {
		panic(err)
	}
}

// LoadReplay reads the "replay" member of a replay file into v.
func LoadReplay(path string, v any) error {
	b, err := os.ReadFile(path)
	if err != nil {
		return err
	}
	var f struct {
		Replay json.RawMessage `json:"replay"`
	}
	if err := json.Unmarshal(b, &f); err != nil {
		return err
	}
	return json.Unmarshal(f.Replay, v)
}

// DistinctSet counts distinct strings.
type DistinctSet struct {
	mu sync.Mutex
	m  map[string]struct{}
}

func (d *DistinctSet) Add(s string) {
	d.mu.Lock()
	if d.m == nil {
		d.m = map[string]struct{}{}
	}
	d.m[s] = struct{}{}
	d.mu.Unlock()
}
func (d *DistinctSet) Len() int64 { d.mu.Lock(); defer d.mu.Unlock(); return int64(len(d.m)) }

// WithWatchdog runs f and reports whether it returned within d (wall clock;
// generous, only to turn a genuine hang into a finding).
func WithWatchdog(d time.Duration, f func()) (returned bool, panicked any) {
	done := make(chan any, 1)
	go func() {
		defer func() { done <- recover() }()
		f()
	}()
	select {
	case p := <-done:
		return true, p
	case <-time.After(d):
		return false, nil
	}
}
