package vk

// LinOp is one completed operation of a concurrent history.
type LinOp struct {
	Thread int
	Name   string
	Call   int // logical time of invocation
	Ret    int // logical time of response
	Result string
}

// Linearizable reports whether some total order of ops that respects real-time
// precedence (a.Ret < b.Call ⇒ a before b) yields exactly the recorded results
// when replayed on the sequential specification.  seq receives the operation
// indices in order and returns the result of each; it is memoised by order.
// Brute force: intended for ≤ 8 operations.
func Linearizable(ops []LinOp, seq func(order []int) []string) (bool, []int) {
	n := len(ops)
	used := make([]bool, n)
	order := make([]int, 0, n)
	var found []int
	var rec func() bool
	rec = func() bool {
		if len(order) == n {
			res := seq(order)
			for i, oi := range order {
				if res[i] != ops[oi].Result {
					return false
				}
			}
			found = append([]int{}, order...)
			return true
		}
		for i := 0; i < n; i++ {
			if used[i] {
				continue
			}
			// i may come next only if no unused op returned before i was called
			ok := true
			for j := 0; j < n; j++ {
				if !used[j] && j != i && ops[j].Ret < ops[i].Call {
					ok = false
					break
				}
			}
			if !ok {
				continue
			}
			used[i] = true
			order = append(order, i)
			if rec() {
				return true
			}
			order = order[:len(order)-1]
			used[i] = false
		}
		return false
	}
	return rec(), found
}
