// Package vsync mirrors the parts of package sync used by the code under
// test.  Inside a controlled run (vrt) every operation is a scheduling point
// with a blocking predicate; outside it the real primitive is used.
package vsync

import (
	"sync"

	"github.com/glyphlang/glyph/internal/verif/vrt"
)

type Locker = sync.Locker
type Pool = sync.Pool
type Map = sync.Map

// Mutex mirrors sync.Mutex.
type Mutex struct {
	real   sync.Mutex
	locked bool
	sv     vrt.SyncVar
}

func (m *Mutex) Lock() {
	if !vrt.Active() {
		if vrt.Releasing() {
			return
		}
		m.real.Lock()
		return
	}
	vrt.Block("Lock", m, func() bool { return !m.locked })
	m.locked = true
	m.sv.Acquire()
}

func (m *Mutex) TryLock() bool {
	if !vrt.Active() {
		if vrt.Releasing() {
			return true
		}
		return m.real.TryLock()
	}
	vrt.SchedPoint("TryLock", m)
	if m.locked {
		return false
	}
	m.locked = true
	m.sv.Acquire()
	return true
}

func (m *Mutex) Unlock() {
	if !vrt.Active() {
		if vrt.Releasing() {
			return
		}
		m.real.Unlock()
		return
	}
	vrt.SchedPoint("Unlock", m)
	if !m.locked {
		panic("sync: unlock of unlocked mutex")
	}
	m.sv.Release()
	m.locked = false
}

// RWMutex mirrors sync.RWMutex, including writer preference: once a writer
// has announced itself new readers block (so recursive read locking with a
// waiting writer deadlocks exactly as in Go).
type RWMutex struct {
	real     sync.RWMutex
	writer   bool
	readers  int
	wwaiting int
	sv       vrt.SyncVar // released by writers
	rv       vrt.SyncVar // released by readers
}

func (m *RWMutex) Lock() {
	if !vrt.Active() {
		if vrt.Releasing() {
			return
		}
		m.real.Lock()
		return
	}
	vrt.SchedPoint("WLockAnnounce", m)
	m.wwaiting++
	vrt.Block("WLock", m, func() bool { return !m.writer && m.readers == 0 })
	m.wwaiting--
	m.writer = true
	m.sv.Acquire()
	m.rv.Acquire()
}

func (m *RWMutex) TryLock() bool {
	if !vrt.Active() {
		if vrt.Releasing() {
			return true
		}
		return m.real.TryLock()
	}
	vrt.SchedPoint("TryWLock", m)
	if m.writer || m.readers > 0 {
		return false
	}
	m.writer = true
	m.sv.Acquire()
	m.rv.Acquire()
	return true
}

func (m *RWMutex) Unlock() {
	if !vrt.Active() {
		if vrt.Releasing() {
			return
		}
		m.real.Unlock()
		return
	}
	vrt.SchedPoint("WUnlock", m)
	if !m.writer {
		panic("sync: Unlock of unlocked RWMutex")
	}
	m.sv.Release()
	m.writer = false
}

func (m *RWMutex) RLock() {
	if !vrt.Active() {
		if vrt.Releasing() {
			return
		}
		m.real.RLock()
		return
	}
	vrt.Block("RLock", m, func() bool { return !m.writer && m.wwaiting == 0 })
	m.readers++
	m.sv.Acquire()
}

func (m *RWMutex) TryRLock() bool {
	if !vrt.Active() {
		if vrt.Releasing() {
			return true
		}
		return m.real.TryRLock()
	}
	vrt.SchedPoint("TryRLock", m)
	if m.writer || m.wwaiting > 0 {
		return false
	}
	m.readers++
	m.sv.Acquire()
	return true
}

func (m *RWMutex) RUnlock() {
	if !vrt.Active() {
		if vrt.Releasing() {
			return
		}
		m.real.RUnlock()
		return
	}
	vrt.SchedPoint("RUnlock", m)
	if m.readers <= 0 {
		panic("sync: RUnlock of unlocked RWMutex")
	}
	m.rv.Release()
	m.readers--
}

type rlocker RWMutex

func (r *rlocker) Lock()   { (*RWMutex)(r).RLock() }
func (r *rlocker) Unlock() { (*RWMutex)(r).RUnlock() }

func (m *RWMutex) RLocker() Locker { return (*rlocker)(m) }

// WaitGroup mirrors sync.WaitGroup.
type WaitGroup struct {
	real sync.WaitGroup
	n    int
	sv   vrt.SyncVar
}

func (w *WaitGroup) Add(d int) {
	if !vrt.Active() {
		if vrt.Releasing() {
			return
		}
		w.real.Add(d)
		return
	}
	vrt.SchedPoint("WGAdd", w)
	if d < 0 {
		w.sv.Release()
	}
	w.n += d
	if w.n < 0 {
		panic("sync: negative WaitGroup counter")
	}
}

func (w *WaitGroup) Done() { w.Add(-1) }

func (w *WaitGroup) Wait() {
	if !vrt.Active() {
		if vrt.Releasing() {
			return
		}
		w.real.Wait()
		return
	}
	vrt.Block("WGWait", w, func() bool { return w.n == 0 })
	w.sv.Acquire()
}

func (w *WaitGroup) Go(f func()) {
	w.Add(1)
	vrt.Go(func() {
		defer w.Done()
		f()
	})
}

// Once mirrors sync.Once.
type Once struct {
	real    sync.Once
	done    bool
	running bool
	sv      vrt.SyncVar
}

func (o *Once) Do(f func()) {
	if !vrt.Active() {
		if vrt.Releasing() {
			return
		}
		if o.done {
			return
		}
		o.real.Do(func() {
			f()
			o.done = true
		})
		return
	}
	vrt.Block("OnceDo", o, func() bool { return !o.running })
	if o.done {
		o.sv.Acquire()
		return
	}
	o.running = true
	defer func() {
		o.done = true
		o.running = false
		o.sv.Release()
	}()
	f()
}

// Cond mirrors sync.Cond (only what is needed).
type Cond struct {
	L       Locker
	waiters []*bool
}

func NewCond(l Locker) *Cond { return &Cond{L: l} }

func (c *Cond) Wait() {
	if !vrt.Active() {
		panic("vsync.Cond outside a controlled run is not supported")
	}
	woken := false
	c.waiters = append(c.waiters, &woken)
	c.L.Unlock()
	vrt.Block("CondWait", c, func() bool { return woken })
	c.L.Lock()
}

func (c *Cond) Signal() {
	vrt.SchedPoint("CondSignal", c)
	if len(c.waiters) > 0 {
		*c.waiters[0] = true
		c.waiters = c.waiters[1:]
	}
}

func (c *Cond) Broadcast() {
	vrt.SchedPoint("CondBroadcast", c)
	for _, w := range c.waiters {
		*w = true
	}
	c.waiters = nil
}

// OnceFunc etc. are passed through.
func OnceFunc(f func()) func() { return sync.OnceFunc(f) }
