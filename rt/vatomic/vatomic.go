// Package vatomic mirrors sync/atomic: every operation is a scheduling point
// and a synchronisation edge on the word it touches.
package vatomic

import (
	"sync/atomic"
	"unsafe"

	"github.com/glyphlang/glyph/internal/verif/vrt"
)

func pt(kind string, p unsafe.Pointer) { vrt.AtomicPoint(kind, p) }

func AddInt32(p *int32, d int32) int32 { pt("atomic", unsafe.Pointer(p)); return atomic.AddInt32(p, d) }
func AddInt64(p *int64, d int64) int64 { pt("atomic", unsafe.Pointer(p)); return atomic.AddInt64(p, d) }
func AddUint32(p *uint32, d uint32) uint32 {
	pt("atomic", unsafe.Pointer(p))
	return atomic.AddUint32(p, d)
}
func AddUint64(p *uint64, d uint64) uint64 {
	pt("atomic", unsafe.Pointer(p))
	return atomic.AddUint64(p, d)
}
func LoadInt32(p *int32) int32        { pt("atomic", unsafe.Pointer(p)); return atomic.LoadInt32(p) }
func LoadInt64(p *int64) int64        { pt("atomic", unsafe.Pointer(p)); return atomic.LoadInt64(p) }
func LoadUint32(p *uint32) uint32     { pt("atomic", unsafe.Pointer(p)); return atomic.LoadUint32(p) }
func LoadUint64(p *uint64) uint64     { pt("atomic", unsafe.Pointer(p)); return atomic.LoadUint64(p) }
func StoreInt32(p *int32, v int32)    { pt("atomic", unsafe.Pointer(p)); atomic.StoreInt32(p, v) }
func StoreInt64(p *int64, v int64)    { pt("atomic", unsafe.Pointer(p)); atomic.StoreInt64(p, v) }
func StoreUint32(p *uint32, v uint32) { pt("atomic", unsafe.Pointer(p)); atomic.StoreUint32(p, v) }
func StoreUint64(p *uint64, v uint64) { pt("atomic", unsafe.Pointer(p)); atomic.StoreUint64(p, v) }
func SwapInt32(p *int32, v int32) int32 {
	pt("atomic", unsafe.Pointer(p))
	return atomic.SwapInt32(p, v)
}
func SwapInt64(p *int64, v int64) int64 {
	pt("atomic", unsafe.Pointer(p))
	return atomic.SwapInt64(p, v)
}
func CompareAndSwapInt32(p *int32, o, n int32) bool {
	pt("atomic", unsafe.Pointer(p))
	return atomic.CompareAndSwapInt32(p, o, n)
}
func CompareAndSwapInt64(p *int64, o, n int64) bool {
	pt("atomic", unsafe.Pointer(p))
	return atomic.CompareAndSwapInt64(p, o, n)
}
func CompareAndSwapUint32(p *uint32, o, n uint32) bool {
	pt("atomic", unsafe.Pointer(p))
	return atomic.CompareAndSwapUint32(p, o, n)
}
func CompareAndSwapUint64(p *uint64, o, n uint64) bool {
	pt("atomic", unsafe.Pointer(p))
	return atomic.CompareAndSwapUint64(p, o, n)
}

type Bool struct{ v atomic.Bool }

func (b *Bool) Load() bool   { pt("atomic", unsafe.Pointer(b)); return b.v.Load() }
func (b *Bool) Store(x bool) { pt("atomic", unsafe.Pointer(b)); b.v.Store(x) }
func (b *Bool) Swap(x bool) bool {
	pt("atomic", unsafe.Pointer(b))
	return b.v.Swap(x)
}
func (b *Bool) CompareAndSwap(o, n bool) bool {
	pt("atomic", unsafe.Pointer(b))
	return b.v.CompareAndSwap(o, n)
}

type Int32 struct{ v atomic.Int32 }

func (b *Int32) Load() int32        { pt("atomic", unsafe.Pointer(b)); return b.v.Load() }
func (b *Int32) Store(x int32)      { pt("atomic", unsafe.Pointer(b)); b.v.Store(x) }
func (b *Int32) Add(x int32) int32  { pt("atomic", unsafe.Pointer(b)); return b.v.Add(x) }
func (b *Int32) Swap(x int32) int32 { pt("atomic", unsafe.Pointer(b)); return b.v.Swap(x) }
func (b *Int32) CompareAndSwap(o, n int32) bool {
	pt("atomic", unsafe.Pointer(b))
	return b.v.CompareAndSwap(o, n)
}

type Int64 struct{ v atomic.Int64 }

func (b *Int64) Load() int64        { pt("atomic", unsafe.Pointer(b)); return b.v.Load() }
func (b *Int64) Store(x int64)      { pt("atomic", unsafe.Pointer(b)); b.v.Store(x) }
func (b *Int64) Add(x int64) int64  { pt("atomic", unsafe.Pointer(b)); return b.v.Add(x) }
func (b *Int64) Swap(x int64) int64 { pt("atomic", unsafe.Pointer(b)); return b.v.Swap(x) }
func (b *Int64) CompareAndSwap(o, n int64) bool {
	pt("atomic", unsafe.Pointer(b))
	return b.v.CompareAndSwap(o, n)
}

type Uint64 struct{ v atomic.Uint64 }

func (b *Uint64) Load() uint64        { pt("atomic", unsafe.Pointer(b)); return b.v.Load() }
func (b *Uint64) Store(x uint64)      { pt("atomic", unsafe.Pointer(b)); b.v.Store(x) }
func (b *Uint64) Add(x uint64) uint64 { pt("atomic", unsafe.Pointer(b)); return b.v.Add(x) }

type Value struct{ v atomic.Value }

func (b *Value) Load() any      { pt("atomic", unsafe.Pointer(b)); return b.v.Load() }
func (b *Value) Store(x any)    { pt("atomic", unsafe.Pointer(b)); b.v.Store(x) }
func (b *Value) Swap(x any) any { pt("atomic", unsafe.Pointer(b)); return b.v.Swap(x) }
func (b *Value) CompareAndSwap(o, n any) bool {
	pt("atomic", unsafe.Pointer(b))
	return b.v.CompareAndSwap(o, n)
}

type Pointer[T any] struct{ v atomic.Pointer[T] }

func (b *Pointer[T]) Load() *T   { pt("atomic", unsafe.Pointer(b)); return b.v.Load() }
func (b *Pointer[T]) Store(x *T) { pt("atomic", unsafe.Pointer(b)); b.v.Store(x) }
