package vrt

import (
	"reflect"
	"time"
	"unsafe"
)

// Channel semantics owned by the scheduler.  Real Go channels are kept as
// identities (and element types); their contents live in chanState while a
// controlled run is active.

type bufItem struct {
	v  any
	vc vclock
}

type chanState struct {
	keep   any // keeps the channel alive so its address is not reused
	cap    int
	buf    []bufItem
	closed bool
	sv     SyncVar
	id     int
}

type selCase struct {
	send bool
	ch   uintptr // 0 = nil channel (never ready)
	st   *chanState
	val  any
	// real-channel fallback for receives on channels fed by uninstrumented code
	tryReal func() (any, bool, bool) // value, ok(not closed), got
}

type selState struct {
	cases  []selCase
	done   bool // completed by a rendezvous partner
	idx    int
	val    any
	ok     bool
	thread *thread
	vc     vclock
}

func chanPtr[C any](c C) uintptr { return *(*uintptr)(unsafe.Pointer(&c)) }

func (r *Run) chanOf(ptr uintptr, keep any, capacity int) *chanState {
	if ptr == 0 {
		return nil
	}
	s := r.chans[ptr]
	if s == nil {
		s = &chanState{keep: keep, cap: capacity, id: len(r.chans) + 1}
		r.chans[ptr] = s
	}
	return s
}

// partnerFor looks for a thread parked on the opposite operation of channel st.
func (r *Run) partnerFor(st *chanState, wantSend bool, self *thread) (*selState, int) {
	for _, t := range r.threads {
		if t == self || t.done || t.op == nil || t.op.sel == nil || t.op.sel.done {
			continue
		}
		for i, c := range t.op.sel.cases {
			if c.st == st && c.send == wantSend {
				return t.op.sel, i
			}
		}
	}
	return nil, -1
}

// caseReady reports whether case c of thread self could complete now.
func (r *Run) caseReady(c *selCase, self *thread) bool {
	st := c.st
	if st == nil {
		return false
	}
	if c.send {
		if st.closed {
			return true // will panic
		}
		if len(st.buf) < st.cap {
			return true
		}
		if st.cap == 0 {
			p, _ := r.partnerFor(st, false, self)
			return p != nil
		}
		return false
	}
	if len(st.buf) > 0 || st.closed {
		return true
	}
	if st.cap == 0 {
		if p, _ := r.partnerFor(st, true, self); p != nil {
			return true
		}
	}
	if c.tryReal != nil {
		// peek is not possible on real channels; a successful receive is
		// stashed in the case and reported as ready.
		if c.val == nil {
			if v, ok, got := c.tryReal(); got {
				c.val = realStash{v, ok}
				return true
			}
		} else {
			return true
		}
	}
	return false
}

type realStash struct {
	v  any
	ok bool
}

// doSelect is the common implementation of all channel operations.
func (r *Run) doSelect(kind string, obj any, cases []selCase, hasDefault bool) (int, any, bool) {
	t := r.cur
	ss := &selState{cases: cases, thread: t}
	anyReady := func() bool {
		if ss.done {
			return true
		}
		for i := range ss.cases {
			if r.caseReady(&ss.cases[i], t) {
				return true
			}
		}
		return false
	}
	op := &Op{Kind: kind, Obj: obj, sel: ss}
	if hasDefault {
		op.Ready = func() bool { return true }
	} else {
		op.Ready = anyReady
	}
	r.Yield(op)
	if ss.done {
		// a partner completed one of our cases while we were parked
		if r.cfg.Races {
			t.vc.join(ss.vc)
		}
		return ss.idx, ss.val, ss.ok
	}
	var ready []int
	for i := range ss.cases {
		if r.caseReady(&ss.cases[i], t) {
			ready = append(ready, i)
		}
	}
	if len(ready) == 0 {
		return -1, nil, false // default
	}
	pick := ready[0]
	if len(ready) > 1 {
		pick = ready[r.choose(KSelect, len(ready), false)]
	}
	c := &ss.cases[pick]
	st := c.st
	if c.send {
		if st.closed {
			panic("send on closed channel")
		}
		if st.cap == 0 {
			// hand the value directly to a parked receiver
			p, pi := r.partnerFor(st, false, t)
			if p == nil {
				panic("vrt: ready unbuffered send without receiver")
			}
			p.done, p.idx, p.val, p.ok = true, pi, c.val, true
			if r.cfg.Races {
				p.vc = t.vc.clone()
				t.vc.tick(t.id)
			}
			return pick, nil, true
		}
		it := bufItem{v: c.val}
		if r.cfg.Races {
			it.vc = t.vc.clone()
			t.vc.tick(t.id)
		}
		st.buf = append(st.buf, it)
		return pick, nil, true
	}
	// receive
	if len(st.buf) > 0 {
		it := st.buf[0]
		st.buf = st.buf[1:]
		if r.cfg.Races {
			t.vc.join(it.vc)
		}
		// a sender parked on a full buffer may now proceed by itself
		return pick, it.v, true
	}
	if p, pi := r.partnerFor(st, true, t); st.cap == 0 && p != nil && !st.closed {
		v := p.cases[pi].val
		p.done, p.idx, p.ok = true, pi, true
		if r.cfg.Races {
			t.vc.join(p.thread.vc)
			p.vc = t.vc.clone()
			t.vc.tick(t.id)
		}
		return pick, v, true
	}
	if st.closed {
		if r.cfg.Races {
			t.vc.join(st.sv.vc)
		}
		return pick, nil, false
	}
	if rs, ok := c.val.(realStash); ok {
		return pick, rs.v, rs.ok
	}
	panic("vrt: ready receive case with nothing to receive")
}

func recvCase[T any](r *Run, c <-chan T) selCase {
	p := chanPtr(c)
	sc := selCase{ch: p}
	if p != 0 {
		sc.st = r.chanOf(p, c, cap(c))
		cc := c
		sc.tryReal = func() (any, bool, bool) {
			select {
			case v, ok := <-cc:
				return v, ok, true
			default:
				return nil, false, false
			}
		}
	}
	return sc
}

func sendCase[T any](r *Run, c chan<- T, v T) selCase {
	p := chanPtr(c)
	sc := selCase{ch: p, send: true, val: v}
	if p != 0 {
		sc.st = r.chanOf(p, c, cap(c))
	}
	return sc
}

func castVal[T any](v any) T {
	if v == nil {
		var z T
		return z
	}
	return v.(T)
}

// Send is the rewritten `c <- v`.
func Send[T any](c chan<- T, v T) {
	r := active()
	if r == nil {
		c <- v
		return
	}
	cs := []selCase{sendCase(r, c, v)}
	r.doSelect("send", cs[0].st, cs, false)
}

// Recv is the rewritten `<-c`.
func Recv[T any](c <-chan T) T {
	r := active()
	if r == nil {
		return <-c
	}
	cs := []selCase{recvCase(r, c)}
	_, v, _ := r.doSelect("recv", cs[0].st, cs, false)
	return castVal[T](v)
}

// Recv2 is the rewritten `v, ok := <-c`.
func Recv2[T any](c <-chan T) (T, bool) {
	r := active()
	if r == nil {
		v, ok := <-c
		return v, ok
	}
	cs := []selCase{recvCase(r, c)}
	_, v, ok := r.doSelect("recv", cs[0].st, cs, false)
	return castVal[T](v), ok
}

// Close is the rewritten close(c).
func Close[T any](c chan<- T) {
	r := active()
	if r == nil {
		close(c)
		return
	}
	p := chanPtr(c)
	if p == 0 {
		panic("close of nil channel")
	}
	st := r.chanOf(p, c, cap(c))
	r.Yield(&Op{Kind: "close", Obj: st, Ready: func() bool { return true }})
	if st.closed {
		panic("close of closed channel")
	}
	st.closed = true
	st.sv.Release()
	// Also close the real channel so that uninstrumented readers and
	// passthrough-mode code observe it.
	func() {
		defer func() { recover() }()
		close(c)
	}()
}

// Len is the rewritten len(c) for channels.
func Len[T any](c chan T) int {
	r := active()
	if r == nil {
		return len(c)
	}
	p := chanPtr(c)
	if p == 0 {
		return 0
	}
	return len(r.chanOf(p, c, cap(c)).buf)
}

// Case is one arm of a rewritten select statement.
type Case struct {
	mk   func(r *Run) selCase
	real reflect.SelectCase
}

// RecvCase builds a receive arm.
func RecvCase[T any](c <-chan T) Case {
	return Case{mk: func(r *Run) selCase { return recvCase(r, c) },
		real: reflect.SelectCase{Dir: reflect.SelectRecv, Chan: reflect.ValueOf(c)}}
}

// SendCase builds a send arm.
func SendCase[T any](c chan<- T, v T) Case {
	return Case{mk: func(r *Run) selCase { return sendCase(r, c, v) },
		real: reflect.SelectCase{Dir: reflect.SelectSend, Chan: reflect.ValueOf(c), Send: reflect.ValueOf(&v).Elem()}}
}

// Select is the rewritten select statement; it returns the index of the arm
// that fired (-1 for default), the received value and the ok flag.  It is only
// valid inside a controlled run: instrumented code keeps the original select
// for the passthrough case (see the instrumenter).
func Select(hasDefault bool, cases ...Case) (int, any, bool) {
	r := active()
	if r == nil {
		rc := make([]reflect.SelectCase, 0, len(cases)+1)
		for _, c := range cases {
			rc = append(rc, c.real)
		}
		if hasDefault {
			rc = append(rc, reflect.SelectCase{Dir: reflect.SelectDefault})
		}
		i, v, ok := reflect.Select(rc)
		if hasDefault && i == len(cases) {
			return -1, nil, false
		}
		if rc[i].Dir == reflect.SelectRecv && v.IsValid() {
			return i, v.Interface(), ok
		}
		return i, nil, ok
	}
	cs := make([]selCase, len(cases))
	for i, c := range cases {
		cs[i] = c.mk(r)
	}
	var obj any
	if len(cs) > 0 {
		obj = cs[0].st
	}
	return r.doSelect("select", obj, cs, hasDefault)
}

// Cast converts the value returned by Select to the element type of c.
func Cast[T any](c <-chan T, v any) T { return castVal[T](v) }

// ---------------------------------------------------------------------------
// virtual time

var epochTime = time.Date(2030, 1, 1, 0, 0, 0, 0, time.UTC)

// passthrough offset: when no run is active the virtual clock can still be
// driven manually (sequential harnesses), see SetManualClock.
var manual struct {
	on  bool
	now time.Duration
}

// SetManualClock switches the virtual clock on outside controlled runs: Now()
// returns epoch+offset and only AdvanceManual moves it.
func SetManualClock(on bool) { manual.on, manual.now = on, 0 }

// AdvanceManual moves the manual clock.
func AdvanceManual(d time.Duration) { manual.now += d }

// Now is the rewritten time.Now.
func Now() time.Time {
	if r := rcur; r != nil {
		return epochTime.Add(r.now)
	}
	if manual.on {
		return epochTime.Add(manual.now)
	}
	return time.Now()
}

// Since is the rewritten time.Since.
func Since(t time.Time) time.Duration { return Now().Sub(t) }

// Until is the rewritten time.Until.
func Until(t time.Time) time.Duration { return t.Sub(Now()) }

func (r *Run) addTimer(d time.Duration, period time.Duration, fire func(r *Run)) *timer {
	if d < 0 {
		d = 0
	}
	r.tseq++
	tm := &timer{when: r.now + d, seq: r.tseq, fire: fire, period: period}
	r.timers = append(r.timers, tm)
	return tm
}

func (r *Run) nextTimer() *timer {
	var best *timer
	for _, t := range r.timers {
		if t.dead {
			continue
		}
		if best == nil || t.when < best.when || (t.when == best.when && t.seq < best.seq) {
			best = t
		}
	}
	return best
}

func (r *Run) gcTimers() {
	out := r.timers[:0]
	for _, t := range r.timers {
		if !t.dead {
			out = append(out, t)
		}
	}
	r.timers = out
}

// fireNextTimer jumps the clock to the earliest pending timer and fires it.
func (r *Run) fireNextTimer() bool {
	t := r.nextTimer()
	if t == nil {
		return false
	}
	r.fireTimer(t)
	return true
}

func (r *Run) fireTimer(t *timer) {
	if t.when > r.now {
		r.now = t.when
	}
	if t.period > 0 {
		t.when += t.period
	} else {
		t.dead = true
		r.gcTimers()
	}
	t.fire(r)
}

// Advance moves the virtual clock forward by d, firing every timer that
// becomes due, in deadline order.  After each firing the caller waits for the
// system to become idle so that timer-driven work happens "at" its deadline.
func Advance(d time.Duration) {
	r := active()
	if r == nil {
		if manual.on {
			manual.now += d
		}
		return
	}
	target := r.now + d
	for {
		t := r.nextTimer()
		if t == nil || t.when > target {
			break
		}
		r.fireTimer(t)
		WaitIdle()
	}
	r.now = target
}

// Sleep is the rewritten time.Sleep.
func Sleep(d time.Duration) {
	r := active()
	if r == nil {
		if manual.on {
			return
		}
		time.Sleep(d)
		return
	}
	woken := false
	r.addTimer(d, 0, func(*Run) { woken = true })
	r.Yield(&Op{Kind: "sleep", Ready: func() bool { return woken }})
}

// chanSendNB performs a model-level non-blocking send (timer delivery).
func chanSendNB[T any](r *Run, c chan T, v T) {
	st := r.chanOf(chanPtr(c), c, cap(c))
	if len(st.buf) < st.cap {
		st.buf = append(st.buf, bufItem{v: v})
	}
}

// After is the rewritten time.After.
func After(d time.Duration) <-chan time.Time {
	r := active()
	if r == nil {
		return time.After(d)
	}
	c := make(chan time.Time, 1)
	r.chanOf(chanPtr(c), c, 1)
	r.addTimer(d, 0, func(r *Run) { chanSendNB(r, c, epochTime.Add(r.now)) })
	return c
}

// Tick is the rewritten time.Tick.
func Tick(d time.Duration) <-chan time.Time { return NewTicker(d).C }

// Timer mirrors time.Timer.
type Timer struct {
	C    <-chan time.Time
	c    chan time.Time
	t    *timer
	real *time.Timer
	f    func()
}

// NewTimer is the rewritten time.NewTimer.
func NewTimer(d time.Duration) *Timer {
	r := active()
	if r == nil {
		rt := time.NewTimer(d)
		return &Timer{C: rt.C, real: rt}
	}
	c := make(chan time.Time, 1)
	r.chanOf(chanPtr(c), c, 1)
	tm := &Timer{C: c, c: c}
	tm.t = r.addTimer(d, 0, func(r *Run) { chanSendNB(r, c, epochTime.Add(r.now)) })
	return tm
}

// AfterFunc is the rewritten time.AfterFunc.
func AfterFunc(d time.Duration, f func()) *Timer {
	r := active()
	if r == nil {
		return &Timer{real: time.AfterFunc(d, f)}
	}
	tm := &Timer{f: f}
	tm.t = r.addTimer(d, 0, func(r *Run) { r.spawn("afterfunc", false, f) })
	return tm
}

// Stop mirrors (*time.Timer).Stop.
func (t *Timer) Stop() bool {
	if t.real != nil {
		return t.real.Stop()
	}
	if t.t == nil {
		return false
	}
	was := !t.t.dead
	t.t.dead = true
	if r := rcur; r != nil {
		r.gcTimers()
	}
	return was
}

// Reset mirrors (*time.Timer).Reset.
func (t *Timer) Reset(d time.Duration) bool {
	if t.real != nil {
		return t.real.Reset(d)
	}
	r := active()
	was := t.t != nil && !t.t.dead
	if t.t != nil {
		t.t.dead = true
	}
	if r == nil {
		return was
	}
	r.gcTimers()
	if t.f != nil {
		f := t.f
		t.t = r.addTimer(d, 0, func(r *Run) { r.spawn("afterfunc", false, f) })
	} else {
		c := t.c
		t.t = r.addTimer(d, 0, func(r *Run) { chanSendNB(r, c, epochTime.Add(r.now)) })
	}
	return was
}

// Ticker mirrors time.Ticker.
type Ticker struct {
	C    <-chan time.Time
	c    chan time.Time
	t    *timer
	real *time.Ticker
}

// NewTicker is the rewritten time.NewTicker.
func NewTicker(d time.Duration) *Ticker {
	r := active()
	if r == nil {
		if manual.on {
			// sequential harness: tickers never fire by themselves
			c := make(chan time.Time, 1)
			return &Ticker{C: c, c: c}
		}
		rt := time.NewTicker(d)
		return &Ticker{C: rt.C, real: rt}
	}
	if d <= 0 {
		panic("non-positive interval for NewTicker")
	}
	c := make(chan time.Time, 1)
	r.chanOf(chanPtr(c), c, 1)
	tk := &Ticker{C: c, c: c}
	tk.t = r.addTimer(d, d, func(r *Run) { chanSendNB(r, c, epochTime.Add(r.now)) })
	return tk
}

// Stop mirrors (*time.Ticker).Stop.
func (t *Ticker) Stop() {
	if t.real != nil {
		t.real.Stop()
		return
	}
	if t.t != nil {
		t.t.dead = true
		if r := rcur; r != nil {
			r.gcTimers()
		}
	}
}

// Reset mirrors (*time.Ticker).Reset.
func (t *Ticker) Reset(d time.Duration) {
	if t.real != nil {
		t.real.Reset(d)
		return
	}
	if t.t != nil {
		t.t.period = d
		if r := rcur; r != nil {
			t.t.when = r.now + d
		}
	}
}

// AdvanceCoalesced is Advance, except that a periodic timer with more than
// maxFirings due instants inside the jump is fired only at its first
// maxFirings-1 instants and at its last due instant (assumption, stated in the
// evidence of the checks that use it: with no other event in between, the
// handler's effect at a later tick subsumes the skipped ones).
func AdvanceCoalesced(d time.Duration, maxFirings int) {
	r := active()
	if r == nil {
		Advance(d)
		return
	}
	target := r.now + d
	fired := map[*timer]int{}
	for {
		t := r.nextTimer()
		if t == nil || t.when > target {
			break
		}
		if t.period > 0 {
			fired[t]++
			if fired[t] == maxFirings {
				// jump to the last due instant
				remaining := (target - t.when) / t.period
				t.when += remaining * t.period
			}
		}
		r.fireTimer(t)
		WaitIdle()
	}
	r.now = target
}
