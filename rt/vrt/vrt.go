// Package vrt is a controlled cooperative scheduler for Go code whose
// synchronisation operations have been redirected to it (by the verif
// instrumenter) plus a preemption-bounded depth-first schedule explorer.
//
// Exactly one controlled goroutine ("thread") runs at a time.  Every
// redirected operation (lock, channel op, atomic, spawn, sleep, …) is a
// scheduling point: the thread publishes the operation it is about to perform
// together with an enabledness predicate and yields; the scheduler picks, from
// the enabled threads, the one dictated by the current choice sequence.
//
// When no exploration is active (Active()==false) every shim falls through to
// the real Go primitive, so instrumented packages still work normally.
package vrt

import (
	"fmt"
	"runtime"
	"runtime/debug"
	"runtime/metrics"
	"sort"
	"strings"
	"sync"
	"syscall"
	"time"
)

// ---------------------------------------------------------------------------
// run state

type thread struct {
	id     int
	name   string
	wake   chan struct{}
	op     *Op
	done   bool
	daemon bool
	vc     vclock
}

// Op is a pending operation of a thread.
type Op struct {
	Kind  string
	Obj   any           // identity for traces
	Ready func() bool   // enabledness
	sel   *selState     // non-nil for channel operations
	wait  time.Duration // absolute virtual deadline for sleepers (0 = none)
}

// PointKind distinguishes scheduler choices.
const (
	KThread = 0 // which thread runs next
	KSelect = 1 // which ready select case fires
	KValue  = 2 // harness-provided environment choice
)

// Point is one recorded choice point of an execution.
type Point struct {
	Kind           int
	N              int  // number of alternatives
	Chosen         int  // alternative taken
	RunningEnabled bool // KThread: alternative 0 is the thread that was running
}

// Outcome of one execution.
type Outcome struct {
	Kind   string // "ok" | "panic" | "deadlock" | "steplimit" | "diverged"
	Detail string
}

type timer struct {
	when   time.Duration
	seq    int
	fire   func(r *Run) // runs inside scheduler context
	dead   bool
	period time.Duration
}

// Run is one controlled execution.
type Run struct {
	cfg      Config
	threads  []*thread
	cur      *thread
	prefix   []int
	Points   []Point
	Choices  []int
	steps    int
	aborted  bool
	outcome  Outcome
	chans    map[uintptr]*chanState
	now      time.Duration
	timers   []*timer
	tseq     int
	objIDs   map[any]int
	finished chan struct{}
	wg       sync.WaitGroup
	Trace    []string
	tracing  bool
	stateH   map[uint64]struct{}
	h        uint64 // running hash of the schedule so far
	races    []string
	raceSeen map[string]bool
	shadow   map[uintptr]*shadowCell
	atomics  map[uintptr]*SyncVar
	leaked   int
	mainDone bool
}

var rcur *Run // the active run; only touched by the running thread or between runs

// Active reports whether a controlled execution is in progress.
func Active() bool { return rcur != nil && !rcur.aborted }

func active() *Run {
	r := rcur
	if r == nil {
		return nil
	}
	if r.aborted {
		// The execution is being torn down: unwind this goroutine.
		runtime.Goexit()
	}
	return r
}

// Releasing reports whether shims should treat release operations as no-ops
// (execution being torn down, deferred unlocks running during Goexit).
func Releasing() bool { return rcur != nil && rcur.aborted }

// Config bounds one exploration.
type Config struct {
	MaxPreempt     int           // preemption bound (thread switches away from an enabled thread)
	SelectCost     int           // cost charged for taking a non-default ready select case (0 = free)
	ValueCost      int           // cost charged for a non-default Choose alternative
	MaxSteps       int           // per-execution step limit (default 100000)
	MaxExecs       int           // 0 = unlimited
	ExecTimeout    time.Duration // CPU-time watchdog for one execution (default 60 s; 20 x as wall time); see RunOnce
	Deadline       time.Time
	Shard, NShard  int
	Trace          bool
	NoAutoTimers   bool // do not fire virtual timers at quiescence
	Races          bool // run the happens-before race monitor
	States         bool // hash schedule prefixes (set by Explore)
	NoAtomicPoints bool // atomics are not scheduling points (still HB edges)
}

func (r *Run) objID(o any) int {
	if o == nil {
		return 0
	}
	id, ok := r.objIDs[o]
	if !ok {
		id = len(r.objIDs) + 1
		r.objIDs[o] = id
	}
	return id
}

func mix(h, v uint64) uint64 {
	h ^= v + 0x9e3779b97f4a7c15 + (h << 6) + (h >> 2)
	return h
}

func hashStr(s string) uint64 {
	var h uint64 = 1469598103934665603
	for i := 0; i < len(s); i++ {
		h ^= uint64(s[i])
		h *= 1099511628211
	}
	return h
}

// ---------------------------------------------------------------------------
// scheduling core

// Yield publishes op as the calling thread's pending operation and blocks
// until the scheduler selects this thread with op enabled.  The caller then
// performs the operation's effect (it is the only running thread).
func (r *Run) Yield(op *Op) {
	t := r.cur
	t.op = op
	next := r.pick()
	if next != t {
		r.cur = next
		next.wake <- struct{}{}
		<-t.wake
		if r.aborted {
			runtime.Goexit()
		}
	}
	if r.tracing {
		r.Trace = append(r.Trace, fmt.Sprintf("T%d %s #%d", t.id, op.Kind, r.objID(op.Obj)))
	}
	if r.cfg.States {
		r.h = mix(r.h, uint64(t.id)<<32|hashStr(op.Kind)&0xffffffff)
		r.h = mix(r.h, uint64(r.objID(op.Obj)))
		r.stateH[r.h] = struct{}{}
	}
	t.op = nil
}

// enabled returns the enabled threads in canonical order: the running thread
// first if it is enabled, then ascending ids.
func (r *Run) enabled() []*thread {
	var out []*thread
	if c := r.cur; c != nil && !c.done && c.op != nil && c.op.Ready() {
		out = append(out, c)
	}
	for _, t := range r.threads {
		if t == r.cur || t.done || t.op == nil {
			continue
		}
		if t.op.Ready() {
			out = append(out, t)
		}
	}
	return out
}

// choose consumes one choice.
func (r *Run) choose(kind, n int, runningEnabled bool) int {
	i := len(r.Points)
	c := 0
	if i < len(r.prefix) {
		c = r.prefix[i]
		if c >= n {
			r.fail("diverged", fmt.Sprintf("replayed choice %d at point %d but only %d alternatives", c, i, n))
		}
	}
	r.Points = append(r.Points, Point{Kind: kind, N: n, Chosen: c, RunningEnabled: runningEnabled})
	r.Choices = append(r.Choices, c)
	return c
}

// pick selects the next thread to run; never returns nil (ends the execution
// instead).
func (r *Run) pick() *thread {
	for {
		r.steps++
		if r.steps > r.cfg.MaxSteps {
			r.fail("steplimit", fmt.Sprintf("more than %d scheduling steps", r.cfg.MaxSteps))
		}
		en := r.enabled()
		if len(en) == 0 {
			if !r.cfg.NoAutoTimers && r.fireNextTimer() {
				continue
			}
			var blocked []string
			for _, t := range r.threads {
				if !t.done && t.op != nil && !t.daemon {
					blocked = append(blocked, fmt.Sprintf("T%d(%s):%s#%d", t.id, t.name, t.op.Kind, r.objID(t.op.Obj)))
				}
			}
			r.fail("deadlock", strings.Join(blocked, " "))
		}
		if len(en) == 1 {
			// forced move: not a choice point
			return en[0]
		}
		runningEnabled := en[0] == r.cur
		c := r.choose(KThread, len(en), runningEnabled)
		return en[c]
	}
}

// fail ends the execution with the given outcome; does not return.
func (r *Run) fail(kind, detail string) {
	if r.outcome.Kind == "" {
		r.outcome = Outcome{kind, detail}
	}
	r.end()
	runtime.Goexit()
}

// end tears the execution down: all parked threads are released and unwind.
func (r *Run) end() {
	if r.aborted {
		return
	}
	r.aborted = true
	for _, t := range r.threads {
		if !t.done && t != r.cur {
			r.leaked++
			select {
			case t.wake <- struct{}{}:
			default:
			}
		}
	}
	close(r.finished)
}

func (r *Run) spawn(name string, daemon bool, f func()) *thread {
	t := &thread{id: len(r.threads), name: name, wake: make(chan struct{}, 1), daemon: daemon}
	if r.cfg.Races {
		t.vc = r.cur.vc.fork(t.id)
		r.cur.vc.tick(r.cur.id)
	}
	r.threads = append(r.threads, t)
	t.op = &Op{Kind: "start", Ready: func() bool { return true }}
	r.wg.Add(1)
	go func() {
		defer r.wg.Done()
		<-t.wake
		if r.aborted {
			return
		}
		defer r.threadExit(t)
		t.op = nil
		f()
	}()
	return t
}

func (r *Run) threadExit(t *thread) {
	if r.aborted {
		return
	}
	if p := recover(); p != nil {
		buf := make([]byte, 4096)
		buf = buf[:runtime.Stack(buf, false)]
		r.outcome = Outcome{"panic", fmt.Sprintf("T%d(%s): %v\n%s", t.id, t.name, p, buf)}
		r.end()
		return
	}
	t.done = true
	t.op = nil
	if t.id == 0 {
		// main thread returned: the execution is complete
		r.mainDone = true
		if r.outcome.Kind == "" {
			r.outcome = Outcome{"ok", ""}
		}
		r.end()
		return
	}
	// hand the baton on
	r.cur = nil
	defer func() {
		// pick may fail() → Goexit, which is fine here
	}()
	next := r.pick()
	r.cur = next
	next.wake <- struct{}{}
}

// Go starts f as a new controlled thread (rewritten `go` statement).
func Go(f func()) {
	r := active()
	if r == nil {
		go f()
		return
	}
	r.spawn("go", false, f)
	r.Yield(&Op{Kind: "spawn", Ready: func() bool { return true }})
}

// GoDaemon is like Go but the thread does not count for deadlock reports.
func GoDaemon(f func()) {
	r := active()
	if r == nil {
		go f()
		return
	}
	r.spawn("daemon", true, f)
	r.Yield(&Op{Kind: "spawn", Ready: func() bool { return true }})
}

// Point is a plain scheduling point (used by atomics and explicit hooks).
func SchedPoint(kind string, obj any) {
	r := active()
	if r == nil {
		return
	}
	r.Yield(&Op{Kind: kind, Obj: obj, Ready: func() bool { return true }})
}

// Block parks the calling thread until ready() holds.
func Block(kind string, obj any, ready func() bool) {
	r := active()
	if r == nil {
		panic("vrt.Block outside a controlled run")
	}
	r.Yield(&Op{Kind: kind, Obj: obj, Ready: ready})
}

// WaitIdle blocks the calling (harness) thread until no other thread is
// enabled, i.e. the rest of the system is quiescent.
func WaitIdle() {
	r := active()
	if r == nil {
		return
	}
	me := r.cur
	r.Yield(&Op{Kind: "waitidle", Ready: func() bool {
		for _, t := range r.threads {
			if t == me || t.done || t.op == nil {
				continue
			}
			if t.op.Kind == "waitidle" {
				continue
			}
			if t.op.Ready() {
				return false
			}
		}
		return true
	}})
}

// Choose is a harness-level environment choice among n alternatives.
func Choose(n int) int {
	r := active()
	if r == nil {
		return 0
	}
	if n <= 1 {
		return 0
	}
	return r.choose(KValue, n, false)
}

// Live returns the number of threads (other than the caller) not yet finished.
func Live() int {
	r := rcur
	if r == nil {
		return 0
	}
	n := 0
	for _, t := range r.threads {
		if !t.done && t != r.cur {
			n++
		}
	}
	return n
}

// BlockedThreads describes unfinished threads other than the caller.
func BlockedThreads() []string {
	r := rcur
	var out []string
	if r == nil {
		return out
	}
	for _, t := range r.threads {
		if !t.done && t != r.cur && t.op != nil {
			out = append(out, fmt.Sprintf("T%d(%s):%s", t.id, t.name, t.op.Kind))
		}
	}
	return out
}

// ---------------------------------------------------------------------------
// one execution

// Exec is the record of one execution.
type Exec struct {
	Choices []int
	Points  []Point
	Outcome Outcome
	Trace   []string
	Steps   int
	Races   []string
	Leaked  int // threads still alive when the main thread returned
}

var execMu sync.Mutex

// The race monitor identifies locations by address, so no address may be
// recycled inside one execution: the collector is off while an execution with
// the monitor runs, and is run by hand between executions once enough has been
// allocated (gcHold/gcRelease nest: Explore holds it across all its executions).
var (
	gcHeld    int
	gcOld     int
	gcSample  = []metrics.Sample{{Name: "/gc/heap/allocs:bytes"}}
	gcLastRun uint64
)

func gcHold() {
	if gcHeld == 0 {
		gcOld = debug.SetGCPercent(-1)
		metrics.Read(gcSample)
		gcLastRun = gcSample[0].Value.Uint64()
	}
	gcHeld++
}

func gcRelease() {
	gcHeld--
	if gcHeld == 0 {
		debug.SetGCPercent(gcOld)
	}
}

// gcBetween runs the collector if more than 192 MiB were allocated since its last run.
func gcBetween() {
	metrics.Read(gcSample)
	if now := gcSample[0].Value.Uint64(); now-gcLastRun > 192<<20 {
		runtime.GC()
		metrics.Read(gcSample)
		gcLastRun = gcSample[0].Value.Uint64()
	}
}

// RunOnce executes body as thread 0 under the given choice prefix.
func RunOnce(cfg Config, prefix []int, body func()) *Exec {
	execMu.Lock()
	defer execMu.Unlock()
	if cfg.Races {
		gcHold()
		defer gcRelease()
		defer gcBetween()
	}
	if cfg.MaxSteps == 0 {
		cfg.MaxSteps = 100000
	}
	r := &Run{cfg: cfg, prefix: prefix, chans: map[uintptr]*chanState{}, objIDs: map[any]int{},
		finished: make(chan struct{}), tracing: cfg.Trace, stateH: map[uint64]struct{}{},
		raceSeen: map[string]bool{}, shadow: map[uintptr]*shadowCell{}, atomics: map[uintptr]*SyncVar{}}
	main := &thread{id: 0, name: "main", wake: make(chan struct{}, 1)}
	if cfg.Races {
		main.vc = newVC(0)
	}
	r.threads = []*thread{main}
	r.cur = main
	rcur = r
	r.wg.Add(1)
	go func() {
		defer r.wg.Done()
		defer r.threadExit(main)
		body()
	}()
	// Watchdog: between two scheduling points a thread runs code under test without the scheduler's control.  Code
	// that spins there (a loop whose exit condition a broken invariant made unreachable) never yields, and no step
	// limit can see it.  If the execution has not ended after ExecTimeout of CPU time it is abandoned with outcome
	// "hang": its goroutines are left behind (they cannot be killed), the shims stop serving them, and Explore refuses
	// to start further executions in this process.
	timeout := cfg.ExecTimeout
	if timeout == 0 {
		timeout = 60 * time.Second
	}
	// The limit is counted in CPU time of this process, not in wall time: on a machine busy with other work an
	// execution can be off the CPU for minutes without anything being wrong with it.  A thread that blocks without
	// consuming CPU (outside the shims) is given 20 x the limit of wall time.
	tick := time.NewTimer(time.Second)
	var cpu0 time.Duration
	wall0 := time.Now()
	for done, first := false, true; !done; {
		select {
		case <-r.finished:
			r.wg.Wait()
			done = true
		case <-tick.C:
			if first {
				cpu0, first = selfCPU(), false
			}
			used := selfCPU() - cpu0
			if used <= timeout && time.Since(wall0) <= 20*timeout {
				tick.Reset(time.Second)
				continue
			}
			cur := "?"
			if c := r.cur; c != nil {
				cur = fmt.Sprintf("T%d(%s)", c.id, c.name)
			}
			r.outcome = Outcome{"hang", fmt.Sprintf("the execution did not end within %s of CPU time (%s of wall time) after %d scheduling steps: thread %s has not reached a scheduling point (it spins or blocks in code the scheduler does not control)", timeout, time.Since(wall0).Round(time.Second), r.steps, cur)}
			r.aborted = true
			Hung = true
			done = true
		}
	}
	tick.Stop()
	rcur = nil
	x := &Exec{Choices: r.Choices, Points: r.Points, Outcome: r.outcome, Trace: r.Trace, Steps: r.steps, Races: r.races, Leaked: r.leaked}
	lastStates = r.stateH
	return x
}

var lastStates map[uint64]struct{}

func selfCPU() time.Duration {
	var ru syscall.Rusage
	syscall.Getrusage(syscall.RUSAGE_SELF, &ru)
	return time.Duration(ru.Utime.Nano() + ru.Stime.Nano())
}

// Hung is set once an execution of this process had to be abandoned by the watchdog: a goroutine of the code under
// test is still running (and burning a CPU); nothing explored afterwards in this process is reliable.
var Hung bool

// ---------------------------------------------------------------------------
// explorer

// Stats summarises an exploration.
type Stats struct {
	Execs       int
	Transitions int
	States      int
	MaxPoints   int
	Bound       int
	Complete    bool // the bounded space was fully enumerated
	Outcomes    map[string]int
	StoppedBy   string
}

// Explore enumerates all executions of body whose deviation cost is ≤
// cfg.MaxPreempt, calling check on each.  check returns false to stop.
func Explore(cfg Config, body func(), check func(x *Exec) bool) Stats {
	st := Stats{Bound: cfg.MaxPreempt, Outcomes: map[string]int{}, Complete: true}
	if cfg.Races {
		gcHold()
		defer gcRelease()
	}
	states := map[uint64]struct{}{}
	if cfg.NShard == 0 {
		cfg.NShard = 1
	}
	cfg.States = true
	stop := false
	var rec func(prefix []int, depth int, cost int)
	rec = func(prefix []int, depth int, cost int) {
		if stop {
			return
		}
		if Hung {
			st.Complete, st.StoppedBy, stop = false, "hang (an earlier execution of this process never ended)", true
			return
		}
		if cfg.MaxExecs > 0 && st.Execs >= cfg.MaxExecs {
			st.Complete, st.StoppedBy, stop = false, "max-execs", true
			return
		}
		if !cfg.Deadline.IsZero() && time.Now().After(cfg.Deadline) {
			st.Complete, st.StoppedBy, stop = false, "deadline", true
			return
		}
		x := RunOnce(cfg, prefix, body)
		count := depth > 0 || cfg.Shard == 0
		if count {
			st.Execs++
			st.Transitions += x.Steps
			st.Outcomes[x.Outcome.Kind]++
			for h := range lastStates {
				states[h] = struct{}{}
			}
			if len(x.Points) > st.MaxPoints {
				st.MaxPoints = len(x.Points)
			}
			if !check(x) {
				stop = true
				st.Complete = false
				st.StoppedBy = "check"
				return
			}
		}
		if x.Outcome.Kind == "diverged" {
			return
		}
		if x.Outcome.Kind == "hang" {
			st.Complete, st.StoppedBy, stop = false, "hang", true
			return
		}
		// cost of the prefix part is `cost`; walk the suffix
		c := cost
		child := 0
		for i := len(prefix); i < len(x.Points); i++ {
			p := x.Points[i]
			for alt := 1; alt < p.N; alt++ {
				ac := c + altCost(cfg, p)
				if ac > cfg.MaxPreempt {
					continue
				}
				child++
				if depth == 0 && (child-1)%cfg.NShard != cfg.Shard {
					continue
				}
				np := append(append([]int{}, x.Choices[:i]...), alt)
				rec(np, depth+1, ac)
				if stop {
					return
				}
			}
			// default choice (0) costs nothing
		}
	}
	rec(nil, 0, 0)
	st.States = len(states)
	return st
}

func altCost(cfg Config, p Point) int {
	switch p.Kind {
	case KThread:
		if p.RunningEnabled {
			return 1
		}
		return 0
	case KSelect:
		return cfg.SelectCost
	default:
		return cfg.ValueCost
	}
}

// FormatChoices renders a choice sequence for replay files.
func FormatChoices(c []int) string {
	s := make([]string, len(c))
	for i, v := range c {
		s[i] = fmt.Sprint(v)
	}
	return strings.Join(s, ",")
}

func sortedKeys(m map[string]int) []string {
	k := make([]string, 0, len(m))
	for s := range m {
		k = append(k, s)
	}
	sort.Strings(k)
	return k
}

// Handle identifies a harness-spawned thread.
type Handle struct{ t *thread }

// Spawn starts f as a controlled thread and returns a handle to join it.
func Spawn(f func()) *Handle {
	r := active()
	if r == nil {
		panic("vrt.Spawn outside a controlled run")
	}
	t := r.spawn("harness", false, f)
	return &Handle{t}
}

// Join blocks until the thread has finished.
func (h *Handle) Join() {
	r := active()
	r.Yield(&Op{Kind: "join", Ready: func() bool { return h.t.done }})
	if r.cfg.Races {
		r.cur.vc.join(h.t.vc)
	}
}

// Parallel runs the functions as concurrent controlled threads and joins them.
func Parallel(fs ...func()) {
	hs := make([]*Handle, len(fs))
	for i, f := range fs {
		hs[i] = Spawn(f)
	}
	// one scheduling point so that the spawned threads may start in any order
	for _, h := range hs {
		h.Join()
	}
}

// AdvanceNoWait moves the clock and fires due timers without waiting for the
// system to settle (timer-driven work then races with the other threads).
func AdvanceNoWait(d time.Duration) {
	r := active()
	if r == nil {
		return
	}
	target := r.now + d
	for {
		t := r.nextTimer()
		if t == nil || t.when > target {
			break
		}
		r.fireTimer(t)
	}
	r.now = target
}
