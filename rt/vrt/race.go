package vrt

import (
	"fmt"
	"regexp"
	"runtime"
	"strings"
	"unsafe"
)

var lineRe = regexp.MustCompile(`\[[^\]]*\]`)

// RaceKey strips file:line positions from a race description so that it can
// serve as a stable finding key (functions and access kinds remain).
func RaceKey(r string) string { return lineRe.ReplaceAllString(r, "") }

// Happens-before race monitor (vector clocks).  Edges come from every shim
// operation; accesses come from the recorders the instrumenter wraps around
// map operations, package-level variables and struct fields.

type vclock []int32

func newVC(id int) vclock {
	v := make(vclock, id+1)
	v[id] = 1
	return v
}

func (v vclock) get(i int) int32 {
	if i < len(v) {
		return v[i]
	}
	return 0
}

func (v vclock) fork(child int) vclock {
	n := make(vclock, max(len(v), child+1))
	copy(n, v)
	n[child] = 1
	return n
}

func (v *vclock) tick(id int) {
	for len(*v) <= id {
		*v = append(*v, 0)
	}
	(*v)[id]++
}

func (v *vclock) join(o vclock) {
	for len(*v) < len(o) {
		*v = append(*v, 0)
	}
	for i, c := range o {
		if c > (*v)[i] {
			(*v)[i] = c
		}
	}
}

func (v vclock) clone() vclock { return append(vclock(nil), v...) }

// SyncVar is embedded (by pointer identity) in shim objects that carry
// happens-before edges.
type SyncVar struct{ vc vclock }

// Acquire joins the object's clock into the running thread.
func (s *SyncVar) Acquire() {
	r := rcur
	if r == nil || !r.cfg.Races || r.cur == nil {
		return
	}
	r.cur.vc.join(s.vc)
}

// Release publishes the running thread's clock into the object.
func (s *SyncVar) Release() {
	r := rcur
	if r == nil || !r.cfg.Races || r.cur == nil {
		return
	}
	s.vc.join(r.cur.vc)
	r.cur.vc.tick(r.cur.id)
}

type epoch struct {
	tid int
	clk int32
	pc  uintptr
	pc2 uintptr // the next frame up: used when pc lies in a generic recorder's own wrapper frame
}

type shadowCell struct {
	w     epoch
	hasW  bool
	reads []epoch
}

func (r *Run) access(addr uintptr, write bool, skip int) {
	if r == nil || !r.cfg.Races || r.aborted || r.cur == nil {
		return
	}
	t := r.cur
	c := r.shadow[addr]
	if c == nil {
		c = &shadowCell{}
		r.shadow[addr] = c
	}
	var pcs [2]uintptr
	runtime.Callers(skip+2, pcs[:])
	me := epoch{t.id, t.vc.get(t.id), pcs[0], pcs[1]}
	if c.hasW && c.w.tid != t.id && c.w.clk > t.vc.get(c.w.tid) {
		r.reportRace(c.w, true, me, write)
	}
	if write {
		for _, rd := range c.reads {
			if rd.tid != t.id && rd.clk > t.vc.get(rd.tid) {
				r.reportRace(rd, false, me, true)
			}
		}
		c.w, c.hasW = me, true
		c.reads = c.reads[:0]
	} else {
		for i := range c.reads {
			if c.reads[i].tid == t.id {
				c.reads[i] = me
				return
			}
		}
		c.reads = append(c.reads, me)
	}
}

func site(pc uintptr) string {
	f := runtime.FuncForPC(pc)
	if f == nil {
		return "?"
	}
	file, line := f.FileLine(pc)
	for i := len(file) - 1; i >= 0; i-- {
		if file[i] == '/' {
			file = file[i+1:]
			break
		}
	}
	name := f.Name()
	if i := strings.LastIndexByte(name, '/'); i >= 0 {
		name = name[i+1:]
	}
	return fmt.Sprintf("%s[%s:%d]", name, file, line)
}

func (r *Run) reportRace(a epoch, aw bool, b epoch, bw bool) {
	k := func(w bool) string {
		if w {
			return "W"
		}
		return "R"
	}
	at := func(e epoch) string {
		if f := runtime.FuncForPC(e.pc); f != nil && strings.Contains(f.Name(), "/internal/verif/vrt.") && e.pc2 != 0 {
			return site(e.pc2)
		}
		return site(e.pc)
	}
	s1, s2 := k(aw)+"@"+at(a), k(bw)+"@"+at(b)
	if s2 < s1 {
		s1, s2 = s2, s1
	}
	key := s1 + " || " + s2
	if !r.raceSeen[key] {
		r.raceSeen[key] = true
		r.races = append(r.races, key)
	}
}

// escapePtr / escapeMap receive every recorded location.  Storing the pointer
// in a package-level variable makes the recorded object escape in the eyes of
// the compiler, so it is allocated on the heap: the monitor identifies
// locations by address, stack memory is recycled (a stack that grows is moved
// and its old memory reused at once, also by heap objects), and with the
// collector held during an execution heap addresses are not.
var (
	escapePtr unsafe.Pointer
	escapeMap any
)

// R records a read of *p and returns p (identity).
func R[T any](p *T) *T {
	if r := rcur; r != nil && r.cfg.Races {
		r.access(uintptr(unsafe.Pointer(p)), false, 1)
		escapePtr = unsafe.Pointer(p)
	}
	return p
}

// W records a write of *p and returns p (identity).
func W[T any](p *T) *T {
	if r := rcur; r != nil && r.cfg.Races {
		r.access(uintptr(unsafe.Pointer(p)), true, 1)
		escapePtr = unsafe.Pointer(p)
	}
	return p
}

// RMap records a read of map m (as one location) and returns m.
func RMap[M ~map[K]V, K comparable, V any](m M) M {
	if r := rcur; r != nil && r.cfg.Races && m != nil {
		r.access(*(*uintptr)(unsafe.Pointer(&m)), false, 1)
		escapeMap = m
	}
	return m
}

// WMap records a write of map m (as one location) and returns m.
func WMap[M ~map[K]V, K comparable, V any](m M) M {
	if r := rcur; r != nil && r.cfg.Races && m != nil {
		r.access(*(*uintptr)(unsafe.Pointer(&m)), true, 1)
		escapeMap = m
	}
	return m
}

// AtomicPoint is a scheduling point plus an acquire/release edge on the word.
func AtomicPoint(kind string, p unsafe.Pointer) {
	r := active()
	if r == nil {
		return
	}
	if !r.cfg.NoAtomicPoints {
		r.Yield(&Op{Kind: kind, Obj: nil, Ready: func() bool { return true }})
	}
	if r.cfg.Races {
		sv := r.atomics[uintptr(p)]
		if sv == nil {
			sv = &SyncVar{}
			r.atomics[uintptr(p)] = sv
		}
		sv.Acquire()
		sv.Release()
	}
}

// ObjR records a read of the opaque object p points to (method call on a
// container from an uninstrumented package) and returns p.
func ObjR[T any](p *T) *T {
	if r := rcur; r != nil && r.cfg.Races && p != nil {
		r.access(uintptr(unsafe.Pointer(p)), false, 1)
		escapePtr = unsafe.Pointer(p)
	}
	return p
}

// ObjW records a mutation of the opaque object p points to and returns p.
func ObjW[T any](p *T) *T {
	if r := rcur; r != nil && r.cfg.Races && p != nil {
		r.access(uintptr(unsafe.Pointer(p)), true, 1)
		escapePtr = unsafe.Pointer(p)
	}
	return p
}
