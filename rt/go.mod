module github.com/glyphlang/glyph/internal/verif

go 1.25.0
