package compiler

// C03 harness, part 3: the bounded grammars.  Every family is a finite,
// explicitly listed space that is enumerated completely.

// ---- expression pools --------------------------------------------------------------------

func c3CC() *c3E { return c3Call("ws.get_connection_count") }

// c3Atoms: the literal shapes the optimizer inspects (0, 1, 2, floats, booleans),
// other literal kinds, one local, one free variable, one observable call.
func c3Atoms() []*c3E {
	return []*c3E{
		c3Int(0), c3Int(1), c3Int(2), c3Float("1.5"), c3Str("a"), c3Bool(true), c3Bool(false), c3Null(),
		// a float with the same numeric value as one of the integers: folding may not decide int-against-float
		// comparisons by other rules than the runtime's
		c3Float("2.0"),
		c3Var("x"), c3Var("p"), c3CC(),
	}
}

func c3CoreAtoms() []*c3E {
	return []*c3E{c3Int(0), c3Int(1), c3Int(2), c3Var("x"), c3Var("p"), c3Bool(true), c3Bool(false)}
}

var c3AllOps = []string{"+", "-", "*", "/", "%", "==", "!=", "<", "<=", ">", ">=", "&&", "||"}
var c3CoreOps = []string{"+", "-", "*", "/", "&&", "||", "=="}
var c3DeepOps = []string{"+", "*", "&&", "||"}

// c3ExprPool: every expression of depth <= 1 over all operators and atoms, every
// depth-2 expression op(d1, atom) / op(atom, d1) over the core operators and
// core atoms, and (thorough) every depth-3 expression built the same way over
// the deep operator subset.
func c3ExprPool(thorough bool) []*c3E {
	var out []*c3E
	atoms := c3Atoms()
	out = append(out, atoms...)
	for _, op := range c3AllOps {
		for _, l := range atoms {
			for _, r := range atoms {
				out = append(out, c3Bin(op, l, r))
			}
		}
	}
	core := c3CoreAtoms()
	var d1 []*c3E
	for _, op := range c3CoreOps {
		for _, l := range core {
			for _, r := range core {
				d1 = append(d1, c3Bin(op, l, r))
			}
		}
	}
	// a few depth-1 shapes with the call and the float inside, for the depth-2 layer
	d1 = append(d1, c3Bin("+", c3CC(), c3Int(1)), c3Bin("*", c3Var("p"), c3Float("1.5")), c3Bin("+", c3Var("p"), c3Str("a")))
	for _, op := range c3CoreOps {
		for _, d := range d1 {
			for _, a := range core {
				out = append(out, c3Bin(op, d, a), c3Bin(op, a, d))
			}
		}
	}
	// repeated subexpressions (the x-x / x==x identities look at structural equality)
	for _, op := range c3AllOps {
		for _, d := range []*c3E{c3Bin("+", c3Var("p"), c3Int(1)), c3Bin("*", c3Var("x"), c3Int(2)), c3Bin("+", c3Int(1), c3Int(2))} {
			out = append(out, c3Bin(op, d, d))
		}
	}
	// one subexpression on both sides with its operands in the two orders (the
	// second free variable and the string literal make the order observable)
	for _, op := range c3AllOps {
		for _, d := range []*c3E{c3Bin("+", c3Var("p"), c3Var("q")), c3Bin("+", c3Var("p"), c3Str("b"))} {
			out = append(out, c3Bin(op, d, c3Bin(d.V, d.A[1], d.A[0])))
		}
	}
	if thorough {
		var e1 []*c3E
		for _, op := range c3DeepOps {
			for _, l := range core {
				for _, r := range core {
					e1 = append(e1, c3Bin(op, l, r))
				}
			}
		}
		var e2 []*c3E
		for _, op := range c3DeepOps {
			for _, d := range e1 {
				for _, a := range core {
					e2 = append(e2, c3Bin(op, d, a), c3Bin(op, a, d))
				}
			}
		}
		for _, op := range c3DeepOps {
			for _, d := range e2 {
				for _, a := range core {
					out = append(out, c3Bin(op, d, a), c3Bin(op, a, d))
				}
			}
		}
	}
	return out
}

// c3ExprTemplates wraps an expression into the statement positions the
// optimizer treats differently (return, declaration, condition; with the local
// x a constant, a copy of the free variable, or undeclared).
func c3ExprTemplates(e *c3E) []c3Prog {
	one, two := c3Int(1), c3Int(2)
	if e.depth() >= 2 {
		return []c3Prog{
			{c3Decl("x", one), c3Ret(e)},
			{c3Decl("x", c3Var("p")), c3Ret(e)},
			{c3Decl("x", one), c3If(e, c3L(c3Send(one)), c3L(c3Send(two)))},
		}
	}
	return []c3Prog{
		{c3Ret(e)},
		{c3Decl("y", e), c3Send(c3Var("y"))},
		{c3Decl("x", one), c3Ret(e)},
		{c3Decl("x", c3Var("p")), c3Ret(e)},
		{c3Decl("x", c3Var("p")), c3Decl("y", e), c3Send(c3Var("y"))},
		{c3Decl("x", one), c3If(e, c3L(c3Send(one)), c3L(c3Send(two)))},
	}
}

// ---- statement alphabets -----------------------------------------------------------------

func c3Plus1(n string) *c3E { return c3Bin("+", c3Var(n), c3Int(1)) }

// c3FlowAlphabet is the statement alphabet of the flow family.  level 0 = the
// small alphabet used for the longest lists, 1 = the full alphabet.
func c3FlowAlphabet(full bool) []*c3S {
	x, y, p := c3Var("x"), c3Var("y"), c3Var("p")
	one, two, three := c3Int(1), c3Int(2), c3Int(3)
	pEq1 := c3Bin("==", p, one)
	pLt2 := c3Bin("<", p, two)
	incP := c3Set("p", c3Plus1("p"))
	px3 := c3Bin("*", p, three)
	loop := func(body ...*c3S) *c3S { return c3While(pLt2, append(body, incP)...) }

	small := []*c3S{
		c3Decl("x", one), c3Decl("x", p), c3Decl("x", c3Plus1("p")),
		c3Decl("y", x), c3Decl("y", c3Plus1("p")), c3Decl("y", c3Plus1("x")),
		c3Set("x", two), c3Set("x", c3Plus1("x")), c3Set("x", c3Plus1("p")),
		c3Set("p", px3), c3Set("p", one),
		c3Ret(x), c3Ret(y),
		c3Send(x), c3Send(y),
		c3If(pEq1, c3L(c3Set("x", two)), nil),
		c3If(pEq1, c3L(c3Set("x", two)), c3L(c3Send(x))),
		loop(c3Set("x", two)),
		loop(c3Decl("y", c3CC())),
		c3For("v", c3Arr(one, two), c3Set("x", c3Var("v"))),
		c3Switch(p, one, c3L(c3Set("x", two)), nil),
	}
	if !full {
		return small
	}
	more := []*c3S{
		// declarations
		c3Decl("x", two), c3Decl("x", y), c3Decl("x", c3CC()),
		// two expressions that differ after the sixth decimal (CSE keys print floats with %f)
		c3Decl("x", c3Bin("+", p, c3Float("1.0000001"))), c3Decl("y", c3Bin("+", p, c3Float("1.0000002"))),
		c3Decl("y", one), c3Decl("y", p),
		// reassignments
		c3Set("x", p), c3Set("x", y), c3Set("x", px3),
		c3Set("y", two), c3Set("y", x), c3Set("y", c3Plus1("p")),
		c3Set("p", x), c3Set("p", c3Plus1("p")),
		// observers
		c3Ret(p), c3Ret(c3Bin("+", x, y)), c3Ret(c3Plus1("p")), c3Ret(c3Plus1("x")),
		c3Send(p), c3Do(c3CC()),
		c3RetStatus(x, 201), // `> x :: 201`: the status travels in the returned value
		c3Ret(c3Arr(x, p)),  // the optimizer descends into array literals
		// if
		c3If(pEq1, c3L(c3Set("y", x)), nil),
		c3If(pEq1, c3L(c3Decl("x", two)), nil),
		c3If(pEq1, c3L(c3Decl("y", two)), nil),
		c3If(pEq1, c3L(c3Send(x)), nil),
		c3If(pEq1, c3L(c3Ret(x)), nil),
		c3If(pEq1, c3L(c3Set("p", two)), nil),
		c3If(pEq1, c3L(c3Set("x", p)), nil),
		c3If(c3Bool(true), c3L(c3Decl("x", two)), nil),
		c3If(c3Bool(true), c3L(c3Set("x", two)), nil),
		c3If(c3Bool(true), c3L(c3Ret(x)), c3L(c3Send(one))),
		c3If(c3Bool(false), c3L(c3Set("x", two)), nil),
		c3If(c3Bool(false), c3L(c3Send(one)), c3L(c3Decl("y", two))),
		c3If(pEq1, c3L(c3Set("x", two)), c3L(c3Set("x", three))),
		c3If(pEq1, c3L(c3Set("x", two)), c3L(c3Ret(x))),
		c3If(pEq1, c3L(c3Decl("y", one)), c3L(c3Decl("y", two))),
		c3If(pEq1, c3L(c3Set("y", x)), c3L(c3Set("x", two))),
		c3If(c3Bin("==", x, one), c3L(c3Send(one)), c3L(c3Send(two))),
		// while (p is the counter: zero, one or two trips, or a type error)
		loop(),
		loop(c3Set("x", c3Plus1("x"))),
		loop(c3Set("y", x)),
		loop(c3Set("x", p)),
		loop(c3Decl("y", c3Int(5))),
		loop(c3Decl("y", c3Plus1("x"))),
		loop(c3Decl("y", c3Bin("+", c3Bool(true), one))), // invariant, fails when evaluated: must not run for zero trips
		loop(c3Decl("y", c3Plus1("p")), c3Send(y)),       // not invariant: reads the counter
		loop(c3Send(x)),
		loop(c3Send(p)),
		loop(c3Send(one), c3Decl("y", c3CC())),
		loop(c3If(pEq1, c3L(c3Set("x", two)), nil)),
		loop(c3Switch(p, one, c3L(c3Set("x", two)), nil)),
		loop(c3For("v", c3Arr(one), c3Set("x", two))),
		c3While(c3Bin("<", x, two), c3Set("x", c3Plus1("x"))),
		c3While(c3Bin("<", x, two), c3Send(x), c3Set("x", c3Plus1("x"))),
		c3While(c3Bool(false), c3Set("x", two)),
		// for
		c3For("v", c3Arr(one, two), c3Set("x", two)),
		c3For("v", c3Arr(one, two), c3Send(c3Var("v"))),
		c3For("v", c3Arr(one, two), c3Set("y", x)),
		c3For("v", c3Arr(one, two), c3Decl("y", c3Plus1("x"))),
		c3For("v", p, c3Set("x", two)),
		c3For("x", c3Arr(one, two)),
		c3For("v", c3Arr(), c3Set("x", two)),
		// switch
		c3Switch(p, one, c3L(c3Set("x", two)), c3L(c3Set("x", three))),
		c3Switch(p, one, c3L(c3Send(x)), nil),
		c3Switch(p, one, c3L(c3Set("y", x)), nil),
		c3Switch(p, one, c3L(c3Ret(x)), nil),
		c3Switch(p, one, c3L(c3Decl("x", two)), nil),
		c3Switch(x, one, c3L(c3Send(one)), c3L(c3Send(two))),
	}
	return append(small, more...)
}

// c3HistoryAlphabet: the statements of the programs compiled in pairs by one
// compiler value.
func c3HistoryAlphabet() []*c3S {
	x, y, p := c3Var("x"), c3Var("y"), c3Var("p")
	one, two := c3Int(1), c3Int(2)
	return []*c3S{
		c3Decl("x", one), c3Decl("x", p), c3Decl("x", c3Plus1("p")),
		c3Decl("y", x), c3Decl("y", c3Plus1("p")),
		c3Set("p", one), c3Set("p", c3Bin("*", p, c3Int(3))), c3Set("x", two),
		c3Ret(x), c3Ret(y), c3Ret(p), c3Ret(c3Plus1("p")),
		c3Send(x), c3Send(p),
		c3If(c3Bin("==", p, one), c3L(c3Set("x", two)), nil),
		c3While(c3Bin("<", p, two), c3Set("x", two), c3Set("p", c3Plus1("p"))),
	}
}

// c3Lists calls f with the index of every list of minLen..maxLen statements over
// alpha, in a fixed order (shorter lists first); build() materialises the list.
func c3Lists(alpha []*c3S, minLen, maxLen int, base int, f func(idx int, build func() c3Prog) bool) (next int) {
	idx := base
	n := len(alpha)
	for l := minLen; l <= maxLen; l++ {
		cnt := make([]int, l)
		build := func() c3Prog {
			p := make(c3Prog, l)
			for i, c := range cnt {
				p[i] = alpha[c]
			}
			return p
		}
		for {
			if !f(idx, build) {
				return idx
			}
			idx++
			k := l - 1
			for k >= 0 {
				cnt[k]++
				if cnt[k] < n {
					break
				}
				cnt[k] = 0
				k--
			}
			if k < 0 {
				break
			}
		}
	}
	return idx
}

func (e *c3E) depth() int {
	if e.K != "bin" {
		return 0
	}
	d := 0
	for _, a := range e.A {
		if x := a.depth(); x > d {
			d = x
		}
	}
	return d + 1
}
