package compiler

import (
	"fmt"
	"os"
	"testing"

	"github.com/glyphlang/glyph/pkg/vm"
)

// TestVerif_C03Dbg: development aid (not run by the driver): C03_DBG=<n> picks a canned program.
func TestVerif_C03Dbg(t *testing.T) {
	if os.Getenv("C03_DBG") == "" {
		t.Skip()
	}
	x, p := c3Var("x"), c3Var("p")
	prog := c3Prog{c3Decl("x", c3Int(1)), c3While(c3Bin("<", p, c3Int(2)), c3Set("x", c3Int(2)), c3Set("p", c3Plus1("p"))), c3Ret(x)}
	ck := &c3Checker{levels: []OptimizationLevel{OptNone, OptBasic, OptAggressive},
		kinds: map[string][]string{}, shrunk: map[string]c3Cand{}, keyOf: map[string]string{}, vm: vm.NewVM()}
	fmt.Println(prog, ck.failingKinds(prog, "PPP", OptBasic))
	c := c3Cand{prog, "PPP"}
	for i := 0; i < 30; i++ {
		w := c3ListWeight(c.P)
		found := false
		for _, lv := range c3ListVariants(c.P, c3FreshBoring(c.P)) {
			np := c3Prog(lv.list)
			if c3ListWeight(np) >= w {
				continue
			}
			nm := c3ProjectModes(c.Modes, lv.from)
			f := ck.fails(np, nm, OptBasic, "result")
			if f {
				fmt.Println(" ->", np, nm)
				c = c3Cand{np, nm}
				found = true
				break
			}
		}
		if !found {
			break
		}
	}
}
