package compiler

// C03 harness, part 2: compiling one encoded program at one level, executing
// bytecode on a fresh VM with a recording WebSocket handler, and comparing an
// optimised execution with the unoptimised reference.

import (
	"bytes"
	"fmt"
	"sort"
	"strconv"
	"strings"

	"github.com/glyphlang/glyph/pkg/ast"
	"github.com/glyphlang/glyph/pkg/vm"
)

const c3MaxSteps = 20000 // programs of the grammar that terminate need < 1000 steps

// ---- the values of free variables -----------------------------------------------

var c3ValueSpellings = []string{"0", "1", "2", "1.5", `"a"`, "true", "false", "null", "[1]", "2.0"}

// The second free variable q additionally takes a second string and a second
// array: `+` concatenates strings and arrays, so operand order is observable
// only between two distinguishable values of those types (p="a", q="b").
var c3ValueSpellingsQ = append(append([]string{}, c3ValueSpellings...), `"b"`, "[2]")

// c3ValuesOf: the value set of one free variable.
func c3ValuesOf(name string) []string {
	if name == "q" {
		return c3ValueSpellingsQ
	}
	return c3ValueSpellings
}

func c3Value(sp string) vm.Value {
	switch sp {
	case "true":
		return vm.BoolValue{Val: true}
	case "false":
		return vm.BoolValue{Val: false}
	case "null":
		return vm.NullValue{}
	case "[1]":
		return vm.ArrayValue{Val: []vm.Value{vm.IntValue{Val: 1}}}
	case "[2]":
		return vm.ArrayValue{Val: []vm.Value{vm.IntValue{Val: 2}}}
	}
	if strings.HasPrefix(sp, `"`) {
		s, _ := strconv.Unquote(sp)
		return vm.StringValue{Val: s}
	}
	if strings.Contains(sp, ".") {
		f, _ := strconv.ParseFloat(sp, 64)
		return vm.FloatValue{Val: f}
	}
	n, _ := strconv.ParseInt(sp, 10, 64)
	return vm.IntValue{Val: n}
}

// c3Binding assigns a spelling to every free name (names that do not occur in
// the program are pinned to "0").
type c3Binding map[string]string

func (b c3Binding) String() string {
	var parts []string
	for _, n := range c3FreeNames {
		if v, ok := b[n]; ok {
			parts = append(parts, n+"="+v)
		}
	}
	return strings.Join(parts, ",")
}

// c3Bindings enumerates every assignment of the variables' value sets to vars.
func c3Bindings(vars []string) []c3Binding {
	out := []c3Binding{{}}
	for _, n := range vars {
		var next []c3Binding
		for _, b := range out {
			for _, sp := range c3ValuesOf(n) {
				nb := c3Binding{}
				for k, v := range b {
					nb[k] = v
				}
				nb[n] = sp
				next = append(next, nb)
			}
		}
		out = next
	}
	return out
}

// ---- recording WebSocket handler ---------------------------------------------------

type c3Rec struct {
	log      []string
	overflow bool
}

func (r *c3Rec) add(s string) {
	if len(r.log) >= 64 {
		r.overflow = true
		return
	}
	r.log = append(r.log, s)
}

func c3Iface(v interface{}) string {
	switch x := v.(type) {
	case nil:
		return "null"
	case int64:
		return "int:" + strconv.FormatInt(x, 10)
	case int:
		return "int:" + strconv.Itoa(x)
	case float64:
		return "float:" + strconv.FormatFloat(x, 'g', -1, 64)
	case string:
		return "str:" + strconv.Quote(x)
	case bool:
		return "bool:" + strconv.FormatBool(x)
	case []interface{}:
		parts := make([]string, len(x))
		for i, e := range x {
			parts[i] = c3Iface(e)
		}
		return "[" + strings.Join(parts, ",") + "]"
	case map[string]interface{}:
		keys := make([]string, 0, len(x))
		for k := range x {
			keys = append(keys, k)
		}
		sort.Strings(keys)
		parts := make([]string, len(keys))
		for i, k := range keys {
			parts[i] = k + ":" + c3Iface(x[k])
		}
		return "{" + strings.Join(parts, ",") + "}"
	}
	return fmt.Sprintf("%T:%v", v, v)
}

func (r *c3Rec) Send(m interface{}) error      { r.add("send(" + c3Iface(m) + ")"); return nil }
func (r *c3Rec) Broadcast(m interface{}) error { r.add("broadcast(" + c3Iface(m) + ")"); return nil }
func (r *c3Rec) BroadcastToRoom(room string, m interface{}) error {
	r.add("broadcast_to_room(" + strconv.Quote(room) + "," + c3Iface(m) + ")")
	return nil
}
func (r *c3Rec) JoinRoom(room string) error  { r.add("join(" + strconv.Quote(room) + ")"); return nil }
func (r *c3Rec) LeaveRoom(room string) error { r.add("leave(" + strconv.Quote(room) + ")"); return nil }
func (r *c3Rec) Close(reason string) error   { r.add("close(" + strconv.Quote(reason) + ")"); return nil }
func (r *c3Rec) GetRooms() []string          { r.add("get_rooms()"); return []string{"r"} }
func (r *c3Rec) GetRoomClients(room string) []string {
	r.add("get_room_clients(" + strconv.Quote(room) + ")")
	return []string{"c"}
}
func (r *c3Rec) GetConnectionID() string { return "conn" }
func (r *c3Rec) GetConnectionCount() int { r.add("get_connection_count()"); return 3 }
func (r *c3Rec) GetUptime() int64        { r.add("get_uptime()"); return 5 }

// ---- compile ------------------------------------------------------------------------

type c3Compiled struct {
	BC    []byte
	Err   string // compile error ("" = compiled)
	Panic string // compiler/optimizer panic
}

func (c c3Compiled) ok() bool { return c.Err == "" && c.Panic == "" }

func c3Route(body []ast.Statement) *ast.Route {
	inj := make([]ast.Injection, len(c3FreeNames))
	for i, n := range c3FreeNames {
		inj[i] = ast.Injection{Name: n}
	}
	return &ast.Route{Path: "/t", Method: ast.Get, Injections: inj, Body: body}
}

// c3CompileWith compiles the encoded program with the given compiler value.
func c3CompileWith(comp *Compiler, p c3Prog, modes string) (out c3Compiled) {
	defer func() {
		if r := recover(); r != nil {
			out = c3Compiled{Panic: fmt.Sprint(r)}
		}
	}()
	bc, err := comp.CompileRoute(c3Route(p.buildAST(modes)))
	if err != nil {
		return c3Compiled{Err: err.Error()}
	}
	return c3Compiled{BC: bc}
}

// c3Compile compiles with a fresh compiler at the given level (the constructor
// both `glyph compile -O…` and the JIT tiers use).
func c3Compile(p c3Prog, modes string, level OptimizationLevel) c3Compiled {
	return c3CompileWith(NewCompilerWithOptLevel(level), p, modes)
}

// ---- execute ------------------------------------------------------------------------

type c3Out struct {
	Val     string   // rendered result ("" when Err != "")
	Err     string   // error kind
	ErrFull string   // full message (reporting only)
	Eff     []string // observable calls in order
	Limit   bool     // hit the step limit (possible non-termination)
}

func c3Render(v vm.Value) string {
	switch x := v.(type) {
	case nil:
		return "<nil>"
	case vm.NullValue:
		return "null"
	case vm.IntValue:
		return "int:" + strconv.FormatInt(x.Val, 10)
	case vm.FloatValue:
		return "float:" + strconv.FormatFloat(x.Val, 'g', -1, 64)
	case vm.StringValue:
		return "str:" + strconv.Quote(x.Val)
	case vm.BoolValue:
		return "bool:" + strconv.FormatBool(x.Val)
	case vm.ArrayValue:
		parts := make([]string, len(x.Val))
		for i, e := range x.Val {
			parts[i] = c3Render(e)
		}
		return "[" + strings.Join(parts, ",") + "]"
	case vm.ObjectValue:
		keys := make([]string, 0, len(x.Val))
		for k := range x.Val {
			keys = append(keys, k)
		}
		sort.Strings(keys)
		parts := make([]string, len(keys))
		for i, k := range keys {
			parts[i] = k + ":" + c3Render(x.Val[k])
		}
		return "{" + strings.Join(parts, ",") + "}"
	}
	return fmt.Sprintf("%T", v)
}

// c3ErrKind reduces a runtime error to its kind: the text before the first ':'
// ("type error", "division by zero", "undefined variable", …).
func c3ErrKind(msg string) string {
	if i := strings.Index(msg, ":"); i >= 0 {
		msg = msg[:i]
	}
	if i := strings.Index(msg, "("); i >= 0 { // "execution exceeded maximum step limit (N steps)"
		msg = msg[:i]
	}
	return strings.TrimSpace(msg)
}

// c3Run executes bytecode.  pooled == nil: on a fresh VM (every reported
// failure and every replay); else on the given VM after VM.Reset (bulk
// enumeration; NewVM is 90% of the cost of one run).
func c3Run(bc []byte, b c3Binding, pooled *vm.VM) (out c3Out) {
	rec := &c3Rec{}
	defer func() {
		if r := recover(); r != nil {
			out = c3Out{Err: "panic", ErrFull: fmt.Sprint(r), Eff: rec.log}
		}
	}()
	m := pooled
	if m == nil {
		m = vm.NewVM()
	} else {
		m.Reset()
	}
	m.SetMaxSteps(c3MaxSteps)
	m.SetWebSocketHandler(rec)
	for _, n := range c3FreeNames {
		sp, ok := b[n]
		if !ok {
			sp = "0"
		}
		m.SetLocal(n, c3Value(sp))
	}
	v, err := m.Execute(bc)
	out.Eff = rec.log
	if err != nil {
		out.ErrFull = err.Error()
		out.Err = c3ErrKind(out.ErrFull)
		out.Limit = strings.HasPrefix(out.ErrFull, "execution exceeded maximum step limit") || rec.overflow
		return out
	}
	out.Limit = rec.overflow
	out.Val = c3Render(v)
	return out
}

func (o c3Out) String() string {
	r := "value " + o.Val
	if o.Err != "" {
		r = "error «" + o.ErrFull + "»"
	}
	return r + " effects [" + strings.Join(o.Eff, " ") + "]"
}

// c3Compare returns "" when the optimised execution is indistinguishable from
// the reference, else the kind of difference.  When both runs hit the step
// limit nothing is judged.
func c3Compare(ref, opt c3Out) (kind string, judged bool) {
	if ref.Limit && opt.Limit {
		return "", false
	}
	if ref.Limit != opt.Limit {
		return "termination", true
	}
	switch {
	case ref.Err != "" && opt.Err == "":
		return "error-erased", true
	case ref.Err == "" && opt.Err != "":
		return "error-introduced", true
	case ref.Err != opt.Err:
		return "error-kind", true
	}
	if len(ref.Eff) != len(opt.Eff) {
		return "effects", true
	}
	for i := range ref.Eff {
		if ref.Eff[i] != opt.Eff[i] {
			return "effects", true
		}
	}
	if ref.Val != opt.Val {
		return "result", true
	}
	return "", true
}

// ---- judging one (program, encoding, level) -----------------------------------------

type c3Verdict struct {
	Kinds    map[string]c3Witness // failure kind -> first witness
	Differs  bool                 // bytecode differs from the reference (a disagreement that was checked by execution)
	Runs     int                  // executions compared
	Unjudged int
}

type c3Witness struct {
	Bind c3Binding
	Desc string
}

// c3Judge compares candidate cand with reference ref (both compilations of
// prog) over every binding of vars.
func c3Judge(ref, cand c3Compiled, vars []string, refRuns map[string]c3Out, pooled *vm.VM) c3Verdict {
	v := c3Verdict{Kinds: map[string]c3Witness{}}
	if cand.Panic != "" {
		v.Kinds["compile-panic"] = c3Witness{Desc: "the compiler panicked: " + cand.Panic}
		return v
	}
	if ref.Panic != "" {
		return v // the unoptimised compiler itself panics: no reference
	}
	if ref.ok() != cand.ok() {
		if ref.ok() {
			v.Kinds["compile-rejects"] = c3Witness{Desc: "unoptimised compiles, this level fails with «" + cand.Err + "»"}
		} else {
			v.Kinds["compile-accepts"] = c3Witness{Desc: "unoptimised fails with «" + ref.Err + "», this level compiles"}
		}
		return v
	}
	if !ref.ok() || bytes.Equal(ref.BC, cand.BC) {
		return v
	}
	v.Differs = true
	for _, b := range c3Bindings(vars) {
		bs := b.String()
		r, ok := refRuns[bs]
		if !ok {
			r = c3Run(ref.BC, b, pooled)
			if refRuns != nil {
				refRuns[bs] = r
			}
		}
		o := c3Run(cand.BC, b, pooled)
		v.Runs++
		kind, judged := c3Compare(r, o)
		if !judged {
			v.Unjudged++
			continue
		}
		if kind != "" {
			if _, seen := v.Kinds[kind]; !seen {
				v.Kinds[kind] = c3Witness{Bind: b, Desc: fmt.Sprintf("with %s: unoptimised gives %s; this level gives %s", bs, r, o)}
			}
		}
	}
	return v
}
