package compiler

// Verification harness for C03 (optimisation never changes behaviour).
//
// Translation validation by exhaustive enumeration: every program of three
// bounded grammars is built through the library API in several AST encodings
// (value-form nodes as the parser produces them, pointer-form nodes as the
// JIT/LSP/tests produce them, and mixes), compiled with
// NewCompilerWithOptLevel at OptNone / OptBasic / OptAggressive (the only
// constructor and the only levels `glyph compile -O0..3` and the JIT tiers map
// to; the two mappings are read from the sources at run time), and every
// compilation whose bytecode is not byte-identical to the unoptimised one is
// executed on a fresh VM for every assignment of the free variables and
// compared with the unoptimised execution: value (with its type) or error kind,
// and the ordered list of observable ws.* calls with their arguments.
//
// History dimension: every ordered pair of small programs is compiled by ONE
// compiler value (as `setupRoutes`/CompileModule do for the routes of a module);
// the second program's bytecode must behave like a fresh unoptimised compilation.
// The pair is compiled as two HTTP routes and (c03_ext_test.go) as every other
// sequence of compilation units that share the compiler's Optimizer: two
// handlers of one WebSocket route, two WebSocket routes, route/WebSocket route,
// route and then command / cron task / event handler / queue worker.

import (
	"fmt"
	"os"
	"regexp"
	"sort"
	"strings"
	"testing"
	"time"

	"github.com/glyphlang/glyph/internal/verif/vk"
	"github.com/glyphlang/glyph/pkg/ast"
	"github.com/glyphlang/glyph/pkg/vm"
)

type c3Replay struct {
	Part      string `json:"part"`          // single | history | history-ctx | mapping
	Ctx       string `json:"ctx,omitempty"` // history-ctx: the sequence of compilation units
	Prog      c3Prog `json:"prog"`
	Modes     string `json:"modes"`
	Prev      c3Prog `json:"prev,omitempty"` // history: the program compiled first
	PrevModes string `json:"prev_modes,omitempty"`
	Level     int    `json:"level"`
	Kind      string `json:"kind"`
	Key       string `json:"key"`
	Text      string `json:"text"`
	FoundIn   string `json:"found_in,omitempty"`
}

type c3Checker struct {
	res          *vk.Result
	p            vk.Params
	levels       []OptimizationLevel
	kinds        map[string][]string    // (prog|modes|level) -> sorted failing kinds
	shrunk       map[string]c3Cand      // pre-key -> shrunk case
	keyOf        map[string]string      // shrunk pre-key -> final key (reported already)
	vm           *vm.VM                 // reused (VM.Reset) for the bulk runs; failures are confirmed on fresh VMs
	ctxAlone     map[string]*c3CtxAlone // (context|prog|modes|level) -> the body compiled on its own
	ctxDone      map[string]bool
	nUnconfirmed int64
	nPrograms    int64
	nDisagree    int64
	nDistinct    int64
	nEvals       int64
	nUnjudged    int64
	nFailing     int64
}

type c3Cand struct {
	P     c3Prog
	Modes string
}

func c3LevelName(l OptimizationLevel) string { return fmt.Sprintf("O%d", int(l)) }

func c3AllV(n int) string { return strings.Repeat("V", n) }

// failingKinds: the sorted failure kinds of (p, modes, level) against the
// value-form unoptimised compilation; cached.
func (ck *c3Checker) failingKinds(p c3Prog, modes string, level OptimizationLevel) []string {
	k := p.String() + "|" + modes + "|" + c3LevelName(level)
	if r, ok := ck.kinds[k]; ok {
		return r
	}
	ref := c3Compile(p, c3AllV(len(p)), OptNone)
	cand := c3Compile(p, modes, level)
	v := c3Judge(ref, cand, p.freeVars(), nil, ck.vm)
	r := c3SortedKeys(c3KindSet(v))
	if len(ck.kinds) < 400000 {
		ck.kinds[k] = r
	}
	return r
}

func c3KindSet(v c3Verdict) map[string]bool {
	m := map[string]bool{}
	for k := range v.Kinds {
		m[k] = true
	}
	return m
}

// c3Class groups the failure kinds: what a run observes, or what the compiler says.
func c3Class(kind string) string {
	if strings.HasPrefix(kind, "compile-") {
		return "class:" + kind
	}
	return "class:run"
}

// fails: does the case fail with this kind (or, for "class:…", with any kind of the class)?
func (ck *c3Checker) fails(p c3Prog, modes string, level OptimizationLevel, kind string) bool {
	for _, k := range ck.failingKinds(p, modes, level) {
		if k == kind || c3Class(k) == kind {
			return true
		}
	}
	return false
}

// ---- shrinking ---------------------------------------------------------------------------

func c3FreshBoring(p ...c3Prog) *c3E {
	used := map[string]bool{}
	for _, q := range p {
		c3WalkStmts(q, nil, func(e *c3E) {
			if e.K == "int" {
				used[e.V] = true
			}
		})
	}
	for n := 7; ; n++ {
		if !used[fmt.Sprint(n)] {
			return c3Int(n)
		}
	}
}

func c3IsAtom(e *c3E) bool { return len(e.A) == 0 && e.K != "call" && e.K != "arr" }

var c3SpecialLits = []*c3E{c3Int(0), c3Int(1), c3Int(2), c3Bool(true), c3Bool(false)}

// c3ExprVariants: strictly lighter replacements of e, most aggressive first.
func c3ExprVariants(e *c3E, boring *c3E) []*c3E {
	if e == nil {
		return nil
	}
	var out []*c3E
	w := e.weight()
	if w > 1 {
		out = append(out, boring)
	}
	if w > 2 {
		out = append(out, c3SpecialLits...)
	}
	if e.K == "var" && !c3IsFree(e.V) {
		out = append(out, c3Var("p"))
		for _, n := range []string{"x", "y"} {
			if n < e.V { // towards the smaller name only, so the measure decreases
				out = append(out, c3Var(n))
			}
		}
	}
	if e.K == "bin" {
		out = append(out, e.A[0], e.A[1])
	}
	if e.K == "arr" {
		out = append(out, e.A...)
	}
	for i, a := range e.A {
		for _, v := range c3ExprVariants(a, boring) {
			c := &c3E{K: e.K, V: e.V, A: append([]*c3E(nil), e.A...)}
			c.A[i] = v
			out = append(out, c)
		}
	}
	return out
}

func c3StmtVariants(s *c3S, boring *c3E) []*c3S {
	var out []*c3S
	with := func(f func(c *c3S)) {
		c := *s
		f(&c)
		out = append(out, &c)
	}
	if len(s.C) > 0 {
		with(func(c *c3S) { c.C = nil })
	}
	if s.St != 0 {
		with(func(c *c3S) { c.St = 0 })
	}
	if s.K != "ret" && s.K != "expr" {
		out = append(out, c3Ret(s.E)) // the plainest observer of the expression
	}
	if s.K == "expr" && s.E.K == "call" && len(s.E.A) == 1 {
		out = append(out, c3Ret(s.E.A[0]))
	}
	if s.K == "set" {
		out = append(out, c3Ret(c3Var(s.T)))
	}
	if s.K == "if" && len(s.B) == 0 && len(s.C) > 0 {
		out = append(out, c3If(c3Bool(true), s.C, nil))
	}
	for _, l := range c3ListVariants(s.B, boring) {
		l := l
		with(func(c *c3S) { c.B = l.list })
	}
	for _, l := range c3ListVariants(s.C, boring) {
		l := l
		with(func(c *c3S) { c.C = l.list })
	}
	for _, v := range c3ExprVariants(s.E, boring) {
		v := v
		with(func(c *c3S) { c.E = v })
	}
	for _, v := range c3ExprVariants(s.CV, boring) {
		v := v
		with(func(c *c3S) { c.CV = v })
	}
	return out
}

type c3ListVar struct {
	list []*c3S
	from []int // index in the original list of every element
}

func c3ListVariants(b []*c3S, boring *c3E) []c3ListVar {
	var out []c3ListVar
	idx := func(n int) []int {
		r := make([]int, n)
		for i := range r {
			r[i] = i
		}
		return r
	}
	// delete one statement
	for i := range b {
		l := append(append([]*c3S{}, b[:i]...), b[i+1:]...)
		f := append(append([]int{}, idx(len(b))[:i]...), idx(len(b))[i+1:]...)
		out = append(out, c3ListVar{l, f})
	}
	// splice a nested block in place of its statement
	for i, s := range b {
		for _, blk := range [][]*c3S{s.B, s.C} {
			if len(blk) == 0 {
				continue
			}
			l := append([]*c3S{}, b[:i]...)
			f := append([]int{}, idx(len(b))[:i]...)
			for _, n := range blk {
				l = append(l, n)
				f = append(f, i)
			}
			l = append(l, b[i+1:]...)
			f = append(f, idx(len(b))[i+1:]...)
			out = append(out, c3ListVar{l, f})
		}
	}
	// simplify one statement
	for i, s := range b {
		for _, v := range c3StmtVariants(s, boring) {
			l := append([]*c3S{}, b...)
			l[i] = v
			out = append(out, c3ListVar{l, idx(len(b))})
		}
	}
	return out
}

func c3ProjectModes(modes string, from []int) string {
	b := make([]byte, len(from))
	for i, f := range from {
		if f < len(modes) {
			b[i] = modes[f]
		} else {
			b[i] = 'V'
		}
	}
	return string(b)
}

// shrink greedily reduces a failing case while it keeps failing with the same
// kind at the same level; memoised on every intermediate case.
func (ck *c3Checker) shrink(c c3Cand, level OptimizationLevel, kind string) c3Cand {
	pre := kind + "|" + c3LevelName(level) + "|" + c.Modes + "|" + c.P.String()
	if r, ok := ck.shrunk[pre]; ok {
		return r
	}
	result := c
	w := c3ListWeight(c.P)
	boring := c3FreshBoring(c.P)
	base := c3Mechanisms(c.P, c.Modes, level)
	for _, lv := range c3ListVariants(c.P, boring) {
		np := c3Prog(lv.list)
		if c3ListWeight(np) >= w {
			continue
		}
		nm := c3ProjectModes(c.Modes, lv.from)
		if ck.fails(np, nm, level, kind) && c3Subset(c3Mechanisms(np, nm, level), base) {
			result = ck.shrink(c3Cand{np, nm}, level, kind)
			break
		}
	}
	ck.shrunk[pre] = result
	return result
}

// c3Mechanisms names the statement-level optimizer mechanisms a case involves:
// dead-code removal hiding a statement the unoptimised compiler rejects, and
// hoisting out of a loop.  A shrink step may lose mechanisms but must not bring
// one in: otherwise the failure of one defect could be "simplified" into a
// program that fails because of another (for instance `while c {$y = 5}; > y`,
// a hoisting failure, into `> c; > y`, where the undefined y merely sits in
// dead code).
func c3Mechanisms(p c3Prog, modes string, level OptimizationLevel) map[string]bool {
	m := map[string]bool{}
	for _, t := range c3DeadCodeTags(p) {
		m["dead-code:"+t] = true
	}
	if level >= OptAggressive {
		if c := c3HoistClass(p, modes); c != "" {
			for _, k := range strings.Split(c, "+") {
				m["licm:"+k] = true
			}
		}
	}
	return m
}

func c3Subset(a, b map[string]bool) bool {
	for k := range a {
		if !b[k] {
			return false
		}
	}
	return true
}

func (ck *c3Checker) failsAny(p c3Prog, modes string, level OptimizationLevel) bool {
	return len(ck.failingKinds(p, modes, level)) > 0
}

// normalise picks the lowest level and the simplest encoding at which the
// shrunk program still fails (same class of failure).
func (ck *c3Checker) normalise(c c3Cand, level OptimizationLevel, class string) (c3Cand, OptimizationLevel) {
	n := len(c.P)
	var modes []string
	for _, m := range []byte{'V', 'X', 'S', 'P'} {
		modes = append(modes, strings.Repeat(string(m), n))
	}
	if c.P.hasNested() {
		modes = append(modes, strings.Repeat("N", n))
	}
	modes = append(modes, c.Modes)
	for _, l := range ck.levels {
		if l == OptNone || l > level {
			continue
		}
		for _, m := range modes {
			if ck.fails(c.P, m, l, class) {
				return c3Cand{c.P, m}, l
			}
		}
	}
	return c, level
}

func (ck *c3Checker) report(p c3Prog, modes string, level OptimizationLevel, kind string, family string) {
	ck.nFailing++
	s := ck.shrink(c3Cand{p, modes}, level, kind)
	pre := kind + "|" + c3LevelName(level) + "|" + s.Modes + "|" + s.P.String()
	if key, done := ck.keyOf[pre]; done {
		if key != "" {
			ck.res.Violate(key, "", nil) // counted as a suppressed duplicate
		}
		return
	}
	// below the kind-specific minimum: keep shrinking while the case fails with
	// any kind of the same class (different symptoms of one defect meet in one
	// minimal program), then move to the simplest encoding / lowest level and
	// shrink again there, to a fixpoint
	class := c3Class(kind)
	lvl := level
	for i := 0; i < 6; i++ {
		s = ck.shrink(s, lvl, class)
		ns, nl := ck.normalise(s, lvl, class)
		if nl == lvl && ns.Modes == s.Modes {
			break
		}
		s, lvl = ns, nl
	}
	kinds := ck.failingKinds(s.P, s.Modes, lvl)
	if len(kinds) == 0 {
		kinds = []string{kind}
	}
	// A single straight-line statement whose failure comes with an expression
	// rewrite of the optimizer is keyed by that rewrite rule (one root cause);
	// everything else by canonical minimal program + encoding + lowest level.
	var key string
	enc := c3EncName(s.Modes)
	switch {
	case len(s.P) == 1 && !s.P.hasNested() && len(c3Rules(s.P, lvl)) > 0:
		key = "rewrite|" + c3LevelName(lvl) + "|" + strings.Join(c3Rules(s.P, lvl), " & ")
	case kinds[0] == "compile-accepts" && c3DeadCodeTag(s.P) != "":
		// the unoptimised compiler rejects a statement that this level never
		// compiles because it removed it as dead
		key = "dead-code|" + c3LevelName(lvl) + "|" + c3DeadCodeTag(s.P) + "|compile-error-erased"
	case lvl == OptAggressive && !ck.fails(s.P, s.Modes, OptBasic, class) && c3Hoists(s.P, s.Modes):
		// only the aggressive level fails and it moves a statement out of a loop
		key = "licm|" + c3LevelName(lvl) + "|" + kinds[0] + "|hoisted-" + c3HoistClass(s.P, s.Modes)
	case lvl == OptAggressive && c3CSETag(s.P) != "" && !ck.fails(s.P, s.Modes, OptBasic, class):
		// only the aggressive level fails and one expression is assigned twice:
		// common-subexpression elimination reusing a stale value
		key = "cse|" + c3LevelName(lvl) + "|" + c3CSETag(s.P)
	case strings.HasPrefix(enc, "mixed:"):
		key = "mixed|" + c3LevelName(lvl) + "|" + s.P.canonicalModes(s.Modes)
	default:
		key = "flow|" + c3LevelName(lvl) + "|" + enc + "|" + s.P.canonical()
	}
	desc, confirmed := c3Describe(s.P, s.Modes, lvl, kinds[0])
	if !confirmed {
		ck.keyOf[pre] = ""
		ck.nUnconfirmed++
		return
	}
	ck.keyOf[pre] = key
	ck.res.Violate(key, desc, c3Replay{Part: "single", Prog: s.P, Modes: s.Modes, Level: int(lvl), Kind: kinds[0], Key: key,
		Text: s.P.String(), FoundIn: family + ": " + p.String() + " [" + modes + " " + c3LevelName(level) + " " + kind + "]"})
}

// c3Describe re-runs the case on fresh VMs and renders the first witness.
func c3Describe(p c3Prog, modes string, level OptimizationLevel, kind string) (string, bool) {
	ref := c3Compile(p, c3AllV(len(p)), OptNone)
	cand := c3Compile(p, modes, level)
	v := c3Judge(ref, cand, p.freeVars(), nil, nil)
	w, ok := v.Kinds[kind]
	return fmt.Sprintf("%s: program «%s» built as %s (%s) compiled at %s: %s", kind, p.String(), c3EncName(modes), modes, c3LevelName(level), w.Desc), ok
}

// ---- attribution to dead-code elimination and loop-invariant code motion ----------------

// c3CondFate tells what the optimizer can make of an if condition: "true" /
// "false" when it folds to that literal on its own, "maybe" when it makes no
// call but reads a variable (constant propagation may decide it: `p = 7; if
// (p == 8) {…}`), "" when it depends on a call.
func c3CondFate(e *c3E) string {
	open, local := false, false
	e.walk(func(x *c3E) {
		switch {
		case x.K == "call" || x.K == "arr":
			open = true
		case x.K == "var":
			local = true
		}
	})
	if open {
		return ""
	}
	if local {
		return "maybe"
	}
	fate := ""
	func() {
		defer func() { recover() }()
		if l, ok := NewOptimizer(OptAggressive).OptimizeExpression(e.build(true)).(*ast.LiteralExpr); ok {
			if b, ok := l.Value.(ast.BoolLiteral); ok {
				fate = fmt.Sprint(b.Value)
			}
		}
	}()
	return fate
}

// c3StripDead removes what dead-code elimination may remove: afterReturn — the
// statements that follow a return in the same list; constIf — the branch of an
// `if` that cannot run when the optimizer decides the condition (dropThen says
// which branch goes when the condition is only possibly constant).
func c3StripDead(b []*c3S, afterReturn, constIf, dropThen bool) []*c3S {
	var out []*c3S
	for _, s := range b {
		c := *s
		c.B = c3StripDead(s.B, afterReturn, constIf, dropThen)
		c.C = c3StripDead(s.C, afterReturn, constIf, dropThen)
		if constIf && s.K == "if" {
			switch fate := c3CondFate(s.E); {
			case fate == "true", fate == "maybe" && !dropThen:
				c.C = nil
			case fate == "false", fate == "maybe" && dropThen:
				c.B = nil
			}
		}
		out = append(out, &c)
		if afterReturn && s.K == "ret" {
			break
		}
	}
	return out
}

// c3DeadCodeTags: which kinds of dead code ("after-return", "constant-if") have
// to go before the unoptimised compiler accepts p; nil when it accepts p as it
// is, or rejects it for a statement that is not dead.
func c3DeadCodeTags(p c3Prog) []string {
	if c3Compile(p, c3AllV(len(p)), OptNone).ok() {
		return nil
	}
	for _, t := range []struct {
		ret, ci bool
		tags    []string
	}{{true, false, []string{"after-return"}}, {false, true, []string{"constant-if"}}, {true, true, []string{"after-return", "constant-if"}}} {
		for _, dropThen := range []bool{false, true} {
			q := c3Prog(c3StripDead(p, t.ret, t.ci, dropThen))
			if c3Compile(q, c3AllV(len(q)), OptNone).ok() {
				return t.tags
			}
		}
	}
	return nil
}

func c3DeadCodeTag(p c3Prog) string { return strings.Join(c3DeadCodeTags(p), "+") }

// c3TopDecls counts the pointer-form declarations in the top-level list the
// optimizer produces at this level.
func c3TopDecls(p c3Prog, modes string, level OptimizationLevel) map[string]int {
	m := map[string]int{}
	for _, st := range NewOptimizer(level).OptimizeStatements(p.buildAST(modes)) {
		if a, ok := st.(*ast.AssignStatement); ok {
			m[a.Target]++
		}
	}
	return m
}

// c3HoistClass tells what loop-invariant code motion moves out of the top-level
// loops of p: "" when the aggressive optimizer puts no more declarations into
// the top-level list than the basic one; else the classes of the hoisted
// declarations' right-hand sides — "call" (contains a call), "variant" (reads a
// variable the loop assigns), "invariant" (neither).
func c3HoistClass(p c3Prog, modes string) (class string) {
	defer func() {
		if recover() != nil {
			class = ""
		}
	}()
	basic, aggr := c3TopDecls(p, modes, OptBasic), c3TopDecls(p, modes, OptAggressive)
	classes := map[string]bool{}
	for _, s := range p {
		if s.K != "while" {
			continue
		}
		assigned := map[string]bool{}
		c3WalkStmts(s.B, func(b *c3S) {
			if b.K == "decl" || b.K == "set" || b.K == "for" {
				assigned[b.T] = true
			}
		}, nil)
		for _, b := range s.B {
			if b.K != "decl" || aggr[b.T] <= basic[b.T] {
				continue
			}
			c := "invariant"
			b.E.walk(func(x *c3E) {
				if x.K == "var" && assigned[x.V] && c != "call" {
					c = "variant"
				}
				if x.K == "call" {
					c = "call"
				}
			})
			classes[c] = true
		}
	}
	return strings.Join(c3SortedKeys(classes), "+")
}

func c3Hoists(p c3Prog, modes string) bool { return c3HoistClass(p, modes) != "" }

// ---- rewrite rules ---------------------------------------------------------------------

func c3RenderAST(e ast.Expr) string {
	switch x := e.(type) {
	case *ast.LiteralExpr:
		switch l := x.Value.(type) {
		case ast.IntLiteral:
			return fmt.Sprint(l.Value)
		case ast.FloatLiteral:
			return fmt.Sprintf("%gf", l.Value)
		case ast.StringLiteral:
			return fmt.Sprintf("%q", l.Value)
		case ast.BoolLiteral:
			return fmt.Sprint(l.Value)
		case ast.NullLiteral:
			return "null"
		}
		return fmt.Sprintf("%T", x.Value)
	case *ast.VariableExpr:
		return x.Name
	case *ast.FunctionCallExpr:
		return x.Name
	case *ast.BinaryOpExpr:
		return "(" + c3RenderAST(x.Left) + " " + x.Op.String() + " " + c3RenderAST(x.Right) + ")"
	}
	return fmt.Sprintf("%T", e)
}

// c3HasCall: does evaluating e involve a call (an observable effect)?
func c3HasCall(e *c3E) bool {
	found := false
	e.walk(func(x *c3E) {
		if x.K == "call" {
			found = true
		}
	})
	return found
}

// c3Rules lists the expression rewrites the optimizer applies at this level to
// the binary nodes of p when their non-literal operands are opaque: each node
// op(l, r) is abstracted to a pattern — literals kept; an operand whose
// evaluation has no effect (a variable, an operator tree over variables and
// literals) becomes a variable u/v (structurally equal operands get the same
// name); an operand that contains a call becomes the opaque call □ — and handed
// to a fresh Optimizer; a result other than the same node is a rule
// "pattern => result".  A rule over u/v may erase a type error only; a rule over
// □ also drops, repeats or reorders an observable call.
func c3Rules(p c3Prog, level OptimizationLevel) []string {
	seen := map[string]bool{}
	c3WalkStmts(p, nil, func(e *c3E) {
		if e.K != "bin" {
			return
		}
		names := map[string]string{}
		abstract := func(c *c3E) ast.Expr {
			switch c.K {
			case "int", "float", "str", "bool", "null":
				return c.build(true)
			}
			if c3HasCall(c) || c.K == "arr" {
				return &ast.FunctionCallExpr{Name: "□"}
			}
			n, ok := names[c.String()]
			if !ok {
				n = string(rune('u' + len(names)))
				names[c.String()] = n
			}
			return &ast.VariableExpr{Name: n}
		}
		l, r := abstract(e.A[0]), abstract(e.A[1])
		op := c3Ops[e.V]
		pat := &ast.BinaryOpExpr{Op: op, Left: l, Right: r}
		after := func() (s string) {
			defer func() {
				if x := recover(); x != nil {
					s = "panic"
				}
			}()
			return c3RenderAST(NewOptimizer(level).OptimizeExpression(pat))
		}()
		if after == c3RenderAST(pat) {
			return
		}
		ls, rs := c3RenderAST(l), c3RenderAST(r)
		if strings.Count(ls+rs, "□") == 1 && strings.Count(after, "□") == 1 {
			// the call is still evaluated exactly once: the same rule as over a variable
			ls, rs, after = strings.Replace(ls, "□", "u", 1), strings.Replace(rs, "□", "u", 1), strings.Replace(after, "□", "u", 1)
		}
		switch op {
		case ast.Add, ast.Mul, ast.And, ast.Or, ast.Eq, ast.Ne:
			if rs < ls {
				ls, rs = rs, ls
			}
		}
		seen["("+ls+" "+op.String()+" "+rs+") => "+after] = true
	})
	return c3SortedKeys(seen)
}

// ---- one program, all encodings and levels ----------------------------------------------

// checkProgram judges every (encoding, level) of p.  encs[0] must be the
// value-form encoding, encs[1] the pointer-form one.
func (ck *c3Checker) checkProgram(p c3Prog, family string, encs []c3Enc) {
	ck.nPrograms++
	n := len(p)
	ref := c3Compile(p, c3AllV(n), OptNone)
	if !ref.ok() && len(encs) > 2 {
		// no unoptimised bytecode: the only possible difference is that a level
		// accepts the program; the all-pointer encoding enables every rewrite
		encs = encs[:2]
	}
	vars := p.freeVars()
	refRuns := map[string]c3Out{}
	byBC := map[string]c3Verdict{}
	nontrivial := false
	for _, enc := range encs {
		for _, level := range ck.levels {
			if level == OptNone && enc.Name != "ptr" {
				continue // OptNone hands the statements through untouched: checked on the all-pointer encoding
			}
			cand := c3Compile(p, enc.Modes, level)
			var v c3Verdict
			if cand.ok() {
				if cv, ok := byBC[string(cand.BC)]; ok {
					v = cv
					v.Runs = 0
					v.Unjudged = 0
				} else {
					v = c3Judge(ref, cand, vars, refRuns, ck.vm)
					byBC[string(cand.BC)] = v
				}
			} else {
				v = c3Judge(ref, cand, vars, refRuns, ck.vm)
			}
			if v.Differs {
				ck.nDisagree++
				nontrivial = true
			}
			ck.nEvals += int64(v.Runs)
			ck.nUnjudged += int64(v.Unjudged)
			if len(v.Kinds) == 0 {
				continue
			}
			nontrivial = true
			k := p.String() + "|" + enc.Modes + "|" + c3LevelName(level)
			kinds := c3SortedKeys(c3KindSet(v))
			if len(ck.kinds) < 400000 {
				ck.kinds[k] = kinds
			}
			for _, kind := range kinds {
				ck.report(p, enc.Modes, level, kind, family)
			}
		}
	}
	if nontrivial {
		ck.nDistinct++
		ck.res.Sample(2, map[string]any{"family": family, "program": p.String(), "free": vars})
	}
}

// ---- history dimension ------------------------------------------------------------------

// histOutcome compiles prev and then p with ONE compiler value.
func c3CompileAfter(prev c3Prog, prevModes string, p c3Prog, modes string, level OptimizationLevel) c3Compiled {
	comp := NewCompilerWithOptLevel(level)
	c3CompileWith(comp, prev, prevModes)
	return c3CompileWith(comp, p, modes)
}

func c3SameCompiled(a, b c3Compiled) bool {
	if a.ok() != b.ok() {
		return false
	}
	if !a.ok() {
		return (a.Panic != "") == (b.Panic != "")
	}
	return string(a.BC) == string(b.BC)
}

func c3UnionVars(a, b c3Prog) []string {
	seen := map[string]bool{}
	for _, v := range a.freeVars() {
		seen[v] = true
	}
	for _, v := range b.freeVars() {
		seen[v] = true
	}
	var out []string
	for _, n := range c3FreeNames {
		if seen[n] {
			out = append(out, n)
		}
	}
	return out
}

// histKinds: failure kinds of p compiled after prev, provided p alone is clean
// at this level and the history changes the bytecode.
func (ck *c3Checker) histKinds(prev c3Prog, prevModes string, p c3Prog, modes string, level OptimizationLevel) (kinds []string, v c3Verdict, influenced bool) {
	after := c3CompileAfter(prev, prevModes, p, modes, level)
	fresh := c3Compile(p, modes, level)
	if c3SameCompiled(after, fresh) {
		return nil, v, false
	}
	if len(ck.failingKinds(p, modes, level)) > 0 {
		return nil, v, true // p alone already differs at this level: reported by the single-program part
	}
	ref := c3Compile(p, c3AllV(len(p)), OptNone)
	v = c3Judge(ref, after, c3UnionVars(prev, p), nil, ck.vm)
	return c3SortedKeys(c3KindSet(v)), v, true
}

func (ck *c3Checker) histFails(prev c3Prog, prevModes string, p c3Prog, modes string, level OptimizationLevel, kind string) bool {
	ks, _, _ := ck.histKinds(prev, prevModes, p, modes, level)
	for _, k := range ks {
		if k == kind {
			return true
		}
	}
	return false
}

// staleMap tells which of the optimizer's fact maps carries the fact that
// breaks p: the failure disappears when exactly that map is emptied between the
// two compilations.
func c3StaleMap(prev c3Prog, prevModes string, p c3Prog, modes string, level OptimizationLevel, kind string) string {
	ref := c3Compile(p, c3AllV(len(p)), OptNone)
	vars := c3UnionVars(prev, p)
	var cured []string
	for _, name := range []string{"constants", "copies", "expressions"} {
		comp := NewCompilerWithOptLevel(level)
		c3CompileWith(comp, prev, prevModes)
		switch name {
		case "constants":
			for k := range comp.optimizer.constants {
				delete(comp.optimizer.constants, k)
			}
		case "copies":
			for k := range comp.optimizer.copies {
				delete(comp.optimizer.copies, k)
			}
		case "expressions":
			for k := range comp.optimizer.expressions {
				delete(comp.optimizer.expressions, k)
			}
		}
		after := c3CompileWith(comp, p, modes)
		v := c3Judge(ref, after, vars, nil, nil)
		if _, still := v.Kinds[kind]; !still {
			cured = append(cured, name)
		}
	}
	if len(cured) == 1 {
		return cured[0]
	}
	if len(cured) == 0 {
		return "several-maps"
	}
	return strings.Join(cured, "+")
}

func (ck *c3Checker) reportHistory(prev c3Prog, prevModes string, p c3Prog, modes string, level OptimizationLevel, kind string) {
	ck.nFailing++
	// shrink prev, then p, greedily to a fixpoint
	for changed := true; changed; {
		changed = false
		boring := c3FreshBoring(prev, p)
		w := c3ListWeight(prev)
		for _, lv := range c3ListVariants(prev, boring) {
			np := c3Prog(lv.list)
			if len(np) == 0 || c3ListWeight(np) >= w {
				continue
			}
			nm := c3ProjectModes(prevModes, lv.from)
			if ck.histFails(np, nm, p, modes, level, kind) {
				prev, prevModes, changed = np, nm, true
				break
			}
		}
		if changed {
			continue
		}
		w = c3ListWeight(p)
		for _, lv := range c3ListVariants(p, boring) {
			np := c3Prog(lv.list)
			if len(np) == 0 || c3ListWeight(np) >= w {
				continue
			}
			nm := c3ProjectModes(modes, lv.from)
			if ck.histFails(prev, prevModes, np, nm, level, kind) {
				p, modes, changed = np, nm, true
				break
			}
		}
	}
	lvl := level
	for _, l := range ck.levels {
		if l != OptNone && l < lvl && ck.histFails(prev, prevModes, p, modes, l, kind) {
			lvl = l
			break
		}
	}
	stale := c3StaleMap(prev, prevModes, p, modes, lvl, kind)
	key := fmt.Sprintf("history/stale-%s|%s", stale, c3LevelName(lvl))
	_, v, _ := ck.histKinds(prev, prevModes, p, modes, lvl)
	desc := fmt.Sprintf("one Compiler value (%s) compiled «%s» and then «%s» (both %s): the second route differs from its unoptimised compilation although it is compiled correctly by a fresh compiler — %s: %s (facts left in Optimizer.%s by the first route)",
		c3LevelName(lvl), prev.String(), p.String(), c3EncName(modes), kind, v.Kinds[kind].Desc, stale)
	ck.res.Violate(key, desc, c3Replay{Part: "history", Prog: p, Modes: modes, Prev: prev, PrevModes: prevModes, Level: int(lvl), Kind: kind, Key: key,
		Text: prev.String() + "  =>  " + p.String()})
}

// ---- the level mappings of the CLI and the JIT -------------------------------------------

var c3LevelConst = map[string]OptimizationLevel{"OptNone": OptNone, "OptBasic": OptBasic, "OptAggressive": OptAggressive}

// c3ReadMappings extracts which OptimizationLevel constants `glyph compile -O…`
// and the JIT tiers hand to NewCompilerWithOptLevel.
func c3ReadMappings(res *vk.Result) (levels map[OptimizationLevel]bool) {
	levels = map[OptimizationLevel]bool{}
	re := regexp.MustCompile(`compiler\.(Opt[A-Za-z0-9_]+)`)
	for _, f := range []string{"../../cmd/glyph/commands.go", "../../pkg/jit/jit.go"} {
		b, err := os.ReadFile(f)
		if err != nil {
			res.Note("level mapping: cannot read %s: %v (the three levels are driven regardless)", f, err)
			continue
		}
		names := map[string]bool{}
		for _, m := range re.FindAllStringSubmatch(string(b), -1) {
			names[m[1]] = true
		}
		var sorted []string
		for n := range names {
			sorted = append(sorted, n)
		}
		sort.Strings(sorted)
		res.Note("level mapping %s uses %s", f, strings.Join(sorted, ","))
		for _, n := range sorted {
			if n == "OptimizationLevel" {
				continue
			}
			l, ok := c3LevelConst[n]
			if !ok {
				key := "level-mapping/unknown-level/" + n
				res.Violate(key, fmt.Sprintf("%s passes compiler.%s, a level this check does not drive", f, n),
					c3Replay{Part: "mapping", Key: key, Text: n})
				continue
			}
			levels[l] = true
		}
		src := string(b)
		if strings.HasSuffix(f, "commands.go") {
			if !regexp.MustCompile(`case 0:\s*optLevelEnum = compiler\.OptNone`).MatchString(src) {
				key := "level-mapping/O0-is-not-unoptimised"
				res.Violate(key, "`glyph compile -O0` does not map to compiler.OptNone", c3Replay{Part: "mapping", Key: key, Text: "O0"})
			}
		} else if !regexp.MustCompile(`case TierBaseline:\s*comp = compiler\.NewCompilerWithOptLevel\(compiler\.OptNone\)`).MatchString(src) {
			key := "level-mapping/baseline-tier-is-not-unoptimised"
			res.Violate(key, "the JIT baseline tier does not compile with compiler.OptNone", c3Replay{Part: "mapping", Key: key, Text: "TierBaseline"})
		}
	}
	return levels
}

// c3ReplayDir re-runs every replay file of dir (development aid, see TestVerif_C03).
func c3ReplayDir(ck *c3Checker, dir, out string) {
	files, _ := os.ReadDir(dir)
	var lines []string
	ck.vm = nil
	for _, f := range files {
		if !strings.HasSuffix(f.Name(), ".json") {
			continue
		}
		var rp c3Replay
		if err := vk.LoadReplay(dir+"/"+f.Name(), &rp); err != nil {
			continue
		}
		state := "gone"
		switch rp.Part {
		case "single":
			if kinds := ck.failingKinds(rp.Prog, rp.Modes, OptimizationLevel(rp.Level)); len(kinds) > 0 {
				state = "FAILS(" + strings.Join(kinds, ",") + ")"
			}
		case "history":
			for _, k := range []string{rp.Kind} {
				if ck.histFails(rp.Prev, rp.PrevModes, rp.Prog, rp.Modes, OptimizationLevel(rp.Level), k) {
					state = "FAILS(" + k + ")"
				}
			}
		default:
			state = "skipped"
		}
		lines = append(lines, fmt.Sprintf("%s\t%s\t%s", state, rp.Key, rp.Text))
	}
	sort.Strings(lines)
	text := strings.Join(lines, "\n") + "\n"
	if out != "" {
		os.WriteFile(out, []byte(text), 0o644)
	} else {
		fmt.Print(text)
	}
}

// ---- the test ----------------------------------------------------------------------------

func TestVerif_C03(t *testing.T) {
	p := vk.Env()
	res := vk.NewResult("every program of three bounded grammars (expression family: one expression of depth<=2 (thorough 3) in 6 statement templates; flow family: every statement list of length<=3 over the full statement alphabet and of length 4 (thorough: 4 and 5) over the small one; history family: every ordered pair of lists of length<=2 compiled by one Compiler as two HTTP routes; operand-order family: `$x = e1; $y = e2; > [x, y]` for every ordered pair of op(a, b), op any of the 13 operators, a != b from {p, q, \"b\"} not both literal; branches family: `prefix; if (p == 1) {T} else {E}; > [x, y]` for every ordered pair of blocks T (1..2 statements) and E (0..2 statements) over 7 fact-establishing/fact-reading statements and 2 prefixes; unit-sequence family: every ordered pair of the history corpus compiled by one Compiler as two handlers of one WebSocket route, two WebSocket routes, HTTP route then WebSocket route and the reverse, HTTP route then command / cron task / event handler / queue worker, and every ordered pair of single-statement corpus programs as every other ordered pair of handler types of one WebSocket route) x AST encodings {val, ptr, ptr-stmt/val-expr, val-stmt/ptr-expr, ptr-top/val-nested, only-i-ptr, only-i-val} x levels {OptNone, OptBasic, OptAggressive}; a case is non-trivial when some compilation's bytecode differs from the value-form unoptimised bytecode; those are executed for every assignment of {0,1,2,1.5,2.0,\"a\",true,false,null,[1]} to the free variable p and of these plus {\"b\",[2]} to the second free variable q")
	ck := &c3Checker{res: res, p: p, levels: []OptimizationLevel{OptNone, OptBasic, OptAggressive},
		kinds: map[string][]string{}, shrunk: map[string]c3Cand{}, keyOf: map[string]string{}, vm: vm.NewVM(),
		ctxAlone: map[string]*c3CtxAlone{}, ctxDone: map[string]bool{}}

	if p.Replay != "" {
		if dir := os.Getenv("C03_REPLAY_DIR"); dir != "" {
			// development aid: re-run every recorded case of a directory against
			// this tree and list which still fail (C03_REPLAY_OUT: result file)
			c3ReplayDir(ck, dir, os.Getenv("C03_REPLAY_OUT"))
			ok := false
			res.Replayed = &ok
			res.Write(p)
			return
		}
		var rp c3Replay
		if err := vk.LoadReplay(p.Replay, &rp); err != nil {
			t.Fatalf("replay: %v", err)
		}
		ok := false
		switch rp.Part {
		case "single":
			ck.vm = nil // fresh VM for every execution
			if desc, again := c3Describe(rp.Prog, rp.Modes, OptimizationLevel(rp.Level), rp.Kind); again {
				ok = true
				res.Violate(rp.Key, desc, rp)
			}
		case "history":
			ck.vm = nil
			if ck.histFails(rp.Prev, rp.PrevModes, rp.Prog, rp.Modes, OptimizationLevel(rp.Level), rp.Kind) {
				ok = true
				res.Violate(rp.Key, "reproduced: "+rp.Text, rp)
			}
		case "history-ctx":
			ck.vm = nil
			if ctx, known := c3CtxByName(rp.Ctx); known && ck.ctxHistFails(ctx, rp.Prev, rp.PrevModes, rp.Prog, rp.Modes, OptimizationLevel(rp.Level), rp.Kind) {
				ok = true
				res.Violate(rp.Key, "reproduced: "+rp.Text, rp)
			}
		case "mapping":
			sub := vk.NewResult("")
			c3ReadMappings(sub)
			for _, v := range sub.Violations {
				if v.Key == rp.Key {
					ok = true
					res.Violate(rp.Key, v.Desc, rp)
				}
			}
		}
		res.Replayed = &ok
		res.Write(p)
		return
	}

	// the level mappings: which levels must be driven
	mapped := c3ReadMappings(res)
	if def := NewCompiler().optimizer.level; true {
		mapped[def] = true
		res.Note("NewCompiler() (the server's compiler) optimises at level %d", int(def))
	}
	for l := range mapped {
		found := false
		for _, d := range ck.levels {
			if d == l {
				found = true
			}
		}
		if !found {
			key := fmt.Sprintf("level-mapping/undriven-level/%d", int(l))
			res.Violate(key, "a level reachable from the CLI/JIT/server is not driven by this check", c3Replay{Part: "mapping", Key: key})
		}
	}

	// development aid: C03_TIMING=<file> appends the wall time of every family of this shard
	lap := time.Now()
	timing := func(label string) {
		if f := os.Getenv("C03_TIMING"); f != "" {
			if fh, err := os.OpenFile(f, os.O_APPEND|os.O_CREATE|os.O_WRONLY, 0o644); err == nil {
				fmt.Fprintf(fh, "%s\t%s\t%.2f\t%d\t%d\n", os.Getenv("VERIF_SHARD"), label, time.Since(lap).Seconds(), ck.nEvals, ck.nPrograms)
				fh.Close()
			}
		}
		lap = time.Now()
	}

	idx := 0
	stopped := false
	mine := func(i int) bool {
		if stopped {
			return false
		}
		if !p.Mine(i) {
			return false
		}
		if p.Expired() {
			stopped = true
			res.Exhaustive = false
			return false
		}
		return true
	}

	// family 1: expressions (the depth-3 layer of the thorough tier, the least
	// informative part per second, runs last)
	pool := c3ExprPool(false)
	exprFamily := func(pool []*c3E) {
		for _, e := range pool {
			for _, prog := range c3ExprTemplates(e) {
				if mine(idx) {
					ck.checkProgram(prog, "expr", c3Encodings(len(prog), false)[:4])
				}
				idx++
			}
			if stopped {
				break
			}
		}
	}
	res.Bounds["expression_pool"] = len(pool)
	exprFamily(pool)
	exprPrograms := idx

	timing("expr")

	// family 2: statement lists
	full := c3FlowAlphabet(true)
	small := c3FlowAlphabet(false)
	// quick: every list of <= 3 statements over the full alphabet and of exactly
	// 4 over the small one; thorough: additionally the lists of 5 over the small
	// alphabet.  (Lists of 4 over the full alphabet are 5*10^7 programs: beyond
	// any budget, so they are not claimed.)
	fullLen, smallMin, smallMax := 3, 4, 4
	if p.Thorough {
		smallMax = 5
	}
	res.Bounds["flow_alphabet_full"] = len(full)
	res.Bounds["flow_alphabet_small"] = len(small)
	res.Bounds["flow_max_len_full"] = fullLen
	res.Bounds["flow_max_len_small"] = smallMax
	if !stopped {
		idx = c3Lists(full, 1, fullLen, idx, func(i int, build func() c3Prog) bool {
			if mine(i) {
				pr := build()
				ck.checkProgram(pr, "flow", c3FlowEncodings(len(pr), pr.hasNested()))
			}
			return !stopped
		})
	}
	if !stopped {
		idx = c3Lists(small, smallMin, smallMax, idx, func(i int, build func() c3Prog) bool {
			if mine(i) {
				pr := build()
				ck.checkProgram(pr, "flow-small", c3FlowEncodings(len(pr), pr.hasNested()))
			}
			return !stopped
		})
	}
	flowPrograms := idx - exprPrograms

	timing("flow")

	// family 3: ordered pairs compiled by one compiler
	var corpus []c3Prog
	c3Lists(c3HistoryAlphabet(), 1, 2, 0, func(i int, build func() c3Prog) bool {
		corpus = append(corpus, build())
		return true
	})
	res.Bounds["history_corpus"] = len(corpus)
	var pairs, influenced int64
	histModes := []byte{'V', 'P', 'S', 'X'}
	if !stopped {
	pairLoop:
		for _, a := range corpus {
			for _, b := range corpus {
				if mine(idx) {
					pairs++
					any := false
					for _, m := range histModes {
						am, bm := strings.Repeat(string(m), len(a)), strings.Repeat(string(m), len(b))
						for _, level := range ck.levels {
							kinds, v, infl := ck.histKinds(a, am, b, bm, level)
							if infl {
								any = true
								ck.nDisagree++
							}
							ck.nEvals += int64(v.Runs)
							for _, kind := range kinds {
								ck.reportHistory(a, am, b, bm, level, kind)
							}
						}
					}
					if any {
						influenced++
					}
				}
				idx++
				if stopped {
					break pairLoop
				}
			}
		}
	}

	timing("history")

	// family 4: operand order
	opPool := c3OperandOrderPool()
	res.Bounds["operand_order_pool"] = len(opPool)
	res.Bounds["operand_order_programs"] = len(opPool) * len(opPool)
	if !stopped {
	opLoop:
		for _, e1 := range opPool {
			for _, e2 := range opPool {
				if mine(idx) {
					ck.checkProgram(c3OperandOrderProgram(e1, e2), "operand-order", c3FlowEncodings(3, false))
				}
				idx++
				if stopped {
					break opLoop
				}
			}
		}
	}

	timing("operand-order")

	// family 5: branches
	blocks := c3BranchBlocks()
	elses := append([][]*c3S{nil}, blocks...)
	prefixes := c3BranchPrefixes()
	res.Bounds["branch_blocks"] = len(blocks)
	res.Bounds["branch_programs"] = len(prefixes) * len(blocks) * len(elses)
	if !stopped {
	brLoop:
		for _, pre := range prefixes {
			for _, th := range blocks {
				for _, el := range elses {
					if mine(idx) {
						pr := c3BranchProgram(pre, th, el)
						ck.checkProgram(pr, "branches", c3BranchEncodings(len(pr)))
					}
					idx++
					if stopped {
						break brLoop
					}
				}
			}
		}
	}

	timing("branches")

	// family 6: ordered pairs compiled by one compiler as other kinds of unit
	var singles []c3Prog
	for _, c := range corpus {
		if len(c) == 1 {
			singles = append(singles, c)
		}
	}
	var ctxPairs, ctxInfluenced int64
	ctxNames := []string{}
	ctxFamily := func(ctxs []c3Ctx, corpus []c3Prog) {
		for _, ctx := range ctxs {
			ctxNames = append(ctxNames, fmt.Sprintf("%s (%d pairs)", ctx.Name, len(corpus)*len(corpus)))
			for _, a := range corpus {
				for _, b := range corpus {
					if stopped {
						return
					}
					if mine(idx) {
						ctxPairs++
						any := false
						for _, m := range histModes {
							am, bm := strings.Repeat(string(m), len(a)), strings.Repeat(string(m), len(b))
							for _, level := range ck.levels {
								kinds, v, infl := ck.ctxHistKinds(ctx, a, am, b, bm, level)
								if infl {
									any = true
									ck.nDisagree++
								}
								ck.nEvals += int64(v.Runs)
								for _, kind := range kinds {
									ck.reportCtxHistory(ctx, a, am, b, bm, level, kind)
								}
							}
						}
						if any {
							ctxInfluenced++
						}
					}
					idx++
				}
			}
		}
	}
	ctxFamily(c3FullCorpusContexts(), corpus)
	ctxFamily(c3SmallCorpusContexts(), singles)
	res.Bounds["unit_sequences"] = ctxNames
	timing("unit-sequences")

	// family 1, thorough layer: expressions of depth 3
	deep := 0
	if p.Thorough && !stopped {
		all := c3ExprPool(true)
		before := idx
		exprFamily(all[len(pool):])
		deep = idx - before
		res.Bounds["expression_pool_depth3"] = len(all) - len(pool)
	}
	exprPrograms += deep

	res.Evaluations = ck.nEvals
	res.Distinct = ck.nDistinct + influenced + ctxInfluenced
	res.Count("programs", ck.nPrograms+pairs+ctxPairs)
	res.Count("unit_sequence_pairs", ctxPairs)
	res.Count("unit_sequence_pairs_where_history_changed_the_bytecode", ctxInfluenced)
	res.Count("disagreements_checked", ck.nDisagree)
	res.Count("single_programs", ck.nPrograms)
	res.Count("history_pairs", pairs)
	res.Count("history_pairs_where_history_changed_the_bytecode", influenced)
	res.Count("failing_cases_before_shrinking", ck.nFailing)
	res.Count("comparisons_not_judged_both_hit_step_limit", ck.nUnjudged)
	res.Count("failures_not_confirmed_on_fresh_vm", ck.nUnconfirmed)
	res.Bounds["expr_programs"] = exprPrograms
	res.Bounds["flow_programs"] = flowPrograms
	res.Bounds["history_pairs"] = len(corpus) * len(corpus)
	res.Bounds["free_variable_values"] = c3ValueSpellings
	res.Bounds["free_variable_values_q"] = c3ValueSpellingsQ
	res.Bounds["levels"] = []string{"OptNone", "OptBasic", "OptAggressive"}
	res.Write(p)
}
