package compiler

// C03 harness, part 1: a tiny program representation (JSON-able for replay), its
// printers, and the encoders that build the same program through the library
// API as value-form nodes, pointer-form nodes, or a mix.

import (
	"fmt"
	"sort"
	"strconv"
	"strings"

	"github.com/glyphlang/glyph/pkg/ast"
)

// c3E is an expression.  K: int float str bool null var bin call arr.
type c3E struct {
	K string `json:"k"`
	V string `json:"v,omitempty"` // literal spelling / variable name / operator / callee
	A []*c3E `json:"a,omitempty"`
}

// c3S is a statement.  K: decl ($T = E) set (T = E) ret (> E, or > E :: St) expr (E)
// if (E ? B : C) while (E, B) for (T in E, B) switch (E; case CV: B; default: C).
type c3S struct {
	K  string `json:"k"`
	T  string `json:"t,omitempty"`
	E  *c3E   `json:"e,omitempty"`
	CV *c3E   `json:"cv,omitempty"`
	B  []*c3S `json:"b,omitempty"`
	C  []*c3S `json:"c,omitempty"`
	St int    `json:"st,omitempty"` // ret: HTTP status of `> value :: 201` (0 = none)
}

type c3Prog []*c3S

// ---- constructors ---------------------------------------------------------

func c3Int(n int) *c3E      { return &c3E{K: "int", V: strconv.Itoa(n)} }
func c3Float(s string) *c3E { return &c3E{K: "float", V: s} }
func c3Str(s string) *c3E   { return &c3E{K: "str", V: s} }
func c3Bool(b bool) *c3E    { return &c3E{K: "bool", V: strconv.FormatBool(b)} }
func c3Null() *c3E          { return &c3E{K: "null"} }
func c3Var(n string) *c3E   { return &c3E{K: "var", V: n} }
func c3Arr(el ...*c3E) *c3E { return &c3E{K: "arr", A: el} }
func c3Bin(op string, l, r *c3E) *c3E {
	return &c3E{K: "bin", V: op, A: []*c3E{l, r}}
}
func c3Call(name string, args ...*c3E) *c3E { return &c3E{K: "call", V: name, A: args} }

func c3Decl(t string, e *c3E) *c3S    { return &c3S{K: "decl", T: t, E: e} }
func c3Set(t string, e *c3E) *c3S     { return &c3S{K: "set", T: t, E: e} }
func c3Ret(e *c3E) *c3S               { return &c3S{K: "ret", E: e} }
func c3RetStatus(e *c3E, st int) *c3S { return &c3S{K: "ret", E: e, St: st} }
func c3Do(e *c3E) *c3S                { return &c3S{K: "expr", E: e} }
func c3Send(e *c3E) *c3S              { return c3Do(c3Call("ws.send", e)) }
func c3If(c *c3E, th []*c3S, el []*c3S) *c3S {
	return &c3S{K: "if", E: c, B: th, C: el}
}
func c3While(c *c3E, body ...*c3S) *c3S { return &c3S{K: "while", E: c, B: body} }
func c3For(v string, it *c3E, body ...*c3S) *c3S {
	return &c3S{K: "for", T: v, E: it, B: body}
}
func c3Switch(val, cv *c3E, body []*c3S, def []*c3S) *c3S {
	return &c3S{K: "switch", E: val, CV: cv, B: body, C: def}
}
func c3L(s ...*c3S) []*c3S { return s }

// ---- printing ---------------------------------------------------------------

func (e *c3E) String() string {
	if e == nil {
		return "<nil>"
	}
	switch e.K {
	case "int", "float", "bool":
		return e.V
	case "str":
		return strconv.Quote(e.V)
	case "null":
		return "null"
	case "var":
		return e.V
	case "bin":
		return "(" + e.A[0].String() + " " + e.V + " " + e.A[1].String() + ")"
	case "call":
		parts := make([]string, len(e.A))
		for i, a := range e.A {
			parts[i] = a.String()
		}
		return e.V + "(" + strings.Join(parts, ", ") + ")"
	case "arr":
		parts := make([]string, len(e.A))
		for i, a := range e.A {
			parts[i] = a.String()
		}
		return "[" + strings.Join(parts, ", ") + "]"
	}
	return "?" + e.K
}

func c3Block(b []*c3S) string {
	parts := make([]string, len(b))
	for i, s := range b {
		parts[i] = s.String()
	}
	return "{" + strings.Join(parts, "; ") + "}"
}

func (s *c3S) String() string {
	switch s.K {
	case "decl":
		return "$" + s.T + " = " + s.E.String()
	case "set":
		return s.T + " = " + s.E.String()
	case "ret":
		if s.St != 0 {
			return "> " + s.E.String() + " :: " + strconv.Itoa(s.St)
		}
		return "> " + s.E.String()
	case "expr":
		return s.E.String()
	case "if":
		r := "if " + s.E.String() + " " + c3Block(s.B)
		if len(s.C) > 0 {
			r += " else " + c3Block(s.C)
		}
		return r
	case "while":
		return "while " + s.E.String() + " " + c3Block(s.B)
	case "for":
		return "for " + s.T + " in " + s.E.String() + " " + c3Block(s.B)
	case "switch":
		r := "switch " + s.E.String() + " {case " + s.CV.String() + " " + c3Block(s.B)
		if len(s.C) > 0 {
			r += " default " + c3Block(s.C)
		}
		return r + "}"
	}
	return "?" + s.K
}

func (p c3Prog) String() string {
	parts := make([]string, len(p))
	for i, s := range p {
		parts[i] = s.String()
	}
	return strings.Join(parts, "; ")
}

// ---- traversal helpers ----------------------------------------------------------

func (e *c3E) walk(f func(*c3E)) {
	if e == nil {
		return
	}
	f(e)
	for _, a := range e.A {
		a.walk(f)
	}
}

func c3WalkStmts(b []*c3S, fs func(*c3S), fe func(*c3E)) {
	for _, s := range b {
		if fs != nil {
			fs(s)
		}
		if fe != nil {
			s.E.walk(fe)
			s.CV.walk(fe)
		}
		c3WalkStmts(s.B, fs, fe)
		c3WalkStmts(s.C, fs, fe)
	}
}

// c3FreeNames are the names bound from outside (route injections).
var c3FreeNames = []string{"p", "q"}

func c3IsFree(n string) bool { return n == "p" || n == "q" }

// freeVars returns the free variables that occur syntactically (sorted).
func (p c3Prog) freeVars() []string {
	seen := map[string]bool{}
	c3WalkStmts(p, func(s *c3S) {
		if c3IsFree(s.T) {
			seen[s.T] = true
		}
	}, func(e *c3E) {
		if e.K == "var" && c3IsFree(e.V) {
			seen[e.V] = true
		}
	})
	var out []string
	for _, n := range c3FreeNames {
		if seen[n] {
			out = append(out, n)
		}
	}
	return out
}

func (p c3Prog) hasNested() bool {
	for _, s := range p {
		if len(s.B) > 0 || len(s.C) > 0 {
			return true
		}
	}
	return false
}

func (e *c3E) clone() *c3E {
	if e == nil {
		return nil
	}
	c := &c3E{K: e.K, V: e.V}
	for _, a := range e.A {
		c.A = append(c.A, a.clone())
	}
	return c
}

func (s *c3S) clone() *c3S {
	c := &c3S{K: s.K, T: s.T, E: s.E.clone(), CV: s.CV.clone(), St: s.St}
	c.B = c3CloneList(s.B)
	c.C = c3CloneList(s.C)
	return c
}

func c3CloneList(b []*c3S) []*c3S {
	if b == nil {
		return nil
	}
	out := make([]*c3S, len(b))
	for i, s := range b {
		out[i] = s.clone()
	}
	return out
}

// weight is the measure the shrinker strictly decreases.
func (e *c3E) weight() int {
	if e == nil {
		return 0
	}
	switch e.K {
	case "int":
		if c3Boring(e) {
			return 1
		}
		return 2
	case "var":
		if c3IsFree(e.V) {
			return 3
		}
		if e.V == "x" {
			return 4
		}
		return 5
	case "float", "str", "bool", "null":
		return 2
	}
	w := 3
	for _, a := range e.A {
		w += a.weight()
	}
	return w
}

func c3ListWeight(b []*c3S) int {
	w := 0
	for _, s := range b {
		w += 3 + s.E.weight() + s.CV.weight() + c3ListWeight(s.B) + c3ListWeight(s.C)
		if s.K == "decl" || s.K == "set" || s.K == "for" {
			if c3IsFree(s.T) {
				w += 1
			} else {
				w += 2
			}
		}
		if s.K == "set" {
			w += 4 // so that `t = e` may shrink to `> t`
		}
		if s.St != 0 {
			w += 1 // so that `> e :: 201` may shrink to `> e`
		}
		if len(s.C) > 0 {
			w += 1 // so that `if c {} else {S}` may shrink to `if true {S}`
		}
		if s.K == "if" || s.K == "while" || s.K == "for" || s.K == "switch" {
			w += 2
		}
	}
	return w
}

// boring literals: integers >= 7 carry no meaning for any rewrite rule.
func c3Boring(e *c3E) bool {
	if e.K != "int" {
		return false
	}
	n, _ := strconv.Atoi(e.V)
	return n >= 7
}

// ---- encodings ------------------------------------------------------------------

// One mode per top-level statement:
//
//	V  statements and expressions value-form (what the parser produces)
//	P  statements and expressions pointer-form (what JIT/LSP/tests build)
//	S  statements pointer-form, expressions value-form
//	X  statements value-form, expressions pointer-form
//	N  the top-level statement and all expressions pointer-form, nested statements value-form
type c3Enc struct {
	Name  string `json:"name"`
	Modes string `json:"modes"`
}

func c3Uniform(name string, m byte, n int) c3Enc {
	return c3Enc{Name: name, Modes: strings.Repeat(string(m), n)}
}

// c3Encodings lists the encodings enumerated for a program of n top-level
// statements (nested says whether any statement has a nested block).
func c3Encodings(n int, nested bool) []c3Enc {
	out := []c3Enc{
		c3Uniform("val", 'V', n),
		c3Uniform("ptr", 'P', n),
		c3Uniform("ptr-stmt/val-expr", 'S', n),
		c3Uniform("val-stmt/ptr-expr", 'X', n),
	}
	if nested {
		out = append(out, c3Uniform("ptr-top/val-nested", 'N', n))
	}
	if n >= 2 {
		for i := 0; i < n; i++ {
			b := []byte(strings.Repeat("V", n))
			b[i] = 'P'
			out = append(out, c3Enc{Name: fmt.Sprintf("only-%d-ptr", i), Modes: string(b)})
		}
		if n >= 3 {
			for i := 0; i < n; i++ {
				b := []byte(strings.Repeat("P", n))
				b[i] = 'V'
				out = append(out, c3Enc{Name: fmt.Sprintf("only-%d-val", i), Modes: string(b)})
			}
		}
	}
	return out
}

// c3FlowEncodings: the encodings of the statement-list family (value-form
// statements holding pointer-form expressions are left alone by the optimizer,
// whatever the expressions: that split is enumerated in the expression and
// history families only).
func c3FlowEncodings(n int, nested bool) []c3Enc {
	var out []c3Enc
	for _, e := range c3Encodings(n, nested) {
		if e.Name == "val-stmt/ptr-expr" {
			continue
		}
		out = append(out, e)
	}
	return out
}

// c3EncName gives a canonical name to a mode string (after shrinking).
func c3EncName(modes string) string {
	n := len(modes)
	if n == 0 {
		return "val"
	}
	cnt := map[byte]int{}
	for i := 0; i < n; i++ {
		cnt[modes[i]]++
	}
	if len(cnt) == 1 {
		switch modes[0] {
		case 'V':
			return "val"
		case 'P':
			return "ptr"
		case 'S':
			return "ptr-stmt/val-expr"
		case 'X':
			return "val-stmt/ptr-expr"
		case 'N':
			return "ptr-top/val-nested"
		}
	}
	return "mixed:" + modes
}

var c3Ops = map[string]ast.BinOp{
	"+": ast.Add, "-": ast.Sub, "*": ast.Mul, "/": ast.Div, "%": ast.Mod,
	"==": ast.Eq, "!=": ast.Ne, "<": ast.Lt, "<=": ast.Le, ">": ast.Gt, ">=": ast.Ge,
	"&&": ast.And, "||": ast.Or,
}

func (e *c3E) build(ptr bool) ast.Expr {
	wrapLit := func(l ast.Literal) ast.Expr {
		if ptr {
			return &ast.LiteralExpr{Value: l}
		}
		return ast.LiteralExpr{Value: l}
	}
	switch e.K {
	case "int":
		n, _ := strconv.ParseInt(e.V, 10, 64)
		return wrapLit(ast.IntLiteral{Value: n})
	case "float":
		f, _ := strconv.ParseFloat(e.V, 64)
		return wrapLit(ast.FloatLiteral{Value: f})
	case "str":
		return wrapLit(ast.StringLiteral{Value: e.V})
	case "bool":
		return wrapLit(ast.BoolLiteral{Value: e.V == "true"})
	case "null":
		return wrapLit(ast.NullLiteral{})
	case "var":
		if ptr {
			return &ast.VariableExpr{Name: e.V}
		}
		return ast.VariableExpr{Name: e.V}
	case "bin":
		op, ok := c3Ops[e.V]
		if !ok {
			panic("c03: unknown operator " + e.V)
		}
		l, r := e.A[0].build(ptr), e.A[1].build(ptr)
		if ptr {
			return &ast.BinaryOpExpr{Op: op, Left: l, Right: r}
		}
		return ast.BinaryOpExpr{Op: op, Left: l, Right: r}
	case "call":
		args := make([]ast.Expr, len(e.A))
		for i, a := range e.A {
			args[i] = a.build(ptr)
		}
		if ptr {
			return &ast.FunctionCallExpr{Name: e.V, Args: args}
		}
		return ast.FunctionCallExpr{Name: e.V, Args: args}
	case "arr":
		el := make([]ast.Expr, len(e.A))
		for i, a := range e.A {
			el[i] = a.build(ptr)
		}
		if ptr {
			return &ast.ArrayExpr{Elements: el}
		}
		return ast.ArrayExpr{Elements: el}
	}
	panic("c03: unknown expression kind " + e.K)
}

func c3BuildList(b []*c3S, stmtPtr, nestedPtr, exprPtr bool) []ast.Statement {
	if b == nil {
		return nil
	}
	out := make([]ast.Statement, len(b))
	for i, s := range b {
		out[i] = s.build(stmtPtr, nestedPtr, exprPtr)
	}
	return out
}

func (s *c3S) build(stmtPtr, nestedPtr, exprPtr bool) ast.Statement {
	sub := func(b []*c3S) []ast.Statement { return c3BuildList(b, nestedPtr, nestedPtr, exprPtr) }
	switch s.K {
	case "decl":
		v := ast.AssignStatement{Target: s.T, Value: s.E.build(exprPtr)}
		if stmtPtr {
			return &v
		}
		return v
	case "set":
		v := ast.ReassignStatement{Target: s.T, Value: s.E.build(exprPtr)}
		if stmtPtr {
			return &v
		}
		return v
	case "ret":
		v := ast.ReturnStatement{Value: s.E.build(exprPtr), Status: s.St}
		if stmtPtr {
			return &v
		}
		return v
	case "expr":
		v := ast.ExpressionStatement{Expr: s.E.build(exprPtr)}
		if stmtPtr {
			return &v
		}
		return v
	case "if":
		v := ast.IfStatement{Condition: s.E.build(exprPtr), ThenBlock: sub(s.B), ElseBlock: sub(s.C)}
		if stmtPtr {
			return &v
		}
		return v
	case "while":
		v := ast.WhileStatement{Condition: s.E.build(exprPtr), Body: sub(s.B)}
		if stmtPtr {
			return &v
		}
		return v
	case "for":
		v := ast.ForStatement{ValueVar: s.T, Iterable: s.E.build(exprPtr), Body: sub(s.B)}
		if stmtPtr {
			return &v
		}
		return v
	case "switch":
		v := ast.SwitchStatement{Value: s.E.build(exprPtr),
			Cases:   []ast.SwitchCase{{Value: s.CV.build(exprPtr), Body: sub(s.B)}},
			Default: sub(s.C)}
		if stmtPtr {
			return &v
		}
		return v
	}
	panic("c03: unknown statement kind " + s.K)
}

// buildAST encodes the program; modes has one byte per top-level statement.
func (p c3Prog) buildAST(modes string) []ast.Statement {
	out := make([]ast.Statement, len(p))
	for i, s := range p {
		m := byte('V')
		if i < len(modes) {
			m = modes[i]
		}
		switch m {
		case 'V':
			out[i] = s.build(false, false, false)
		case 'P':
			out[i] = s.build(true, true, true)
		case 'S':
			out[i] = s.build(true, true, false)
		case 'X':
			out[i] = s.build(false, false, true)
		case 'N':
			out[i] = s.build(true, false, true)
		default:
			panic("c03: unknown mode")
		}
	}
	return out
}

// ---- canonical form for finding keys ------------------------------------------------

// canonical renders the program with locals renamed by first occurrence (a, b, …),
// free variables kept, integers written `i`, the operands of commutative
// operators ordered, and if/while conditions without a local variable written
// `c` (the literals true/false are kept: they trigger branch elimination).
func (p c3Prog) canonical() string { return strings.Join(p.canonicalParts(), "; ") }

func (p c3Prog) canonicalParts() []string {
	ren := map[string]string{}
	name := func(n string) string {
		if c3IsFree(n) {
			return n
		}
		if r, ok := ren[n]; ok {
			return r
		}
		r := string(rune('a' + len(ren)))
		ren[n] = r
		return r
	}
	var ce func(e *c3E) string
	ce = func(e *c3E) string {
		switch e.K {
		case "int":
			return "i"
		case "var":
			return name(e.V)
		case "bin":
			l, r := ce(e.A[0]), ce(e.A[1])
			switch e.V {
			case "+", "*", "&&", "||", "==", "!=":
				if r < l {
					l, r = r, l
				}
			}
			return "(" + l + " " + e.V + " " + r + ")"
		case "call":
			parts := make([]string, len(e.A))
			for i, a := range e.A {
				parts[i] = ce(a)
			}
			return e.V + "(" + strings.Join(parts, ", ") + ")"
		case "arr":
			parts := make([]string, len(e.A))
			for i, a := range e.A {
				parts[i] = ce(a)
			}
			return "[" + strings.Join(parts, ", ") + "]"
		}
		return e.String()
	}
	cond := func(e *c3E) string {
		hasLocal := false
		e.walk(func(x *c3E) {
			if x.K == "var" && !c3IsFree(x.V) {
				hasLocal = true
			}
		})
		if hasLocal || e.K == "bool" {
			return ce(e)
		}
		return "c"
	}
	var cl func(b []*c3S) string
	cs := func(s *c3S) string {
		switch s.K {
		case "decl":
			v := ce(s.E)
			return "$" + name(s.T) + " = " + v
		case "set":
			v := ce(s.E)
			return name(s.T) + " = " + v
		case "ret":
			if s.St != 0 {
				return "> " + ce(s.E) + " @status" // (no " :: " inside a key: it ends the key in known_findings.txt)
			}
			return "> " + ce(s.E)
		case "expr":
			return ce(s.E)
		case "if":
			r := "if " + cond(s.E) + " " + cl(s.B)
			if len(s.C) > 0 {
				r += " else " + cl(s.C)
			}
			return r
		case "while":
			return "while " + cond(s.E) + " " + cl(s.B)
		case "for":
			it := ce(s.E)
			return "for " + name(s.T) + " in " + it + " " + cl(s.B)
		case "switch":
			r := "switch " + ce(s.E) + " {case " + ce(s.CV) + " " + cl(s.B)
			if len(s.C) > 0 {
				r += " default " + cl(s.C)
			}
			return r + "}"
		}
		return s.String()
	}
	cl = func(b []*c3S) string {
		parts := make([]string, len(b))
		for i, s := range b {
			parts[i] = cs(s)
		}
		return "{" + strings.Join(parts, "; ") + "}"
	}
	parts := make([]string, len(p))
	for i, s := range p {
		parts[i] = cs(s)
	}
	return parts
}

// canonicalModes is canonical() with every top-level statement prefixed by its
// encoding mode (for findings that need a mix of encodings).
func (p c3Prog) canonicalModes(modes string) string {
	parts := make([]string, len(p))
	ren := c3Prog(p).canonicalParts()
	for i := range p {
		m := "V"
		if i < len(modes) {
			m = string(modes[i])
		}
		parts[i] = "[" + m + "]" + ren[i]
	}
	return strings.Join(parts, "; ")
}

// c3CSETag classifies a program in which one non-trivial expression is assigned
// twice — literally, or with the operands of a binary node in the other order —
// (the shape common-subexpression elimination acts on) by where the two
// assignments sit and what happens between them; "" when there is no such pair.
func c3CSETag(p c3Prog) string {
	type asg struct {
		t, e   string
		norm   string // e with the operands of every binary node ordered
		top    string // the top operator ("" for a non-binary right-hand side)
		vars   map[string]bool
		loop   int // id of the innermost enclosing loop, 0 = none
		atomic bool
		path   []string // the branches of if/switch statements it sits in ("<id>:B" / "<id>:C")
	}
	var list []asg
	loopID, branchID := 0, 0
	exclusive := func(a, b []string) bool {
		for _, x := range a {
			for _, y := range b {
				if x != y && x[:len(x)-1] == y[:len(y)-1] {
					return true // the two branches of one statement: at most one of them runs
				}
			}
		}
		return false
	}
	var walk func(b []*c3S, loop int, path []string)
	walk = func(b []*c3S, loop int, path []string) {
		for _, s := range b {
			if s.K == "decl" || s.K == "set" {
				vs := map[string]bool{}
				s.E.walk(func(x *c3E) {
					if x.K == "var" {
						vs[x.V] = true
					}
				})
				top := ""
				if s.E.K == "bin" {
					top = s.E.V
				}
				list = append(list, asg{t: s.T, e: s.E.String(), norm: c3OrderedOperands(s.E), top: top, vars: vs, loop: loop, atomic: s.E.K != "bin", path: path})
			}
			inner := loop
			if s.K == "while" || s.K == "for" {
				loopID++
				inner = loopID
			}
			pb, pc := path, path
			if s.K == "if" || s.K == "switch" {
				branchID++
				pb = append(append([]string{}, path...), fmt.Sprintf("%d:B", branchID))
				pc = append(append([]string{}, path...), fmt.Sprintf("%d:C", branchID))
			}
			walk(s.B, inner, pb)
			walk(s.C, inner, pc)
		}
	}
	walk(p, 0, nil)
	// two right-hand sides that are one expression up to the order of operands
	for i := 0; i < len(list); i++ {
		for j := i + 1; j < len(list) && !list[i].atomic; j++ {
			if list[j].e != list[i].e && list[j].norm == list[i].norm {
				return "operands-swapped(" + list[i].top + ")"
			}
		}
	}
	for i := 0; i < len(list); i++ {
		if list[i].atomic {
			continue
		}
		// an assignment inside a loop meets itself on the next iteration
		if list[i].loop != 0 && list[i].vars[list[i].t] {
			for k := 0; k < i; k++ {
				if list[k].e == list[i].e {
					return "reused-inside-loop"
				}
			}
		}
		for j := i + 1; j < len(list); j++ {
			if list[j].e != list[i].e {
				continue
			}
			if list[j].loop != 0 && list[j].loop != list[i].loop {
				return "reused-inside-loop"
			}
			if exclusive(list[i].path, list[j].path) {
				return "reused-in-the-other-branch"
			}
			if list[i].vars[list[i].t] {
				return "holder-is-operand"
			}
			for k := i + 1; k < j; k++ {
				if list[k].t == list[i].t {
					return "holder-reassigned"
				}
			}
			for k := i + 1; k < j; k++ {
				if list[i].vars[list[k].t] {
					return "operand-reassigned"
				}
			}
			return "other"
		}
	}
	return ""
}

// c3OrderedOperands renders e with the two operands of every binary node in
// lexical order, whatever the operator: two expressions with the same rendering
// differ at most in the order of operands.
func c3OrderedOperands(e *c3E) string {
	if e == nil {
		return ""
	}
	if e.K != "bin" {
		return e.String()
	}
	l, r := c3OrderedOperands(e.A[0]), c3OrderedOperands(e.A[1])
	if r < l {
		l, r = r, l
	}
	return "(" + l + " " + e.V + " " + r + ")"
}

func c3SortedKeys(m map[string]bool) []string {
	out := make([]string, 0, len(m))
	for k := range m {
		out = append(out, k)
	}
	sort.Strings(out)
	return out
}
