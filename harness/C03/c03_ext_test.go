package compiler

// C03 harness, part 4: three further families.
//
//   - operand order: every ordered pair of declarations whose right-hand sides are
//     binary expressions over two free variables and a string literal, in both
//     operand orders, for every operator (what one assignment establishes about
//     `a op b` must not be believed about `b op a`: `+` concatenates strings and
//     arrays);
//   - branches: every ordered pair (then-block, else-block) of short blocks over
//     an alphabet of fact-establishing and fact-reading statements, under a
//     condition the optimizer cannot decide (what one branch establishes must not
//     be believed in the other);
//   - compilation units: every ordered pair of corpus programs compiled by one
//     Compiler as two bodies of the other kinds of unit that share its Optimizer
//     (two handlers of one WebSocket route, two WebSocket routes, an HTTP route
//     and a WebSocket route in both orders, an HTTP route and then a command, a
//     cron task, an event handler, a queue worker).

import (
	"fmt"
	"sort"
	"strings"

	"github.com/glyphlang/glyph/pkg/ast"
)

// ---- family 4: operand order ------------------------------------------------------------

// c3OperandOrderPool: op(a, b) for every operator and every ordered pair of
// distinct atoms of {p, q, "b"} of which at least one is a variable.
func c3OperandOrderPool() []*c3E {
	atoms := []*c3E{c3Var("p"), c3Var("q"), c3Str("b")}
	var out []*c3E
	for _, op := range c3AllOps {
		for i, a := range atoms {
			for j, b := range atoms {
				if i == j || (a.K != "var" && b.K != "var") {
					continue
				}
				out = append(out, c3Bin(op, a, b))
			}
		}
	}
	return out
}

// c3OperandOrderProgram: `$x = e1; $y = e2; > [x, y]`.
func c3OperandOrderProgram(e1, e2 *c3E) c3Prog {
	return c3Prog{c3Decl("x", e1), c3Decl("y", e2), c3Ret(c3Arr(c3Var("x"), c3Var("y")))}
}

// ---- family 5: branches -----------------------------------------------------------------

// c3BranchAlphabet: the statements of a branch.  They establish a constant, a
// copy or a common subexpression about an outer variable, declare a shadowing
// local, or read a variable.
func c3BranchAlphabet() []*c3S {
	x, y := c3Var("x"), c3Var("y")
	return []*c3S{
		c3Set("x", c3Int(2)),      // constant fact
		c3Set("x", c3Var("p")),    // copy fact
		c3Set("x", c3Plus1("p")),  // expression fact held by an outer variable
		c3Decl("y", c3Plus1("p")), // expression fact held by a local of the branch that shadows y
		c3Set("y", x),             // copy between locals: reads x
		c3Send(x),                 // readers
		c3Send(y),
	}
}

// c3BranchBlocks: every block of 1..2 statements over the branch alphabet.
func c3BranchBlocks() [][]*c3S {
	var out [][]*c3S
	alpha := c3BranchAlphabet()
	for _, a := range alpha {
		out = append(out, c3L(a))
	}
	for _, a := range alpha {
		for _, b := range alpha {
			out = append(out, c3L(a, b))
		}
	}
	return out
}

// c3BranchPrefixes: what is known when the `if` is reached: two constants, or a
// chain of copies that starts at the free variable.
func c3BranchPrefixes() [][]*c3S {
	return [][]*c3S{
		{c3Decl("x", c3Int(1)), c3Decl("y", c3Int(2))},
		{c3Decl("x", c3Var("p")), c3Decl("y", c3Var("x"))},
	}
}

// c3BranchProgram: `prefix; if (p == 1) {then} else {else}; > [x, y]`.
func c3BranchProgram(prefix, th, el []*c3S) c3Prog {
	p := append(c3Prog{}, prefix...)
	p = append(p, c3If(c3Bin("==", c3Var("p"), c3Int(1)), th, el))
	return append(p, c3Ret(c3Arr(c3Var("x"), c3Var("y"))))
}

// c3BranchEncodings: the uniform encodings (the per-statement mixes are the
// business of the flow family).
func c3BranchEncodings(n int) []c3Enc {
	return []c3Enc{c3Uniform("val", 'V', n), c3Uniform("ptr", 'P', n), c3Uniform("ptr-stmt/val-expr", 'S', n), c3Uniform("ptr-top/val-nested", 'N', n)}
}

// ---- family 6: compilation units that share one Optimizer -----------------------------------

// A context compiles one or two bodies with one compiler value through the
// exported API and returns the bytecode of the last body.  prev == nil: the
// last body on its own (for the two-handler contexts: a route that has only
// that handler).
type c3Ctx struct {
	Name  string
	Joint bool // prev and body are compiled by one call: a compile error of prev fails both (such pairs are not judged)
	Run   func(comp *Compiler, prev, body []ast.Statement) ([]byte, error)
}

func c3Injections() []ast.Injection {
	inj := make([]ast.Injection, len(c3FreeNames))
	for i, n := range c3FreeNames {
		inj[i] = ast.Injection{Name: n}
	}
	return inj
}

const c3WsPath = "/t/:p/:q" // the free variables are the path parameters of the WebSocket route

var c3WsEventNames = map[ast.WebSocketEventType]string{
	ast.WSEventConnect: "connect", ast.WSEventMessage: "message", ast.WSEventDisconnect: "disconnect", ast.WSEventError: "error",
}

var c3WsEventTypes = []ast.WebSocketEventType{ast.WSEventConnect, ast.WSEventMessage, ast.WSEventDisconnect, ast.WSEventError}

func c3WsHandler(c *CompiledWebSocketRoute, t ast.WebSocketEventType) []byte {
	switch t {
	case ast.WSEventConnect:
		return c.OnConnect
	case ast.WSEventMessage:
		return c.OnMessage
	case ast.WSEventDisconnect:
		return c.OnDisconnect
	}
	return c.OnError
}

// c3WsOne compiles a WebSocket route whose only handler (of type t) is body.
func c3WsOne(comp *Compiler, t ast.WebSocketEventType, body []ast.Statement) ([]byte, error) {
	c, err := comp.CompileWebSocketRoute(&ast.WebSocketRoute{Path: c3WsPath, Events: []ast.WebSocketEvent{{EventType: t, Body: body}}})
	if err != nil {
		return nil, err
	}
	return c3WsHandler(c, t), nil
}

// c3WsHandlersCtx: prev and body are the handlers t1 and t2 (in this order) of ONE WebSocket route.
func c3WsHandlersCtx(t1, t2 ast.WebSocketEventType) c3Ctx {
	return c3Ctx{Name: "ws-handlers:" + c3WsEventNames[t1] + ">" + c3WsEventNames[t2], Joint: true,
		Run: func(comp *Compiler, prev, body []ast.Statement) ([]byte, error) {
			if prev == nil {
				return c3WsOne(comp, t2, body)
			}
			c, err := comp.CompileWebSocketRoute(&ast.WebSocketRoute{Path: c3WsPath, Events: []ast.WebSocketEvent{
				{EventType: t1, Body: prev}, {EventType: t2, Body: body}}})
			if err != nil {
				return nil, err
			}
			return c3WsHandler(c, t2), nil
		}}
}

// c3UnitCompilers: one body as each kind of compilation unit.
var c3UnitCompilers = map[string]func(comp *Compiler, body []ast.Statement) ([]byte, error){
	"route": func(comp *Compiler, body []ast.Statement) ([]byte, error) { return comp.CompileRoute(c3Route(body)) },
	"ws": func(comp *Compiler, body []ast.Statement) ([]byte, error) {
		return c3WsOne(comp, ast.WSEventConnect, body)
	},
	"command": func(comp *Compiler, body []ast.Statement) ([]byte, error) {
		params := make([]ast.CommandParam, len(c3FreeNames))
		for i, n := range c3FreeNames {
			params[i] = ast.CommandParam{Name: n}
		}
		return comp.CompileCommand(&ast.Command{Name: "t", Params: params, Body: body})
	},
	"cron": func(comp *Compiler, body []ast.Statement) ([]byte, error) {
		return comp.CompileCronTask(&ast.CronTask{Name: "t", Schedule: "* * * * *", Injections: c3Injections(), Body: body})
	},
	"event": func(comp *Compiler, body []ast.Statement) ([]byte, error) {
		return comp.CompileEventHandler(&ast.EventHandler{EventType: "t", Injections: c3Injections(), Body: body})
	},
	"queue": func(comp *Compiler, body []ast.Statement) ([]byte, error) {
		return comp.CompileQueueWorker(&ast.QueueWorker{QueueName: "t", Injections: c3Injections(), Body: body})
	},
}

// c3SeqCtx: prev compiled as a unit of kind k1, then body as a unit of kind k2.
func c3SeqCtx(k1, k2 string) c3Ctx {
	return c3Ctx{Name: k1 + ">" + k2, Run: func(comp *Compiler, prev, body []ast.Statement) ([]byte, error) {
		if prev != nil {
			c3UnitCompilers[k1](comp, prev) // its outcome does not matter: only what it leaves in the compiler
		}
		return c3UnitCompilers[k2](comp, body)
	}}
}

// c3FullCorpusContexts are driven over every ordered pair of the history corpus.
func c3FullCorpusContexts() []c3Ctx {
	return []c3Ctx{
		c3WsHandlersCtx(ast.WSEventConnect, ast.WSEventMessage),
		c3SeqCtx("ws", "ws"), c3SeqCtx("route", "ws"), c3SeqCtx("ws", "route"),
		c3SeqCtx("route", "command"), c3SeqCtx("route", "cron"), c3SeqCtx("route", "event"), c3SeqCtx("route", "queue"),
	}
}

// c3SmallCorpusContexts are driven over every ordered pair of the
// single-statement programs of the corpus: the other eleven ordered pairs of
// handler types of one WebSocket route.
func c3SmallCorpusContexts() []c3Ctx {
	var out []c3Ctx
	for _, t1 := range c3WsEventTypes {
		for _, t2 := range c3WsEventTypes {
			if t1 == t2 || (t1 == ast.WSEventConnect && t2 == ast.WSEventMessage) {
				continue
			}
			out = append(out, c3WsHandlersCtx(t1, t2))
		}
	}
	return out
}

func c3CtxByName(name string) (c3Ctx, bool) {
	for _, c := range append(c3FullCorpusContexts(), c3SmallCorpusContexts()...) {
		if c.Name == name {
			return c, true
		}
	}
	return c3Ctx{}, false
}

func c3CtxCompile(ctx c3Ctx, level OptimizationLevel, prev c3Prog, prevModes string, p c3Prog, modes string) (out c3Compiled) {
	defer func() {
		if r := recover(); r != nil {
			out = c3Compiled{Panic: fmt.Sprint(r)}
		}
	}()
	var prevAST []ast.Statement
	if prev != nil {
		prevAST = prev.buildAST(prevModes)
		if prevAST == nil {
			prevAST = []ast.Statement{}
		}
	}
	bc, err := ctx.Run(NewCompilerWithOptLevel(level), prevAST, p.buildAST(modes))
	if err != nil {
		return c3Compiled{Err: err.Error()}
	}
	return c3Compiled{BC: bc}
}

type c3CtxAlone struct {
	fresh   c3Compiled
	judged  bool
	failing bool
}

// ctxHistKinds: failure kinds of p compiled after prev in the context, judged
// against the unoptimised compilation of p on its own in the same context,
// provided p on its own is clean at this level and the history changes the
// bytecode.
func (ck *c3Checker) ctxHistKinds(ctx c3Ctx, prev c3Prog, prevModes string, p c3Prog, modes string, level OptimizationLevel) (kinds []string, v c3Verdict, influenced bool) {
	ak := ctx.Name + "|" + p.String() + "|" + modes + "|" + c3LevelName(level)
	alone, ok := ck.ctxAlone[ak]
	if !ok {
		alone = &c3CtxAlone{fresh: c3CtxCompile(ctx, level, nil, "", p, modes)}
		ck.ctxAlone[ak] = alone
	}
	if ctx.Joint {
		// the first handler must compile on its own at this level: its compile
		// error is the route's, whatever the second handler is
		pk := ctx.Name + "|prev|" + prev.String() + "|" + prevModes + "|" + c3LevelName(level)
		pa, ok := ck.ctxAlone[pk]
		if !ok {
			pa = &c3CtxAlone{fresh: c3CtxCompile(ctx, level, nil, "", prev, prevModes)}
			ck.ctxAlone[pk] = pa
		}
		if !pa.fresh.ok() {
			return nil, v, false
		}
	}
	after := c3CtxCompile(ctx, level, prev, prevModes, p, modes)
	if c3SameCompiled(after, alone.fresh) {
		return nil, v, false
	}
	ref := c3CtxCompile(ctx, OptNone, nil, "", p, c3AllV(len(p)))
	if !alone.judged {
		alone.judged = true
		alone.failing = len(c3Judge(ref, alone.fresh, p.freeVars(), nil, ck.vm).Kinds) > 0
	}
	if alone.failing {
		return nil, v, true // p on its own already differs at this level: a matter of the single-program families
	}
	v = c3Judge(ref, after, c3UnionVars(prev, p), nil, ck.vm)
	return c3SortedKeys(c3KindSet(v)), v, true
}

func (ck *c3Checker) ctxHistFails(ctx c3Ctx, prev c3Prog, prevModes string, p c3Prog, modes string, level OptimizationLevel, kind string) bool {
	ks, _, _ := ck.ctxHistKinds(ctx, prev, prevModes, p, modes, level)
	for _, k := range ks {
		if k == kind {
			return true
		}
	}
	return false
}

// c3FactsLeft names the fact maps a fresh optimizer holds after the body.
func c3FactsLeft(prev c3Prog, prevModes string, level OptimizationLevel) (name string) {
	defer func() {
		if recover() != nil {
			name = "facts"
		}
	}()
	o := NewOptimizer(level)
	o.OptimizeStatements(prev.buildAST(prevModes))
	var left []string
	if len(o.constants) > 0 {
		left = append(left, "constants")
	}
	if len(o.copies) > 0 {
		left = append(left, "copies")
	}
	if len(o.expressions) > 0 {
		left = append(left, "expressions")
	}
	if len(left) == 0 {
		return "facts"
	}
	sort.Strings(left)
	return strings.Join(left, "+")
}

func (ck *c3Checker) reportCtxHistory(ctx c3Ctx, prev c3Prog, prevModes string, p c3Prog, modes string, level OptimizationLevel, kind string) {
	ck.nFailing++
	pre := ctx.Name + "|" + kind + "|" + c3LevelName(level) + "|" + prevModes + "|" + prev.String() + "|" + modes + "|" + p.String()
	if ck.ctxDone[pre] {
		return
	}
	ck.ctxDone[pre] = true
	if primary := c3FullCorpusContexts()[0]; ctx.Name != primary.Name && strings.HasPrefix(ctx.Name, "ws-handlers:") &&
		ck.ctxHistFails(primary, prev, prevModes, p, modes, level, kind) {
		// not particular to this pair of handler types: one finding, under the first pair
		ck.reportCtxHistory(primary, prev, prevModes, p, modes, level, kind)
		return
	}
	for changed := true; changed; {
		changed = false
		boring := c3FreshBoring(prev, p)
		w := c3ListWeight(prev)
		for _, lv := range c3ListVariants(prev, boring) {
			np := c3Prog(lv.list)
			if len(np) == 0 || c3ListWeight(np) >= w {
				continue
			}
			nm := c3ProjectModes(prevModes, lv.from)
			if ck.ctxHistFails(ctx, np, nm, p, modes, level, kind) {
				prev, prevModes, changed = np, nm, true
				break
			}
		}
		if changed {
			continue
		}
		w = c3ListWeight(p)
		for _, lv := range c3ListVariants(p, boring) {
			np := c3Prog(lv.list)
			if len(np) == 0 || c3ListWeight(np) >= w {
				continue
			}
			nm := c3ProjectModes(modes, lv.from)
			if ck.ctxHistFails(ctx, prev, prevModes, np, nm, level, kind) {
				p, modes, changed = np, nm, true
				break
			}
		}
	}
	lvl := level
	for _, l := range ck.levels {
		if l != OptNone && l < lvl && ck.ctxHistFails(ctx, prev, prevModes, p, modes, l, kind) {
			lvl = l
			break
		}
	}
	stale := c3FactsLeft(prev, prevModes, lvl)
	key := fmt.Sprintf("history/%s/stale-%s|%s", ctx.Name, stale, c3LevelName(lvl))
	shrunk := ctx.Name + "|" + kind + "|" + c3LevelName(lvl) + "|" + prevModes + "|" + prev.String() + "|" + modes + "|" + p.String()
	if ck.ctxDone["key:"+key+"|"+shrunk] {
		return
	}
	ck.ctxDone["key:"+key+"|"+shrunk] = true
	_, v, _ := ck.ctxHistKinds(ctx, prev, prevModes, p, modes, lvl)
	desc := fmt.Sprintf("one Compiler value (%s) compiled «%s» and then, in the same sequence of units (%s), «%s» (both %s): the bytecode of the second body differs from its unoptimised compilation although a fresh compiler compiles it correctly — %s: %s (the first body leaves Optimizer.%s)",
		c3LevelName(lvl), prev.String(), ctx.Name, p.String(), c3EncName(modes), kind, v.Kinds[kind].Desc, stale)
	ck.res.Violate(key, desc, c3Replay{Part: "history-ctx", Ctx: ctx.Name, Prog: p, Modes: modes, Prev: prev, PrevModes: prevModes, Level: int(lvl), Kind: kind, Key: key,
		Text: prev.String() + "  =[" + ctx.Name + "]=>  " + p.String()})
}
