package database

// Verification harness for C13 (generated SQL is injection-free).
// Injected in-package into pkg/database, so that the PostgresDB / MySQLDB /
// SQLiteDB wrappers can be built around one in-memory SQLite reached through a
// recording database/sql driver (c13_db_test.go).
//
// Deciding step: exhaustive enumeration of
//   every query-building entry point (table c13Entries; completeness against the
//   exported declarations of the anchor files is measured with go/parser at run
//   time) × every driver wrapper × every slot (table, column, operator,
//   direction, join type, column type, value) × every string of the slot's
//   finite adversarial space (all atom sequences up to a length bound), the
//   other slots benign; plus all pairs of slots × short strings; plus every
//   adversarial value.
// Oracle (independent of the code under test):
//   R0  a statement reaches the driver only if every identifier argument is in
//       the grammar [A-Za-z_][A-Za-z0-9_]* (hand-written matcher);
//   S   structural: the statement is tokenized by c13_tok_test.go; its shape
//       (key words, operators, punctuation; identifier/literal contents dropped)
//       must be one of the shapes the same entry point emits for benign
//       identifiers and a closed universe of comparison operators / directions /
//       join types; quoted identifiers must be grammar-conforming and be one of
//       the caller's arguments; CREATE TABLE must have exactly one definition per
//       schema entry, each starting with the named column, balanced parentheses;
//       the SQL text must be byte-identical for every value vector and values
//       must arrive as bound arguments;
//   X   execution: every accepted statement is executed on SQLite; afterwards the
//       sentinel table, every sqlite_master row of tables not named, the column
//       lists, and the rows the call did not name are unchanged, and no result
//       contains the sentinel's marker.

import (
	"context"
	"fmt"
	"go/ast"
	"go/parser"
	"go/token"
	"io"
	"log"
	"path/filepath"
	"reflect"
	"sort"
	"strconv"
	"strings"
	"testing"

	"github.com/glyphlang/glyph/internal/verif/vk"
	"github.com/glyphlang/glyph/pkg/security"
)

const c13Omit = "\x01<omit>"

type c13Slot struct {
	Name     string
	Kind     string   // table | column | op | dir | join | type | strval
	Of       string   // column: the table slot it belongs to
	Benign   string   // the benign value used while other slots are swept
	Universe []string // further safe values that define acceptable shapes (may contain c13Omit)
	Loose    bool     // the identifier is judged on the emitted SQL only (OrderBy splits its argument on white space)
}

type c13Entry struct {
	Name    string
	Covers  []string // exported declarations exercised (Recv.Name)
	Slots   []c13Slot
	Effect  string // read | insert | update | delete | create | drop | fixed
	Values  bool   // has a caller-supplied value position
	DrvOnly bool   // a method of the concrete driver wrappers
	Run     func(w *c13World, drv string, s map[string]string, v any) (any, error)
}

var c13Ctx = context.Background()

// closed universes of safe spellings (independent of the allow-lists in the code)
var (
	c13OpUniverse = []string{"=", "==", "!=", "<>", "<", ">", "<=", ">=", "LIKE", "NOT LIKE", "ILIKE", "NOT ILIKE", "IN", "NOT IN",
		"IS", "IS NOT", "GLOB", "NOT GLOB", "REGEXP", "NOT REGEXP", "MATCH", "SIMILAR TO", "NOT SIMILAR TO", "IS DISTINCT FROM", "IS NOT DISTINCT FROM",
		"~", "~*", "!~", "!~*"}
	c13DirUniverse  = []string{"ASC", "DESC", ""}
	c13JoinUniverse = []string{"INNER", "LEFT", "RIGHT", "FULL", "CROSS", "LEFT OUTER", "RIGHT OUTER", "FULL OUTER"}
)

func tbl(name, benign string) c13Slot { return c13Slot{Name: name, Kind: "table", Benign: benign} }
func col(name, of, benign string) c13Slot {
	return c13Slot{Name: name, Kind: "column", Of: of, Benign: benign}
}

func c13Entries() []c13Entry {
	orm := func(w *c13World, drv string, s map[string]string) *ORM { return NewORM(w.dbs[drv], s["table"]) }
	th := func(w *c13World, drv string, s map[string]string) *TableHandler {
		return NewHandler(w.dbs[drv]).Table(s["table"])
	}
	T := tbl("table", "t")
	// second key of a two-entry map: equal keys collapse to one entry, which is the shape of the omitted slot
	col2 := c13Slot{Name: "col2", Kind: "column", Of: "table", Benign: "c2", Universe: []string{c13Omit}}
	es := []c13Entry{
		{Name: "qb.full", Effect: "read", Values: true,
			Covers: []string{"NewORM", "ORM.NewQueryBuilder", "QueryBuilder.Select", "QueryBuilder.Where", "QueryBuilder.OrderBy", "QueryBuilder.Limit",
				"QueryBuilder.Offset", "QueryBuilder.Join", "QueryBuilder.Build", "QueryBuilder.Get", "ORM.Query"},
			Slots: []c13Slot{T,
				{Name: "select", Kind: "column", Of: "table", Benign: "s1", Universe: []string{"*", c13Omit}},
				{Name: "select2", Kind: "column", Of: "table", Benign: "s2", Universe: []string{"*"}},
				{Name: "jointype", Kind: "join", Benign: "INNER", Universe: c13JoinUniverse},
				{Name: "jointable", Kind: "table", Benign: "j", Universe: []string{c13Omit}},
				col("joinon", "table", "k1"), col("joinwith", "jointable", "k2"),
				col("col", "table", "c1"), {Name: "op", Kind: "op", Benign: "=", Universe: c13OpUniverse}, col("col2", "table", "c2"),
				{Name: "order", Kind: "column", Of: "table", Benign: "o1", Universe: []string{c13Omit}, Loose: true},
				{Name: "dir", Kind: "dir", Benign: "ASC", Universe: c13DirUniverse}},
			Run: func(w *c13World, drv string, s map[string]string, v any) (any, error) {
				qb := orm(w, drv, s).NewQueryBuilder()
				if s["select"] != c13Omit {
					qb.Select(s["select"], s["select2"])
				}
				if s["jointable"] != c13Omit {
					qb.Join(s["jointype"], s["jointable"], s["joinon"], s["joinwith"])
				}
				qb.Where(s["col"], s["op"], v).Where(s["col2"], "=", v)
				if s["order"] != c13Omit {
					qb.OrderBy(s["order"], s["dir"])
				}
				qb.Limit(5).Offset(1)
				q1, a1, err1 := qb.Build()
				rows, err := qb.Get(c13Ctx)
				// Build must be what Get sends
				if err1 == nil && len(c13TheRec.stmts) > 0 {
					last := c13TheRec.stmts[len(c13TheRec.stmts)-1]
					if last.SQL != q1 || len(last.Args) != len(a1) {
						return rows, fmt.Errorf("c13-build-mismatch: Build returned %q but Get sent %q", q1, last.SQL)
					}
				}
				return rows, err
			}},
		{Name: "qb.short", Effect: "read", Values: true,
			Covers: []string{"QueryBuilder.WhereEq", "QueryBuilder.InnerJoin", "QueryBuilder.LeftJoin", "QueryBuilder.First"},
			Slots: []c13Slot{T, col("col", "table", "c1"), tbl("jointable", "j"), col("joinon", "table", "k1"), col("joinwith", "jointable", "k2"),
				tbl("jointable2", "j2"), col("joinon2", "table", "k3"), col("joinwith2", "jointable2", "k4")},
			Run: func(w *c13World, drv string, s map[string]string, v any) (any, error) {
				return orm(w, drv, s).NewQueryBuilder().WhereEq(s["col"], v).InnerJoin(s["jointable"], s["joinon"], s["joinwith"]).
					LeftJoin(s["jointable2"], s["joinon2"], s["joinwith2"]).First(c13Ctx)
			}},
		{Name: "orm.FindByID", Effect: "read", Values: true, Covers: []string{"ORM.FindByID"}, Slots: []c13Slot{T},
			Run: func(w *c13World, drv string, s map[string]string, v any) (any, error) { return orm(w, drv, s).FindByID(c13Ctx, v) }},
		{Name: "orm.FindAll", Effect: "read", Covers: []string{"ORM.FindAll"}, Slots: []c13Slot{T},
			Run: func(w *c13World, drv string, s map[string]string, v any) (any, error) { return orm(w, drv, s).FindAll(c13Ctx) }},
		{Name: "orm.Create", Effect: "insert", Values: true, Covers: []string{"ORM.Create"}, Slots: []c13Slot{T, col("col", "table", "c1")},
			Run: func(w *c13World, drv string, s map[string]string, v any) (any, error) {
				return orm(w, drv, s).Create(c13Ctx, map[string]interface{}{s["col"]: v})
			}},
		{Name: "orm.Create2", Effect: "insert", Covers: []string{"ORM.Create"}, Slots: []c13Slot{T, col("col", "table", "c1"), col2},
			Run: func(w *c13World, drv string, s map[string]string, v any) (any, error) {
				return orm(w, drv, s).Create(c13Ctx, c13Map2(s, v))
			}},
		{Name: "orm.Update", Effect: "update", Values: true, Covers: []string{"ORM.Update"}, Slots: []c13Slot{T, col("col", "table", "c1")},
			Run: func(w *c13World, drv string, s map[string]string, v any) (any, error) {
				return orm(w, drv, s).Update(c13Ctx, c13ID(v), map[string]interface{}{s["col"]: v})
			}},
		{Name: "orm.Update2", Effect: "update", Covers: []string{"ORM.Update"}, Slots: []c13Slot{T, col("col", "table", "c1"), col2},
			Run: func(w *c13World, drv string, s map[string]string, v any) (any, error) {
				return orm(w, drv, s).Update(c13Ctx, 1, c13Map2(s, v))
			}},
		{Name: "orm.Delete", Effect: "delete", Values: true, Covers: []string{"ORM.Delete"}, Slots: []c13Slot{T},
			Run: func(w *c13World, drv string, s map[string]string, v any) (any, error) { return nil, orm(w, drv, s).Delete(c13Ctx, c13ID(v)) }},
		{Name: "orm.Count", Effect: "read", Values: true, Covers: []string{"ORM.Count"},
			Slots: []c13Slot{T, col("col", "table", "c1"), {Name: "op", Kind: "op", Benign: "=", Universe: c13OpUniverse}, col("col2", "table", "c2")},
			Run: func(w *c13World, drv string, s map[string]string, v any) (any, error) {
				return orm(w, drv, s).Count(c13Ctx, WhereCondition{s["col"], s["op"], v}, WhereCondition{s["col2"], "=", v})
			}},
		{Name: "orm.Exists", Effect: "read", Values: true, Covers: []string{"ORM.Exists"},
			Slots: []c13Slot{T, col("col", "table", "c1"), {Name: "op", Kind: "op", Benign: "=", Universe: c13OpUniverse}},
			Run: func(w *c13World, drv string, s map[string]string, v any) (any, error) {
				return orm(w, drv, s).Exists(c13Ctx, WhereCondition{s["col"], s["op"], v})
			}},
		// interpreter-facing handler
		{Name: "handler.All", Effect: "read", Covers: []string{"NewHandler", "Handler.Table", "TableHandler.All"}, Slots: []c13Slot{T},
			Run: func(w *c13World, drv string, s map[string]string, v any) (any, error) { return th(w, drv, s).All() }},
		{Name: "handler.Get", Effect: "read", Values: true, Covers: []string{"TableHandler.Get"}, Slots: []c13Slot{T},
			Run: func(w *c13World, drv string, s map[string]string, v any) (any, error) { return th(w, drv, s).Get(v) }},
		{Name: "handler.Create", Effect: "insert", Values: true, Covers: []string{"TableHandler.Create"}, Slots: []c13Slot{T, col("col", "table", "c1")},
			Run: func(w *c13World, drv string, s map[string]string, v any) (any, error) {
				return th(w, drv, s).Create(map[string]interface{}{s["col"]: v})
			}},
		{Name: "handler.Update", Effect: "update", Values: true, Covers: []string{"TableHandler.Update"}, Slots: []c13Slot{T, col("col", "table", "c1")},
			Run: func(w *c13World, drv string, s map[string]string, v any) (any, error) {
				return th(w, drv, s).Update(c13ID(v), map[string]interface{}{s["col"]: v})
			}},
		{Name: "handler.Delete", Effect: "delete", Values: true, Covers: []string{"TableHandler.Delete"}, Slots: []c13Slot{T},
			Run: func(w *c13World, drv string, s map[string]string, v any) (any, error) { return nil, th(w, drv, s).Delete(c13ID(v)) }},
		{Name: "handler.Count", Effect: "read", Values: true, Covers: []string{"TableHandler.Count"}, Slots: []c13Slot{T, col("col", "table", "c1")},
			Run: func(w *c13World, drv string, s map[string]string, v any) (any, error) { return th(w, drv, s).Count(s["col"], v) }},
		{Name: "handler.CountWhere", Effect: "read", Values: true, Covers: []string{"TableHandler.CountWhere"},
			Slots: []c13Slot{T, col("col", "table", "c1"), col("col2", "table", "c2")},
			Run: func(w *c13World, drv string, s map[string]string, v any) (any, error) {
				return th(w, drv, s).CountWhere(s["col"], v, s["col2"], v)
			}},
		{Name: "handler.Filter", Effect: "read", Values: true, Covers: []string{"TableHandler.Filter"}, Slots: []c13Slot{T, col("col", "table", "c1")},
			Run: func(w *c13World, drv string, s map[string]string, v any) (any, error) { return th(w, drv, s).Filter(s["col"], v) }},
		{Name: "handler.FindWhere", Effect: "read", Values: true, Covers: []string{"TableHandler.FindWhere"}, Slots: []c13Slot{T, col("col", "table", "c1")},
			Run: func(w *c13World, drv string, s map[string]string, v any) (any, error) { return th(w, drv, s).FindWhere(s["col"], v) }},
		{Name: "handler.Exists", Effect: "read", Values: true, Covers: []string{"TableHandler.Exists"}, Slots: []c13Slot{T, col("col", "table", "c1")},
			Run: func(w *c13World, drv string, s map[string]string, v any) (any, error) { return th(w, drv, s).Exists(s["col"], v) }},
		{Name: "handler.Where", Effect: "read", Values: true, Covers: []string{"TableHandler.Where"},
			Slots: []c13Slot{T, col("col", "table", "c1"), {Name: "op", Kind: "op", Benign: "=", Universe: c13OpUniverse}},
			Run: func(w *c13World, drv string, s map[string]string, v any) (any, error) {
				return th(w, drv, s).Where(s["col"], s["op"], v).Get(c13Ctx)
			}},
		{Name: "handler.NextId", Effect: "read", Covers: []string{"TableHandler.NextId"}, Slots: []c13Slot{T},
			Run: func(w *c13World, drv string, s map[string]string, v any) (any, error) { return th(w, drv, s).NextId(), nil }},
		{Name: "handler.Length", Effect: "read", Covers: []string{"TableHandler.Length"}, Slots: []c13Slot{T},
			Run: func(w *c13World, drv string, s map[string]string, v any) (any, error) { return th(w, drv, s).Length() }},
		{Name: "handler.First", Effect: "read", Covers: []string{"TableHandler.First"}, Slots: []c13Slot{T},
			Run: func(w *c13World, drv string, s map[string]string, v any) (any, error) { return th(w, drv, s).First() }},
		{Name: "handler.Last", Effect: "read", Covers: []string{"TableHandler.Last"}, Slots: []c13Slot{T},
			Run: func(w *c13World, drv string, s map[string]string, v any) (any, error) { return th(w, drv, s).Last() }},
		// driver helpers
		{Name: "drv.BulkInsert", Effect: "insert", Values: true, DrvOnly: true,
			Covers: []string{"SQLiteDB.BulkInsert", "PostgresDB.BulkInsert", "MySQLDB.BulkInsert"},
			Slots:  []c13Slot{T, col("col", "table", "c1"), col("col2", "table", "c2")},
			Run: func(w *c13World, drv string, s map[string]string, v any) (any, error) {
				cols := []string{s["col"], s["col2"]}
				vals := [][]interface{}{{v, "x"}, {"y", v}}
				switch drv {
				case "sqlite":
					return nil, w.sq.BulkInsert(c13Ctx, s["table"], cols, vals)
				case "postgres":
					return nil, w.pg.BulkInsert(c13Ctx, s["table"], cols, vals)
				}
				return nil, w.my.BulkInsert(c13Ctx, s["table"], cols, vals)
			}},
		{Name: "drv.CreateTable", Effect: "create", DrvOnly: true,
			Covers: []string{"SQLiteDB.CreateTable", "PostgresDB.CreateTable", "MySQLDB.CreateTable"},
			Slots:  []c13Slot{T, col("col", "table", "c1"), {Name: "type", Kind: "type", Benign: "INT"}},
			Run: func(w *c13World, drv string, s map[string]string, v any) (any, error) {
				schema := map[string]string{s["col"]: s["type"]}
				switch drv {
				case "sqlite":
					return nil, w.sq.CreateTable(c13Ctx, s["table"], schema)
				case "postgres":
					return nil, w.pg.CreateTable(c13Ctx, s["table"], schema)
				}
				return nil, w.my.CreateTable(c13Ctx, s["table"], schema)
			}},
		{Name: "drv.CreateTable2", Effect: "create", DrvOnly: true,
			Covers: []string{"SQLiteDB.CreateTable", "PostgresDB.CreateTable", "MySQLDB.CreateTable"},
			Slots:  []c13Slot{T, col("col", "table", "c1"), col2},
			Run: func(w *c13World, drv string, s map[string]string, v any) (any, error) {
				schema := map[string]string{s["col"]: "INT"}
				if s["col2"] != c13Omit {
					schema[s["col2"]] = "INT"
				}
				switch drv {
				case "sqlite":
					return nil, w.sq.CreateTable(c13Ctx, s["table"], schema)
				case "postgres":
					return nil, w.pg.CreateTable(c13Ctx, s["table"], schema)
				}
				return nil, w.my.CreateTable(c13Ctx, s["table"], schema)
			}},
		{Name: "drv.DropTable", Effect: "drop", DrvOnly: true,
			Covers: []string{"SQLiteDB.DropTable", "PostgresDB.DropTable", "MySQLDB.DropTable"}, Slots: []c13Slot{T},
			Run: func(w *c13World, drv string, s map[string]string, v any) (any, error) {
				switch drv {
				case "sqlite":
					return nil, w.sq.DropTable(c13Ctx, s["table"])
				case "postgres":
					return nil, w.pg.DropTable(c13Ctx, s["table"])
				}
				return nil, w.my.DropTable(c13Ctx, s["table"])
			}},
		{Name: "drv.TableExists", Effect: "fixed", DrvOnly: true,
			Covers: []string{"SQLiteDB.TableExists", "PostgresDB.TableExists", "MySQLDB.TableExists"},
			Slots:  []c13Slot{{Name: "name", Kind: "strval", Benign: "t"}},
			Run: func(w *c13World, drv string, s map[string]string, v any) (any, error) {
				switch drv {
				case "sqlite":
					return w.sq.TableExists(c13Ctx, s["name"])
				case "postgres":
					return w.pg.TableExists(c13Ctx, s["name"])
				}
				return w.my.TableExists(c13Ctx, s["name"])
			}},
		{Name: "drv.GetLastInsertID", Effect: "fixed", DrvOnly: true,
			Covers: []string{"SQLiteDB.GetLastInsertID", "PostgresDB.GetLastInsertID", "MySQLDB.GetLastInsertID"},
			Slots:  []c13Slot{T, col("col", "table", "c1")},
			Run: func(w *c13World, drv string, s map[string]string, v any) (any, error) {
				switch drv {
				case "sqlite":
					return w.sq.GetLastInsertID(c13Ctx, s["table"], s["col"])
				case "postgres":
					return w.pg.GetLastInsertID(c13Ctx, s["table"], s["col"])
				}
				return w.my.GetLastInsertID(c13Ctx, s["table"], s["col"])
			}},
	}
	return es
}

func c13Map2(s map[string]string, v any) map[string]interface{} {
	m := map[string]interface{}{s["col"]: v}
	if s["col2"] != c13Omit {
		m[s["col2"]] = "y"
	}
	return m
}

// c13ID maps the swept value to the id argument of Update/Delete: the benign
// value names row 1; no adversarial value names row 2.
func c13ID(v any) any {
	if s, ok := v.(string); ok && s == "v" {
		return 1
	}
	return v
}

// exported declarations of the anchor files that build no SQL from their arguments
var c13Exempt = map[string]string{
	"ORM.Transaction": "no SQL text", "ORM.Query": "raw SQL pass-through by contract", "TableHandler.Query": "raw SQL pass-through by contract",
	"StructToMap": "no SQL", "MapToStruct": "no SQL", "Timestamp": "no SQL", "NewHandlerFromString": "connection set-up", "Handler.Close": "no SQL",
	"NewMockDatabase": "in-memory mock", "NewSQLiteDB": "constructor", "NewPostgresDB": "constructor", "NewMySQLDB": "constructor",
	"NewSQLInjectionDetector": "static analyser of GlyphLang ASTs, builds no SQL", "SQLInjectionDetector.DetectInRoute": "static analyser", "IsSafeQuery": "static analyser",
}

var c13ExemptMethods = map[string]bool{"Connect": true, "Close": true, "Ping": true, "Query": true, "QueryRow": true, "Exec": true, "Begin": true,
	"BeginTx": true, "Prepare": true, "Stats": true, "Driver": true, "Transaction": true}

// c13Declared lists the exported functions and methods of the anchor files.
func c13Declared() ([]string, error) {
	files := []string{"orm.go", "sqlite.go", "postgres.go", "mysql.go", "handler.go", filepath.Join("..", "security", "sql_injection.go")}
	var out []string
	fset := token.NewFileSet()
	for _, f := range files {
		af, err := parser.ParseFile(fset, f, nil, 0)
		if err != nil {
			return nil, err
		}
		for _, d := range af.Decls {
			fd, ok := d.(*ast.FuncDecl)
			if !ok || !fd.Name.IsExported() {
				continue
			}
			name := fd.Name.Name
			if fd.Recv != nil && len(fd.Recv.List) == 1 {
				t := fd.Recv.List[0].Type
				if st, ok := t.(*ast.StarExpr); ok {
					t = st.X
				}
				if id, ok := t.(*ast.Ident); ok {
					if !id.IsExported() {
						continue
					}
					name = id.Name + "." + name
				}
			}
			out = append(out, name)
		}
	}
	sort.Strings(out)
	return out, nil
}

// ---------------------------------------------------------------------------
// input spaces

var c13Atoms = []string{"a", "_", "1", `"`, "'", "`", " ", ";", "--", "/*", "\x00", "\n", ".", "(", ")", ",", "*", "é", "а" /* Cyrillic */, strings.Repeat("a", 300), "\xff", `\`}

var c13TypeWords = []string{" NOT NULL", " PRIMARY KEY", "(255)", "(10, 2)", " DEFAULT CURRENT_TIMESTAMP", " x", " INT"}

var c13SlotPayloads = []string{" OR 1=1", " 1 OR", "=", ` OR "id" =`, " NULL", "X", " NULLS FIRST", " OUTER", " JOIN"}

func c13Values() []any {
	return []any{"v", "'", `"`, "--", ";DROP TABLE " + c13Sentinel, "' OR '1'='1", "'; DROP TABLE " + c13Sentinel + "; --", `" OR ""="`,
		"\x00", "a\x00'b", "1 OR 1=1", "é'а", strings.Repeat("a", 10000), strings.Repeat("'", 1001), "$1", "?", nil, 0, 1, -1, int64(1) << 62, 1.5, true, []byte("x'y")}
}

// c13Seqs calls f with every atom sequence of length 0..max (first<0), or with
// those whose first atom is atoms[first] (the empty sequence belongs to
// first==0).  The slice passed to f is reused.
func c13Seqs(atoms []string, max, first int, f func(seq []string) bool) {
	var cur []string
	var rec func() bool
	rec = func() bool {
		if !f(cur) {
			return false
		}
		if len(cur) == max {
			return true
		}
		for _, a := range atoms {
			cur = append(cur, a)
			ok := rec()
			cur = cur[:len(cur)-1]
			if !ok {
				return false
			}
		}
		return true
	}
	if first < 0 {
		rec()
		return
	}
	if first == 0 && !f(nil) {
		return
	}
	if max == 0 {
		return
	}
	cur = []string{atoms[first]}
	rec()
}

// bases of the non-identifier slot kinds (every accepted spelling, case/space
// variants, near misses); suffixes are atom sequences.
func c13Bases(kind, drv string) []string {
	vary := func(ws []string) []string {
		var out []string
		for _, w := range ws {
			out = append(out, w, strings.ToLower(w), " "+w, w+" ")
			if len(w) > 1 {
				out = append(out, w[:1]+strings.ToLower(w[1:]))
			}
			if strings.Contains(w, " ") {
				out = append(out, strings.Replace(w, " ", "  ", 1), strings.Replace(w, " ", "\t", 1), strings.Replace(w, " ", "", 1))
			}
		}
		return out
	}
	switch kind {
	case "op":
		return append(vary(c13OpUniverse), "", "OR", "AND", "BETWEEN", "NOT", "=ANY", "= ANY", "IS NULL OR", "||", "+", "-", ",", "(", ")")
	case "dir":
		return append(vary([]string{"ASC", "DESC"}), "", "ASCENDING", "DESCENDING", "RANDOM()", "NULLS", "ASC,", "COLLATE", "ASCDESC", "1")
	case "join":
		return append(vary(c13JoinUniverse), "", "NATURAL", "OUTER", "JOIN", "LATERAL", "INNERJOIN", ",")
	case "type":
		m := validColumnTypes
		switch drv {
		case "sqlite":
			m = validSQLiteColumnTypes
		case "mysql":
			m = validMySQLColumnTypes
		}
		var ks []string
		for k := range m {
			ks = append(ks, k)
		}
		sort.Strings(ks)
		out := append([]string{}, ks...)
		out = append(out, "int", "Int", " INT", "INT ", "varchar", "", "FAKETYPE", "X", "DROP", "INTX", "SELECT")
		return out
	}
	panic(kind)
}

// c13Canonical: the spelling is a universe member or a near miss (not one of
// the case/space variants), so it gets the full suffix bound.
func c13Canonical(kind, base string) bool {
	var u []string
	switch kind {
	case "op":
		u = c13OpUniverse
	case "dir":
		u = []string{"ASC", "DESC"}
	case "join":
		u = c13JoinUniverse
	default:
		return true
	}
	for _, w := range u {
		if w == base {
			return true
		}
	}
	// variants are derived from universe members; near misses are not
	for _, w := range u {
		if strings.EqualFold(strings.Join(strings.Fields(w), ""), strings.Join(strings.Fields(base), "")) {
			return false
		}
	}
	return true
}

func c13TypeAccepted(drv, base string) bool {
	m := validColumnTypes
	switch drv {
	case "sqlite":
		m = validSQLiteColumnTypes
	case "mysql":
		m = validMySQLColumnTypes
	}
	return m[base]
}

// ---------------------------------------------------------------------------
// judging one case

type c13Case struct {
	Entry string            `json:"entry"`
	Drv   string            `json:"driver"`
	Slots map[string]string `json:"slots"` // strconv.Quote'd; slots not listed are benign
	Val   int               `json:"value_index"`
}

type c13Finding struct{ Class, Desc string }

type c13Baseline struct {
	shapes   map[string]bool
	fixedSQL string
	valueSQL string // SQL text for the benign value with benign slots
	hasStr   bool
	hasSemi  bool
}

type c13Checker struct {
	w       *c13World
	entries map[string]*c13Entry
	base    map[string]*c13Baseline // entry|drv
	res     *vk.Result
	vals    []any
	seen    map[string]bool
}

func (c *c13Checker) key(e *c13Entry, drv, label, class string) string {
	// the ORM / query-builder / handler code is the same behind every wrapper
	if !e.DrvOnly {
		return fmt.Sprintf("%s/%s/%s", e.Name, label, class)
	}
	return fmt.Sprintf("%s[%s]/%s/%s", e.Name, drv, label, class)
}

func (c *c13Checker) full(e *c13Entry, over map[string]string) map[string]string {
	s := map[string]string{}
	for _, sl := range e.Slots {
		s[sl.Name] = sl.Benign
	}
	for k, v := range over {
		s[k] = v
	}
	return s
}

// dry runs the entry with the driver refusing every statement.
func (c *c13Checker) dry(e *c13Entry, drv string, s map[string]string, v any) (stmts []c13Stmt, ret any, err error, panicked any) {
	r := c13TheRec
	r.stmts, r.on, r.refuse = nil, true, true
	func() {
		defer func() { panicked = recover() }()
		ret, err = e.Run(c.w, drv, s, v)
	}()
	r.on, r.refuse = false, false
	return r.stmts, ret, err, panicked
}

func (c *c13Checker) baseline(e *c13Entry, drv string) *c13Baseline {
	key := e.Name + "|" + drv
	if b, ok := c.base[key]; ok {
		return b
	}
	b := &c13Baseline{shapes: map[string]bool{}}
	// product over the universes of the variable slots
	var vars []c13Slot
	for _, sl := range e.Slots {
		if len(sl.Universe) > 0 {
			vars = append(vars, sl)
		}
	}
	over := map[string]string{}
	var rec func(i int)
	rec = func(i int) {
		if i == len(vars) {
			stmts, _, _, _ := c.dry(e, drv, c.full(e, over), "v")
			for _, st := range stmts {
				toks := c13Tokenize(st.SQL)
				b.shapes[c13Shape(toks)] = true
				for _, t := range toks {
					if t.K == 's' {
						b.hasStr = true
					}
					if t.K == ';' {
						b.hasSemi = true
					}
				}
			}
			return
		}
		for _, u := range append([]string{vars[i].Benign}, vars[i].Universe...) {
			over[vars[i].Name] = u
			rec(i + 1)
		}
		delete(over, vars[i].Name)
	}
	rec(0)
	stmts, _, _, _ := c.dry(e, drv, c.full(e, nil), "v")
	if len(stmts) == 1 {
		b.fixedSQL = stmts[0].SQL
		b.valueSQL = stmts[0].SQL
	}
	c.base[key] = b
	return b
}

func (c *c13Checker) tables(e *c13Entry, s map[string]string) (tables []c13Table, named []string) {
	idx := map[string]int{}
	for _, sl := range e.Slots {
		if sl.Kind != "table" {
			continue
		}
		v := s[sl.Name]
		if v == c13Omit || !c13SafeIdent(v) {
			continue
		}
		if _, dup := idx[strings.ToLower(v)]; dup {
			continue
		}
		idx[strings.ToLower(v)] = len(tables)
		tables = append(tables, c13Table{Name: v})
		named = append(named, v)
	}
	for _, sl := range e.Slots {
		if sl.Kind != "column" {
			continue
		}
		tv := s[sl.Of]
		ti, ok := idx[strings.ToLower(tv)]
		if !ok {
			continue
		}
		vals := []string{s[sl.Name]}
		if sl.Loose {
			vals = strings.Fields(s[sl.Name])
		}
		for _, v := range vals {
			if !c13SafeIdent(v) || strings.EqualFold(v, "id") || strings.EqualFold(v, "keep") {
				continue
			}
			dup := false
			for _, c0 := range tables[ti].Cols {
				if strings.EqualFold(c0, v) {
					dup = true
				}
			}
			if !dup {
				tables[ti].Cols = append(tables[ti].Cols, v)
			}
		}
	}
	return
}

func c13Short(s string) string {
	q := strconv.Quote(s)
	if len(q) > 120 {
		q = q[:60] + "…" + q[len(q)-30:] + fmt.Sprintf("(len %d)", len(s))
	}
	return q
}

// judge runs one case and returns the findings (empty: conforming) and whether
// any statement reached the driver.
func (c *c13Checker) judge(e *c13Entry, drv string, over map[string]string, vi int) (fs []c13Finding, accepted bool) {
	s := c.full(e, over)
	v := c.vals[vi]
	base := c.baseline(e, drv)
	if len(base.shapes) == 0 {
		return []c13Finding{{"harness-baseline", "the entry point sent no statement for benign arguments; nothing can be judged"}}, false
	}
	stmts, _, _, pan := c.dry(e, drv, s, v)
	if pan != nil {
		c.res.Count("panics_not_judged", 1)
	}
	if len(stmts) == 0 {
		return nil, false
	}
	add := func(class, f string, a ...any) { fs = append(fs, c13Finding{class, fmt.Sprintf(f, a...)}) }

	// R0: identifier arguments outside the grammar must not get this far
	for _, sl := range e.Slots {
		if (sl.Kind != "table" && sl.Kind != "column") || sl.Loose {
			continue
		}
		val := s[sl.Name]
		if val == c13Omit || c13SafeIdent(val) {
			continue
		}
		safe := false
		for _, u := range sl.Universe {
			if u == val {
				safe = true
			}
		}
		if !safe {
			add("unsafe-identifier-reached-db:"+sl.Name, "%s argument %s is outside [A-Za-z_][A-Za-z0-9_]* but the call sent %s to the driver", sl.Name, c13Short(val), c13Short(stmts[0].SQL))
		}
	}

	// execute for real
	tables, named := c.tables(e, s)
	mainT := ""
	if c13SafeIdent(s["table"]) {
		mainT = strings.ToLower(s["table"])
	}
	if e.Effect == "create" {
		var keep []c13Table
		for _, t := range tables {
			if strings.ToLower(t.Name) != mainT {
				keep = append(keep, t)
			}
		}
		tables = keep
	}
	c.w.begin(tables)
	before := c.w.snap(named)
	r := c13TheRec
	r.stmts, r.on, r.refuse = nil, true, false
	var ret any
	var rerr error
	func() {
		defer func() {
			if p := recover(); p != nil {
				c.res.Count("panics_not_judged", 1)
			}
		}()
		ret, rerr = e.Run(c.w, drv, s, v)
	}()
	r.on = false
	real := r.stmts
	after := c.w.snap(named)
	c.w.end()
	if rerr != nil && strings.HasPrefix(rerr.Error(), "c13-build-mismatch") {
		add("build-differs-from-get", "%v", rerr)
	}

	// S: structure of every statement sent
	allowed := map[string]bool{"id": true}
	for _, sl := range e.Slots {
		if sl.Kind == "table" || sl.Kind == "column" {
			allowed[s[sl.Name]] = true
		}
		if sl.Loose || sl.Kind == "dir" {
			// OrderBy joins column and direction with a blank and splits the
			// result on white space again: which field is taken as the column is
			// not specified, so any field of either argument is the caller's
			for _, f := range strings.Fields(s[sl.Name]) {
				allowed[f] = true
			}
		}
	}
	hasType := false
	for _, sl := range e.Slots {
		if sl.Kind == "type" {
			hasType = true
		}
	}
	for _, st := range append(append([]c13Stmt{}, stmts...), real...) {
		toks := c13Tokenize(st.SQL)
		if hasType {
			if cl, d := c13JudgeCreate(toks, []string{s["col"]}); cl != "" {
				add(cl, "%s; statement %s", d, c13Short(st.SQL))
			}
		} else if !base.shapes[c13Shape(toks)] {
			cl := "shape-differs"
			for _, t := range toks {
				switch {
				case t.K == 'x':
					cl = "illegal-character"
				case t.K == 'c' && cl == "shape-differs":
					cl = "comment"
				case t.K == ';' && !base.hasSemi && cl == "shape-differs":
					cl = "second-statement"
				case t.K == 's' && !base.hasStr && cl == "shape-differs":
					cl = "string-literal"
				}
			}
			add(cl, "statement %s has shape «%s», which the entry point never emits for benign identifiers and safe operators/directions/join types", c13Short(st.SQL), c13Short(c13Shape(toks)))
		}
		for _, t := range toks {
			if t.K != 'q' {
				continue
			}
			if !c13SafeIdent(t.T) {
				add("bad-quoted-identifier", "quoted identifier %s in %s is outside the safe grammar", c13Short(t.T), c13Short(st.SQL))
			} else if !allowed[t.T] {
				add("foreign-identifier", "quoted identifier %s in %s is none of the caller's arguments", c13Short(t.T), c13Short(st.SQL))
			}
		}
		if e.Effect == "fixed" && st.SQL != base.fixedSQL {
			add("fixed-template-changed", "statement %s differs from the fixed template %s", c13Short(st.SQL), c13Short(base.fixedSQL))
		}
	}
	if e.Values && vi != 0 {
		// the SQL text must not depend on the value: compare with the benign value under the same slots
		ref, _, _, _ := c.dry(e, drv, s, c.vals[0])
		for i, st := range real {
			if i < len(ref) && st.SQL != ref[i].SQL {
				add("value-changes-sql", "value %s changed the SQL text to %s (benign value: %s)", c13Short(fmt.Sprint(v)), c13Short(st.SQL), c13Short(ref[i].SQL))
			}
		}
		if len(ref) != len(real) {
			add("value-changes-sql", "value %s changed the number of statements from %d to %d", c13Short(fmt.Sprint(v)), len(ref), len(real))
		}
	}
	if e.Values && vi != 0 {
		for _, st := range real {
			bound := false
			for _, a := range st.Args {
				switch x := v.(type) {
				case string:
					bound = bound || a == x
				case []byte:
					ab, ok := a.([]byte)
					bound = bound || (ok && string(ab) == string(x))
				case nil:
					bound = bound || a == nil
				default:
					bound = true
				}
			}
			if !bound {
				add("value-not-bound", "value %s is not among the bound arguments of %s", c13Short(fmt.Sprint(v)), c13Short(st.SQL))
			}
		}
	}

	// X: effects
	if before.Sentinel != after.Sentinel {
		add("exec-sentinel-changed", "sentinel table changed from %s to %s", c13Short(before.Sentinel), c13Short(after.Sentinel))
	}
	keys := map[string]bool{}
	for k := range before.Master {
		keys[k] = true
	}
	for k := range after.Master {
		keys[k] = true
	}
	var ks []string
	for k := range keys {
		ks = append(ks, k)
	}
	sort.Strings(ks)
	for _, k := range ks {
		if k == mainT && (e.Effect == "create" || e.Effect == "drop") {
			continue
		}
		if before.Master[k] != after.Master[k] {
			add("exec-schema-changed", "schema objects of table %s, which the call may not touch, changed from %s to %s", c13Short(k), c13Short(before.Master[k]), c13Short(after.Master[k]))
		}
	}
	for _, t := range named {
		lt := strings.ToLower(t)
		if e.Effect == "create" && lt == mainT {
			if cols, ok := after.Cols[lt]; ok {
				want := []string{s["col"]}
				if c2, ok := s["col2"]; ok && c2 != c13Omit && !strings.EqualFold(c2, s["col"]) {
					want = append(want, c2)
				}
				got := append([]string{}, cols...)
				sort.Strings(got)
				sort.Strings(want)
				if !reflect.DeepEqual(got, want) {
					add("exec-extra-column", "SQLite created table %s with columns %q although the schema names only %q", c13Short(t), got, want)
				}
			}
			continue
		}
		if e.Effect == "drop" && lt == mainT {
			continue
		}
		if !reflect.DeepEqual(before.Cols[lt], after.Cols[lt]) {
			add("exec-columns-changed", "columns of %s changed from %q to %q", c13Short(t), before.Cols[lt], after.Cols[lt])
			continue
		}
		br, ar := before.Rows[lt], after.Rows[lt]
		mutable := lt == mainT && (e.Effect == "insert" || e.Effect == "update" || e.Effect == "delete")
		if !mutable {
			if !reflect.DeepEqual(br, ar) {
				add("exec-rows-changed", "rows of %s, which the call only reads, changed from %q to %q", c13Short(t), br, ar)
			}
			continue
		}
		find := func(rows []string, id string) string {
			for _, r := range rows {
				if strings.HasPrefix(r, "id="+id+"|") {
					return r
				}
			}
			return "<absent>"
		}
		if find(br, "2") != find(ar, "2") {
			add("exec-unnamed-row-changed", "row id=2 of %s, which no argument names, changed from %s to %s", c13Short(t), find(br, "2"), find(ar, "2"))
		}
		if e.Effect == "insert" && find(br, "1") != find(ar, "1") {
			add("exec-unnamed-row-changed", "row id=1 of %s changed on insert from %s to %s", c13Short(t), find(br, "1"), find(ar, "1"))
		}
		if e.Effect == "update" {
			keepOf := func(r string) string {
				i := strings.Index(r, "keep=")
				if i < 0 {
					return r
				}
				return r[i : i+strings.Index(r[i:], "|")]
			}
			if keepOf(find(br, "1")) != keepOf(find(ar, "1")) {
				add("exec-unnamed-column-changed", "column keep of %s, which the update does not name, changed from %s to %s", c13Short(t), keepOf(find(br, "1")), keepOf(find(ar, "1")))
			}
		}
	}
	if ret != nil && strings.Contains(fmt.Sprintf("%v", ret), c13Marker) {
		add("exec-sentinel-read", "the result %s contains the sentinel's marker", c13Short(fmt.Sprintf("%v", ret)))
	}
	// the dry and the real run send the same statements: one finding per class
	var uniq []c13Finding
	for _, f := range fs {
		dup := false
		for _, u := range uniq {
			if u.Class == f.Class {
				dup = true
			}
		}
		if !dup {
			uniq = append(uniq, f)
		}
	}
	return uniq, true
}

// c13JudgeCreate checks CREATE TABLE IF NOT EXISTS <id> ( <id> type… {, <id> type…} ).
func c13JudgeCreate(toks []c13Tok, cols []string) (class, desc string) {
	for _, t := range toks {
		switch t.K {
		case 'x':
			return "illegal-character", fmt.Sprintf("illegal character %s", c13Short(t.T))
		case 'c':
			return "comment", "comment in statement"
		case ';':
			return "second-statement", "semicolon in statement"
		case 's':
			return "string-literal", "string literal in statement"
		}
	}
	head := []string{"CREATE", "TABLE", "IF", "NOT", "EXISTS"}
	if len(toks) < 9 {
		return "shape-differs", "statement too short"
	}
	for i, h := range head {
		if toks[i].K != 'w' || strings.ToUpper(toks[i].T) != h {
			return "shape-differs", "statement does not start with CREATE TABLE IF NOT EXISTS"
		}
	}
	if toks[5].K != 'q' || toks[6].K != '(' {
		return "shape-differs", "no quoted table name followed by ("
	}
	depth, items := 1, 1
	startOfItem := true
	isCol := func(s string) bool {
		for _, c := range cols {
			if c == s {
				return true
			}
		}
		return false
	}
	for i := 7; i < len(toks); i++ {
		t := toks[i]
		if startOfItem {
			startOfItem = false
			if t.K != 'q' || !isCol(t.T) {
				return "type-adds-definition", fmt.Sprintf("definition %d of the table body does not start with a column the schema names", items)
			}
			continue
		}
		switch t.K {
		case '(':
			depth++
		case ')':
			depth--
			if depth < 0 || (depth == 0 && i != len(toks)-1) {
				return "type-closes-column-list", "the column type closes the column list of CREATE TABLE; what follows is outside the list"
			}
		case ',':
			if depth == 1 {
				items++
				startOfItem = true
			}
		}
	}
	if startOfItem {
		return "type-adds-definition", "the table body ends with a comma"
	}
	// a parenthesis the type leaves open makes the statement a syntax error in
	// every engine; harmless, not judged
	return "", ""
}

// ---------------------------------------------------------------------------
// work items

type c13Item struct {
	entry *c13Entry
	drv   string
	kind  string // slot | pair | values
	slot  string
	slot2 string
	chunk int
	max   int    // atom bound of the swept string
	base  string // non-identifier slots: the spelling the atoms are appended to
}

func (c *c13Checker) report(e *c13Entry, drv string, slotLabel string, over map[string]string, vi int, fs []c13Finding) {
	for _, f := range fs {
		key := c.key(e, drv, slotLabel, f.Class)
		c.seen[key] = true
		q := map[string]string{}
		var parts []string
		for _, k := range c13SortedKeys(over) {
			q[k] = strconv.Quote(over[k])
			parts = append(parts, k+"="+c13Short(over[k]))
		}
		c.res.Violate(key, fmt.Sprintf("%s on %s wrapper with %s, value #%d: %s", e.Name, drv, strings.Join(parts, " "), vi, f.Desc),
			c13Replay{Part: "case", Label: slotLabel, Case: c13Case{Entry: e.Name, Drv: drv, Slots: q, Val: vi}})
	}
}

type c13Replay struct {
	Part  string  `json:"part"` // case | pure | escape
	Label string  `json:"label,omitempty"`
	Case  c13Case `json:"case,omitempty"`
	Func  string  `json:"func,omitempty"`
	Input string  `json:"input,omitempty"` // strconv.Quote'd
}

// shrink: greedily delete atoms while a finding of the same class remains.
func (c *c13Checker) shrink(e *c13Entry, drv, slot string, seq []string, class string) []string {
	cur := append([]string{}, seq...)
	for changed := true; changed; {
		changed = false
		for i := range cur {
			cand := append(append([]string{}, cur[:i]...), cur[i+1:]...)
			fs, _ := c.judge(e, drv, map[string]string{slot: strings.Join(cand, "")}, 0)
			for _, f := range fs {
				if f.Class == class {
					cur, changed = cand, true
					break
				}
			}
			if changed {
				break
			}
		}
	}
	return cur
}

func TestVerif_C13(t *testing.T) {
	log.SetOutput(io.Discard)
	p := vk.Env()
	res := vk.NewResult("every query-building entry point (ORM, query builder, interpreter-facing table handler, driver helpers of the SQLite/PostgreSQL/MySQL wrappers, identifier sanitizers, SQL string escaping) × every wrapper × every argument slot × every atom sequence up to the length bound over the adversarial alphabet (other slots benign), all slot pairs × sequences of length ≤ 1, every adversarial value; a case is distinct by (entry, wrapper, slot strings, value); non-trivial = at least one statement reached the driver (these are tokenized, compared with the benign shapes and executed on SQLite next to a sentinel table); for rejected cases the oracle is that nothing reached the driver")
	c := &c13Checker{w: c13Open(), entries: map[string]*c13Entry{}, base: map[string]*c13Baseline{}, res: res, vals: c13Values(), seen: map[string]bool{}}
	entries := c13Entries()
	for i := range entries {
		c.entries[entries[i].Name] = &entries[i]
	}
	if p.Replay != "" {
		var rp c13Replay
		if err := vk.LoadReplay(p.Replay, &rp); err != nil {
			t.Fatal(err)
		}
		ok := c.replay(rp)
		res.Replayed = &ok
		res.Write(p)
		return
	}
	identLen, pairLen, sufLen := 3, 1, 2
	if p.Thorough {
		identLen, sufLen = 4, 3
	}
	res.Bounds["identifier_atoms"] = len(c13Atoms)
	res.Bounds["identifier_max_atoms"] = identLen
	res.Bounds["slot_pair_max_atoms"] = pairLen
	res.Bounds["operator_direction_join_type_suffix_max_atoms"] = sufLen
	res.Bounds["values"] = len(c.vals)
	res.Bounds["entry_points"] = len(entries)
	res.Bounds["wrappers"] = 3

	// completeness of the entry table against the sources
	if p.Shard == 0 {
		covered := map[string]bool{}
		for _, e := range entries {
			for _, n := range e.Covers {
				covered[n] = true
			}
		}
		for _, n := range []string{"SanitizeIdentifier", "SanitizeIdentifiers", "ValidateIdentifier", "SanitizeSQLiteIdentifier", "SanitizeSQLiteIdentifiers",
			"SanitizeMySQLIdentifier", "SanitizeMySQLIdentifiers", "StripSQLComments", "EscapeSQLString", "SanitizeSQL"} {
			covered[n] = true
		}
		decl, err := c13Declared()
		if err != nil {
			res.Note("could not list the declarations of the anchor files: %v", err)
			res.Exhaustive = false
		}
		var unc []string
		for _, d := range decl {
			m := d[strings.LastIndex(d, ".")+1:]
			recv := strings.TrimSuffix(d, "."+m)
			if covered[d] || c13Exempt[d] != "" || strings.HasPrefix(recv, "Mock") ||
				((recv == "SQLiteDB" || recv == "PostgresDB" || recv == "MySQLDB") && c13ExemptMethods[m]) {
				continue
			}
			unc = append(unc, d)
		}
		res.Count("declared_exported_functions", int64(len(decl)))
		res.Count("entry_points_unclassified", int64(len(unc)))
		if len(unc) > 0 {
			res.Note("exported declarations of the anchor files that the harness neither drives nor exempts: %v", unc)
			res.Exhaustive = false
		}
	}

	// work items.  The ORM and table-handler code is the same whatever wrapper
	// is behind it, so the quick tier sweeps it deeply on the PostgreSQL wrapper
	// only; the wrappers' own helpers are always swept on all three.
	var items []c13Item
	for i := range entries {
		e := &entries[i]
		for _, drv := range []string{"postgres", "sqlite", "mysql"} {
			shallow := !p.Thorough && !e.DrvOnly && drv != "postgres"
			for _, sl := range e.Slots {
				if sl.Kind == "table" || sl.Kind == "column" || sl.Kind == "strval" {
					for ch := range c13Atoms {
						m := identLen
						if shallow {
							m = 1
						}
						items = append(items, c13Item{entry: e, drv: drv, kind: "slot", slot: sl.Name, chunk: ch, max: m})
					}
					continue
				}
				for bi, b := range c13Bases(sl.Kind, drv) {
					m := sufLen
					if !c13Canonical(sl.Kind, b) {
						m = sufLen - 1
					}
					if shallow {
						m = 0
					}
					if sl.Kind == "type" {
						// every spelling with suffixes of sufLen-1 atoms; the full bound for
						// every third accepted spelling and all near misses
						if bi%3 != 0 && c13TypeAccepted(drv, b) {
							m = sufLen - 1
						}
					}
					items = append(items, c13Item{entry: e, drv: drv, kind: "slot", slot: sl.Name, base: b, max: m})
				}
			}
			for a := 0; a < len(e.Slots); a++ {
				for b := a + 1; b < len(e.Slots); b++ {
					items = append(items, c13Item{entry: e, drv: drv, kind: "pair", slot: e.Slots[a].Name, slot2: e.Slots[b].Name})
				}
			}
			if e.Values {
				items = append(items, c13Item{entry: e, drv: drv, kind: "values"})
			}
		}
	}
	res.Bounds["work_items"] = len(items)
	distinct := int64(0)
	stop := false
	one := func(it c13Item, label string, over map[string]string, vi int, seq []string) {
		fs, acc := c.judge(it.entry, it.drv, over, vi)
		res.Evaluations++
		if acc {
			distinct++
			res.Count("accepted_and_executed", 1)
			if distinct%53 == 1 {
				res.Sample(6, map[string]any{"entry": it.entry.Name, "driver": it.drv, "slots": fmt.Sprintf("%q", over), "value_index": vi})
			}
		} else {
			res.Count("rejected_before_the_driver", 1)
		}
		if len(fs) > 0 {
			// a sanitizer that itself accepts the unsafe identifier is one defect,
			// whatever entry point it is reached through
			if fn, bad, d := c13SanitizerAccepts(it.entry, over); fn != "" {
				res.Count("violating_cases_attributed_to_a_sanitizer", 1)
				res.Violate("sanitizer/"+fn+"/unsafe-identifier-accepted", d, c13Replay{Part: "pure", Func: fn, Input: strconv.Quote(bad)})
				fs = nil
			}
		}
		fresh := false
		for _, f := range fs {
			if !c.seen[c.key(it.entry, it.drv, label, f.Class)] {
				fresh = true
			}
		}
		if len(fs) > 0 && !fresh {
			res.Count("violating_cases_with_known_key", 1)
		}
		if fresh && it.kind == "pair" {
			// attribute to one slot what already fails with the other slot benign
			for _, k := range c13SortedKeys(over) {
				single := map[string]string{k: over[k]}
				fs1, _ := c.judge(it.entry, it.drv, single, vi)
				if len(fs1) == 0 {
					continue
				}
				c.report(it.entry, it.drv, k, single, vi, fs1)
				var rest []c13Finding
				for _, f := range fs {
					dup := false
					for _, f1 := range fs1 {
						if f1.Class == f.Class {
							dup = true
						}
					}
					if dup {
						c.seen[c.key(it.entry, it.drv, label, f.Class)] = true
					} else {
						rest = append(rest, f)
					}
				}
				fs = rest
			}
			if len(fs) == 0 {
				fresh = false
			}
		}
		if fresh {
			if seq != nil && it.kind == "slot" {
				// report the shrunk input of the first finding's class
				m := c.shrink(it.entry, it.drv, it.slot, seq, fs[0].Class)
				over2 := map[string]string{it.slot: strings.Join(m, "")}
				if fs2, _ := c.judge(it.entry, it.drv, over2, vi); len(fs2) > 0 {
					c.report(it.entry, it.drv, label, over2, vi, fs2)
				}
			}
			c.report(it.entry, it.drv, label, over, vi, fs)
		}
		if res.Evaluations%4096 == 0 && p.Expired() {
			stop = true
		}
	}
	for idx, it := range items {
		if !p.Mine(idx) {
			continue
		}
		if stop || p.Expired() {
			res.Exhaustive = false
			break
		}
		e := it.entry
		slotOf := func(n string) c13Slot {
			for _, sl := range e.Slots {
				if sl.Name == n {
					return sl
				}
			}
			panic(n)
		}
		switch it.kind {
		case "slot":
			sl := slotOf(it.slot)
			if sl.Kind == "table" || sl.Kind == "column" || sl.Kind == "strval" {
				c13Seqs(c13Atoms, it.max, it.chunk, func(seq []string) bool {
					one(it, sl.Name, map[string]string{sl.Name: strings.Join(seq, "")}, 0, seq)
					return !stop
				})
			} else {
				base := it.base
				atoms := append(append([]string{}, c13Atoms...), c13SlotPayloads...)
				if sl.Kind == "type" {
					atoms = append(append([]string{}, c13Atoms...), c13TypeWords...)
				}
				c13Seqs(atoms, it.max, -1, func(seq []string) bool {
					full := append([]string{base}, seq...)
					one(it, sl.Name, map[string]string{sl.Name: strings.Join(full, "")}, 0, full)
					// payload in front of the accepted spelling
					if len(seq) > 0 && len(seq) <= 1 {
						pre := append(append([]string{}, seq...), base)
						one(it, sl.Name, map[string]string{sl.Name: strings.Join(pre, "")}, 0, pre)
					}
					return !stop
				})
			}
		case "pair":
			a, b := slotOf(it.slot), slotOf(it.slot2)
			space := func(sl c13Slot) []string {
				out := []string{""}
				out = append(out, c13Atoms...)
				switch sl.Kind {
				case "op":
					out = append(out, c13OpUniverse...)
					out = append(out, "like", " = ", "OR", "= 1 OR")
				case "dir":
					out = append(out, "ASC", "DESC", "desc", "ASC,")
				case "join":
					out = append(out, c13JoinUniverse...)
					out = append(out, "left", "NATURAL")
				case "type":
					out = append(out, "INT", "VARCHAR(255) NOT NULL", "DECIMAL(10, 2)", "int", "FAKETYPE", "INT,a", "INT)")
				}
				return out
			}
			for _, x := range space(a) {
				for _, y := range space(b) {
					one(it, a.Name+"+"+b.Name, map[string]string{a.Name: x, b.Name: y}, 0, nil)
				}
				if stop {
					break
				}
			}
		case "values":
			overs := []map[string]string{nil}
			for _, sl := range e.Slots {
				if sl.Kind == "op" || sl.Kind == "dir" || sl.Kind == "join" {
					for _, u := range sl.Universe {
						overs = append(overs, map[string]string{sl.Name: u})
					}
				}
			}
			for _, ov := range overs {
				label := "value"
				for k := range ov {
					label = "value@" + k
				}
				for vi := range c.vals {
					one(it, label, ov, vi, nil)
				}
			}
		}
	}
	res.Distinct = distinct
	if p.Shard == 0 {
		c13Pure(p, res, identLen)
	}
	res.Write(p)
}

// ---------------------------------------------------------------------------
// the sanitizers themselves and the SQL string escaping of pkg/security

type c13PureFn struct {
	name  string
	quote string
	f     func(string) (string, error)
}

func c13PureFns() []c13PureFn {
	second := func(f func([]string) ([]string, error)) func(string) (string, error) {
		return func(s string) (string, error) {
			out, err := f([]string{"ok", s})
			if err != nil {
				return "", err
			}
			if len(out) != 2 || out[0][1:len(out[0])-1] != "ok" {
				return "", fmt.Errorf("c13: unexpected result %q", out)
			}
			return out[1], nil
		}
	}
	return []c13PureFn{
		{"SanitizeIdentifier", `"`, SanitizeIdentifier},
		{"SanitizeIdentifiers", `"`, second(SanitizeIdentifiers)},
		{"ValidateIdentifier", "", func(s string) (string, error) { return s, ValidateIdentifier(s) }},
		{"SanitizeSQLiteIdentifier", `"`, SanitizeSQLiteIdentifier},
		{"SanitizeSQLiteIdentifiers", `"`, second(SanitizeSQLiteIdentifiers)},
		{"SanitizeMySQLIdentifier", "`", SanitizeMySQLIdentifier},
		{"SanitizeMySQLIdentifiers", "`", second(SanitizeMySQLIdentifiers)},
	}
}

func c13JudgePure(fn c13PureFn, s string) string {
	out, err := fn.f(s)
	if err != nil {
		return ""
	}
	if !c13SafeIdent(s) {
		return fmt.Sprintf("%s accepted %s, which is outside [A-Za-z_][A-Za-z0-9_]*, and returned %s", fn.name, c13Short(s), c13Short(out))
	}
	if out != fn.quote+s+fn.quote {
		return fmt.Sprintf("%s(%s) returned %s instead of the quoted identifier", fn.name, c13Short(s), c13Short(out))
	}
	return ""
}

// c13SanitizerAccepts: does one of the exported sanitizers accept an unsafe
// identifier argument of this case?  Used only to attribute a failing case.
func c13SanitizerAccepts(e *c13Entry, over map[string]string) (fn, bad, desc string) {
	for _, sl := range e.Slots {
		if sl.Kind != "table" && sl.Kind != "column" {
			continue
		}
		v, ok := over[sl.Name]
		if !ok || v == c13Omit || c13SafeIdent(v) {
			continue
		}
		for _, f := range c13PureFns() {
			if d := c13JudgePure(f, v); d != "" {
				return f.name, v, d
			}
		}
	}
	return "", "", ""
}

type c13EscFn struct {
	name  string
	f     func(string) string
	exact bool // the literal must read back as the input without NULs
}

func c13EscFns() []c13EscFn {
	return []c13EscFn{{"EscapeSQLString", security.EscapeSQLString, true}, {"SanitizeSQL", security.SanitizeSQL, true}, {"StripSQLComments", security.StripSQLComments, false}}
}

// c13JudgeEsc: '<escaped>' must be exactly one string literal (standard SQL
// quoting), and SELECT '<escaped>' on SQLite must return the input (minus NUL)
// without touching the sentinel.
func c13JudgeEsc(w *c13World, fn c13EscFn, s string) string {
	q := "SELECT '" + fn.f(s) + "'"
	toks := c13Tokenize(q)
	if len(toks) != 2 || toks[1].K != 's' {
		return fmt.Sprintf("%s(%s) placed between quotes gives %s, which is not a single string literal (shape «%s»)", fn.name, c13Short(s), c13Short(q), c13Shape(toks))
	}
	if strings.ContainsRune(q, 0) {
		return fmt.Sprintf("%s(%s) still contains a NUL byte", fn.name, c13Short(s))
	}
	var got string
	if err := w.db.QueryRow(q).Scan(&got); err != nil {
		return fmt.Sprintf("%s(%s): SQLite rejects %s: %v", fn.name, c13Short(s), c13Short(q), err)
	}
	if fn.exact && got != strings.ReplaceAll(s, "\x00", "") {
		return fmt.Sprintf("%s(%s) reads back as %s", fn.name, c13Short(s), c13Short(got))
	}
	return ""
}

func c13Pure(p vk.Params, res *vk.Result, identLen int) {
	w := c13Open()
	sent := w.dump("SELECT id, secret FROM " + c13Sentinel + " ORDER BY id")
	for _, fn := range c13PureFns() {
		fn := fn
		c13Seqs(c13Atoms, identLen, -1, func(seq []string) bool {
			s := strings.Join(seq, "")
			res.Evaluations++
			if d := c13JudgePure(fn, s); d != "" {
				res.Violate("sanitizer/"+fn.name+"/unsafe-identifier-accepted", d, c13Replay{Part: "pure", Func: fn.name, Input: strconv.Quote(s)})
			}
			return res.Evaluations%4096 != 0 || !p.Expired()
		})
	}
	for _, fn := range c13EscFns() {
		fn := fn
		c13Seqs(c13Atoms, 3, -1, func(seq []string) bool {
			s := strings.Join(seq, "")
			res.Evaluations++
			res.Distinct++
			if d := c13JudgeEsc(w, fn, s); d != "" {
				res.Violate("escape/"+fn.name+"/literal-broken", d, c13Replay{Part: "escape", Func: fn.name, Input: strconv.Quote(s)})
			}
			return res.Evaluations%4096 != 0 || !p.Expired()
		})
	}
	if after := w.dump("SELECT id, secret FROM " + c13Sentinel + " ORDER BY id"); after != sent {
		res.Violate("escape/exec-sentinel-changed", "the sentinel changed while executing escaped literals", c13Replay{Part: "escape"})
	}
	if p.Expired() {
		res.Exhaustive = false
	}
}

func (c *c13Checker) replay(rp c13Replay) bool {
	switch rp.Part {
	case "case":
		e := c.entries[rp.Case.Entry]
		if e == nil {
			return false
		}
		over := map[string]string{}
		for k, q := range rp.Case.Slots {
			s, err := strconv.Unquote(q)
			if err != nil {
				return false
			}
			over[k] = s
		}
		if len(over) == 0 {
			over = nil
		}
		fs, acc := c.judge(e, rp.Case.Drv, over, rp.Case.Val)
		fmt.Printf("replay %s[%s] %q value#%d -> accepted=%v findings=%v\n", e.Name, rp.Case.Drv, over, rp.Case.Val, acc, fs)
		c.report(e, rp.Case.Drv, rp.Label, over, rp.Case.Val, fs)
		return len(fs) > 0
	case "pure":
		s, _ := strconv.Unquote(rp.Input)
		for _, fn := range c13PureFns() {
			if fn.name == rp.Func {
				if d := c13JudgePure(fn, s); d != "" {
					fmt.Println("replay:", d)
					c.res.Violate("sanitizer/"+fn.name+"/unsafe-identifier-accepted", d, rp)
					return true
				}
			}
		}
	case "escape":
		s, _ := strconv.Unquote(rp.Input)
		w := c13Open()
		for _, fn := range c13EscFns() {
			if fn.name == rp.Func {
				if d := c13JudgeEsc(w, fn, s); d != "" {
					fmt.Println("replay:", d)
					c.res.Violate("escape/"+fn.name+"/literal-broken", d, rp)
					return true
				}
			}
		}
	}
	return false
}
