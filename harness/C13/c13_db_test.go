package database

// C13 — the execution side: a recording database/sql driver wrapped around the
// repository's own pure-Go SQLite driver, and the "world" (an in-memory SQLite
// with a sentinel table) against which every accepted statement is executed.

import (
	"context"
	"database/sql"
	"database/sql/driver"
	"errors"
	"fmt"
	"sort"
	"strings"
	"sync"
)

type c13Stmt struct {
	SQL  string
	Args []any
}

// c13Rec is the recorder shared by all connections of the wrapping driver.
type c13Rec struct {
	on     bool // record statements (code under test is running)
	refuse bool // dry run: record and refuse instead of executing
	stmts  []c13Stmt
}

var c13TheRec = &c13Rec{}
var errC13Refused = errors.New("c13: dry run, statement refused")

type c13Driver struct{ inner driver.Driver }

func (d *c13Driver) Open(name string) (driver.Conn, error) {
	c, err := d.inner.Open(name)
	if err != nil {
		return nil, err
	}
	return &c13Conn{inner: c}, nil
}

type c13Conn struct{ inner driver.Conn }

func (c *c13Conn) note(q string, args []driver.NamedValue) bool {
	r := c13TheRec
	if !r.on {
		return false
	}
	st := c13Stmt{SQL: q}
	for _, a := range args {
		st.Args = append(st.Args, a.Value)
	}
	r.stmts = append(r.stmts, st)
	return r.refuse
}

func (c *c13Conn) Prepare(q string) (driver.Stmt, error) {
	if c.note(q, nil) {
		return nil, errC13Refused
	}
	return c.inner.Prepare(q)
}
func (c *c13Conn) Close() error              { return c.inner.Close() }
func (c *c13Conn) Begin() (driver.Tx, error) { return c.inner.Begin() } //nolint
func (c *c13Conn) BeginTx(ctx context.Context, o driver.TxOptions) (driver.Tx, error) {
	return c.inner.(driver.ConnBeginTx).BeginTx(ctx, o)
}
func (c *c13Conn) PrepareContext(ctx context.Context, q string) (driver.Stmt, error) {
	if c.note(q, nil) {
		return nil, errC13Refused
	}
	return c.inner.(driver.ConnPrepareContext).PrepareContext(ctx, q)
}
func (c *c13Conn) ExecContext(ctx context.Context, q string, a []driver.NamedValue) (driver.Result, error) {
	if c.note(q, a) {
		return nil, errC13Refused
	}
	return c.inner.(driver.ExecerContext).ExecContext(ctx, q, a)
}
func (c *c13Conn) QueryContext(ctx context.Context, q string, a []driver.NamedValue) (driver.Rows, error) {
	if c.note(q, a) {
		return nil, errC13Refused
	}
	return c.inner.(driver.QueryerContext).QueryContext(ctx, q, a)
}

var c13RegisterOnce sync.Once

// The pure-Go SQLite port returns a size class's 64 KiB arena to the kernel as
// soon as its last object is freed, so a lone connection that allocates and
// frees one page or one statement at a time pays an mmap/munmap pair each time.
// A second, idle database that keeps pages, a cache and prepared statements of
// many sizes alive keeps those arenas mapped.  Performance only.
var (
	c13BallastOnce sync.Once
	c13BallastKeep []any
)

func c13Ballast() {
	c13BallastOnce.Do(func() {
		for k := 0; k < 3; k++ {
			db, err := sql.Open("sqlite", ":memory:")
			if err != nil {
				return
			}
			db.SetMaxOpenConns(1)
			c13BallastKeep = append(c13BallastKeep, db)
			for i := 0; i < 12; i++ {
				var cols []string
				for j := 0; j <= i*3; j++ {
					cols = append(cols, fmt.Sprintf("c%d TEXT DEFAULT 'x'", j))
				}
				db.Exec(fmt.Sprintf("CREATE TABLE b%d (id INTEGER PRIMARY KEY, %s)", i, strings.Join(cols, ", ")))
				db.Exec(fmt.Sprintf("INSERT INTO b%d (id) VALUES (1), (2), (3)", i))
				db.Exec(fmt.Sprintf("CREATE INDEX bi%d ON b%d (c0)", i, i))
				if st, err := db.Prepare(fmt.Sprintf("SELECT * FROM b%d a JOIN b%d b ON a.id = b.id WHERE a.c0 = ? ORDER BY a.id LIMIT %d", i, i/2, i+1)); err == nil {
					c13BallastKeep = append(c13BallastKeep, st)
				}
			}
		}
	})
}

const (
	c13Sentinel = "c13_sentinel"
	c13Marker   = "S3NT1NEL"
)

// c13World is one in-memory SQLite database reached through the recording
// driver, with the three driver wrappers of the package built around it.
type c13World struct {
	db  *sql.DB
	dbs map[string]Database
	sq  *SQLiteDB
	pg  *PostgresDB
	my  *MySQLDB
}

func c13Open() *c13World {
	c13RegisterOnce.Do(func() {
		probe, err := sql.Open("sqlite", ":memory:")
		if err != nil {
			panic(err)
		}
		sql.Register("c13sqlite", &c13Driver{inner: probe.Driver()})
		probe.Close()
	})
	c13Ballast()
	db, err := sql.Open("c13sqlite", ":memory:?_pragma=foreign_keys(1)&_pragma=automatic_index(0)")
	if err != nil {
		panic(err)
	}
	db.SetMaxOpenConns(1)
	db.SetMaxIdleConns(1)
	db.SetConnMaxLifetime(0)
	w := &c13World{db: db}
	w.sq = &SQLiteDB{config: &Config{Driver: "sqlite"}, db: db}
	w.pg = &PostgresDB{config: &Config{Driver: "postgres"}, db: db}
	w.my = &MySQLDB{config: &Config{Driver: "mysql"}, db: db}
	w.dbs = map[string]Database{"sqlite": w.sq, "postgres": w.pg, "mysql": w.my}
	if err := w.base(); err != nil {
		panic(err)
	}
	return w
}

func (w *c13World) exec(q string, args ...any) error {
	_, err := w.db.Exec(q, args...)
	return err
}

func c13Quote(name string) string { return `"` + strings.ReplaceAll(name, `"`, `""`) + `"` }

type c13Table struct {
	Name string
	Cols []string // besides id and keep
}

// begin prepares the world for one executed case: inside a savepoint (DDL is
// transactional in SQLite) it creates the named tables, each with two rows
// (id 1 and 2).  end rolls everything back to the base state (only the
// sentinel).  If the savepoint cannot be used or rolled back (a statement of
// the case ended the transaction), the database is thrown away and reopened.
func (w *c13World) begin(tables []c13Table) {
	for attempt := 0; ; attempt++ {
		err := w.tryBegin(tables)
		if err == nil {
			return
		}
		if attempt > 0 {
			panic(fmt.Sprintf("c13: cannot prepare the world: %v", err))
		}
		w.reopen()
	}
}

func (w *c13World) reopen() {
	w.db.Close()
	nw := c13Open()
	*w = *nw
}

func (w *c13World) end() {
	if err := w.exec("ROLLBACK TO c13case"); err != nil {
		w.reopen()
		return
	}
	if err := w.exec("RELEASE c13case"); err != nil {
		w.reopen()
		return
	}
	var n int
	if err := w.db.QueryRow(`SELECT COUNT(*) FROM sqlite_master`).Scan(&n); err != nil || n != 1 {
		w.reopen()
	}
}

func (w *c13World) base() error {
	if err := w.exec("CREATE TABLE " + c13Sentinel + " (id INTEGER PRIMARY KEY, secret TEXT)"); err != nil {
		return err
	}
	return w.exec("INSERT INTO "+c13Sentinel+" (id, secret) VALUES (1, ?), (2, ?)", c13Marker+"-one", c13Marker+"-two")
}

func (w *c13World) tryBegin(tables []c13Table) error {
	if err := w.exec("SAVEPOINT c13case"); err != nil {
		return err
	}
	for _, t := range tables {
		defs := []string{`"id" INTEGER PRIMARY KEY`, `"keep" TEXT`}
		names := []string{`"id"`, `"keep"`}
		ph := []string{"?", "?"}
		for _, c := range t.Cols {
			defs = append(defs, c13Quote(c)+" TEXT")
			names = append(names, c13Quote(c))
			ph = append(ph, "'v'")
		}
		if err := w.exec("CREATE TABLE " + c13Quote(t.Name) + " (" + strings.Join(defs, ", ") + ")"); err != nil {
			return err
		}
		row := "(" + strings.Join(ph, ", ") + ")"
		ins := "INSERT INTO " + c13Quote(t.Name) + " (" + strings.Join(names, ", ") + ") VALUES " + row + ", " + row
		if err := w.exec(ins, 1, "k1", 2, "k2"); err != nil {
			return err
		}
	}
	return nil
}

// c13Snap is what the execution oracle compares before/after.
type c13Snap struct {
	Sentinel string
	Master   map[string]string   // sqlite_master rows grouped by lower(tbl_name)
	Cols     map[string][]string // lower(table) -> column names
	Rows     map[string][]string // lower(table) -> dumped rows ordered by id
}

func (w *c13World) dump(q string, args ...any) string {
	rows, err := w.db.Query(q, args...)
	if err != nil {
		return "ERR: " + err.Error()
	}
	defer rows.Close()
	cols, _ := rows.Columns()
	var b strings.Builder
	for rows.Next() {
		vals := make([]any, len(cols))
		ptrs := make([]any, len(cols))
		for i := range vals {
			ptrs[i] = &vals[i]
		}
		if err := rows.Scan(ptrs...); err != nil {
			return "ERR: " + err.Error()
		}
		for i, v := range vals {
			if bs, ok := v.([]byte); ok {
				v = "b:" + string(bs)
			}
			fmt.Fprintf(&b, "%s=%#v|", cols[i], v)
		}
		b.WriteByte('\n')
	}
	return b.String()
}

func (w *c13World) dumpLines(q string, args ...any) []string {
	s := w.dump(q, args...)
	if s == "" {
		return nil
	}
	return strings.Split(strings.TrimSuffix(s, "\n"), "\n")
}

func (w *c13World) snap(named []string) c13Snap {
	was := c13TheRec.on
	c13TheRec.on = false
	defer func() { c13TheRec.on = was }()
	sn := c13Snap{Master: map[string]string{}, Cols: map[string][]string{}, Rows: map[string][]string{}}
	sn.Sentinel = w.dump("SELECT id, secret FROM " + c13Sentinel + " ORDER BY id")
	rows, err := w.db.Query(`SELECT type, name, lower(tbl_name), IFNULL(sql,'') FROM sqlite_master ORDER BY type, name`)
	if err != nil {
		sn.Master["?"] = "ERR: " + err.Error()
	} else {
		for rows.Next() {
			var typ, name, tbl, q string
			if err := rows.Scan(&typ, &name, &tbl, &q); err != nil {
				sn.Master["?"] = "ERR: " + err.Error()
				break
			}
			sn.Master[tbl] += typ + " " + name + " " + q + "\n"
		}
		rows.Close()
	}
	for _, t := range named {
		lt := strings.ToLower(t)
		if _, ok := sn.Master[lt]; !ok {
			continue
		}
		for _, l := range w.dumpLines(`SELECT name FROM pragma_table_info(?) ORDER BY cid`, t) {
			sn.Cols[lt] = append(sn.Cols[lt], strings.TrimSuffix(strings.TrimPrefix(l, `name="`), `"|`))
		}
		sn.Rows[lt] = w.dumpLines("SELECT * FROM " + c13Quote(t) + " ORDER BY 1")
	}
	return sn
}

func c13SortedKeys(m map[string]string) []string {
	ks := make([]string, 0, len(m))
	for k := range m {
		ks = append(ks, k)
	}
	sort.Strings(ks)
	return ks
}
