package database

// C13 — a small, deliberately strict SQL tokenizer used only as the structural
// oracle.  It follows the lexical rules that PostgreSQL, MySQL (ANSI quoting of
// string literals) and SQLite share: '..' string with '' escape, ".." and `..`
// quoted identifiers with doubled-quote escape, -- and /* */ comments, $n ? ?n
// :x @x placeholders.  Everything it does not know (NUL, control bytes, bytes
// >= 0x80, backslash, #, brackets …) is a "bad" token, so that an emitted
// statement containing such a byte never compares equal to a benign shape.

import "strings"

type c13Tok struct {
	K byte   // w word, q quoted identifier, s string, c comment, p placeholder, n number, o operator, x bad, or the punctuation itself ( ) , . ;
	T string // text (for q: the unescaped content)
	Q byte   // for q: the quote character
}

func c13IsLetter(c byte) bool { return c >= 'a' && c <= 'z' || c >= 'A' && c <= 'Z' || c == '_' }
func c13IsDigit(c byte) bool  { return c >= '0' && c <= '9' }

func c13Tokenize(s string) []c13Tok {
	var out []c13Tok
	i := 0
	for i < len(s) {
		c := s[i]
		switch {
		case c == ' ' || c == '\t' || c == '\n' || c == '\r' || c == '\f':
			i++
		case c == '-' && i+1 < len(s) && s[i+1] == '-':
			j := strings.IndexByte(s[i:], '\n')
			if j < 0 {
				j = len(s) - i
			}
			out = append(out, c13Tok{K: 'c', T: s[i : i+j]})
			i += j
		case c == '/' && i+1 < len(s) && s[i+1] == '*':
			j := strings.Index(s[i+2:], "*/")
			if j < 0 {
				out = append(out, c13Tok{K: 'c', T: s[i:]})
				i = len(s)
			} else {
				out = append(out, c13Tok{K: 'c', T: s[i : i+2+j+2]})
				i += 2 + j + 2
			}
		case c == '\'' || c == '"' || c == '`':
			j := i + 1
			var b strings.Builder
			closed := false
			for j < len(s) {
				if s[j] == c {
					if j+1 < len(s) && s[j+1] == c {
						b.WriteByte(c)
						j += 2
						continue
					}
					closed = true
					j++
					break
				}
				b.WriteByte(s[j])
				j++
			}
			if !closed {
				out = append(out, c13Tok{K: 'x', T: s[i:]})
				i = len(s)
				break
			}
			if c == '\'' {
				out = append(out, c13Tok{K: 's', T: b.String()})
			} else {
				out = append(out, c13Tok{K: 'q', T: b.String(), Q: c})
			}
			i = j
		case c == '$' || c == '?' || c == ':' || c == '@':
			j := i + 1
			for j < len(s) && (c13IsLetter(s[j]) || c13IsDigit(s[j])) {
				j++
			}
			if j == i+1 && c != '?' {
				// "@>" and friends are operators
				if c == '@' && j < len(s) && s[j] == '>' {
					out = append(out, c13Tok{K: 'o', T: "@>"})
					i = j + 1
					break
				}
				out = append(out, c13Tok{K: 'x', T: string(c)})
				i = j
				break
			}
			out = append(out, c13Tok{K: 'p', T: s[i:j]})
			i = j
		case c13IsLetter(c):
			j := i + 1
			for j < len(s) && (c13IsLetter(s[j]) || c13IsDigit(s[j])) {
				j++
			}
			out = append(out, c13Tok{K: 'w', T: s[i:j]})
			i = j
		case c13IsDigit(c):
			j := i + 1
			for j < len(s) && (c13IsDigit(s[j]) || c13IsLetter(s[j]) || s[j] == '.') {
				j++
			}
			out = append(out, c13Tok{K: 'n', T: s[i:j]})
			i = j
		case c == '(' || c == ')' || c == ',' || c == '.' || c == ';':
			out = append(out, c13Tok{K: c, T: string(c)})
			i++
		case strings.IndexByte("=<>!+-*/%&|~^", c) >= 0:
			j := i + 1
			for j < len(s) && strings.IndexByte("=<>!~|&", s[j]) >= 0 {
				j++
			}
			out = append(out, c13Tok{K: 'o', T: s[i:j]})
			i = j
		default:
			out = append(out, c13Tok{K: 'x', T: string(c)})
			i++
		}
	}
	return out
}

// c13Shape abstracts a token list: identifiers' contents, literal contents,
// numbers and placeholder numbers are dropped; key words, operators and
// punctuation are kept.
func c13Shape(toks []c13Tok) string {
	var b strings.Builder
	for i, t := range toks {
		if i > 0 {
			b.WriteByte(' ')
		}
		switch t.K {
		case 'w':
			b.WriteString(strings.ToUpper(t.T))
		case 'q':
			b.WriteString("<id>")
		case 's':
			b.WriteString("<str>")
		case 'c':
			b.WriteString("<comment>")
		case 'p':
			b.WriteString("<param>")
		case 'n':
			b.WriteString("<num>")
		case 'o':
			b.WriteString(t.T)
		case 'x':
			b.WriteString("<bad>")
		default:
			b.WriteByte(t.K)
		}
	}
	return b.String()
}

// c13SafeIdent is the safe identifier grammar of the property, written by hand
// (not with the regular expression the code under test uses).
func c13SafeIdent(s string) bool {
	if s == "" {
		return false
	}
	for i := 0; i < len(s); i++ {
		c := s[i]
		if c13IsLetter(c) || (i > 0 && c13IsDigit(c)) {
			continue
		}
		return false
	}
	return true
}
