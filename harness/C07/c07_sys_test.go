package main

// C07 systems under test: a generated GlyphLang program is parsed by the real
// parser and wired exactly as startServer does (setupRoutes -> ServeMux ->
// createHandler -> loggingMiddleware), once in compiled and once in
// interpreted mode, and driven with httptest recorders.

import (
	"encoding/json"
	"fmt"
	"io"
	"log"
	"net/http"
	"net/http/httptest"
	"os"
	"runtime"
	"strings"

	"github.com/fatih/color"
)

var c07Modes = []string{"compiled", "interpreted"}

type c07Sys struct {
	h    http.Handler
	stop func()
}

func c07Build(src, mode string) (*c07Sys, error) {
	module, err := parseSource(src)
	if err != nil {
		return nil, fmt.Errorf("parse: %w", err)
	}
	s := &c07Sys{stop: func() {}}
	// what startServer does, minus ListenAndServe
	useCompiler, _, wsServer, router, err := setupRoutes(module, "/nonexistent/c07.glyph", mode == "interpreted")
	if wsServer != nil {
		s.stop = func() { runtime.Gosched(); wsServer.Shutdown() }
	}
	if err != nil {
		s.stop()
		return nil, err
	}
	if useCompiler != (mode == "compiled") {
		s.stop()
		return nil, fmt.Errorf("mode is not %s", mode)
	}
	mux := http.NewServeMux()
	mux.HandleFunc("/", createHandler(router))
	if err := registerStaticRoutes(mux, module, "/nonexistent/c07.glyph", 0); err != nil {
		s.stop()
		return nil, err
	}
	s.h = loggingMiddleware(mux)
	return s, nil
}

type c07Obs struct {
	Status int
	Raw    string
	JSON   any  // the response body as one JSON value (numbers keep their spelling)
	IsJSON bool // Raw is exactly one JSON value
	Ran    bool // the body-side marker {ran: true, ...} is in the response
	Panic  string
}

func (o c07Obs) String() string {
	if o.Panic != "" {
		return "panic: " + o.Panic
	}
	raw := strings.TrimSpace(o.Raw)
	if len(raw) > 160 {
		raw = raw[:160] + "..."
	}
	return fmt.Sprintf("status %d, body %s", o.Status, raw)
}

// field returns a member of the marker object.
func (o c07Obs) field(name string) (any, bool) {
	m, ok := o.JSON.(map[string]any)
	if !ok {
		return nil, false
	}
	v, ok := m[name]
	return v, ok
}

func (s *c07Sys) do(method, target, ct, body string) (o c07Obs) {
	defer func() {
		if p := recover(); p != nil {
			o.Panic = fmt.Sprint(p)
		}
	}()
	var rd io.Reader
	if body != "" {
		rd = strings.NewReader(body)
	}
	rq := httptest.NewRequest(method, target, rd)
	if ct != "" {
		rq.Header.Set("Content-Type", ct)
	}
	rec := httptest.NewRecorder()
	s.h.ServeHTTP(rec, rq)
	o.Status = rec.Code
	o.Raw = rec.Body.String()
	o.JSON, o.IsJSON = c07Parse(o.Raw)
	if m, ok := o.JSON.(map[string]any); ok {
		if r, ok := m["ran"].(bool); ok && r {
			o.Ran = true
		}
	}
	if !o.Ran && strings.Contains(o.Raw, `"ran"`) {
		o.Ran = true // a marker we cannot read is still a marker
	}
	return o
}

func c07Quiet() {
	log.SetOutput(io.Discard)
	color.Output = io.Discard
	if f, err := os.OpenFile(os.DevNull, os.O_WRONLY, 0); err == nil {
		os.Stdout = f
	}
}

var _ = json.Marshal
