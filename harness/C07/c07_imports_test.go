package main

// C07, imported types: a module imports a type under another name (`from "./models" import { User as Account }`)
// while declaring a type of the imported one's ORIGINAL name itself, with different field types.  Each route must keep
// validating against its own declaration whatever was validated before on the same server: every order of the four
// (route, document) requests is sent to one server per order.

import (
	"fmt"
	"net/http"
	"net/http/httptest"
	"os"
	"path/filepath"
	"strings"

	"github.com/glyphlang/glyph/internal/verif/vk"
)

type c07ImportCase struct {
	Order []int `json:"order"` // indices into c07ImportReqs, all sent to one server; the last one is the reported one
}

const c07ImportModels = ": User {\n  id: int!\n  tags: [str]\n}\n"

const c07ImportMain = `from "./models" import { User as Account }

: User {
  id: str!
  tags: [int]
}

@ POST /local {
  < input: User
  > {ran: true, route: "local", id: input.id}
}

@ POST /remote {
  < input: Account
  > {ran: true, route: "remote", id: input.id}
}
`

// (path, body, conforms)
var c07ImportReqs = []struct {
	Path, Body string
	OK         bool
}{
	{"/local", `{"id":"u-1","tags":[1,2]}`, true},
	{"/local", `{"id":7,"tags":["a"]}`, false},
	{"/remote", `{"id":7,"tags":["a"]}`, true},
	{"/remote", `{"id":"u-1","tags":[1,2]}`, false},
}

func c07ImportsBuild(mode string) (http.Handler, func(), error) {
	dir, err := os.MkdirTemp("/var/tmp", "C07-imports-")
	if err != nil {
		return nil, nil, err
	}
	cleanup := func() { os.RemoveAll(dir) }
	if err := os.WriteFile(filepath.Join(dir, "models.glyph"), []byte(c07ImportModels), 0o644); err != nil {
		cleanup()
		return nil, nil, err
	}
	mainPath := filepath.Join(dir, "main.glyph")
	if err := os.WriteFile(mainPath, []byte(c07ImportMain), 0o644); err != nil {
		cleanup()
		return nil, nil, err
	}
	module, err := parseSource(c07ImportMain)
	if err != nil {
		cleanup()
		return nil, nil, fmt.Errorf("parse: %w", err)
	}
	_, _, wsServer, router, err := setupRoutes(module, mainPath, mode == "interpreted")
	stop := cleanup
	if wsServer != nil {
		stop = func() { wsServer.Shutdown(); cleanup() }
	}
	if err != nil {
		stop()
		return nil, nil, err
	}
	mux := http.NewServeMux()
	mux.HandleFunc("/", createHandler(router))
	return loggingMiddleware(mux), stop, nil
}

// c07ImportsRun sends the requests of the order to one fresh server and judges the last one.
func c07ImportsRun(mode string, order []int) (kind, detail string, built bool) {
	h, stop, err := c07ImportsBuild(mode)
	if err != nil {
		return "", err.Error(), false
	}
	defer stop()
	for k, ri := range order {
		rq := c07ImportReqs[ri]
		req := httptest.NewRequest("POST", rq.Path, strings.NewReader(rq.Body))
		req.Header.Set("Content-Type", "application/json")
		rec := httptest.NewRecorder()
		h.ServeHTTP(rec, req)
		if k != len(order)-1 {
			continue
		}
		ran := strings.Contains(rec.Body.String(), `"ran"`)
		switch {
		case rq.OK && !(rec.Code >= 200 && rec.Code < 300 && ran):
			return "conforming-rejected", fmt.Sprintf("POST %s %s conforms to the route's declared type but is answered %d %s", rq.Path, rq.Body, rec.Code, strings.TrimSpace(rec.Body.String())), true
		case !rq.OK && (ran || rec.Code < 400 || rec.Code > 499):
			return "nonconforming-accepted", fmt.Sprintf("POST %s %s violates the route's declared type but is answered %d %s", rq.Path, rq.Body, rec.Code, strings.TrimSpace(rec.Body.String())), true
		}
	}
	return "", "", true
}

func c07ImportsPart(p vk.Params, res *vk.Result, base int) {
	// every non-empty sequence without repetition of the four requests (64 orders), per mode
	var orders [][]int
	var rec func(cur []int)
	rec = func(cur []int) {
		if len(cur) > 0 {
			orders = append(orders, append([]int{}, cur...))
		}
		for i := range c07ImportReqs {
			used := false
			for _, c := range cur {
				used = used || c == i
			}
			if !used {
				rec(append(cur, i))
			}
		}
	}
	rec(nil)
	res.Bounds["imported_type_request_orders"] = len(orders)
	notBuilt := 0
	for oi, ord := range orders {
		if !p.Mine(base + oi) {
			continue
		}
		for _, mode := range c07Modes {
			kind, detail, built := c07ImportsRun(mode, ord)
			if !built {
				notBuilt++
				continue
			}
			res.Evaluations++
			res.Distinct++
			if kind != "" {
				last := c07ImportReqs[ord[len(ord)-1]]
				var before []string
				for _, ri := range ord[:len(ord)-1] {
					before = append(before, c07ImportReqs[ri].Path)
				}
				key := fmt.Sprintf("%s/imports/%s/%s-after-%s", mode, kind, strings.TrimPrefix(last.Path, "/"), strings.Join(before, ","))
				res.Violate(key, fmt.Sprintf("[%s] module importing `User as Account` next to its own User, requests %v on one server: %s", mode, ord, detail),
					c07Case{Mode: mode, Part: "imports", Imports: &c07ImportCase{Order: ord}})
			}
		}
	}
	if notBuilt > 0 {
		res.Count("imports_programs_not_built", int64(notBuilt))
	}
}
