package main

// C07 reference: declared types, JSON documents, the conformance predicate and
// the expected echo, written from the property statement and from
// docs/LANGUAGE_SPECIFICATION.md §2.3 (`?` nullable, no `!` = optional),
// §2.4 (`!` = required, non-nullable) and §2.8 (a default supplies the value of
// a field that is not given; `!` with a default still means "cannot be null").
// Nothing in this file looks at the implementation.

import (
	"bytes"
	"encoding/json"
	"fmt"
	"io"
	"strings"
)

// ---------------------------------------------------------------------------
// declared types

type c07Type struct {
	K    string    `json:"k"`              // int str bool float list array named opt union
	Elem *c07Type  `json:"elem,omitempty"` // list, array, opt
	Name string    `json:"name,omitempty"` // named
	Alts []c07Type `json:"alts,omitempty"` // union
}

var (
	c07Int   = c07Type{K: "int"}
	c07Str   = c07Type{K: "str"}
	c07Bool  = c07Type{K: "bool"}
	c07Float = c07Type{K: "float"}
)

func c07List(e c07Type) c07Type  { return c07Type{K: "list", Elem: &e} }
func c07Array(e c07Type) c07Type { return c07Type{K: "array", Elem: &e} }
func c07Opt(e c07Type) c07Type   { return c07Type{K: "opt", Elem: &e} }
func c07Named(n string) c07Type  { return c07Type{K: "named", Name: n} }
func c07Union(a ...c07Type) c07Type {
	return c07Type{K: "union", Alts: a}
}

// Src renders the type as GlyphLang source.
func (t c07Type) Src() string {
	switch t.K {
	case "list":
		return "List[" + t.Elem.Src() + "]"
	case "array":
		return "[" + t.Elem.Src() + "]"
	case "opt":
		return t.Elem.Src() + "?"
	case "named":
		return t.Name
	case "union":
		var s []string
		for _, a := range t.Alts {
			s = append(s, a.Src())
		}
		return strings.Join(s, " | ")
	}
	return t.K
}

// Ctor is the type constructor, used in finding keys.
func (t c07Type) Ctor() string {
	switch t.K {
	case "list":
		return "List[" + t.Elem.Ctor() + "]"
	case "array":
		return "[" + t.Elem.Ctor() + "]"
	case "opt":
		return t.Elem.Ctor() + "?"
	case "named":
		return "Named"
	case "union":
		var s []string
		for _, a := range t.Alts {
			s = append(s, a.Ctor())
		}
		return strings.Join(s, "|")
	}
	return t.K
}

type c07Field struct {
	Name string  `json:"name"`
	T    c07Type `json:"t"`
	Req  bool    `json:"req,omitempty"`
	Def  string  `json:"def,omitempty"` // default literal (valid both as GlyphLang and as JSON), "" = none
}

func (f c07Field) Src() string {
	s := "  " + f.Name + ": " + f.T.Src()
	if f.Req {
		s += "!"
	}
	if f.Def != "" {
		s += " = " + f.Def
	}
	return s
}

// Spec is the field declaration without its name (finding keys).
func (f c07Field) Spec() string {
	s := f.T.Ctor()
	if f.Req {
		s += "!"
	}
	if f.Def != "" {
		s += "=def"
	}
	return s
}

type c07TypeDef struct {
	Name   string     `json:"name"`
	Fields []c07Field `json:"fields"`
}

func (d c07TypeDef) Src() string {
	var b strings.Builder
	fmt.Fprintf(&b, ": %s {\n", d.Name)
	for _, f := range d.Fields {
		b.WriteString(f.Src() + "\n")
	}
	b.WriteString("}\n")
	return b.String()
}

type c07Defs []c07TypeDef

func (ds c07Defs) get(name string) (c07TypeDef, bool) {
	for _, d := range ds {
		if d.Name == name {
			return d, true
		}
	}
	return c07TypeDef{}, false
}

// needsBody: the type has a required field that no default can supply, so
// "no JSON object at all" cannot conform to it.
func (ds c07Defs) needsBody(d c07TypeDef) bool {
	for _, f := range d.Fields {
		if f.Req && f.Def == "" {
			return true
		}
	}
	return false
}

// ---------------------------------------------------------------------------
// JSON values (numbers keep their spelling)

func c07Parse(text string) (any, bool) {
	dec := json.NewDecoder(strings.NewReader(text))
	dec.UseNumber()
	var v any
	if err := dec.Decode(&v); err != nil {
		return nil, false
	}
	// exactly one value, then only white space
	if _, err := dec.Token(); err != io.EOF {
		return nil, false
	}
	return v, true
}

// c07ParseLeading parses the first JSON value of text and reports whether
// non-space text follows it.
func c07ParseLeading(text string) (v any, ok, trailing bool) {
	dec := json.NewDecoder(strings.NewReader(text))
	dec.UseNumber()
	if err := dec.Decode(&v); err != nil {
		return nil, false, false
	}
	rest, _ := io.ReadAll(dec.Buffered())
	return v, true, len(bytes.TrimSpace(rest)) > 0 || dec.More()
}

func c07MustParse(text string) any {
	v, ok := c07Parse(text)
	if !ok {
		panic("harness: bad JSON " + text)
	}
	return v
}

func c07JSON(v any) string {
	b, err := json.Marshal(v)
	if err != nil {
		return fmt.Sprintf("<%v>", err)
	}
	return string(b)
}

// value classes (finding keys)
func c07Class(v any) string {
	switch x := v.(type) {
	case nil:
		return "null"
	case json.Number:
		if c07IntSpelling(string(x)) {
			return "int"
		}
		if f, err := x.Float64(); err == nil && f == float64(int64(f)) {
			return "wholefloat"
		}
		return "frac"
	case string:
		return "str"
	case bool:
		return "bool"
	case []any:
		return "array"
	case map[string]any:
		return "object"
	}
	return fmt.Sprintf("%T", v)
}

func c07IntSpelling(s string) bool { return !strings.ContainsAny(s, ".eE") }

// c07Equal: JSON equality, numbers by value.
func c07Equal(a, b any) bool {
	switch x := a.(type) {
	case nil:
		return b == nil
	case json.Number:
		y, ok := b.(json.Number)
		if !ok {
			return false
		}
		fx, e1 := x.Float64()
		fy, e2 := y.Float64()
		return e1 == nil && e2 == nil && fx == fy
	case string:
		y, ok := b.(string)
		return ok && x == y
	case bool:
		y, ok := b.(bool)
		return ok && x == y
	case []any:
		y, ok := b.([]any)
		if !ok || len(x) != len(y) {
			return false
		}
		for i := range x {
			if !c07Equal(x[i], y[i]) {
				return false
			}
		}
		return true
	case map[string]any:
		y, ok := b.(map[string]any)
		if !ok || len(x) != len(y) {
			return false
		}
		for k, v := range x {
			w, ok := y[k]
			if !ok || !c07Equal(v, w) {
				return false
			}
		}
		return true
	}
	return false
}

// ---------------------------------------------------------------------------
// conformance

type c07Verdict int

const (
	c07Yes    c07Verdict = iota // conforms
	c07Unspec                   // the statement / specification does not decide
	c07No                       // violates the declaration
)

func (v c07Verdict) String() string { return [...]string{"conforms", "unspecified", "violates"}[v] }

// c07ConfValue: does the non-null value v conform to type t?  why names the rule
// that decided No / Unspec: <kind>/<type constructor><-<value class>.
func c07ConfValue(v any, t c07Type, ds c07Defs) (c07Verdict, string) {
	why := func(kind string) string { return kind + "/" + t.Ctor() + "<-" + c07Class(v) }
	switch t.K {
	case "int":
		n, ok := v.(json.Number)
		if !ok {
			return c07No, why("wrong-type")
		}
		if c07IntSpelling(string(n)) {
			return c07Yes, ""
		}
		if f, err := n.Float64(); err == nil && f == float64(int64(f)) {
			// 1.0 / 1e0 for an int: JSON has one number type; not decided
			return c07Unspec, why("whole-number-spelled-as-float")
		}
		return c07No, why("wrong-type")
	case "float":
		if _, ok := v.(json.Number); ok {
			return c07Yes, "" // every JSON number is a float (spec: int promotes to float)
		}
		return c07No, why("wrong-type")
	case "str":
		if _, ok := v.(string); ok {
			return c07Yes, ""
		}
		return c07No, why("wrong-type")
	case "bool":
		if _, ok := v.(bool); ok {
			return c07Yes, ""
		}
		return c07No, why("wrong-type")
	case "list", "array":
		arr, ok := v.([]any)
		if !ok {
			return c07No, why("wrong-type")
		}
		res, rwhy := c07Yes, ""
		for _, e := range arr {
			var ev c07Verdict
			var ew string
			if e == nil {
				ev, ew = c07Unspec, "null-element"
			} else {
				ev, ew = c07ConfValue(e, *t.Elem, ds)
			}
			if ev > res {
				res, rwhy = ev, ew
			}
		}
		if res != c07Yes {
			return res, "element-of-" + strings.SplitN(t.Ctor(), "[", 2)[0] + "[]:" + c07Coarse(rwhy)
		}
		return c07Yes, ""
	case "opt":
		return c07ConfValue(v, *t.Elem, ds) // null is handled by the caller
	case "union":
		best, bwhy := c07No, why("wrong-type")
		for _, a := range t.Alts {
			av, aw := c07ConfValue(v, a, ds)
			if av < best {
				best, bwhy = av, aw
			}
		}
		if best == c07No {
			return c07No, why("wrong-type")
		}
		return best, bwhy
	case "named":
		obj, ok := v.(map[string]any)
		if !ok {
			return c07No, why("wrong-type")
		}
		d, ok := ds.get(t.Name)
		if !ok {
			return c07Unspec, "undeclared-type"
		}
		ov, ow := c07ConfObject(obj, d, ds)
		if ov != c07Yes {
			return ov, "nested:" + c07Coarse(ow)
		}
		return c07Yes, ""
	}
	return c07Unspec, "unknown-type"
}

// c07Coarse drops the type/value detail of a reason found below the top level
// (finding keys name the detail only for the field itself).
func c07Coarse(why string) string {
	parts := strings.Split(why, "+")
	for i, p := range parts {
		if j := strings.Index(p, "/"); j >= 0 && !strings.HasPrefix(p, "element-of-") && !strings.HasPrefix(p, "nested:") {
			parts[i] = p[:j]
		}
	}
	return strings.Join(parts, "+")
}

// c07ConfField: verdict for one field of an object (present says whether the
// key exists).
func c07ConfField(v any, present bool, f c07Field, ds c07Defs) (c07Verdict, string) {
	switch {
	case !present:
		if f.Req && f.Def == "" {
			return c07No, "required-missing"
		}
		return c07Yes, ""
	case v == nil:
		if f.Req {
			if f.Def != "" {
				return c07No, "required-null(has-default)"
			}
			return c07No, "required-null"
		}
		return c07Yes, "" // no `!`: optional, nullable
	}
	return c07ConfValue(v, f.T, ds)
}

// c07ConfObject: the worst verdict over the declared fields, in declaration
// order.  Keys that are not declared are not judged (none are generated).
func c07ConfObject(obj map[string]any, d c07TypeDef, ds c07Defs) (c07Verdict, string) {
	res, why := c07Yes, ""
	var whys []string
	for _, f := range d.Fields {
		v, present := obj[f.Name]
		fv, fw := c07ConfField(v, present, f, ds)
		if fv > res {
			res, whys = fv, nil
		}
		if fv == res && fv != c07Yes {
			whys = append(whys, fw)
		}
	}
	if res != c07Yes {
		why = strings.Join(whys, "+")
	}
	return res, why
}

// ---------------------------------------------------------------------------
// the echo a conforming request must produce

// c07WithDefaults: the document with the declared default inserted at exactly
// the absent top-level fields.
func c07WithDefaults(doc map[string]any, d c07TypeDef) map[string]any {
	out := map[string]any{}
	for k, v := range doc {
		out[k] = v
	}
	for _, f := range d.Fields {
		if _, present := doc[f.Name]; !present && f.Def != "" {
			out[f.Name] = c07MustParse(f.Def)
		}
	}
	return out
}

// c07EchoDiff compares the `input` the body saw with the request document.
// Top level: defaults at exactly the absent fields.  Inside nested objects the
// statement does not say whether defaults of the nested type are inserted, so
// both are accepted there.  An absent field without default may be shown as
// null.  Returns "" or what differs.
func c07EchoDiff(echo any, doc map[string]any, d c07TypeDef, ds c07Defs, top bool) string {
	eo, ok := echo.(map[string]any)
	if !ok {
		return "input-is-" + c07Class(echo)
	}
	declared := map[string]bool{}
	for _, f := range d.Fields {
		declared[f.Name] = true
		dv, present := doc[f.Name]
		ev, epresent := eo[f.Name]
		switch {
		case present:
			if !epresent {
				return "field-lost/" + f.Spec() + "<-" + c07Class(dv)
			}
			if sub, isObj := dv.(map[string]any); isObj && f.T.K == "named" {
				if nd, ok := ds.get(f.T.Name); ok {
					if diff := c07EchoDiff(ev, sub, nd, ds, false); diff != "" {
						return "nested:" + diff
					}
					continue
				}
			}
			if !c07Equal(ev, dv) {
				if f.Def != "" && c07Equal(ev, c07MustParse(f.Def)) {
					return "default-replaced-present-value/" + f.Spec() + "<-" + c07Class(dv)
				}
				return "field-changed/" + f.Spec() + "<-" + c07Class(dv)
			}
		case f.Def != "":
			if !epresent {
				if top {
					return "default-not-applied/" + f.Spec()
				}
				continue
			}
			if !c07Equal(ev, c07MustParse(f.Def)) {
				return "wrong-default-value/" + f.Spec()
			}
		default:
			if epresent && ev != nil {
				return "absent-field-has-value/" + f.Spec()
			}
		}
	}
	for k := range eo {
		if !declared[k] {
			if _, inDoc := doc[k]; !inDoc {
				return "extra-field"
			}
		}
	}
	return ""
}
