package main

// Verification harness for C07 (declared data contracts are enforced at the
// boundary).  Injected into cmd/glyph so that every request goes through the
// handler chain the CLI assembles, in compiled and in interpreted mode.
//
// Three enumerated spaces, all bounded-exhaustive:
//
//	body    type definitions with 1-2 (thorough: 3) fields  x  JSON documents
//	        built from a per-field value alphabet (absent, null, right-typed,
//	        every wrong type, whole number spelled as float, zero values),
//	        plus non-documents (empty, array, scalar, null, truncated, not
//	        JSON, trailing text) x Content-Type (none, json, json;charset,
//	        text/plain); route `< input: T` answering {ran: true, input: input}
//	query   1-2 typed query declarations (int float bool str int[] str[],
//	        required, default)  x  raw values (absent, 1, x, 1.5, empty, true,
//	        -3, repeated); route answering {ran: true, q: q, query: query}
//	return  declared return types  x  returned shapes (literal, via a variable,
//	        and a JSON value echoed from the request)
//
// Oracle: c07_ref_test.go (conformance predicate, expected echo) and the three
// c07Expect* functions below, written from the property statement.  Where the
// statement is silent both outcomes are accepted (see spec.json assumptions).

import (
	"encoding/json"
	"fmt"
	"net/url"
	"os"
	"regexp"
	"sort"
	"strconv"
	"strings"
	"testing"

	"github.com/glyphlang/glyph/internal/verif/vk"
)

// ---------------------------------------------------------------------------
// cases

type c07QDecl struct {
	Name string `json:"name"`
	T    string `json:"t"` // int float bool str int[] str[]
	Req  bool   `json:"req,omitempty"`
	Def  string `json:"def,omitempty"`
}

func (d c07QDecl) Src() string {
	s := "  ? " + d.Name + ": " + d.T
	if d.Req {
		s += "!"
	}
	if d.Def != "" {
		s += " = " + d.Def
	}
	return s
}

func (d c07QDecl) Spec() string {
	s := d.T
	if d.Req {
		s += "!"
	}
	if d.Def != "" {
		s += "=def"
	}
	return s
}

type c07Case struct {
	Part string `json:"part"` // body | query | return
	Mode string `json:"mode"` // compiled | interpreted
	Key  string `json:"key,omitempty"`
	// imports (c07_imports_test.go)
	Imports *c07ImportCase `json:"imports,omitempty"`
	// body
	Defs   c07Defs `json:"defs,omitempty"` // the input / return type is "T" where one is needed
	Method string  `json:"method,omitempty"`
	CT     string  `json:"ct,omitempty"`
	Body   string  `json:"body,omitempty"`
	// query
	Decls []c07QDecl `json:"decls,omitempty"`
	Vals  [][]string `json:"vals,omitempty"` // per declaration: raw values, null = absent
	// return
	Ret   *c07Type `json:"ret,omitempty"`
	Shape string   `json:"shape,omitempty"` // JSON text of the returned value
	Via   string   `json:"via,omitempty"`   // literal | variable | echo
}

func (c c07Case) String() string {
	switch c.Part {
	case "body":
		return fmt.Sprintf("[%s] %s route `%s /t {< input: T ...}` <- Content-Type %q body %s", c.Mode, c07DefsOneLine(c.Defs), c.Method, c.CT, c07Show(c.Body))
	case "query":
		var ds []string
		for _, d := range c.Decls {
			ds = append(ds, strings.TrimSpace(d.Src()))
		}
		return fmt.Sprintf("[%s] route `GET /q {%s}` <- GET %s", c.Mode, strings.Join(ds, "; "), c.target())
	}
	return fmt.Sprintf("[%s] %s route `-> %s` returning %s (%s)", c.Mode, c07DefsOneLine(c.Defs), c.Ret.Src(), c.Shape, c.Via)
}

func c07Show(s string) string {
	if s == "" {
		return "<empty>"
	}
	return s
}

func c07DefsOneLine(ds c07Defs) string {
	var out []string
	for _, d := range ds {
		var fs []string
		for _, f := range d.Fields {
			fs = append(fs, strings.TrimSpace(f.Src()))
		}
		out = append(out, ": "+d.Name+" {"+strings.Join(fs, ", ")+"}")
	}
	return strings.Join(out, " ")
}

func (c c07Case) inputType() c07TypeDef {
	d, _ := c.Defs.get("T")
	return d
}

// source renders the program of the case.
func (c c07Case) source() string {
	var b strings.Builder
	for _, d := range c.Defs {
		b.WriteString(d.Src() + "\n")
	}
	switch c.Part {
	case "body":
		fmt.Fprintf(&b, "@ %s /t {\n  < input: T\n  > {ran: true, input: input}\n}\n", c.Method)
	case "query":
		b.WriteString("@ GET /q {\n")
		for _, d := range c.Decls {
			b.WriteString(d.Src() + "\n")
		}
		b.WriteString("  > {ran: true")
		for _, d := range c.Decls {
			fmt.Fprintf(&b, ", %s: %s", d.Name, d.Name)
		}
		b.WriteString(", query: query}\n}\n")
	case "return":
		switch c.Via {
		case "literal":
			fmt.Fprintf(&b, "@ GET /r -> %s {\n  > %s\n}\n", c.Ret.Src(), c07Glyph(c07MustParse(c.Shape)))
		case "variable":
			fmt.Fprintf(&b, "@ GET /r -> %s {\n  $ v = %s\n  > v\n}\n", c.Ret.Src(), c07Glyph(c07MustParse(c.Shape)))
		case "echo":
			fmt.Fprintf(&b, "@ POST /r -> %s {\n  > input.v\n}\n", c.Ret.Src())
		}
	}
	return b.String()
}

// c07Glyph renders a JSON value as a GlyphLang literal.
func c07Glyph(v any) string {
	switch x := v.(type) {
	case []any:
		var s []string
		for _, e := range x {
			s = append(s, c07Glyph(e))
		}
		return "[" + strings.Join(s, ", ") + "]"
	case map[string]any:
		var ks []string
		for k := range x {
			ks = append(ks, k)
		}
		sort.Strings(ks)
		var s []string
		for _, k := range ks {
			s = append(s, k+": "+c07Glyph(x[k]))
		}
		return "{" + strings.Join(s, ", ") + "}"
	}
	return c07JSON(v)
}

func (c c07Case) target() string {
	var parts []string
	for i, d := range c.Decls {
		for _, v := range c.Vals[i] {
			parts = append(parts, d.Name+"="+url.QueryEscape(v))
		}
	}
	if len(parts) == 0 {
		return "/q"
	}
	return "/q?" + strings.Join(parts, "&")
}

func (c c07Case) run(s *c07Sys) c07Obs {
	switch c.Part {
	case "body":
		return s.do(c.Method, "/t", c.CT, c.Body)
	case "query":
		return s.do("GET", c.target(), "", "")
	}
	if c.Via == "echo" {
		return s.do("POST", "/r", "application/json", `{"v": `+c.Shape+`}`)
	}
	return s.do("GET", "/r", "", "")
}

// ---------------------------------------------------------------------------
// body: expectation and judgement

func c07StrictCT(ct string) bool {
	return ct == "application/json" || strings.HasPrefix(ct, "application/json;")
}

type c07Exp struct {
	Unjudged bool
	Accept   bool // running the body (with the right data) is allowed
	Reject   bool // a refusal that runs nothing is allowed
	Why      string
	Doc      map[string]any
}

// c07BodyClass: what the request body is: absent, object, non-object (another
// JSON value) or malformed (not one JSON value).
func c07BodyClass(body string) string {
	if strings.TrimSpace(body) == "" {
		return "absent"
	}
	if v, ok := c07Parse(body); ok {
		if _, isObj := v.(map[string]any); isObj {
			return "object"
		}
		return "non-object"
	}
	return "malformed"
}

func c07ExpectBody(c c07Case) c07Exp {
	t := c.inputType()
	v, ok, trailing := c07ParseLeading(c.Body)
	obj, isObj := v.(map[string]any)
	if ok && isObj {
		conf, why := c07ConfObject(obj, t, c.Defs)
		e := c07Exp{Doc: obj, Why: why}
		e.Accept = conf != c07No
		// a conforming JSON object sent as JSON is never rejected; with another
		// (or no) Content-Type, or with text after the object, a server may also
		// refuse to read it
		e.Reject = conf != c07Yes || !c07StrictCT(c.CT) || trailing
		return e
	}
	if !c.Defs.needsBody(t) {
		return c07Exp{Unjudged: true} // statement silent: no required field, no object
	}
	return c07Exp{Reject: true, Why: "no-json-object/" + c07BodyClass(c.Body)}
}

func c07FieldsReason(c c07Case, doc map[string]any) string {
	var out []string
	for _, f := range c.inputType().Fields {
		v, present := doc[f.Name]
		if !present {
			out = append(out, f.Spec()+"<-absent")
		} else {
			out = append(out, f.Spec()+"<-"+c07Class(v))
		}
	}
	sort.Strings(out)
	return strings.Join(out, "+")
}

func c07NullInputReason(c c07Case) string {
	if !c07StrictCT(c.CT) {
		if c.CT == "" {
			return "content-type=none"
		}
		return "content-type=" + c.CT
	}
	return c07BodyClass(c.Body)
}

func c07StatusClass(s int) string { return fmt.Sprintf("%dxx", s/100) }

func c07JudgeBody(c c07Case, o c07Obs) (kind, reason string) {
	if o.Panic != "" {
		return "panic", c07Trim(o.Panic)
	}
	e := c07ExpectBody(c)
	if e.Unjudged {
		return "", ""
	}
	t := c.inputType()
	if o.Ran {
		input, has := o.field("input")
		nullInput := !has || input == nil
		if nullInput && c.Defs.needsBody(t) {
			// the body ran on nothing although T has a required field
			return "ran-with-null-input", c07NullInputReason(c)
		}
		if nullInput && !c07StrictCT(c.CT) {
			// the server did not read a body that was not sent as JSON, and T has
			// no required field: the statement does not say whether null is a T
			return "", ""
		}
		if !e.Accept {
			return "nonconforming-accepted", e.Why
		}
		if o.Status/100 != 2 {
			return "marker-with-status-" + c07StatusClass(o.Status), c07FieldsReason(c, e.Doc)
		}
		if nullInput {
			return "echo-differs", "input-is-null"
		}
		if diff := c07EchoDiff(input, e.Doc, t, c.Defs, true); diff != "" {
			return "echo-differs", diff
		}
		return "", ""
	}
	must := func(s string) string {
		switch {
		case e.Accept && !e.Reject:
			return "conforming-" + s
		case e.Reject && !e.Accept:
			return "nonconforming-" + s
		}
		return "undecided-" + s
	}
	why := e.Why
	if e.Doc != nil && (why == "" || e.Accept) {
		why = c07FieldsReason(c, e.Doc)
	}
	switch o.Status / 100 {
	case 4:
		if e.Reject {
			return "", ""
		}
		return "conforming-rejected", why
	case 5:
		return must("answered-5xx"), why
	}
	// no marker and neither 4xx nor 5xx
	return must("answered-" + c07StatusClass(o.Status) + "-without-running"), why
}

func c07Trim(s string) string {
	if i := strings.IndexByte(s, '\n'); i >= 0 {
		s = s[:i]
	}
	if len(s) > 80 {
		s = s[:80]
	}
	return s
}

// ---------------------------------------------------------------------------
// query: expectation and judgement

var (
	c07IntRe   = regexp.MustCompile(`^-?[0-9]+$`)
	c07FloatRe = regexp.MustCompile(`^-?[0-9]+(\.[0-9]+)?$`)
)

// c07ParseQ: the typed value of one raw query value.  Spellings beyond plain
// decimal numbers and true/false (exponents, surrounding spaces, 1/0/yes/no
// for flags ...) are left open.
func c07ParseQ(raw, t string) (any, c07Verdict) {
	hasDigit := strings.ContainsAny(raw, "0123456789")
	switch t {
	case "int":
		if c07IntRe.MatchString(raw) {
			if _, err := strconv.ParseInt(raw, 10, 64); err == nil {
				return json.Number(raw), c07Yes
			}
		}
		return nil, c07No
	case "float":
		if c07FloatRe.MatchString(raw) {
			return json.Number(raw), c07Yes
		}
		if hasDigit || strings.EqualFold(strings.TrimSpace(raw), "nan") || strings.Contains(strings.ToLower(raw), "inf") {
			return nil, c07Unspec
		}
		return nil, c07No
	case "bool":
		switch raw {
		case "true":
			return true, c07Yes
		case "false":
			return false, c07Yes
		}
		switch strings.ToLower(strings.TrimSpace(raw)) {
		case "1", "0", "", "true", "false", "yes", "no", "on", "off", "t", "f", "y", "n":
			return nil, c07Unspec
		}
		return nil, c07No
	}
	return raw, c07Yes // str
}

type c07QExp struct {
	Accept, Reject bool
	Why            string
	Allowed        [][]any // per declaration: acceptable values of the variable; nil = not judged
}

func c07ExpectQuery(c c07Case) c07QExp {
	e := c07QExp{Accept: true, Allowed: make([][]any, len(c.Decls))}
	mustReject := ""
	for i, d := range c.Decls {
		vals := c.Vals[i]
		elem, isArr := strings.TrimSuffix(d.T, "[]"), strings.HasSuffix(d.T, "[]")
		if vals == nil {
			switch {
			case d.Req && d.Def == "":
				if mustReject == "" {
					mustReject = "required-missing/" + d.T
				}
			case d.Def != "":
				e.Allowed[i] = []any{c07MustParse(d.Def)}
			case !isArr:
				e.Allowed[i] = []any{nil}
			}
			continue
		}
		var parsed []any
		worst, bad, open := c07Yes, "", false
		for _, raw := range vals {
			v, verdict := c07ParseQ(raw, elem)
			if verdict == c07Yes {
				parsed = append(parsed, v)
			}
			if verdict == c07Unspec {
				open = true
			}
			if verdict > worst {
				worst, bad = verdict, raw
			}
		}
		switch {
		case isArr:
			switch worst {
			case c07Yes:
				e.Allowed[i] = []any{parsed}
			case c07No:
				if mustReject == "" {
					mustReject = fmt.Sprintf("unparsable/%s<-%q", d.T, bad)
				}
			default:
				e.Reject = true
			}
		case len(vals) == 1:
			switch worst {
			case c07Yes:
				e.Allowed[i] = parsed
			case c07No:
				if mustReject == "" {
					mustReject = fmt.Sprintf("unparsable/%s<-%q", d.T, bad)
				}
			default:
				e.Reject = true
			}
		default:
			// a scalar given several times: which one counts is not specified
			if len(parsed) == 0 && !open {
				if mustReject == "" {
					mustReject = fmt.Sprintf("unparsable/%s<-%q(repeated)", d.T, bad)
				}
			} else {
				e.Reject = true
				if !open {
					e.Allowed[i] = parsed
				}
			}
		}
	}
	if mustReject != "" {
		return c07QExp{Reject: true, Why: mustReject}
	}
	return e
}

func c07QueryReason(c c07Case) string {
	var out []string
	for i, d := range c.Decls {
		if c.Vals[i] == nil {
			out = append(out, d.Spec()+"<-absent")
		} else {
			out = append(out, fmt.Sprintf("%s<-%q", d.Spec(), strings.Join(c.Vals[i], "&")))
		}
	}
	sort.Strings(out)
	return strings.Join(out, "+")
}

func c07JudgeQuery(c c07Case, o c07Obs) (kind, reason string) {
	if o.Panic != "" {
		return "panic", c07Trim(o.Panic)
	}
	e := c07ExpectQuery(c)
	if o.Ran {
		if !e.Accept {
			return "nonconforming-accepted", e.Why
		}
		if o.Status/100 != 2 {
			return "marker-with-status-" + c07StatusClass(o.Status), c07QueryReason(c)
		}
		qobj, _ := o.field("query")
		qm, _ := qobj.(map[string]any)
		for i, d := range c.Decls {
			if e.Allowed[i] == nil {
				continue
			}
			for _, where := range []string{"variable", "query-object"} {
				var got any
				if where == "variable" {
					got, _ = o.field(d.Name)
				} else {
					got = qm[d.Name]
				}
				ok := false
				for _, a := range e.Allowed[i] {
					if c07Equal(got, a) {
						ok = true
					}
				}
				if !ok {
					raw := "absent"
					if c.Vals[i] != nil {
						raw = fmt.Sprintf("%q", strings.Join(c.Vals[i], "&"))
					}
					return "value-differs", fmt.Sprintf("%s<-%s/%s-is-%s", d.Spec(), raw, where, c07Class(got))
				}
			}
		}
		return "", ""
	}
	must := func(s string) string {
		switch {
		case e.Accept && !e.Reject:
			return "conforming-" + s
		case e.Reject && !e.Accept:
			return "nonconforming-" + s
		}
		return "undecided-" + s
	}
	why := e.Why
	if why == "" {
		why = c07QueryReason(c)
	}
	switch o.Status / 100 {
	case 4:
		if e.Reject {
			return "", ""
		}
		return "conforming-rejected", why
	case 5:
		return must("answered-5xx"), why
	}
	return must("answered-" + c07StatusClass(o.Status) + "-without-running"), why
}

// ---------------------------------------------------------------------------
// return: expectation and judgement

func c07JudgeReturn(c c07Case, o c07Obs) (kind, reason string, nonconforming bool) {
	if o.Panic != "" {
		return "panic", c07Trim(o.Panic), false
	}
	v := c07MustParse(c.Shape)
	conf, why := c07Unspec, "null-return"
	if v != nil {
		conf, why = c07ConfValue(v, *c.Ret, c.Defs)
	}
	same := o.IsJSON && c07Equal(o.JSON, v)
	label := c.Ret.Ctor() + "<-" + c07Class(v)
	switch conf {
	case c07No:
		switch {
		case o.Status/100 == 2:
			return "nonconforming-delivered", why, true
		case same:
			return "nonconforming-delivered-with-status-" + c07StatusClass(o.Status), why, true
		case o.Status/100 != 5:
			return "nonconforming-answered-" + c07StatusClass(o.Status), why, true
		}
		return "", "", true
	case c07Yes:
		switch {
		case o.Status/100 == 2 && same:
			return "", "", false
		case o.Status/100 == 2:
			return "value-changed", label, false
		}
		return "conforming-answered-" + c07StatusClass(o.Status), label, false
	}
	if o.Status/100 == 2 && !same {
		return "value-changed", label, false
	}
	return "", "", false
}

// ---------------------------------------------------------------------------
// running one case, shrinking, keys

type c07Cache struct {
	mode, src string
	sys       *c07Sys
	err       error
}

func c07NewCache() *c07Cache { return &c07Cache{} }

// get returns the system for the case's program in the case's mode.  Only the
// most recently built system is kept: setupRoutes stores the module's type
// definitions for compiled routes in a package variable, so the last system
// built owns it.
func (k *c07Cache) get(c c07Case) (*c07Sys, error) {
	src := c.source()
	if k.src == src && k.mode == c.Mode && (k.sys != nil || k.err != nil) {
		return k.sys, k.err
	}
	k.close()
	k.sys, k.err = c07Build(src, c.Mode)
	k.mode, k.src = c.Mode, src
	return k.sys, k.err
}

func (k *c07Cache) close() {
	if k.sys != nil {
		k.sys.stop()
	}
	k.sys, k.err, k.src, k.mode = nil, nil, "", ""
}

// c07Eval runs one case.  built=false: the program is not accepted in this mode
// (not judged).
func c07Eval(k *c07Cache, c c07Case) (kind, reason string, o c07Obs, built bool) {
	s, err := k.get(c)
	if err != nil {
		return "", err.Error(), o, false
	}
	o = c.run(s)
	switch c.Part {
	case "body":
		kind, reason = c07JudgeBody(c, o)
	case "query":
		kind, reason = c07JudgeQuery(c, o)
	default:
		kind, reason, _ = c07JudgeReturn(c, o)
	}
	return kind, reason, o, true
}

// c07Shrink drops fields / declarations while the same kind of failure remains.
func c07Shrink(k *c07Cache, c c07Case, kind string) c07Case {
	for changed := true; changed; {
		changed = false
		switch c.Part {
		case "body":
			t := c.inputType()
			doc, isObj := c07ParseObject(c.Body)
			if !isObj && len(t.Fields) > 1 {
				doc = nil
			}
			for i := 0; i < len(t.Fields) && len(t.Fields) > 1; i++ {
				cand := c
				nt := c07TypeDef{Name: "T"}
				nt.Fields = append(append([]c07Field{}, t.Fields[:i]...), t.Fields[i+1:]...)
				cand.Defs = nil
				for _, d := range c.Defs {
					if d.Name == "T" {
						cand.Defs = append(cand.Defs, nt)
					} else {
						cand.Defs = append(cand.Defs, d)
					}
				}
				if isObj {
					nd := map[string]any{}
					for kk, v := range doc {
						if kk != t.Fields[i].Name {
							nd[kk] = v
						}
					}
					cand.Body = c07DocText(nd, nt)
				}
				if k2, _, _, built := c07Eval(k, cand); built && k2 == kind {
					c, changed = cand, true
					break
				}
			}
		case "query":
			for i := 0; i < len(c.Decls) && len(c.Decls) > 1; i++ {
				cand := c
				cand.Decls = append(append([]c07QDecl{}, c.Decls[:i]...), c.Decls[i+1:]...)
				cand.Vals = append(append([][]string{}, c.Vals[:i]...), c.Vals[i+1:]...)
				if k2, _, _, built := c07Eval(k, cand); built && k2 == kind {
					c, changed = cand, true
					break
				}
			}
		}
	}
	return c
}

// c07Simplest: a value that conforms to t (used to neutralise the fields that
// are not under suspicion while isolating a failure).
func c07Simplest(t c07Type, ds c07Defs) any {
	switch t.K {
	case "int":
		return json.Number("1")
	case "float":
		return json.Number("1.5")
	case "str":
		return "s"
	case "bool":
		return true
	case "list", "array":
		return []any{}
	case "opt":
		return c07Simplest(*t.Elem, ds)
	case "union":
		return c07Simplest(t.Alts[0], ds)
	case "named":
		obj := map[string]any{}
		if d, ok := ds.get(t.Name); ok {
			for _, f := range d.Fields {
				if f.Req && f.Def == "" {
					obj[f.Name] = c07Simplest(f.T, ds)
				}
			}
		}
		return obj
	}
	return nil
}

func c07SimplestRaw(t string) []string {
	switch strings.TrimSuffix(t, "[]") {
	case "int":
		return []string{"1"}
	case "float":
		return []string{"1.5"}
	case "bool":
		return []string{"true"}
	}
	return []string{"s"}
}

// c07Isolate looks, on the same program, for one field (declaration) that
// reproduces the failure kind while every other field is absent - or, where it
// may not be absent, has its simplest conforming value.
func c07Isolate(k *c07Cache, c c07Case, kind string) c07Case {
	switch c.Part {
	case "body":
		t := c.inputType()
		doc, isObj := c07ParseObject(c.Body)
		if !isObj || len(t.Fields) < 2 {
			return c
		}
		for i := range t.Fields {
			nd := map[string]any{}
			for j, f := range t.Fields {
				if j == i {
					if v, ok := doc[f.Name]; ok {
						nd[f.Name] = v
					}
				} else if f.Req && f.Def == "" {
					nd[f.Name] = c07Simplest(f.T, c.Defs)
				}
			}
			cand := c
			cand.Body = c07DocText(nd, t)
			if cand.Body == c.Body {
				continue
			}
			if k2, _, _, built := c07Eval(k, cand); built && k2 == kind {
				return cand
			}
		}
	case "query":
		if len(c.Decls) < 2 {
			return c
		}
		for i := range c.Decls {
			cand := c
			cand.Vals = make([][]string, len(c.Vals))
			same := true
			for j, d := range c.Decls {
				switch {
				case j == i:
					cand.Vals[j] = c.Vals[j]
				case d.Req && d.Def == "":
					cand.Vals[j] = c07SimplestRaw(d.T)
				}
				if strings.Join(cand.Vals[j], "\x00") != strings.Join(c.Vals[j], "\x00") || (cand.Vals[j] == nil) != (c.Vals[j] == nil) {
					same = false
				}
			}
			if same {
				continue
			}
			if k2, _, _, built := c07Eval(k, cand); built && k2 == kind {
				return cand
			}
		}
	}
	return c
}

func c07ParseObject(body string) (map[string]any, bool) {
	v, ok := c07Parse(body)
	if !ok {
		return nil, false
	}
	m, ok := v.(map[string]any)
	return m, ok
}

// c07DocText renders a document with its members in declaration order.
func c07DocText(doc map[string]any, t c07TypeDef) string {
	var parts []string
	for _, f := range t.Fields {
		if v, ok := doc[f.Name]; ok {
			parts = append(parts, c07JSON(f.Name)+":"+c07JSON(v))
		}
	}
	return "{" + strings.Join(parts, ",") + "}"
}

func c07Key(c c07Case, kind, reason string) string {
	return c.Mode + "/" + c.Part + "/" + kind + "/" + reason
}

func c07Desc(c c07Case, kind, reason string, o c07Obs) string {
	want := ""
	switch c.Part {
	case "body":
		e := c07ExpectBody(c)
		switch {
		case e.Accept && e.Reject:
			want = "either a 4xx that runs nothing or a 2xx whose body saw the document with defaults at exactly the absent fields"
		case e.Accept:
			want = "the document conforms: 2xx, the body runs and sees " + c07JSON(c07WithDefaults(e.Doc, c.inputType()))
		default:
			want = "the request violates the declaration (" + e.Why + "): 4xx and the body must not run"
		}
	case "query":
		e := c07ExpectQuery(c)
		switch {
		case e.Accept && e.Reject:
			want = "either a 4xx that runs nothing or a 2xx with correctly typed values"
		case e.Accept:
			want = "the query conforms: 2xx, the body runs and sees " + c07JSON(e.Allowed)
		default:
			want = "the query violates the declaration (" + e.Why + "): 4xx and the body must not run"
		}
	default:
		v := c07MustParse(c.Shape)
		conf, why := c07Unspec, ""
		if v != nil {
			conf, why = c07ConfValue(v, *c.Ret, c.Defs)
		}
		switch conf {
		case c07No:
			want = "the value violates the declared return type (" + why + "): 5xx and the client must not receive it"
		case c07Yes:
			want = "the value conforms: 2xx with exactly that value"
		}
	}
	return fmt.Sprintf("%s (%s): %s; observed %s; expected: %s", kind, reason, c, o, want)
}

// ---------------------------------------------------------------------------
// the enumerated spaces

func c07Inner(variant int) c07Defs {
	switch variant {
	case 1:
		return c07Defs{{Name: "Inner", Fields: []c07Field{{Name: "a", T: c07Int}}}}
	case 2:
		return c07Defs{{Name: "Inner", Fields: []c07Field{{Name: "a", T: c07Int, Req: true, Def: "7"}}}}
	case 3:
		return c07Defs{{Name: "Inner", Fields: []c07Field{{Name: "a", T: c07Str, Req: true}, {Name: "b", T: c07Int}}}}
	case 4:
		return c07Defs{{Name: "Inner", Fields: []c07Field{{Name: "a", T: c07List(c07Int), Req: true}}}}
	case 5:
		return c07Defs{
			{Name: "Inner2", Fields: []c07Field{{Name: "z", T: c07Int, Req: true}}},
			{Name: "Inner", Fields: []c07Field{{Name: "a", T: c07Named("Inner2"), Req: true}}}}
	}
	return c07Defs{{Name: "Inner", Fields: []c07Field{{Name: "a", T: c07Int, Req: true}}}}
}

const c07InnerVariants = 6

// field declarations (without names)
func c07FieldSpecs(thorough bool) []c07Field {
	var out []c07Field
	add := func(t c07Type, reqs []bool, defs []string) {
		for _, r := range reqs {
			for _, d := range defs {
				out = append(out, c07Field{T: t, Req: r, Def: d})
			}
		}
	}
	both := []bool{false, true}
	add(c07Int, both, []string{"", "7"})
	add(c07Str, both, []string{"", `"d"`})
	add(c07Bool, both, []string{"", "true"})
	add(c07Float, both, []string{"", "2.5"})
	add(c07List(c07Int), both, []string{"", "[]"})
	add(c07Array(c07Int), both, []string{"", "[]"})
	add(c07Named("Inner"), both, []string{""})
	add(c07Opt(c07Int), []bool{false}, []string{"", "7"})
	add(c07Union(c07Int, c07Str), both, []string{""})
	add(c07Opt(c07Named("Inner")), []bool{false}, []string{""})
	add(c07Union(c07Int, c07Named("Inner")), []bool{false}, []string{""})
	if thorough {
		add(c07List(c07Named("Inner")), both, []string{""})
		add(c07Array(c07Named("Inner")), both, []string{""})
		add(c07Array(c07Str), both, []string{""})
		add(c07List(c07Str), []bool{false}, []string{`["d"]`})
		add(c07Opt(c07Str), []bool{false}, []string{"", `"d"`})
		add(c07Opt(c07Float), []bool{false}, []string{""})
		add(c07Opt(c07List(c07Int)), []bool{false}, []string{""})
		add(c07Union(c07Str, c07Bool), both, []string{""})
		add(c07Union(c07Float, c07Str), []bool{true}, []string{""})
	}
	return out
}

// per-field JSON values; "" = the field is absent
var c07ValuesQuick = []string{"", "null", "1", "0", "1.0", "1.5", `"s"`, `""`, "true", "false",
	"[]", "[1]", `["s"]`, "[1,1.5]", `[1,2,"s"]`, "{}", `{"a":1}`, `{"a":"s"}`, `{"a":null}`}

var c07ValuesThoroughExtra = []string{"-1", "1e2", `"1"`, `[1,"s"]`, "[null]", "[1.5]", "[[1]]", "[{}]", `[{"a":1}]`, `[{"a":null}]`,
	`{"a":1.5}`, `{"a":"s","b":1}`, `{"a":"s","b":"s"}`, `{"a":[1]}`, `{"a":["s"]}`, `{"a":{"z":1}}`, `{"a":{"z":null}}`, `{"a":{}}`}

// a small alphabet for the three-field family
var c07ValuesSmall = []string{"", "null", "1", `"s"`}

var c07NonDocs = []string{"", "[]", "[1]", `"s"`, "3", "null", "true", `{"f1":`, "hello", `{"f1":1} x`, `[{"f1":1}]`}
var c07CTs = []string{"application/json", "", "text/plain", "application/json; charset=utf-8"}

func c07TypeOf(specs ...c07Field) c07TypeDef {
	t := c07TypeDef{Name: "T"}
	for i, s := range specs {
		s.Name = fmt.Sprintf("f%d", i+1)
		t.Fields = append(t.Fields, s)
	}
	return t
}

func c07Docs(t c07TypeDef, values []string) []string {
	docs := []string{""}
	for _, f := range t.Fields {
		var next []string
		for _, d := range docs {
			for _, v := range values {
				switch {
				case v == "":
					next = append(next, d)
				case d == "":
					next = append(next, c07JSON(f.Name)+":"+v)
				default:
					next = append(next, d+","+c07JSON(f.Name)+":"+v)
				}
			}
		}
		docs = next
	}
	for i := range docs {
		docs[i] = "{" + docs[i] + "}"
	}
	return docs
}

// a work item: one program (or a small group of programs) and its requests
type c07Work struct {
	fam   string
	cases func(yield func(c07Case))
}

func c07UsesInner(fs ...c07Field) bool {
	var uses func(t c07Type) bool
	uses = func(t c07Type) bool {
		if t.K == "named" {
			return true
		}
		if t.Elem != nil && uses(*t.Elem) {
			return true
		}
		for _, a := range t.Alts {
			if uses(a) {
				return true
			}
		}
		return false
	}
	for _, f := range fs {
		if uses(f.T) {
			return true
		}
	}
	return false
}

func c07BodyWork(thorough bool) []c07Work {
	var out []c07Work
	specs := c07FieldSpecs(thorough)
	quickSpecs := c07FieldSpecs(false)
	values := c07ValuesQuick
	methods := []string{"POST"}
	innerVariants := 1
	if thorough {
		values = append(append([]string{}, c07ValuesQuick...), c07ValuesThoroughExtra...)
		methods = []string{"POST", "PUT", "PATCH"}
		innerVariants = c07InnerVariants
	}
	defsFor := func(iv int, t c07TypeDef) c07Defs { return append(append(c07Defs{}, c07Inner(iv)...), t) }
	// one field: every document, every non-document, every content type, every method
	for _, sp := range specs {
		sp := sp
		nv := 1
		if c07UsesInner(sp) {
			nv = innerVariants
		}
		for iv := 0; iv < nv; iv++ {
			iv := iv
			for _, m := range methods {
				m := m
				out = append(out, c07Work{"body/1-field", func(yield func(c07Case)) {
					t := c07TypeOf(sp)
					defs := defsFor(iv, t)
					bodies := append(c07Docs(t, values), c07NonDocs...)
					for _, ct := range c07CTs {
						for _, b := range bodies {
							yield(c07Case{Part: "body", Defs: defs, Method: m, CT: ct, Body: b})
						}
					}
				}})
			}
		}
	}
	// two fields: every pair of declarations x every pair of values
	pairSpecs := quickSpecs
	if thorough {
		pairSpecs = specs
	}
	for _, s1 := range pairSpecs {
		for _, s2 := range pairSpecs {
			s1, s2 := s1, s2
			out = append(out, c07Work{"body/2-field", func(yield func(c07Case)) {
				t := c07TypeOf(s1, s2)
				defs := defsFor(0, t)
				for _, b := range c07Docs(t, values) {
					yield(c07Case{Part: "body", Defs: defs, Method: "POST", CT: "application/json", Body: b})
				}
				for _, b := range c07NonDocs {
					for _, ct := range c07CTs[:3] {
						yield(c07Case{Part: "body", Defs: defs, Method: "POST", CT: ct, Body: b})
					}
				}
			}})
		}
	}
	if thorough {
		// three fields over the quick declarations and a small value alphabet
		for _, s1 := range quickSpecs {
			for _, s2 := range quickSpecs {
				s1, s2 := s1, s2
				out = append(out, c07Work{"body/3-field", func(yield func(c07Case)) {
					for _, s3 := range quickSpecs {
						t := c07TypeOf(s1, s2, s3)
						defs := defsFor(0, t)
						for _, b := range c07Docs(t, c07ValuesSmall) {
							yield(c07Case{Part: "body", Defs: defs, Method: "POST", CT: "application/json", Body: b})
						}
					}
				}})
			}
		}
	}
	return out
}

func c07QDecls() []c07QDecl {
	var out []c07QDecl
	for _, t := range []struct{ t, def string }{{"int", "5"}, {"float", "2.5"}, {"bool", "true"}, {"str", `"d"`}} {
		for _, req := range []bool{false, true} {
			for _, def := range []string{"", t.def} {
				out = append(out, c07QDecl{T: t.t, Req: req, Def: def})
			}
		}
	}
	for _, t := range []string{"int[]", "str[]", "float[]"} {
		for _, req := range []bool{false, true} {
			out = append(out, c07QDecl{T: t, Req: req})
		}
	}
	return out
}

// raw values of one parameter; nil = absent
var c07QValsQuick = [][]string{nil, {"1"}, {"x"}, {"1.5"}, {""}, {"true"}, {"-3"}, {"0"}, {"1", "2"}, {"1", "x"}, {"x", "1"}}
var c07QValsExtra = [][]string{{"false"}, {"1e3"}, {" 1"}, {"1 "}, {"0x10"}, {"9223372036854775808"}, {"x", "y"}, {"", "1"}, {"1", "2", "x"}}

func c07QueryWork(thorough bool) []c07Work {
	var out []c07Work
	decls := c07QDecls()
	vals := c07QValsQuick
	if thorough {
		vals = append(append([][]string{}, c07QValsQuick...), c07QValsExtra...)
	}
	for _, d := range decls {
		d := d
		d.Name = "q"
		out = append(out, c07Work{"query/1-param", func(yield func(c07Case)) {
			for _, v := range vals {
				yield(c07Case{Part: "query", Decls: []c07QDecl{d}, Vals: [][]string{v}})
			}
		}})
	}
	for _, d1 := range decls {
		for _, d2 := range decls {
			d1, d2 := d1, d2
			d1.Name, d2.Name = "q", "p"
			out = append(out, c07Work{"query/2-param", func(yield func(c07Case)) {
				for _, v1 := range vals {
					for _, v2 := range vals {
						yield(c07Case{Part: "query", Decls: []c07QDecl{d1, d2}, Vals: [][]string{v1, v2}})
					}
				}
			}})
		}
	}
	return out
}

var c07RetDefs = c07Defs{
	{Name: "T", Fields: []c07Field{{Name: "a", T: c07Int, Req: true}}},
	{Name: "U", Fields: []c07Field{{Name: "a", T: c07Int}}},
	{Name: "W", Fields: []c07Field{{Name: "a", T: c07Str, Req: true}, {Name: "b", T: c07Named("T")}}},
}

func c07RetTypes(thorough bool) []c07Type {
	out := []c07Type{c07Int, c07Str, c07Bool, c07Float, c07List(c07Int), c07Array(c07Int), c07Named("T"), c07Named("U"),
		c07Opt(c07Int), c07Union(c07Int, c07Str), c07List(c07Named("T")), c07Array(c07Named("T")), c07Opt(c07Named("T")), c07Union(c07Named("T"), c07Str)}
	if thorough {
		out = append(out, c07Named("W"), c07List(c07Str), c07Array(c07Array(c07Int)),
			c07Opt(c07List(c07Int)), c07List(c07Named("U")))
	}
	return out
}

var c07ShapesQuick = []string{"1", "0", "1.5", `"s"`, `""`, "true", "false", "null", "[]", "[1]", `["s"]`, `[1,"s"]`, "[1,1.5]", "[1,2,2.5]", "{}", `{"a":1}`, `{"a":"s"}`, `{"a":null}`,
	`[{"a":1}]`, `[{"a":"s"}]`, "[{}]", `[{"a":null}]`}
var c07ShapesExtra = []string{"-1", "[[1]]", `[["s"]]`, `{"a":"s","b":{"a":1}}`, `{"a":"s","b":{"a":"s"}}`, `{"a":"s","b":{}}`, `{"a":"s","b":null}`, `{"a":1.5}`, `[{"a":1},{"a":"s"}]`, "[1.5,1]"}

func c07ReturnWork(thorough bool) []c07Work {
	var out []c07Work
	shapes := c07ShapesQuick
	if thorough {
		shapes = append(append([]string{}, c07ShapesQuick...), c07ShapesExtra...)
	}
	for _, rt := range c07RetTypes(thorough) {
		rt := rt
		out = append(out, c07Work{"return", func(yield func(c07Case)) {
			for _, via := range []string{"literal", "variable", "echo"} {
				for _, sh := range shapes {
					yield(c07Case{Part: "return", Defs: c07RetDefs, Ret: &rt, Shape: sh, Via: via})
				}
			}
		}})
	}
	return out
}

// ---------------------------------------------------------------------------

const c07MaxShrinks = 150 // per shard, mode, part and failure kind; later failures are filed unshrunk

func TestVerif_C07(t *testing.T) {
	p := vk.Env()
	stdout := os.Stdout
	c07Quiet()
	res := vk.NewResult("body: every type definition T of 1-2 (thorough 3) fields over the declaration alphabet (int str bool float List[int] [int] Inner int? int|str Inner? int|Inner, each optional or required `!`, without or with a literal default; thorough adds List[Inner] [Inner] [str] str? float? List[int]? str|bool float|str and 6 shapes of Inner) x every JSON object assigning each field one value of the value alphabet (absent, null, 1, 0, 1.0, 1.5, \"s\", \"\", true, false, [], [1], [\"s\"], {}, {a:1}, {a:\"s\"}, {a:null}; thorough 18 more), plus 11 non-documents x 4 content types, sent to the route `< input: T` that answers {ran, input}; query: every list of 1-2 typed query declarations (int float bool str, optional/required, without/with default; int[] str[] float[]) x raw values (absent, 1, x, 1.5, empty, true, -3, 0, repeated; thorough 9 more); return: every declared return type x every returned shape, as a literal, through a variable and as a JSON value echoed from the request. Every case runs through the CLI handler chain in compiled and in interpreted mode. An evaluation is one (mode, program, request); it is non-trivial (distinct) if the reference decides it (conforms or violates), as opposed to cases the statement leaves open")
	cache := c07NewCache()
	defer cache.close()
	if p.Replay != "" {
		var c c07Case
		if err := vk.LoadReplay(p.Replay, &c); err != nil {
			t.Fatal(err)
		}
		if c.Imports != nil {
			kind, detail, built := c07ImportsRun(c.Mode, c.Imports.Order)
			fmt.Fprintf(stdout, "replay imports %v [%s] -> built=%v %s %s\n", c.Imports.Order, c.Mode, built, kind, detail)
			ok := built && kind != ""
			if ok {
				res.Violate(c.Mode+"/imports/"+kind, detail, c)
			}
			res.Replayed = &ok
			res.Write(p)
			return
		}
		kind, reason, o, built := c07Eval(cache, c)
		fmt.Fprintf(stdout, "replay %s -> built=%v kind=%q reason=%q observed: %s\n", c, built, kind, reason, o)
		ok := built && kind != ""
		if ok {
			key := c.Key
			if key == "" {
				key = c07Key(c, kind, reason)
			}
			res.Violate(key, c07Desc(c, kind, reason, o), c)
		}
		res.Replayed = &ok
		res.Write(p)
		return
	}

	var work []c07Work
	work = append(work, c07ReturnWork(p.Thorough)...)
	work = append(work, c07QueryWork(p.Thorough)...)
	work = append(work, c07BodyWork(p.Thorough)...)

	preKey := map[string]string{} // failure before shrinking -> finding key
	shrinks, notes := map[string]int{}, 0
	famCount := map[string]int{}
	for wi, w := range work {
		famCount[w.fam]++
		if !p.Mine(wi) {
			continue
		}
		if p.Expired() {
			res.Exhaustive = false
			break
		}
		res.Count("programs:"+w.fam, 1)
		type retFail struct {
			c            c07Case
			kind, reason string
			o            c07Obs
		}
		retFails := map[string][]retFail{}
		retNonconf := map[string]int{}
		retDelivered := map[string]int{}
		for _, mode := range c07Modes {
			w.cases(func(c c07Case) {
				c.Mode = mode
				if c.Part == "return" {
					// one program per case: judge here to learn the verdict too
					s, err := cache.get(c)
					if err != nil {
						res.Count("programs_not_accepted:"+mode, 1)
						if notes++; notes <= 3 {
							res.Note("program not accepted in %s mode: %v: %s", mode, err, c.source())
						}
						return
					}
					o := c.run(s)
					kind, reason, nonconf := c07JudgeReturn(c, o)
					res.Evaluations++
					res.Count("evaluations:"+w.fam, 1)
					if nonconf || kind != "" || c07ReturnDecided(c) {
						res.Distinct++
					}
					if nonconf {
						retNonconf[mode]++
						if kind == "nonconforming-delivered" {
							retDelivered[mode]++
						}
					}
					if kind != "" {
						res.Count("failing_evaluations", 1)
						retFails[mode] = append(retFails[mode], retFail{c, kind, reason, o})
					}
					return
				}
				kind, reason, o, built := c07Eval(cache, c)
				if !built {
					res.Count("programs_not_accepted:"+mode, 1)
					if notes++; notes <= 3 {
						res.Note("program not accepted in %s mode: %s: %s", mode, reason, c.source())
					}
					return
				}
				res.Evaluations++
				res.Count("evaluations:"+w.fam, 1)
				if c07Decided(c) {
					res.Distinct++
				}
				if kind == "" {
					if res.Evaluations%4099 == 0 {
						res.Sample(6, map[string]any{"case": c.String(), "observed": o.String()})
					}
					return
				}
				res.Count("failing_evaluations", 1)
				pk := c07Key(c, kind, reason)
				if key, ok := preKey[pk]; ok {
					res.Count("failing:"+key, 1)
					return
				}
				// step 1 (same program, no rebuild): one field / declaration that
				// reproduces the failure with the others absent or trivially valid
				ic := c07Isolate(cache, c, kind)
				ik, ir, io, _ := c07Eval(cache, ic)
				if ik != kind {
					ic, ik, ir, io = c, kind, reason, o
				}
				ipk := c07Key(ic, ik, ir)
				if key, ok := preKey[ipk]; ok {
					preKey[pk] = key
					res.Count("failing:"+key, 1)
					return
				}
				// step 2: drop the other fields / declarations from the program
				mc, mk, mr, mo := ic, ik, ir, io
				budget := mode + "/" + c.Part + "/" + kind
				if shrinks[budget] < c07MaxShrinks {
					shrinks[budget]++
					mc = c07Shrink(cache, ic, kind)
					mk, mr, mo, _ = c07Eval(cache, mc)
					if mk == "" { // cannot happen: shrink steps keep the failure
						mc, mk, mr, mo = ic, ik, ir, io
					}
				} else {
					mr = "not-minimised (more than " + fmt.Sprint(c07MaxShrinks) + " distinct failing shapes of this kind in one shard)"
				}
				key := c07Key(mc, mk, mr)
				preKey[pk], preKey[ipk] = key, key
				res.Count("failing:"+key, 1)
				res.Violate(key, c07Desc(mc, mk, mr, mo), mc)
			})
		}
		// return part: a mode that delivers every non-conforming value of a
		// return type has no check for that type: one finding, not one per shape
		for _, mode := range c07Modes {
			fails := retFails[mode]
			if len(fails) == 0 {
				continue
			}
			if retNonconf[mode] >= 3 && retDelivered[mode] == retNonconf[mode] {
				var rest []retFail
				first := true
				for _, f := range fails {
					if f.kind != "nonconforming-delivered" {
						rest = append(rest, f)
						continue
					}
					if first {
						first = false
						c := f.c
						c.Key = mode + "/return/no-return-type-check/" + c.Ret.Src()
						res.Violate(c.Key, fmt.Sprintf("all %d returned values that violate the declared return type %s were delivered with a 2xx in %s mode; first: %s", retNonconf[mode], c.Ret.Src(), mode, c07Desc(f.c, f.kind, f.reason, f.o)), c)
					}
				}
				fails = rest
			}
			for _, f := range fails {
				key := c07Key(f.c, f.kind, f.reason)
				res.Count("failing:"+key, 1)
				res.Violate(key, c07Desc(f.c, f.kind, f.reason, f.o), f.c)
			}
		}
	}
	var fams []string
	for f, n := range famCount {
		fams = append(fams, fmt.Sprintf("%s:%d programs", f, n))
	}
	sort.Strings(fams)
	res.Bounds["families"] = fams
	res.Bounds["field_declarations"] = len(c07FieldSpecs(p.Thorough))
	res.Bounds["values_per_field"] = len(c07ValuesQuick)
	if p.Thorough {
		res.Bounds["values_per_field"] = len(c07ValuesQuick) + len(c07ValuesThoroughExtra)
		res.Bounds["inner_type_variants"] = c07InnerVariants
	}
	res.Bounds["non_documents"] = c07NonDocs
	res.Bounds["content_types"] = c07CTs
	res.Bounds["query_declarations"] = len(c07QDecls())
	res.Bounds["return_types"] = len(c07RetTypes(p.Thorough))
	res.Bounds["modes"] = c07Modes
	c07ImportsPart(p, res, len(work))
	res.Write(p)
}

// c07Decided: the reference decides the case (it is not left open).
func c07Decided(c c07Case) bool {
	switch c.Part {
	case "body":
		e := c07ExpectBody(c)
		return !e.Unjudged && e.Accept != e.Reject
	case "query":
		e := c07ExpectQuery(c)
		return e.Accept != e.Reject
	}
	return c07ReturnDecided(c)
}

func c07ReturnDecided(c c07Case) bool {
	v := c07MustParse(c.Shape)
	if v == nil {
		return false
	}
	conf, _ := c07ConfValue(v, *c.Ret, c.Defs)
	return conf != c07Unspec
}
