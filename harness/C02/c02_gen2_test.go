package main

// C02 harness, part 5: three further dimensions of the enumerated space, each
// a complete finite product.
//
//   L7  binder x name: every construct that binds a name (loop key / value
//       variable, pattern variable, `$` in a nested block, in an async block,
//       at route level, plain reassignment) x every kind of name that is
//       already visible there (request variables, path parameter, declared
//       query parameter, route variable, constant, function, built-in function
//       name, fresh name) x where the name is read (inside only / after the
//       construct) - the VM keeps one flat name-keyed store, the interpreter
//       nested environments.
//   L8  aliasing histories: every sequence of <= n array operations over three
//       variables (concatenate onto, prepend to, alias, self-concatenate,
//       rebuild element by element) x the length and the origin of the base
//       array; all three variables are returned, so an operation that writes
//       into storage another value still uses is visible.
//   body grammar (HTTP level): leading bytes x first JSON value x trailing
//       bytes x Content-Type x method for the programs that read the body, and
//       bodies padded up to and past the handlers' 10 MiB limit.

import (
	"fmt"
	"strconv"
	"strings"
)

// ---- L7: binders whose name is already visible ----------------------------------

type c02ShadowName struct {
	name  string
	items string // module items the name needs
}

var c02ShadowNames = []c02ShadowName{
	{"input", ""}, {"query", ""}, {"headers", ""}, {"ws", ""}, {"auth", ""}, // request variables (auth: only bound on routes with auth middleware; here a fresh name)
	{"id", ""},     // path parameter
	{"page", ""},   // declared query parameter
	{"x", ""},      // route variable
	{"seen", ""},   // route variable that the construct itself updates
	{"length", ""}, // built-in function
	{"zz", ""},     // not visible: the control
	{"LIMIT", "const LIMIT = 10\n"},
	{"dbl", "! dbl(n: int): int {\n  > n * 2\n}\n"},
}

// binder forms; %N is the name
var c02ShadowForms = []struct{ name, src string }{
	{"for-value", "for %N in [10, 20] {\n  seen = seen + [%N]\n}"},
	{"for-key", "for %N, v in [10, 20] {\n  seen = seen + [%N]\n}"},
	{"for-value-of-object", "for k, %N in {a: 10} {\n  seen = seen + [%N]\n}"},
	{"for-key-of-object", "for %N, v in {a: 10} {\n  seen = seen + [%N]\n}"},
	{"for-over-request", "for %N in input.items {\n  seen = seen + [%N]\n}"},
	{"for-empty", "for %N in [] {\n  seen = seen + [%N]\n}"},
	{"for-nested", "for v in [1, 2] {\n  for %N in [10] {\n    seen = seen + [%N]\n  }\n}"},
	{"for-twice", "for %N in [10] {\n  seen = seen + [%N]\n}\nfor %N in [20] {\n  seen = seen + [%N]\n}"},
	{"match-variable", "$ m = match 7 {\n  %N => %N + 1\n}\nseen = seen + [m]"},
	{"match-guard", "$ m = match 7 {\n  %N when %N > 1 => %N,\n  _ => 0\n}\nseen = seen + [m]"},
	{"if-declare", "if x == 1 {\n  $ %N = 5\n  seen = seen + [%N]\n}"},
	{"else-declare", "if x == 2 {\n  $ y = 1\n} else {\n  $ %N = 5\n  seen = seen + [%N]\n}"},
	{"while-declare", "while i < 1 {\n  $ i = i + 1\n  $ %N = 5\n  seen = seen + [%N]\n}"},
	{"switch-declare", "switch x {\n  case 1 {\n    $ %N = 5\n    seen = seen + [%N]\n  }\n}"},
	{"for-body-declare", "for v in [1, 2] {\n  $ %N = v\n  seen = seen + [%N]\n}"},
	{"declare", "$ %N = 5\nseen = seen + [%N]"},
	{"reassign", "%N = 5\nseen = seen + [%N]"},
	{"async-declare", "$ f = async {\n  $ %N = 5\n  > %N\n}\nseen = seen + [await f]"},
}

func c02ShadowReqs() []c02Req {
	body := `{"a":1,"items":[10,20]}`
	return []c02Req{
		{Method: "POST", Params: map[string]string{"id": "7"}, Query: "page=2&a=1", Body: &body, CType: "application/json", XTest: c02Str("v")},
		{Method: "POST", Params: map[string]string{"id": "7"}},
	}
}

func c02L7(level string, emit c02Emit) {
	for _, n := range c02ShadowNames {
		for _, f := range c02ShadowForms {
			for _, after := range []bool{true, false} {
				n, f, after := n, f, after
				emit(level, "L7-"+f.name, func() (string, int, []c02Req) {
					ret := "  > {seen: seen}"
					if after {
						ret = "  > {seen: seen, after: " + n.name + "}"
					}
					src := n.items + "@ POST /t/:id {\n  ? page: int = 1\n  $ x = 1\n  $ i = 0\n  $ seen = []\n" +
						c02Indent(strings.ReplaceAll(f.src, "%N", n.name)) + "\n" + ret + "\n}\n"
					return src, 0, c02ShadowReqs()
				})
			}
		}
	}
}

// ---- L8: aliasing histories over arrays -------------------------------------------

var c02AliasVars = []string{"r", "s", "t"}

// c02AliasOps returns the alphabet of one step; %K is the step's constant.
// core: concatenate onto S, alias S.  full adds: prepend to S, S + S2, rebuild
// D from the elements of S.
func c02AliasOps(full bool) []string {
	var ops []string
	for _, d := range c02AliasVars {
		for _, s := range c02AliasVars {
			ops = append(ops, d+" = "+s+" + [%K]")
			if d != s {
				ops = append(ops, d+" = "+s)
			}
		}
	}
	if !full {
		return ops
	}
	for _, d := range c02AliasVars {
		for _, s := range c02AliasVars {
			ops = append(ops, d+" = [%K] + "+s)
			ops = append(ops, "for v in "+s+" {\n  "+d+" = "+d+" + [v]\n}")
			for _, s2 := range c02AliasVars {
				ops = append(ops, d+" = "+s+" + "+s2)
			}
		}
	}
	return ops
}

// s and t start out equal: a history that names t before s is the mirror image
// of one that names s first.
func c02AliasCanonical(steps []string) bool {
	for _, st := range steps {
		si, ti := c02WordIndex(st, "s"), c02WordIndex(st, "t")
		if ti >= 0 && (si < 0 || ti < si) {
			return false
		}
		if si >= 0 {
			return true
		}
	}
	return true
}

func c02WordIndex(s, w string) int {
	isID := func(b byte) bool {
		return b == '_' || b == '%' || (b >= '0' && b <= '9') || (b >= 'a' && b <= 'z') || (b >= 'A' && b <= 'Z')
	}
	for i := 0; i+len(w) <= len(s); i++ {
		if s[i:i+len(w)] == w && (i == 0 || !isID(s[i-1])) && (i+len(w) == len(s) || !isID(s[i+len(w)])) {
			return i
		}
	}
	return -1
}

// base arrays: origin x length
func c02AliasBaseLit(n int) string {
	es := make([]string, n)
	for i := range es {
		es[i] = strconv.Itoa(i + 1)
	}
	return "[" + strings.Join(es, ", ") + "]"
}

func c02AliasInputReqs(maxLen int) []c02Req {
	var rs []c02Req
	for n := 0; n <= maxLen; n++ {
		b := `{"r":` + strings.ReplaceAll(c02AliasBaseLit(n), " ", "") + `}`
		rs = append(rs, c02Req{Method: "POST", Body: &b, CType: "application/json"})
	}
	return rs
}

func c02AliasProgram(base string, steps []string) string {
	var b strings.Builder
	b.WriteString("@ POST /t {\n  $ r = " + base + "\n  $ s = []\n  $ t = []\n")
	for i, st := range steps {
		b.WriteString(c02Indent(strings.ReplaceAll(st, "%K", strconv.Itoa(10+i))) + "\n")
	}
	b.WriteString("  > {r: r, s: s, t: t}\n}\n")
	return b.String()
}

// c02L8 emits every canonical history of exactly 1..maxLen steps over the
// alphabet, (a) on the base array of the request body (lengths 0..4: one
// program, five requests) and (b) on literal and split() bases of the listed
// lengths.
func c02L8(level string, full bool, maxLen int, litLens []int, emit c02Emit) {
	c02L8From(level, full, maxLen, 0, litLens, emit)
}

// c02L8From: with the full alphabet, histories of <= coreDone steps that use
// core operations only are left out (the caller emits them separately).
func c02L8From(level string, full bool, maxLen, coreDone int, litLens []int, emit c02Emit) {
	ops := c02AliasOps(full)
	tag := "core"
	core := map[string]bool{}
	if full {
		tag = "full"
		for _, o := range c02AliasOps(false) {
			core[o] = true
		}
	}
	allCore := func(steps []string) bool {
		for _, s := range steps {
			if !core[s] {
				return false
			}
		}
		return true
	}
	var rec func(steps []string)
	rec = func(steps []string) {
		if len(steps) > 0 && c02AliasCanonical(steps) && !(full && len(steps) <= coreDone && allCore(steps)) {
			steps := append([]string{}, steps...)
			layer := fmt.Sprintf("L8-%s-len%d", tag, len(steps))
			emit(level, layer+"-input", func() (string, int, []c02Req) {
				return c02AliasProgram("input.r", steps), 0, c02AliasInputReqs(4)
			})
			for _, n := range litLens {
				n := n
				emit(level, layer+"-literal", func() (string, int, []c02Req) {
					return c02AliasProgram(c02AliasBaseLit(n), steps), 0, []c02Req{{Method: "POST"}}
				})
				if n > 0 {
					emit(level, layer+"-split", func() (string, int, []c02Req) {
						csv := strings.ReplaceAll(strings.Trim(c02AliasBaseLit(n), "[]"), " ", "")
						return c02AliasProgram(`split("`+csv+`", ",")`, steps), 0, []c02Req{{Method: "POST"}}
					})
				}
			}
		}
		if len(steps) == maxLen {
			return
		}
		for _, op := range ops {
			rec(append(steps, op))
		}
	}
	rec(nil)
}

// ---- HTTP level: the body grammar ----------------------------------------------------

var c02BodyPrefixes = []string{"", " \n", "\ufeff"}
var c02BodyValues = []string{`{"a":1,"b":"s"}`, `{}`, `[1,2]`, `7`, `"s"`, `null`, `{"a":`}
var c02BodyTrailers = []string{"", "\n", " \n{\"a\":2}\n", `{"a":2}`, ";", ",", "}", "]", " trailing", "\x00"}

// the handlers' limit on the bytes they read of a body (handlers.go maxBodySize,
// pkg/server maxRequestBodySize); the grammar pads bodies up to and past it
const c02BodyLimit = 10 << 20

var c02BodyProgs = []struct{ name, src string }{
	{"echo", "@ %M /t {\n  > {body: input}\n}\n"},
	{"field", "@ %M /t {\n  > input.a\n}\n"},
	{"null-test", "@ %M /t {\n  > input == null\n}\n"},
	{"typed", ": T {\n  a: int!\n  c: str = \"d\"\n}\n@ %M /t {\n  < input: T\n  > input\n}\n"},
}

func c02BodyMatrix(emit c02Emit, thorough bool) {
	for _, pg := range c02BodyProgs {
		for _, m := range []string{"GET", "POST", "PUT", "PATCH", "DELETE"} {
			src := strings.ReplaceAll(pg.src, "%M", m)
			for _, ct := range []string{"", "application/json"} {
				m, ct := m, ct
				emit("http", "body-"+pg.name, func() (string, int, []c02Req) {
					var rs []c02Req
					for _, p := range c02BodyPrefixes {
						for _, v := range c02BodyValues {
							for _, t := range c02BodyTrailers {
								rs = append(rs, c02Req{Method: m, Body: c02Str(p + v + t), CType: ct})
							}
						}
					}
					return src, 0, rs
				})
			}
		}
	}
	// the size dimension: one request per work item (a padded request costs 0.5-2 s).
	// The last byte of the body is the last byte within / the first byte past the
	// handlers' limit; thorough adds a size every plausible limit admits, the
	// typed program and DELETE.
	type sized struct {
		prog, method, body string
		pad                int
	}
	full, tail := `{"a":1,"b":"s"}`, `{"a":1};`
	cases := []sized{
		{"echo", "POST", full, c02BodyLimit - len(full)},
		{"echo", "POST", full, c02BodyLimit - len(full) + 1},
		{"echo", "POST", tail, c02BodyLimit - len(tail)},
	}
	if thorough {
		for _, pg := range []string{"echo", "typed"} {
			for _, m := range []string{"POST", "DELETE"} {
				for _, b := range []string{full, tail} {
					for _, pad := range []int{1 << 20, c02BodyLimit - len(b), c02BodyLimit - len(b) + 1} {
						if pg == "echo" && m == "POST" && pad != 1<<20 && !(b == tail && pad == c02BodyLimit-len(b)+1) {
							continue // in the quick list
						}
						cases = append(cases, sized{pg, m, b, pad})
					}
				}
			}
		}
	}
	for _, k := range cases {
		k := k
		emit("http", "body-size-"+k.prog, func() (string, int, []c02Req) {
			src := ""
			for _, pg := range c02BodyProgs {
				if pg.name == k.prog {
					src = strings.ReplaceAll(pg.src, "%M", k.method)
				}
			}
			return src, 0, []c02Req{{Method: k.method, Body: c02Str(k.body), Pad: k.pad, CType: "application/json"}}
		})
	}
}
