package main

import "fmt"

// L9: modules with two routes.  Whether a module is served compiled or falls back to the interpreter is decided for
// the module as a whole (setupRoutes), from what the compiler says about each route; a route that needs the
// interpreter must get it wherever it stands in the file.  Every ordered pair of distinct route bodies (each with the
// top-level items it needs) is one module; each of its two routes is requested on fresh servers in both modes.
type c02Part struct {
	name  string
	items string // top-level items the body needs
	body  string // statements of the route
}

func c02Parts() []c02Part {
	return []c02Part{
		{"plain", "", "  > {value: 1}\n"},
		{"arith", "", "  $ a = 6\n  $ b = a * 7\n  > {value: b}\n"},
		{"module-function", "! double(x: int): int {\n  > x * 2\n}\n", "  > {value: double(21)}\n"},
		{"module-function-default", "! bump(x: int, by: int = 1): int {\n  > x + by\n}\n", "  > {value: bump(41)}\n"},
		{"generic-function", "! ident<T>(x: T): T {\n  > x\n}\n", "  > {value: ident(4)}\n"},
		{"constant", "const K = 5\n", "  > {value: K + 1}\n"},
		{"match", "", "  $ r = match 3 {\n    3 => \"three\"\n    _ => \"other\"\n  }\n  > {value: r}\n"},
		{"async", "", "  $ f = async {\n    > 7\n  }\n  > {value: await f}\n"},
		{"for", "", "  $ s = 0\n  for v in [1, 2, 3] {\n    s = s + v\n  }\n  > {value: s}\n"},
		{"while", "", "  $ i = 0\n  while i < 3 {\n    i = i + 1\n  }\n  > {value: i}\n"},
		{"builtin", "", "  > {value: upper(\"ab\")}\n"},
		{"field-assign", "", "  $ o = {a: 1}\n  o.a = 2\n  > {value: o.a}\n"},
		{"switch", "", "  switch 2 {\n    case 2 {\n      > {value: \"two\"}\n    }\n    default {\n      > {value: \"d\"}\n    }\n  }\n"},
		{"typed-return", ": R {\n  value: int!\n}\n", "  > {value: 3}\n"},
		{"query-default-expr", "", "  ? page: int = 1 + 1\n  > {value: page}\n"},
		{"status", "", "  > {value: 1} :: 201\n"},
		{"guard", "", "  if 1 > 2 {\n    > {value: 0}\n  }\n  > {value: 9}\n"},
		{"string-interp", "", "  $ n = \"x\"\n  > {value: \"a\" + n}\n"},
	}
}

func c02L9(emit c02Emit) {
	parts := c02Parts()
	for i, a := range parts {
		for j, b := range parts {
			if i == j {
				continue
			}
			a, b := a, b
			hdr := func(p c02Part, path string) string {
				if p.name == "typed-return" {
					return "@ GET " + path + " -> R {\n"
				}
				return "@ GET " + path + " {\n"
			}
			src := a.items + b.items + hdr(a, "/first") + a.body + "}\n" + hdr(b, "/second") + b.body + "}\n"
			for route := 0; route < 2; route++ {
				route := route
				emit("http", fmt.Sprintf("two-routes-%s+%s", a.name, b.name), func() (string, int, []c02Req) {
					return src, route, []c02Req{{Method: "GET"}}
				})
			}
		}
	}
}
