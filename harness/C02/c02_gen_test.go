package main

// C02 harness, part 3: the enumerated space.  Programs are rendered to
// GlyphLang source text and go through the real lexer and parser; every layer
// is a finite set that is enumerated completely.

import (
	"fmt"
	"go/ast"
	"go/parser"
	"go/token"
	"path/filepath"
	"reflect"
	"sort"
	"strconv"
	"strings"

	"github.com/glyphlang/glyph/pkg/vm"
)

// c02Item is one work item: a program and the requests sent to it.
type c02Item struct {
	Level string   `json:"level"` // "engine" or "http"
	Layer string   `json:"layer"`
	Src   string   `json:"src"`
	Route int      `json:"route"` // index among the module's routes
	Reqs  []c02Req `json:"reqs"`
}

type c02Emit func(level, layer string, build func() (src string, route int, reqs []c02Req))

var c02BinOps = []string{"+", "-", "*", "/", "%", "==", "!=", "<", "<=", ">", ">=", "&&", "||"}

// value shapes: source literal and JSON spelling
type c02Shape struct{ lit, json string }

var c02Shapes = []c02Shape{
	{`0`, `0`}, {`1`, `1`}, {`-1`, `-1`}, {`9223372036854775807`, `9223372036854775807`},
	// distinct integers beyond 2^53 that round to the same float64
	{`9007199254740992`, `9007199254740992`}, {`9007199254740993`, `9007199254740993`},
	{`1.5`, `1.5`}, {`2.0`, `2.0`},
	{`""`, `""`}, {`"a"`, `"a"`}, {`"b"`, `"b"`}, {`"10"`, `"10"`},
	{`true`, `true`}, {`false`, `false`}, {`null`, `null`},
	{`[]`, `[]`}, {`[1, 2]`, `[1,2]`}, {`{a: 1}`, `{"a":1}`},
}

// a smaller set for the third argument of built-ins and for wide products
var c02SmallShapes = []c02Shape{
	{`0`, `0`}, {`1`, `1`}, {`-1`, `-1`}, {`1.5`, `1.5`}, {`"a"`, `"a"`}, {`""`, `""`}, {`true`, `true`}, {`null`, `null`}, {`[1, 2]`, `[1,2]`}, {`{a: 1}`, `{"a":1}`},
}

var c02QueryVals = []string{"0", "1", "-1", "1.5", "2.0", "", "a", "true", "10", "a%20b"}

func c02Get() []c02Req { return []c02Req{{Method: "GET"}} }

func c02Route(body string) string { return "@ GET /t {\n" + body + "\n}\n" }

// ---- L1: operators x operand shapes -----------------------------------------

func c02L1(level string, emit c02Emit) {
	for _, op := range c02BinOps {
		for _, a := range c02Shapes {
			for _, b := range c02Shapes {
				op, a, b := op, a, b
				emit(level, "L1-lit", func() (string, int, []c02Req) {
					return c02Route("  > " + a.lit + " " + op + " " + b.lit), 0, c02Get()
				})
				emit(level, "L1-var", func() (string, int, []c02Req) {
					return c02Route("  $ a = " + a.lit + "\n  $ b = " + b.lit + "\n  > a " + op + " b"), 0, c02Get()
				})
				emit(level, "L1-input", func() (string, int, []c02Req) {
					body := `{"a":` + a.json + `,"b":` + b.json + `}`
					return "@ POST /t {\n  > input.a " + op + " input.b\n}\n", 0, []c02Req{{Method: "POST", Body: &body, CType: "application/json"}}
				})
			}
		}
		for _, a := range c02QueryVals {
			for _, b := range c02QueryVals {
				op, a, b := op, a, b
				emit(level, "L1-query", func() (string, int, []c02Req) {
					return c02Route("  > query.a " + op + " query.b"), 0, []c02Req{{Method: "GET", Query: "a=" + a + "&b=" + b}}
				})
			}
		}
		for _, a := range []string{"1", "a", "b", "1.5"} {
			for _, b := range []string{"1", "a", "b"} {
				op, a, b := op, a, b
				emit(level, "L1-path", func() (string, int, []c02Req) {
					return "@ GET /t/:p/:q {\n  > p " + op + " q\n}\n", 0, []c02Req{{Method: "GET", Params: map[string]string{"p": a, "q": b}}}
				})
			}
		}
	}
	for _, op := range []string{"!", "-"} {
		for _, a := range c02Shapes {
			op, a := op, a
			emit(level, "L1-unary", func() (string, int, []c02Req) {
				return c02Route("  > " + op + a.lit), 0, c02Get()
			})
			emit(level, "L1-unary", func() (string, int, []c02Req) {
				return c02Route("  $ a = " + a.lit + "\n  > " + op + "a"), 0, c02Get()
			})
			emit(level, "L1-unary", func() (string, int, []c02Req) {
				body := `{"a":` + a.json + `}`
				return "@ POST /t {\n  > " + op + "input.a\n}\n", 0, []c02Req{{Method: "POST", Body: &body}}
			})
		}
	}
}

// ---- L2: precedence / associativity pairs -------------------------------------

var c02Triples = [][3]string{
	{"7", "3", "2"}, {"true", "false", "true"}, {"1.5", "2", "4"}, {`"a"`, `"b"`, `"a"`}, {"6", "2", "0"}, {"false", "1", "2"}, {"2", "2", "true"},
}

func c02L2(level string, emit c02Emit) {
	for _, op1 := range c02BinOps {
		for _, op2 := range c02BinOps {
			for _, t := range c02Triples {
				op1, op2, t := op1, op2, t
				emit(level, "L2-lit", func() (string, int, []c02Req) {
					return c02Route(fmt.Sprintf("  > %s %s %s %s %s", t[0], op1, t[1], op2, t[2])), 0, c02Get()
				})
				emit(level, "L2-var", func() (string, int, []c02Req) {
					return c02Route(fmt.Sprintf("  $ a = %s\n  $ b = %s\n  $ c = %s\n  > a %s b %s c", t[0], t[1], t[2], op1, op2)), 0, c02Get()
				})
			}
		}
	}
	pairs := [][2]string{{"3", "2"}, {"true", "false"}, {"1.5", "2"}, {"false", "1"}}
	for _, op := range c02BinOps {
		for _, pr := range pairs {
			for _, form := range []string{"-a %s b", "!a %s b", "a %s -b", "a %s !b", "-(a %s b)", "!(a %s b)"} {
				op, pr, form := op, pr, form
				emit(level, "L2-unary", func() (string, int, []c02Req) {
					e := fmt.Sprintf(form, op)
					return c02Route(fmt.Sprintf("  $ a = %s\n  $ b = %s\n  > %s", pr[0], pr[1], e)), 0, c02Get()
				})
				emit(level, "L2-unary", func() (string, int, []c02Req) {
					e := fmt.Sprintf(form, op)
					e = strings.ReplaceAll(strings.ReplaceAll(e, "a", pr[0]), "b", pr[1])
					return c02Route("  > " + e), 0, c02Get()
				})
			}
		}
	}
}

// ---- L3: statement lists --------------------------------------------------------

// leaf statements over the variables x (int), o (object), r (array)
var c02Leaves = []string{
	`$ y = 5`,
	`x = x * 2`,
	`$ o.a = 7`,
	`$ o.c = x`,
	`r[0] = 9`,
	`o["a"] = 3`,
	`> x :: 201`,
	`> o`,
	`? x > 1 :: 404 "nope"`,
	`? x < 100 :: 400`,
	`$ x = "s"`,
	`length(r)`,
	`z = 1`,
	`$ r = [x]`,
}

// leaves allowed inside blocks (adds the $-update of an outer variable and loop control)
var c02BlockLeaves = append(append([]string{}, c02Leaves...), `$ x = x + 1`, `break`, `continue`)

func c02Compounds(leaves []string, depth int) []string {
	var out []string
	bodies := leaves
	if depth > 1 {
		bodies = append(append([]string{}, leaves...), c02Compounds([]string{`x = x * 2`, `> x :: 201`, `$ y = 5`, `break`, `$ o.a = 7`}, depth-1)...)
	}
	loopOK := func(b string) bool { return true }
	for _, b := range bodies {
		inLoopOnly := strings.HasPrefix(b, "break") || strings.HasPrefix(b, "continue")
		if !inLoopOnly {
			out = append(out,
				"if x > 1 {\n"+b+"\n}",
				"if x == 1 {\n"+b+"\n} else {\n$ y = 6\n}",
				"if x > 1 {\n$ y = 6\n} else {\n"+b+"\n}",
				"switch x {\ncase 1 {\n"+b+"\n}\ncase 2 {\nx = 40\n}\ndefault {\nx = 50\n}\n}",
				"switch x {\ncase 7 {\nx = 40\n}\ndefault {\n"+b+"\n}\n}",
			)
		}
		if loopOK(b) {
			out = append(out,
				"while x < 4 {\n$ x = x + 1\n"+b+"\n}",
				"for v in r {\n"+b+"\n}",
				"for i, v in r {\n"+b+"\n$ x = x + i\n}",
				"for k, v in {a: 1} {\n"+b+"\n$ x = x + v\n}",
			)
		}
	}
	return out
}

const c02Prologue = "  $ x = 1\n  $ o = {a: 1, b: \"s\"}\n  $ r = [1, 2, 3]\n"
const c02Epilogue = "  > {x: x, o: o, r: r}"

func c02Indent(s string) string {
	lines := strings.Split(s, "\n")
	for i := range lines {
		lines[i] = "  " + lines[i]
	}
	return strings.Join(lines, "\n")
}

func c02L3Atoms(thorough bool) []string {
	atoms := append([]string{}, c02Leaves...)
	depth := 1
	if thorough {
		depth = 2
	}
	atoms = append(atoms, c02Compounds(c02BlockLeaves, depth)...)
	return atoms
}

func c02L3(level string, thorough bool, maxLen int, emit c02Emit) {
	atoms := c02L3Atoms(thorough)
	second := atoms
	if thorough {
		second = c02L3Atoms(false)
	}
	for _, a := range atoms {
		a := a
		emit(level, "L3-len1", func() (string, int, []c02Req) {
			return c02Route(c02Prologue + c02Indent(a) + "\n" + c02Epilogue), 0, c02Get()
		})
		emit(level, "L3-len1-noreturn", func() (string, int, []c02Req) {
			return c02Route(c02Prologue + c02Indent(a)), 0, c02Get()
		})
	}
	if maxLen < 2 {
		return
	}
	for _, a := range atoms {
		for _, b := range second {
			a, b := a, b
			emit(level, "L3-len2", func() (string, int, []c02Req) {
				return c02Route(c02Prologue + c02Indent(a) + "\n" + c02Indent(b) + "\n" + c02Epilogue), 0, c02Get()
			})
		}
	}
	if maxLen < 3 {
		return
	}
	small := append(append([]string{}, c02Leaves...), c02Compounds([]string{`x = x * 2`, `> x :: 201`, `$ o.a = 7`, `$ x = x + 1`, `break`, `continue`, `$ y = 5`}, 1)...)
	for _, a := range small {
		for _, b := range small {
			for _, c := range small {
				a, b, c := a, b, c
				emit(level, "L3-len3", func() (string, int, []c02Req) {
					return c02Route(c02Prologue + c02Indent(a) + "\n" + c02Indent(b) + "\n" + c02Indent(c) + "\n" + c02Epilogue), 0, c02Get()
				})
			}
		}
	}
}

// ---- L4: built-in functions ------------------------------------------------------

// c02BuiltinNames reads the names of both engines' built-in tables: the VM's by
// reflection on a fresh VM, the interpreter's from its sources (the table is a
// package-level map literal plus index assignments in init functions).
func c02BuiltinNames() (vmNames, interpNames []string, err error) {
	m := reflect.ValueOf(vm.NewVM()).Elem().FieldByName("builtins")
	if !m.IsValid() || m.Kind() != reflect.Map {
		return nil, nil, fmt.Errorf("vm.VM has no builtins map")
	}
	for _, k := range m.MapKeys() {
		vmNames = append(vmNames, k.String())
	}
	sort.Strings(vmNames)
	files, _ := filepath.Glob("../../pkg/interpreter/*.go")
	seen := map[string]bool{}
	fset := token.NewFileSet()
	for _, f := range files {
		if strings.HasSuffix(f, "_test.go") {
			continue
		}
		af, perr := parser.ParseFile(fset, f, nil, 0)
		if perr != nil {
			return nil, nil, perr
		}
		ast.Inspect(af, func(n ast.Node) bool {
			as, ok := n.(*ast.AssignStmt)
			if !ok || len(as.Lhs) != 1 || len(as.Rhs) != 1 {
				return true
			}
			switch l := as.Lhs[0].(type) {
			case *ast.Ident:
				if l.Name != "builtinFuncs" {
					return true
				}
				if cl, ok := as.Rhs[0].(*ast.CompositeLit); ok {
					for _, el := range cl.Elts {
						if kv, ok := el.(*ast.KeyValueExpr); ok {
							if bl, ok := kv.Key.(*ast.BasicLit); ok && bl.Kind == token.STRING {
								s, _ := strconv.Unquote(bl.Value)
								seen[s] = true
							}
						}
					}
				}
			case *ast.IndexExpr:
				if id, ok := l.X.(*ast.Ident); ok && id.Name == "builtinFuncs" {
					if bl, ok := l.Index.(*ast.BasicLit); ok && bl.Kind == token.STRING {
						s, _ := strconv.Unquote(bl.Value)
						seen[s] = true
					}
				}
			}
			return true
		})
	}
	for k := range seen {
		interpNames = append(interpNames, k)
	}
	sort.Strings(interpNames)
	if len(interpNames) < 10 {
		return nil, nil, fmt.Errorf("interpreter built-in table not found in sources (%d names)", len(interpNames))
	}
	return vmNames, interpNames, nil
}

// wall-clock, random, network and connection-bound built-ins are outside the alphabet
func c02ExcludedBuiltin(name string) bool {
	l := strings.ToLower(name)
	switch {
	case l == "now", strings.HasPrefix(l, "time."), strings.HasPrefix(l, "random"), l == "generateid", strings.Contains(l, "uuid"),
		strings.HasPrefix(l, "http."), strings.HasPrefix(l, "ws."), l == "sleep":
		return true
	}
	return false
}

func c02Builtins() (all []string, vmSet, interpSet map[string]bool, excluded []string, err error) {
	v, i, err := c02BuiltinNames()
	if err != nil {
		return nil, nil, nil, nil, err
	}
	vmSet, interpSet = map[string]bool{}, map[string]bool{}
	u := map[string]bool{}
	for _, n := range v {
		vmSet[n] = true
		u[n] = true
	}
	for _, n := range i {
		interpSet[n] = true
		u[n] = true
	}
	for n := range u {
		if c02ExcludedBuiltin(n) {
			excluded = append(excluded, n)
			continue
		}
		all = append(all, n)
	}
	sort.Strings(all)
	sort.Strings(excluded)
	return
}

func c02L4(level string, names []string, maxArity int, emit c02Emit) {
	for _, name := range names {
		name := name
		emit(level, "L4-arity0", func() (string, int, []c02Req) { return c02Route("  > " + name + "()"), 0, c02Get() })
		for _, a := range c02Shapes {
			a := a
			emit(level, "L4-arity1", func() (string, int, []c02Req) {
				return c02Route("  > " + name + "(" + a.lit + ")"), 0, c02Get()
			})
			emit(level, "L4-arity1-var", func() (string, int, []c02Req) {
				return c02Route("  $ a = " + a.lit + "\n  > " + name + "(a)"), 0, c02Get()
			})
			if !strings.Contains(name, ".") {
				emit(level, "L4-method", func() (string, int, []c02Req) {
					return c02Route("  $ a = " + a.lit + "\n  > a." + name + "()"), 0, c02Get()
				})
			}
			for _, b := range c02Shapes {
				b := b
				emit(level, "L4-arity2", func() (string, int, []c02Req) {
					return c02Route("  > " + name + "(" + a.lit + ", " + b.lit + ")"), 0, c02Get()
				})
			}
		}
		// string/array specific second and third arguments
		for _, a := range []string{`"hello world"`, `"a,b,c"`, `[3, 1, 2]`, `["x", "y"]`, `{a: 1, b: 2}`} {
			for _, b := range c02SmallShapes {
				a, b := a, b
				emit(level, "L4-arity2", func() (string, int, []c02Req) {
					return c02Route("  > " + name + "(" + a + ", " + b.lit + ")"), 0, c02Get()
				})
				if !strings.Contains(name, ".") {
					emit(level, "L4-method", func() (string, int, []c02Req) {
						return c02Route("  $ a = " + a + "\n  > a." + name + "(" + b.lit + ")"), 0, c02Get()
					})
				}
			}
			for _, b := range []string{`","`, `"o"`, `"l"`, `1`, `0`} {
				for _, c := range []string{`"-"`, `3`, `0`, `-1`, `100`, `null`} {
					a, b, c := a, b, c
					emit(level, "L4-arity3", func() (string, int, []c02Req) {
						return c02Route("  > " + name + "(" + a + ", " + b + ", " + c + ")"), 0, c02Get()
					})
				}
			}
		}
		// a text whose length in characters and in bytes differ x every index up to past the byte length
		for _, a := range []string{`"日本語"`, `"aé"`} {
			for _, b := range []string{"0", "1", "2", "3", "4"} {
				a, b := a, b
				emit(level, "L4-arity2", func() (string, int, []c02Req) {
					return c02Route("  > " + name + "(" + a + ", " + b + ")"), 0, c02Get()
				})
				for _, c := range []string{"0", "1", "2", "3", "4", "5", "9", "10"} {
					c := c
					emit(level, "L4-arity3", func() (string, int, []c02Req) {
						return c02Route("  > " + name + "(" + a + ", " + b + ", " + c + ")"), 0, c02Get()
					})
				}
			}
		}
		if maxArity >= 3 {
			for _, a := range c02SmallShapes {
				for _, b := range c02SmallShapes {
					for _, c := range c02SmallShapes {
						a, b, c := a, b, c
						emit(level, "L4-arity3", func() (string, int, []c02Req) {
							return c02Route("  > " + name + "(" + a.lit + ", " + b.lit + ", " + c.lit + ")"), 0, c02Get()
						})
					}
				}
			}
			emit(level, "L4-arity4", func() (string, int, []c02Req) { return c02Route("  > " + name + "(1, 2, 3, 4)"), 0, c02Get() })
		}
	}
}

// ---- L5: functions, match, callbacks; L6: scoping; misc --------------------------

const c02Funcs = `! add(a: int, b: int = 2): int {
  > a + b
}
! greet(name: str!, punct: str = "!"): str {
  > "hi " + name + punct
}
! opt(a: int, b: str): str {
  > "ok"
}
! dbl(n: int): int {
  > n * 2
}
! isBig(n: int): bool {
  > n > 1
}
! sum2(acc: int, n: int): int {
  > acc + n
}
! noret(a: int) {
  $ q = a
}
! bad(a: int): str {
  > a
}
`

func c02L5(level string, emit c02Emit) {
	args := []string{``, `1`, `1, 2`, `1, 2, 3`, `"a"`, `"a", "b"`, `1.5`, `null`, `2.0`}
	for _, f := range []string{"add", "greet", "opt", "dbl", "noret", "bad", "missing"} {
		for _, a := range args {
			f, a := f, a
			emit(level, "L5-call", func() (string, int, []c02Req) {
				return c02Funcs + c02Route("  > "+f+"("+a+")"), 0, c02Get()
			})
		}
	}
	emit(level, "L5-call", func() (string, int, []c02Req) {
		return c02Funcs + c02Route("  $ v = add(1)\n  > {v: v, w: dbl(v)}"), 0, c02Get()
	})
	emit(level, "L5-call", func() (string, int, []c02Req) {
		return c02Funcs + c02Route("  dbl(2)\n  > 1"), 0, c02Get()
	})
	emit(level, "L5-call", func() (string, int, []c02Req) {
		body := `{"a":3}`
		return c02Funcs + "@ POST /t {\n  > dbl(input.a)\n}\n", 0, []c02Req{{Method: "POST", Body: &body}}
	})
	emit(level, "L5-const", func() (string, int, []c02Req) { return "const LIMIT = 10\n" + c02Route("  > LIMIT + 1"), 0, c02Get() })
	emit(level, "L5-const", func() (string, int, []c02Req) {
		return "const LIMIT = 10\n" + c02Route("  LIMIT = 3\n  > LIMIT"), 0, c02Get()
	})
	// callbacks by name
	for _, call := range []string{`map([1, 2, 3], dbl)`, `filter([1, 2, 3], isBig)`, `reduce([1, 2, 3], sum2, 0)`, `find([1, 2, 3], isBig)`, `some([1, 2, 3], isBig)`, `every([1, 2, 3], isBig)`, `sort([3, 1, 2])`, `map([], dbl)`, `map([1], missing)`, `[1, 2] |> length`, `[1, 2, 3] |> map(dbl)`} {
		call := call
		emit(level, "L5-callback", func() (string, int, []c02Req) { return c02Funcs + c02Route("  > "+call), 0, c02Get() })
	}
	// match: every pattern form x every shape
	patterns := []string{`1`, `0`, `1.5`, `2.0`, `1.0`, `"a"`, `""`, `true`, `false`, `null`, `n`, `_`, `{a}`, `{a: 1}`, `{a: n}`, `{zz}`, `[x, y]`, `[x]`, `[]`, `[h, ...t]`, `[1, y]`, `n when n > 1`, `n when n == "a"`, `{a} when a == 1`}
	for _, pt := range patterns {
		for _, s := range c02Shapes {
			pt, s := pt, s
			result := `"hit"`
			switch {
			case strings.HasPrefix(pt, "n"), strings.Contains(pt, ": n"):
				result = `[n]`
			case strings.HasPrefix(pt, "{a}"):
				result = `[a]`
			case strings.HasPrefix(pt, "[x, y]"):
				result = `[x, y]`
			case pt == "[x]":
				result = `[x]`
			case strings.HasPrefix(pt, "[h"):
				result = `[h, t]`
			case pt == "[1, y]":
				result = `[y]`
			case pt == "{zz}":
				result = `[zz]`
			}
			emit(level, "L5-match", func() (string, int, []c02Req) {
				return c02Route("  $ v = " + s.lit + "\n  > match v {\n    " + pt + " => " + result + ",\n    _ => \"miss\"\n  }"), 0, c02Get()
			})
			emit(level, "L5-match-nodefault", func() (string, int, []c02Req) {
				return c02Route("  $ v = " + s.lit + "\n  $ m = match v {\n    " + pt + " => " + result + "\n  }\n  > {m: m}"), 0, c02Get()
			})
		}
	}
	for _, s := range c02Shapes {
		s := s
		emit(level, "L5-match-input", func() (string, int, []c02Req) {
			body := `{"a":` + s.json + `}`
			return "@ POST /t {\n  > match input.a {\n    1 => \"one\",\n    2.0 => \"two\",\n    \"a\" => \"A\",\n    true => \"T\",\n    null => \"N\",\n    [x, y] => [y, x],\n    {a} => a,\n    n => [n]\n  }\n}\n", 0, []c02Req{{Method: "POST", Body: &body}}
		})
	}
}

// hand-written programs: field/index access corners, scoping, async, validation,
// declared types; each runs at both levels with the requests listed.
type c02Hand struct {
	src  string
	reqs []c02Req
}

func c02HandPrograms() []c02Hand {
	g := c02Get()
	post := func(bodies ...string) []c02Req {
		var rs []c02Req
		for _, b := range bodies {
			b := b
			rs = append(rs, c02Req{Method: "POST", Body: &b, CType: "application/json"})
		}
		rs = append(rs, c02Req{Method: "POST"})
		return rs
	}
	var hs []c02Hand
	add := func(reqs []c02Req, bodies ...string) {
		for _, b := range bodies {
			hs = append(hs, c02Hand{c02Route(b), reqs})
		}
	}
	// field and index access
	add(g,
		"  $ o = {a: 1}\n  > o.c",
		"  $ o = {a: 1}\n  > o.a",
		"  $ o = {a: {b: 2}}\n  > o.a.b",
		"  $ o = {a: {b: 2}}\n  > o.a.c",
		"  $ o = {a: 1}\n  > o.a.b",
		"  $ o = {a: null}\n  > o.a.b",
		"  $ o = {a: 1}\n  > o[\"a\"]",
		"  $ o = {a: 1}\n  > o[\"zz\"]",
		"  $ o = {a: 1}\n  > o[0]",
		"  $ r = [1, 2]\n  > r[0]",
		"  $ r = [1, 2]\n  > r[2]",
		"  $ r = [1, 2]\n  > r[-1]",
		"  $ r = [1, 2]\n  > r[\"a\"]",
		"  $ r = [1, 2]\n  > r[1.0]",
		"  $ r = [[1, 2], [3]]\n  > r[1][0]",
		"  $ s = \"abc\"\n  > s[0]",
		"  $ s = \"abc\"\n  > s.a",
		"  $ n = null\n  > n.a",
		"  $ n = 5\n  > n.a",
		"  $ r = [1, 2]\n  > r.length",
		"  $ o = {items: [1, 2]}\n  > o.items[1]",
		"  $ o = {items: [1, 2]}\n  > o.items[5]",
		"  > input",
		"  > input.a",
		"  > input.a.b",
		"  > query",
		"  > query.b",
		"  > headers",
		"  > headers.Xtest",
		"  > headers[\"Xtest\"]",
		"  > undefinedVar",
		"  > {a: 1, a: 2}",
		"  > {__glyph_status: 201, __glyph_body: \"x\"}",
		"  > {__glyph_status: \"x\"}",
		"  > [1, \"a\", null, true, 1.5, {a: []}]",
		"  > 9223372036854775807 + 1",
		"  > -9223372036854775807 - 2",
		"  > 1 / 0",
		"  > 1.5 / 0",
		"  > 1 % 0",
		"  > 7 / 2",
		"  > -7 / 2",
		"  > -7 % 2",
		"  > 7.5 % 2",
		"  > 0.1 + 0.2",
		"  > 1 / 3.0",
	)
	// statements without a final return, empty bodies
	add(g, "", "  $ x = 1", "  $ x = 1\n  x = 2", "  if true {\n    $ y = 1\n  }", "  length([1])", "  ? true :: 404", "  for v in [1, 2] {\n    $ y = v\n  }", "  while false {\n    $ y = 1\n  }")
	// scoping
	add(g,
		"  $ x = 1\n  if true {\n    $ x = 2\n  }\n  > x",
		"  if true {\n    $ y = 2\n  }\n  > y",
		"  $ x = 1\n  if true {\n    $ y = 2\n    x = y\n  }\n  > x",
		"  for v in [1, 2] {\n    $ t = v\n  }\n  > v",
		"  for v in [1, 2] {\n    $ t = v\n  }\n  > t",
		"  $ v = 9\n  for v in [1, 2] {\n    $ t = v\n  }\n  > v",
		"  $ t = 0\n  for v in [1, 2] {\n    $ t = t + v\n  }\n  > t",
		"  $ i = 0\n  $ acc = []\n  while i < 3 {\n    $ i = i + 1\n    $ loc = i * 2\n    acc = acc + [loc]\n  }\n  > acc",
		"  $ i = 0\n  while i < 3 {\n    $ i = i + 1\n    $ loc = i\n  }\n  > loc",
		"  $ x = 1\n  $ x = 2\n  > x",
		"  $ x = 1\n  switch x {\n    case 1 {\n      $ y = 2\n    }\n  }\n  > y",
		"  $ x = 1\n  $ m = match x {\n    n => n + 1\n  }\n  > n",
		"  $ n = 5\n  $ m = match 1 {\n    n => n + 1\n  }\n  > [m, n]",
		"  $ k = 5\n  for k, v in [7] {\n    $ t = v\n  }\n  > k",
		"  $ input = 5\n  > input",
		"  $ query = 5\n  > query",
		"  $ headers = 5\n  > headers",
		"  $ length = 5\n  > length",
		"  $ a = [1, 2]\n  $ b = a\n  b[0] = 9\n  > a",
		"  $ a = {k: 1}\n  $ b = a\n  $ b.k = 9\n  > a",
		"  $ a = [1, 2]\n  $ b = a + [3]\n  > {a: a, b: b}",
		"  $ o = {a: {b: 1}}\n  $ o.a.b = 2\n  > o",
		"  $ o = {a: 1}\n  $ o.z.y = 2\n  > o",
		"  $ o = 1\n  $ o.a = 2\n  > o",
		"  $ o.a = 2\n  > 1",
		"  $ x: int = 3\n  > x",
		"  $ x: int\n  > x",
		"  let x = 3\n  return x",
	)
	// loops with break/continue and nested loops
	add(g,
		"  $ acc = []\n  for v in [1, 2, 3, 4] {\n    if v == 2 {\n      continue\n    }\n    if v == 4 {\n      break\n    }\n    acc = acc + [v]\n  }\n  > acc",
		"  $ acc = []\n  for i, v in [5, 6] {\n    for j, w in [7, 8] {\n      if j == 1 {\n        break\n      }\n      acc = acc + [[i, j, v + w]]\n    }\n  }\n  > acc",
		"  $ i = 0\n  $ n = 0\n  while i < 5 {\n    $ i = i + 1\n    if i % 2 == 0 {\n      continue\n    }\n    n = n + i\n  }\n  > n",
		"  $ n = 0\n  for k, v in {a: 1, b: 2, c: 3} {\n    n = n + v\n  }\n  > n",
		"  $ n = 0\n  for v in {a: 1, b: 2} {\n    n = n + v\n  }\n  > n",
		"  $ ks = []\n  for k, v in {a: 1} {\n    ks = ks + [k]\n  }\n  > ks",
		"  for v in 5 {\n    $ y = v\n  }\n  > 1",
		"  for v in \"abc\" {\n    $ y = v\n  }\n  > 1",
		"  for v in null {\n    $ y = v\n  }\n  > 1",
		"  for v in [1, 2] {\n    > v\n  }\n  > 0",
		"  $ i = 0\n  while i < 3 {\n    $ i = i + 1\n    if i == 2 {\n      > i :: 202\n    }\n  }\n  > 0",
		"  break\n  > 1",
		"  if true {\n    continue\n  }\n  > 1",
		"  if 1 {\n    > 1\n  }\n  > 2",
		"  while 1 {\n    > 1\n  }\n  > 2",
		"  if null {\n    > 1\n  }\n  > 2",
		"  ? 1 :: 404\n  > 2",
		"  ? null :: 404 \"m\"\n  > 2",
		"  ? false :: 404\n  > 2",
		"  ? false :: 200 \"fine\"\n  > 2",
		"  ? false :: 404 \"first\"\n  ? false :: 400 \"second\"\n  > 2",
		"  > 1 :: 201",
		"  > null :: 204",
		"  > {a: 1} :: 404",
		"  > \"x\" :: 500",
		"  > 1 :: 302",
		"  switch \"a\" {\n    case \"a\" {\n      > 1\n    }\n  }\n  > 0",
		"  switch 1 {\n    case 1.0 {\n      > \"float\"\n    }\n    case 1 {\n      > \"int\"\n    }\n  }\n  > 0",
		"  switch null {\n    case null {\n      > 1\n    }\n  }\n  > 0",
		"  switch [1] {\n    case [1] {\n      > 1\n    }\n    default {\n      > 2\n    }\n  }",
		"  $ x = 2\n  switch x {\n    case 1 {\n      > 1\n    }\n    case 1 + 1 {\n      > 2\n    }\n  }\n  > 0",
		"  $ x = 1\n  switch x {\n    case 1 {\n      x = 2\n    }\n    case 2 {\n      x = 3\n    }\n  }\n  > x",
	)
	// short-circuit and evaluation order
	add(g,
		"  > false && (1 / 0 == 0)",
		"  > true || (1 / 0 == 0)",
		"  $ o = {a: 1}\n  > o.c != null && o.c.d == 1",
		"  $ r = []\n  > length(r) > 0 && r[0] == 1",
		"  > true && (1 / 0 == 0)",
		"  > false && 1",
		"  > true || 1",
		"  > false || 1",
		"  > 1 && true",
		"  > null == null",
		"  > null == false",
		"  > null != 0",
		"  > [1] == [1]",
		"  $ a = [1]\n  > a == a",
		"  > {a: 1} == {a: 1}",
		"  > \"1\" == 1",
		"  > 1 == 1.0",
		"  > 1.0 == 1",
		"  > 1 != 1.0",
		"  > \"a\" < \"b\"",
		"  > \"a\" + 1",
		"  > 1 + \"a\"",
		"  > \"a\" + 1.5",
		"  > \"a\" + true",
		"  > \"a\" + null",
		"  > \"a\" * 2",
		"  > [1] + [2]",
		"  > [1] + 2",
		"  > !!true",
		"  > - -1",
		"  > -(1.5)",
		"  > !0",
	)
	// async / await
	add(g,
		"  $ f = async {\n    > 1\n  }\n  > await f",
		"  $ x = 2\n  $ f = async {\n    > x + 1\n  }\n  > await f",
		"  $ f = async {\n    $ y = 3\n  }\n  > await f",
		"  $ f = async {\n    > 1 / 0\n  }\n  > await f",
		"  $ f = async {\n    > undefinedThing\n  }\n  > await f",
		"  $ f = async {\n    if true {\n      > 1\n    }\n    > 2\n  }\n  > await f",
		"  $ f = async {\n    $ y = 1\n    if y == 1 {\n      y = 5\n    }\n    > y\n  }\n  > await f",
		"  $ f = async {\n    > 1\n  }\n  $ g = async {\n    > 2\n  }\n  > [await f, await g]",
		"  $ f = async {\n    > 1\n  }\n  $ a = await f\n  $ b = await f\n  > [a, b]",
		"  > await 1",
		"  > await null",
		"  $ v = await \"x\"\n  > v",
		"  > await async {\n    > 7\n  }",
		"  $ f = async {\n    > {a: [1, 2]}\n  }\n  $ v = await f\n  > v.a[1]",
	)
	// validation statements
	add(g,
		"  ? validate()\n  > 1",
		"  ? length(\"abc\")\n  > 1",
		"  ? contains(\"abc\", \"a\")\n  > 1",
		"  ? contains(\"abc\", \"z\")\n  > 1",
		"  ? startsWith(\"abc\", \"z\")\n  > 1",
		"  ? upper(\"a\")\n  > 1",
	)
	hs = append(hs, c02Hand{c02Funcs + c02Route("  ? isBig(5)\n  > 1"), g}, c02Hand{c02Funcs + c02Route("  ? isBig(0)\n  > 1"), g})
	// declared return types
	for _, rt := range []string{"int", "str", "bool", "float", "int[]", "User", "Missing"} {
		for _, v := range []string{`1`, `"s"`, `true`, `1.5`, `2.0`, `null`, `[1]`, `["a"]`, `{name: "n", age: 3}`, `{name: "n"}`, `{age: 3}`, `{name: 1, age: 3}`, `1 :: 201`} {
			hs = append(hs, c02Hand{": User {\n  name: str!\n  age: int\n}\n@ GET /t -> " + rt + " {\n  > " + v + "\n}\n", g})
		}
	}
	// typed input with defaults and required fields
	bodies := []string{`{}`, `{"a":"n"}`, `{"a":"n","age":7}`, `{"a":1}`, `{"age":"x"}`, `{"a":"n","age":1.5}`, `{"a":null}`, `{"a":"n","extra":true}`, `{"a":"n","tags":["a"]}`, `{"a":"n","tags":[1]}`, `[1]`, `"s"`, `{"a":`, ``}
	for _, m := range []string{"POST", "PUT", "PATCH", "DELETE"} {
		src := ": NewUser {\n  a: str!\n  age: int = 5\n  role: str = \"user\"\n  tags: str[]\n}\n@ " + m + " /t {\n  < input: NewUser\n  > input\n}\n"
		var rs []c02Req
		for _, b := range bodies {
			b := b
			rs = append(rs, c02Req{Method: m, Body: &b, CType: "application/json"})
		}
		rs = append(rs, c02Req{Method: m})
		hs = append(hs, c02Hand{src, rs})
		hs = append(hs, c02Hand{strings.Replace(src, "> input", "> {n: input.a, a: input.age, r: input.role}", 1), rs})
		hs = append(hs, c02Hand{strings.Replace(src, "< input: NewUser", "< input: Missing", 1), rs})
		hs = append(hs, c02Hand{strings.Replace(src, "  tags: str[]\n", "  tags: str[] = []\n  n: int = 1 + 1\n  m: int = -1\n", 1), rs})
		hs = append(hs, c02Hand{strings.Replace(src, "< input: NewUser", "< input: int", 1), rs})
	}
	// request-derived arithmetic and coercions
	add(post(`{"a":3}`, `{"a":3.5}`, `{"a":"3"}`, `{"a":null}`, `{"a":[1]}`, `{}`, `{"a":9007199254740993}`),
		"  > input.a + 1", "  > input.a * 2", "  > input.a / 2", "  > input.a % 2", "  > input.a == 3", "  > input.a > 2", "  > [1, 2, 3, 4][input.a]", "  > -input.a",
		"  $ r = [10, 20, 30, 40]\n  > r[input.a]", "  > {a: input.a}", "  > input.a + input.a", "  > \"v=\" + input.a",
		"  > length(input)", "  > input == null", "  if input == null {\n    > \"none\" :: 400\n  }\n  > input.a",
	)
	for i := range hs[len(hs)-15:] {
		h := &hs[len(hs)-15+i]
		h.src = strings.Replace(h.src, "@ GET /t", "@ POST /t", 1)
	}
	// modules exercising the CLI's fallback / refusal rule
	uncompilable := []string{"  $ r = [1, 2]\n  r[0] = 5\n  > r", "  > [1, 2] |> length", "  if true {\n    $ y = 1\n  }\n  > y", "  % db: Database\n  > 1", "  assert(true)\n  > 1", "  $ x = 1\n  $ x = 2\n  > x"}
	for _, u := range uncompilable {
		for _, first := range []bool{true, false} {
			a := "@ GET /t {\n  > 1 == 1.0\n}\n"
			b := "@ GET /u {\n" + u + "\n}\n"
			src := a + b
			if first {
				src = b + a
			}
			hs = append(hs, c02Hand{src, g})
		}
	}
	return hs
}

func c02Hands(level string, emit c02Emit) {
	for _, h := range c02HandPrograms() {
		h := h
		emit(level, "hand", func() (string, int, []c02Req) { return h.src, 0, h.reqs })
	}
}

// ---- HTTP request matrix ------------------------------------------------------------

func c02Matrix(emit c02Emit, thorough bool) {
	methods := []string{"GET", "POST", "PUT", "PATCH", "DELETE"}
	bodies := []*string{nil, c02Str(`{"a":1,"b":"s"}`), c02Str(`[1,2]`), c02Str(`7`), c02Str(`{"a":`), c02Str(``), c02Str(`{"a":1} trailing`), c02Str(`null`)}
	ctypes := []string{"", "application/json", "application/json; charset=utf-8", "text/plain", "Application/JSON", "application/jsonx"}
	queries := []string{"", "page=2", "page=x", "page=2&page=3", "q=hi", "q=", "undeclared=1", "undeclared=1&undeclared=2", "tags=a&tags=b", "tags=a", "flag=true", "flag=yes", "flag=maybe", "ratio=1.5", "ratio=abc", "page=2&q=hi&flag=on&ratio=2",
		"s=%20x", "s=a+b", "bad=%zz", "%zz=1", "noval", "a=1;b=2", "page=", "page=1.5", "page=%32", "x=1&x=", "b=007", "b=1e3", "b=TRUE", "b=5", "q=hi&q=there"}
	if !thorough {
		bodies = bodies[:6]
		ctypes = ctypes[:4]
	}
	headers := []*string{nil, c02Str("v"), c02Str("")}
	// programs: what the route reads of the request
	progs := []struct{ name, decl, ret string }{
		{"echo", "", `{id: id, q: query, body: input}`},
		{"headers", "", `{h: headers, x: headers.Xtest}`},
		{"hdr-index", "", `headers["Xtest"]`},
		{"hdr-ctype", "", `headers["Content-Type"]`},
		{"declared", "  ? page: int = 1\n  ? q: str\n  ? flag: bool\n  ? ratio: float = 0.5\n  ? tags: str[]\n", `{page: page, q: q, flag: flag, ratio: ratio, tags: tags, query: query}`},
		{"required", "  ? q: str!\n  ? page: int!\n", `{q: q, page: page}`},
		{"default-expr", "  ? page: int = 1 + 1\n  ? n: int = -1\n  ? s: str = \"d\"\n  ? b: bool = true\n  ? z: float = 2.0\n", `{page: page, n: n, s: s, b: b, z: z, query: query}`},
		// constant defaults only (default-expr falls back to the interpreter as a whole once a computed default sends the module there)
		{"default-literals", "  ? n: int = -1\n  ? s: str = \"d\"\n  ? b: bool = true\n  ? f: bool = false\n  ? z: float = 2.0\n  ? e: str = \"\"\n  ? o: int = 0\n", `{n: n, s: s, b: b, f: f, z: z, e: e, o: o, query: query}`},
		{"arith", "  ? page: int = 1\n", `page + 1`},
		{"undeclared-arith", "", `query.b + 1`},
		{"input-field", "", `input.a`},
		{"input-null-test", "", `input == null`},
		{"id-arith", "", `id + 1`},
		{"id-compare", "", `id == "7"`},
		{"shadow-param", "  ? id: int = 5\n", `id`},
	}
	ids := []string{"7", "abc", "a b", "1.5"}
	for _, pg := range progs {
		for _, m := range methods {
			pg, m := pg, m
			src := "@ " + m + " /p/:id {\n" + pg.decl + "  > " + pg.ret + "\n}\n"
			// full product of body x content type for a fixed query/header, and of query x header for a fixed body
			emit("http", "matrix-"+pg.name, func() (string, int, []c02Req) {
				var rs []c02Req
				for _, b := range bodies {
					for _, ct := range ctypes {
						for _, q := range []string{"", "page=2&q=hi"} {
							rs = append(rs, c02Req{Method: m, Params: map[string]string{"id": "7"}, Query: q, Body: b, CType: ct})
						}
					}
				}
				return src, 0, rs
			})
			emit("http", "matrix-"+pg.name, func() (string, int, []c02Req) {
				var rs []c02Req
				for _, q := range queries {
					for _, h := range headers {
						for _, id := range ids {
							rs = append(rs, c02Req{Method: m, Params: map[string]string{"id": id}, Query: q, XTest: h})
						}
					}
				}
				// a method the route does not declare, and a path that matches nothing
				other := "GET"
				if m == "GET" {
					other = "POST"
				}
				rs = append(rs, c02Req{Method: other, Params: map[string]string{"id": "7"}}, c02Req{Method: m, Path: "/nothing"}, c02Req{Method: m, Path: "/p/7/extra"}, c02Req{Method: "HEAD", Params: map[string]string{"id": "7"}}, c02Req{Method: "OPTIONS", Params: map[string]string{"id": "7"}})
				return src, 0, rs
			})
		}
	}
}

// c02Enumerate emits every work item of a tier in a fixed order.
func c02Enumerate(thorough bool, builtins []string, emit c02Emit) {
	// engine level
	c02L1("engine", emit)
	c02L2("engine", emit)
	if thorough {
		c02L3("engine", true, 3, emit)
	} else {
		c02L3("engine", false, 2, emit)
	}
	if thorough {
		c02L4("engine", builtins, 3, emit)
	} else {
		c02L4("engine", builtins, 2, emit)
	}
	c02L5("engine", emit)
	c02Hands("engine", emit)
	// HTTP level
	c02Matrix(emit, thorough)
	c02Hands("http", emit)
	c02L1("http", emit)
	c02L2("http", emit)
	c02L5("http", emit)
	c02L3("http", false, 1, emit)
	if thorough {
		c02L3("http", false, 2, emit)
		c02L4("http", builtins, 2, emit)
	} else {
		c02L4("http", builtins, 1, emit)
	}
	// binder x visible name; aliasing histories; the body grammar
	c02L7("engine", emit)
	c02L7("http", emit)
	if thorough {
		c02L8("engine", false, 4, []int{0, 1, 2, 3, 4}, emit)
		c02L8From("engine", true, 3, 3, []int{3}, emit)
		c02L8("http", true, 2, []int{3}, emit)
	} else {
		c02L8("engine", false, 3, []int{3}, emit)
		c02L8From("engine", true, 2, 2, []int{3}, emit)
		c02L8("http", false, 2, nil, emit)
	}
	c02BodyMatrix(emit, thorough)
	c02L9(emit)
}
