package main

// C02 harness, part 2: canonical printing of pkg/ast terms (concrete and with
// literals abstracted to their shape), one-step reductions of a module, and the
// greedy shrinker that turns a disagreeing (program, request) pair into a
// minimal one.

import (
	"encoding/json"
	"fmt"
	"net/url"
	"sort"
	"strconv"
	"strings"

	"github.com/glyphlang/glyph/pkg/ast"
	"github.com/glyphlang/glyph/pkg/server"
)

// ---- printing ---------------------------------------------------------------

type c02Printer struct {
	abstract bool
}

func (p c02Printer) lit(l ast.Literal) string {
	switch v := l.(type) {
	case ast.IntLiteral:
		if !p.abstract {
			return strconv.FormatInt(v.Value, 10)
		}
		return "INT"
	case ast.FloatLiteral:
		if !p.abstract {
			s := strconv.FormatFloat(v.Value, 'f', -1, 64)
			if !strings.Contains(s, ".") {
				s += ".0"
			}
			return s
		}
		return "FLOAT"
	case ast.StringLiteral:
		if !p.abstract {
			return strconv.Quote(v.Value)
		}
		return "STR"
	case ast.BoolLiteral:
		if !p.abstract {
			return strconv.FormatBool(v.Value)
		}
		return "BOOL"
	case ast.NullLiteral:
		return "null"
	}
	return fmt.Sprintf("<%T>", l)
}

func c02Prec(e ast.Expr) int {
	switch v := e.(type) {
	case ast.BinaryOpExpr:
		switch v.Op {
		case ast.Mul, ast.Div, ast.Mod:
			return 20
		case ast.Add, ast.Sub:
			return 10
		case ast.And:
			return 3
		case ast.Or:
			return 2
		}
		return 5
	case ast.UnaryOpExpr:
		return 30
	case ast.PipeExpr:
		return 1
	case ast.AwaitExpr:
		return 0
	}
	return 100
}

func (p c02Printer) expr(e ast.Expr) string {
	switch v := e.(type) {
	case ast.LiteralExpr:
		return p.lit(v.Value)
	case ast.VariableExpr:
		return v.Name
	case ast.BinaryOpExpr:
		l, r := p.expr(v.Left), p.expr(v.Right)
		me := c02Prec(v)
		if c02Prec(v.Left) < me {
			l = "(" + l + ")"
		}
		if c02Prec(v.Right) <= me {
			r = "(" + r + ")"
		}
		op := v.Op.String()
		if p.abstract {
			switch v.Op {
			case ast.Lt, ast.Le, ast.Gt, ast.Ge:
				op = "<cmp>"
			case ast.Eq, ast.Ne:
				op = "<eq>"
			}
		}
		return l + " " + op + " " + r
	case ast.UnaryOpExpr:
		r := p.expr(v.Right)
		if c02Prec(v.Right) < 100 {
			r = "(" + r + ")"
		}
		return v.Op.String() + r
	case ast.FieldAccessExpr:
		return p.expr(v.Object) + "." + v.Field
	case ast.ArrayIndexExpr:
		return p.expr(v.Array) + "[" + p.expr(v.Index) + "]"
	case ast.FunctionCallExpr:
		args := make([]string, len(v.Args))
		for i, a := range v.Args {
			args[i] = p.expr(a)
		}
		return v.Name + "(" + strings.Join(args, ", ") + ")"
	case ast.ObjectExpr:
		fs := make([]string, len(v.Fields))
		for i, f := range v.Fields {
			fs[i] = f.Key + ": " + p.expr(f.Value)
		}
		return "{" + strings.Join(fs, ", ") + "}"
	case ast.ArrayExpr:
		es := make([]string, len(v.Elements))
		for i, x := range v.Elements {
			es[i] = p.expr(x)
		}
		return "[" + strings.Join(es, ", ") + "]"
	case ast.MatchExpr:
		cs := make([]string, len(v.Cases))
		for i, c := range v.Cases {
			s := p.pattern(c.Pattern)
			if c.Guard != nil {
				s += " when " + p.expr(c.Guard)
			}
			cs[i] = s + " => " + p.expr(c.Body)
		}
		return "match " + p.expr(v.Value) + " { " + strings.Join(cs, ", ") + " }"
	case ast.AsyncExpr:
		return "async " + p.block(v.Body)
	case ast.AwaitExpr:
		return "await " + p.expr(v.Expr)
	case ast.PipeExpr:
		return p.expr(v.Left) + " |> " + p.expr(v.Right)
	}
	return fmt.Sprintf("<%T>", e)
}

func (p c02Printer) pattern(pt ast.Pattern) string {
	switch v := pt.(type) {
	case ast.LiteralPattern:
		return p.lit(v.Value)
	case ast.VariablePattern:
		return v.Name
	case ast.WildcardPattern:
		return "_"
	case ast.ObjectPattern:
		fs := make([]string, len(v.Fields))
		for i, f := range v.Fields {
			fs[i] = f.Key
			if f.Pattern != nil {
				fs[i] += ": " + p.pattern(f.Pattern)
			}
		}
		return "{" + strings.Join(fs, ", ") + "}"
	case ast.ArrayPattern:
		es := make([]string, 0, len(v.Elements)+1)
		for _, x := range v.Elements {
			es = append(es, p.pattern(x))
		}
		if v.Rest != nil {
			es = append(es, "..."+*v.Rest)
		}
		return "[" + strings.Join(es, ", ") + "]"
	}
	return fmt.Sprintf("<%T>", pt)
}

func (p c02Printer) block(b []ast.Statement) string {
	if len(b) == 0 {
		return "{ }"
	}
	return "{ " + p.stmts(b) + " }"
}

func (p c02Printer) stmts(b []ast.Statement) string {
	ss := make([]string, len(b))
	for i, s := range b {
		ss[i] = p.stmt(s)
	}
	return strings.Join(ss, "; ")
}

func (p c02Printer) stmt(s ast.Statement) string {
	switch v := s.(type) {
	case ast.AssignStatement:
		return "$ " + v.Target + " = " + p.expr(v.Value)
	case ast.ReassignStatement:
		return v.Target + " = " + p.expr(v.Value)
	case ast.IndexAssignStatement:
		return p.expr(v.Target) + " = " + p.expr(v.Value)
	case ast.ReturnStatement:
		r := "> " + p.expr(v.Value)
		if v.Status != 0 {
			r += " ::" + strconv.Itoa(v.Status)
		}
		return r
	case ast.GuardStatement:
		r := "? " + p.expr(v.Condition) + " ::" + strconv.Itoa(v.Status)
		if v.Message != "" {
			r += " " + p.lit(ast.StringLiteral{Value: v.Message})
		}
		return r
	case ast.ValidationStatement:
		return "? " + p.expr(v.Call)
	case ast.ExpressionStatement:
		return p.expr(v.Expr)
	case ast.IfStatement:
		r := "if " + p.expr(v.Condition) + " " + p.block(v.ThenBlock)
		if len(v.ElseBlock) > 0 {
			r += " else " + p.block(v.ElseBlock)
		}
		return r
	case ast.WhileStatement:
		return "while " + p.expr(v.Condition) + " " + p.block(v.Body)
	case ast.ForStatement:
		vars := v.ValueVar
		if v.KeyVar != "" {
			vars = v.KeyVar + ", " + v.ValueVar
		}
		return "for " + vars + " in " + p.expr(v.Iterable) + " " + p.block(v.Body)
	case ast.SwitchStatement:
		var b strings.Builder
		b.WriteString("switch " + p.expr(v.Value) + " {")
		for _, c := range v.Cases {
			b.WriteString(" case " + p.expr(c.Value) + " " + p.block(c.Body))
		}
		if len(v.Default) > 0 {
			b.WriteString(" default " + p.block(v.Default))
		}
		b.WriteString(" }")
		return b.String()
	case ast.BreakStatement:
		return "break"
	case ast.ContinueStatement:
		return "continue"
	case ast.AssertStatement:
		return "assert(" + p.expr(v.Condition) + ")"
	}
	return fmt.Sprintf("<%T>", s)
}

func (p c02Printer) typ(t ast.Type) string {
	switch v := t.(type) {
	case nil:
		return "?"
	case ast.IntType:
		return "int"
	case ast.StringType:
		return "str"
	case ast.BoolType:
		return "bool"
	case ast.FloatType:
		return "float"
	case ast.ArrayType:
		return p.typ(v.ElementType) + "[]"
	case ast.OptionalType:
		return p.typ(v.InnerType) + "?"
	case ast.NamedType:
		return v.Name
	case ast.DatabaseType:
		return "Database"
	}
	return strings.TrimPrefix(fmt.Sprintf("%T", t), "ast.")
}

func (p c02Printer) field(f ast.Field) string {
	s := f.Name
	if f.TypeAnnotation != nil {
		s += ": " + p.typ(f.TypeAnnotation)
	}
	if f.Required {
		s += "!"
	}
	if f.Default != nil {
		s += " = " + p.expr(f.Default)
	}
	return s
}

func (p c02Printer) route(r *ast.Route) string {
	var b strings.Builder
	b.WriteString("@ " + r.Method.String() + " " + r.Path)
	if r.ReturnType != nil {
		b.WriteString(" -> " + p.typ(r.ReturnType))
	}
	b.WriteString(" {")
	if r.Auth != nil {
		b.WriteString(" + auth(" + r.Auth.AuthType + ");")
	}
	for _, in := range r.Injections {
		b.WriteString(" % " + in.Name + ": " + p.typ(in.Type) + ";")
	}
	if r.InputType != nil {
		b.WriteString(" < input: " + p.typ(r.InputType) + ";")
	}
	for _, q := range r.QueryParams {
		b.WriteString(" ? " + q.Name + ": " + p.typ(q.Type))
		if q.Required {
			b.WriteString("!")
		}
		if q.Default != nil {
			b.WriteString(" = " + p.expr(q.Default))
		}
		b.WriteString(";")
	}
	if len(r.Body) > 0 {
		b.WriteString(" " + p.stmts(r.Body))
	}
	b.WriteString(" }")
	return b.String()
}

func (p c02Printer) item(it ast.Item) string {
	switch v := it.(type) {
	case *ast.Route:
		return p.route(v)
	case *ast.Function:
		ps := make([]string, len(v.Params))
		for i, f := range v.Params {
			ps[i] = p.field(f)
		}
		s := "! " + v.Name + "(" + strings.Join(ps, ", ") + ")"
		if v.ReturnType != nil {
			s += ": " + p.typ(v.ReturnType)
		}
		return s + " " + p.block(v.Body)
	case *ast.TypeDef:
		fs := make([]string, len(v.Fields))
		for i, f := range v.Fields {
			fs[i] = p.field(f)
		}
		return ": " + v.Name + " { " + strings.Join(fs, ", ") + " }"
	case *ast.ConstDecl:
		return "const " + v.Name + " = " + p.expr(v.Value)
	}
	return fmt.Sprintf("<%T>", it)
}

// c02Print prints the module; the route under test comes last.
func c02Print(mod *ast.Module, route *ast.Route, abstract bool) string {
	p := c02Printer{abstract: abstract}
	var parts []string
	for _, it := range mod.Items {
		if r, ok := it.(*ast.Route); ok && r == route {
			continue
		}
		parts = append(parts, p.item(it))
	}
	parts = append(parts, p.route(route))
	return strings.Join(parts, " ## ")
}

// ---- abstract request --------------------------------------------------------

func c02JSONShape(v interface{}) string {
	switch x := v.(type) {
	case nil:
		return "null"
	case bool:
		return "BOOL"
	case float64:
		return "NUM"
	case string:
		return "STR"
	case []interface{}:
		es := make([]string, len(x))
		for i, e := range x {
			es[i] = c02JSONShape(e)
		}
		return "[" + strings.Join(es, ",") + "]"
	case map[string]interface{}:
		keys := make([]string, 0, len(x))
		for k := range x {
			keys = append(keys, k)
		}
		sort.Strings(keys)
		es := make([]string, len(keys))
		for i, k := range keys {
			es[i] = k + ":" + c02JSONShape(x[k])
		}
		return "{" + strings.Join(es, ",") + "}"
	}
	return "?"
}

// c02SplitBody splits a body into its first JSON value (leading white space
// dropped) and the bytes after it; ok is false when it starts with no complete
// JSON value.
func c02SplitBody(b string) (first, rest string, ok bool) {
	dec := json.NewDecoder(strings.NewReader(b))
	var v interface{}
	if err := dec.Decode(&v); err != nil {
		return "", "", false
	}
	n := int(dec.InputOffset())
	return strings.TrimLeft(b[:n], " \t\r\n"), b[n:], true
}

func jsonUnmarshalStrict(s string, v *interface{}) error {
	dec := json.NewDecoder(strings.NewReader(s))
	if err := dec.Decode(v); err != nil {
		return err
	}
	if strings.TrimSpace(s[dec.InputOffset():]) != "" {
		return fmt.Errorf("trailing data")
	}
	return nil
}

func c02ValueShape(s string) string {
	if _, err := strconv.ParseInt(s, 10, 64); err == nil {
		return "INT"
	}
	if _, err := strconv.ParseFloat(s, 64); err == nil {
		return "FLOAT"
	}
	l := strings.ToLower(s)
	if l == "true" || l == "false" {
		return "BOOL"
	}
	return "STR"
}

// c02ReqShape abstracts a request ("" for the trivial request of the method).
// Query keys the program never names are printed as k, their values as V.
func c02ReqShape(r c02Req, route *ast.Route, prog string) string {
	var parts []string
	if r.Path != "" {
		parts = append(parts, "path="+r.Path)
	}
	if len(r.Params) > 0 && route != nil && strings.Contains(route.Path, ":") {
		keys := make([]string, 0, len(r.Params))
		for k := range r.Params {
			keys = append(keys, k)
		}
		sort.Strings(keys)
		for _, k := range keys {
			if strings.Contains(route.Path, ":"+k) {
				parts = append(parts, ":"+k+"="+c02ValueShape(r.Params[k]))
			}
		}
	}
	if r.Query != "" {
		var qs []string
		for _, pair := range strings.Split(r.Query, "&") {
			kv := strings.SplitN(pair, "=", 2)
			key := kv[0]
			named := !strings.Contains(key, "%") && c02NamesWord(prog, key)
			if !named {
				if strings.Contains(key, "%z") {
					key = "BADESC"
				} else {
					key = "k"
				}
			}
			switch {
			case len(kv) == 1:
				qs = append(qs, key)
			case strings.Contains(kv[1], "%z"):
				qs = append(qs, key+"=BADESC")
			case strings.Contains(kv[1], ";"):
				qs = append(qs, key+"=V;k=V")
			case named:
				qs = append(qs, key+"="+c02ValueShape(kv[1]))
			default:
				qs = append(qs, key+"=V")
			}
		}
		parts = append(parts, "?"+strings.Join(qs, "&"))
	}
	if r.Body != nil {
		var v interface{}
		first, rest, ok := c02SplitBody(*r.Body)
		switch {
		case *r.Body == "":
			parts = append(parts, "body=EMPTY")
		case !ok:
			parts = append(parts, "body=MALFORMED")
		default:
			_ = jsonUnmarshalStrict(first, &v)
			sh := "body=" + c02JSONShape(v)
			if strings.TrimSpace(rest) != "" {
				// a complete JSON value followed by further bytes: another value, or bytes that start none
				var w interface{}
				if _, _, ok2 := c02SplitBody(rest); ok2 && jsonUnmarshalStrict(rest, &w) == nil {
					sh += "+VALUE"
				} else if ok2 {
					sh += "+VALUES"
				} else {
					sh += "+GARBAGE"
				}
			}
			parts = append(parts, sh)
		}
		if r.Pad > 0 {
			switch {
			case r.Pad+len(*r.Body) > c02BodyLimit:
				parts = append(parts, "padded-past-10MiB")
			case r.Pad+len(*r.Body) == c02BodyLimit:
				parts = append(parts, "padded-to-10MiB")
			default:
				parts = append(parts, "padded")
			}
		}
	}
	if r.CType != "" {
		parts = append(parts, "ctype="+r.CType)
	}
	if r.XTest != nil {
		parts = append(parts, "Xtest="+c02ValueShape(*r.XTest))
	}
	if route != nil && r.Method != route.Method.String() {
		parts = append(parts, "method="+r.Method)
	}
	return strings.Join(parts, " ")
}

// ---- one-step reductions -----------------------------------------------------

// c02ExprVariants returns every expression obtained from e by replacing e or
// one sub-expression by one of its operands.
func c02ExprVariants(e ast.Expr) []ast.Expr {
	var out []ast.Expr
	sub := func(child ast.Expr, rebuild func(ast.Expr) ast.Expr) {
		if child == nil {
			return
		}
		for _, v := range c02ExprVariants(child) {
			out = append(out, rebuild(v))
		}
	}
	switch v := e.(type) {
	case ast.BinaryOpExpr:
		out = append(out, v.Left, v.Right)
		sub(v.Left, func(x ast.Expr) ast.Expr { c := v; c.Left = x; return c })
		sub(v.Right, func(x ast.Expr) ast.Expr { c := v; c.Right = x; return c })
	case ast.UnaryOpExpr:
		out = append(out, v.Right)
		sub(v.Right, func(x ast.Expr) ast.Expr { c := v; c.Right = x; return c })
	case ast.FieldAccessExpr:
		out = append(out, v.Object)
		sub(v.Object, func(x ast.Expr) ast.Expr { c := v; c.Object = x; return c })
	case ast.ArrayIndexExpr:
		out = append(out, v.Array, v.Index)
		sub(v.Array, func(x ast.Expr) ast.Expr { c := v; c.Array = x; return c })
		sub(v.Index, func(x ast.Expr) ast.Expr { c := v; c.Index = x; return c })
	case ast.FunctionCallExpr:
		for i := range v.Args {
			out = append(out, v.Args[i])
		}
		for i := range v.Args { // drop one argument
			c := v
			c.Args = append(append([]ast.Expr{}, v.Args[:i]...), v.Args[i+1:]...)
			out = append(out, c)
		}
		for i := range v.Args {
			i := i
			sub(v.Args[i], func(x ast.Expr) ast.Expr {
				c := v
				c.Args = append([]ast.Expr{}, v.Args...)
				c.Args[i] = x
				return c
			})
		}
	case ast.ObjectExpr:
		for i := range v.Fields {
			out = append(out, v.Fields[i].Value)
		}
		for i := range v.Fields {
			c := v
			c.Fields = append(append([]ast.ObjectField{}, v.Fields[:i]...), v.Fields[i+1:]...)
			out = append(out, c)
		}
		for i := range v.Fields {
			i := i
			sub(v.Fields[i].Value, func(x ast.Expr) ast.Expr {
				c := v
				c.Fields = append([]ast.ObjectField{}, v.Fields...)
				c.Fields[i].Value = x
				return c
			})
		}
	case ast.ArrayExpr:
		for i := range v.Elements {
			out = append(out, v.Elements[i])
		}
		for i := range v.Elements {
			c := v
			c.Elements = append(append([]ast.Expr{}, v.Elements[:i]...), v.Elements[i+1:]...)
			out = append(out, c)
		}
		for i := range v.Elements {
			i := i
			sub(v.Elements[i], func(x ast.Expr) ast.Expr {
				c := v
				c.Elements = append([]ast.Expr{}, v.Elements...)
				c.Elements[i] = x
				return c
			})
		}
	case ast.MatchExpr:
		out = append(out, v.Value)
		for i := range v.Cases {
			out = append(out, v.Cases[i].Body)
		}
		for i := range v.Cases { // drop one case
			c := v
			c.Cases = append(append([]ast.MatchCase{}, v.Cases[:i]...), v.Cases[i+1:]...)
			out = append(out, c)
		}
		for i := range v.Cases { // drop a guard
			if v.Cases[i].Guard != nil {
				c := v
				c.Cases = append([]ast.MatchCase{}, v.Cases...)
				c.Cases[i].Guard = nil
				out = append(out, c)
			}
		}
		sub(v.Value, func(x ast.Expr) ast.Expr { c := v; c.Value = x; return c })
		for i := range v.Cases {
			i := i
			sub(v.Cases[i].Body, func(x ast.Expr) ast.Expr {
				c := v
				c.Cases = append([]ast.MatchCase{}, v.Cases...)
				c.Cases[i].Body = x
				return c
			})
			sub(v.Cases[i].Guard, func(x ast.Expr) ast.Expr {
				c := v
				c.Cases = append([]ast.MatchCase{}, v.Cases...)
				c.Cases[i].Guard = x
				return c
			})
		}
	case ast.AwaitExpr:
		// an await is never dropped: the value of an unawaited future is a race
		sub(v.Expr, func(x ast.Expr) ast.Expr { c := v; c.Expr = x; return c })
	case ast.AsyncExpr:
		for _, b := range c02BlockVariants(v.Body) {
			c := v
			c.Body = b
			out = append(out, c)
		}
	case ast.PipeExpr:
		out = append(out, v.Left, v.Right)
	}
	return out
}

// c02StmtVariants returns the one-step reductions of one statement: each is a
// list of statements that replaces it.
func c02StmtVariants(s ast.Statement) [][]ast.Statement {
	var out [][]ast.Statement
	one := func(x ast.Statement) { out = append(out, []ast.Statement{x}) }
	exprs := func(e ast.Expr, rebuild func(ast.Expr) ast.Statement) {
		if e == nil {
			return
		}
		for _, v := range c02ExprVariants(e) {
			one(rebuild(v))
		}
	}
	blocks := func(b []ast.Statement, rebuild func([]ast.Statement) ast.Statement) {
		for _, v := range c02BlockVariants(b) {
			one(rebuild(v))
		}
	}
	switch v := s.(type) {
	case ast.AssignStatement:
		exprs(v.Value, func(x ast.Expr) ast.Statement { c := v; c.Value = x; return c })
	case ast.ReassignStatement:
		exprs(v.Value, func(x ast.Expr) ast.Statement { c := v; c.Value = x; return c })
	case ast.IndexAssignStatement:
		exprs(v.Value, func(x ast.Expr) ast.Statement { c := v; c.Value = x; return c })
	case ast.ReturnStatement:
		if v.Status != 0 {
			c := v
			c.Status = 0
			one(c)
		}
		if _, isLit := v.Value.(ast.LiteralExpr); !isLit {
			c := v
			c.Value = ast.LiteralExpr{Value: ast.IntLiteral{Value: 1}}
			one(c)
		}
		exprs(v.Value, func(x ast.Expr) ast.Statement { c := v; c.Value = x; return c })
	case ast.GuardStatement:
		exprs(v.Condition, func(x ast.Expr) ast.Statement { c := v; c.Condition = x; return c })
	case ast.ExpressionStatement:
		exprs(v.Expr, func(x ast.Expr) ast.Statement {
			c := v
			c.Expr = x
			return c
		})
	case ast.ValidationStatement:
		one(ast.ExpressionStatement{Expr: v.Call})
	case ast.IfStatement:
		out = append(out, v.ThenBlock)
		if len(v.ElseBlock) > 0 {
			out = append(out, v.ElseBlock)
			c := v
			c.ElseBlock = nil
			one(c)
		}
		exprs(v.Condition, func(x ast.Expr) ast.Statement { c := v; c.Condition = x; return c })
		blocks(v.ThenBlock, func(b []ast.Statement) ast.Statement { c := v; c.ThenBlock = b; return c })
		if len(v.ElseBlock) > 0 {
			blocks(v.ElseBlock, func(b []ast.Statement) ast.Statement { c := v; c.ElseBlock = b; return c })
		}
	case ast.WhileStatement:
		// a reduced loop must stay a terminating loop: the condition and the
		// first body statement (the counter increment) are never touched, the
		// other body statements are only deleted
		for i := 1; i < len(v.Body); i++ {
			c := v
			c.Body = append(append([]ast.Statement{}, v.Body[:i]...), v.Body[i+1:]...)
			one(c)
		}
	case ast.ForStatement:
		out = append(out, c02NoLoopCtl(v.Body))
		if v.KeyVar != "" {
			c := v
			c.KeyVar = ""
			one(c)
		}
		exprs(v.Iterable, func(x ast.Expr) ast.Statement { c := v; c.Iterable = x; return c })
		blocks(v.Body, func(b []ast.Statement) ast.Statement { c := v; c.Body = b; return c })
	case ast.SwitchStatement:
		for i := range v.Cases {
			out = append(out, v.Cases[i].Body)
		}
		if len(v.Default) > 0 {
			out = append(out, v.Default)
			c := v
			c.Default = nil
			one(c)
		}
		for i := range v.Cases {
			c := v
			c.Cases = append(append([]ast.SwitchCase{}, v.Cases[:i]...), v.Cases[i+1:]...)
			one(c)
		}
		exprs(v.Value, func(x ast.Expr) ast.Statement { c := v; c.Value = x; return c })
		for i := range v.Cases {
			i := i
			blocks(v.Cases[i].Body, func(b []ast.Statement) ast.Statement {
				c := v
				c.Cases = append([]ast.SwitchCase{}, v.Cases...)
				c.Cases[i].Body = b
				return c
			})
		}
		if len(v.Default) > 0 {
			blocks(v.Default, func(b []ast.Statement) ast.Statement { c := v; c.Default = b; return c })
		}
	}
	// drop nil rebuilds
	keep := out[:0]
	for _, o := range out {
		ok := true
		for _, s := range o {
			if s == nil {
				ok = false
			}
		}
		if ok {
			keep = append(keep, o)
		}
	}
	return keep
}

// c02NoLoopCtl drops top-level break/continue from a hoisted loop body.
func c02NoLoopCtl(b []ast.Statement) []ast.Statement {
	var out []ast.Statement
	for _, s := range b {
		switch s.(type) {
		case ast.BreakStatement, ast.ContinueStatement:
			continue
		}
		out = append(out, s)
	}
	return out
}

// c02BlockVariants returns the one-step reductions of a statement list:
// delete one statement, or replace one statement by one of its reductions.
func c02BlockVariants(b []ast.Statement) [][]ast.Statement {
	var out [][]ast.Statement
	for i := range b {
		out = append(out, append(append([]ast.Statement{}, b[:i]...), b[i+1:]...))
	}
	for i := range b {
		for _, repl := range c02StmtVariants(b[i]) {
			nb := append([]ast.Statement{}, b[:i]...)
			nb = append(nb, repl...)
			nb = append(nb, b[i+1:]...)
			out = append(out, nb)
		}
	}
	return out
}

// c02Case is a (module, route, request) triple.
type c02Case struct {
	mod   *ast.Module
	route *ast.Route
	req   c02Req
}

func (c c02Case) withRoute(nr *ast.Route) c02Case {
	items := make([]ast.Item, len(c.mod.Items))
	for i, it := range c.mod.Items {
		if r, ok := it.(*ast.Route); ok && r == c.route {
			items[i] = nr
		} else {
			items[i] = it
		}
	}
	return c02Case{mod: &ast.Module{Items: items}, route: nr, req: c.req}
}

// c02CaseVariants returns the one-step reductions of a case, coarse ones first.
func c02CaseVariants(c c02Case) []c02Case {
	var out []c02Case
	// 1. drop another item
	for i, it := range c.mod.Items {
		if r, ok := it.(*ast.Route); ok && r == c.route {
			continue
		}
		items := append(append([]ast.Item{}, c.mod.Items[:i]...), c.mod.Items[i+1:]...)
		out = append(out, c02Case{mod: &ast.Module{Items: items}, route: c.route, req: c.req})
	}
	// 1b. normalise the route: path /t without parameters, method GET
	if c.req.Path == "" && c.route.Path != "/t" {
		nr := *c.route
		nr.Path = "/t"
		v := c.withRoute(&nr)
		v.req = c.req.clone()
		v.req.Params = nil
		out = append(out, v)
	}
	if c.req.Path == "" && c.route.Method != ast.Get && c.req.Method == c.route.Method.String() {
		nr := *c.route
		nr.Method = ast.Get
		v := c.withRoute(&nr)
		v.req = c.req.clone()
		v.req.Method = "GET"
		out = append(out, v)
	}
	if c.req.Path == "" && c.route.Method != ast.Get && c.route.Method != ast.Post && c.req.Method == c.route.Method.String() {
		nr := *c.route
		nr.Method = ast.Post
		v := c.withRoute(&nr)
		v.req = c.req.clone()
		v.req.Method = "POST"
		out = append(out, v)
	}
	// 2. request simplifications
	if c.req.Body != nil {
		r := c.req.clone()
		r.Body = nil
		out = append(out, c02Case{c.mod, c.route, r})
		if *c.req.Body != "{}" {
			r := c.req.clone()
			r.Body = c02Str("{}")
			out = append(out, c02Case{c.mod, c.route, r})
		}
		if c.req.Pad > 0 {
			r := c.req.clone()
			r.Pad = 0
			out = append(out, c02Case{c.mod, c.route, r})
		}
		// the body grammar: drop what precedes / follows the first JSON value, then
		// reduce the value and what follows it to their simplest representatives
		body := *c.req.Body
		with := func(nb string) {
			if nb != body {
				r := c.req.clone()
				r.Body = c02Str(nb)
				out = append(out, c02Case{c.mod, c.route, r})
			}
		}
		if first, rest, ok := c02SplitBody(body); ok {
			with(first)
			with(first + rest)
			if strings.TrimSpace(rest) != "" {
				if strings.HasPrefix(first, "{") {
					with("{}" + rest)
					with("{};")
				}
				with(first + ";")
			}
		} else if t := strings.TrimLeft(body, " \t\r\n\ufeff"); t != body {
			with(t)
		}
	}
	if c.req.CType != "" {
		r := c.req.clone()
		r.CType = ""
		out = append(out, c02Case{c.mod, c.route, r})
	}
	if c.req.Query != "" {
		r := c.req.clone()
		r.Query = ""
		out = append(out, c02Case{c.mod, c.route, r})
		pairs := strings.Split(c.req.Query, "&")
		if len(pairs) > 1 {
			for i := range pairs {
				r := c.req.clone()
				r.Query = strings.Join(append(append([]string{}, pairs[:i]...), pairs[i+1:]...), "&")
				out = append(out, c02Case{c.mod, c.route, r})
			}
		}
	}
	if c.req.XTest != nil {
		r := c.req.clone()
		r.XTest = nil
		out = append(out, c02Case{c.mod, c.route, r})
	}
	for k, v := range c.req.Params {
		if v != "1" {
			r := c.req.clone()
			r.Params[k] = "1"
			out = append(out, c02Case{c.mod, c.route, r})
		}
	}
	// 3. route header
	hdr := func(f func(r *ast.Route)) {
		nr := *c.route
		f(&nr)
		out = append(out, c.withRoute(&nr))
	}
	if c.route.ReturnType != nil {
		hdr(func(r *ast.Route) { r.ReturnType = nil })
	}
	if c.route.InputType != nil {
		hdr(func(r *ast.Route) { r.InputType = nil })
	}
	for i := range c.route.QueryParams {
		i := i
		hdr(func(r *ast.Route) {
			r.QueryParams = append(append([]ast.QueryParamDecl{}, c.route.QueryParams[:i]...), c.route.QueryParams[i+1:]...)
		})
		if c.route.QueryParams[i].Default != nil {
			hdr(func(r *ast.Route) {
				r.QueryParams = append([]ast.QueryParamDecl{}, c.route.QueryParams...)
				r.QueryParams[i].Default = nil
			})
		}
	}
	// 3b. inline a variable that is declared once with a literal value
	for _, b := range c02InlineVariants(c.route.Body) {
		nr := *c.route
		nr.Body = b
		out = append(out, c.withRoute(&nr))
	}
	// 3c. replace a value read from the request by the literal it denotes
	for _, b := range c02RequestInlineVariants(c) {
		nr := *c.route
		nr.Body = b
		out = append(out, c.withRoute(&nr))
	}
	// 4. body
	for _, b := range c02BlockVariants(c.route.Body) {
		if c02EndsWithReturn(c.route.Body) && !c02EndsWithReturn(b) {
			continue // a route that answers through its final return keeps one (the no-return behaviour is a finding of its own)
		}
		nr := *c.route
		nr.Body = b
		out = append(out, c.withRoute(&nr))
	}
	// 5. bodies and defaults of other items
	for i, it := range c.mod.Items {
		i := i
		replace := func(n ast.Item) {
			items := append([]ast.Item{}, c.mod.Items...)
			items[i] = n
			out = append(out, c02Case{mod: &ast.Module{Items: items}, route: c.route, req: c.req})
		}
		switch v := it.(type) {
		case *ast.Function:
			for _, b := range c02BlockVariants(v.Body) {
				if len(b) == 0 {
					continue
				}
				nf := *v
				nf.Body = b
				replace(&nf)
			}
			if v.ReturnType != nil {
				nf := *v
				nf.ReturnType = nil
				replace(&nf)
			}
		case *ast.TypeDef:
			for j := range v.Fields {
				nt := *v
				nt.Fields = append(append([]ast.Field{}, v.Fields[:j]...), v.Fields[j+1:]...)
				replace(&nt)
			}
		}
	}
	return out
}

func c02EndsWithReturn(b []ast.Statement) bool {
	if len(b) == 0 {
		return false
	}
	_, ok := b[len(b)-1].(ast.ReturnStatement)
	return ok
}

// c02ShrinkStep returns the first one-step reduction of c that still
// disagrees the same way: first with the same coarse outcome pair, and if there
// is none, with the same failure (not a 200) persisting on one side (two defects
// that overlap in one case are separated this way).  run must be deterministic.
func c02ShrinkStep(c c02Case, oi0, ov0 c02Outcome, run func(c02Case) (c02Serve, c02Outcome, c02Outcome), evals *int, budget int) (c02Case, c02Outcome, c02Outcome, bool) {
	pair := c02CoarsePair(oi0, ov0)
	type cand struct {
		c      c02Case
		oi, ov c02Outcome
	}
	var relaxed *cand
	for _, v := range c02CaseVariants(c) {
		if *evals >= budget {
			break
		}
		*evals++
		serve, oi, ov := run(v)
		if serve != c02Both || oi.same(ov) {
			continue
		}
		if c02CoarsePair(oi, ov) == pair {
			return v, oi, ov, true
		}
		if relaxed == nil && ((oi.coarse() == oi0.coarse() && oi.coarse() != "ok") || (ov.coarse() == ov0.coarse() && ov.coarse() != "ok")) && !oi.Hang && !ov.Hang {
			relaxed = &cand{v, oi, ov}
		}
	}
	if relaxed != nil {
		return relaxed.c, relaxed.oi, relaxed.ov, true
	}
	return c, oi0, ov0, false
}

// ---- variable inlining ---------------------------------------------------------

func c02PureLiteral(e ast.Expr) bool {
	switch v := e.(type) {
	case ast.LiteralExpr:
		return true
	case ast.UnaryOpExpr:
		_, ok := v.Right.(ast.LiteralExpr)
		return ok
	case ast.ArrayExpr:
		for _, x := range v.Elements {
			if !c02PureLiteral(x) {
				return false
			}
		}
		return true
	case ast.ObjectExpr:
		for _, f := range v.Fields {
			if !c02PureLiteral(f.Value) {
				return false
			}
		}
		return true
	}
	return false
}

// c02MapExpr rebuilds e bottom-up applying f to every sub-expression.
func c02MapExpr(e ast.Expr, f func(ast.Expr) ast.Expr) ast.Expr {
	if e == nil {
		return nil
	}
	switch v := e.(type) {
	case ast.BinaryOpExpr:
		v.Left, v.Right = c02MapExpr(v.Left, f), c02MapExpr(v.Right, f)
		return f(v)
	case ast.UnaryOpExpr:
		v.Right = c02MapExpr(v.Right, f)
		return f(v)
	case ast.FieldAccessExpr:
		v.Object = c02MapExpr(v.Object, f)
		return f(v)
	case ast.ArrayIndexExpr:
		v.Array, v.Index = c02MapExpr(v.Array, f), c02MapExpr(v.Index, f)
		return f(v)
	case ast.FunctionCallExpr:
		args := make([]ast.Expr, len(v.Args))
		for i, a := range v.Args {
			args[i] = c02MapExpr(a, f)
		}
		v.Args = args
		return f(v)
	case ast.ObjectExpr:
		fs := make([]ast.ObjectField, len(v.Fields))
		for i, x := range v.Fields {
			fs[i] = ast.ObjectField{Key: x.Key, Value: c02MapExpr(x.Value, f)}
		}
		v.Fields = fs
		return f(v)
	case ast.ArrayExpr:
		es := make([]ast.Expr, len(v.Elements))
		for i, x := range v.Elements {
			es[i] = c02MapExpr(x, f)
		}
		v.Elements = es
		return f(v)
	case ast.MatchExpr:
		v.Value = c02MapExpr(v.Value, f)
		cs := make([]ast.MatchCase, len(v.Cases))
		for i, x := range v.Cases {
			cs[i] = ast.MatchCase{Pattern: x.Pattern, Guard: c02MapExpr(x.Guard, f), Body: c02MapExpr(x.Body, f)}
		}
		v.Cases = cs
		return f(v)
	case ast.AwaitExpr:
		v.Expr = c02MapExpr(v.Expr, f)
		return f(v)
	case ast.AsyncExpr:
		v.Body = c02MapStmts(v.Body, f)
		return f(v)
	case ast.PipeExpr:
		v.Left, v.Right = c02MapExpr(v.Left, f), c02MapExpr(v.Right, f)
		return f(v)
	}
	return f(e)
}

func c02MapStmts(b []ast.Statement, f func(ast.Expr) ast.Expr) []ast.Statement {
	out := make([]ast.Statement, len(b))
	for i, s := range b {
		switch v := s.(type) {
		case ast.AssignStatement:
			v.Value = c02MapExpr(v.Value, f)
			out[i] = v
		case ast.ReassignStatement:
			v.Value = c02MapExpr(v.Value, f)
			out[i] = v
		case ast.IndexAssignStatement:
			v.Target, v.Value = c02MapExpr(v.Target, f), c02MapExpr(v.Value, f)
			out[i] = v
		case ast.ReturnStatement:
			v.Value = c02MapExpr(v.Value, f)
			out[i] = v
		case ast.GuardStatement:
			v.Condition = c02MapExpr(v.Condition, f)
			out[i] = v
		case ast.ExpressionStatement:
			v.Expr = c02MapExpr(v.Expr, f)
			out[i] = v
		case ast.ValidationStatement:
			if call, ok := c02MapExpr(v.Call, f).(ast.FunctionCallExpr); ok {
				v.Call = call
			}
			out[i] = v
		case ast.IfStatement:
			v.Condition = c02MapExpr(v.Condition, f)
			v.ThenBlock = c02MapStmts(v.ThenBlock, f)
			if v.ElseBlock != nil {
				v.ElseBlock = c02MapStmts(v.ElseBlock, f)
			}
			out[i] = v
		case ast.WhileStatement:
			v.Condition = c02MapExpr(v.Condition, f)
			v.Body = c02MapStmts(v.Body, f)
			out[i] = v
		case ast.ForStatement:
			v.Iterable = c02MapExpr(v.Iterable, f)
			v.Body = c02MapStmts(v.Body, f)
			out[i] = v
		case ast.SwitchStatement:
			v.Value = c02MapExpr(v.Value, f)
			cs := make([]ast.SwitchCase, len(v.Cases))
			for j, x := range v.Cases {
				cs[j] = ast.SwitchCase{Value: c02MapExpr(x.Value, f), Body: c02MapStmts(x.Body, f)}
			}
			v.Cases = cs
			if v.Default != nil {
				v.Default = c02MapStmts(v.Default, f)
			}
			out[i] = v
		default:
			out[i] = s
		}
	}
	return out
}

// c02InlineVariants: for every top-level `$ v = <literal>` whose variable is not
// assigned, indexed into on the left, shadowed or used as a method receiver
// anywhere else, substitute the literal for the variable and drop the declaration.
func c02InlineVariants(body []ast.Statement) [][]ast.Statement {
	var out [][]ast.Statement
	for i, s := range body {
		as, ok := s.(ast.AssignStatement)
		if !ok || strings.Contains(as.Target, ".") || !c02PureLiteral(as.Value) {
			continue
		}
		rest := append(append([]ast.Statement{}, body[:i]...), body[i+1:]...)
		v := as.Target
		if c02VarWritten(rest, v) {
			continue
		}
		used := false
		nb := c02MapStmts(rest, func(e ast.Expr) ast.Expr {
			if ve, ok := e.(ast.VariableExpr); ok && ve.Name == v {
				used = true
				return as.Value
			}
			return e
		})
		if used {
			out = append(out, nb)
		}
	}
	return out
}

// c02VarWritten: is v assigned, field- or index-assigned, bound by a loop or a
// pattern, or used as a method receiver anywhere in b?
func c02VarWritten(b []ast.Statement, v string) bool {
	found := false
	var rootVar func(e ast.Expr) string
	rootVar = func(e ast.Expr) string {
		switch x := e.(type) {
		case ast.VariableExpr:
			return x.Name
		case ast.FieldAccessExpr:
			return rootVar(x.Object)
		case ast.ArrayIndexExpr:
			return rootVar(x.Array)
		}
		return ""
	}
	var pat func(p ast.Pattern)
	pat = func(p ast.Pattern) {
		switch x := p.(type) {
		case ast.VariablePattern:
			if x.Name == v {
				found = true
			}
		case ast.ObjectPattern:
			for _, f := range x.Fields {
				if f.Pattern == nil && f.Key == v {
					found = true
				}
				if f.Pattern != nil {
					pat(f.Pattern)
				}
			}
		case ast.ArrayPattern:
			for _, e := range x.Elements {
				pat(e)
			}
			if x.Rest != nil && *x.Rest == v {
				found = true
			}
		}
	}
	var walk func(b []ast.Statement)
	walk = func(b []ast.Statement) {
		for _, s := range b {
			switch x := s.(type) {
			case ast.AssignStatement:
				if x.Target == v || strings.HasPrefix(x.Target, v+".") {
					found = true
				}
			case ast.ReassignStatement:
				if x.Target == v || strings.HasPrefix(x.Target, v+".") {
					found = true
				}
			case ast.IndexAssignStatement:
				if rootVar(x.Target) == v {
					found = true
				}
			case ast.IfStatement:
				walk(x.ThenBlock)
				walk(x.ElseBlock)
			case ast.WhileStatement:
				walk(x.Body)
			case ast.ForStatement:
				if x.KeyVar == v || x.ValueVar == v {
					found = true
				}
				walk(x.Body)
			case ast.SwitchStatement:
				for _, c := range x.Cases {
					walk(c.Body)
				}
				walk(x.Default)
			}
		}
	}
	walk(b)
	c02MapStmts(b, func(e ast.Expr) ast.Expr {
		switch x := e.(type) {
		case ast.FunctionCallExpr:
			if strings.HasPrefix(x.Name, v+".") {
				found = true
			}
		case ast.MatchExpr:
			for _, c := range x.Cases {
				pat(c.Pattern)
			}
		case ast.AsyncExpr:
			walk(x.Body)
		}
		return e
	})
	return found
}

// ---- request inlining -----------------------------------------------------------

// c02RequestInlineVariants: for every scalar the route reads from the request
// - input.K of a JSON object body, query.K of an undeclared query parameter, a
// path parameter - substitute the literal both engines bind for it (JSON numbers
// are float64 in both, query and path values are strings).  The shrinker keeps a
// variant only if the two engines still disagree the same way, so a disagreement
// about request binding is never explained away by this step.
func c02RequestInlineVariants(c c02Case) [][]ast.Statement {
	var out [][]ast.Statement
	body := c.route.Body
	subst := func(match func(ast.Expr) bool, lit ast.Expr) {
		used := false
		nb := c02MapStmts(body, func(e ast.Expr) ast.Expr {
			if match(e) {
				used = true
				return lit
			}
			return e
		})
		if used {
			out = append(out, nb)
		}
	}
	fieldOf := func(v, k string) func(ast.Expr) bool {
		return func(e ast.Expr) bool {
			fa, ok := e.(ast.FieldAccessExpr)
			if !ok || fa.Field != k {
				return false
			}
			ve, ok := fa.Object.(ast.VariableExpr)
			return ok && ve.Name == v
		}
	}
	if m, ok := c02EngineBody(c.req).(map[string]interface{}); ok && !c02VarWritten(body, "input") {
		keys := make([]string, 0, len(m))
		for k := range m {
			keys = append(keys, k)
		}
		sort.Strings(keys)
		for _, k := range keys {
			var lit ast.Literal
			switch v := m[k].(type) {
			case nil:
				lit = ast.NullLiteral{}
			case bool:
				lit = ast.BoolLiteral{Value: v}
			case string:
				lit = ast.StringLiteral{Value: v}
			case float64:
				lit = ast.FloatLiteral{Value: v}
			case []interface{}:
				// an array of numbers
				arr := ast.ArrayExpr{}
				for _, e := range v {
					f, ok := e.(float64)
					if !ok {
						arr.Elements = nil
						break
					}
					arr.Elements = append(arr.Elements, ast.LiteralExpr{Value: ast.FloatLiteral{Value: f}})
				}
				if len(arr.Elements) == len(v) && len(v) > 0 {
					subst(fieldOf("input", k), arr)
				}
				continue
			default:
				continue
			}
			subst(fieldOf("input", k), ast.LiteralExpr{Value: lit})
		}
	}
	if c.req.Query != "" && !c02VarWritten(body, "query") {
		declared := map[string]bool{}
		for _, q := range c.route.QueryParams {
			declared[q.Name] = true
		}
		if vals, err := url.ParseQuery(c.req.Query); err == nil {
			keys := make([]string, 0, len(vals))
			for k := range vals {
				keys = append(keys, k)
			}
			sort.Strings(keys)
			for _, k := range keys {
				if !declared[k] && len(vals[k]) == 1 {
					subst(fieldOf("query", k), ast.LiteralExpr{Value: ast.StringLiteral{Value: vals[k][0]}})
				}
			}
		}
	}
	for _, name := range server.ExtractRouteParamNames(c.route.Path) {
		v, ok := c.req.Params[name]
		if !ok {
			v = "1"
		}
		if c.req.Path != "" || c02VarWritten(body, name) {
			continue
		}
		name := name
		subst(func(e ast.Expr) bool { ve, ok := e.(ast.VariableExpr); return ok && ve.Name == name }, ast.LiteralExpr{Value: ast.StringLiteral{Value: v}})
	}
	return out
}

// c02NamesWord: does prog contain word as a whole identifier?
func c02NamesWord(prog, word string) bool {
	if word == "" {
		return false
	}
	isID := func(b byte) bool {
		return b == '_' || (b >= '0' && b <= '9') || (b >= 'a' && b <= 'z') || (b >= 'A' && b <= 'Z')
	}
	for i := 0; ; {
		j := strings.Index(prog[i:], word)
		if j < 0 {
			return false
		}
		j += i
		end := j + len(word)
		if (j == 0 || !isID(prog[j-1])) && (end == len(prog) || !isID(prog[end])) {
			return true
		}
		i = j + 1
	}
}
