package main

// C02 harness, part 4: finding keys.  A key names the root cause of a minimal
// disagreeing case: either a class recognised structurally on the minimal case
// (a call the VM cannot resolve, a statement kind one engine ignores, ...) or,
// generically, the canonical minimal source with literals abstracted to their
// shape, the abstract request when it matters, and the (interpreter outcome
// kind, VM outcome kind) pair.

import (
	"sort"
	"strings"

	"github.com/glyphlang/glyph/pkg/ast"
	"github.com/glyphlang/glyph/pkg/server"
)

// c02Calls lists the function-call names of a statement list in source order.
func c02Calls(b []ast.Statement) []string {
	var names []string
	c02MapStmts(b, func(e ast.Expr) ast.Expr {
		if fc, ok := e.(ast.FunctionCallExpr); ok {
			names = append(names, fc.Name)
		}
		return e
	})
	return names
}

func c02HasReturn(b []ast.Statement) bool {
	for _, s := range b {
		switch x := s.(type) {
		case ast.ReturnStatement, ast.GuardStatement:
			return true
		case ast.IfStatement:
			if c02HasReturn(x.ThenBlock) || c02HasReturn(x.ElseBlock) {
				return true
			}
		case ast.WhileStatement:
			if c02HasReturn(x.Body) {
				return true
			}
		case ast.ForStatement:
			if c02HasReturn(x.Body) {
				return true
			}
		case ast.SwitchStatement:
			for _, c := range x.Cases {
				if c02HasReturn(c.Body) {
					return true
				}
			}
			if c02HasReturn(x.Default) {
				return true
			}
		}
	}
	return false
}

func c02HasValidation(b []ast.Statement) bool {
	for _, s := range b {
		if _, ok := s.(ast.ValidationStatement); ok {
			return true
		}
	}
	return false
}

// c02LogicOps lists the && / || operators of a statement list.
func c02LogicOps(b []ast.Statement) []string {
	var ops []string
	c02MapStmts(b, func(e ast.Expr) ast.Expr {
		if be, ok := e.(ast.BinaryOpExpr); ok && (be.Op == ast.And || be.Op == ast.Or) {
			ops = append(ops, be.Op.String())
		}
		return e
	})
	return ops
}

// c02Key builds the finding key of a minimal case.
func c02Key(min c02Case, oi, ov c02Outcome, vmSet, interpSet map[string]bool) string {
	pair := c02KindPair(oi, ov)
	ci, cv := oi.coarse(), ov.coarse()
	body := min.route.Body
	userFns := map[string]bool{}
	for _, it := range min.mod.Items {
		if f, ok := it.(*ast.Function); ok {
			userFns[f.Name] = true
		}
	}
	prog := c02Print(min.mod, min.route, true)
	trivialReq := c02ReqShape(min.req, min.route, prog) == ""

	// the interpreted handler panics (net/http would drop the connection)
	if ci == "panic" {
		msg := oi.Panic
		for _, cut := range []string{" code ", " type "} {
			if i := strings.Index(msg, cut); i >= 0 {
				msg = msg[:i+len(cut)-1]
			}
		}
		msg = strings.TrimPrefix(msg, "runtime error: ")
		return "interp-panic/" + strings.ReplaceAll(msg, " ", "-") + "/vm=" + cv
	}
	// destructuring patterns: the compiler emits unconditional index / field reads
	if mk := c02MatchClass(body); mk != "" && cv != "hang" {
		return "match/" + mk + "/" + pair
	}
	// VM locals are one flat name-keyed store: a for loop's variables overwrite an
	// enclosing loop's or an earlier declaration's variable of the same name
	if kind := c02ForClobbers(body, c02RouteBound(min.route)); kind != "" && ci != "panic" && cv != "hang" {
		if kind == "variable" {
			return "for-loop-variable-overwrites-same-name-variable-in-vm"
		}
		return "for-loop-variable-overwrites-same-name-" + kind + "-in-vm"
	}
	// `$ obj.field = v` compiles to a store into a variable named "obj.field"
	for _, t := range c02AssignTargets(body) {
		if strings.Contains(t, ".") {
			return "field-assignment-compiled-as-variable-store/interp=" + ci + ",vm=" + cv
		}
	}
	// the request variables can be redeclared in compiled code only
	for _, t := range c02AssignTargets(body) {
		switch t {
		case "input", "query", "headers", "ws", "auth":
			if ci == "fail" && cv == "ok" {
				if t == "ws" {
					// the compiler alone knows a request variable ws on HTTP routes
					return "request-variable-redeclared/ws/interp=fail,vm=ok"
				}
				return "request-variable-redeclared/interp=fail,vm=ok"
			}
		}
	}
	// a `$` inside an async block declares the name for the rest of the route at
	// compile time, while at run time the block's variables live in its own VM
	if n := c02AsyncLeak(body); n != "" && cv == "fail" && ci != "fail" {
		return "async-block-declaration-read-after-the-block/interp=" + ci + ",vm=fail"
	}
	// only the value differs and the route does nothing but build arrays from
	// arrays: one engine's operation writes into storage another value still uses
	if ops := c02AliasOpsOf(body); ops != "" && ci == "ok" && cv == "ok" {
		return "array-aliasing/ops=" + ops + "/" + pair
	}
	// a statement kind the compiler drops
	if c02HasValidation(body) && cv == "ok" && ci != "ok" {
		callee := "unknown-to-both-engines"
		for _, st := range body {
			if v, ok := st.(ast.ValidationStatement); ok {
				n := v.Call.Name
				if userFns[n] || interpSet[n] || interpSet[n[strings.LastIndex(n, ".")+1:]] {
					callee = "known-to-interpreter"
				}
			}
		}
		return "validation-statement-ignored-by-vm/callee-" + callee + "/interp=" + ci + ",vm=ok"
	}
	// calls the VM cannot resolve: the compiler emits OpCall for any name
	if cv == "fail" && ci != "fail" && ci != "panic" && ci != "hang" {
		for _, n := range c02Calls(body) {
			base := n
			dotted := strings.Contains(n, ".")
			if dotted {
				base = n[strings.LastIndex(n, ".")+1:]
			}
			switch {
			case userFns[n]:
				return "vm-lacks/user-defined-function-call"
			case !dotted && interpSet[n] && !vmSet[n]:
				return "vm-lacks-builtin/" + n
			case dotted && !vmSet[n] && interpSet[base] && !vmSet[base]:
				return "vm-lacks-builtin/" + base
			case dotted && !vmSet[n] && interpSet[base]:
				return "vm-lacks/method-call-syntax-for-builtins"
			}
		}
	}
	// causes named by the engines' own diagnostics (error texts are never part of
	// the oracle; here they only attribute a disagreement to a call site).  A case
	// found at HTTP level carries no texts: fetch them from the engine-level run.
	ei, ev := oi.Err, ov.Err
	if ei == "" && ev == "" && ci != "hang" && cv != "hang" {
		if serve, di, dv := c02RunEngine(min.mod, min.route, min.req); serve == c02Both && di.coarse() == ci && dv.coarse() == cv {
			ei, ev = di.Err, dv.Err
		}
	}
	switch {
	case ci == "fail" && cv == "ok" && strings.Contains(ei, "cannot compare string and string"):
		return "string-ordering-comparison/" + pair
	case ci == "ok" && cv == "fail" && strings.Contains(ev, "field not found:"):
		return "missing-field-read/" + pair
	case ci == "fail" && cv == "ok" && strings.Contains(ei, "not found in object"):
		return "missing-key-index/" + pair
	case ci == "fail" && cv == "ok" && strings.Contains(ei, "await requires a Future"):
		return "await-of-non-future/interp=fail,vm=value"
	}
	// the VM's equality distinguishes 1 from 1.0
	if site := c02IntFloatEqSite(body); site != "" && ci == cv && ci != "fail" {
		return "vm-equality-distinguishes-int-from-float/" + site
	}
	// the declared return type is checked by the interpreter only
	if min.route.ReturnType != nil && ci == "fail" && cv == "ok" {
		return "return-type-checked-by-interpreter-only"
	}
	// no return executed: the interpreter answers with the value of the last statement
	if !c02HasReturn(body) && len(body) > 0 && ci == "ok" && cv == "ok" && ov.Body == "null" && trivialReq {
		return "no-return/interp=last-statement-value,vm=null"
	}
	// the same inside an async block: the future resolves to the block's last statement value
	if c02AsyncWithoutReturn(body) && ci == "ok" && cv == "ok" && ov.Body == "null" && trivialReq {
		return "no-return/async-block/interp=last-statement-value,vm=null"
	}
	// && / || : the VM evaluates (and type-checks) the right operand the interpreter skips
	if ops := c02LogicOps(body); len(ops) == 1 && ci == "ok" && cv == "fail" && oi.kind() == "BOOL" {
		return "short-circuit/vm-evaluates-right-operand-of-" + ops[0]
	}

	key := "min/" + c02KeyText(min)
	if rs := c02ReqShape(min.req, min.route, prog); rs != "" {
		key += "/req:" + rs
	}
	key += "/" + pair
	return strings.ReplaceAll(key, " :: ", " ::")
}

// c02KeyText prints the minimal module; for the default route header only the body.
func c02KeyText(min c02Case) string {
	t := c02Print(min.mod, min.route, true)
	for _, m := range []string{"GET", "POST", "PUT", "PATCH", "DELETE"} {
		t = strings.Replace(t, "@ "+m+" /t { ", m+" { ", 1)
		t = strings.Replace(t, "@ "+m+" /t {", m+" {", 1)
	}
	t = strings.Replace(t, "GET { ", "{ ", 1)
	return t
}

// c02MatchClass describes the first destructuring pattern of a match
// expression in b and the kind of value it is applied to ("" if there is none).
func c02MatchClass(b []ast.Statement) string {
	class := ""
	c02MapStmts(b, func(e ast.Expr) ast.Expr {
		m, ok := e.(ast.MatchExpr)
		if !ok || class != "" {
			return e
		}
		for _, c := range m.Cases {
			switch p := c.Pattern.(type) {
			case ast.ArrayPattern:
				on := "value"
				switch v := m.Value.(type) {
				case ast.ArrayExpr:
					on = "array"
				case ast.ObjectExpr:
					on = "non-array"
				case ast.LiteralExpr:
					on = "non-array"
					_ = v
				}
				pat := "[...]"
				if len(p.Elements) == 0 && p.Rest == nil {
					pat = "[]"
				}
				class = pat + "-pattern-on-" + on
				return e
			case ast.ObjectPattern:
				on := "value"
				switch m.Value.(type) {
				case ast.ObjectExpr:
					on = "object"
				case ast.ArrayExpr, ast.LiteralExpr:
					on = "non-object"
				}
				class = "{...}-pattern-on-" + on
				return e
			}
		}
		return e
	})
	return class
}

// c02AssignTargets lists the targets of `$ x = ...` statements at any depth.
func c02AssignTargets(b []ast.Statement) []string {
	var out []string
	var walk func(b []ast.Statement)
	walk = func(b []ast.Statement) {
		for _, s := range b {
			switch x := s.(type) {
			case ast.AssignStatement:
				out = append(out, x.Target)
			case ast.IfStatement:
				walk(x.ThenBlock)
				walk(x.ElseBlock)
			case ast.WhileStatement:
				walk(x.Body)
			case ast.ForStatement:
				walk(x.Body)
			case ast.SwitchStatement:
				for _, c := range x.Cases {
					walk(c.Body)
				}
				walk(x.Default)
			}
		}
	}
	walk(b)
	return out
}

// c02ForClobbers: does a for statement bind a name that is already bound - by
// an enclosing for statement, an earlier `$`, or (bound, on entry) the request?
// It returns the kind of the first such name, "" if there is none.
func c02ForClobbers(b []ast.Statement, bound map[string]string) string {
	local := map[string]string{}
	for k, v := range bound {
		local[k] = v
	}
	for _, s := range b {
		switch x := s.(type) {
		case ast.AssignStatement:
			local[x.Target] = "variable"
		case ast.ForStatement:
			if x.KeyVar != "" && local[x.KeyVar] != "" {
				return local[x.KeyVar]
			}
			if local[x.ValueVar] != "" {
				return local[x.ValueVar]
			}
			inner := map[string]string{}
			for k, v := range local {
				inner[k] = v
			}
			inner[x.ValueVar] = "variable"
			if x.KeyVar != "" {
				inner[x.KeyVar] = "variable"
			}
			if k := c02ForClobbers(x.Body, inner); k != "" {
				return k
			}
		case ast.IfStatement:
			if k := c02ForClobbers(x.ThenBlock, local); k != "" {
				return k
			}
			if k := c02ForClobbers(x.ElseBlock, local); k != "" {
				return k
			}
		case ast.WhileStatement:
			if k := c02ForClobbers(x.Body, local); k != "" {
				return k
			}
		case ast.SwitchStatement:
			for _, c := range x.Cases {
				if k := c02ForClobbers(c.Body, local); k != "" {
					return k
				}
			}
			if k := c02ForClobbers(x.Default, local); k != "" {
				return k
			}
		}
	}
	return ""
}

// c02RouteBound lists the names the request binds in a route before its body runs.
func c02RouteBound(route *ast.Route) map[string]string {
	m := map[string]string{"input": "request-variable", "query": "request-variable", "headers": "request-variable", "ws": "request-variable"}
	if route.Auth != nil {
		m["auth"] = "request-variable"
	}
	for _, q := range route.QueryParams {
		m[q.Name] = "query-parameter"
	}
	for _, n := range server.ExtractRouteParamNames(route.Path) {
		m[n] = "path-parameter"
	}
	return m
}

// c02IntFloatEqSite finds an equality test between an int literal and a float
// literal: the operator ==/!=, a literal pattern of a match, a case of a switch.
func c02IntFloatEqSite(b []ast.Statement) string {
	numKind := func(e ast.Expr) string {
		if l, ok := e.(ast.LiteralExpr); ok {
			switch l.Value.(type) {
			case ast.IntLiteral:
				return "i"
			case ast.FloatLiteral:
				return "f"
			}
		}
		return ""
	}
	mixed := func(a, b string) bool { return a != "" && b != "" && a != b }
	site := ""
	set := func(s string) {
		if site == "" {
			site = s
		}
	}
	c02MapStmts(b, func(e ast.Expr) ast.Expr {
		switch v := e.(type) {
		case ast.BinaryOpExpr:
			if (v.Op == ast.Eq || v.Op == ast.Ne) && mixed(numKind(v.Left), numKind(v.Right)) {
				set("operator")
			}
		case ast.MatchExpr:
			for _, c := range v.Cases {
				if lp, ok := c.Pattern.(ast.LiteralPattern); ok && mixed(numKind(v.Value), numKind(ast.LiteralExpr{Value: lp.Value})) {
					set("match-literal-pattern")
				}
			}
		}
		return e
	})
	var walk func(b []ast.Statement)
	walk = func(b []ast.Statement) {
		for _, s := range b {
			switch x := s.(type) {
			case ast.SwitchStatement:
				for _, c := range x.Cases {
					if mixed(numKind(x.Value), numKind(c.Value)) {
						set("switch-case")
					}
					walk(c.Body)
				}
				walk(x.Default)
			case ast.IfStatement:
				walk(x.ThenBlock)
				walk(x.ElseBlock)
			case ast.WhileStatement:
				walk(x.Body)
			case ast.ForStatement:
				walk(x.Body)
			}
		}
	}
	walk(b)
	return site
}

// c02AsyncWithoutReturn: is there an async block whose body executes no return?
func c02AsyncWithoutReturn(b []ast.Statement) bool {
	found := false
	c02MapStmts(b, func(e ast.Expr) ast.Expr {
		if a, ok := e.(ast.AsyncExpr); ok && len(a.Body) > 0 && !c02HasReturn(a.Body) {
			found = true
		}
		return e
	})
	return found
}

// c02AsyncLeak returns a name that a top-level statement declares with `$`
// inside an async block and a later top-level statement reads ("" if none).
func c02AsyncLeak(b []ast.Statement) string {
	declared := map[string]bool{}
	for _, st := range b {
		// a read of a name an earlier statement's async block declared
		found := ""
		c02MapStmts([]ast.Statement{st}, func(e ast.Expr) ast.Expr {
			if v, ok := e.(ast.VariableExpr); ok && declared[v.Name] && found == "" {
				found = v.Name
			}
			return e
		})
		if found != "" {
			return found
		}
		c02MapStmts([]ast.Statement{st}, func(e ast.Expr) ast.Expr {
			if a, ok := e.(ast.AsyncExpr); ok {
				for _, t := range c02AssignTargets(a.Body) {
					declared[t] = true
				}
			}
			return e
		})
	}
	return ""
}

// c02AliasOpsOf: if the route body consists of declarations, at least two
// array-building reassignments (D = S + [..], D = [..] + S, D = S + S2, D = S,
// for v in S { D = D + [v] }) and a final return, it returns the sorted set of
// the forms used, "" otherwise.
func c02AliasOpsOf(b []ast.Statement) string {
	isVar := func(e ast.Expr) bool { _, ok := e.(ast.VariableExpr); return ok }
	isArr := func(e ast.Expr) bool { _, ok := e.(ast.ArrayExpr); return ok }
	form := func(st ast.Statement) string {
		r, ok := st.(ast.ReassignStatement)
		if !ok {
			return ""
		}
		if isVar(r.Value) {
			return "alias"
		}
		if be, ok := r.Value.(ast.BinaryOpExpr); ok && be.Op == ast.Add {
			switch {
			case isVar(be.Left) && isArr(be.Right):
				return "concat-onto"
			case isArr(be.Left) && isVar(be.Right):
				return "prepend-to"
			case isVar(be.Left) && isVar(be.Right):
				return "concat-two"
			case isArr(be.Left) && isArr(be.Right):
				return "concat-onto" // (onto an array that is not held by a variable)
			}
		}
		return ""
	}
	forms := map[string]bool{}
	n := 0
	for i, st := range b {
		switch x := st.(type) {
		case ast.AssignStatement:
			continue
		case ast.ReturnStatement:
			if i != len(b)-1 {
				return ""
			}
			continue
		case ast.ForStatement:
			if len(x.Body) == 1 && form(x.Body[0]) == "concat-onto" && isVar(x.Iterable) {
				forms["rebuild-in-loop"] = true
				n++
				continue
			}
			return ""
		}
		f := form(st)
		if f == "" {
			return ""
		}
		forms[f] = true
		n++
	}
	if n < 2 {
		return ""
	}
	var fs []string
	for f := range forms {
		fs = append(fs, f)
	}
	sort.Strings(fs)
	return strings.Join(fs, "+")
}
