package main

// C02 harness, part 1: the two execution paths and their observable outcomes.
//
// Engine level: compiler.CompileRoute (OptBasic, as the CLI) + vm.Execute with
// the local bindings createCompiledRouteHandler installs, versus
// interpreter.ExecuteRoute on an interpreter configured and loaded the way
// setupRoutes does it.
//
// HTTP level: parseSource -> setupRoutes(module, path, forceInterpreter) ->
// createHandler(router), driven with httptest recorders.

import (
	"bytes"
	"encoding/json"
	"fmt"
	"io"
	"log"
	"math"
	"net/http"
	"net/http/httptest"
	"net/url"
	"os"
	"runtime"
	"sort"
	"strconv"
	"strings"
	"time"

	"github.com/fatih/color"
	"github.com/glyphlang/glyph/internal/verif/vk"
	"github.com/glyphlang/glyph/pkg/ast"
	"github.com/glyphlang/glyph/pkg/compiler"
	"github.com/glyphlang/glyph/pkg/interpreter"
	"github.com/glyphlang/glyph/pkg/server"
	"github.com/glyphlang/glyph/pkg/vm"
)

// c02Req is one request.  The path is the route's pattern with every :name
// replaced by the (escaped) parameter value unless Path overrides it.
type c02Req struct {
	Method string            `json:"method"`
	Params map[string]string `json:"params,omitempty"` // decoded path parameter values
	Path   string            `json:"path,omitempty"`   // raw path override (HTTP level only)
	Query  string            `json:"query,omitempty"`  // raw query, without '?'
	Body   *string           `json:"body,omitempty"`   // raw body; nil = no body
	CType  string            `json:"ctype,omitempty"`
	XTest  *string           `json:"xtest,omitempty"` // value of the header "Xtest"
	// Pad spaces are sent in front of Body (legal JSON white space): the size
	// dimension of the body, kept out of the replay files and descriptions
	Pad int `json:"pad,omitempty"`
}

// wire is the body as sent.
func (r c02Req) wire() string {
	if r.Body == nil {
		return ""
	}
	if r.Pad > 0 {
		return strings.Repeat(" ", r.Pad) + *r.Body
	}
	return *r.Body
}

func (r c02Req) clone() c02Req {
	c := r
	if r.Params != nil {
		c.Params = map[string]string{}
		for k, v := range r.Params {
			c.Params[k] = v
		}
	}
	return c
}

func c02Str(s string) *string { return &s }

// rawPath builds the request path for a route pattern (escaped = as sent on
// the wire; unescaped = what net/http hands the handlers as URL.Path).
func (r c02Req) rawPath(pattern string) string { return r.path(pattern, true) }

func (r c02Req) path(pattern string, escaped bool) string {
	if r.Path != "" {
		return r.Path
	}
	segs := strings.Split(pattern, "/")
	for i, s := range segs {
		if strings.HasPrefix(s, ":") {
			v, ok := r.Params[s[1:]]
			if !ok {
				v = "1"
			}
			if escaped {
				v = url.PathEscape(v)
			}
			segs[i] = v
		}
	}
	return strings.Join(segs, "/")
}

func (r c02Req) String() string {
	var b strings.Builder
	b.WriteString(r.Method)
	if r.Path != "" {
		b.WriteString(" " + r.Path)
	}
	if len(r.Params) > 0 {
		keys := make([]string, 0, len(r.Params))
		for k := range r.Params {
			keys = append(keys, k)
		}
		sort.Strings(keys)
		for _, k := range keys {
			fmt.Fprintf(&b, " :%s=%q", k, r.Params[k])
		}
	}
	if r.Query != "" {
		b.WriteString(" ?" + r.Query)
	}
	if r.Body != nil {
		if r.Pad > 0 {
			fmt.Fprintf(&b, " body=<%d spaces>%s", r.Pad, *r.Body)
		} else {
			fmt.Fprintf(&b, " body=%s", *r.Body)
		}
	}
	if r.CType != "" {
		fmt.Fprintf(&b, " ctype=%s", r.CType)
	}
	if r.XTest != nil {
		fmt.Fprintf(&b, " Xtest=%q", *r.XTest)
	}
	return b.String()
}

// c02Outcome is what a client can observe.
type c02Outcome struct {
	Hang     bool   `json:"hang,omitempty"`  // did not return (step limit at engine level, watchdog at HTTP level)
	Panic    string `json:"panic,omitempty"` // the handler panicked (net/http would drop the connection)
	Status   int    `json:"status"`
	CType    string `json:"ctype,omitempty"`
	Location string `json:"location,omitempty"`
	Body     string `json:"body"`          // canonical JSON, or "raw:"+bytes when not JSON
	Err      string `json:"err,omitempty"` // engine error text (diagnostic only, never compared)
}

func (o c02Outcome) same(p c02Outcome) bool {
	return o.Hang == p.Hang && (o.Panic != "") == (p.Panic != "") && o.Status == p.Status && o.CType == p.CType && o.Location == p.Location && o.Body == p.Body
}

func (o c02Outcome) String() string {
	if o.Hang {
		return "HANG"
	}
	if o.Panic != "" {
		return "PANIC(" + o.Panic + ")"
	}
	s := fmt.Sprintf("%d %s", o.Status, o.Body)
	if o.CType != "application/json" {
		s += " [ctype=" + o.CType + "]"
	}
	if o.Location != "" {
		s += " [location=" + o.Location + "]"
	}
	if o.Err != "" {
		s += " (" + o.Err + ")"
	}
	return s
}

// kind abstracts an outcome for finding keys.
func (o c02Outcome) kind() string {
	switch {
	case o.Hang:
		return "hang"
	case o.Panic != "":
		return "panic"
	}
	k := ""
	if o.Status != 200 {
		k = strconv.Itoa(o.Status) + ":"
	}
	if o.Status == 500 && strings.Contains(o.Body, "Internal server error") {
		return "fail"
	}
	if o.Location != "" {
		return k + "redirect"
	}
	if o.CType != "application/json" {
		k += "[" + strings.SplitN(o.CType, ";", 2)[0] + "]"
	}
	return k + c02BodyShape(o.Body)
}

func c02BodyShape(b string) string {
	switch {
	case b == "":
		return "empty"
	case strings.HasPrefix(b, "raw:"):
		return "RAW"
	case b == "true" || b == "false":
		return "BOOL"
	case b == "null":
		return "null"
	case b[0] == '"':
		return "STR"
	case b[0] == '[':
		return "ARR"
	case b[0] == '{':
		if strings.HasPrefix(b, `{"error":`) {
			return "ERROBJ"
		}
		return "OBJ"
	}
	if strings.ContainsAny(b, ".eE") {
		return "FLOAT"
	}
	return "INT"
}

// coarse abstracts an outcome to what shrinking must preserve: the way the
// request ended (hang, panic, engine failure, status), not the value.
func (o c02Outcome) coarse() string {
	switch {
	case o.Hang:
		return "hang"
	case o.Panic != "":
		return "panic"
	case o.Status == 500 && strings.Contains(o.Body, "Internal server error"):
		return "fail"
	case o.Location != "":
		return strconv.Itoa(o.Status) + "redirect"
	case o.Status == 200:
		return "ok"
	}
	return strconv.Itoa(o.Status)
}

func c02CoarsePair(oi, ov c02Outcome) string {
	ci, cv := oi.coarse(), ov.coarse()
	if ci == cv {
		cv += "(differs)"
	}
	return ci + "/" + cv
}

// c02KindPair gives the (interpreter kind, VM kind) pair of a disagreement.
func c02KindPair(oi, ov c02Outcome) string {
	ki, kv := oi.kind(), ov.kind()
	if ki == kv {
		kv += "(differs)"
	}
	return "interp=" + ki + ",vm=" + kv
}

// ---- canonical JSON --------------------------------------------------------

func c02Canon(raw []byte) string {
	t := bytes.TrimSpace(raw)
	if len(t) == 0 {
		return ""
	}
	dec := json.NewDecoder(bytes.NewReader(t))
	dec.UseNumber()
	var v interface{}
	if err := dec.Decode(&v); err != nil {
		return "raw:" + string(raw)
	}
	if dec.More() {
		return "raw:" + string(raw)
	}
	var b strings.Builder
	c02CanonWrite(&b, v)
	return b.String()
}

func c02CanonWrite(b *strings.Builder, v interface{}) {
	switch x := v.(type) {
	case nil:
		b.WriteString("null")
	case bool:
		if x {
			b.WriteString("true")
		} else {
			b.WriteString("false")
		}
	case json.Number:
		b.WriteString(c02CanonNum(string(x)))
	case string:
		e, _ := json.Marshal(x)
		b.Write(e)
	case []interface{}:
		b.WriteByte('[')
		for i, e := range x {
			if i > 0 {
				b.WriteByte(',')
			}
			c02CanonWrite(b, e)
		}
		b.WriteByte(']')
	case map[string]interface{}:
		keys := make([]string, 0, len(x))
		for k := range x {
			keys = append(keys, k)
		}
		sort.Strings(keys)
		b.WriteByte('{')
		for i, k := range keys {
			if i > 0 {
				b.WriteByte(',')
			}
			e, _ := json.Marshal(k)
			b.Write(e)
			b.WriteByte(':')
			c02CanonWrite(b, x[k])
		}
		b.WriteByte('}')
	}
}

// numbers are compared numerically: 2, 2.0 and 2e0 are the same number.
func c02CanonNum(s string) string {
	if n, err := strconv.ParseInt(s, 10, 64); err == nil {
		return strconv.FormatInt(n, 10)
	}
	f, err := strconv.ParseFloat(s, 64)
	if err != nil {
		return s
	}
	if f == math.Trunc(f) && math.Abs(f) < 1e15 {
		return strconv.FormatInt(int64(f), 10)
	}
	return strconv.FormatFloat(f, 'g', -1, 64)
}

// ---- engine level ----------------------------------------------------------

const c02StepLimit = 400000

type c02Serve int

const (
	c02Both     c02Serve = iota // both modes serve the route with different engines
	c02Fallback                 // compile error that is not semantic: the CLI serves the module interpreted in both modes
	c02Refused                  // one mode refuses to start (semantic compile error, or the module fails to load)
)

// c02EngineBody is the decoded body both handlers hand to their engine for
// POST/PUT/PATCH with a JSON-ish content type (the rule the two handlers
// share; the differences between them are HTTP-level matter).
func c02EngineBody(r c02Req) interface{} {
	if r.Body == nil || r.Pad > 0 || !(r.Method == "POST" || r.Method == "PUT" || r.Method == "PATCH") {
		return nil // (a padded body is HTTP-level matter: the handlers' size limit decides)
	}
	if !(r.CType == "" || strings.HasPrefix(r.CType, "application/json")) {
		return nil
	}
	var m map[string]interface{}
	if err := json.NewDecoder(strings.NewReader(*r.Body)).Decode(&m); err != nil || m == nil {
		return nil // the JSON literal null is no object: what the handlers make of it is HTTP-level matter
	}
	return m
}

func c02Headers(r c02Req) map[string]string {
	h := map[string]string{}
	if r.CType != "" {
		h["Content-Type"] = r.CType
	}
	if r.XTest != nil {
		h["Xtest"] = *r.XTest
	}
	return h
}

// c02CompileModule asks the CLI itself (setupRoutes, default mode) how it serves
// the module: compiled, interpreted although compiled mode was requested (the
// automatic fallback), or not at all.  The rule is not re-implemented here; only
// the per-route bytecode is recompiled with the compiler setupRoutes uses,
// because setupRoutes returns it keyed by path.
func c02CompileModule(mod *ast.Module) (serve c02Serve, code map[*ast.Route][]byte, why string) {
	useCompiler, _, wsServer, _, err := setupRoutes(mod, "/nonexistent/c02.glyph", false)
	if wsServer != nil {
		runtime.Gosched()
		wsServer.Shutdown()
	}
	if err != nil {
		return c02Refused, nil, err.Error()
	}
	if !useCompiler {
		return c02Fallback, nil, "setupRoutes chose the interpreter"
	}
	code = map[*ast.Route][]byte{}
	c := compiler.NewCompilerWithOptLevel(compiler.OptBasic)
	for _, item := range mod.Items {
		if r, ok := item.(*ast.Route); ok {
			bc, err := c.CompileRoute(r)
			if err != nil {
				return c02Refused, nil, "setupRoutes serves compiled but CompileRoute fails: " + err.Error()
			}
			code[r] = bc
		}
	}
	return c02Both, code, ""
}

func c02EngineVM(mod *ast.Module, route *ast.Route, bytecode []byte, r c02Req) (out c02Outcome) {
	setCompiledTypeDefs(mod) // global, as set by setupRoutes for the module being served
	defer func() {
		if p := recover(); p != nil {
			out = c02Outcome{Panic: fmt.Sprint(p)}
		}
	}()
	m := vm.NewVM()
	m.SetMaxSteps(c02StepLimit)
	for _, name := range server.ExtractRouteParamNames(route.Path) {
		v, ok := r.Params[name]
		if !ok {
			v = "1"
		}
		m.SetLocal(name, vm.StringValue{Val: v})
	}
	rawQuery, _ := url.ParseQuery(r.Query)
	qp, qErr := interpreter.ProcessQueryParams(map[string][]string(rawQuery), route.QueryParams)
	if qErr != nil {
		b, _ := json.Marshal(map[string]interface{}{"error": qErr.Error()})
		return c02Outcome{Status: 400, CType: "application/json", Body: c02Canon(b)}
	}
	for _, decl := range route.QueryParams {
		if _, exists := qp[decl.Name]; !exists && decl.Default != nil {
			if val, ok := evalLiteralExpr(decl.Default); ok {
				qp[decl.Name] = val
			}
		}
	}
	qo := make(map[string]vm.Value, len(qp))
	for k, v := range qp {
		qo[k] = interfaceToValue(v)
	}
	m.SetLocal("query", vm.ObjectValue{Val: qo})
	for _, decl := range route.QueryParams {
		if val, ok := qp[decl.Name]; ok {
			m.SetLocal(decl.Name, interfaceToValue(val))
		}
	}
	if body := c02EngineBody(r); body != nil {
		// the compiled handler validates the body against the declared input
		// type before it runs the bytecode (the caller has set compiledTypeDefs)
		if err := validateCompiledInput(route, body.(map[string]interface{})); err != nil {
			b, _ := json.Marshal(map[string]interface{}{"error": err.Error()})
			return c02Outcome{Status: 400, CType: "application/json", Body: c02Canon(b)}
		}
		m.SetLocal("input", interfaceToValue(body))
	} else {
		m.SetLocal("input", vm.NullValue{})
	}
	ho := map[string]vm.Value{}
	for k, v := range c02Headers(r) {
		ho[k] = vm.StringValue{Val: v}
	}
	m.SetLocal("headers", vm.ObjectValue{Val: ho})

	result, err := m.Execute(bytecode)
	if err != nil {
		if strings.Contains(err.Error(), "maximum step limit") {
			return c02Outcome{Hang: true, Err: err.Error()}
		}
		return c02Outcome{Status: 500, CType: "application/json", Body: `{"error":"Internal server error"}`, Err: err.Error()}
	}
	status := 200
	var body vm.Value = result
	if b, s, ok := unwrapStatusResult(result); ok {
		body, status = b, s
	}
	enc, err := json.Marshal(body)
	if err != nil {
		return c02Outcome{Status: 500, CType: "application/json", Body: `{"error":"Internal server error"}`, Err: "encode: " + err.Error()}
	}
	return c02Outcome{Status: status, CType: "application/json", Body: c02Canon(enc)}
}

func c02EngineInterp(mod *ast.Module, route *ast.Route, r c02Req) (out c02Outcome, loaded bool) {
	defer func() {
		if p := recover(); p != nil {
			out, loaded = c02Outcome{Panic: fmt.Sprint(p)}, true
		}
	}()
	interp := newConfiguredInterpreter()
	if err := interp.LoadModuleWithPath(*mod, "/nonexistent"); err != nil {
		return c02Outcome{Err: err.Error()}, false
	}
	path := r.path(route.Path, false)
	if r.Query != "" {
		path += "?" + r.Query
	}
	params := map[string]string{}
	for _, name := range server.ExtractRouteParamNames(route.Path) {
		params[name] = "1"
		if v, ok := r.Params[name]; ok {
			params[name] = v
		}
	}
	req := &interpreter.Request{Path: path, Method: r.Method, Params: params, Body: c02EngineBody(r), Headers: c02Headers(r)}
	resp, err := interp.ExecuteRoute(route, req)
	fail := c02Outcome{Status: 500, CType: "application/json", Body: `{"error":"Internal server error"}`}
	if err != nil {
		fail.Err = err.Error()
		if resp != nil && resp.StatusCode >= 400 && resp.StatusCode < 500 {
			enc, jerr := json.Marshal(resp.Body)
			if jerr != nil {
				return fail, true
			}
			return c02Outcome{Status: resp.StatusCode, CType: "application/json", Body: c02Canon(enc), Err: err.Error()}, true
		}
		return fail, true
	}
	if loc, ok := resp.Headers["Location"]; ok && loc != "" {
		return c02Outcome{Status: resp.StatusCode, Location: loc}, true
	}
	if ct, ok := resp.Headers["Content-Type"]; ok && ct != "" {
		o := c02Outcome{Status: resp.StatusCode, CType: ct}
		switch b := resp.Body.(type) {
		case string:
			o.Body = c02Canon([]byte(b))
		case []byte:
			o.Body = c02Canon(b)
		default:
			enc, _ := json.Marshal(resp.Body)
			o.Body = c02Canon(enc)
		}
		return o, true
	}
	enc, jerr := json.Marshal(resp.Body)
	if jerr != nil {
		fail.Err = "encode: " + jerr.Error()
		return fail, true
	}
	return c02Outcome{Status: resp.StatusCode, CType: "application/json", Body: c02Canon(enc)}, true
}

// c02RunEngine runs one (module, route, request) on both engines.
func c02RunEngine(mod *ast.Module, route *ast.Route, r c02Req) (serve c02Serve, oi, ov c02Outcome) {
	serve, code, why := c02CompileModule(mod)
	if serve != c02Both {
		return serve, c02Outcome{Err: why}, c02Outcome{Err: why}
	}
	oi, loaded := c02EngineInterp(mod, route, r)
	if !loaded {
		return c02Refused, oi, ov
	}
	ov = c02EngineVM(mod, route, code[route], r)
	return c02Both, oi, ov
}

// ---- HTTP level ------------------------------------------------------------

type c02Server struct {
	mod         *ast.Module
	handler     http.HandlerFunc
	useCompiler bool
	stop        func()
}

func c02Setup(mod *ast.Module, forceInterpreter bool) (*c02Server, error) {
	useCompiler, _, wsServer, router, err := setupRoutes(mod, "/nonexistent/c02.glyph", forceInterpreter)
	if err != nil {
		if wsServer != nil {
			runtime.Gosched()
			wsServer.Shutdown()
		}
		return nil, err
	}
	return &c02Server{mod: mod, handler: createHandler(router), useCompiler: useCompiler, stop: func() { runtime.Gosched(); wsServer.Shutdown() }}, nil
}

func (s *c02Server) do(pattern string, r c02Req, watchdog bool) (out c02Outcome) {
	target := r.rawPath(pattern)
	if r.Query != "" {
		target += "?" + r.Query
	}
	var body io.Reader
	if r.Body != nil {
		body = strings.NewReader(r.wire())
	}
	req := httptest.NewRequest(r.Method, target, body)
	if r.CType != "" {
		req.Header.Set("Content-Type", r.CType)
	}
	if r.XTest != nil {
		req.Header.Set("Xtest", *r.XTest)
	}
	rec := httptest.NewRecorder()
	// compiledTypeDefs is process-global and set by setupRoutes; one process serves
	// one module, so restore this server's definitions before every request
	setCompiledTypeDefs(s.mod)
	run := func() {
		defer func() {
			if p := recover(); p != nil {
				out.Panic = fmt.Sprint(p)
			}
		}()
		s.handler(rec, req)
	}
	if watchdog {
		returned, _ := vk.WithWatchdog(20*time.Second, run)
		if !returned {
			return c02Outcome{Hang: true}
		}
	} else {
		run()
	}
	if out.Panic != "" {
		return out
	}
	out.Status = rec.Code
	out.CType = rec.Header().Get("Content-Type")
	out.Location = rec.Header().Get("Location")
	out.Body = c02Canon(rec.Body.Bytes())
	return out
}

// c02RunHTTP runs one request against fresh servers in both modes.
func c02RunHTTP(mod *ast.Module, route *ast.Route, r c02Req, watchdog bool) (serve c02Serve, oi, ov c02Outcome) {
	sc, err := c02Setup(mod, false)
	if err != nil {
		return c02Refused, c02Outcome{Err: err.Error()}, c02Outcome{Err: err.Error()}
	}
	defer sc.stop()
	si, err := c02Setup(mod, true)
	if err != nil {
		return c02Refused, c02Outcome{Err: err.Error()}, c02Outcome{Err: err.Error()}
	}
	defer si.stop()
	oi = si.do(route.Path, r, false)
	ov = sc.do(route.Path, r, watchdog)
	if !sc.useCompiler {
		return c02Fallback, oi, ov
	}
	return c02Both, oi, ov
}

func c02Quiet() {
	log.SetOutput(io.Discard)
	color.Output = io.Discard
	if f, err := os.OpenFile(os.DevNull, os.O_WRONLY, 0); err == nil {
		os.Stdout = f
	}
}
