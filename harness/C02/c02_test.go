package main

// Verification harness for C02: compiled and interpreted execution are
// indistinguishable.  Differential bounded-exhaustive enumeration of
// programs x requests; the oracle is equality of the two engines' observable
// outcomes (no reference semantics).
//
//   c02_gen_test.go    the enumerated space (layers L1..L6, request matrix)
//   c02_gen2_test.go   binder x visible name (L7), aliasing histories (L8), body grammar
//   c02_run_test.go    the two execution paths at engine level and at HTTP level
//   c02_shrink_test.go canonical printing, one-step reductions, greedy shrinking
//   c02_test.go        driver: work items, attribution of disagreements to keys

import (
	"fmt"
	"hash/fnv"
	"os"
	"sort"
	"strings"
	"testing"
	"time"

	"github.com/glyphlang/glyph/internal/verif/vk"
	"github.com/glyphlang/glyph/pkg/ast"
)

type c02Replay struct {
	Level string `json:"level"`
	Layer string `json:"layer"`
	Src   string `json:"src"`
	Route int    `json:"route"`
	Req   c02Req `json:"req"`
	// informational
	Minimal string `json:"minimal,omitempty"`
	MinReq  string `json:"minimal_request,omitempty"`
}

type c02Checker struct {
	p          vk.Params
	res        *vk.Result
	attributed map[string]string // signature of an unshrunk disagreement -> key
	confirmed  map[string]bool   // key -> confirmed at HTTP level
	distinct   map[uint64]struct{}
	vmSet      map[string]bool
	interpSet  map[string]bool
	debug      *os.File
}

func c02Routes(mod *ast.Module) []*ast.Route {
	var rs []*ast.Route
	for _, it := range mod.Items {
		if r, ok := it.(*ast.Route); ok {
			rs = append(rs, r)
		}
	}
	return rs
}

func c02HasWhile(src string) bool { return strings.Contains(src, "while ") }

func (c *c02Checker) countCase(level, src string, r c02Req, nontrivial bool) {
	c.res.Evaluations++
	if !nontrivial {
		return
	}
	h := fnv.New64a()
	h.Write([]byte(level))
	h.Write([]byte{0})
	h.Write([]byte(src))
	h.Write([]byte{0})
	h.Write([]byte(r.String()))
	k := h.Sum64()
	if _, ok := c.distinct[k]; !ok {
		c.distinct[k] = struct{}{}
		c.res.Distinct++
		c.res.Sample(4, map[string]any{"level": level, "source": src, "request": r.String()})
	}
}

func c02Trivial(oi, ov c02Outcome) bool { return oi.kind() == "fail" && ov.kind() == "fail" }

// runner for a level
func (c *c02Checker) runner(level string, watchdog bool) func(c02Case) (c02Serve, c02Outcome, c02Outcome) {
	if level == "http" {
		return func(k c02Case) (c02Serve, c02Outcome, c02Outcome) { return c02RunHTTP(k.mod, k.route, k.req, watchdog) }
	}
	return func(k c02Case) (c02Serve, c02Outcome, c02Outcome) { return c02RunEngine(k.mod, k.route, k.req) }
}

// disagree handles one disagreeing case: attribute it to an already keyed
// minimal case with the same abstract shape, or shrink it, key it, confirm an
// engine-level finding through the CLI's HTTP wiring, and record it.
func (c *c02Checker) disagree(level, layer, src string, routeIdx int, k c02Case, oi, ov c02Outcome) (key string) {
	c.res.Count("disagreements/"+level, 1)
	sigOf := func(k c02Case, oi, ov c02Outcome) string {
		prog := c02Print(k.mod, k.route, true)
		return level + "|" + prog + "|" + c02ReqShape(k.req, k.route, prog) + "|" + c02CoarsePair(oi, ov)
	}
	sig := sigOf(k, oi, ov)
	if key, ok := c.attributed[sig]; ok {
		c.res.Count("disagreements_attributed_by_shape", 1)
		return key
	}
	hasWhile := c02HasWhile(src)
	budget := 3000
	if level == "http" {
		budget = 600
	}
	run := c.runner(level, hasWhile)
	path := []string{sig}
	min, moi, mov, evals := k, oi, ov, 0
	for {
		next, noi, nov, ok := c02ShrinkStep(min, moi, mov, run, &evals, budget)
		if !ok {
			break
		}
		min, moi, mov = next, noi, nov
		s := sigOf(min, moi, mov)
		if key, ok := c.attributed[s]; ok {
			for _, p := range path {
				c.attributed[p] = key
			}
			c.res.Count("shrink_evaluations", int64(evals))
			c.res.Count("disagreements_attributed_while_shrinking", 1)
			return key
		}
		path = append(path, s)
	}
	c.res.Count("shrink_evaluations", int64(evals))
	c.res.Count("disagreements_shrunk_to_minimal", 1)
	key = c02Key(min, moi, mov, c.vmSet, c.interpSet)
	for _, p := range path {
		c.attributed[p] = key
	}
	if c.debug != nil {
		fmt.Fprintf(c.debug, "%s\t%s\t%s\t%s\t%s\t%s\n", key, level, layer, c02Print(min.mod, min.route, false), min.req, moi.String()+" <> "+mov.String())
	}
	desc := fmt.Sprintf("%s level: minimal program `%s` request [%s]: interpreter -> %s ; compiled/VM -> %s (found from layer %s: `%s` request [%s]: interpreter -> %s ; VM -> %s)",
		level, c02Print(min.mod, min.route, false), min.req, moi, mov, layer, c02OneLine(src), k.req, oi, ov)
	if level == "engine" && !mov.Hang && !moi.Hang {
		ok, seen := c.confirmed[key]
		if !seen {
			serve, hi, hv := c02RunHTTP(min.mod, min.route, min.req, hasWhile)
			ok = serve == c02Both && !hi.same(hv)
			c.confirmed[key] = ok
			if !ok {
				c.res.Count("engine_only_disagreements_not_visible_over_http", 1)
				c.res.Note("engine-level disagreement not visible through the HTTP wiring (not reported): %s : http interpreter -> %s ; http compiled -> %s", desc, hi, hv)
			} else {
				desc += fmt.Sprintf(" ; confirmed over HTTP: interpreted mode -> %s ; compiled mode -> %s", hi, hv)
			}
		}
		if !ok {
			return key
		}
	}
	c.res.Violate(key, desc, c02Replay{Level: level, Layer: layer, Src: src, Route: routeIdx, Req: k.req, Minimal: c02Print(min.mod, min.route, false), MinReq: min.req.String()})
	return key
}

func c02OneLine(s string) string {
	return strings.Join(strings.Fields(strings.ReplaceAll(s, "\n", " ; ")), " ")
}

// item processes one work item.
func (c *c02Checker) item(it c02Item) {
	c.res.Count("programs/"+it.Level, 1)
	c.res.Count("layer/"+it.Level+"/"+it.Layer, int64(len(it.Reqs)))
	mod, err := parseSource(it.Src)
	if err != nil {
		c.res.Count("rejected_by_parser", 1)
		c.res.Count("rejected_by_parser/"+it.Layer, 1)
		if c.debug != nil {
			fmt.Fprintf(c.debug, "PARSE\t%s\t%s\t%v\n", it.Layer, c02OneLine(it.Src), err)
		}
		return
	}
	routes := c02Routes(mod)
	if it.Route >= len(routes) {
		c.res.Count("rejected_by_parser", 1)
		return
	}
	route := routes[it.Route]
	if it.Level == "engine" {
		c.engineItem(it, mod, route)
	} else {
		c.httpItem(it, mod, route)
	}
}

func (c *c02Checker) engineItem(it c02Item, mod *ast.Module, route *ast.Route) {
	if route.InputType != nil {
		// what a declared input type does to the body (defaults, validation) is the
		// handlers' business: these programs are judged at HTTP level only
		c.res.Count("typed_input_programs_judged_at_http_level_only", 1)
		return
	}
	if route.ReturnType != nil {
		// likewise the declared return type: the interpreter checks it inside
		// ExecuteRoute, compiled mode in the handler (validateCompiledReturn)
		c.res.Count("typed_return_programs_judged_at_http_level_only", 1)
		return
	}
	serve, code, _ := c02CompileModule(mod)
	switch serve {
	case c02Fallback:
		c.res.Count("programs_falling_back_to_interpreter/engine", 1)
		return
	case c02Refused:
		c.res.Count("programs_refused/engine", 1)
		return
	}
	for _, r := range it.Reqs {
		oi, loaded := c02EngineInterp(mod, route, r)
		if !loaded {
			c.res.Count("programs_refused/engine", 1)
			return
		}
		ov := c02EngineVM(mod, route, code[route], r)
		c.countCase("engine", it.Src, r, !c02Trivial(oi, ov))
		if oi.same(ov) {
			continue
		}
		c.disagree("engine", it.Layer, it.Src, it.Route, c02Case{mod, route, r}, oi, ov)
	}
}

func (c *c02Checker) httpItem(it c02Item, mod *ast.Module, route *ast.Route) {
	hasWhile := c02HasWhile(it.Src)
	sc, err := c02Setup(mod, false)
	if err != nil {
		c.res.Count("programs_refused/http", 1)
		return
	}
	defer sc.stop()
	mod2, _ := parseSource(it.Src) // the interpreted server gets its own tree
	routes2 := c02Routes(mod2)
	si, err := c02Setup(mod2, true)
	if err != nil {
		c.res.Count("programs_refused/http", 1)
		return
	}
	defer si.stop()
	if !sc.useCompiler {
		c.res.Count("programs_falling_back_to_interpreter/http", 1)
	}
	var code []byte
	if hasWhile && sc.useCompiler {
		_, cm, _ := c02CompileModule(mod)
		code = cm[route]
	}
	for _, r := range it.Reqs {
		if code != nil {
			// a compiled handler has no step limit: never send a request that
			// the VM does not finish (found and reported at engine level)
			if ov := c02EngineVM(mod, route, code, r); ov.Hang {
				oi, _ := c02EngineInterp(mod, route, r)
				c.countCase("http", it.Src, r, true)
				c.disagree("engine", it.Layer, it.Src, it.Route, c02Case{mod, route, r}, oi, ov)
				continue
			}
		}
		oi := si.do(routes2[it.Route].Path, r, false)
		ov := sc.do(route.Path, r, hasWhile)
		c.countCase("http", it.Src, r, sc.useCompiler && !c02Trivial(oi, ov))
		if oi.same(ov) {
			continue
		}
		// confirm on fresh servers (state kept by a server between requests is not C02's subject)
		k := c02Case{mod, route, r}
		serve, foi, fov := c02RunHTTP(k.mod, k.route, k.req, hasWhile)
		if serve == c02Refused || foi.same(fov) {
			c.res.Count("disagreements_only_after_earlier_requests", 1)
			continue
		}
		if serve == c02Fallback {
			// both modes run the interpreter: a difference is non-determinism of one engine
			c.res.Count("disagreements_between_two_interpreted_servers", 1)
			c.res.Violate("nondeterministic/"+c02Print(mod, route, true), fmt.Sprintf("two interpreted servers disagree on `%s` request [%s]: %s vs %s", c02OneLine(it.Src), r, foi, fov),
				c02Replay{Level: "http", Layer: it.Layer, Src: it.Src, Route: it.Route, Req: r})
			continue
		}
		c.disagree("http", it.Layer, it.Src, it.Route, k, foi, fov)
	}
}

func TestVerif_C02(t *testing.T) {
	p := vk.Env()
	stdout := os.Stdout
	c02Quiet()
	res := vk.NewResult("every program of layers L1 (13 binary + 2 unary operators x ordered pairs of 18 value shapes, as literals, through variables, and request-derived through JSON body / query string / path parameters), L2 (all operator pairs a op1 b op2 c and unary/binary mixes over 7 operand triples), L3 (statement lists of length <= 2 (thorough 3) over leaf and compound statement templates on three variables, with and without a final return), L4 (every non-excluded name of both engines' built-in tables x argument vectors of arity 0..2 (thorough 3) over 18 shapes, call and method form), L5/L6 (user functions with defaults x call arities, callbacks, match patterns x shapes, scoping, async/await, validation, declared return and input types; hand-written corner programs), L7 (18 name-binding constructs - loop key/value variable over array, object, request data, empty, nested, twice; pattern variable with and without guard; `$` in if/else/while/switch/for body, at route level, in an async block; reassignment - x 13 names - the request variables input/query/headers/ws/auth, path parameter, declared query parameter, two route variables, constant, function, built-in function name, fresh name - x read after the construct or not, on a request with and one without body/query) and L8 (aliasing histories: every sequence of <= 3 (thorough 4) steps D = S + [k] | D = S, and of <= 2 (thorough 3) steps over the full alphabet adding D = [k] + S, D = S + S2 and for v in S { D = D + [v] }, over three array variables up to the s/t mirror image, on a base array of length 0..4 from the JSON body and of length 3 (thorough 0..4) as a literal and from split(); all three variables are returned) is parsed by the real parser; setupRoutes itself decides whether the module is served compiled, interpreted (automatic fallback: then both modes run the interpreter and only determinism is checked) or refused; a module served compiled is run (a) at engine level: CompileRoute(OptBasic)+vm.Execute with the compiled handler's bindings vs interpreter.ExecuteRoute (routes with a declared input type at HTTP level only), and (b) at HTTP level: setupRoutes+createHandler in compiled and in --interpret mode under httptest, including the request matrix method x body x Content-Type x query string x path parameter x header for 15 request-reading programs and the body grammar {none, white space, BOM} x 7 first values x 10 trailers (white space, a second JSON value with and without separator, ; , } ] text NUL) x Content-Type {none, json} x 5 methods for 4 body-reading programs (one with a declared input type), plus bodies padded with white space so that their last byte is the last byte within / the first byte past the handlers' 10 MiB limit; an evaluation is one (level, program, request) whose two outcomes are compared; it is non-trivial unless both engines fail; distinct by (level, source, request)")
	all, vmSet, interpSet, excluded, err := c02Builtins()
	if err != nil {
		t.Fatal(err)
	}
	c := &c02Checker{p: p, res: res, attributed: map[string]string{}, confirmed: map[string]bool{}, distinct: map[uint64]struct{}{}, vmSet: vmSet, interpSet: interpSet}
	if f := os.Getenv("C02_DEBUG"); f != "" {
		c.debug, _ = os.OpenFile(fmt.Sprintf("%s.%d", f, p.Shard), os.O_CREATE|os.O_WRONLY|os.O_TRUNC, 0o644)
		defer c.debug.Close()
	}
	if p.Replay != "" {
		var rp c02Replay
		if err := vk.LoadReplay(p.Replay, &rp); err != nil {
			t.Fatal(err)
		}
		c.item(c02Item{Level: rp.Level, Layer: rp.Layer, Src: rp.Src, Route: rp.Route, Reqs: []c02Req{rp.Req}})
		if f := os.Getenv("C02_SHOW"); f != "" {
			// debugging aid: both levels' outcomes of the replayed case, whether or not they agree
			if mod, err := parseSource(rp.Src); err == nil && rp.Route < len(c02Routes(mod)) {
				route := c02Routes(mod)[rp.Route]
				es, ei, ev := c02RunEngine(mod, route, rp.Req)
				hs, hi, hv := c02RunHTTP(mod, route, rp.Req, true)
				os.WriteFile(f, []byte(fmt.Sprintf("engine serve=%d\n  interp: %s\n  vm:     %s\nhttp serve=%d\n  interp: %s\n  vm:     %s\n", es, ei, ev, hs, hi, hv)), 0o644)
			} else {
				os.WriteFile(f, []byte(fmt.Sprintf("parse: %v\n", err)), 0o644)
			}
		}
		ok := len(res.Violations) > 0
		for _, v := range res.Violations {
			fmt.Fprintf(stdout, "replay -> %s :: %s\n", v.Key, v.Desc)
		}
		res.Replayed = &ok
		res.Write(p)
		return
	}
	idx := 0
	expired := false
	c02Enumerate(p.Thorough, all, func(level, layer string, build func() (string, int, []c02Req)) {
		idx++
		if expired || !p.Mine(idx) {
			return
		}
		if p.Expired() {
			expired = true
			res.Exhaustive = false
			return
		}
		src, route, reqs := build()
		t0 := time.Now()
		c.item(c02Item{Level: level, Layer: layer, Src: src, Route: route, Reqs: reqs})
		if c.debug != nil {
			res.Count("us/"+level+"/"+layer, time.Since(t0).Microseconds())
		}
	})
	res.Bounds["work_items"] = idx
	res.Bounds["value_shapes"] = len(c02Shapes)
	res.Bounds["binary_operators"] = len(c02BinOps)
	res.Bounds["builtins_enumerated"] = strings.Join(all, ",")
	res.Bounds["builtins_excluded"] = strings.Join(excluded, ",")
	var onlyI, onlyV []string
	for _, n := range all {
		if interpSet[n] && !vmSet[n] {
			onlyI = append(onlyI, n)
		}
		if vmSet[n] && !interpSet[n] {
			onlyV = append(onlyV, n)
		}
	}
	sort.Strings(onlyI)
	res.Bounds["builtins_interpreter_only"] = strings.Join(onlyI, ",")
	res.Bounds["builtins_vm_only"] = strings.Join(onlyV, ",")
	if p.Thorough {
		res.Bounds["L3_max_statements"] = 3
		res.Bounds["L4_max_arity"] = 3
		res.Bounds["L8_max_steps_core_alphabet"] = 4
		res.Bounds["L8_max_steps_full_alphabet"] = 3
	} else {
		res.Bounds["L3_max_statements"] = 2
		res.Bounds["L4_max_arity"] = 2
		res.Bounds["L8_max_steps_core_alphabet"] = 3
		res.Bounds["L8_max_steps_full_alphabet"] = 2
	}
	res.Bounds["L7_binding_constructs"] = len(c02ShadowForms)
	res.Bounds["L7_names"] = len(c02ShadowNames)
	res.Bounds["L8_alphabet_core"] = len(c02AliasOps(false))
	res.Bounds["L8_alphabet_full"] = len(c02AliasOps(true))
	res.Bounds["L8_base_lengths"] = "0..4"
	res.Bounds["body_grammar"] = fmt.Sprintf("%d prefixes x %d values x %d trailers", len(c02BodyPrefixes), len(c02BodyValues), len(c02BodyTrailers))
	res.Bounds["body_padded_to_bytes"] = c02BodyLimit + 1
	res.Write(p)
}
