package main

// C06, library server: pkg/server.Server merges its global middlewares with each route's own ones at
// registration.  A route registered with an authentication middleware must stay behind it whatever else is
// registered later: every (number of global middlewares 0..9) x (number of non-middleware options 0..2, before and
// after the middleware options) x (position of the protected route among 1..3 routes that carry 0..2 own middlewares)
// is built through NewServer/RegisterRoute, and every route is requested with and without the token.

import (
	"fmt"
	"net/http"
	"net/http/httptest"
	"runtime"
	"strings"

	"github.com/glyphlang/glyph/internal/verif/vk"
	"github.com/glyphlang/glyph/pkg/server"
)

type c06SrvCase struct {
	Globals   int    `json:"global_middlewares"`
	OptsFirst int    `json:"other_options_before"`
	OptsLast  int    `json:"other_options_after"`
	Routes    string `json:"routes"` // one letter per route in registration order: A = auth middleware, H = header middleware, 2 = header + header, N = none
}

func (c c06SrvCase) String() string {
	return fmt.Sprintf("NewServer(%d other options, %d global middlewares, %d other options) + routes %s", c.OptsFirst, c.Globals, c.OptsLast, c.Routes)
}

func c06SrvRun(c c06SrvCase) (kind, detail string) {
	var opts []server.ServerOption
	other := func(n int) {
		for i := 0; i < n; i++ {
			opts = append(opts, server.WithAddr(fmt.Sprintf("127.0.0.1:%d", 39000+i)))
		}
	}
	other(c.OptsFirst)
	for i := 0; i < c.Globals; i++ {
		opts = append(opts, server.WithMiddleware(server.HeaderMiddleware(map[string]string{fmt.Sprintf("X-G%d", i): "1"})))
	}
	other(c.OptsLast)
	s := server.NewServer(opts...)
	for i := 0; i < 4; i++ {
		runtime.Gosched() // let the hub goroutine start, or Shutdown below finds nothing to stop
	}
	defer func() {
		// NewServer starts a websocket hub goroutine per server: stop it, thousands of servers are built
		if ws := s.GetWebSocketServer(); ws != nil {
			ws.Shutdown()
		}
	}()
	// (AuthMiddleware, not BasicAuthMiddleware: the latter starts a cleanup goroutine per instance that nothing stops)
	valid := func(ctx *server.Context) (bool, error) { return ctx.Request.Header.Get("Authorization") == "Bearer tok", nil }
	for i, kindOf := range c.Routes {
		i := i
		r := &server.Route{Method: server.GET, Path: fmt.Sprintf("/r%d", i), Handler: func(ctx *server.Context) error {
			ctx.ResponseWriter.Header().Set("Content-Type", "application/json")
			ctx.ResponseWriter.WriteHeader(200)
			fmt.Fprintf(ctx.ResponseWriter, `{"ran":"r%d"}`, i)
			return nil
		}}
		switch kindOf {
		case 'A':
			r.Middlewares = []server.Middleware{server.AuthMiddleware(valid)}
		case 'H':
			r.Middlewares = []server.Middleware{server.HeaderMiddleware(map[string]string{"X-Own": "1"})}
		case '2':
			r.Middlewares = []server.Middleware{server.HeaderMiddleware(map[string]string{"X-Own": "1"}), server.HeaderMiddleware(map[string]string{"X-Own2": "1"})}
		}
		if err := s.RegisterRoute(r); err != nil {
			return "build-failed", err.Error()
		}
	}
	h := s.GetHandler()
	for i, kindOf := range c.Routes {
		for _, auth := range []string{"", "Bearer tok", "Bearer wrong"} {
			req := httptest.NewRequest("GET", fmt.Sprintf("/r%d", i), nil)
			req.RemoteAddr = fmt.Sprintf("10.1.%d.%d:999", i, len(auth))
			if auth != "" {
				req.Header.Set("Authorization", auth)
			}
			rec := httptest.NewRecorder()
			func() {
				defer func() {
					if p := recover(); p != nil {
						kind, detail = "panic", fmt.Sprint(p)
					}
				}()
				h.ServeHTTP(rec, req)
			}()
			if kind != "" {
				return
			}
			ran := strings.Contains(rec.Body.String(), fmt.Sprintf(`"ran":"r%d"`, i))
			if strings.Contains(rec.Body.String(), `"ran"`) && !ran {
				return "wrong-body-ran", fmt.Sprintf("GET /r%d [%s] -> %d %s", i, auth, rec.Code, rec.Body.String())
			}
			if kindOf == 'A' && ran && auth != "Bearer tok" {
				return "admitted-without-configured-credential", fmt.Sprintf("GET /r%d with Authorization %q -> %d, the body of the route registered behind AuthMiddleware ran", i, auth, rec.Code)
			}
			if kindOf == 'A' && !ran && auth == "Bearer tok" {
				return "canonical-credential-rejected", fmt.Sprintf("GET /r%d with the configured token -> %d %s", i, rec.Code, rec.Body.String())
			}
			if kindOf != 'A' && !(ran && rec.Code == http.StatusOK) {
				return "undeclared-route-affected", fmt.Sprintf("GET /r%d [%s] (no auth middleware) -> %d %s", i, auth, rec.Code, rec.Body.String())
			}
		}
	}
	return "", ""
}

func c06SrvCases() []c06SrvCase {
	var routeSets []string
	letters := "AH2N"
	for n := 1; n <= 3; n++ {
		var rec func(prefix string)
		rec = func(prefix string) {
			if len(prefix) == n {
				if strings.Contains(prefix, "A") {
					routeSets = append(routeSets, prefix)
				}
				return
			}
			for _, l := range letters {
				rec(prefix + string(l))
			}
		}
		rec("")
	}
	var out []c06SrvCase
	for g := 0; g <= 9; g++ {
		for _, oo := range [][2]int{{0, 0}, {1, 0}, {0, 1}, {2, 2}} {
			{
				of, ol := oo[0], oo[1]
				for _, rs := range routeSets {
					out = append(out, c06SrvCase{Globals: g, OptsFirst: of, OptsLast: ol, Routes: rs})
				}
			}
		}
	}
	return out
}

func c06SrvKey(c c06SrvCase, kind string) string {
	return fmt.Sprintf("libserver/%s/globals=%d/routes=%s", kind, c.Globals, c.Routes)
}

// c06SrvShrink: fewer other options, fewer routes, while the same kind of failure remains.
func c06SrvShrink(c c06SrvCase, kind string) c06SrvCase {
	try := func(d c06SrvCase) bool { k, _ := c06SrvRun(d); return k == kind }
	for changed := true; changed; {
		changed = false
		if d := (c06SrvCase{c.Globals, 0, c.OptsLast, c.Routes}); d != c && try(d) {
			c, changed = d, true
		}
		if d := (c06SrvCase{c.Globals, c.OptsFirst, 0, c.Routes}); d != c && try(d) {
			c, changed = d, true
		}
		for i := 0; i < len(c.Routes) && len(c.Routes) > 1; i++ {
			d := c
			d.Routes = c.Routes[:i] + c.Routes[i+1:]
			if strings.Contains(d.Routes, "A") && try(d) {
				c, changed = d, true
				break
			}
		}
	}
	return c
}

func c06Srv(p vk.Params, res *vk.Result) {
	cases := c06SrvCases()
	res.Bounds["libserver_cases"] = len(cases)
	seen := map[string]bool{}
	for i, c := range cases {
		if !p.Mine(i) {
			continue
		}
		kind, detail := c06SrvRun(c)
		res.Evaluations++
		res.Distinct++
		if kind == "" {
			continue
		}
		mc := c06SrvShrink(c, kind)
		k, d := c06SrvRun(mc)
		if k == "" {
			mc, k, d = c, kind, detail
		}
		key := c06SrvKey(mc, k)
		if !seen[key] {
			seen[key] = true
			res.Violate(key, fmt.Sprintf("%s: %s", mc, d), c06Replay{Part: "libserver", Srv: &mc})
		}
	}
}
