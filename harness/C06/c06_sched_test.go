package main

// C06 part 3: schedules.  Concurrent requests from one address with the failure
// counter at the lock-out threshold (and requests racing the cleanup ticker),
// under every interleaving with at most the stated number of preemptions.
// pkg/server is instrumented: its mutex operations, the cleanup goroutine and
// the ticker channel are scheduling points; accesses to the tracker fields and
// the tracker map feed the happens-before race monitor.
//
// Oracle: no panic, deadlock or data race; a request without a valid credential
// never runs the body; the responses must be explained by *some* sequential
// order of the concurrent requests under the (multi-reading) lock-out
// reference of part 2.

import (
	"fmt"
	"io"
	"strings"
	"time"

	"github.com/glyphlang/glyph/internal/verif/vk"
	"github.com/glyphlang/glyph/internal/verif/vrt"
)

type c06Scen struct {
	Name    string
	Setup   []string
	Threads [][]string // event names; "tick" = the clock passes a cleanup tick (60 s) without waiting
}

func c06Scens() []c06Scen {
	return []c06Scen{
		{"threshold:bad|good", []string{"4xbad(A)"}, [][]string{{"bad(A)"}, {"good(A)"}}},
		{"threshold:bad|bad", []string{"4xbad(A)"}, [][]string{{"bad(A)"}, {"bad(A)"}}},
		{"threshold:bad|missing", []string{"4xbad(A)"}, [][]string{{"bad(A)"}, {"missing(A)"}}},
		{"threshold:bad|bad|good", []string{"4xbad(A)"}, [][]string{{"bad(A)"}, {"bad(A)"}, {"good(A)"}}},
		{"threshold:bad(A)|good(B)", []string{"4xbad(A)"}, [][]string{{"bad(A)"}, {"good(B)"}}},
		{"expired-lock:bad|good", []string{"4xbad(A)", "bad(A)", "adv(2m)"}, [][]string{{"bad(A)"}, {"good(A)"}}},
		{"fresh:good|good", nil, [][]string{{"good(A)"}, {"good(A)"}}},
		{"cleanup:tick|good", nil, [][]string{{"tick"}, {"good(A)"}}},
		{"cleanup:tick|bad", nil, [][]string{{"tick"}, {"bad(A)"}}},
		{"cleanup-after-failures:tick|bad|good", []string{"bad(A)", "bad(A)", "adv(16m)", "adv(30s)"}, [][]string{{"tick"}, {"bad(A)"}, {"good(A)"}}},
	}
}

type c06SchedResp struct {
	Thread, Index int
	Event         string
	Status        int
	Ran           bool
}

type c06SchedObs struct {
	resp []c06SchedResp
}

func c06SchedBody(sc c06Scen, obs *c06SchedObs) func() {
	return func() {
		obs.resp = nil
		s := newC06LockSys()
		for _, n := range sc.Setup {
			_, e := c06EventByName(n)
			if e.Kind == "adv" {
				vrt.AdvanceCoalesced(e.Adv, 3)
				continue
			}
			for k := 0; k < e.Times; k++ {
				s.request(e.From, e.Cred, e.XFF)
				vrt.WaitIdle()
			}
		}
		vrt.WaitIdle()
		out := make([][]c06SchedResp, len(sc.Threads))
		var fs []func()
		for ti, th := range sc.Threads {
			ti, th := ti, th
			fs = append(fs, func() {
				for i, n := range th {
					if n == "tick" {
						vrt.AdvanceNoWait(60 * time.Second)
						continue
					}
					_, e := c06EventByName(n)
					status, ran := s.request(e.From, e.Cred, e.XFF)
					out[ti] = append(out[ti], c06SchedResp{ti, i, n, status, ran})
				}
			})
		}
		vrt.Parallel(fs...)
		vrt.WaitIdle()
		for _, o := range out {
			obs.resp = append(obs.resp, o...)
		}
	}
}

// c06RefAfterSetup replays the setup on the reference.
func c06RefAfterSetup(sc c06Scen) (*c06Ref, int64) {
	ref := newC06Ref()
	var now int64
	for _, n := range sc.Setup {
		_, e := c06EventByName(n)
		if e.Kind == "adv" {
			now += int64(e.Adv)
			continue
		}
		for k := 0; k < e.Times; k++ {
			ref.step(e.From, e.Cred, now)
		}
	}
	return ref, now
}

// c06Explained: is there a sequential order of the threads' events under which
// every observed response is allowed?  Returns the failure of the order that
// got furthest otherwise.
func c06Explained(sc c06Scen, obs *c06SchedObs) string {
	ref0, now0 := c06RefAfterSetup(sc)
	byPos := map[[2]int]c06SchedResp{}
	for _, r := range obs.resp {
		byPos[[2]int{r.Thread, r.Index}] = r
	}
	idx := make([]int, len(sc.Threads))
	var order [][2]int
	found := false
	firstFail := ""
	var rec func()
	rec = func() {
		if found {
			return
		}
		done := true
		for ti, th := range sc.Threads {
			if idx[ti] < len(th) {
				done = false
				order = append(order, [2]int{ti, idx[ti]})
				idx[ti]++
				rec()
				idx[ti]--
				order = order[:len(order)-1]
			}
		}
		if !done {
			return
		}
		ref, now := ref0.clone(), now0
		for _, pos := range order {
			n := sc.Threads[pos[0]][pos[1]]
			if n == "tick" {
				now += int64(60 * time.Second)
				continue
			}
			_, e := c06EventByName(n)
			someLocked, someFree := ref.step(e.From, e.Cred, now)
			r, ok := byPos[pos]
			if !ok {
				if firstFail == "" {
					firstFail = fmt.Sprintf("thread %d's request %s got no response", pos[0], n)
				}
				return
			}
			if f := c06JudgeResp(n, e.Cred, r.Status, r.Ran, someLocked, someFree, time.Duration(now)); f != "" {
				if firstFail == "" {
					firstFail = f
				}
				return
			}
		}
		found = true
	}
	rec()
	if found {
		return ""
	}
	return "responses " + c06SchedDescribe(obs) + " are not explained by any sequential order of the concurrent requests (e.g. " + firstFail + ")"
}

func c06SchedDescribe(obs *c06SchedObs) string {
	var s []string
	for _, r := range obs.resp {
		ran := ""
		if r.Ran {
			ran = "+body"
		}
		s = append(s, fmt.Sprintf("T%d:%s=%d%s", r.Thread+1, r.Event, r.Status, ran))
	}
	return "[" + strings.Join(s, " ") + "]"
}

func c06JudgeSched(sc c06Scen, x *vrt.Exec, obs *c06SchedObs) string {
	if x.Outcome.Kind == "panic" {
		return "panic: " + c06PanicSite(x.Outcome.Detail)
	}
	if x.Outcome.Kind != "ok" {
		return x.Outcome.Kind + ": " + c06FirstLine(x.Outcome.Detail)
	}
	if len(x.Races) > 0 {
		return "data race: " + x.Races[0]
	}
	for _, r := range obs.resp {
		_, e := c06EventByName(r.Event)
		if e.Cred != "good" && r.Ran {
			return fmt.Sprintf("%s: the route body ran for a request without a valid credential (status %d)", r.Event, r.Status)
		}
	}
	return c06Explained(sc, obs)
}

func c06SchedKey(sc c06Scen, f string) string {
	if strings.HasPrefix(f, "data race") {
		return "sched/" + vrt.RaceKey(f)
	}
	kind := c06LockKind(f)
	if kind == "panic" {
		// one key per panic site, whatever scenario reaches it
		return "sched/" + strings.TrimPrefix(f, "panic: ")
	}
	if strings.Contains(f, "not explained by any sequential order") {
		kind = "not-sequentially-explained"
	}
	return "sched/" + sc.Name + "/" + kind
}

func c06Schedules(p vk.Params, res *vk.Result) {
	defer c06SetEnv(envJWTSecret, c06EnvVal{true, c06Secret})()
	bound := 2
	if p.Thorough {
		bound = 3
	}
	res.Bounds["preemption_bound"] = bound
	var names []string
	for si, sc := range c06Scens() {
		names = append(names, sc.Name)
		if !p.Mine(si) {
			continue
		}
		obs := &c06SchedObs{}
		outcomes := vk.DistinctSet{}
		body := c06SchedBody(sc, obs)
		st := vrt.Explore(vrt.Config{MaxPreempt: bound, Races: true, NoAutoTimers: true, Deadline: p.Deadline, MaxSteps: 200000},
			body,
			func(x *vrt.Exec) bool {
				outcomes.Add(x.Outcome.Kind + c06SchedDescribe(obs))
				if f := c06JudgeSched(sc, x, obs); f != "" {
					res.Violate(c06SchedKey(sc, f), sc.Name+": "+f+" schedule="+vrt.FormatChoices(x.Choices),
						c06Replay{Part: "sched", Scen: sc.Name, Choices: x.Choices})
				}
				return true
			})
		res.Evaluations += int64(st.Execs)
		res.Transitions += int64(st.Transitions)
		res.States += int64(st.States)
		res.Distinct += outcomes.Len()
		res.Count("schedules", int64(st.Execs))
		res.Count("sched_outcomes_"+sc.Name, outcomes.Len())
		if !st.Complete {
			res.Exhaustive = false
		}
	}
	res.Bounds["schedule_scenarios"] = names
}

func c06ReplaySched(rp c06Replay, res *vk.Result, out io.Writer) bool {
	defer c06SetEnv(envJWTSecret, c06EnvVal{true, c06Secret})()
	for _, sc := range c06Scens() {
		if sc.Name != rp.Scen {
			continue
		}
		var first string
		for i := 0; i < 2; i++ {
			obs := &c06SchedObs{}
			x := vrt.RunOnce(vrt.Config{Races: true, NoAutoTimers: true, Trace: true, MaxSteps: 200000}, rp.Choices, c06SchedBody(sc, obs))
			f := c06JudgeSched(sc, x, obs)
			if i == 0 {
				first = f
				fmt.Fprintf(out, "replay %s %v\n%s\n%s\n-> %q\n", sc.Name, rp.Choices, strings.Join(x.Trace, "\n"), x.Outcome.Detail, f)
			} else if c06SchedKey(sc, f) != c06SchedKey(sc, first) {
				return false
			}
		}
		if first != "" {
			res.Violate(c06SchedKey(sc, first), sc.Name+": "+first, rp)
			return true
		}
	}
	return false
}

// c06PanicSite condenses a recovered panic (message + stack) to
// "panic/<function that panicked>/<message>", stable across runs.
func c06PanicSite(detail string) string {
	lines := strings.Split(detail, "\n")
	msg := lines[0]
	if i := strings.Index(msg, "): "); i >= 0 && strings.HasPrefix(msg, "T") {
		msg = msg[i+3:] // drop the thread label
	}
	site := "unknown"
	for i, l := range lines {
		if strings.HasPrefix(l, "panic(") {
			for _, m := range lines[i+1:] {
				if m != "" && m[0] != '\t' {
					site = m
					break
				}
			}
			break
		}
	}
	if i := strings.LastIndexByte(site, '('); i > 0 {
		site = site[:i]
	}
	if i := strings.LastIndexByte(site, '/'); i >= 0 {
		site = site[i+1:]
	}
	return "panic/" + site + "/" + msg
}
