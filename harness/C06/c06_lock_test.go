package main

// C06 part 2: the lock-out automaton behind `+ auth(jwt)`.
//
// System: the route is parsed from source by the real parser, its middleware
// chain is built by routeMiddlewares (GLYPH_JWT_SECRET set), registered on a
// server.Router next to a marker handler and dispatched by createHandler.  The
// failure trackers live in a closure, so there is no state to deduplicate on:
// every history up to the depth bound is executed on a fresh instance under the
// virtual clock (the cleanup ticker fires inside the advances).
//
// Reference: the rule documented on server.AuthRateLimitConfig / its defaults
// (5 failures -> 1 min, doubling per further failure, cap 15 min, failure count
// reset after 15 min without a failure).  Where that text is silent the
// reference is a *set* of automata, one per reading:
//   - does an admitted request reset the failure count?
//   - is the client still locked / already reset exactly at the boundary instant?
//   - do bad requests answered while locked count as further failures?
//   - does a request without any credential count as a failure?
// A response is judged only where all readings agree.

import (
	"fmt"
	"io"
	"net/http"
	"net/http/httptest"
	"strings"
	"time"

	"github.com/glyphlang/glyph/internal/verif/vk"
	"github.com/glyphlang/glyph/internal/verif/vrt"
	"github.com/glyphlang/glyph/pkg/ast"
	"github.com/glyphlang/glyph/pkg/server"
)

const c06LockShrinksPerKind = 8

const (
	c06IPA  = "10.0.0.1"
	c06IPB  = "10.0.0.2"
	c06IP6A = "[2001:db8:0:2::a]"
	c06IP6B = "[2001:db8:0:2::600d]"
)

type c06Event struct {
	Name  string
	Kind  string // "req" | "adv"
	From  string
	Cred  string // "good" | "bad" | "missing"
	XFF   string
	Times int
	Gap   time.Duration // compound request events: the clock advances by Gap between the Times requests
	Adv   time.Duration
}

var c06Alphabet = []c06Event{
	{Name: "bad(A)", Kind: "req", From: c06IPA, Cred: "bad", Times: 1},
	{Name: "good(A)", Kind: "req", From: c06IPA, Cred: "good", Times: 1},
	{Name: "missing(A)", Kind: "req", From: c06IPA, Cred: "missing", Times: 1},
	{Name: "good(B)", Kind: "req", From: c06IPB, Cred: "good", Times: 1},
	{Name: "bad(A,xff=B)", Kind: "req", From: c06IPA, Cred: "bad", XFF: c06IPB, Times: 1},
	{Name: "4xbad(A)", Kind: "req", From: c06IPA, Cred: "bad", Times: 4},
	{Name: "adv(30s)", Kind: "adv", Adv: 30 * time.Second},
	{Name: "adv(1m)", Kind: "adv", Adv: time.Minute},
	{Name: "adv(2m)", Kind: "adv", Adv: 2 * time.Minute},
	{Name: "adv(16m)", Kind: "adv", Adv: 16 * time.Minute},
	// a persistent attacker: 9 bad requests 9 minutes apart, each outside the
	// previous lock-out, drive the doubling to where it meets the 15 min cap
	// (1, 2, 4, 8, 16 -> 15 min); the sub-minute advance then lands between the
	// capped and the uncapped deadline
	{Name: "9xbad(A)-every-9m", Kind: "req", From: c06IPA, Cred: "bad", Times: 9, Gap: 9 * time.Minute},
	{Name: "adv(15m30s)", Kind: "adv", Adv: 15*time.Minute + 30*time.Second},
	// two IPv6 clients whose addresses share their leading groups (the peer address has the form [addr]:port; an
	// identity cut out of it at the wrong colon makes them one client)
	{Name: "bad(A6)", Kind: "req", From: c06IP6A, Cred: "bad", Times: 1},
	{Name: "good(A6)", Kind: "req", From: c06IP6A, Cred: "good", Times: 1},
	{Name: "4xbad(A6)", Kind: "req", From: c06IP6A, Cred: "bad", Times: 4},
	{Name: "good(B6)", Kind: "req", From: c06IP6B, Cred: "good", Times: 1},
	{Name: "bad(B6)", Kind: "req", From: c06IP6B, Cred: "bad", Times: 1},
}

// the explorations: sub-alphabets (by event name) and depth per tier
type c06Exploration struct {
	Name            string
	Events          []string
	Quick, Thorough int // depth; 0 = not run in that tier
	PrefixLen       int
}

var c06Explorations = []c06Exploration{
	{"main", []string{"bad(A)", "good(A)", "missing(A)", "good(B)", "bad(A,xff=B)", "4xbad(A)", "adv(30s)", "adv(1m)", "adv(2m)", "adv(16m)"}, 6, 7, 2},
	{"core", []string{"bad(A)", "good(A)", "good(B)", "4xbad(A)", "adv(30s)", "adv(1m)", "adv(2m)", "adv(16m)"}, 0, 8, 3},
	{"cap", []string{"9xbad(A)-every-9m", "bad(A)", "good(A)", "good(B)", "adv(1m)", "adv(15m30s)"}, 4, 5, 1},
	{"ipv6", []string{"bad(A6)", "good(A6)", "4xbad(A6)", "good(B6)", "bad(B6)", "good(B)", "adv(1m)", "adv(2m)"}, 5, 6, 1},
}

func c06EventByName(n string) (int, c06Event) {
	for i, e := range c06Alphabet {
		if e.Name == n {
			return i, e
		}
	}
	panic("unknown event " + n)
}

func c06Names(h []int) []string {
	out := make([]string, len(h))
	for i, e := range h {
		out[i] = c06Alphabet[e].Name
	}
	return out
}

// ---------------------------------------------------------------------------
// reference automata

type c06Reading struct {
	resetOnSuccess   bool
	lockBoundaryIncl bool
	resetBoundaryInc bool
	countWhileLocked bool
	countMissing     bool
}

var c06Readings = func() []c06Reading {
	var out []c06Reading
	for i := 0; i < 32; i++ {
		out = append(out, c06Reading{i&1 != 0, i&2 != 0, i&4 != 0, i&8 != 0, i&16 != 0})
	}
	return out
}()

const (
	c06MaxFailures = 5
	c06Lockout     = int64(time.Minute)
	c06MaxLockout  = int64(15 * time.Minute)
	c06ResetAfter  = int64(15 * time.Minute)
)

type c06RefClient struct {
	failures  int
	lastFail  int64
	hasFail   bool
	lockUntil int64
	lockSet   bool
}

type c06Ref struct {
	clients []map[string]*c06RefClient // one world per reading
}

func newC06Ref() *c06Ref {
	r := &c06Ref{}
	for range c06Readings {
		r.clients = append(r.clients, map[string]*c06RefClient{})
	}
	return r
}

func (r *c06Ref) clone() *c06Ref {
	n := &c06Ref{}
	for _, w := range r.clients {
		m := map[string]*c06RefClient{}
		for k, c := range w {
			cc := *c
			m[k] = &cc
		}
		n.clients = append(n.clients, m)
	}
	return n
}

// step feeds one request to every reading; it returns whether at least one
// reading has the client locked and whether at least one has it not locked.
func (r *c06Ref) step(client, cred string, now int64) (someLocked, someFree bool) {
	for i, rd := range c06Readings {
		c := r.clients[i][client]
		if c == nil {
			c = &c06RefClient{}
			r.clients[i][client] = c
		}
		fail := func() {
			c.failures++
			c.lastFail, c.hasFail = now, true
			if c.failures >= c06MaxFailures {
				d := c06MaxLockout
				if sh := c.failures - c06MaxFailures; sh < 4 {
					d = c06Lockout << sh
				}
				c.lockUntil, c.lockSet = now+d, true
			}
		}
		isFailure := cred == "bad" || (cred == "missing" && rd.countMissing)
		locked := c.lockSet && (now < c.lockUntil || (rd.lockBoundaryIncl && now == c.lockUntil))
		if locked {
			someLocked = true
			if isFailure && rd.countWhileLocked {
				fail()
			}
			continue
		}
		someFree = true
		if c.hasFail && (now-c.lastFail > c06ResetAfter || (rd.resetBoundaryInc && now-c.lastFail == c06ResetAfter)) {
			c.failures = 0
		}
		switch {
		case isFailure:
			fail()
		case cred == "good" && rd.resetOnSuccess:
			c.failures = 0
		}
	}
	return
}

// ---------------------------------------------------------------------------
// system

var c06LockRoute *ast.Route

func c06LockRouteAST() *ast.Route {
	if c06LockRoute == nil {
		m, err := parseSource("@ GET /r {\n  + auth(jwt)\n  > {marker: \"" + c06BodyMarker + "\"}\n}\n")
		if err != nil {
			panic(err)
		}
		for _, it := range m.Items {
			if r, ok := it.(*ast.Route); ok {
				c06LockRoute = r
			}
		}
		if c06LockRoute == nil || c06LockRoute.Auth == nil {
			panic("c06: the parser did not record the auth declaration")
		}
	}
	return c06LockRoute
}

type c06LockSys struct {
	h     http.HandlerFunc
	ranBy map[string]int // request id -> times the body ran for it
	seq   int
}

// newC06LockSys must be called with GLYPH_JWT_SECRET=c06Secret in the environment.
func newC06LockSys() *c06LockSys {
	s := &c06LockSys{ranBy: map[string]int{}}
	route := c06LockRouteAST()
	router := server.NewRouter()
	err := router.RegisterRoute(&server.Route{
		Method: convertHTTPMethod(route.Method),
		Path:   route.Path,
		Handler: func(ctx *server.Context) error {
			s.ranBy[ctx.Request.Header.Get("X-C06-Id")]++
			_, err := io.WriteString(ctx.ResponseWriter, c06BodyMarker)
			return err
		},
		Middlewares: routeMiddlewares(route),
	})
	if err != nil {
		panic(err)
	}
	s.h = createHandler(router)
	return s
}

func (s *c06LockSys) request(from, cred, xff string) (status int, ran bool) {
	s.seq++
	id := fmt.Sprint(s.seq)
	req := httptest.NewRequest("GET", "/r", nil)
	req.RemoteAddr = fmt.Sprintf("%s:%d", from, 30000+s.seq)
	req.Header.Set("X-C06-Id", id)
	switch cred {
	case "good":
		req.Header.Set("Authorization", "Bearer "+c06Secret)
	case "bad":
		req.Header.Set("Authorization", "Bearer wrong")
	}
	if xff != "" {
		req.Header.Set("X-Forwarded-For", xff)
		req.Header.Set("X-Real-IP", xff)
	}
	rec := httptest.NewRecorder()
	s.h(rec, req)
	return rec.Code, s.ranBy[id] > 0
}

// c06JudgeResp: failure text for one response, "" if it conforms.
func c06JudgeResp(e string, cred string, status int, ran, someLocked, someFree bool, t time.Duration) string {
	if cred != "good" {
		if ran {
			return fmt.Sprintf("%s at t=%s: the route body ran for a request without a valid credential (status %d)", e, t, status)
		}
		return ""
	}
	if !someLocked && !ran {
		return fmt.Sprintf("%s at t=%s: a valid credential was rejected (status %d) although the client is not locked out under any reading of the lock-out rule", e, t, status)
	}
	if !someFree && ran {
		return fmt.Sprintf("%s at t=%s: a valid credential was admitted (status %d) although the client is locked out under every reading of the lock-out rule", e, t, status)
	}
	if ran && status != 200 {
		return fmt.Sprintf("%s at t=%s: the route body ran but the status is %d", e, t, status)
	}
	return ""
}

// c06RunLock executes a history on a fresh instance; returns the index and
// text of the first failing step.
func c06RunLock(hist []int) (failAt int, fail string, statuses []int) {
	failAt = -1
	x := vrt.RunOnce(vrt.Config{NoAutoTimers: true, MaxSteps: 2000000}, nil, func() {
		s := newC06LockSys()
		ref := newC06Ref()
		var now int64
		for i, ei := range hist {
			e := c06Alphabet[ei]
			if e.Kind == "adv" {
				vrt.AdvanceCoalesced(e.Adv, 3)
				now += int64(e.Adv)
				continue
			}
			for k := 0; k < e.Times; k++ {
				someLocked, someFree := ref.step(e.From, e.Cred, now)
				status, ran := s.request(e.From, e.Cred, e.XFF)
				vrt.WaitIdle()
				statuses = append(statuses, status)
				if f := c06JudgeResp(e.Name, e.Cred, status, ran, someLocked, someFree, time.Duration(now)); f != "" {
					failAt, fail = i, f
					return
				}
				if e.Gap > 0 && k < e.Times-1 {
					vrt.AdvanceCoalesced(e.Gap, 3)
					now += int64(e.Gap)
				}
			}
		}
	})
	if x.Outcome.Kind != "ok" {
		return len(hist) - 1, x.Outcome.Kind + ": " + c06FirstLine(x.Outcome.Detail), statuses
	}
	return
}

func c06FirstLine(s string) string {
	if i := strings.IndexByte(s, '\n'); i >= 0 {
		return s[:i]
	}
	return s
}

func c06LockKind(fail string) string {
	for _, m := range []struct{ has, k string }{
		{"without a valid credential", "body-ran-without-valid-credential"},
		{"not locked out under any reading", "valid-credential-rejected-while-not-locked"},
		{"locked out under every reading", "valid-credential-admitted-while-locked"},
		{"but the status is", "body-ran-with-error-status"},
		{"deadlock", "deadlock"}, {"panic", "panic"}, {"steplimit", "steplimit"},
	} {
		if strings.Contains(fail, m.has) {
			return m.k
		}
	}
	return "other"
}

// c06ShrinkLock minimises a failing history: greedy deletion of events, then
// replacement of each event by an earlier event of the alphabet with the same
// kind and client, then ascending order inside runs of consecutive advances -
// each step kept only if the history still fails in the same way.
func c06ShrinkLock(h []int, fail string) ([]int, string) {
	cur := append([]int{}, h...)
	kind := c06LockKind(fail)
	try := func(cand []int) bool {
		if len(cand) == 0 {
			return false
		}
		at, f, _ := c06RunLock(cand)
		if f != "" && c06LockKind(f) == kind {
			cur, fail = append([]int{}, cand[:at+1]...), f
			return true
		}
		return false
	}
	for changed := true; changed; {
		changed = false
		for i := 0; i < len(cur); i++ {
			if try(append(append([]int{}, cur[:i]...), cur[i+1:]...)) {
				changed = true
				break
			}
		}
	}
	for i := 0; i < len(cur); i++ {
		for e := 0; e < cur[i]; e++ {
			a, b := c06Alphabet[e], c06Alphabet[cur[i]]
			if a.Kind != b.Kind || a.From != b.From {
				continue
			}
			cand := append([]int{}, cur...)
			cand[i] = e
			if n := len(cur); try(cand) && len(cur) == n {
				break
			}
		}
	}
	for swapped := true; swapped; {
		swapped = false
		for i := 0; i+1 < len(cur); i++ {
			if c06Alphabet[cur[i]].Kind == "adv" && c06Alphabet[cur[i+1]].Kind == "adv" && cur[i] > cur[i+1] {
				cand := append([]int{}, cur...)
				cand[i], cand[i+1] = cand[i+1], cand[i]
				if try(cand) {
					swapped = true
				}
			}
		}
	}
	return cur, fail
}

func c06LockKey(h []int, fail string) string {
	return "lock/" + c06LockKind(fail) + "/" + strings.Join(c06Names(h), ",")
}

func c06LockHistories(p vk.Params, res *vk.Result) {
	defer c06SetEnv(envJWTSecret, c06EnvVal{true, c06Secret})()
	res.Bounds["lock_rule_readings"] = len(c06Readings)
	item := 0
	shrunk := map[string]int{} // failing histories minimised so far, per failure kind (the rest is counted)
	for _, ex := range c06Explorations {
		depth := ex.Quick
		if p.Thorough {
			depth = ex.Thorough
		}
		if depth == 0 {
			continue
		}
		res.Bounds["lock_"+ex.Name+"_depth"] = depth
		res.Bounds["lock_"+ex.Name+"_alphabet"] = ex.Events
		var alpha []int
		for _, n := range ex.Events {
			i, _ := c06EventByName(n)
			alpha = append(alpha, i)
		}
		n := len(alpha)
		// work items: all prefixes of length PrefixLen
		var prefixes [][]int
		var gen func(h []int)
		gen = func(h []int) {
			if len(h) == ex.PrefixLen {
				prefixes = append(prefixes, append([]int{}, h...))
				return
			}
			for _, e := range alpha {
				gen(append(h, e))
			}
		}
		gen(nil)
		failedPrefix := map[string]bool{}
		for _, prefix := range prefixes {
			item++
			if !p.Mine(item) {
				continue
			}
			if p.Expired() {
				res.Exhaustive = false
				return
			}
			st := vk.BFS(n, depth-ex.PrefixLen, false, p.Deadline, func(h []int) (string, bool) {
				full := append([]int{}, prefix...)
				for _, e := range h {
					full = append(full, alpha[e])
				}
				last := c06Alphabet[full[len(full)-1]]
				if len(full) == depth && last.Kind == "adv" {
					// a trailing advance is followed by nothing that could be judged
					return "", false
				}
				at, fail, statuses := c06RunLock(full)
				res.Evaluations++
				for _, ei := range full {
					if c06Alphabet[ei].Kind == "req" {
						res.Distinct++ // non-trivial: contains a request
						break
					}
				}
				if fail != "" {
					sig := fmt.Sprint(full[:at+1])
					res.Count("lock_failing:"+c06LockKind(fail), 1)
					if !failedPrefix[sig] && shrunk[c06LockKind(fail)] < c06LockShrinksPerKind {
						failedPrefix[sig] = true
						shrunk[c06LockKind(fail)]++
						m, mf := c06ShrinkLock(full[:at+1], fail)
						res.Violate(c06LockKey(m, mf), fmt.Sprintf("history %v: %s", c06Names(m), mf), c06Replay{Part: "lock", Events: c06Names(m)})
					}
					return "", false
				}
				if res.Evaluations%9973 == 0 {
					res.Sample(6, map[string]any{"history": c06Names(full), "statuses": statuses})
				}
				return "", true
			})
			res.States += st.States
			res.Transitions += st.Transitions
			res.Count("lock_histories_"+ex.Name, st.Transitions+1)
			if !st.Complete {
				res.Exhaustive = false
				return
			}
		}
	}
}

func c06ReplayLock(rp c06Replay, res *vk.Result, out io.Writer) bool {
	defer c06SetEnv(envJWTSecret, c06EnvVal{true, c06Secret})()
	var h []int
	for _, n := range rp.Events {
		i, _ := c06EventByName(n)
		h = append(h, i)
	}
	at, fail, statuses := c06RunLock(h)
	fmt.Fprintf(out, "replay %v -> statuses %v, step %d: %q\n", rp.Events, statuses, at, fail)
	if fail == "" {
		return false
	}
	res.Violate(c06LockKey(h[:at+1], fail), fmt.Sprintf("history %v: %s", c06Names(h[:at+1]), fail), rp)
	return true
}
