package main

// Verification harness for C06 (declared authentication fails closed).
// Injected into cmd/glyph (package main) so that the chain the CLI itself
// assembles is driven: parseSource -> setupRoutes (registerRoute /
// registerCompiledRoute -> routeMiddlewares) -> ServeMux -> createHandler ->
// loggingMiddleware, in compiled and in interpreted mode.  pkg/server is
// instrumented (virtual clock, controlled goroutines/locks, race recorders)
// for parts 2 and 3; outside vrt.RunOnce/Explore the shims are the real
// primitives, which is how part 1 runs.
//
// Part 1  (this file): exhaustive product declaration x GLYPH_JWT_SECRET x
//         GLYPH_API_KEYS x mode x Authorization shape x X-API-Key shape x
//         forwarding-header shape x route; every request is raw HTTP text
//         parsed by net/http's ReadRequest (what a server sees on the wire).
//         Part 1b: the same header product on the pkg/apikey library.
// Part 2  (c06_lock_test.go): lock-out automaton, all event histories up to a
//         depth (vk.BFS, no deduplication) under the virtual clock.
// Part 3  (c06_sched_test.go): schedules (vrt.Explore) of concurrent requests
//         from one address at the lock-out threshold.

import (
	"bufio"
	"fmt"
	"io"
	"log"
	"net/http"
	"net/http/httptest"
	"os"
	"runtime"
	"strconv"
	"strings"
	"testing"

	"github.com/fatih/color"
	"github.com/glyphlang/glyph/internal/verif/vk"
	"github.com/glyphlang/glyph/pkg/apikey"
)

const (
	c06Secret     = "s3cret"
	c06Key1       = "k1"
	c06Key2       = "k2"
	c06BodyMarker = "c06-body-ran"
	c06OpenMarker = "c06-open-ran"
)

// ---------------------------------------------------------------------------
// the enumerated dimensions

type c06Decl struct {
	Name  string
	Lines []string // directive lines inside the route body
	// Type is the auth type the oracle reasons about: "" (no declaration),
	// "jwt", "apikey" (documented types: safety with the type's own credential
	// set, liveness for the canonical forms), or "unspecified" (declared, but
	// the documentation does not say which source feeds it or whether the
	// canonical form suffices: safety only, against the union of both sets).
	Type string
}

var c06Decls = []c06Decl{
	{"none", nil, ""},
	{"jwt", []string{"+ auth(jwt)"}, "jwt"},
	{"apikey", []string{"+ auth(apikey)"}, "apikey"},
	{"APIKEY", []string{"+ auth(APIKEY)"}, "unspecified"},
	{"basic", []string{"+ auth(basic)"}, "unspecified"},
	{"jwt-role", []string{"+ auth(jwt, role: admin)"}, "jwt-safety-only"},
	{"ratelimit+jwt", []string{"+ ratelimit(1000/min)", "+ auth(jwt)"}, "jwt"},
	{"apikey+ratelimit", []string{"+ auth(apikey)", "+ ratelimit(1000/min)"}, "apikey"},
	// placement variants the parser accepts
	{"jwt-after-statement", []string{"$ c06x = 1", "+ auth(jwt)"}, "jwt"},
	// the README's example shape; a provider injection forces interpreter mode
	{"jwt+ratelimit+db", []string{"+ auth(jwt)", "+ ratelimit(1000/min)", "% db: Database"}, "jwt"},
	{"jwt-then-apikey", []string{"+ auth(jwt)", "+ auth(apikey)"}, "unspecified"},
}

func (d c06Decl) injects() bool {
	for _, l := range d.Lines {
		if strings.HasPrefix(l, "%") {
			return true
		}
	}
	return false
}

func c06DeclByName(n string) c06Decl {
	for _, d := range c06Decls {
		if d.Name == n {
			return d
		}
	}
	panic("unknown declaration " + n)
}

type c06EnvVal struct {
	Set bool   `json:"set"`
	Val string `json:"val"`
}

func (e c06EnvVal) String() string {
	if !e.Set {
		return "unset"
	}
	return strconv.Quote(e.Val)
}

var (
	c06Unset   = c06EnvVal{}
	c06Secrets = []c06EnvVal{c06Unset, {true, ""}, {true, "  "}, {true, c06Secret}}
	// the last three: entries that are nothing but quotes or nothing at all (an env file that blanks the variable with
	// quotes, a trailing comma) configure no usable key; no request without a credential may pass because of them
	c06KeySets = []c06EnvVal{c06Unset, {true, ""}, {true, " , "}, {true, c06Key1}, {true, c06Key1 + "," + c06Key2},
		{true, `""`}, {true, c06Key1 + `,''`}, {true, c06Key1 + ",,"}}
	c06Modes   = []string{"compiled", "interpreted"}
)

type c06Cfg struct {
	Decl   string    `json:"decl"`
	Secret c06EnvVal `json:"jwt_secret"`
	Keys   c06EnvVal `json:"api_keys"`
	Mode   string    `json:"mode"`
}

func (c c06Cfg) String() string {
	return fmt.Sprintf("decl=%s GLYPH_JWT_SECRET=%s GLYPH_API_KEYS=%s mode=%s", c.Decl, c.Secret, c.Keys, c.Mode)
}

type c06Shape struct {
	Name  string
	Lines []string
}

// Authorization shapes (raw header lines as sent on the wire).
var c06AuthShapes = []c06Shape{
	{"absent", nil},
	{"empty", []string{"Authorization:"}},
	{"bare-secret", []string{"Authorization: " + c06Secret}},
	{"Bearer-secret", []string{"Authorization: Bearer " + c06Secret}},
	{"bearer-secret", []string{"Authorization: bearer " + c06Secret}},
	{"BEARER-secret", []string{"Authorization: BEARER " + c06Secret}},
	{"Bearer-2sp-secret", []string{"Authorization: Bearer  " + c06Secret}},
	{"Bearer-tab-secret", []string{"Authorization: Bearer\t" + c06Secret}},
	{"Bearer-secret-trailing-sp", []string{"Authorization: Bearer " + c06Secret + " "}},
	{"lowercase-name", []string{"authorization:Bearer " + c06Secret}},
	{"Basic-secret", []string{"Authorization: Basic " + c06Secret}},
	{"Bearer-alone", []string{"Authorization: Bearer"}},
	{"Bearer-wrong", []string{"Authorization: Bearer wrong"}},
	{"Bearer-secret-prefix", []string{"Authorization: Bearer " + c06Secret[:len(c06Secret)-1]}},
	{"Bearer-secret-extended", []string{"Authorization: Bearer " + c06Secret + "1"}},
	{"Bearer-secret,Bearer-wrong", []string{"Authorization: Bearer " + c06Secret, "Authorization: Bearer wrong"}},
	{"Bearer-wrong,Bearer-secret", []string{"Authorization: Bearer wrong", "Authorization: Bearer " + c06Secret}},
	{"Bearer-key", []string{"Authorization: Bearer " + c06Key1}},
	{"Bearer-key2", []string{"Authorization: Bearer " + c06Key2}},
	{"bare-key", []string{"Authorization: " + c06Key1}},
	{"Bearer-keylist", []string{"Authorization: Bearer " + c06Key1 + "," + c06Key2}},
	{"Bearer-key-prefix", []string{"Authorization: Bearer k"}},
}

var c06KeyShapes = []c06Shape{
	{"absent", nil},
	{"key", []string{"X-API-Key: " + c06Key1}},
	{"wrong", []string{"X-API-Key: wrong"}},
	{"empty", []string{"X-API-Key:"}},
	{"lowercase-name-key2", []string{"x-api-key: " + c06Key2}},
	{"secret", []string{"X-API-Key: " + c06Secret}},
	{"wrong,key", []string{"X-API-Key: wrong", "X-API-Key: " + c06Key1}},
	{"key,wrong", []string{"X-API-Key: " + c06Key1, "X-API-Key: wrong"}},
	{"key-prefix", []string{"X-API-Key: k"}},
	{"keylist", []string{"X-API-Key: " + c06Key1 + "," + c06Key2}},
}

var c06FwdShapes = []c06Shape{
	{"none", nil},
	{"xff-loopback", []string{"X-Forwarded-For: 127.0.0.1"}},
	{"x-real-ip-loopback", []string{"X-Real-IP: 127.0.0.1"}},
	{"xff-chain+x-real-ip", []string{"X-Forwarded-For: 10.0.0.1, 127.0.0.1", "X-Forwarded-For: ::1", "X-Real-IP: 10.0.0.1"}},
}

type c06Target struct{ Method, Path string }

// /r is declared for GET and POST only: the other methods have no declaration to reach, so nothing may run for them
// (a fallback from HEAD or OPTIONS to the GET route has to carry the GET route's auth chain)
var c06Targets = []c06Target{{"GET", "/r"}, {"POST", "/r"}, {"GET", "/open"}, {"HEAD", "/r"}, {"OPTIONS", "/r"}, {"PUT", "/r"}}

func c06Declared(method string) bool { return method == "GET" || method == "POST" }

func c06ShapeByName(set []c06Shape, n string) c06Shape {
	for _, s := range set {
		if s.Name == n {
			return s
		}
	}
	panic("unknown shape " + n)
}

// c06Req is one request of the product.
type c06Req struct {
	Method string `json:"method"`
	Path   string `json:"path"`
	Auth   string `json:"authorization_shape"`
	Key    string `json:"x_api_key_shape"`
	Fwd    string `json:"forwarding_shape"`
}

func (r c06Req) lines() []string {
	var l []string
	l = append(l, c06ShapeByName(c06AuthShapes, r.Auth).Lines...)
	l = append(l, c06ShapeByName(c06KeyShapes, r.Key).Lines...)
	l = append(l, c06ShapeByName(c06FwdShapes, r.Fwd).Lines...)
	return l
}

func (r c06Req) String() string {
	return fmt.Sprintf("%s %s %q", r.Method, r.Path, r.lines())
}

// c06Source renders the module: an undeclared route next to the route under
// test (GET and POST carry the same declaration).
func c06Source(d c06Decl) string {
	var b strings.Builder
	fmt.Fprintf(&b, "@ GET /open {\n  > {marker: %q}\n}\n\n", c06OpenMarker)
	for _, m := range []string{"GET", "POST"} {
		fmt.Fprintf(&b, "@ %s /r {\n", m)
		for _, l := range d.Lines {
			fmt.Fprintf(&b, "  %s\n", l)
		}
		fmt.Fprintf(&b, "  > {marker: %q}\n}\n\n", c06BodyMarker)
	}
	return b.String()
}

// ---------------------------------------------------------------------------
// system under test

func c06SetEnv(name string, v c06EnvVal) (restore func()) {
	old, had := os.LookupEnv(name)
	if v.Set {
		os.Setenv(name, v.Val)
	} else {
		os.Unsetenv(name)
	}
	return func() {
		if had {
			os.Setenv(name, old)
		} else {
			os.Unsetenv(name)
		}
	}
}

type c06Sys struct {
	cfg  c06Cfg
	h    http.Handler
	stop func()
	seq  int
}

// c06Build assembles the server the way startServer does, minus the socket.
func c06Build(cfg c06Cfg) (*c06Sys, error) {
	defer c06SetEnv(envJWTSecret, cfg.Secret)()
	defer c06SetEnv(envAPIKeys, cfg.Keys)()
	defer c06SetEnv("GLYPH_CORS_ORIGIN", c06Unset)()
	s := &c06Sys{cfg: cfg, stop: func() {}}
	module, err := parseSource(c06Source(c06DeclByName(cfg.Decl)))
	if err != nil {
		return nil, fmt.Errorf("parse: %w", err)
	}
	const file = "/nonexistent/c06.glyph"
	useCompiler, _, wsServer, router, err := setupRoutes(module, file, cfg.Mode == "interpreted")
	if wsServer != nil {
		s.stop = func() { runtime.Gosched(); wsServer.Shutdown() }
	}
	if err != nil {
		s.stop()
		return nil, err
	}
	if useCompiler != (cfg.Mode == "compiled" && !c06DeclByName(cfg.Decl).injects()) {
		s.stop()
		return nil, fmt.Errorf("setupRoutes did not use %s mode", cfg.Mode)
	}
	mux := http.NewServeMux()
	mux.HandleFunc("/", createHandler(router))
	if err := registerStaticRoutes(mux, module, file, 0); err != nil {
		s.stop()
		return nil, err
	}
	s.h = loggingMiddleware(mux)
	return s, nil
}

// c06WireRequest parses raw HTTP text the way a server connection does.
func c06WireRequest(method, target string, lines []string, remote string) *http.Request {
	var b strings.Builder
	fmt.Fprintf(&b, "%s %s HTTP/1.1\r\nHost: c06.test\r\n", method, target)
	for _, l := range lines {
		b.WriteString(l + "\r\n")
	}
	if method == "POST" {
		b.WriteString("Content-Length: 0\r\n")
	}
	b.WriteString("\r\n")
	req, err := http.ReadRequest(bufio.NewReader(strings.NewReader(b.String())))
	if err != nil {
		panic(fmt.Sprintf("c06: request text rejected by net/http: %v: %q", err, b.String()))
	}
	req.RemoteAddr = remote
	return req
}

type c06Obs struct {
	Status int
	Ran    bool // the declared route's marker is in the response
	Open   bool // the undeclared route's marker is in the response
	Body   string
	Panic  string
}

func (o c06Obs) String() string {
	if o.Panic != "" {
		return "panic: " + o.Panic
	}
	switch {
	case o.Ran:
		return fmt.Sprintf("status %d, the route body ran (marker returned)", o.Status)
	case o.Open:
		return fmt.Sprintf("status %d, the undeclared route's body ran", o.Status)
	}
	return fmt.Sprintf("status %d, no body ran (%s)", o.Status, strings.TrimSpace(o.Body))
}

// every request comes from its own address so that the per-address lock-out
// and rate-limit state of the shared middleware instance cannot interfere
func (s *c06Sys) request(r c06Req) (o c06Obs, req *http.Request) {
	s.seq++
	remote := fmt.Sprintf("10.%d.%d.%d:%d", s.seq>>16&255, s.seq>>8&255, s.seq&255, 20000+s.seq%20000)
	req = c06WireRequest(r.Method, r.Path, r.lines(), remote)
	rec := httptest.NewRecorder()
	func() {
		defer func() {
			if p := recover(); p != nil {
				o.Panic = fmt.Sprint(p)
			}
		}()
		s.h.ServeHTTP(rec, req)
	}()
	o.Status = rec.Code
	o.Body = rec.Body.String()
	o.Ran = strings.Contains(o.Body, c06BodyMarker)
	o.Open = strings.Contains(o.Body, c06OpenMarker)
	return
}

// ---------------------------------------------------------------------------
// oracle (written from the property statement)

// credentials configured for the declared type
func c06Creds(typ string, cfg c06Cfg) map[string]bool {
	out := map[string]bool{}
	secret := func() {
		if cfg.Secret.Set && strings.TrimSpace(cfg.Secret.Val) != "" {
			out[strings.TrimSpace(cfg.Secret.Val)] = true
		}
	}
	keys := func() {
		if cfg.Keys.Set {
			for _, k := range strings.Split(cfg.Keys.Val, ",") {
				if k = strings.TrimSpace(k); k != "" {
					out[k] = true
				}
			}
		}
	}
	switch typ {
	case "jwt", "jwt-safety-only":
		secret()
	case "apikey":
		keys()
	default:
		secret()
		keys()
	}
	return out
}

// c06Carried is the credential a header value carries: the value itself, after
// an optional Bearer scheme (any casing, any blank separator).  Deliberately
// generous: it is only used for the safety direction.
func c06Carried(v string) string {
	v = strings.TrimSpace(v)
	if len(v) >= 6 && strings.EqualFold(v[:6], "bearer") && (len(v) == 6 || v[6] == ' ' || v[6] == '\t') {
		v = strings.TrimSpace(v[6:])
	}
	return v
}

// c06Judge returns "" if the observation conforms, else the failure kind.
func c06Judge(cfg c06Cfg, r c06Req, req *http.Request, o c06Obs) string {
	if o.Panic != "" {
		return "panic"
	}
	d := c06DeclByName(cfg.Decl)
	if r.Path == "/r" && !c06Declared(r.Method) {
		// no declaration for this method: the body of /r may run only under the conditions of its auth declaration
		// (a server may answer HEAD/OPTIONS from the GET route, but not around its auth), and /open's never
		if o.Open {
			return "wrong-body-ran"
		}
		if d.Type == "" || !o.Ran {
			return ""
		}
		creds := c06Creds(d.Type, cfg)
		for _, v := range append(append([]string{}, req.Header.Values("Authorization")...), req.Header.Values("X-Api-Key")...) {
			if creds[c06Carried(v)] {
				return ""
			}
		}
		if len(creds) == 0 {
			return "admitted-with-no-credential-source-configured"
		}
		return "admitted-without-configured-credential"
	}
	if r.Path == "/open" || d.Type == "" {
		// routes without a declaration are unaffected: same answer under every
		// configuration and header shape
		want, other := c06OpenMarker, c06BodyMarker
		if r.Path != "/open" {
			want, other = other, want
		}
		if o.Status != 200 || strings.TrimSpace(o.Body) != fmt.Sprintf(`{"marker":%q}`, want) || strings.Contains(o.Body, other) {
			return "undeclared-route-affected"
		}
		return ""
	}
	if o.Open {
		return "wrong-body-ran"
	}
	creds := c06Creds(d.Type, cfg)
	authz := req.Header.Values("Authorization")
	xkeys := req.Header.Values("X-Api-Key")
	carries := false
	for _, v := range append(append([]string{}, authz...), xkeys...) {
		if creds[c06Carried(v)] {
			carries = true
		}
	}
	if o.Ran && !carries {
		if len(creds) == 0 {
			return "admitted-with-no-credential-source-configured"
		}
		return "admitted-without-configured-credential"
	}
	// liveness: the canonical forms are admitted
	canonical := false
	switch d.Type {
	case "jwt":
		canonical = len(creds) > 0 && len(authz) > 0
		for _, v := range authz {
			if !strings.HasPrefix(v, "Bearer ") || !creds[v[7:]] {
				canonical = false
			}
		}
	case "apikey":
		canonical = len(creds) > 0 && len(authz)+len(xkeys) > 0
		for _, v := range authz {
			if !strings.HasPrefix(v, "Bearer ") || !creds[v[7:]] {
				canonical = false
			}
		}
		for _, v := range xkeys {
			if !creds[v] {
				canonical = false
			}
		}
	}
	if canonical && !(o.Ran && o.Status == 200) {
		return "canonical-credential-rejected"
	}
	return ""
}

// ---------------------------------------------------------------------------
// running, shrinking, keys

type c06Replay struct {
	Part string `json:"part"` // "shapes" | "apikey-lib" | "lock" | "sched"
	// shapes: the requests are sent in order to one freshly built system; the
	// last one is judged
	Cfg  *c06Cfg  `json:"config,omitempty"`
	Reqs []c06Req `json:"requests,omitempty"`
	// apikey-lib
	Lib *c06LibCase `json:"lib_case,omitempty"`
	// libserver
	Srv *c06SrvCase `json:"libserver_case,omitempty"`
	// lock
	Events []string `json:"events,omitempty"`
	// sched
	Scen    string `json:"scenario,omitempty"`
	Choices []int  `json:"choices,omitempty"`
}

// c06RunFresh sends the requests to a fresh system and judges the last.
func c06RunFresh(cfg c06Cfg, reqs []c06Req) (kind string, o c06Obs, err error) {
	s, err := c06Build(cfg)
	if err != nil {
		return "", o, err
	}
	defer s.stop()
	for i, r := range reqs {
		ob, req := s.request(r)
		if i == len(reqs)-1 {
			return c06Judge(cfg, r, req, ob), ob, nil
		}
	}
	return "", o, nil
}

// c06Family groups failure kinds that one defect typically produces under
// different configurations (so that the shrinker may move between them).
func c06Family(kind string) string {
	if strings.HasPrefix(kind, "admitted-") {
		return "admitted"
	}
	return kind
}

// c06Shrink minimises a failing single-request case dimension by dimension.
func c06Shrink(cfg c06Cfg, r c06Req, kind string) (c06Cfg, c06Req) {
	try := func(c c06Cfg, q c06Req) bool {
		k, _, err := c06RunFresh(c, []c06Req{q})
		return err == nil && k != "" && c06Family(k) == c06Family(kind)
	}
	if q := r; q.Fwd != "none" {
		if q.Fwd = "none"; try(cfg, q) {
			r = q
		}
	}
	if q := r; q.Method != "GET" {
		if q.Method = "GET"; try(cfg, q) {
			r = q
		}
	}
	for _, n := range []string{"absent", "key", "wrong"} {
		if q := r; q.Key != n {
			if q.Key = n; try(cfg, q) {
				r = q
				break
			}
		}
		if r.Key == n {
			break
		}
	}
	for _, n := range []string{"absent", "Bearer-secret", "Bearer-wrong", "Bearer-key"} {
		if r.Auth == n {
			break
		}
		if q := r; true {
			if q.Auth = n; try(cfg, q) {
				r = q
				break
			}
		}
	}
	for _, v := range []c06EnvVal{c06Unset, {true, ""}, {true, c06Secret}} {
		if cfg.Secret == v {
			break
		}
		if c := cfg; true {
			if c.Secret = v; try(c, r) {
				cfg = c
				break
			}
		}
	}
	for _, v := range []c06EnvVal{c06Unset, {true, ""}, {true, c06Key1}} {
		if cfg.Keys == v {
			break
		}
		if c := cfg; true {
			if c.Keys = v; try(c, r) {
				cfg = c
				break
			}
		}
	}
	return cfg, r
}

// finding key: kind / declaration / modes in which the minimal case fails /
// configuration / header shapes of the minimal case
func c06Key(cfg c06Cfg, r c06Req, kind string) string {
	modes := ""
	for _, m := range c06Modes {
		c := cfg
		c.Mode = m
		if k, _, err := c06RunFresh(c, []c06Req{r}); err == nil && k != "" && c06Family(k) == c06Family(kind) {
			if modes != "" {
				modes += "+"
			}
			modes += m
		}
	}
	if modes == "" {
		modes = cfg.Mode
	}
	return fmt.Sprintf("shapes/%s/decl=%s/%s/secret=%s/keys=%s/%s %s/authorization=%s/x-api-key=%s/fwd=%s",
		kind, cfg.Decl, modes, cfg.Secret, cfg.Keys, r.Method, r.Path, r.Auth, r.Key, r.Fwd)
}

func c06Quiet() {
	log.SetOutput(io.Discard)
	color.Output = io.Discard
	if f, err := os.OpenFile(os.DevNull, os.O_WRONLY, 0); err == nil {
		os.Stdout = f
	}
}

const c06ShrinksPerSig = 6

func c06Shapes(p vk.Params, res *vk.Result) {
	var cfgs []c06Cfg
	for _, d := range c06Decls {
		for _, sec := range c06Secrets {
			for _, ks := range c06KeySets {
				for _, m := range c06Modes {
					cfgs = append(cfgs, c06Cfg{Decl: d.Name, Secret: sec, Keys: ks, Mode: m})
				}
			}
		}
	}
	// quick tier: no forwarding headers, and the full forged set; thorough: all four
	fwds := []c06Shape{c06FwdShapes[0], c06FwdShapes[3]}
	if p.Thorough {
		fwds = c06FwdShapes
	}
	res.Bounds["shapes_configurations"] = len(cfgs)
	res.Bounds["shapes_requests_per_configuration"] = len(c06AuthShapes) * len(c06KeyShapes) * len(fwds) * len(c06Targets)
	res.Bounds["authorization_shapes"] = len(c06AuthShapes)
	res.Bounds["x_api_key_shapes"] = len(c06KeyShapes)
	res.Bounds["forwarding_shapes"] = len(fwds)
	shrunk := map[string]int{}
	for ci, cfg := range cfgs {
		if !p.Mine(ci) {
			continue
		}
		if p.Expired() {
			res.Exhaustive = false
			return
		}
		s, err := c06Build(cfg)
		if err != nil {
			res.Violate("shapes/build-failed/"+cfg.Decl+"/"+cfg.Mode, fmt.Sprintf("%s: the server could not be assembled: %v", cfg, err),
				c06Replay{Part: "shapes", Cfg: &cfg, Reqs: []c06Req{{Method: "GET", Path: "/r", Auth: "absent", Key: "absent", Fwd: "none"}}})
			continue
		}
		var sent []c06Req
		for _, a := range c06AuthShapes {
			for _, k := range c06KeyShapes {
				for _, f := range fwds {
					for _, t := range c06Targets {
						r := c06Req{Method: t.Method, Path: t.Path, Auth: a.Name, Key: k.Name, Fwd: f.Name}
						o, req := s.request(r)
						sent = append(sent, r)
						kind := c06Judge(cfg, r, req, o)
						res.Evaluations++
						if t.Path != "/open" && cfg.Decl != "none" {
							res.Distinct++ // a request to a route that declares auth
						}
						if o.Ran {
							res.Count("shapes_admitted", 1)
						} else if t.Path != "/open" {
							res.Count("shapes_rejected", 1)
						}
						if kind == "" {
							if res.Evaluations%4099 == 0 {
								res.Sample(4, map[string]any{"config": cfg.String(), "request": r.String(), "observed": o.String()})
							}
							continue
						}
						res.Count("shapes_failing", 1)
						// failures are minimised; at most c06ShrinksPerSig failing cases
						// per (kind, declaration, mode) and shard go through the shrinker,
						// the rest is counted under that signature
						sig := kind + "/" + cfg.Decl + "/" + cfg.Mode
						res.Count("shapes_failing:"+sig, 1)
						if shrunk[sig] >= c06ShrinksPerSig {
							continue
						}
						shrunk[sig]++
						// confirm on a fresh instance
						k2, _, _ := c06RunFresh(cfg, []c06Req{r})
						if k2 != kind {
							c := cfg
							res.Violate("shapes/"+sig+"/depends-on-earlier-requests",
								fmt.Sprintf("%s: %s -> %s [%s], but only after the %d earlier requests to the same server instance", cfg, r, o, kind, len(sent)-1),
								c06Replay{Part: "shapes", Cfg: &c, Reqs: append([]c06Req{}, sent...)})
							continue
						}
						mc, mr := c06Shrink(cfg, r, kind)
						mk, mo, _ := c06RunFresh(mc, []c06Req{mr})
						key := c06Key(mc, mr, mk)
						res.Violate(key, fmt.Sprintf("%s: %s -> %s [%s]", mc, mr, mo, mk), c06Replay{Part: "shapes", Cfg: &mc, Reqs: []c06Req{mr}})
					}
				}
			}
		}
		s.stop()
	}
}

// ---------------------------------------------------------------------------
// part 1b: the pkg/apikey library middleware at its own API

type c06LibCase struct {
	Static  []string `json:"static_keys"`
	Header  string   `json:"header_name"` // "" = default X-API-Key
	QueryP  string   `json:"query_param"`
	Auth    string   `json:"authorization_shape"`
	Key     string   `json:"x_api_key_shape"`
	Query   string   `json:"query"`
	hdrVals []string
}

func (c c06LibCase) String() string {
	return fmt.Sprintf("apikey.Config{StaticKeys:%q HeaderName:%q QueryParam:%q} GET /lib%s %q", c.Static, c.Header, c.QueryP, c.Query,
		append(append([]string{}, c06ShapeByName(c06AuthShapes, c.Auth).Lines...), c06ShapeByName(c06KeyShapes, c.Key).Lines...))
}

func c06LibRun(c c06LibCase) (kind string, status int, ran bool) {
	v := apikey.NewValidator(apikey.Config{StaticKeys: c.Static, HeaderName: c.Header, QueryParam: c.QueryP})
	h := apikey.Middleware(v)(http.HandlerFunc(func(w http.ResponseWriter, r *http.Request) {
		ran = true
		io.WriteString(w, c06BodyMarker)
	}))
	lines := append(append([]string{}, c06ShapeByName(c06AuthShapes, c.Auth).Lines...), c06ShapeByName(c06KeyShapes, c.Key).Lines...)
	req := c06WireRequest("GET", "/lib"+c.Query, lines, "10.1.1.1:4000")
	rec := httptest.NewRecorder()
	panicked := ""
	func() {
		defer func() {
			if p := recover(); p != nil {
				panicked = fmt.Sprint(p)
			}
		}()
		h.ServeHTTP(rec, req)
	}()
	status = rec.Code
	if panicked != "" {
		return "panic", status, ran
	}
	creds := map[string]bool{}
	for _, k := range c.Static {
		if strings.TrimSpace(k) != "" {
			creds[k] = true
		}
	}
	// inputs that may bear the credential under this configuration
	hdr := c.Header
	if hdr == "" {
		hdr = "X-API-Key"
	}
	vals := req.Header.Values(hdr)
	var bearing []string
	bearing = append(bearing, vals...)
	if c.QueryP != "" {
		bearing = append(bearing, req.URL.Query()[c.QueryP]...)
	}
	carries := false
	for _, b := range bearing {
		if creds[c06Carried(b)] {
			carries = true
		}
	}
	if ran && !carries {
		if len(creds) == 0 {
			return "admitted-with-no-credential-source-configured", status, ran
		}
		return "admitted-without-configured-credential", status, ran
	}
	// liveness: the configured header alone, in its canonical form
	canonical := len(creds) > 0 && len(vals) > 0
	for _, x := range vals {
		if hdr == "Authorization" {
			if !strings.HasPrefix(x, "Bearer ") || !creds[x[7:]] {
				canonical = false
			}
		} else if !creds[x] {
			canonical = false
		}
	}
	if canonical && !ran {
		return "canonical-credential-rejected", status, ran
	}
	return "", status, ran
}

func c06LibKey(c c06LibCase, kind string) string {
	return fmt.Sprintf("apikey-lib/%s/static=%q/header=%s/query-param=%s/authorization=%s/x-api-key=%s/query=%s", kind, c.Static, c.Header, c.QueryP, c.Auth, c.Key, c.Query)
}

// c06LibShrink simplifies a failing library case dimension by dimension.
func c06LibShrink(c c06LibCase, kind string) c06LibCase {
	try := func(x c06LibCase) bool { k, _, _ := c06LibRun(x); return k == kind }
	if x := c; x.Query != "" {
		if x.Query = ""; try(x) {
			c = x
		}
	}
	if x := c; x.QueryP != "" {
		if x.QueryP = ""; try(x) {
			c = x
		}
	}
	for _, n := range []string{"absent", "Bearer-key", "Bearer-wrong"} {
		if c.Auth == n {
			break
		}
		x := c
		if x.Auth = n; try(x) {
			c = x
			break
		}
	}
	for _, n := range []string{"absent", "key", "wrong"} {
		if c.Key == n {
			break
		}
		x := c
		if x.Key = n; try(x) {
			c = x
			break
		}
	}
	for _, st := range [][]string{nil, {c06Key1}} {
		if len(c.Static) == len(st) {
			break
		}
		x := c
		if x.Static = st; try(x) {
			c = x
			break
		}
	}
	return c
}

func c06Lib(p vk.Params, res *vk.Result) {
	n := 0
	shrunk := map[string]int{}
	for _, static := range [][]string{nil, {""}, {c06Key1}, {c06Key1, c06Key2}, {"", c06Key1}} {
		for _, hdr := range []string{"", "Authorization"} {
			for _, qp := range []string{"", "api_key"} {
				for _, a := range c06AuthShapes {
					for _, k := range c06KeyShapes {
						for _, q := range []string{"", "?api_key=" + c06Key1, "?api_key=wrong", "?api_key=", "?api_key=wrong&api_key=" + c06Key1} {
							n++
							if !p.Mine(n) {
								continue
							}
							c := c06LibCase{Static: static, Header: hdr, QueryP: qp, Auth: a.Name, Key: k.Name, Query: q}
							kind, _, _ := c06LibRun(c)
							res.Evaluations++
							res.Distinct++
							if kind != "" {
								res.Count("apikey_lib_failing:"+kind, 1)
								if shrunk[kind] >= c06ShrinksPerSig {
									continue
								}
								shrunk[kind]++
								mc := c06LibShrink(c, kind)
								_, mstatus, mran := c06LibRun(mc)
								res.Violate(c06LibKey(mc, kind), fmt.Sprintf("%s -> status %d, next handler ran=%v [%s]", mc, mstatus, mran, kind), c06Replay{Part: "apikey-lib", Lib: &mc})
							}
						}
					}
				}
			}
		}
	}
	res.Bounds["apikey_lib_cases"] = n
}

// ---------------------------------------------------------------------------

func TestVerif_C06(t *testing.T) {
	p := vk.Env()
	stdout := os.Stdout
	c06Quiet()
	res := vk.NewResult("part 1: every (declaration in none/jwt/apikey/APIKEY/basic/jwt+role/ratelimit+jwt/apikey+ratelimit/jwt after a statement/jwt+ratelimit+db injection/jwt then apikey) x GLYPH_JWT_SECRET in unset/\"\"/blank/secret x GLYPH_API_KEYS in unset/\"\"/\" , \"/k1/k1,k2/two quote characters/k1 and a quote-only entry/k1 and empty entries x compiled/interpreted server assembled by setupRoutes+createHandler, x every request = (GET /r, POST /r, GET /open) x Authorization shape x X-API-Key shape x forwarding-header shape, sent as raw HTTP text through net/http's ReadRequest; a case is non-trivial if it addresses a route that declares auth; plus the same header product on pkg/apikey's middleware. Part 2: every history up to the depth bound over {bad, good, missing credential from A, good from B, bad from A with forged X-Forwarded-For naming B, burst of 4 bad from A, advance 30 s / 1 min / 2 min / 16 min (which drives the cleanup ticker)} on the jwt middleware chain the CLI builds, no deduplication (tracker state is closure-private). Part 3: every schedule with at most the stated number of preemptions of concurrent requests from one address at the lock-out threshold")
	if p.Replay != "" {
		var rp c06Replay
		if err := vk.LoadReplay(p.Replay, &rp); err != nil {
			t.Fatal(err)
		}
		ok := false
		switch rp.Part {
		case "shapes":
			kind, o, err := c06RunFresh(*rp.Cfg, rp.Reqs)
			last := rp.Reqs[len(rp.Reqs)-1]
			fmt.Fprintf(stdout, "replay %s: %s -> %s [%s] err=%v\n", rp.Cfg, last, o, kind, err)
			if err != nil {
				ok = true
				res.Violate("shapes/build-failed/"+rp.Cfg.Decl+"/"+rp.Cfg.Mode, err.Error(), rp)
			} else if kind != "" {
				ok = true
				key := "shapes/" + kind + "/" + rp.Cfg.Decl + "/" + rp.Cfg.Mode + "/depends-on-earlier-requests"
				if len(rp.Reqs) == 1 {
					key = c06Key(*rp.Cfg, last, kind)
				}
				res.Violate(key, fmt.Sprintf("%s: %s -> %s [%s]", rp.Cfg, last, o, kind), rp)
			}
		case "apikey-lib":
			c := *rp.Lib
			kind, status, ran := c06LibRun(c)
			fmt.Fprintf(stdout, "replay %s -> status %d ran=%v [%s]\n", c, status, ran, kind)
			if kind != "" {
				ok = true
				res.Violate(c06LibKey(c, kind),
					fmt.Sprintf("%s -> status %d, next handler ran=%v [%s]", c, status, ran, kind), rp)
			}
		case "libserver":
			kind, detail := c06SrvRun(*rp.Srv)
			fmt.Fprintf(stdout, "replay %s -> [%s] %s\n", *rp.Srv, kind, detail)
			if kind != "" {
				ok = true
				res.Violate(c06SrvKey(*rp.Srv, kind), fmt.Sprintf("%s: %s", *rp.Srv, detail), rp)
			}
		case "lock":
			ok = c06ReplayLock(rp, res, stdout)
		case "sched":
			ok = c06ReplaySched(rp, res, stdout)
		}
		res.Replayed = &ok
		res.Write(p)
		return
	}
	// Parts 2 and 3 run first: part 1 builds whole servers outside the
	// controlled runtime, whose cleanup goroutines (real 60 s tickers) must not
	// wake up inside a later controlled execution.
	only := os.Getenv("C06_PARTS") // debugging aid: comma-separated subset of sched,lock,lib,shapes
	want := func(part string) bool { return only == "" || strings.Contains(","+only+",", ","+part+",") }
	if want("sched") {
		c06Schedules(p, res)
	}
	if want("lock") {
		c06LockHistories(p, res)
	}
	if want("lib") {
		c06Lib(p, res)
	}
	if want("libserver") {
		c06Srv(p, res)
	}
	if want("shapes") {
		c06Shapes(p, res)
	}
	res.Write(p)
}
