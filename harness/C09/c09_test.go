package main

// Verification harness for C09 (async blocks are race-free, deterministic and
// settle once).  pkg/interpreter and pkg/vm are fully instrumented (sync,
// channels, select, go statements, clock, shared-memory access recorders).
//
// Part "prog": GlyphLang route programs using async/await are parsed by the real
// parser and executed by the real interpreter (ExecuteRoute) and by the real
// compiler + VM under the controlled scheduler; every interleaving of parent and
// blocks with at most N preemptions is executed.  On every execution: no data
// race (happens-before monitor over instrumented map/field accesses), no panic,
// no deadlock, no thread left blocked at quiescence; over all executions of a
// program whose blocks communicate only through await the set of outcomes is a
// singleton and equals the value the program denotes.
//
// Part "future": the exported Future API (Resolve/Reject/Cancel from several
// threads with two awaiters) and the All/Race/Any combinators over 2-3 futures
// settled by separate threads in every order and success/failure mix.

import (
	"encoding/json"
	"errors"
	"fmt"
	"os"
	"sort"
	"strings"
	"testing"

	"github.com/glyphlang/glyph/internal/verif/vk"
	"github.com/glyphlang/glyph/internal/verif/vrt"
	"github.com/glyphlang/glyph/pkg/ast"
	"github.com/glyphlang/glyph/pkg/compiler"
	"github.com/glyphlang/glyph/pkg/interpreter"
	"github.com/glyphlang/glyph/pkg/vm"
)

// ---- programs ---------------------------------------------------------------

type c09Prog struct {
	Name string `json:"name"`
	Body string `json:"body"` // statements of the route body
	// Expect is the canonical JSON of the value the program denotes, or "error".
	// "" = the blocks do not communicate only through await (the parent writes
	// what a block reads): determinism is not demanded, everything else is.
	Expect string `json:"expect"`
	// Prelude is module-level text in front of the route (constants whose initialiser spawns a block: that block is
	// created directly in the module's root scope, while the loader goes on defining the items that follow).
	// Such programs run on the interpreter only (compiled routes do not see module constants).
	Prelude string `json:"prelude,omitempty"`
	// Second is the body of a second program executed on the same VM value after Reset (engine "vm-reuse" only).
	Second string `json:"second,omitempty"`
}

func c09Programs(thorough bool) []c09Prog {
	var ps []c09Prog
	add := func(name, expect string, lines ...string) {
		ps = append(ps, c09Prog{Name: name, Body: strings.Join(lines, "\n  "), Expect: expect})
	}
	// one block, parent keeps working before the await
	for _, parent := range []struct{ n, stmt, tail, exp string }{
		{"idle", "", "r", "2"},
		{"declares", "$ b = 10", "r + b", "12"},
		{"declares2", "$ b = 10\n  $ c = 20", "r + b + c", "32"},
		{"reassigns-own", "$ b = 10\n  b = 11", "r + b", "13"},
	} {
		add("one-block/parent-"+parent.n, parent.exp, "$ a = 1", "$ f = async { > a + 1 }", parent.stmt, "$ r = await f", "> "+parent.tail)
	}
	// block bodies with control flow and locals
	for _, b := range []struct{ n, body, exp string }{
		{"if", "if a > 0 { > 10 } else { > 20 }", "10"},
		{"if-else", "if a > 5 { > 10 } else { > 20 }", "20"},
		{"if-fallthrough", "$ t = 0\n    if a > 0 { t = 3 }\n    > t + 1", "4"},
		{"while", "$ i = 0\n    $ s = 0\n    while i < 4 { s = s + i\n      i = i + 1 }\n    > s", "6"},
		{"for", "$ s = 0\n    for x in [1, 2, 3] { s = s + x }\n    > s", "6"},
		{"locals", "$ u = a + 1\n    $ v = u * 2\n    > v", "4"},
		{"error", "> 1 / 0", "error"},
		{"error-after-work", "$ u = a + 1\n    > u / 0", "error"},
	} {
		add("block-body/"+b.n, b.exp, "$ a = 1", "$ f = async {\n    "+b.body+"\n  }", "$ z = 5", "> await f")
	}
	// several blocks, awaited in both orders
	add("two-blocks/await-in-order", "12", "$ f = async { > 1 }", "$ g = async { > 2 }", "$ x = await f", "$ y = await g", "> x * 10 + y")
	add("two-blocks/await-reversed", "12", "$ f = async { > 1 }", "$ g = async { > 2 }", "$ y = await g", "$ x = await f", "> x * 10 + y")
	add("two-blocks/captured", "33", "$ a = 1", "$ b = 2", "$ f = async { > a + 10 }", "$ g = async { > b + 20 }", "$ c = 3", "> (await f) + (await g)")
	add("two-blocks/one-fails", "error", "$ f = async { > 1 }", "$ g = async { > 1 / 0 }", "$ x = await f", "$ y = await g", "> x + y")
	add("two-blocks/one-fails-unawaited", "1", "$ f = async { > 1 }", "$ g = async { > 1 / 0 }", "> await f")
	// await twice / two awaiters / never awaited / nested
	add("await-twice", "14", "$ f = async { > 7 }", "$ x = await f", "$ y = await f", "> x + y")
	add("await-twice-error", "error", "$ f = async { > 7 / 0 }", "$ x = await f", "> x")
	add("two-awaiters", "17", "$ f = async { > 7 }", "$ g = async { > (await f) + 1 }", "$ h = async { > (await f) + 2 }", "> (await g) + (await h)")
	add("never-awaited", "5", "$ f = async { > 1 }", "> 5")
	add("never-awaited-loop", "5", "$ f = async {\n    $ i = 0\n    while i < 3 { i = i + 1 }\n    > i\n  }", "$ k = 5", "> k")
	add("nested", "3", "$ f = async {\n    $ g = async { > 1 }\n    $ q = 1\n    > (await g) + q + 1\n  }", "$ w = 0", "> await f")
	add("nested-captured", "111", "$ a = 1", "$ f = async {\n    $ b = 10\n    $ g = async { > a + b + 100 }\n    $ c = 0\n    > await g\n  }", "$ d = 0", "> await f")
	add("await-inline", "3", "$ a = 2", "> (await async { > a + 1 })")
	// parent and block share what the other writes: determinism not demanded
	add("shared/parent-reassigns-captured", "", "$ a = 1", "$ f = async { > a }", "a = 5", "$ r = await f", "> 0")
	add("shared/parent-mutates-captured-object", "", "$ o = {k: 1}", "$ f = async { > o.k }", "$ o.k = 5", "$ r = await f", "> 0")
	add("shared/block-assigns-captured", "", "$ a = 1", "$ f = async { a = 2\n    > 0 }", "$ b = a", "$ r = await f", "> 0")
	if thorough {
		add("three-blocks", "6", "$ a = 1", "$ f = async { > a }", "$ g = async { > a + 1 }", "$ h = async { > a + 2 }", "$ z = 0", "> (await h) + (await f) + (await g)")
		add("chain", "4", "$ f = async { > 1 }", "$ g = async { > (await f) + 1 }", "$ h = async { > (await g) + 2 }", "> await h")
		add("nested-deep", "4", "$ f = async {\n    $ g = async {\n      $ h = async { > 1 }\n      > (await h) + 1\n    }\n    > (await g) + 2\n  }", "> await f")
	}
	// VM reuse: the first program returns the future of a block it never awaits; the VM is reset and runs Second
	ps = append(ps,
		c09Prog{Name: "vm-reuse/unawaited-block-then-second-program", Body: "$ k = \"A1\"\n  $ f = async { > k + \"-A2\" }\n  > f", Second: "$ k = \"B1\"\n  $ z = \"B2\"\n  > k + z + \"-B3\"", Expect: "[\"A1-A2\",\"B1B2-B3\"]"},
		c09Prog{Name: "vm-reuse/block-with-loop-then-second-program", Body: "$ n = 3\n  $ f = async {\n    $ i = 0\n    $ t = 100\n    while i < n {\n      t = t + 7\n      i = i + 1\n    }\n    > t\n  }\n  > f", Second: "$ a = 55\n  $ b = 66\n  $ c = 77\n  > a + b + c", Expect: "[121,198]"},
	)
	// a block created in the module's root scope (a constant's initialiser) while the loader keeps defining constants
	ps = append(ps,
		c09Prog{Name: "root-scope/const-initialiser-block", Prelude: "const X = 1\nconst F = async {\n  > X + 1\n}\nconst Y = 2\nconst Z = 3\n", Body: "> await F", Expect: "2"},
		c09Prog{Name: "root-scope/two-const-blocks", Prelude: "const X = 1\nconst F = async {\n  > X + 1\n}\nconst G = async {\n  > X + 2\n}\nconst Y = 2\n", Body: "$ a = await F\n  $ b = await G\n  > a + b", Expect: "5"},
	)
	return ps
}

func (p c09Prog) source() string { return p.Prelude + "@ GET /t {\n  " + p.Body + "\n}\n" }

// ---- running one program under the scheduler ----------------------------------

type c09Obs struct {
	outcome string   // canonical value JSON, or "error: <msg>", or "panic: …"
	blocked []string // threads still blocked at quiescence
}

func c09Canon(v interface{}) string {
	b, err := json.Marshal(v)
	if err != nil {
		return "unencodable: " + err.Error()
	}
	var x interface{}
	d := json.NewDecoder(strings.NewReader(string(b)))
	d.UseNumber()
	if d.Decode(&x) != nil {
		return string(b)
	}
	out, _ := json.Marshal(x)
	return string(out)
}

func c09RunInterp(mod *ast.Module, route *ast.Route, obs *c09Obs) {
	interp := interpreter.NewInterpreter()
	if err := interp.LoadModuleWithPath(*mod, "/nonexistent"); err != nil {
		obs.outcome = "load-error: " + err.Error()
		return
	}
	req := &interpreter.Request{Path: "/t", Method: "GET", Params: map[string]string{}, Headers: map[string]string{}}
	resp, err := interp.ExecuteRoute(route, req)
	if err != nil {
		obs.outcome = "error: " + err.Error()
	} else {
		obs.outcome = c09Canon(resp.Body)
	}
	vrt.WaitIdle()
	obs.blocked = vrt.BlockedThreads()
}

func c09RunVM(code []byte, obs *c09Obs) {
	m := vm.NewVM()
	m.SetMaxSteps(100000)
	m.SetLocal("input", vm.NullValue{})
	m.SetLocal("query", vm.ObjectValue{Val: map[string]vm.Value{}})
	m.SetLocal("headers", vm.ObjectValue{Val: map[string]vm.Value{}})
	result, err := m.Execute(code)
	if err != nil {
		obs.outcome = "error: " + err.Error()
	} else {
		obs.outcome = c09Canon(result)
	}
	vrt.WaitIdle()
	obs.blocked = vrt.BlockedThreads()
}

// c09RunVMReuse: one VM value is used for two executions, as an embedder that pools VMs does (Reset exists for that):
// the first program returns the future of a block it does not await, the VM is reset and runs a second program with
// other constants, and only then is the block's result collected.  The block must still compute with its own program's
// constants and locals.
func c09RunVMReuse(codeA, codeB []byte, obs *c09Obs) {
	m := vm.NewVM()
	m.SetMaxSteps(100000)
	m.SetLocal("input", vm.NullValue{})
	ra, err := m.Execute(codeA)
	if err != nil {
		obs.outcome = "error: " + err.Error()
		return
	}
	fv, ok := ra.(*vm.FutureValue)
	if !ok {
		obs.outcome = fmt.Sprintf("error: first program returned %T, not its future", ra)
		return
	}
	m.Reset()
	m.SetMaxSteps(100000)
	m.SetLocal("input", vm.NullValue{})
	rb, err := m.Execute(codeB)
	if err != nil {
		obs.outcome = "error: second program: " + err.Error()
		return
	}
	vrt.Recv(fv.Done)
	if fv.Error != nil {
		obs.outcome = "error: block: " + fv.Error.Error()
	} else {
		obs.outcome = c09Canon([]interface{}{fv.Result, rb})
	}
	vrt.WaitIdle()
	obs.blocked = vrt.BlockedThreads()
}

func c09Kind(outcome string) string {
	if strings.HasPrefix(outcome, "error: ") {
		return "error"
	}
	return outcome
}

// c09Judge turns one execution into "" or a failure description + key part.
func c09Judge(x *vrt.Exec, obs *c09Obs) (key, desc string) {
	switch x.Outcome.Kind {
	case "ok":
	case "panic":
		first := strings.SplitN(x.Outcome.Detail, "\n", 2)[0]
		return "panic/" + c09PanicKey(x.Outcome.Detail), "panic: " + first
	case "deadlock":
		return "deadlock", "deadlock: " + x.Outcome.Detail
	default:
		return x.Outcome.Kind, x.Outcome.Kind + ": " + x.Outcome.Detail
	}
	if len(x.Races) > 0 {
		return "data-race/" + vrt.RaceKey(x.Races[0]), "data race: " + x.Races[0]
	}
	if len(obs.blocked) > 0 {
		return "blocked-at-quiescence", "threads still blocked when everything else is idle: " + strings.Join(obs.blocked, " ")
	}
	return "", ""
}

// c09PanicKey: message without addresses + innermost repository frame.
func c09PanicKey(detail string) string {
	lines := strings.Split(detail, "\n")
	msg := lines[0]
	if i := strings.Index(msg, ": "); i >= 0 {
		msg = msg[i+2:]
	}
	if i := strings.Index(msg, "0x"); i >= 0 {
		msg = msg[:i]
	}
	fn := ""
	for _, l := range lines[1:] {
		if strings.Contains(l, "github.com/glyphlang/glyph/pkg/") && !strings.Contains(l, "internal/verif") && !strings.HasPrefix(l, "\t") {
			fn = l[strings.Index(l, "/pkg/")+1:]
			if i := strings.LastIndex(fn, "("); i > 0 {
				fn = fn[:i]
			}
			break
		}
	}
	return strings.TrimSpace(msg) + "@" + fn
}

type c09Replay struct {
	Part    string   `json:"part"`
	Prog    *c09Prog `json:"prog,omitempty"`
	Engine  string   `json:"engine,omitempty"`
	Scen    string   `json:"scenario,omitempty"`
	Choices []int    `json:"choices,omitempty"`
	Bound   int      `json:"bound"`
	Atomics bool     `json:"atomic_points"`
}

type c09Compiled struct {
	mod   *ast.Module
	route *ast.Route
	code  []byte
	cerr  error
	codeB []byte // second program of a VM-reuse pair
}

func c09Compile(p c09Prog) (*c09Compiled, error) {
	mod, err := parseSource(p.source())
	if err != nil {
		return nil, err
	}
	c := &c09Compiled{mod: mod}
	for _, it := range mod.Items {
		if r, ok := it.(*ast.Route); ok {
			c.route = r
		}
	}
	if c.route == nil {
		return nil, errors.New("no route")
	}
	c.code, c.cerr = compiler.NewCompilerWithOptLevel(compiler.OptBasic).CompileRoute(c.route)
	if p.Second != "" {
		mod2, err := parseSource("@ GET /t {\n  " + p.Second + "\n}\n")
		if err != nil {
			return nil, err
		}
		for _, it := range mod2.Items {
			if r, ok := it.(*ast.Route); ok {
				if c.codeB, err = compiler.NewCompilerWithOptLevel(compiler.OptBasic).CompileRoute(r); err != nil {
					return nil, err
				}
			}
		}
	}
	return c, nil
}

func c09Body(c *c09Compiled, engine string, obs *c09Obs) func() {
	return func() {
		*obs = c09Obs{}
		if engine == "vm-reuse" {
			c09RunVMReuse(c.code, c.codeB, obs)
		} else if engine == "interp" {
			c09RunInterp(c.mod, c.route, obs)
		} else {
			c09RunVM(c.code, obs)
		}
	}
}

func c09ProgPart(p vk.Params, res *vk.Result, bound int) {
	progs := c09Programs(p.Thorough)
	item := 0
	for _, pr := range progs {
		c, err := c09Compile(pr)
		if err != nil {
			// the generator only emits programs the parser accepts: anything else is an engine error
			panic(fmt.Sprintf("c09: program %s does not parse: %v\n%s", pr.Name, err, pr.source()))
		}
		engines := []string{"interp", "vm"}
		if pr.Second != "" {
			engines = []string{"vm-reuse"}
		}
		for _, engine := range engines {
			item++
			if !p.Mine(item) {
				continue
			}
			if p.Expired() {
				res.Exhaustive = false
				res.Note("budget exhausted before program %s/%s", pr.Name, engine)
				continue
			}
			if engine == "vm" && pr.Prelude != "" {
				continue
			}
			if engine == "vm" && c.cerr != nil {
				res.Count("programs_not_compilable", 1)
				res.Note("program %s is not compiled (%v): interpreter fallback only", pr.Name, c.cerr)
				continue
			}
			pr := pr
			var obs c09Obs
			outcomes := map[string]int{}
			first := map[string][]int{}
			st := vrt.Explore(vrt.Config{MaxPreempt: bound, Races: true, Deadline: p.Deadline, MaxSteps: 50000},
				c09Body(c, engine, &obs),
				func(x *vrt.Exec) bool {
					key, desc := c09Judge(x, &obs)
					if key != "" {
						res.Violate("prog/"+engine+"/"+key, fmt.Sprintf("%s on %s: %s | program: %s | schedule=%s", pr.Name, engine, desc, c09OneLine(pr.source()), vrt.FormatChoices(x.Choices)),
							c09Replay{Part: "prog", Prog: &pr, Engine: engine, Choices: x.Choices, Bound: bound})
						return true
					}
					k := c09Kind(obs.outcome)
					outcomes[k]++
					if _, ok := first[k]; !ok {
						first[k] = append([]int{}, x.Choices...)
					}
					return true
				})
			res.Evaluations += int64(st.Execs)
			res.Transitions += int64(st.Transitions)
			res.States += int64(st.States)
			res.Distinct++
			res.Count("schedules_prog_"+engine, int64(st.Execs))
			res.Sample(10, map[string]any{"program": pr.Name, "engine": engine, "schedules": st.Execs, "max_choice_points": st.MaxPoints, "outcomes": outcomes})
			if !st.Complete {
				res.Exhaustive = false
				res.Note("program %s/%s stopped by %s after %d schedules", pr.Name, engine, st.StoppedBy, st.Execs)
			}
			if pr.Expect == "" {
				res.Count("programs_with_shared_writes(determinism not judged)", 1)
				continue
			}
			// determinism + denotation
			var kinds []string
			for k := range outcomes {
				kinds = append(kinds, k)
			}
			sort.Strings(kinds)
			for _, k := range kinds {
				if k != pr.Expect {
					what := "wrong-result"
					if len(kinds) > 1 {
						what = "schedule-dependent-result"
					}
					res.Violate("prog/"+engine+"/"+what+"/"+c09Family(pr.Name), fmt.Sprintf("%s on %s: denotes %s, observed outcomes over %d schedules: %v | program: %s | schedule of the deviating outcome=%s",
						pr.Name, engine, pr.Expect, st.Execs, outcomes, c09OneLine(pr.source()), vrt.FormatChoices(first[k])),
						c09Replay{Part: "prog", Prog: &pr, Engine: engine, Choices: first[k], Bound: bound})
					break
				}
			}
		}
	}
}

func c09Family(name string) string { return name }

func c09OneLine(s string) string {
	return strings.Join(strings.Fields(strings.ReplaceAll(s, "\n", " ; ")), " ")
}

// ---- Future API scenarios -------------------------------------------------------

type c09Settle struct {
	Kind string `json:"kind"` // resolve | reject | cancel | never
	Val  int    `json:"val"`
}

type c09Scen struct {
	Name     string      `json:"name"`
	Comb     string      `json:"comb"` // "" (plain future) | all | race | any
	Inputs   []c09Settle `json:"inputs"`
	Early    int         `json:"early"`    // number of inputs settled before the combinator is built
	Settles  []c09Settle `json:"settles"`  // plain future: settle operations issued by separate threads
	Awaiters int         `json:"awaiters"` // plain future: concurrent awaiters (a late awaiter is always added)
	Build    string      `json:"build,omitempty"` // combinators: "" = built before the settle threads start, "concurrent" = built by a thread racing them
}

func c09Scens(thorough bool) []c09Scen {
	var out []c09Scen
	// plain future: every multiset of 2 settle operations with one concurrent awaiter (thorough: two
	// concurrent awaiters, and every multiset of 3 settle operations with one), plus a late awaiter
	ops := []c09Settle{{"resolve", 1}, {"resolve", 2}, {"reject", 3}, {"cancel", 0}}
	nm := func(ss ...c09Settle) string {
		var parts []string
		for _, s := range ss {
			parts = append(parts, fmt.Sprintf("%s%d", s.Kind, s.Val))
		}
		return strings.Join(parts, "+")
	}
	for i := range ops {
		for j := i; j < len(ops); j++ {
			out = append(out, c09Scen{Name: "future/" + nm(ops[i], ops[j]) + "/1-awaiter", Settles: []c09Settle{ops[i], ops[j]}, Awaiters: 1})
			if thorough {
				out = append(out, c09Scen{Name: "future/" + nm(ops[i], ops[j]) + "/2-awaiters", Settles: []c09Settle{ops[i], ops[j]}, Awaiters: 2})
				for k := j; k < len(ops); k++ {
					out = append(out, c09Scen{Name: "future/" + nm(ops[i], ops[j], ops[k]) + "/1-awaiter", Settles: []c09Settle{ops[i], ops[j], ops[k]}, Awaiters: 1})
				}
			}
		}
	}
	// combinators: every success/failure(/never) mix over 2 (and 3) inputs; `early` inputs settled first
	kinds := []string{"resolve", "reject"}
	for _, comb := range []string{"all", "race", "any"} {
		maxN := 2
		if thorough || comb != "" {
			maxN = 3
		}
		for n := 2; n <= maxN; n++ {
			alts := kinds
			if comb != "all" {
				alts = []string{"resolve", "reject", "never"}
			}
			total := 1
			for i := 0; i < n; i++ {
				total *= len(alts)
			}
			for code := 0; code < total; code++ {
				ins := make([]c09Settle, n)
				c, nevers := code, 0
				for i := 0; i < n; i++ {
					ins[i] = c09Settle{alts[c%len(alts)], 10 * (i + 1)}
					if ins[i].Kind == "never" {
						nevers++
					}
					c /= len(alts)
				}
				if nevers == n || (n == 3 && nevers > 1) {
					continue
				}
				if n == 3 && !thorough && comb == "race" {
					continue
				}
				for early := 0; early <= 1; early++ {
					name := comb + "/"
					for _, s := range ins {
						name += s.Kind[:3] + "-"
					}
					out = append(out, c09Scen{Name: fmt.Sprintf("%searly%d", name, early), Comb: comb, Inputs: ins, Early: early})
				}
				// the combinator registers with its inputs while they are being settled by other threads
				if n == 2 || thorough {
					name := comb + "/"
					for _, s := range ins {
						name += s.Kind[:3] + "-"
					}
					out = append(out, c09Scen{Name: name + "concurrent-build", Comb: comb, Inputs: ins, Build: "concurrent"})
				}
			}
		}
	}
	return out
}

type c09FutObs struct {
	sc      c09Scen
	results [][2]string // per awaiter: value, error
	states  []string    // state sequence observed by the sampler after each await
	comb    [2]string
	inputs  []*interpreter.Future
	combF   *interpreter.Future
	blocked []string
	fail    string
	clock   int
	start   []int // per input: logical time at which its settle operation was invoked (0 = never)
	end     []int // per input: logical time at which its settle operation returned
	built   int   // logical time at which the combinator constructor returned (0: before any concurrent settle)
}

func c09ErrStr(e error) string {
	if e == nil {
		return ""
	}
	return e.Error()
}

func c09DoSettle(f *interpreter.Future, s c09Settle) {
	switch s.Kind {
	case "resolve":
		f.Resolve(s.Val)
	case "reject":
		f.Reject(fmt.Errorf("e%d", s.Val))
	case "cancel":
		f.Cancel()
	}
}

func c09FutBody(sc c09Scen, o *c09FutObs) func() {
	return func() {
		*o = c09FutObs{sc: sc}
		if sc.Comb == "" {
			f := interpreter.NewFuture()
			o.results = make([][2]string, sc.Awaiters+1)
			var fs []func()
			for _, s := range sc.Settles {
				s := s
				fs = append(fs, func() { c09DoSettle(f, s) })
			}
			for a := 0; a < sc.Awaiters; a++ {
				a := a
				fs = append(fs, func() {
					v, err := f.Await()
					o.results[a] = [2]string{fmt.Sprint(v), c09ErrStr(err)}
				})
			}
			vrt.Parallel(fs...)
			// a late awaiter, after everything has settled
			v, err := f.Await()
			last := sc.Awaiters
			o.results[last] = [2]string{fmt.Sprint(v), c09ErrStr(err)}
			// state after settlement is stable
			s1 := f.State().String()
			c09DoSettle(f, c09Settle{"resolve", 99})
			c09DoSettle(f, c09Settle{"reject", 98})
			f.Cancel()
			s2 := f.State().String()
			v2, err2 := f.Await()
			if s1 != s2 || fmt.Sprint(v2) != o.results[last][0] || c09ErrStr(err2) != o.results[last][1] {
				o.fail = fmt.Sprintf("a settled future changed: state %s -> %s, await %v/%v -> %v/%v", s1, s2, o.results[last][0], o.results[last][1], v2, c09ErrStr(err2))
			}
			vrt.WaitIdle()
			o.blocked = vrt.BlockedThreads()
			return
		}
		n := len(sc.Inputs)
		o.inputs = make([]*interpreter.Future, n)
		for i := range o.inputs {
			o.inputs[i] = interpreter.NewFuture()
		}
		o.start, o.end = make([]int, n), make([]int, n)
		settle := func(i int) {
			o.clock++
			o.start[i] = o.clock
			c09DoSettle(o.inputs[i], sc.Inputs[i])
			o.clock++
			o.end[i] = o.clock
		}
		for i := 0; i < sc.Early && i < n; i++ {
			settle(i)
		}
		build := func() {
			var f *interpreter.Future
			switch sc.Comb {
			case "all":
				f = interpreter.All(o.inputs...)
			case "race":
				f = interpreter.Race(o.inputs...)
			case "any":
				f = interpreter.Any(o.inputs...)
			}
			o.clock++
			o.combF, o.built = f, o.clock
		}
		var fs []func()
		if sc.Build == "concurrent" {
			fs = append(fs, build)
		} else {
			build()
			o.built = 0
		}
		for i := sc.Early; i < n; i++ {
			i := i
			if sc.Inputs[i].Kind == "never" {
				continue
			}
			fs = append(fs, func() { settle(i) })
		}
		vrt.Parallel(fs...)
		vrt.WaitIdle()
		if o.combF.IsPending() {
			o.comb = [2]string{"", "<pending>"}
		} else {
			v, err := o.combF.Await()
			o.comb = [2]string{c09Canon(v), c09ErrStr(err)}
		}
		vrt.WaitIdle()
		o.blocked = vrt.BlockedThreads()
	}
}

// c09FutJudge applies the contracts.
func c09FutJudge(x *vrt.Exec, o *c09FutObs) (key, desc string) {
	k, d := c09Judge(x, &c09Obs{})
	if k != "" {
		return k, d
	}
	sc := o.sc
	if o.fail != "" {
		return "settled-future-changed", o.fail
	}
	if sc.Comb == "" {
		// every awaiter observes the same outcome, which is the outcome of one of the settle operations
		for a := 1; a < len(o.results); a++ {
			if o.results[a] != o.results[0] {
				return "awaiters-disagree", fmt.Sprintf("awaiters observed %v", o.results)
			}
		}
		ok := false
		for _, s := range sc.Settles {
			switch s.Kind {
			case "resolve":
				ok = ok || o.results[0] == [2]string{fmt.Sprint(s.Val), ""}
			case "reject":
				ok = ok || o.results[0] == [2]string{"<nil>", fmt.Sprintf("e%d", s.Val)}
			case "cancel":
				ok = ok || (o.results[0][0] == "<nil>" && strings.Contains(o.results[0][1], "cancel"))
			}
		}
		if !ok {
			return "outcome-of-no-settle-operation", fmt.Sprintf("awaiters observed %v, which none of %v produces", o.results[0], sc.Settles)
		}
		if len(o.blocked) > 0 {
			return "blocked-at-quiescence", strings.Join(o.blocked, " ")
		}
		return "", ""
	}
	var vals []string
	var errs []string
	nevers := 0
	for _, s := range sc.Inputs {
		switch s.Kind {
		case "resolve":
			vals = append(vals, fmt.Sprint(s.Val))
		case "reject":
			errs = append(errs, fmt.Sprintf("e%d", s.Val))
		default:
			nevers++
		}
	}
	got := o.comb
	isVal := func(v string) bool { return got[1] == "" && got[0] == v }
	isInputErr := func() bool {
		for _, e := range errs {
			if got[1] == e {
				return true
			}
		}
		return false
	}
	switch sc.Comb {
	case "all":
		if len(errs) == 0 {
			want := "[" + strings.Join(vals, ",") + "]"
			if !isVal(want) {
				return "all/not-values-in-order", fmt.Sprintf("All over inputs %v gave %v, want %s", sc.Inputs, got, want)
			}
		} else if !isInputErr() {
			return "all/not-error-of-a-rejected-input", fmt.Sprintf("All over inputs %v gave %v, want one of the errors %v", sc.Inputs, got, errs)
		}
	case "race":
		// the outcome of an input that settled; the unique one when only one ever settles
		ok := isInputErr()
		for _, v := range vals {
			ok = ok || isVal(v)
		}
		if !ok {
			return "race/not-outcome-of-a-settled-input", fmt.Sprintf("Race over inputs %v gave %v", sc.Inputs, got)
		}
		// first-settled: the winner's settle operation must not have been invoked after another
		// input's settle operation had already returned
		for w, sw := range sc.Inputs {
			if !(sw.Kind == "resolve" && isVal(fmt.Sprint(sw.Val))) && !(sw.Kind == "reject" && got[1] == fmt.Sprintf("e%d", sw.Val)) {
				continue
			}
			for i, si := range sc.Inputs {
				if i != w && si.Kind != "never" && o.end[i] != 0 && o.end[i] < o.start[w] && o.start[w] > o.built {
					return "race/not-first-settled", fmt.Sprintf("Race over inputs %v gave %v, the outcome of input %d, although input %d had settled (t=%d) before input %d's settle operation was even invoked (t=%d)",
						sc.Inputs, got, w, i, o.end[i], w, o.start[w])
				}
			}
		}
	case "any":
		if len(vals) > 0 {
			ok := false
			for _, v := range vals {
				ok = ok || isVal(v)
			}
			if !ok {
				return "any/success-exists-but-not-returned", fmt.Sprintf("Any over inputs %v gave %v", sc.Inputs, got)
			}
			// first-success: the winning success must not have been produced after another success had completed
			for w, sw := range sc.Inputs {
				if sw.Kind != "resolve" || !isVal(fmt.Sprint(sw.Val)) {
					continue
				}
				for i, si := range sc.Inputs {
					if i != w && si.Kind == "resolve" && o.end[i] != 0 && o.end[i] < o.start[w] && o.start[w] > o.built {
						return "any/not-first-success", fmt.Sprintf("Any over inputs %v gave %v, the value of input %d, although input %d had succeeded (t=%d) before input %d's resolve was even invoked (t=%d)",
							sc.Inputs, got, w, i, o.end[i], w, o.start[w])
					}
				}
			}
		} else if nevers == 0 {
			if got[1] == "" || got[1] == "<pending>" {
				return "any/all-rejected-but-no-error", fmt.Sprintf("Any over inputs %v gave %v", sc.Inputs, got)
			}
			for _, e := range errs {
				if !strings.Contains(got[1], e) {
					return "any/aggregate-error-incomplete", fmt.Sprintf("Any over all-rejected inputs %v gave error %q, which does not mention %s", sc.Inputs, got[1], e)
				}
			}
		} else if got[1] != "<pending>" {
			return "any/settled-without-success-while-an-input-is-pending", fmt.Sprintf("Any over inputs %v gave %v", sc.Inputs, got)
		}
	}
	// an input's own outcome is what its settle operation said, unless the combinator cancelled it while pending
	for i, s := range sc.Inputs {
		f := o.inputs[i]
		switch s.Kind {
		case "resolve":
			if !(f.IsResolved() && fmt.Sprint(f.Value()) == fmt.Sprint(s.Val)) && !(f.IsRejected() && strings.Contains(c09ErrStr(f.Error()), "cancel")) {
				return "input-outcome-changed", fmt.Sprintf("input %d of %s settled with resolve(%d) is now %s %v %v", i, sc.Name, s.Val, f.State(), f.Value(), f.Error())
			}
		case "reject":
			if !(f.IsRejected() && (c09ErrStr(f.Error()) == fmt.Sprintf("e%d", s.Val) || strings.Contains(c09ErrStr(f.Error()), "cancel"))) {
				return "input-outcome-changed", fmt.Sprintf("input %d of %s settled with reject(e%d) is now %s %v %v", i, sc.Name, s.Val, f.State(), f.Value(), f.Error())
			}
		}
	}
	// at quiescence nothing the combinator spawned is still blocked unless an input never settles
	if len(o.blocked) > 0 {
		stillPending := false
		for _, f := range o.inputs {
			stillPending = stillPending || f.IsPending()
		}
		if !stillPending {
			return "blocked-at-quiescence/" + sc.Comb, fmt.Sprintf("%s: all inputs are settled but threads are still blocked: %s", sc.Name, strings.Join(o.blocked, " "))
		}
	}
	return "", ""
}

func c09ScenBound(sc c09Scen) int {
	n := len(sc.Inputs)
	if sc.Build == "concurrent" { // builder + n settlers (+ the combinator's own helper thread)
		if n > 2 {
			return 0
		}
		return 2
	}
	switch sc.Comb {
	case "":
		if len(sc.Settles)+sc.Awaiters > 3 {
			return 1
		}
		return 2
	case "all": // 1 thread + n settlers
		if n > 2 {
			return 1
		}
		return 2
	case "any": // n threads + n settlers
		if n > 2 {
			return 0
		}
		return 1
	default: // race: n+1 threads + n settlers (three-input scenarios are generated in the thorough tier only, bound 0)
		if n > 2 {
			return -1
		}
		return 0
	}
}

func c09FuturePart(p vk.Params, res *vk.Result, bound int) {
	for si, sc := range c09Scens(p.Thorough) {
		if !p.Mine(si) {
			continue
		}
		if p.Expired() {
			res.Exhaustive = false
			res.Note("budget exhausted before scenario %s", sc.Name)
			continue
		}
		sc := sc
		var o c09FutObs
		outcomes := vk.DistinctSet{}
		// preemption bound per scenario by the number of threads it runs (every order in which threads
		// finish or block is explored at any bound: switching away from a blocked or finished thread is
		// free); thorough adds one preemption everywhere
		b := c09ScenBound(sc)
		if p.Thorough {
			b++
		}
		st := vrt.Explore(vrt.Config{MaxPreempt: b, Races: true, Deadline: p.Deadline, MaxSteps: 20000},
			c09FutBody(sc, &o),
			func(x *vrt.Exec) bool {
				key, desc := c09FutJudge(x, &o)
				if sc.Comb == "" {
					outcomes.Add(fmt.Sprint(o.results))
				} else {
					outcomes.Add(fmt.Sprint(o.comb))
				}
				if key != "" {
					res.Violate("future/"+key, fmt.Sprintf("%s: %s | schedule=%s", sc.Name, desc, vrt.FormatChoices(x.Choices)),
						c09Replay{Part: "future", Scen: sc.Name, Choices: x.Choices, Bound: b, Atomics: true})
				}
				return true
			})
		res.Evaluations += int64(st.Execs)
		res.Transitions += int64(st.Transitions)
		res.States += int64(st.States)
		res.Distinct += outcomes.Len()
		res.Count("schedules_future", int64(st.Execs))
		if os.Getenv("C09_DEBUG") != "" {
			res.Count("sched/"+sc.Name, int64(st.Execs))
		}
		res.Sample(12, map[string]any{"scenario": sc.Name, "schedules": st.Execs, "distinct_outcomes": outcomes.Len()})
		if !st.Complete {
			res.Exhaustive = false
			res.Note("scenario %s stopped by %s after %d schedules", sc.Name, st.StoppedBy, st.Execs)
		}
	}
}

// ---- entry point ------------------------------------------------------------------

func TestVerif_C09(t *testing.T) {
	c09Quiet()
	p := vk.Env()
	res := vk.NewResult("one evaluation = one complete schedule (choice sequence at lock/channel/select/spawn points) of one program on one engine, or of one Future/combinator scenario; distinct = programs x engines plus distinct observed outcome vectors per scenario")
	bound := 2
	if p.Thorough {
		bound = 3
	}
	if p.Replay != "" {
		var rp c09Replay
		if err := vk.LoadReplay(p.Replay, &rp); err != nil {
			t.Fatal(err)
		}
		ok := c09DoReplay(rp, res)
		res.Replayed = &ok
		res.Write(p)
		return
	}
	c09ProgPart(p, res, bound)
	c09FuturePart(p, res, bound)
	res.Bounds["max_preemptions"] = bound
	res.Bounds["programs"] = len(c09Programs(p.Thorough))
	res.Bounds["future_scenarios"] = len(c09Scens(p.Thorough))
	res.Write(p)
}

func c09DoReplay(rp c09Replay, res *vk.Result) bool {
	if rp.Part == "prog" {
		c, err := c09Compile(*rp.Prog)
		if err != nil {
			return false
		}
		var obs c09Obs
		var firstKey string
		for i := 0; i < 2; i++ {
			x := vrt.RunOnce(vrt.Config{Races: true, Trace: i == 0, MaxSteps: 50000}, rp.Choices, c09Body(c, rp.Engine, &obs))
			key, desc := c09Judge(x, &obs)
			if key == "" && rp.Prog.Expect != "" && c09Kind(obs.outcome) != rp.Prog.Expect {
				key, desc = "result", fmt.Sprintf("denotes %s, observed %s", rp.Prog.Expect, obs.outcome)
			}
			if i == 0 {
				firstKey = key
				fmt.Printf("replay %s/%s %v\n%s\n-> %s %s (outcome %s)\n", rp.Prog.Name, rp.Engine, rp.Choices, strings.Join(x.Trace, "\n"), key, desc, obs.outcome)
				if key != "" {
					res.Violate("prog/"+rp.Engine+"/"+key, desc, rp)
				}
			} else if key != firstKey {
				return false
			}
		}
		return firstKey != ""
	}
	for _, sc := range c09Scens(true) {
		if sc.Name != rp.Scen {
			continue
		}
		var o c09FutObs
		var firstKey string
		for i := 0; i < 2; i++ {
			x := vrt.RunOnce(vrt.Config{Races: true, Trace: i == 0, MaxSteps: 20000}, rp.Choices, c09FutBody(sc, &o))
			key, desc := c09FutJudge(x, &o)
			if i == 0 {
				firstKey = key
				fmt.Printf("replay %s %v\n%s\n-> %s %s\n", sc.Name, rp.Choices, strings.Join(x.Trace, "\n"), key, desc)
				if key != "" {
					res.Violate("future/"+key, desc, rp)
				}
			} else if key != firstKey {
				return false
			}
		}
		return firstKey != ""
	}
	return false
}

func c09Quiet() {}
