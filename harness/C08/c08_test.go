package main

// Verification harness for C08 (concurrent requests do not interfere).
//
// cmd/glyph, pkg/interpreter, pkg/vm, pkg/database, pkg/redis, pkg/mongodb and
// pkg/server are fully instrumented.  For every scenario the server is
// assembled exactly as startServer does (setupRoutes + createHandler +
// loggingMiddleware) on ONE long-lived interpreter / compiled route set, and
// 2-3 request threads call the handler concurrently under the controlled
// scheduler; every interleaving with at most N preemptions - scheduling points
// at every lock, atomic (two per evaluated expression), channel and spawn
// operation - is executed.
//
// Oracle: the vector of responses (each thread's, plus probe requests issued
// after all threads have finished) must be one that some sequential order of
// the requests produces on a fresh server (for requests that share nothing
// all orders give the same vector: the response is the one the request gets
// when it is alone); no panic, no deadlock, no data race.

import (
	"fmt"
	"net/http"
	"net/http/httptest"
	"os"
	"sort"
	"strings"
	"testing"
	"time"

	"github.com/glyphlang/glyph/internal/verif/vk"
	"github.com/glyphlang/glyph/internal/verif/vrt"
	"github.com/glyphlang/glyph/pkg/ast"
)

type c08Req struct {
	M    string `json:"m"`
	Path string `json:"path"`
	Body string `json:"body,omitempty"`
	Auth string `json:"auth,omitempty"` // Authorization header
}

func (r c08Req) String() string {
	if r.Body != "" {
		return r.M + " " + r.Path + " " + r.Body
	}
	return r.M + " " + r.Path
}

type c08Scen struct {
	Name    string     `json:"name"`
	Src     string     `json:"src"`
	Setup   []c08Req   `json:"setup,omitempty"`
	Threads [][]c08Req `json:"threads"`
	After   []c08Req   `json:"after,omitempty"`
	// SafetyOnly: the requests perform several provider operations each, so
	// their interleaving at operation granularity is legitimate; only panic,
	// deadlock, data race and non-2xx answers are judged.
	SafetyOnly bool `json:"safety_only,omitempty"`
	// Solo: the requests touch no shared provider, so "the response it would get if it were the only request in
	// flight" is taken literally: every request must be answered exactly as on a fresh server on which nothing but the
	// setup has run — also when the requests simply follow each other (state kept between requests is interference too).
	Solo bool `json:"solo,omitempty"`
	// RowsAsStored: a row read back must be what create() was given (and returned): no field the creating request
	// assigned to its own object afterwards may appear in it
	RowsAsStored bool `json:"rows_as_stored,omitempty"`
	// seqMismatch (Solo scenarios): set by c08Prepare when already a sequential order of the requests on one server
	// answers differently from the solo answers
	seqMismatch string
	Bound       int `json:"bound"` // preemption bound in the quick tier (thorough: +1)
}

const c08Secret = "c08-secret"

func get(p string) c08Req        { return c08Req{M: "GET", Path: p} }
func post(p, body string) c08Req { return c08Req{M: "POST", Path: p, Body: body} }

func c08Scens(thorough bool) []c08Scen {
	var out []c08Scen
	// H1: pure routes on different data
	pure := `
@ GET /sum/:n {
  $ k = parseInt(n)
  $ i = 0
  $ s = 0
  while i < k {
    s = s + i
    i = i + 1
  }
  > {n: k, sum: s}
}
@ GET /obj/:a {
  $ o = {name: a, tags: [a, a + "!"]}
  $ o.extra = length(o.tags)
  > o
}
@ POST /echo {
  $ x = input.v
  $ y = x * 2
  > {v: x, twice: y}
}
`
	out = append(out,
		c08Scen{Name: "pure/two-routes", Src: pure, Threads: [][]c08Req{{get("/sum/3")}, {get("/obj/q")}}, Bound: 2},
		c08Scen{Name: "pure/same-route-different-params", Src: pure, Threads: [][]c08Req{{get("/sum/3")}, {get("/sum/2")}}, Bound: 2},
		c08Scen{Name: "pure/bodies", Src: pure, Threads: [][]c08Req{{post("/echo", `{"v":2}`)}, {post("/echo", `{"v":5}`)}}, Bound: 2},
		c08Scen{Name: "pure/three-requests", Src: pure, Threads: [][]c08Req{{get("/sum/2")}, {get("/obj/q")}, {post("/echo", `{"v":5}`)}}, Bound: 1},
	)
	// H2: user functions, recursion (the depth is chosen by the harness: each request alone is below the limit)
	funcs := `
! down(n: int): int {
  if n <= 0 {
    > 0
  }
  > 1 + down(n - 1)
}
! twice(x: int): int {
  $ t = x * 2
  > t
}
@ GET /down/:n {
  > {r: down(parseInt(n))}
}
@ GET /twice/:n {
  $ t = 100
  > {r: twice(parseInt(n)), t: t}
}
`
	out = append(out,
		c08Scen{Name: "functions/two-calls", Src: funcs, Threads: [][]c08Req{{get("/twice/3")}, {get("/twice/4")}}, Bound: 2},
	)
	// H2b: two evaluations that are each well below the evaluation-depth limit (500 nested expression evaluations) but
	// exceed it together: a chain of 280 negations costs one evaluation level and two scheduling points per link, so
	// every schedule with one preemption is affordable in the quick tier. The same through user-function recursion
	// (thousands of scheduling points per request) runs in the thorough tier only.
	deep := "@ GET /deep/:n {\n  $ b = n == \"1\"\n  > {r: " + strings.Repeat("!", 280) + "b}\n}\n"
	out = append(out, c08Scen{Name: "functions/deep-expression-half-depth-each", Src: deep, Threads: [][]c08Req{{get("/deep/1")}, {get("/deep/0")}}, Bound: 1})
	if thorough {
		out = append(out, c08Scen{Name: "functions/recursion-half-depth-each", Src: funcs, Threads: [][]c08Req{{get("/down/DEPTH")}, {get("/down/DEPTH")}}, Bound: 1})
	}
	// H3: generic function with different type arguments
	generic := `
! ident<T>(x: T): T {
  > x
}
! pair<T, U>(a: T, b: U): object {
  > {first: a, second: b}
}
@ GET /gi/:n {
  > {r: ident(parseInt(n))}
}
@ GET /gs/:s {
  > {r: ident(s)}
}
@ GET /gp/:s {
  > pair(s, 1)
}
`
	out = append(out,
		c08Scen{Name: "generics/different-type-arguments", Src: generic, Threads: [][]c08Req{{get("/gi/3")}, {get("/gs/x")}}, Bound: 2},
		c08Scen{Name: "generics/two-functions", Src: generic, Threads: [][]c08Req{{get("/gp/x")}, {get("/gi/4")}}, Bound: 2},
	)
	// H3b: a generic function whose body passes its own type parameter on to another generic function: the inner call
	// resolves T through the type checker's scope table, which all requests share
	nested := `
! inner<U>(y: U): U {
  > y
}
! outer<T>(x: T): T {
  > inner<T>(x)
}
@ GET /ni/:n {
  > {r: outer(parseInt(n))}
}
@ GET /ns/:s {
  > {r: outer(s)}
}
`
	out = append(out, c08Scen{Name: "generics/nested-type-parameter", Src: nested, Threads: [][]c08Req{{get("/ni/3")}, {get("/ns/x")}}, Bound: 2})
	// H7: a route that declares a name which is a module constant, racing a reader
	consts := `
const LIMIT = 10
@ GET /shadow {
  $ LIMIT = 2
  > {v: LIMIT}
}
@ GET /read {
  > {v: LIMIT}
}
`
	out = append(out, c08Scen{Name: "constants/route-declares-constant-name", Src: consts, Threads: [][]c08Req{{get("/shadow")}, {get("/read")}}, After: []c08Req{get("/read")}, Bound: 2})
	// H8: the `auth` object a route with an auth declaration sees is per request: one request editing it must not be
	// visible to another (GLYPH_JWT_SECRET is set by the harness; both requests carry the configured token)
	authSrc := `
@ GET /promote {
  + auth(jwt)
  $ auth.user.role = "admin"
  > {role: auth.user.role}
}
@ GET /me {
  + auth(jwt)
  > {user: auth.user}
}
`
	tok := "Bearer " + c08Secret
	out = append(out, c08Scen{Name: "auth/route-edits-its-auth-object", Src: authSrc,
		Threads: [][]c08Req{{{M: "GET", Path: "/promote", Auth: tok}}, {{M: "GET", Path: "/me", Auth: tok}}}, After: []c08Req{{M: "GET", Path: "/me", Auth: tok}}, Bound: 2})
	// H9: a request refused by a limit leaves nothing behind: afterwards a request just inside the limit is answered
	// as on a fresh server (the evaluation-depth counter is shared by all requests of an interpreter)
	limits := `
! down(n: int): int {
  if n <= 0 {
    > 0
  }
  > 1 + down(n - 1)
}
@ GET /down/:n {
  > {r: down(parseInt(n))}
}
`
	out = append(out, c08Scen{Name: "limits/refused-evaluation-then-one-just-inside-the-limit", Src: limits,
		Threads: [][]c08Req{{get("/down/TOODEEP"), get("/down/TOODEEP"), get("/down/TOODEEP"), get("/down/MAXOK")}}, After: []c08Req{get("/down/MAXOK")}, Bound: 0})
	// H5: redis provider, single operations
	redis := `
@ POST /incr/:k {
  % redis: Redis
  > {v: redis.incr(k)}
}
@ POST /push/:k/:v {
  % redis: Redis
  > {n: redis.rpush(k, v)}
}
@ POST /pop/:k {
  % redis: Redis
  > {v: redis.lpop(k)}
}
@ POST /hset/:k/:f/:v {
  % redis: Redis
  > {r: redis.hset(k, f, v)}
}
@ GET /get/:k {
  % redis: Redis
  > {v: redis.get(k)}
}
@ GET /range/:k {
  % redis: Redis
  > {v: redis.lrange(k, 0, 10)}
}
@ GET /hall/:k {
  % redis: Redis
  > {v: redis.hgetall(k)}
}
@ POST /set/:k/:v {
  % redis: Redis
  > {r: redis.set(k, v)}
}
@ POST /setex/:k/:v {
  % redis: Redis
  > {r: redis.set(k, v, 1)}
}
@ GET /exists/:k {
  % redis: Redis
  > {v: redis.exists(k)}
}
`
	out = append(out,
		c08Scen{Name: "redis/incr-incr", Src: redis, Threads: [][]c08Req{{post("/incr/c", "")}, {post("/incr/c", "")}}, After: []c08Req{get("/get/c")}, Bound: 2},
		c08Scen{Name: "redis/push-push", Src: redis, Threads: [][]c08Req{{post("/push/l/a", "")}, {post("/push/l/b", "")}}, After: []c08Req{get("/range/l")}, Bound: 2},
		c08Scen{Name: "redis/push-pop", Src: redis, Setup: []c08Req{post("/push/l/z", "")}, Threads: [][]c08Req{{post("/push/l/a", "")}, {post("/pop/l", "")}}, After: []c08Req{get("/range/l")}, Bound: 2},
		c08Scen{Name: "redis/hset-hset", Src: redis, Threads: [][]c08Req{{post("/hset/h/f/1", "")}, {post("/hset/h/g/2", "")}}, After: []c08Req{get("/hall/h")}, Bound: 2},
		c08Scen{Name: "redis/set-get", Src: redis, Threads: [][]c08Req{{post("/set/k/1", "")}, {get("/get/k")}}, After: []c08Req{get("/get/k")}, Bound: 2},
		c08Scen{Name: "redis/incr-on-different-keys", Src: redis, Threads: [][]c08Req{{post("/incr/a", "")}, {post("/incr/b", "")}}, After: []c08Req{get("/get/a"), get("/get/b")}, Bound: 2},
	)
	// H4: database provider
	db := `
@ POST /users {
  % db: Database
  > db.users.create({name: input.name, count: 0})
}
@ GET /users/:id {
  % db: Database
  > db.users.get(parseInt(id))
}
@ GET /count {
  % db: Database
  > {n: db.users.count()}
}
@ POST /bump/:id {
  % db: Database
  $ u = db.users.get(parseInt(id))
  $ u.count = u.count + 1
  $ saved = db.users.update(parseInt(id), u)
  > {ok: true}
}
@ GET /peek/:id {
  % db: Database
  $ u = db.users.get(parseInt(id))
  > {name: u.name}
}
@ POST /mk {
  % db: Database
  $ u = {name: input.name, count: 0}
  $ r = db.users.create(u)
  $ u.count = 7
  $ u.scratch = "local"
  > {created: r}
}
@ GET /row/:id {
  % db: Database
  > {row: db.users.get(parseInt(id))}
}
`
	out = append(out,
		c08Scen{Name: "db/create-create", Src: db, Threads: [][]c08Req{{post("/users", `{"name":"a"}`)}, {post("/users", `{"name":"b"}`)}}, After: []c08Req{get("/count")}, Bound: 2},
		c08Scen{Name: "db/create-count", Src: db, Setup: []c08Req{post("/users", `{"name":"z"}`)}, Threads: [][]c08Req{{post("/users", `{"name":"a"}`)}, {get("/count")}}, After: []c08Req{get("/count")}, Bound: 2},
		c08Scen{Name: "db/read-modify-write-same-record", Src: db, Setup: []c08Req{post("/users", `{"name":"z"}`)}, Threads: [][]c08Req{{post("/bump/1", "")}, {post("/bump/1", "")}}, SafetyOnly: true, Bound: 2},
		c08Scen{Name: "db/modify-vs-read-same-record", Src: db, Setup: []c08Req{post("/users", `{"name":"z"}`)}, Threads: [][]c08Req{{post("/bump/1", "")}, {get("/peek/1")}}, SafetyOnly: true, Bound: 2},
		// the object a request handed to create() stays the request's own: what it does to it afterwards is not a provider operation
		c08Scen{Name: "db/creator-edits-its-object-after-create", Src: db, Setup: []c08Req{post("/users", `{"name":"z"}`)}, Threads: [][]c08Req{{post("/mk", `{"name":"a"}`)}, {get("/row/2")}, {get("/count")}}, After: []c08Req{get("/row/2")}, Bound: 2, RowsAsStored: true},
		// a key whose ttl has run out, read by two requests at once (lazy expiry must not write under a shared lock)
		c08Scen{Name: "redis/two-reads-of-an-expired-key", Src: redis, Setup: []c08Req{post("/setex/k/1", ""), {M: "ADVANCE", Path: "2s"}}, Threads: [][]c08Req{{get("/get/k")}, {get("/get/k"), get("/exists/k")}}, After: []c08Req{get("/get/k")}, Bound: 2},
	)
	// H5b: mongodb provider; a collection springs into being with its first use, so two requests that are both the
	// first to name it must end up in the same one
	mongo := `
@ POST /ins/:c {
  % mongo: MongoDB
  $ col = mongo.Collection(c)
  $ r = col.InsertOne({v: input.v})
  > {id: r}
}
@ GET /cnt/:c {
  % mongo: MongoDB
  $ col = mongo.Collection(c)
  $ r = col.CountDocuments({})
  > {n: r}
}
@ GET /find/:c {
  % mongo: MongoDB
  $ col = mongo.Collection(c)
  $ r = col.Find({})
  > {rows: r}
}
@ POST /del/:c {
  % mongo: MongoDB
  $ col = mongo.Collection(c)
  $ r = col.DeleteMany({v: input.v})
  > {n: r}
}
`
	out = append(out,
		c08Scen{Name: "mongo/two-first-inserts-into-a-new-collection", Src: mongo, Threads: [][]c08Req{{post("/ins/orders", `{"v":1}`)}, {post("/ins/orders", `{"v":2}`)}}, After: []c08Req{get("/cnt/orders"), get("/find/orders")}, Bound: 2},
		c08Scen{Name: "mongo/first-insert-and-first-count", Src: mongo, Threads: [][]c08Req{{post("/ins/orders", `{"v":1}`)}, {get("/cnt/orders")}}, After: []c08Req{get("/cnt/orders")}, Bound: 2},
		c08Scen{Name: "mongo/insert-delete-existing-collection", Src: mongo, Setup: []c08Req{post("/ins/orders", `{"v":1}`)}, Threads: [][]c08Req{{post("/ins/orders", `{"v":1}`)}, {post("/del/orders", `{"v":1}`)}}, After: []c08Req{get("/cnt/orders")}, Bound: 2},
	)
	if thorough {
		out = append(out,
			c08Scen{Name: "redis/three-incr", Src: redis, Threads: [][]c08Req{{post("/incr/c", "")}, {post("/incr/c", "")}, {post("/incr/c", "")}}, After: []c08Req{get("/get/c")}, Bound: 1},
			c08Scen{Name: "pure/two-requests-each", Src: pure, Threads: [][]c08Req{{get("/sum/2"), get("/obj/a")}, {get("/obj/b"), get("/sum/3")}}, Bound: 1},
		)
	}
	for i := range out {
		switch c08Family(out[i].Name) {
		case "pure", "functions", "generics", "constants", "auth", "limits":
			out[i].Solo = true
		}
	}
	return out
}

// ---- the system ---------------------------------------------------------------

type c08Sys struct {
	h    http.Handler
	stop func()
}

func c08Build(mod *ast.Module, mode string) (*c08Sys, error) {
	s := &c08Sys{stop: func() {}}
	useCompiler, _, wsServer, router, err := setupRoutes(mod, "/nonexistent/c08.glyph", mode == "interpreted")
	if wsServer != nil {
		s.stop = func() { wsServer.Shutdown() }
	}
	if err != nil {
		s.stop()
		return nil, err
	}
	if useCompiler != (mode == "compiled") {
		s.stop()
		return nil, fmt.Errorf("mode is not %s", mode)
	}
	mux := http.NewServeMux()
	mux.HandleFunc("/", createHandler(router))
	s.h = loggingMiddleware(mux)
	return s, nil
}

func (s *c08Sys) do(r c08Req) string {
	if r.M == "ADVANCE" {
		// not a request: virtual time passes (setup only), e.g. so that a key stored with a ttl has expired
		d, err := time.ParseDuration(r.Path)
		if err != nil {
			panic(err)
		}
		vrt.Advance(d)
		return "advanced " + r.Path
	}
	var body *strings.Reader
	if r.Body != "" {
		body = strings.NewReader(r.Body)
	} else {
		body = strings.NewReader("")
	}
	req := httptest.NewRequest(r.M, r.Path, body)
	if r.Body != "" {
		req.Header.Set("Content-Type", "application/json")
	}
	req.RemoteAddr = "10.0.0.1:1234"
	if r.Auth != "" {
		req.Header.Set("Authorization", r.Auth)
	}
	rec := httptest.NewRecorder()
	s.h.ServeHTTP(rec, req)
	return fmt.Sprintf("%d %s", rec.Code, strings.TrimSpace(rec.Body.String()))
}

// c08Sequential runs the requests in the given global order on a fresh system.
func c08Sequential(mod *ast.Module, mode string, sc c08Scen, order []int) (flat []string, err error) {
	// inside a controlled execution (default schedule): goroutines the server starts (cleanup tickers of the auth
	// and rate-limit middlewares, the websocket hub) belong to that execution and end with it, instead of waking up
	// inside a later explored execution
	x := vrt.RunOnce(vrt.Config{MaxSteps: 2000000}, nil, func() { flat, err = c08SequentialIn(mod, mode, sc, order) })
	if err == nil && x.Outcome.Kind != "ok" {
		err = fmt.Errorf("sequential baseline ended with %s: %s", x.Outcome.Kind, strings.SplitN(x.Outcome.Detail, "\n", 2)[0])
	}
	return flat, err
}

func c08SequentialIn(mod *ast.Module, mode string, sc c08Scen, order []int) ([]string, error) {
	s, err := c08Build(mod, mode)
	if err != nil {
		return nil, err
	}
	defer s.stop()
	for _, r := range sc.Setup {
		s.do(r)
	}
	next := make([]int, len(sc.Threads))
	res := make([][]string, len(sc.Threads))
	for _, t := range order {
		res[t] = append(res[t], s.do(sc.Threads[t][next[t]]))
		next[t]++
	}
	var flat []string
	for _, r := range res {
		flat = append(flat, r...)
	}
	for _, r := range sc.After {
		flat = append(flat, s.do(r))
	}
	return flat, nil
}

// c08SoloVector: every request of the scenario answered on its own fresh system (after the setup requests).
// The requests are answered in the given direction (reverse: last request first) — a request's answer on a FRESH
// server must not depend on what other servers of the same process did before (package-level state).
func c08SoloVector(mod *ast.Module, mode string, sc c08Scen, reverse bool) ([]string, error) {
	var reqs []c08Req
	for _, th := range sc.Threads {
		reqs = append(reqs, th...)
	}
	reqs = append(reqs, sc.After...)
	flat := make([]string, len(reqs))
	for k := range reqs {
		idx := k
		if reverse {
			idx = len(reqs) - 1 - k
		}
		r := reqs[idx]
		var err error
		x := vrt.RunOnce(vrt.Config{MaxSteps: 2000000}, nil, func() {
			s, berr := c08Build(mod, mode)
			if berr != nil {
				err = berr
				return
			}
			defer s.stop()
			for _, q := range sc.Setup {
				s.do(q)
			}
			flat[idx] = s.do(r)
		})
		if err == nil && x.Outcome.Kind != "ok" {
			err = fmt.Errorf("solo baseline ended with %s: %s", x.Outcome.Kind, strings.SplitN(x.Outcome.Detail, "\n", 2)[0])
		}
		if err != nil {
			return nil, err
		}
	}
	return flat, nil
}

func c08Orders(counts []int) [][]int {
	var out [][]int
	var rec func(cur []int, left []int)
	rec = func(cur []int, left []int) {
		done := true
		for t, n := range left {
			if n > 0 {
				done = false
				l2 := append([]int{}, left...)
				l2[t]--
				rec(append(append([]int{}, cur...), t), l2)
			}
		}
		if done {
			out = append(out, cur)
		}
	}
	rec(nil, counts)
	return out
}

type c08Obs struct {
	flat []string
	err  string
}

func c08Body(mod *ast.Module, mode string, sc c08Scen, o *c08Obs) func() {
	return func() {
		*o = c08Obs{}
		s, err := c08Build(mod, mode)
		if err != nil {
			o.err = err.Error()
			return
		}
		for _, r := range sc.Setup {
			s.do(r)
		}
		res := make([][]string, len(sc.Threads))
		var fs []func()
		for t := range sc.Threads {
			t := t
			fs = append(fs, func() {
				for _, r := range sc.Threads[t] {
					res[t] = append(res[t], s.do(r))
				}
			})
		}
		vrt.Parallel(fs...)
		for _, r := range res {
			o.flat = append(o.flat, r...)
		}
		for _, r := range sc.After {
			o.flat = append(o.flat, s.do(r))
		}
		s.stop()
	}
}

func c08PanicKey(detail string) string {
	lines := strings.Split(detail, "\n")
	msg := lines[0]
	if i := strings.Index(msg, ": "); i >= 0 {
		msg = msg[i+2:]
	}
	if i := strings.Index(msg, "0x"); i >= 0 {
		msg = msg[:i]
	}
	fn := ""
	for _, l := range lines[1:] {
		if strings.Contains(l, "github.com/glyphlang/glyph/") && !strings.Contains(l, "internal/verif") && !strings.Contains(l, "zz_verif") && !strings.HasPrefix(l, "\t") {
			fn = l[strings.Index(l, "glyphlang/glyph/")+len("glyphlang/glyph/"):]
			if i := strings.LastIndex(fn, "("); i > 0 {
				fn = fn[:i]
			}
			break
		}
	}
	return strings.TrimSpace(msg) + "@" + fn
}

func c08Judge(x *vrt.Exec, o *c08Obs, sc c08Scen, allowed map[string]bool) (key, desc string) {
	switch x.Outcome.Kind {
	case "ok":
	case "panic":
		return "panic/" + c08PanicKey(x.Outcome.Detail), "panic: " + strings.SplitN(x.Outcome.Detail, "\n", 2)[0]
	case "deadlock":
		return "deadlock", "deadlock: " + x.Outcome.Detail
	default:
		return x.Outcome.Kind, x.Outcome.Kind + ": " + x.Outcome.Detail
	}
	if o.err != "" {
		return "build-error", o.err
	}
	if len(x.Races) > 0 {
		return "data-race/" + vrt.RaceKey(x.Races[0]), "data race: " + x.Races[0]
	}
	if sc.RowsAsStored {
		for _, r := range o.flat {
			if strings.Contains(r, `"row"`) && (strings.Contains(r, `"scratch"`) || strings.Contains(r, `"count":7`)) {
				return "stored-row-changed-outside-provider-operations", fmt.Sprintf("a row read back is %s: it carries what the creating request assigned to its own object after create() returned", r)
			}
		}
	}
	if sc.SafetyOnly {
		for _, r := range o.flat {
			if !strings.HasPrefix(r, "2") {
				return "request-fails-only-when-concurrent", fmt.Sprintf("responses %q (each request alone succeeds)", o.flat)
			}
		}
		return "", ""
	}
	if !allowed[strings.Join(o.flat, " || ")] {
		var al []string
		for k := range allowed {
			al = append(al, k)
		}
		sort.Strings(al)
		// keyed by the scenario (not only its family) and the multiset of status codes, so that a recorded finding
		// in one scenario does not cover a different interference in a sibling scenario
		var st []string
		for _, r := range o.flat {
			st = append(st, strings.SplitN(r, " ", 2)[0])
		}
		sort.Strings(st)
		return "response-no-sequential-order-gives/" + sc.Name[strings.Index(sc.Name, "/")+1:] + "/" + strings.Join(st, "+"), fmt.Sprintf("responses %q; sequential orders give only %q", o.flat, al)
	}
	return "", ""
}

type c08Replay struct {
	Scen    string `json:"scenario"`
	Mode    string `json:"mode"`
	Depth   int    `json:"depth"`
	Choices []int  `json:"choices"`
	Seq     bool   `json:"sequential,omitempty"` // the finding is visible without concurrency (Solo scenarios)
}

// c08Depth finds the recursion depth used by the recursion scenario: 55% of the
// deepest /down/:n that succeeds alone (so that two of them exceed what one may use).
func c08Depth(src string, mode string) int {
	mod, err := parseSource(strings.ReplaceAll(src, "DEPTH", "1"))
	if err != nil {
		return 0
	}
	ok := func(n int) bool {
		s, err := c08Build(mod, mode)
		if err != nil {
			return false
		}
		defer s.stop()
		return strings.HasPrefix(s.do(get(fmt.Sprintf("/down/%d", n))), "200")
	}
	lo, hi := 1, 2000
	if !ok(lo) {
		return 0
	}
	for lo < hi {
		mid := (lo + hi + 1) / 2
		if ok(mid) {
			lo = mid
		} else {
			hi = mid - 1
		}
	}
	c08MaxOK[mode] = lo
	return lo*55/100 + 1
}

// c08MaxOK: per mode, the deepest /down/:n that succeeds alone (set by c08Depth)
var c08MaxOK = map[string]int{}

func c08Prepare(sc c08Scen, mode string, depth int) (c08Scen, *ast.Module, map[string]bool, error) {
	if strings.HasPrefix(sc.Name, "limits/") {
		for t := range sc.Threads {
			for i := range sc.Threads[t] {
				sc.Threads[t][i].Path = strings.NewReplacer("TOODEEP", fmt.Sprint(2*c08MaxOK[mode]+10), "MAXOK", fmt.Sprint(c08MaxOK[mode])).Replace(sc.Threads[t][i].Path)
			}
		}
		for i := range sc.After {
			sc.After[i].Path = strings.NewReplacer("TOODEEP", fmt.Sprint(2*c08MaxOK[mode]+10), "MAXOK", fmt.Sprint(c08MaxOK[mode])).Replace(sc.After[i].Path)
		}
	}
	if strings.Contains(sc.Name, "recursion") {
		d := fmt.Sprint(depth)
		for t := range sc.Threads {
			for i := range sc.Threads[t] {
				sc.Threads[t][i].Path = strings.ReplaceAll(sc.Threads[t][i].Path, "DEPTH", d)
			}
		}
	}
	mod, err := parseSource(sc.Src)
	if err != nil {
		return sc, nil, nil, fmt.Errorf("parse: %v", err)
	}
	counts := make([]int, len(sc.Threads))
	for t := range sc.Threads {
		counts[t] = len(sc.Threads[t])
	}
	allowed := map[string]bool{}
	if sc.Solo {
		// reverse direction first: requests that only read come last in the scenarios, so their answers are
		// taken before the writers of the scenario have run anywhere in this process
		solo, err := c08SoloVector(mod, mode, sc, true)
		if err != nil {
			return sc, nil, nil, err
		}
		fwd, err := c08SoloVector(mod, mode, sc, false)
		if err != nil {
			return sc, nil, nil, err
		}
		if strings.Join(fwd, " || ") != strings.Join(solo, " || ") {
			sc.seqMismatch = fmt.Sprintf("each request on its own fresh server: answered %q when the requests are served last-to-first and %q first-to-last — what one server did changes what a later fresh server answers (package-level state)", solo, fwd)
		}
		allowed[strings.Join(solo, " || ")] = true
		for _, ord := range c08Orders(counts) {
			flat, err := c08Sequential(mod, mode, sc, ord)
			if err != nil {
				return sc, nil, nil, err
			}
			if strings.Join(flat, " || ") != strings.Join(solo, " || ") && sc.seqMismatch == "" {
				sc.seqMismatch = fmt.Sprintf("requests sent one after the other (thread order %v) on one server are answered %q; each alone on a fresh server is answered %q", ord, flat, solo)
			}
		}
		return sc, mod, allowed, nil
	}
	for _, ord := range c08Orders(counts) {
		flat, err := c08Sequential(mod, mode, sc, ord)
		if err != nil {
			return sc, nil, nil, err
		}
		allowed[strings.Join(flat, " || ")] = true
		// a provider scenario in which no request succeeds when sent alone one after the other says nothing about
		// the provider (a route text the language does not accept the way it was meant): refuse to run it
		if fam := c08Family(sc.Name); fam == "redis" || fam == "db" || fam == "mongo" {
			ok := false
			for _, f := range flat {
				if strings.HasPrefix(f, "2") {
					ok = true
				}
			}
			if !ok {
				return sc, nil, nil, fmt.Errorf("vacuous scenario: no request is answered 2xx in thread order %v: %q", ord, flat)
			}
		}
	}
	return sc, mod, allowed, nil
}

func TestVerif_C08(t *testing.T) {
	c05QuietC08()
	os.Setenv("GLYPH_JWT_SECRET", c08Secret)
	p := vk.Env()
	res := vk.NewResult("one evaluation = one complete schedule of one scenario (2-3 request threads on one long-lived server) in one execution mode; distinct = distinct response vectors observed per scenario and mode")
	if p.Replay != "" {
		var rp c08Replay
		if err := vk.LoadReplay(p.Replay, &rp); err != nil {
			t.Fatal(err)
		}
		ok := c08DoReplay(rp, res, p.Thorough)
		res.Replayed = &ok
		res.Write(p)
		return
	}
	item := 0
	depthFor := map[string]int{}
	for _, sc0 := range c08Scens(p.Thorough) {
		if only := os.Getenv("C08_ONLY"); only != "" && !strings.Contains(sc0.Name, only) { // debugging aid; never set by the driver
			continue
		}
		for _, mode := range []string{"interpreted", "compiled"} {
			item++
			// every scenario is spread over all shards: a shard explores the subtrees of its share
			// of the first-level alternatives (the recursion scenario alone has thousands)
			if p.Expired() {
				res.Exhaustive = false
				res.Note("budget exhausted before scenario %s/%s", sc0.Name, mode)
				continue
			}
			depth := 0
			if strings.Contains(sc0.Name, "recursion") || strings.HasPrefix(sc0.Name, "limits/") {
				if _, ok := depthFor[mode]; !ok {
					depthFor[mode] = c08Depth(sc0.Src, mode)
				}
				depth = depthFor[mode]
				if depth == 0 {
					res.Count("scenario_mode_not_applicable", 1)
					continue
				}
			}
			sc, mod, allowed, err := c08Prepare(c08Clone(sc0), mode, depth)
			if err != nil {
				// the module is not served in this mode (e.g. provider injections are interpreter-only)
				res.Count("scenario_mode_not_applicable", 1)
				if mode == "interpreted" {
					panic(fmt.Sprintf("c08: scenario %s cannot be built in interpreted mode: %v", sc0.Name, err))
				}
				continue
			}
			if sc.Solo && p.Shard == 0 {
				for v := range allowed {
					res.Note("%s/%s answers when alone: %s", sc.Name, mode, v)
				}
			}
			if sc.seqMismatch != "" && p.Shard == 0 {
				res.Violate(mode+"/"+c08Family(sc.Name)+"/state-kept-between-requests/"+sc.Name[strings.Index(sc.Name, "/")+1:],
					fmt.Sprintf("%s in %s mode: %s", sc.Name, mode, sc.seqMismatch), c08Replay{Scen: sc.Name, Mode: mode, Depth: depth, Seq: true})
			}
			bound := sc.Bound
			if p.Thorough {
				bound++
			}
			var o c08Obs
			outcomes := vk.DistinctSet{}
			st := vrt.Explore(vrt.Config{MaxPreempt: bound, Races: true, Deadline: p.Deadline, MaxSteps: 400000, Shard: p.Shard, NShard: p.NShard},
				c08Body(mod, mode, sc, &o),
				func(x *vrt.Exec) bool {
					key, desc := c08Judge(x, &o, sc, allowed)
					outcomes.Add(strings.Join(o.flat, " || "))
					if key != "" {
						res.Violate(mode+"/"+c08Family(sc.Name)+"/"+key, fmt.Sprintf("%s in %s mode: %s | threads: %v | schedule=%s", sc.Name, mode, desc, sc.Threads, vrt.FormatChoices(x.Choices)),
							c08Replay{Scen: sc.Name, Mode: mode, Depth: depth, Choices: x.Choices})
					}
					return true
				})
			res.Evaluations += int64(st.Execs)
			res.Transitions += int64(st.Transitions)
			res.States += int64(st.States)
			if p.Shard == 0 {
				res.Distinct += int64(len(allowed))
			}
			res.Count("schedules_"+mode, int64(st.Execs))
			if os.Getenv("C08_DEBUG") != "" {
				res.Count("sched/"+sc.Name+"/"+mode, int64(st.Execs))
			}
			res.Sample(64, map[string]any{"scenario": sc.Name, "mode": mode, "schedules": st.Execs, "max_choice_points": st.MaxPoints, "distinct_response_vectors": outcomes.Len(), "sequential_vectors": len(allowed), "bound": bound})
			if !st.Complete {
				res.Exhaustive = false
				res.Note("scenario %s/%s stopped by %s after %d schedules", sc.Name, mode, st.StoppedBy, st.Execs)
			}
		}
	}
	res.Bounds["scenarios"] = len(c08Scens(p.Thorough))
	res.Bounds["max_preemptions"] = "per scenario: 2 (1 for three threads and for the recursion scenario); thorough +1"
	res.Write(p)
}

// c08Family: the scenario family (text before the first '/') keys a finding together with its site.
func c08Family(name string) string {
	if i := strings.Index(name, "/"); i > 0 {
		return name[:i]
	}
	return name
}

func c08Clone(sc c08Scen) c08Scen {
	c := sc
	c.Threads = nil
	for _, t := range sc.Threads {
		c.Threads = append(c.Threads, append([]c08Req{}, t...))
	}
	return c
}

func c08DoReplay(rp c08Replay, res *vk.Result, thorough bool) bool {
	for _, sc0 := range c08Scens(true) {
		if sc0.Name != rp.Scen {
			continue
		}
		if strings.HasPrefix(sc0.Name, "limits/") {
			c08Depth(sc0.Src, rp.Mode) // calibrates c08MaxOK
		}
		sc, mod, allowed, err := c08Prepare(c08Clone(sc0), rp.Mode, rp.Depth)
		if err != nil {
			return false
		}
		if rp.Seq {
			fmt.Printf("replay %s/%s sequential -> %s\n", sc.Name, rp.Mode, sc.seqMismatch)
			if sc.seqMismatch != "" {
				res.Violate(rp.Mode+"/"+c08Family(sc.Name)+"/state-kept-between-requests/"+sc.Name[strings.Index(sc.Name, "/")+1:], sc.seqMismatch, rp)
			}
			return sc.seqMismatch != ""
		}
		var o c08Obs
		var first string
		for i := 0; i < 2; i++ {
			x := vrt.RunOnce(vrt.Config{Races: true, Trace: i == 0 && os.Getenv("C08_TRACE") != "", MaxSteps: 400000}, rp.Choices, c08Body(mod, rp.Mode, sc, &o))
			key, desc := c08Judge(x, &o, sc, allowed)
			if i == 0 {
				first = key
				fmt.Printf("replay %s/%s %v\n%s\n-> %s %s\n", sc.Name, rp.Mode, rp.Choices, strings.Join(x.Trace, "\n"), key, desc)
				if key != "" {
					res.Violate(rp.Mode+"/"+c08Family(sc.Name)+"/"+key, desc, rp)
				}
			} else if key != first {
				return false
			}
		}
		return first != ""
	}
	return false
}

func c05QuietC08() {
	// the CLI prints request logs and warnings; keep the shard output small
	null, err := os.OpenFile(os.DevNull, os.O_WRONLY, 0)
	if err == nil {
		os.Stdout = null
	}
}
