module verifharness

go 1.25.0
