package jit

// Verification harness for C15 (JIT tiering and caching are invisible).
//
// Part 1 — explicit-state search: breadth-first over all histories of JIT API
// calls (compile, record executions, type-specialised compile, adaptive
// recompilation check, deoptimisation, redefinition + InvalidateCache /
// ClearCache, clock advance) on one real JITCompiler with small thresholds,
// deduplicated by a white-box canonical state.  Every byte slice the JIT hands
// out is executed on the VM for four inputs and must behave exactly like an
// OptNone compilation of the route's CURRENT definition.
// Part 2 — schedules: concurrent API calls under the preemption-bounded
// explorer with the same oracle plus the happens-before race monitor.

import (
	"crypto/sha1"
	"encoding/json"
	"fmt"
	"sort"
	"strings"
	"testing"
	"time"

	"github.com/glyphlang/glyph/internal/verif/vk"
	"github.com/glyphlang/glyph/internal/verif/vrt"
	"github.com/glyphlang/glyph/pkg/ast"
	"github.com/glyphlang/glyph/pkg/compiler"
	"github.com/glyphlang/glyph/pkg/parser"
	"github.com/glyphlang/glyph/pkg/vm"
)

const (
	c15NDefs  = 4 // distinguishable definitions per route name
	c15Hot    = 2
	c15Window = 10 * time.Second
)

var c15Names = []string{"r", "s"}

// c15P is the name of the route's free input (path parameter), c15V the name its body assigns: route r reads q and assigns
// a, route s reads a and assigns q. A compiler or optimizer fact about one route's variable that survives into the
// compilation of the other route (shared compiler instance, fact tables not reset) therefore changes what the other
// route computes from its input.
func c15P(name string) string {
	if name == "s" {
		return "a"
	}
	return "q"
}

func c15V(name string) string {
	if name == "s" {
		return "q"
	}
	return "a"
}

// three distinguishable definitions per name; one with a branch and constant
// arithmetic so that the optimisation tiers have something to do.
func c15Source(name string, ver int) string {
	P, V := c15P(name), c15V(name)
	var t string
	switch ver % c15NDefs {
	case 3:
		// the same subexpression with its operands in both orders: + concatenates strings, so P + "k" and "k" + P differ
		t = fmt.Sprintf("@ GET /%s/:P {\n  $ V = P + \"k%d\"\n  $ b = \"k%d\" + P\n  $ c = P + \"k%d\"\n  > {n: \"%s\", v: %d, a: V, b: b, c: c, q: P}\n}\n", name, ver, ver, ver, name, ver)
	case 0:
		t = fmt.Sprintf("@ GET /%s/:P {\n  $ V = %d\n  if P > 1 {\n    $ V = V + 10\n  }\n  > {n: \"%s\", v: %d, a: V, q: P}\n}\n", name, 100+ver, name, ver)
	case 1:
		t = fmt.Sprintf("@ GET /%s/:P {\n  $ V = 2 * 3 + %d\n  $ b = V * 1 + 0\n  > {n: \"%s\", v: %d, a: b + P, q: P}\n}\n", name, ver, name, ver)
	default:
		t = fmt.Sprintf("@ GET /%s/:P {\n  $ i = 0\n  $ V = %d\n  while i < P {\n    $ V = V + i\n    $ i = i + 1\n  }\n  > {n: \"%s\", v: %d, a: V, q: P}\n}\n", name, ver, name, ver)
	}
	return strings.NewReplacer("P", P, "V", V).Replace(t)
}

var c15RouteCache = map[string]*ast.Route{}
var c15RefCache = map[string][]string{}

func c15Route(name string, ver int) *ast.Route {
	key := fmt.Sprint(name, ver%c15NDefs)
	if r, ok := c15RouteCache[key]; ok {
		return r
	}
	lx := parser.NewLexer(c15Source(name, ver))
	toks, err := lx.Tokenize()
	if err != nil {
		panic(err)
	}
	mod, err := parser.NewParser(toks).Parse()
	if err != nil {
		panic(err)
	}
	for _, it := range mod.Items {
		if r, ok := it.(*ast.Route); ok {
			// The parser produces value-form nodes, which the optimizer passes through almost untouched; routes built
			// through the library API (what JIT embedders and the package's own tests use) are pointer-form, and only
			// those give the optimising tiers something to rewrite. Use the pointer-form encoding of the parsed body.
			pr := *r
			pr.Body = c15PtrStmts(r.Body)
			c15RouteCache[key] = &pr
			return &pr
		}
	}
	panic("no route in " + c15Source(name, ver))
}

// c15PtrStmts / c15PtrExpr rebuild a parsed (value-form) body with pointer-form nodes; an unknown node kind is an
// engine error (panic), never silently kept.
func c15PtrStmts(in []ast.Statement) []ast.Statement {
	var out []ast.Statement
	for _, st := range in {
		switch s := st.(type) {
		case ast.AssignStatement:
			out = append(out, &ast.AssignStatement{Target: s.Target, Value: c15PtrExpr(s.Value)})
		case ast.ReassignStatement:
			out = append(out, &ast.ReassignStatement{Target: s.Target, Value: c15PtrExpr(s.Value)})
		case ast.ReturnStatement:
			out = append(out, &ast.ReturnStatement{Value: c15PtrExpr(s.Value), Status: s.Status})
		case ast.IfStatement:
			out = append(out, &ast.IfStatement{Condition: c15PtrExpr(s.Condition), ThenBlock: c15PtrStmts(s.ThenBlock), ElseBlock: c15PtrStmts(s.ElseBlock)})
		case ast.WhileStatement:
			out = append(out, &ast.WhileStatement{Condition: c15PtrExpr(s.Condition), Body: c15PtrStmts(s.Body)})
		default:
			panic(fmt.Sprintf("c15: statement kind %T not handled by the pointer-form encoder", st))
		}
	}
	return out
}

func c15PtrExpr(e ast.Expr) ast.Expr {
	switch x := e.(type) {
	case nil:
		return nil
	case ast.LiteralExpr:
		return &ast.LiteralExpr{Value: x.Value}
	case ast.VariableExpr:
		return &ast.VariableExpr{Name: x.Name, Pos: x.Pos}
	case ast.BinaryOpExpr:
		return &ast.BinaryOpExpr{Op: x.Op, Left: c15PtrExpr(x.Left), Right: c15PtrExpr(x.Right), Pos: x.Pos}
	case ast.ObjectExpr:
		o := &ast.ObjectExpr{}
		for _, f := range x.Fields {
			o.Fields = append(o.Fields, ast.ObjectField{Key: f.Key, Value: c15PtrExpr(f.Value)})
		}
		return o
	default:
		panic(fmt.Sprintf("c15: expression kind %T not handled by the pointer-form encoder", e))
	}
}

var c15Inputs = []int64{0, 1, 2, 5, -1} // -1 stands for the string input "ab"

// c15Behaviour executes bytecode for the four inputs and renders the outcomes.
func c15Behaviour(name string, bc []byte) []string {
	out := make([]string, len(c15Inputs))
	for i, q := range c15Inputs {
		m := vm.NewVM()
		m.SetMaxSteps(100000)
		if q == -1 {
			m.SetLocal(c15P(name), vm.StringValue{Val: "ab"})
		} else {
			m.SetLocal(c15P(name), vm.IntValue{Val: q})
		}
		func() {
			defer func() {
				if p := recover(); p != nil {
					out[i] = fmt.Sprint("panic: ", p)
				}
			}()
			v, err := m.Execute(bc)
			if err != nil {
				out[i] = "error"
				return
			}
			b, _ := json.Marshal(v)
			out[i] = string(b)
		}()
	}
	return out
}

// reference behaviour: fresh OptNone compilation of the definition
func c15Ref(name string, ver int) []string {
	key := fmt.Sprint(name, ver%c15NDefs)
	if r, ok := c15RefCache[key]; ok {
		return r
	}
	bc, err := compiler.NewCompilerWithOptLevel(compiler.OptNone).CompileRoute(c15Route(name, ver))
	if err != nil {
		panic(err)
	}
	r := c15Behaviour(name, bc)
	c15RefCache[key] = r
	return r
}

var c15BehCache = map[[20]byte][]string{}

func c15BehaviourCached(name string, bc []byte) []string {
	h := sha1.Sum(append([]byte(name+"|"), bc...))
	if b, ok := c15BehCache[h]; ok {
		return b
	}
	b := c15Behaviour(name, bc)
	c15BehCache[h] = b
	return b
}

type c15Event struct {
	Op   string `json:"op"`
	Name string `json:"name"`
	N    int    `json:"n,omitempty"`
	T    int    `json:"t,omitempty"` // type vector index
}

func (e c15Event) String() string {
	switch e.Op {
	case "exec":
		return fmt.Sprintf("RecordExecution(%s)x%d", e.Name, e.N)
	case "types":
		return fmt.Sprintf("CompileRouteWithTypes(%s,T%d)", e.Name, e.T)
	case "advance":
		return "Advance(window+1s)"
	}
	return e.Op + "(" + e.Name + ")"
}

var c15TypeVecs = []map[string]string{{"P": "int"}, {"P": "float", "x": "string"}}

// c15TypesFor: the type vector with the route's own parameter name.
func c15TypesFor(name string, t int) map[string]string {
	out := map[string]string{}
	for k, v := range c15TypeVecs[t] {
		if k == "P" {
			k = c15P(name)
		}
		out[k] = v
	}
	return out
}

func c15Alphabet(thorough bool) []c15Event {
	ev := []c15Event{
		{Op: "CompileRoute", Name: "r"},
		{Op: "exec", Name: "r", N: 1},
		{Op: "exec", Name: "r", N: 50},
		{Op: "types", Name: "r", T: 0},
		{Op: "types", Name: "r", T: 1},
		{Op: "CheckAdaptiveRecompilation", Name: "r"},
		{Op: "RecordDeoptimization", Name: "r"},
		{Op: "Redefine+InvalidateCache", Name: "r"},
		{Op: "Redefine+ClearCache", Name: "r"},
		{Op: "Redefine(no invalidation)", Name: "r"},
		{Op: "StragglerCompile", Name: "r"},
		{Op: "RecordDeoptimization*3", Name: "r"},
		{Op: "advance"},
		{Op: "GetUnit", Name: "r"},
		// second route: interference through shared caches
		{Op: "CompileRoute", Name: "s"},
		{Op: "types", Name: "s", T: 0},
		{Op: "Redefine+InvalidateCache", Name: "s"},
		{Op: "exec", Name: "s", N: 50},
	}
	if thorough {
		ev = append(ev, c15Event{Op: "RecordDeoptimization", Name: "s"}, c15Event{Op: "GetUnit", Name: "s"})
	}
	return ev
}

type c15Sys struct {
	// byte slices handed out per route (identity = address of the first byte),
	// and those among them that an invalidation or deoptimisation has retired
	handed  map[string]map[*byte]bool
	retired map[string]map[*byte]string
	// every slice handed out with a private copy of what it held then: code a request is executing must never change
	issued []c15Issued
	passed map[string]map[int]bool // per name: definition versions passed to the JIT since the last invalidation
	j      *JITCompiler
	ver    map[string]int // definition handed to new calls
	done   map[string]int // definitions whose invalidation has returned
}

type c15Issued struct {
	what, name string
	bc, snap   []byte
}

func (s *c15Sys) issue(what, name string, bc []byte) {
	if len(bc) > 0 {
		s.issued = append(s.issued, c15Issued{what, name, bc, append([]byte{}, bc...)})
	}
}

// checkIssued: a slice that was handed out still holds the bytes it held when it was handed out.
func (s *c15Sys) checkIssued(after string) string {
	for _, is := range s.issued {
		if string(is.bc) != string(is.snap) {
			return fmt.Sprintf("handed-out-code-modified: %s for route %s was overwritten in place by a later %s (a request still executing it would run a mix of two programs)", is.what, is.name, after)
		}
	}
	return ""
}

func newC15Sys() *c15Sys {
	return &c15Sys{j: NewJITCompilerWithConfig(c15Hot, c15Window), ver: map[string]int{"r": 0, "s": 0}, done: map[string]int{"r": 0, "s": 0},
		handed: map[string]map[*byte]bool{"r": {}, "s": {}}, retired: map[string]map[*byte]string{"r": {}, "s": {}},
		passed: map[string]map[int]bool{"r": {}, "s": {}}}
}

// handOut records a served slice and reports whether it had been retired.
func (s *c15Sys) handOut(kind, what, name string, bc []byte) string {
	if len(bc) == 0 {
		return ""
	}
	k := &bc[0]
	if why, ok := s.retired[name][k]; ok {
		return fmt.Sprintf("retired-code-served: %s for route %s is the very code that was handed out before %s", what, name, why)
	}
	s.handed[name][k] = true
	if strings.Contains(what, "CompileRouteWithTypes") {
		if s.handed[name+"/spec"] == nil {
			s.handed[name+"/spec"] = map[*byte]bool{}
		}
		s.handed[name+"/spec"][k] = true
	}
	return ""
}

// retireSpecs retires only the specialised code of the route (a
// deoptimisation says nothing about the generic unit).
func (s *c15Sys) retireSpecs(name, why string) {
	for k := range s.handed[name+"/spec"] {
		s.retired[name][k] = why
		delete(s.handed[name], k)
	}
	s.handed[name+"/spec"] = map[*byte]bool{}
}

// retire marks every slice handed out so far for the route as stale.
func (s *c15Sys) retire(name, why string) {
	for k := range s.handed[name] {
		s.retired[name][k] = why
	}
	s.handed[name] = map[*byte]bool{}
	s.handed[name+"/spec"] = map[*byte]bool{}
}

func (s *c15Sys) judge(what, name string, bc []byte) string {
	if bc == nil {
		return ""
	}
	s.issue(what, name, bc)
	if !strings.Contains(what, "GetUnit") && !strings.Contains(what, "cached unit") {
		if f := s.handOut("", what, name, bc); f != "" {
			return f
		}
	}
	got := c15BehaviourCached(name, bc)
	if strings.Contains(what, "GetUnit") || strings.Contains(what, "cached unit") {
		// GetUnit takes no definition: the cached unit is the code of SOME definition that was passed to the JIT for
		// this name since the last invalidation (a straggler may have been the last one)
		for v := range s.passed[name] {
			w, same := c15Ref(name, v), true
			for i := range w {
				same = same && got[i] == w[i]
			}
			if same {
				return ""
			}
		}
	}
	want := c15Ref(name, s.ver[name])
	for i := range want {
		if got[i] != want[i] {
			return fmt.Sprintf("stale-or-wrong-code: %s for route %s (current definition v%d) behaves like %s for q=%d, a baseline compilation of the current definition gives %s",
				what, name, s.ver[name], got[i], c15Inputs[i], want[i])
		}
	}
	return ""
}

// apply performs one event; advance is done by the caller's clock function.
func (s *c15Sys) apply(e c15Event, advance func(time.Duration)) string {
	if f := s.apply1(e, advance); f != "" {
		return f
	}
	return s.checkIssued(e.String())
}

func (s *c15Sys) apply1(e c15Event, advance func(time.Duration)) string {
	j := s.j
	route := func() *ast.Route {
		s.passed[e.Name][s.ver[e.Name]] = true
		return c15Route(e.Name, s.ver[e.Name])
	}
	switch e.Op {
	case "CompileRoute":
		bc, err := j.CompileRoute(e.Name, route())
		if err != nil {
			return "compile-error: CompileRoute: " + err.Error()
		}
		return s.judge("the bytecode returned by CompileRoute", e.Name, bc)
	case "exec":
		for i := 0; i < e.N; i++ {
			j.RecordExecution(e.Name, time.Millisecond)
		}
	case "types":
		bc, err := j.CompileRouteWithTypes(e.Name, route(), c15TypesFor(e.Name, e.T))
		if err != nil {
			return "compile-error: CompileRouteWithTypes: " + err.Error()
		}
		return s.judge("the bytecode returned by CompileRouteWithTypes", e.Name, bc)
	case "CheckAdaptiveRecompilation":
		if _, err := j.CheckAdaptiveRecompilation(e.Name, route()); err != nil {
			return "compile-error: CheckAdaptiveRecompilation: " + err.Error()
		}
		if u, ok := j.GetUnit(e.Name); ok {
			return s.judge("the cached unit after CheckAdaptiveRecompilation", e.Name, u.Bytecode)
		}
	case "RecordDeoptimization":
		j.RecordDeoptimization(e.Name, "type mismatch", map[string]string{"int": "string"})
		s.retireSpecs(e.Name, "RecordDeoptimization")
	case "RecordDeoptimization*3":
		for k := 0; k < 3; k++ {
			j.RecordDeoptimization(e.Name, "type mismatch", map[string]string{"int": "string"})
		}
		s.retireSpecs(e.Name, "RecordDeoptimization")
	case "Redefine(no invalidation)":
		// the embedder starts passing a new definition without telling the JIT: what a caller is handed must still
		// behave like the definition that caller passed
		s.ver[e.Name]++
	case "StragglerCompile":
		// a request that started before the last redefinition still holds the previous definition: it is handed code
		// of THAT definition, and must not make later callers with the current definition receive it
		if s.ver[e.Name] == 0 {
			return ""
		}
		old := s.ver[e.Name] - 1
		s.passed[e.Name][old] = true
		bc, err := j.CompileRoute(e.Name, c15Route(e.Name, old))
		if err != nil {
			return "compile-error: CompileRoute (previous definition): " + err.Error()
		}
		s.issue("the bytecode returned to a caller holding the previous definition", e.Name, bc)
		got, want := c15BehaviourCached(e.Name, bc), c15Ref(e.Name, old)
		for i := range want {
			if got[i] != want[i] {
				return fmt.Sprintf("stale-or-wrong-code: CompileRoute called with the previous definition v%d of route %s returned code that behaves like %s for input #%d, that definition gives %s", old, e.Name, got[i], i, want[i])
			}
		}
	case "Redefine+InvalidateCache":
		// Swap the definition, then invalidate.  Calls that start before the
		// invalidation has returned may still be served the old code; calls
		// that start afterwards (s.done) must never be.
		s.ver[e.Name]++
		j.InvalidateCache(e.Name)
		s.passed[e.Name] = map[int]bool{}
		s.done[e.Name]++
		s.retire(e.Name, "InvalidateCache")
	case "Redefine+ClearCache":
		// ClearCache drops every unit; the other route keeps its definition
		s.ver[e.Name]++
		j.ClearCache()
		s.passed = map[string]map[int]bool{"r": {}, "s": {}}
		s.done[e.Name]++
		for _, n := range c15Names {
			s.retire(n, "ClearCache")
		}
	case "advance":
		advance(c15Window + time.Second)
	case "GetUnit":
		if u, ok := j.GetUnit(e.Name); ok {
			return s.judge("the unit returned by GetUnit", e.Name, u.Bytecode)
		}
	}
	return ""
}

// canon renders the white-box state that determines future behaviour.
func (s *c15Sys) canon() string {
	var b strings.Builder
	j := s.j
	now := vrt.Now()
	for _, n := range c15Names {
		fmt.Fprintf(&b, "%s:v%d;", n, s.ver[n]%c15NDefs)
		if u, ok := j.units[n]; ok {
			old := now.Sub(u.CompiledAt) > c15Window
			fmt.Fprintf(&b, "unit(t%d,%x,old=%v);", u.Tier, sha1.Sum(u.Bytecode), old)
		} else {
			b.WriteString("nounit;")
		}
		if p := j.profiler.GetProfile(n); p != nil {
			c := p.ExecutionCount
			if c > 501 {
				c = 501
			}
			fmt.Fprintf(&b, "prof=%d;", c)
		} else {
			b.WriteString("noprof;")
		}
		for _, sp := range j.specializationCache.specializations[n] {
			h := sp.HitCount
			if h > 3 {
				h = 3
			}
			fmt.Fprintf(&b, "spec(%s,%v,%x,h%d);", typeSignature(sp.Types), sp.IsValid, sha1.Sum(sp.Bytecode), h)
		}
		b.WriteString("|")
	}
	return b.String()
}

func c15Kind(fail string) string {
	if i := strings.Index(fail, ":"); i > 0 {
		return fail[:i]
	}
	return fail
}

// finding key: kind + the API that served the code + shape of the minimal history
func c15Key(fail string, evs []c15Event) string {
	api := "?"
	for _, a := range []string{"CompileRouteWithTypes", "CompileRoute", "GetUnit", "CheckAdaptiveRecompilation"} {
		if strings.Contains(fail, a) {
			api = a
			break
		}
	}
	var ops []string
	for _, e := range evs {
		o := e.Op
		if e.Op == "types" {
			o = "CompileRouteWithTypes"
		}
		if e.Op == "exec" {
			o = fmt.Sprintf("exec*%d", e.N)
		}
		ops = append(ops, o)
	}
	return c15Kind(fail) + "/" + api + "/" + strings.Join(ops, ",")
}

type c15Replay struct {
	Part    string     `json:"part"`
	Events  []c15Event `json:"events,omitempty"`
	Scen    string     `json:"scenario,omitempty"`
	Choices []int      `json:"choices,omitempty"`
}

// c15RunHistory runs a history sequentially under the manual virtual clock.
func c15RunHistory(evs []c15Event) (canon string, failAt int, fail string) {
	vrt.SetManualClock(true)
	defer vrt.SetManualClock(false)
	s := newC15Sys()
	failAt = -1
	func() {
		defer func() {
			if p := recover(); p != nil {
				failAt, fail = len(evs)-1, fmt.Sprint("panic: ", p)
			}
		}()
		for i, e := range evs {
			if f := s.apply(e, vrt.AdvanceManual); f != "" {
				failAt, fail = i, f
				return
			}
		}
		canon = s.canon()
	}()
	return
}

func c15Shrink(evs []c15Event, fail string) ([]c15Event, string) {
	cur := append([]c15Event{}, evs...)
	kind := c15Kind(fail)
	for changed := true; changed; {
		changed = false
		for i := 0; i < len(cur); i++ {
			cand := append(append([]c15Event{}, cur[:i]...), cur[i+1:]...)
			if len(cand) == 0 {
				continue
			}
			_, at, f := c15RunHistory(cand)
			if f != "" && c15Kind(f) == kind {
				cur, fail, changed = cand[:at+1], f, true
				break
			}
		}
	}
	return cur, fail
}

func TestVerif_C15(t *testing.T) {
	p := vk.Env()
	res := vk.NewResult("part1: breadth-first search over all histories of JIT API events (CompileRoute, RecordExecution x1/x50, CompileRouteWithTypes with two type vectors, CheckAdaptiveRecompilation, RecordDeoptimization, redefinition with InvalidateCache or ClearCache, clock advance past the recompile window, GetUnit; two route names) on one real JITCompiler (hot threshold 2, window 10 s), deduplicated by white-box canonical state (per route: definition version, unit tier/bytecode hash/age class, profiler count capped above the largest threshold, specialisation list with validity, bytecode hash and capped hit count); a state is non-trivial when distinct by that form. part2: all schedules of concurrent API-call scenarios up to the preemption bound")
	if p.Replay != "" {
		var rp c15Replay
		if err := vk.LoadReplay(p.Replay, &rp); err != nil {
			t.Fatal(err)
		}
		ok := false
		if rp.Part == "hist" {
			_, at, fail := c15RunHistory(rp.Events)
			fmt.Printf("replay %v -> step %d %q\n", rp.Events, at, fail)
			if fail != "" {
				ok = true
				res.Violate(c15Key(fail, rp.Events[:at+1]), fail, rp)
			}
		} else {
			ok = c15ReplaySched(rp, res)
		}
		res.Replayed = &ok
		res.Write(p)
		return
	}
	depth := 5
	if p.Thorough {
		depth = 7
	}
	alpha := c15Alphabet(p.Thorough)
	res.Bounds["history_depth"] = depth
	res.Bounds["alphabet_size"] = len(alpha)
	c15Schedules(p, res)
	// The search is sharded by the first event; each shard explores its own
	// subtree with its own seen-set (states reachable through several first
	// events are explored more than once, which only costs time).
	for first := range alpha {
		if !p.Mine(first) {
			continue
		}
		st := vk.BFS(len(alpha), depth-1, true, p.Deadline, func(h []int) (string, bool) {
			evs := []c15Event{alpha[first]}
			for _, x := range h {
				evs = append(evs, alpha[x])
			}
			canon, at, fail := c15RunHistory(evs)
			if fail != "" {
				if at == len(evs)-1 {
					m, mf := c15Shrink(evs, fail)
					res.Violate(c15Key(mf, m), fmt.Sprintf("history %v: %s", m, mf), c15Replay{Part: "hist", Events: m})
				}
				return "", false
			}
			if len(evs) == 3 {
				res.Sample(2, map[string]any{"history": fmt.Sprint(evs), "state": canon})
			}
			return canon, true
		})
		res.States += st.States
		res.Transitions += st.Transitions
		res.Evaluations += st.Transitions
		res.Distinct += st.States
		if !st.Complete {
			res.Exhaustive = false
			res.Note("time budget reached in subtree of first event %s at depth %d", alpha[first], st.MaxDepth+1)
		}
		if st.Emptied {
			res.Count("subtrees_with_full_reachable_set", 1)
		}
	}
	res.Write(p)
}

// ---------------------------------------------------------------------------
// schedules

type c15Scen struct {
	Name    string
	Setup   []c15Event
	Threads [][]c15Event
	Final   []c15Event
}

func c15Scens() []c15Scen {
	cr := c15Event{Op: "CompileRoute", Name: "r"}
	ex := c15Event{Op: "exec", Name: "r", N: 1}
	adv := c15Event{Op: "advance"}
	ty := c15Event{Op: "types", Name: "r", T: 0}
	de := c15Event{Op: "RecordDeoptimization", Name: "r"}
	gu := c15Event{Op: "GetUnit", Name: "r"}
	return []c15Scen{
		{"recompile-vs-readers", []c15Event{cr, ex, ex, adv}, [][]c15Event{{cr}, {cr}, {ex, gu}}, []c15Event{cr, gu}},
		{"first-compile-race", nil, [][]c15Event{{cr}, {cr}, {ex}}, []c15Event{cr, gu}},
		{"specialise-vs-deopt", []c15Event{ty}, [][]c15Event{{ty}, {de}, {ty}}, []c15Event{ty}},
		{"adaptive-vs-compile", []c15Event{cr, {Op: "exec", Name: "r", N: 50}}, [][]c15Event{{{Op: "CheckAdaptiveRecompilation", Name: "r"}}, {cr}, {gu}}, []c15Event{cr, gu}},
		{"invalidate-vs-recompile", []c15Event{cr, ex, ex, adv}, [][]c15Event{{cr}, {{Op: "Redefine+InvalidateCache", Name: "r"}, cr}}, []c15Event{cr, gu, ty}},
	}
}

// In concurrent scenarios a thread that compiles uses the definition that was
// current when its operation started; code it is handed must behave like that
// definition or like a newer one (it may not be OLDER than the definition the
// thread itself asked for).
func c15Concurrent(sc c15Scen, fail *string) func() {
	return func() {
		s := newC15Sys()
		setFail := func(f string) {
			if f != "" && *fail == "" {
				*fail = f
			}
		}
		for _, e := range sc.Setup {
			setFail(s.apply(e, vrt.Advance))
		}
		var fs []func()
		for _, th := range sc.Threads {
			th := th
			fs = append(fs, func() {
				for _, e := range th {
					setFail(s.applyConcurrent(e))
				}
			})
		}
		vrt.Parallel(fs...)
		setFail(s.checkIssued("concurrent operation"))
		for _, e := range sc.Final {
			setFail(s.apply(e, vrt.Advance))
		}
	}
}

// applyConcurrent: like apply, but the acceptable behaviours are those of any
// definition version from the one current at invocation to the one current at
// return.
func (s *c15Sys) applyConcurrent(e c15Event) string {
	j := s.j
	v0 := s.done[e.Name]
	route := c15Route(e.Name, s.ver[e.Name])
	check := func(what string, bc []byte) string {
		if bc == nil {
			return ""
		}
		s.issue(what, e.Name, bc)
		got := c15BehaviourCached(e.Name, bc)
		for v := v0; v <= s.ver[e.Name]; v++ {
			want := c15Ref(e.Name, v)
			same := true
			for i := range want {
				if got[i] != want[i] {
					same = false
				}
			}
			if same {
				return ""
			}
		}
		return fmt.Sprintf("stale-or-wrong-code: %s for route %s behaves like no definition between v%d (invalidation completed before the call) and v%d (current at return): %v", what, e.Name, v0, s.ver[e.Name], got)
	}
	switch e.Op {
	case "CompileRoute":
		bc, err := j.CompileRoute(e.Name, route)
		if err != nil {
			return "compile-error: " + err.Error()
		}
		return check("the bytecode returned by CompileRoute", bc)
	case "types":
		bc, err := j.CompileRouteWithTypes(e.Name, route, c15TypesFor(e.Name, e.T))
		if err != nil {
			return "compile-error: " + err.Error()
		}
		return check("the bytecode returned by CompileRouteWithTypes", bc)
	case "GetUnit":
		if u, ok := j.GetUnit(e.Name); ok {
			return check("the unit returned by GetUnit", u.Bytecode)
		}
		return ""
	case "CheckAdaptiveRecompilation":
		if _, err := j.CheckAdaptiveRecompilation(e.Name, route); err != nil {
			return "compile-error: " + err.Error()
		}
		return ""
	}
	return s.apply(e, vrt.Advance)
}

func c15JudgeSched(x *vrt.Exec, fail string) string {
	if x.Outcome.Kind != "ok" {
		d := x.Outcome.Detail
		if i := strings.Index(d, "\n"); i > 0 {
			d = d[:i]
		}
		return x.Outcome.Kind + ": " + d
	}
	if fail != "" {
		return fail
	}
	if len(x.Races) > 0 {
		sort.Strings(x.Races)
		return "data race: " + x.Races[0]
	}
	return ""
}

func c15SchedKey(sc c15Scen, f string) string {
	if strings.HasPrefix(f, "data race") {
		return "sched/" + vrt.RaceKey(f)
	}
	return "sched/" + sc.Name + "/" + c15Kind(f)
}

func c15Schedules(p vk.Params, res *vk.Result) {
	bound := 2
	if p.Thorough {
		bound = 3
	}
	res.Bounds["preemption_bound"] = bound
	for si, sc := range c15Scens() {
		if !p.Mine(si) {
			continue
		}
		var fail string
		outcomes := vk.DistinctSet{}
		st := vrt.Explore(vrt.Config{MaxPreempt: bound, Races: true, NoAutoTimers: true, Deadline: p.Deadline},
			func() { fail = ""; c15Concurrent(sc, &fail)() },
			func(x *vrt.Exec) bool {
				f := c15JudgeSched(x, fail)
				outcomes.Add(c15Kind(f))
				if f != "" {
					res.Violate(c15SchedKey(sc, f), sc.Name+": "+f+" schedule="+vrt.FormatChoices(x.Choices), c15Replay{Part: "sched", Scen: sc.Name, Choices: x.Choices})
				}
				return true
			})
		res.Evaluations += int64(st.Execs)
		res.Transitions += int64(st.Transitions)
		res.States += int64(st.States)
		res.Distinct += outcomes.Len()
		res.Count("schedules", int64(st.Execs))
		res.Sample(8, map[string]any{"scenario": sc.Name, "schedules": st.Execs, "max_choice_points": st.MaxPoints})
		if !st.Complete {
			res.Exhaustive = false
			res.Note("scenario %s stopped by %s after %d schedules", sc.Name, st.StoppedBy, st.Execs)
		}
	}
}

func c15ReplaySched(rp c15Replay, res *vk.Result) bool {
	for _, sc := range c15Scens() {
		if sc.Name != rp.Scen {
			continue
		}
		var first string
		for i := 0; i < 2; i++ {
			var fail string
			x := vrt.RunOnce(vrt.Config{Races: true, NoAutoTimers: true, Trace: true}, rp.Choices, c15Concurrent(sc, &fail))
			f := c15JudgeSched(x, fail)
			if i == 0 {
				first = f
				fmt.Printf("replay %s %v\n%s\n-> %q\n", sc.Name, rp.Choices, strings.Join(x.Trace, "\n"), f)
			} else if f != first {
				return false
			}
		}
		if first != "" {
			res.Violate(c15SchedKey(sc, first), first, rp)
			return true
		}
	}
	return false
}
