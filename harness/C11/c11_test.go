package main

// Verification harness for C11 (rate limits bound admitted traffic per client).
// Injected into cmd/glyph; pkg/server is instrumented (virtual clock, controlled
// goroutines/locks).  The system under test is the middleware the CLI itself
// builds from a route's `+ ratelimit(N/unit)` declaration.
//
// Part 1: every event history up to the depth bound (no deduplication: the
// limiter's state lives in a closure) is executed on a fresh middleware under a
// virtual clock; the oracle uses exact integer arithmetic on nanoseconds.
// Part 2: the library middleware with trust-proxy settings.
// Part 3: schedules — concurrent requests of one client with few tokens left.

import (
	"fmt"
	"io"
	"log"
	"net/http/httptest"
	"sort"
	"strings"
	"testing"
	"time"

	"github.com/glyphlang/glyph/internal/verif/vk"
	"github.com/glyphlang/glyph/internal/verif/vrt"
	"github.com/glyphlang/glyph/pkg/ast"
	"github.com/glyphlang/glyph/pkg/server"
)

type c11Config struct {
	N     int    `json:"n"`
	Unit  string `json:"unit"`
	Proxy string `json:"proxy"`              // "" = CLI middleware; "trust-all", "trust-set" = library middleware
	Spell string `json:"spelling,omitempty"` // the unit as written in the declaration when it is not the lower-case word
}

func (c c11Config) String() string {
	if c.Spell != "" {
		return fmt.Sprintf("%d/%q%s", c.N, c.Spell, c.Proxy)
	}
	return fmt.Sprintf("%d/%s%s", c.N, c.Unit, c.Proxy)
}

func c11Window(unit string) time.Duration {
	switch unit {
	case "sec":
		return time.Second
	case "min":
		return time.Minute
	case "hour":
		return time.Hour
	case "day":
		return 24 * time.Hour
	}
	panic(unit)
}

const (
	ipA     = "10.0.0.1"
	ipB     = "10.0.0.2"
	ipProxy = "10.9.9.9"
)

type c11Event struct {
	Kind   string `json:"kind"`              // "req" | "adv"
	From   string `json:"from,omitempty"`    // remote address
	XFF    string `json:"xff,omitempty"`     // forged / proxied X-Forwarded-For
	XRI    string `json:"xri,omitempty"`     // forged / proxied X-Real-IP (sent without X-Forwarded-For)
	AdvNum int64  `json:"adv_num,omitempty"` // advance = window*num/den, or absolute ns if den==0
	AdvDen int64  `json:"adv_den,omitempty"`
}

func (e c11Event) String() string {
	if e.Kind == "flood" {
		return "flood(10001 fresh clients)"
	}
	if e.Kind == "adv" {
		if e.AdvDen == 0 {
			return fmt.Sprintf("adv(%s)", time.Duration(e.AdvNum))
		}
		return fmt.Sprintf("adv(w*%d/%d)", e.AdvNum, e.AdvDen)
	}
	if e.XFF != "" {
		return fmt.Sprintf("req(%s,xff=%s)", e.From, e.XFF)
	}
	if e.XRI != "" {
		return fmt.Sprintf("req(%s,x-real-ip=%s)", e.From, e.XRI)
	}
	return "req(" + e.From + ")"
}

func c11Alphabet(cfg c11Config) []c11Event {
	ev := []c11Event{
		{Kind: "req", From: ipA},
		{Kind: "req", From: ipB},
		{Kind: "req", From: ipA, XFF: ipB},
		{Kind: "adv", AdvNum: 1, AdvDen: 4},
		{Kind: "adv", AdvNum: 1, AdvDen: 2},
		{Kind: "adv", AdvNum: 3, AdvDen: 4},
		{Kind: "adv", AdvNum: 1, AdvDen: 1},
		{Kind: "adv", AdvNum: 10, AdvDen: 1},
		{Kind: "adv", AdvNum: int64(11 * time.Minute)},
	}
	if cfg.Proxy == "flood" {
		// table-capacity sub-exploration: a flood of 10001 fresh clients is one event
		return []c11Event{
			{Kind: "req", From: ipA},
			{Kind: "flood"},
			{Kind: "adv", AdvNum: 1, AdvDen: 2},
			{Kind: "adv", AdvNum: int64(6 * time.Minute)},
		}
	}
	if strings.HasSuffix(cfg.Proxy, "/xri") {
		// the other forwarding header, alone: same trust rule, smaller alphabet
		return []c11Event{
			{Kind: "req", From: ipA},
			{Kind: "req", From: ipB},
			{Kind: "req", From: ipA, XRI: ipB},
			{Kind: "req", From: ipProxy, XRI: ipA},
			{Kind: "req", From: ipProxy, XFF: ipA},
			{Kind: "adv", AdvNum: 1, AdvDen: 2},
			{Kind: "adv", AdvNum: 1, AdvDen: 1},
		}
	}
	if cfg.Proxy != "" {
		ev = append(ev, c11Event{Kind: "req", From: ipProxy, XFF: ipA})
	}
	return ev
}

// client identity the property assigns to a request under the configuration.
func c11Client(cfg c11Config, e c11Event) string {
	fwd := e.XFF
	if fwd == "" {
		fwd = e.XRI
	}
	switch strings.TrimSuffix(cfg.Proxy, "/xri") {
	case "":
		return e.From // forwarding headers are never honoured
	case "trust-all":
		if fwd != "" {
			return fwd
		}
		return e.From
	case "trust-set":
		if fwd != "" && e.From == ipProxy {
			return fwd
		}
		return e.From
	case "trust-bad", "flood":
		// trust-bad: a trusted-proxy list is configured but names no peer of
		// this history (CIDR / hostname / bracketed spellings): nobody is trusted
		return e.From
	}
	panic(cfg.Proxy)
}

type c11Bucket struct {
	T        int64   // ideal tokens × window(ns)
	last     int64   // ns
	admitted []int64 // admission times (ns) of the implementation
}

type c11Sys struct {
	judgeN   int // oracle parameters (declared limit unless judging the CLI's converted budget)
	cfg      c11Config
	h        server.RouteHandler
	marker   int
	now      int64
	window   int64
	buckets  map[string]*c11Bucket
	resp     []string // "client:status" per request, for the isolation comparison
	floodSeq int
}

// c11Converted is the per-minute budget the CLI derives from a declaration
// (the documented conversion in rateLimitMiddleware); used only to attribute a
// failure to that conversion.
func c11Converted(cfg c11Config) int {
	switch cfg.Unit {
	case "sec":
		return cfg.N * 60
	case "hour":
		return (cfg.N + 59) / 60
	case "day":
		return (cfg.N + 1439) / 1440
	}
	return cfg.N
}

func newC11Sys(cfg c11Config) *c11Sys { return newC11SysJudged(cfg, false) }

func newC11SysJudged(cfg c11Config, asConverted bool) *c11Sys {
	s := &c11Sys{cfg: cfg, judgeN: cfg.N, window: int64(c11Window(cfg.Unit)), buckets: map[string]*c11Bucket{}}
	if asConverted {
		s.judgeN, s.window = c11Converted(cfg), int64(time.Minute)
	}
	var mw server.Middleware
	if cfg.Proxy == "" {
		w := cfg.Unit
		if cfg.Spell != "" {
			w = cfg.Spell // the unit as written in the declaration (the window it denotes stays cfg.Unit's)
		}
		mw = rateLimitMiddleware(&ast.RateLimit{Requests: uint32(cfg.N), Window: w})
	} else {
		// library middleware: per-minute configuration only
		switch strings.TrimSuffix(cfg.Proxy, "/xri") {
		case "trust-set":
			server.SetTrustedProxies([]string{ipProxy})
		case "trust-bad":
			server.SetTrustedProxies([]string{"10.9.9.0/24", "proxy.internal", "[::1]"})
		default:
			server.SetTrustedProxies(nil)
		}
		mw = server.RateLimitMiddleware(server.RateLimiterConfig{RequestsPerMinute: cfg.N, BurstSize: cfg.N, TrustProxy: cfg.Proxy != "flood"})
	}
	s.h = mw(func(ctx *server.Context) error { s.marker++; return nil })
	return s
}

func (s *c11Sys) request(e c11Event) (status int, ran bool) {
	req := httptest.NewRequest("GET", "/r", nil)
	req.RemoteAddr = fmt.Sprintf("%s:%d", e.From, 40000+len(s.resp))
	if e.XRI != "" {
		req.Header.Set("X-Real-IP", e.XRI)
	}
	if e.XFF != "" {
		req.Header.Set("X-Forwarded-For", e.XFF)
	}
	rec := httptest.NewRecorder()
	before := s.marker
	ctx := &server.Context{Request: req, ResponseWriter: rec}
	_ = s.h(ctx)
	return rec.Code, s.marker != before
}

// apply executes one event and returns an oracle failure, if any.
func (s *c11Sys) apply(e c11Event) string {
	if e.Kind == "adv" {
		d := e.AdvNum
		if e.AdvDen != 0 {
			d = int64(c11Window(s.cfg.Unit)) * e.AdvNum / e.AdvDen
		}
		vrt.AdvanceCoalesced(time.Duration(d), 3)
		s.now += d
		return ""
	}
	if e.Kind == "flood" {
		// each fresh client is within its rate: all must be admitted
		for i := 0; i < 10001; i++ {
			s.floodSeq++
			ip := fmt.Sprintf("11.%d.%d.%d", s.floodSeq>>16&255, s.floodSeq>>8&255, s.floodSeq&255)
			if st, _ := s.request(c11Event{Kind: "req", From: ip}); st == 429 {
				return fmt.Sprintf("fresh client %s stayed within %s but got 429", ip, s.cfg)
			}
		}
		return ""
	}
	cl := c11Client(s.cfg, e)
	b := s.buckets[cl]
	n := int64(s.judgeN)
	if b == nil {
		b = &c11Bucket{T: n * s.window, last: s.now}
		s.buckets[cl] = b
	}
	// ideal bucket: capacity N, rate N/window, exact
	b.T += (s.now - b.last) * n
	if b.T > n*s.window || b.T < 0 {
		b.T = n * s.window
	}
	b.last = s.now
	idealAdmits := b.T >= s.window
	status, ran := s.request(e)
	vrt.WaitIdle()
	s.resp = append(s.resp, fmt.Sprintf("%s:%d", cl, status))
	admitted := status != 429
	if status == 429 && ran {
		return fmt.Sprintf("%s answered 429 but the route body ran", e)
	}
	if admitted && !ran {
		return fmt.Sprintf("%s answered %d but the route body did not run", e, status)
	}
	if admitted {
		b.admitted = append(b.admitted, s.now)
		// upper bound: for every earlier admission s0, count in [s0, now] ≤ N(1 + (now-s0)/window)
		for i, s0 := range b.admitted {
			cnt := int64(len(b.admitted) - i)
			if cnt*s.window > n*(s.window+(s.now-s0)) {
				return fmt.Sprintf("client %s was admitted %d requests within %s; the declared limit %s allows at most %d·(1+T/window)",
					cl, cnt, time.Duration(s.now-s0), s.cfg, n)
			}
		}
	}
	if idealAdmits {
		b.T -= s.window
		if !admitted {
			return fmt.Sprintf("client %s stayed within %s (an exact bucket of %d refilled at %d per window holds a token) but got 429 at t=%s",
				cl, s.cfg, n, n, time.Duration(s.now))
		}
	} else if admitted {
		// admitted beyond the ideal bucket without breaking the interval bound: keep the ideal in step
		b.T = 0
	}
	return ""
}

// c11Shrink greedily deletes events while the history still fails in the same way.
func c11Shrink(cfg c11Config, h []c11Event, fail string) ([]c11Event, string) {
	cur := append([]c11Event{}, h...)
	kind := c11Kind(fail)
	for changed := true; changed; {
		changed = false
		for i := 0; i < len(cur); i++ {
			cand := append(append([]c11Event{}, cur[:i]...), cur[i+1:]...)
			if len(cand) == 0 {
				continue
			}
			at, f, _ := c11Run(cfg, cand)
			if f != "" && c11Kind(f) == kind {
				cur, fail, changed = cand[:at+1], f, true
				break
			}
		}
	}
	return cur, fail
}

func c11Kind(fail string) string {
	for _, m := range []struct{ has, k string }{
		{"allows at most", "over-admission"}, {"stayed within", "conforming-client-rejected"},
		{"body ran", "429-ran-body"}, {"did not run", "admitted-without-body"}, {"changed when", "cross-client-interference"},
		{"deadlock", "deadlock"}, {"panic", "panic"}, {"data race", "data-race"}, {"not explained", "lost-update"},
	} {
		if strings.Contains(fail, m.has) {
			return m.k
		}
	}
	return fail
}

type c11Replay struct {
	Part    string     `json:"part"`
	Config  c11Config  `json:"config"`
	Events  []c11Event `json:"events,omitempty"`
	Scen    string     `json:"scenario,omitempty"`
	Choices []int      `json:"choices,omitempty"`
}

// c11Run executes a history on a fresh middleware; returns the step index and
// text of the first failure, and the responses.
func c11Run(cfg c11Config, events []c11Event) (failAt int, fail string, resp []string) {
	return c11RunJudged(cfg, events, false)
}

func c11RunJudged(cfg c11Config, events []c11Event, asConverted bool) (failAt int, fail string, resp []string) {
	failAt = -1
	x := vrt.RunOnce(vrt.Config{NoAutoTimers: true, MaxSteps: 5000000}, nil, func() {
		s := newC11SysJudged(cfg, asConverted)
		for i, e := range events {
			if f := s.apply(e); f != "" {
				failAt, fail = i, f
				break
			}
		}
		resp = s.resp
	})
	if x.Outcome.Kind != "ok" {
		return len(events) - 1, x.Outcome.Kind + ": " + x.Outcome.Detail, resp
	}
	return
}

// finding key: failure kind + unit + shape of the minimal history (event kinds only)
func c11Key(cfg c11Config, events []c11Event, fail string) string {
	kind := c11Kind(fail)
	if cfg.Proxy == "" && cfg.Unit != "min" && (kind == "over-admission" || kind == "conforming-client-rejected") {
		// Is the behaviour exactly that of the CLI's per-minute conversion of
		// the declared budget?  Then the failure is the unit conversion.
		if _, f2, _ := c11RunJudged(cfg, events, true); f2 == "" {
			return fmt.Sprintf("unit-conversion/%s/%s", cfg.Unit, kind)
		}
	}
	names := map[string]string{}
	canon := func(ip string) string {
		if ip == "" {
			return ""
		}
		if ip == ipProxy {
			return "proxy"
		}
		if _, ok := names[ip]; !ok {
			names[ip] = fmt.Sprintf("c%d", len(names)+1)
		}
		return names[ip]
	}
	var sh []string
	for _, e := range events {
		e.From, e.XFF, e.XRI = canon(e.From), canon(e.XFF), canon(e.XRI)
		sh = append(sh, e.String())
	}
	unit := cfg.Unit
	if cfg.Proxy != "" {
		unit += "+" + cfg.Proxy
	}
	return fmt.Sprintf("%s/%s/N=%d/%s", c11Kind(fail), unit, cfg.N, strings.Join(sh, ","))
}

func TestVerif_C11(t *testing.T) {
	log.SetOutput(io.Discard)
	p := vk.Env()
	res := vk.NewResult("all event histories (requests from two clients, a request with a forged X-Forwarded-For, clock advances of window/4, /2, 3/4, 1, 10 windows and 11 min, which also drive the cleanup ticker) up to the depth bound on the middleware built by the CLI for each N/unit declaration, plus the library middleware under both trust-proxy settings; no deduplication (limiter state is closure-private); a history is non-trivial if it contains at least one request, distinct by its event sequence. Schedules: concurrent requests of one client under the preemption-bounded explorer")
	if p.Replay != "" {
		var rp c11Replay
		if err := vk.LoadReplay(p.Replay, &rp); err != nil {
			t.Fatal(err)
		}
		ok := false
		if rp.Part == "hist" {
			at, fail, _ := c11Run(rp.Config, rp.Events)
			fmt.Printf("replay %s %v -> step %d %q\n", rp.Config, rp.Events, at, fail)
			if fail != "" {
				ok = true
				res.Violate(c11Key(rp.Config, rp.Events[:at+1], fail), fail, rp)
			}
		} else {
			ok = c11ReplaySched(rp, res)
		}
		res.Replayed = &ok
		res.Write(p)
		return
	}
	depth := 6
	ns := []int{1, 2, 3}
	if p.Thorough {
		depth = 7
		ns = []int{1, 2, 3, 5}
	}
	var cfgs []c11Config
	for _, n := range ns {
		for _, u := range []string{"sec", "min", "hour", "day"} {
			cfgs = append(cfgs, c11Config{N: n, Unit: u})
		}
	}
	for _, n := range ns[:2] {
		cfgs = append(cfgs, c11Config{N: n, Unit: "min", Proxy: "trust-all"}, c11Config{N: n, Unit: "min", Proxy: "trust-set"},
			c11Config{N: n, Unit: "min", Proxy: "trust-bad"})
	}
	// the other forwarding header alone, and unit spellings other than lower case (the window a declaration denotes does
	// not depend on how its unit is capitalised or spaced): shallower histories
	for _, px := range []string{"trust-all/xri", "trust-set/xri", "trust-bad/xri"} {
		cfgs = append(cfgs, c11Config{N: 2, Unit: "min", Proxy: px})
	}
	for _, sp := range [][2]string{{"sec", "Sec"}, {"min", "Min"}, {"hour", "Hour"}, {"hour", "HOUR"}, {"hour", " hour"}, {"day", "Day"}, {"min", "MIN "},
		// the aliases the declaration syntax documents
		{"sec", "second"}, {"sec", "s"}, {"hour", "hr"}, {"hour", "h"}, {"day", "d"}} {
		cfgs = append(cfgs, c11Config{N: 2, Unit: sp[0], Spell: sp[1]})
	}
	cfgs = append([]c11Config{{N: 1, Unit: "min", Proxy: "flood"}, {N: 2, Unit: "min", Proxy: "flood"}}, cfgs...)
	// the shallow configurations (spellings, X-Real-IP) first: a run cut short by its time budget then loses the tail of
	// the deep histories of the main configurations, not whole configurations
	sort.SliceStable(cfgs, func(i, j int) bool {
		sh := func(c c11Config) bool { return c.Spell != "" || strings.HasSuffix(c.Proxy, "/xri") }
		return sh(cfgs[i]) && !sh(cfgs[j])
	})
	res.Bounds["history_depth"] = depth
	res.Bounds["configurations"] = len(cfgs)
	c11Schedules(p, res)
	// work items: (config, first event) so that 16 shards stay busy
	// two passes (iterative deepening): pass 0 runs every configuration, the main ones one event short of the depth
	// bound; pass 1 runs the main configurations at the depth bound.  A run cut short by its time budget has then
	// completed depth-1 for every configuration instead of the full depth for the first few.
	item := 0
	passExpired := [2]bool{}
	for pass := 0; pass < 2; pass++ {
		for _, cfg := range cfgs {
			alpha := c11Alphabet(cfg)
			depth := depth
			shallow := true
			if cfg.Proxy == "flood" {
				depth = 4
				res.Bounds["flood_history_depth"] = depth
			} else if cfg.Spell != "" || strings.HasSuffix(cfg.Proxy, "/xri") {
				depth = 5
				res.Bounds["spelling_and_x_real_ip_history_depth"] = depth
			} else {
				res.Bounds["alphabet_size"] = len(alpha)
				shallow = false
				if pass == 0 {
					depth--
				}
			}
			if shallow && pass == 1 {
				continue
			}
			for first := range alpha {
				item++
				if !p.Mine(item) {
					continue
				}
				// minimal-failure bookkeeping: a history is only expanded while it has no failure
				var rec func(h []c11Event)
				rec = func(h []c11Event) {
					if p.Expired() {
						res.Exhaustive = false
						passExpired[pass] = true
						return
					}
					// inner nodes are executed only near the root (to prune failing
					// subtrees early); deeper prefixes are judged as part of their
					// leaves, whose stepwise oracle reports the first failing step
					if len(h) < depth && len(h) > 3 {
						for _, e := range alpha {
							rec(append(append([]c11Event{}, h...), e))
						}
						return
					}
					at, fail, resp := c11Run(cfg, h)
					res.Transitions += int64(len(h))
					res.Evaluations++
					res.States++
					hasReq := false
					for _, e := range h {
						if e.Kind == "req" {
							hasReq = true
						}
					}
					if hasReq {
						res.Distinct++
					}
					if fail != "" {
						m, mf := c11Shrink(cfg, h[:at+1], fail)
						res.Violate(c11Key(cfg, m, mf), fmt.Sprintf("%s: history %v: %s", cfg, m, mf),
							c11Replay{Part: "hist", Config: cfg, Events: m})
						return
					}
					if len(h) < depth {
						for _, e := range alpha {
							rec(append(append([]c11Event{}, h...), e))
						}
						return
					}
					// leaf. isolation: A's responses are unchanged when the other
					// clients' requests are deleted (prefixes are covered: deletion
					// commutes with taking a prefix)
					var ha []c11Event
					dropped := false
					for _, e := range h {
						if (e.Kind == "req" && c11Client(cfg, e) != ipA) || e.Kind == "flood" {
							dropped = true
							continue
						}
						ha = append(ha, e)
					}
					if dropped {
						_, f2, resp2 := c11Run(cfg, ha)
						res.Evaluations++
						var ra []string
						for _, r := range resp {
							if strings.HasPrefix(r, ipA+":") {
								ra = append(ra, r)
							}
						}
						if f2 == "" && strings.Join(ra, ",") != strings.Join(resp2, ",") {
							res.Violate(c11Key(cfg, h, "changed when"), fmt.Sprintf("%s: history %v: responses to %s are %v but %v changed when the other client's requests are removed", cfg, h, ipA, ra, resp2),
								c11Replay{Part: "hist", Config: cfg, Events: append([]c11Event{}, h...)})
							return
						}
					}
					if res.Evaluations%997 == 0 {
						res.Sample(4, map[string]any{"config": cfg.String(), "history": fmt.Sprint(h), "responses": resp})
					}
				}
				rec([]c11Event{alpha[first]})
			}
		}
	}
	if !passExpired[0] {
		res.Count("shards_that_completed_every_configuration_at_depth_bound_minus_1", 1)
	}
	if !passExpired[0] && !passExpired[1] {
		res.Count("shards_that_completed_every_configuration_at_depth_bound", 1)
	}
	res.Write(p)
}

// ---------------------------------------------------------------------------
// schedules

type c11Scen struct {
	Name    string
	Cfg     c11Config
	Setup   []c11Event
	Threads [][]c11Event
}

func c11Scens() []c11Scen {
	rA := c11Event{Kind: "req", From: ipA}
	rB := c11Event{Kind: "req", From: ipB}
	return []c11Scen{
		{"two-requests-one-token", c11Config{N: 1, Unit: "min"}, nil, [][]c11Event{{rA}, {rA}}},
		{"three-requests-two-tokens", c11Config{N: 2, Unit: "min"}, nil, [][]c11Event{{rA}, {rA}, {rA}}},
		{"refill-boundary", c11Config{N: 1, Unit: "min"}, []c11Event{rA, {Kind: "adv", AdvNum: 1, AdvDen: 1}}, [][]c11Event{{rA}, {rA}}},
		{"two-clients", c11Config{N: 1, Unit: "min"}, nil, [][]c11Event{{rA, rA}, {rB}}},
		{"cleanup-vs-request", c11Config{N: 1, Unit: "min"}, []c11Event{rA, {Kind: "adv", AdvNum: int64(10*time.Minute + 30*time.Second)}},
			[][]c11Event{{{Kind: "tick"}}, {rA}, {rA}}},
	}
}

func c11Concurrent(sc c11Scen, statuses *[]string) func() {
	return func() {
		s := newC11Sys(sc.Cfg)
		for _, e := range sc.Setup {
			s.apply(e)
		}
		vrt.WaitIdle()
		base := s.marker
		var fs []func()
		out := make([][]string, len(sc.Threads))
		for ti, th := range sc.Threads {
			ti, th := ti, th
			fs = append(fs, func() {
				for _, e := range th {
					if e.Kind == "tick" {
						vrt.AdvanceNoWait(60 * time.Second)
						continue
					}
					req := httptest.NewRequest("GET", "/r", nil)
					req.RemoteAddr = e.From + ":5000"
					rec := httptest.NewRecorder()
					_ = s.h(&server.Context{Request: req, ResponseWriter: rec})
					out[ti] = append(out[ti], fmt.Sprintf("%s:%d", e.From, rec.Code))
				}
			})
		}
		vrt.Parallel(fs...)
		vrt.WaitIdle()
		for _, o := range out {
			*statuses = append(*statuses, o...)
		}
		*statuses = append(*statuses, fmt.Sprintf("ran=%d", s.marker-base))
	}
}

// c11SeqOutcomes: the multiset of admitted counts per client reachable by
// running the threads' requests in any sequential order.
func c11SeqOutcomes(sc c11Scen) map[string]bool {
	out := map[string]bool{}
	// all interleavings at request granularity
	idx := make([]int, len(sc.Threads))
	var order []c11Event
	var rec func()
	rec = func() {
		done := true
		for ti, th := range sc.Threads {
			if idx[ti] < len(th) {
				done = false
				idx[ti]++
				order = append(order, th[idx[ti]-1])
				rec()
				order = order[:len(order)-1]
				idx[ti]--
			}
		}
		if done {
			counts := map[string]int{}
			vrt.RunOnce(vrt.Config{NoAutoTimers: true}, nil, func() {
				s := newC11Sys(sc.Cfg)
				for _, e := range sc.Setup {
					s.apply(e)
				}
				vrt.WaitIdle()
				for _, e := range order {
					if e.Kind == "tick" {
						vrt.Advance(60 * time.Second)
						continue
					}
					st, _ := s.request(e)
					if st != 429 {
						counts[e.From]++
					}
				}
			})
			out[fmt.Sprint(counts[ipA], counts[ipB])] = true
		}
	}
	rec()
	return out
}

func c11JudgeSched(sc c11Scen, x *vrt.Exec, statuses []string, seq map[string]bool) string {
	if x.Outcome.Kind != "ok" {
		return x.Outcome.Kind + ": " + x.Outcome.Detail
	}
	if len(x.Races) > 0 {
		return "data race: " + x.Races[0]
	}
	counts := map[string]int{}
	ran := ""
	for _, s := range statuses {
		if strings.HasPrefix(s, "ran=") {
			ran = s
			continue
		}
		if !strings.HasSuffix(s, ":429") {
			counts[strings.Split(s, ":")[0]]++
		}
	}
	if ran != fmt.Sprintf("ran=%d", counts[ipA]+counts[ipB]) {
		return fmt.Sprintf("body ran %s times but %d requests were admitted (not explained by any order)", ran, counts[ipA]+counts[ipB])
	}
	if !seq[fmt.Sprint(counts[ipA], counts[ipB])] {
		return fmt.Sprintf("admitted per client A=%d B=%d is not explained by any sequential order of the requests (possible: %v)", counts[ipA], counts[ipB], seq)
	}
	return ""
}

func c11Schedules(p vk.Params, res *vk.Result) {
	bound := 2
	if p.Thorough {
		bound = 3
	}
	res.Bounds["preemption_bound"] = bound
	for _, sc := range c11Scens() {
		// every scenario is spread over all shards (a shard explores its share of the first-level alternatives): the
		// three-thread scenarios are far more expensive than the others
		seq := c11SeqOutcomes(sc)
		var statuses []string
		outcomes := vk.DistinctSet{}
		st := vrt.Explore(vrt.Config{MaxPreempt: bound, Races: true, NoAutoTimers: true, Deadline: p.Deadline, Shard: p.Shard, NShard: p.NShard},
			func() { statuses = nil; c11Concurrent(sc, &statuses)() },
			func(x *vrt.Exec) bool {
				outcomes.Add(strings.Join(statuses, ","))
				if f := c11JudgeSched(sc, x, statuses, seq); f != "" {
					key := "sched/" + sc.Name + "/" + c11Kind(f)
					if strings.HasPrefix(f, "data race") {
						key = "sched/" + vrt.RaceKey(f)
					}
					res.Violate(key, sc.Name+": "+f+" schedule="+vrt.FormatChoices(x.Choices), c11Replay{Part: "sched", Scen: sc.Name, Choices: x.Choices})
				}
				return true
			})
		res.Evaluations += int64(st.Execs)
		res.Transitions += int64(st.Transitions)
		res.States += int64(st.States)
		res.Distinct += outcomes.Len()
		res.Count("schedules", int64(st.Execs))
		res.Count("sched_outcomes_seen_summed_over_shards_"+sc.Name, outcomes.Len())
		if !st.Complete {
			res.Exhaustive = false
		}
	}
}

func c11ReplaySched(rp c11Replay, res *vk.Result) bool {
	for _, sc := range c11Scens() {
		if sc.Name != rp.Scen {
			continue
		}
		seq := c11SeqOutcomes(sc)
		var first string
		for i := 0; i < 2; i++ {
			var statuses []string
			x := vrt.RunOnce(vrt.Config{Races: true, NoAutoTimers: true, Trace: true}, rp.Choices, c11Concurrent(sc, &statuses))
			f := c11JudgeSched(sc, x, statuses, seq)
			if i == 0 {
				first = f
				fmt.Printf("replay %s %v\n%s\n-> %q\n", sc.Name, rp.Choices, strings.Join(x.Trace, "\n"), f)
			} else if f != first {
				return false
			}
		}
		if first != "" {
			key := "sched/" + sc.Name + "/" + c11Kind(first)
			if strings.HasPrefix(first, "data race") {
				key = "sched/" + vrt.RaceKey(first)
			}
			res.Violate(key, first, rp)
			return true
		}
	}
	return false
}
