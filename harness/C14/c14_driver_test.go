package database

// Fault-injecting database/sql driver for C14: wraps the pure-Go SQLite driver
// the repository already links, counts the driver calls made while an
// operation under test is running (BeginTx, ExecContext, QueryContext, Commit,
// Rollback) and makes the k-th one report failure.
//
// Failure semantics (what a failing call does to the database) are the
// conservative ones of a real server: a failed Begin/Exec/Query has no effect,
// a failed Commit aborts the transaction (like a serialization failure), a
// failed Rollback still aborts it (the server drops the transaction of a broken
// session).  Mode "badconn" reports driver.ErrBadConn instead of a plain error,
// which makes database/sql discard the connection (and transparently retry a
// Begin / pool-level Exec on a fresh one).

import (
	"context"
	"database/sql"
	"database/sql/driver"
	"errors"
	"sync"
)

const c14DriverName = "verif_c14_sqlite"

var c14ErrInjected = errors.New("c14: injected driver failure")

// c14Ctl is the fault plan and call counter of one system (one DSN).
type c14Ctl struct {
	mu     sync.Mutex
	armed  bool
	calls  int    // calls counted since arm()
	failAt int    // 1-based index of the call that fails; 0 = none
	mode   string // "err" | "badconn"
	failed string // name of the call that was failed ("" = none yet)
	log    []string
	parked []driver.Conn // SQLite connections "closed" by database/sql, kept for reuse
}

func (c *c14Ctl) arm(failAt int, mode string) {
	c.mu.Lock()
	c.armed, c.calls, c.failAt, c.mode, c.failed, c.log = true, 0, failAt, mode, "", c.log[:0]
	c.mu.Unlock()
}

// disarm stops counting and returns the number of calls seen, the name of the
// failed call and the call log.
func (c *c14Ctl) disarm() (int, string, []string) {
	c.mu.Lock()
	defer c.mu.Unlock()
	c.armed = false
	return c.calls, c.failed, append([]string{}, c.log...)
}

func (c *c14Ctl) hit(name string) error {
	c.mu.Lock()
	defer c.mu.Unlock()
	if !c.armed {
		return nil
	}
	c.calls++
	c.log = append(c.log, name)
	if c.calls == c.failAt {
		c.failed = name
		if c.mode == "badconn" {
			return driver.ErrBadConn
		}
		return c14ErrInjected
	}
	return nil
}

var c14Ctls sync.Map // DSN -> *c14Ctl

// c14Driver.  Opening and closing a modernc SQLite connection costs ~10 ms,
// and every ErrBadConn fault makes database/sql drop a connection.  Close
// therefore rolls back the open transaction of the SQLite connection (which is
// what closing it would do: a transaction is the only session state these
// histories create) and parks it; the next Open of the same DSN hands it out
// again as a "new" connection.  c14Ctl.purge really closes the parked ones.
type c14Driver struct{ inner driver.Driver }

func (d *c14Driver) Open(name string) (driver.Conn, error) {
	v, ok := c14Ctls.Load(name)
	if !ok {
		return nil, errors.New("c14: unknown DSN " + name)
	}
	ctl := v.(*c14Ctl)
	ctl.mu.Lock()
	if n := len(ctl.parked); n > 0 {
		c := ctl.parked[n-1]
		ctl.parked = ctl.parked[:n-1]
		ctl.mu.Unlock()
		return &c14Conn{inner: c, ctl: ctl}, nil
	}
	ctl.mu.Unlock()
	c, err := d.inner.Open(name)
	if err != nil {
		return nil, err
	}
	return &c14Conn{inner: c, ctl: ctl}, nil
}

func (c *c14Ctl) purge() {
	c.mu.Lock()
	p := c.parked
	c.parked = nil
	c.mu.Unlock()
	for _, x := range p {
		x.Close()
	}
}

func init() {
	// the driver instance modernc.org/sqlite registered as "sqlite"
	db, err := sql.Open("sqlite", ":memory:")
	if err != nil {
		panic(err)
	}
	inner := db.Driver()
	db.Close()
	sql.Register(c14DriverName, &c14Driver{inner: inner})
}

// c14Conn forwards everything database/sql looks for on the SQLite connection
// (so that the pool behaves exactly as with the unwrapped driver: context-aware
// Begin/Exec/Query, session reset + validation => connection kept on rollback).
type c14Conn struct {
	inner  driver.Conn
	ctl    *c14Ctl
	mu     sync.Mutex
	openTx driver.Tx // the SQLite-level transaction in progress, if any
	closed bool
}

var (
	_ driver.ConnBeginTx        = (*c14Conn)(nil)
	_ driver.ExecerContext      = (*c14Conn)(nil)
	_ driver.QueryerContext     = (*c14Conn)(nil)
	_ driver.ConnPrepareContext = (*c14Conn)(nil)
	_ driver.Pinger             = (*c14Conn)(nil)
	_ driver.SessionResetter    = (*c14Conn)(nil)
	_ driver.Validator          = (*c14Conn)(nil)
)

func (c *c14Conn) Prepare(q string) (driver.Stmt, error) { return c.inner.Prepare(q) }
func (c *c14Conn) PrepareContext(ctx context.Context, q string) (driver.Stmt, error) {
	return c.inner.(driver.ConnPrepareContext).PrepareContext(ctx, q)
}
func (c *c14Conn) Close() error {
	c.mu.Lock()
	t, was := c.openTx, c.closed
	c.openTx, c.closed = nil, true
	c.mu.Unlock()
	if was {
		return nil
	}
	if t != nil {
		t.Rollback() // closing a SQLite connection rolls its transaction back
	}
	c.ctl.mu.Lock()
	c.ctl.parked = append(c.ctl.parked, c.inner)
	c.ctl.mu.Unlock()
	return nil
}
func (c *c14Conn) txDone() {
	c.mu.Lock()
	c.openTx = nil
	c.mu.Unlock()
}
func (c *c14Conn) Ping(ctx context.Context) error { return c.inner.(driver.Pinger).Ping(ctx) }
func (c *c14Conn) IsValid() bool                  { return c.inner.(driver.Validator).IsValid() }
func (c *c14Conn) ResetSession(ctx context.Context) error {
	return c.inner.(driver.SessionResetter).ResetSession(ctx)
}
func (c *c14Conn) Begin() (driver.Tx, error) {
	return c.BeginTx(context.Background(), driver.TxOptions{})
}

func (c *c14Conn) BeginTx(ctx context.Context, opts driver.TxOptions) (driver.Tx, error) {
	if err := c.ctl.hit("Begin"); err != nil {
		return nil, err
	}
	t, err := c.inner.(driver.ConnBeginTx).BeginTx(ctx, opts)
	if err != nil {
		return nil, err
	}
	c.mu.Lock()
	c.openTx = t
	c.mu.Unlock()
	return &c14DrvTx{inner: t, ctl: c.ctl, conn: c}, nil
}

func (c *c14Conn) ExecContext(ctx context.Context, q string, args []driver.NamedValue) (driver.Result, error) {
	if err := c.ctl.hit("Exec"); err != nil {
		return nil, err
	}
	return c.inner.(driver.ExecerContext).ExecContext(ctx, q, args)
}

func (c *c14Conn) QueryContext(ctx context.Context, q string, args []driver.NamedValue) (driver.Rows, error) {
	if err := c.ctl.hit("Query"); err != nil {
		return nil, err
	}
	return c.inner.(driver.QueryerContext).QueryContext(ctx, q, args)
}

type c14DrvTx struct {
	inner driver.Tx
	ctl   *c14Ctl
	conn  *c14Conn
}

func (t *c14DrvTx) Commit() error {
	defer t.conn.txDone()
	if err := t.ctl.hit("Commit"); err != nil {
		t.inner.Rollback() // a commit that reports failure did not commit
		return err
	}
	return t.inner.Commit()
}

func (t *c14DrvTx) Rollback() error {
	defer t.conn.txDone()
	if err := t.ctl.hit("Rollback"); err != nil {
		t.inner.Rollback() // the transaction of a broken session is aborted all the same
		return err
	}
	return t.inner.Rollback()
}
