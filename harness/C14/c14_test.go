package database

// Verification harness for C14 (database transactions are all-or-nothing).
//
// In-package with pkg/database.  The wrappers under test (SQLiteDB, PostgresDB,
// MySQLDB, ORM over PostgresDB) are constructed around a *sql.DB that talks to
// an in-memory SQLite database through a fault-injecting database/sql driver
// (c14_driver_test.go).  Every case of a stated finite space is executed on the
// real code (c14_exec_test.go) and judged after every operation:
//
//   reference = the rows after applying exactly the statements that reported
//   success inside those transactions whose callback returned nil AND whose
//   Transaction call returned nil (plain statements / BulkInsert calls that
//   returned nil);
//   (1) the table read by a trivial follow-up transaction on the same handle and
//       the table read by a second connection both equal the reference,
//   (2) that follow-up transaction succeeds (bounded context),
//   (3) no connection stays checked out of the pool,
//   (4) a callback panic reaches the caller with its value, nothing else panics,
//   (5) every call returns (watchdog).
//
// Space: a tree of histories.  Level-1 operations come from a large alphabet;
// histories of length 2 and 3 are all sequences over smaller alphabets (each a
// subset of the previous one).  For every history without a failing prefix and
// every operation in it, every driver-call index k of that operation x
// {plain error, driver.ErrBadConn} is run as well (operations that cancel their
// context are not combined with driver faults: the pool's asynchronous
// rollback makes the call order racy).  A history is extended only while it
// has no violation.

import (
	"fmt"
	"hash/fnv"
	"strings"
	"testing"

	"github.com/glyphlang/glyph/internal/verif/vk"
)

// runtime.Goexit inside the callback is outside the property's quantifier (the callback neither returns nor
// panics), so it is not enumerated; the executor still supports it for replays.
var c14Kinds = []string{"err", "panic", "stmt", "norows", "cancel_nil", "cancel_err"}

// panics whose value is an error / a runtime error: enumerated on short programs at the first level
var c14PanicKinds = []string{"panic_err", "panic_rt"}

func c14Progs(letters string, maxLen int) []string {
	out := []string{""}
	prev := []string{""}
	for l := 1; l <= maxLen; l++ {
		var cur []string
		for _, p := range prev {
			for i := 0; i < len(letters); i++ {
				cur = append(cur, p+string(letters[i]))
			}
		}
		out = append(out, cur...)
		prev = cur
	}
	return out
}

// c14TxOps: every program without a fault and with every fault kind at every position.
func c14TxOps(progs []string, kinds []string) []c14Op {
	var ops []c14Op
	for _, p := range progs {
		ops = append(ops, c14Op{Kind: "tx", Tx: &c14Tx{Prog: p}})
		for pos := 0; pos <= len(p); pos++ {
			for _, k := range kinds {
				ops = append(ops, c14Op{Kind: "tx", Tx: &c14Tx{Prog: p, Fault: c14Fault{Kind: k, Pos: pos}}})
			}
		}
	}
	return ops
}

func c14BulkOps(variants []string) []c14Op {
	var ops []c14Op
	for _, v := range variants {
		ops = append(ops, c14Op{Kind: "bulk", Bulk: v})
	}
	return ops
}

// c14FaultOps: like c14TxOps without the fault-free variants (for additional fault kinds on programs already listed).
func c14FaultOps(progs []string, kinds []string) []c14Op {
	var ops []c14Op
	for _, o := range c14TxOps(progs, kinds) {
		if o.Tx.Fault.Kind != "" {
			ops = append(ops, o)
		}
	}
	return ops
}

// c14NestOps: outer transaction whose callback calls Transaction again.  Faults
// of inner and outer callback sit at the end of their programs.
func c14NestOps(outer []string, inner []string, innerKinds, outerKinds []string, props []bool) []c14Op {
	var ops []c14Op
	for _, op := range outer {
		for pos := 0; pos <= len(op); pos++ {
			for _, ip := range inner {
				for _, ik := range innerKinds {
					for _, pr := range props {
						for _, ok := range outerKinds {
							t := &c14Tx{Prog: op, Nest: &c14Nest{Pos: pos, Propagate: pr, Tx: c14Tx{Prog: ip}}}
							if ik != "" {
								t.Nest.Tx.Fault = c14Fault{Kind: ik, Pos: len(ip)}
							}
							if ok != "" {
								t.Fault = c14Fault{Kind: ok, Pos: len(op)}
							}
							ops = append(ops, c14Op{Kind: "tx", Tx: t})
						}
					}
				}
			}
		}
	}
	return ops
}

// c14Levels returns the operation alphabets: level[d] is used by histories
// that reach length d+1 (level[1] ⊆ level[0], level[2] ⊆ level[1]).
func c14Levels(thorough bool, tgt c14Target) [3][]c14Op {
	var lv [3][]c14Op
	stmt := c14Op{Kind: "stmt"}
	isORM := strings.HasPrefix(tgt.Wrapper, "orm")
	add := func(d int, ops ...c14Op) {
		for _, o := range ops {
			if isORM && o.Kind != "tx" {
				continue // BulkInsert / Exec of the ORM targets are PostgresDB's own: covered by the postgres target
			}
			lv[d] = append(lv[d], o)
		}
	}
	if !thorough {
		add(0, c14TxOps(c14Progs("iudxq", 3), c14Kinds)...)
		add(0, c14TxOps([]string{"o", "oi", "io"}, c14Kinds)...)
		add(0, c14FaultOps(c14Progs("iu", 2), c14PanicKinds)...)
		add(0, c14BulkOps([]string{"B", "Bc", "cB", "Bs", "BcB"})...)
		add(0, c14NestOps([]string{"i"}, []string{"i", "u"}, []string{"", "err", "panic"}, []string{"", "err", "panic"}, []bool{false, true})...)
		add(0, c14BulkOps(append(c14Progs("gsc", 3), "n", "gn", "ng", "gng"))...)
		add(0, stmt)
		add(1, c14TxOps(c14Progs("iux", 1), c14Kinds)...)
		add(1, c14NestOps([]string{"i"}, []string{"i"}, []string{"", "err"}, []string{""}, []bool{false})...)
		add(1, c14BulkOps([]string{"g", "gc", "sg"})...)
		add(1, stmt)
		add(2, c14TxOps([]string{"i"}, []string{"err", "panic", "stmt", "norows", "cancel_nil", "cancel_err"})...)
		add(2, c14Op{Kind: "tx", Tx: &c14Tx{Prog: "u"}})
		add(2, c14BulkOps([]string{"gc"})...)
		add(2, stmt)
		return lv
	}
	add(0, c14TxOps(c14Progs("iudxq", 4), c14Kinds)...)
	var withO []string
	for _, pr := range c14Progs("iudxqo", 3) {
		if strings.Contains(pr, "o") {
			withO = append(withO, pr)
		}
	}
	add(0, c14TxOps(withO, c14Kinds)...)
	add(0, c14FaultOps(c14Progs("iudx", 3), c14PanicKinds)...)
	add(0, c14BulkOps([]string{"B", "Bc", "cB", "Bs", "sB", "Bn", "BcB", "BB", "BBc"})...)
	add(1, c14FaultOps([]string{"i"}, c14PanicKinds)...)
	add(1, c14BulkOps([]string{"Bc"})...)
	add(0, c14NestOps([]string{"i", "ui"}, []string{"", "i", "u", "q"}, []string{"", "err", "panic", "stmt", "cancel_nil"}, []string{"", "err", "panic"}, []bool{false, true})...)
	add(0, c14BulkOps(c14Progs("gscn", 4))...)
	add(0, stmt)
	add(1, c14TxOps(append(c14Progs("iuxoqd", 1), "iu", "ui"), c14Kinds)...)
	add(1, c14NestOps([]string{"i"}, []string{"i", "u"}, []string{"", "err", "panic"}, []string{"", "err"}, []bool{false, true})...)
	add(1, c14BulkOps([]string{"g", "gc", "sg", "gg", "cg", "gn"})...)
	add(1, stmt)
	add(2, c14TxOps([]string{"i"}, c14Kinds)...)
	add(2, c14Op{Kind: "tx", Tx: &c14Tx{Prog: "u"}}, c14Op{Kind: "tx", Tx: &c14Tx{Prog: "u", Fault: c14Fault{Kind: "err", Pos: 1}}})
	add(2, c14NestOps([]string{"i"}, []string{"i"}, []string{""}, []string{""}, []bool{false})...)
	add(2, c14BulkOps([]string{"gc"})...)
	add(2, stmt)
	return lv
}

func c14Targets(thorough bool) []c14Target {
	t := []c14Target{{"sqlite", 1}, {"postgres", 4}, {"mysql", 4}, {"orm", 4}, {"orm-rawtx", 4}}
	if thorough {
		t = append(t, c14Target{"postgres", 1}, c14Target{"mysql", 1})
	}
	return t
}

// ---------------------------------------------------------------------------

func c14HasCancel(t *c14Tx) bool {
	if strings.HasPrefix(t.Fault.Kind, "cancel") {
		return true
	}
	return t.Nest != nil && c14HasCancel(&t.Nest.Tx)
}

func c14HasFault(cs *c14Case) bool {
	if cs.DF.K > 0 {
		return true
	}
	for _, o := range cs.Ops {
		switch o.Kind {
		case "tx":
			if o.Tx.Fault.Kind != "" || o.Tx.Nest != nil || strings.ContainsAny(o.Tx.Prog, "x") {
				return true
			}
		case "bulk":
			if strings.ContainsAny(o.Bulk, "scn") {
				return true
			}
		}
	}
	return false
}

type c14Replay struct {
	Case     c14Case `json:"case"`
	FailKind string  `json:"fail_kind"`
	Key      string  `json:"key"`
}

type c14Enum struct {
	p        vk.Params
	res      *vk.Result
	systems  map[c14Target]*c14Sys
	stop     bool
	preSeen  map[string]bool
	keySeen  map[string]bool
	maxDepth int
	levels   [3][]c14Op
	inLevel  [3]map[string]bool
}

func (e *c14Enum) sys(t c14Target, fresh bool) *c14Sys {
	s := e.systems[t]
	if s != nil && (fresh || !s.reset()) {
		s.close()
		s = nil
		e.res.Count("system_rebuilds", 1)
	}
	if s == nil {
		s = c14NewSys(t)
		if !s.reset() {
			panic("c14: cannot seed a fresh system")
		}
		e.systems[t] = s
	}
	return s
}

func (e *c14Enum) run(cs *c14Case, fresh bool) c14Outcome {
	var out c14Outcome
	for attempt := 0; attempt < 4; attempt++ {
		s := e.sys(cs.Target, fresh)
		out = c14RunCase(s, cs)
		if out.Dirty || out.Void {
			s.close()
			delete(e.systems, cs.Target)
			e.res.Count("system_rebuilds", 1)
		}
		if !out.Void {
			break
		}
		// a time bound was hit (never expected: the one wait these histories
		// can cause is ended explicitly): suspended VM or a starved process;
		// the run is repeated, a real hang shows again
		e.res.Count("reruns_after_time_bound", 1)
	}
	return out
}

func (e *c14Enum) closeAll() {
	for _, s := range e.systems {
		s.close()
	}
}

func c14Hash(s string) uint32 {
	h := fnv.New32a()
	h.Write([]byte(s))
	return h.Sum32()
}

// c14Shrink greedily removes operations, statements, the nested call and the
// driver fault while the case keeps failing with the same failure kind.
func (e *c14Enum) shrink(cs *c14Case, out c14Outcome) (*c14Case, c14Outcome) {
	kind := c14FailClass(out.Fail)
	cur := cs.clone()
	cur.Ops = cur.Ops[:out.FailAt+1]
	if cur.DF.K > 0 && cur.DF.Op > out.FailAt {
		cur.DF = c14DF{}
	}
	try := func(c *c14Case) bool {
		o := e.run(c, false)
		e.res.Count("shrink_runs", 1)
		if o.Fail != "" && c14FailClass(o.Fail) == kind {
			c.Ops = c.Ops[:o.FailAt+1]
			if c.DF.K > 0 && c.DF.Op > o.FailAt {
				c.DF = c14DF{}
			}
			cur, out = c, o
			return true
		}
		return false
	}
	dropStep := func(t *c14Tx, i int) {
		t.Prog = t.Prog[:i] + t.Prog[i+1:]
		if t.Fault.Kind != "" && t.Fault.Pos > i {
			t.Fault.Pos--
		}
		if t.Nest != nil && t.Nest.Pos > i {
			t.Nest.Pos--
		}
	}
	for changed := true; changed; {
		changed = false
		var cands []*c14Case
		if cur.DF.K > 0 {
			c := cur.clone()
			c.DF = c14DF{}
			cands = append(cands, c)
		}
		// a failing driver call inside a callback is, for the wrapper, just a
		// callback that returns an error; a panic / failing statement / ... may
		// be replaceable by the plain error return: canonical forms first
		if cur.DF.K > 0 && cur.DF.Op < len(cur.Ops) {
			if o := cur.Ops[cur.DF.Op]; o.Kind == "tx" && o.Tx.Fault.Kind == "" {
				for pos := 0; pos <= len(o.Tx.Prog); pos++ {
					c := cur.clone()
					c.DF = c14DF{}
					c.Ops[cur.DF.Op].Tx.Fault = c14Fault{Kind: "err", Pos: pos}
					cands = append(cands, c)
				}
			}
		}
		for i, o := range cur.Ops {
			if o.Kind != "tx" {
				continue
			}
			if k := o.Tx.Fault.Kind; k != "" && k != "err" {
				c := cur.clone()
				c.Ops[i].Tx.Fault.Kind = "err"
				cands = append(cands, c)
			}
			if o.Tx.Nest != nil {
				if k := o.Tx.Nest.Tx.Fault.Kind; k != "" && k != "err" {
					c := cur.clone()
					c.Ops[i].Tx.Nest.Tx.Fault.Kind = "err"
					cands = append(cands, c)
				}
			}
		}
		for i := range cur.Ops {
			if len(cur.Ops) == 1 {
				break
			}
			c := cur.clone()
			c.Ops = append(c.Ops[:i], c.Ops[i+1:]...)
			switch {
			case c.DF.K > 0 && c.DF.Op == i:
				c.DF = c14DF{}
			case c.DF.K > 0 && c.DF.Op > i:
				c.DF.Op--
			}
			cands = append(cands, c)
		}
		for i, o := range cur.Ops {
			switch o.Kind {
			case "bulk":
				for j := range o.Bulk {
					c := cur.clone()
					c.Ops[i].Bulk = o.Bulk[:j] + o.Bulk[j+1:]
					if c.DF.K > 0 && c.DF.Op == i {
						c.DF = c14DF{}
					}
					cands = append(cands, c)
				}
			case "tx":
				if o.Tx.Nest != nil {
					c := cur.clone()
					c.Ops[i].Tx.Nest = nil
					cands = append(cands, c)
					if o.Tx.Fault.Kind == "" && o.Tx.Nest.Propagate {
						// an inner call whose error the callback returns ~ a callback that returns an error
						c = cur.clone()
						c.Ops[i].Tx.Nest = nil
						c.Ops[i].Tx.Fault = c14Fault{Kind: "err", Pos: o.Tx.Nest.Pos}
						cands = append(cands, c)
					}
					c = cur.clone()
					in := o.Tx.Nest.Tx
					c.Ops[i].Tx = &in
					cands = append(cands, c)
					for j := range o.Tx.Nest.Tx.Prog {
						c := cur.clone()
						dropStep(&c.Ops[i].Tx.Nest.Tx, j)
						cands = append(cands, c)
					}
					if o.Tx.Nest.Tx.Fault.Kind != "" {
						c := cur.clone()
						c.Ops[i].Tx.Nest.Tx.Fault = c14Fault{}
						cands = append(cands, c)
					}
				}
				for j := range o.Tx.Prog {
					c := cur.clone()
					dropStep(c.Ops[i].Tx, j)
					cands = append(cands, c)
				}
				for j := range o.Tx.Prog {
					if o.Tx.Prog[j] != 'i' { // the plainest statement
						c := cur.clone()
						c.Ops[i].Tx.Prog = o.Tx.Prog[:j] + "i" + o.Tx.Prog[j+1:]
						cands = append(cands, c)
					}
				}
				if o.Tx.Fault.Kind != "" && o.Tx.Fault.Pos > 0 {
					c := cur.clone()
					c.Ops[i].Tx.Fault.Pos--
					cands = append(cands, c)
				}
				if o.Tx.Fault.Kind != "" && o.Tx.Nest != nil {
					c := cur.clone()
					c.Ops[i].Tx.Fault = c14Fault{}
					cands = append(cands, c)
				}
			}
		}
		if cur.DF.K > 0 && cur.DF.Mode != "err" {
			c := cur.clone()
			c.DF.Mode = "err"
			cands = append(cands, c)
		}
	candidates:
		for _, c := range cands {
			if c.DF.K > 0 && c.DF.Op >= len(c.Ops) {
				continue
			}
			if try(c) {
				changed = true
				break
			}
			if c.DF.K > 1 && c.DF.Op == cur.DF.Op && c.Ops[c.DF.Op].String() != cur.Ops[cur.DF.Op].String() {
				// the operation the driver fault hits got smaller: the same call
				// has an earlier index now
				for k := c.DF.K - 1; k >= 1; k-- {
					c2 := c.clone()
					c2.DF.K = k
					if try(c2) {
						changed = true
						break candidates
					}
				}
			}
		}
	}
	return cur, out
}

// c14FailClass: for shrinking, the three ways a table can disagree with the
// reference are one class (a nested case of mixed outcome may shrink to a plain one).
func c14FailClass(fail string) string {
	switch k := c14FailKind(fail); k {
	case "rolled-back-work-visible", "committed-work-missing", "atomicity-violated":
		return "table-mismatch"
	default:
		return k
	}
}

func (e *c14Enum) key(cs *c14Case, out c14Outcome) string {
	kind := c14FailKind(out.Fail)
	if cs.Target.Wrapper == "orm" {
		// Does the same case pass when the callback uses the *sql.Tx that
		// ORM.Transaction stored in the context instead of the ORM's own
		// methods?  Then the failure is "ORM methods ignore the transaction".
		alt := cs.clone()
		alt.Target.Wrapper = "orm-rawtx"
		if o2 := e.run(alt, false); c14FailKind(o2.Fail) != kind {
			switch kind {
			case "rolled-back-work-visible", "committed-work-missing", "atomicity-violated":
				return "orm-methods-bypass-transaction/partial-effects"
			}
			return "orm-methods-bypass-transaction/" + kind
		}
	}
	shape := c14OpsString(cs.Ops)
	if cs.DF.K > 0 {
		shape += fmt.Sprintf("#op%d.%s:%s", cs.DF.Op, out.FailedCall, cs.DF.Mode)
	}
	return kind + "/" + cs.Target.String() + "/" + shape
}

func c14PreKey(cs *c14Case, out c14Outcome) string {
	op := cs.Ops[out.FailAt]
	s := c14FailKind(out.Fail) + "|" + cs.Target.String() + "|" + op.Kind
	if op.Tx != nil {
		s += "|" + op.Tx.Fault.Kind
		if op.Tx.Nest != nil {
			s += "|nest:" + op.Tx.Nest.Tx.Fault.Kind
		}
	}
	if cs.DF.K > 0 && cs.DF.Op <= out.FailAt {
		s += "|" + strings.TrimRight(out.FailedCall, "0123456789") + ":" + cs.DF.Mode
	}
	return s
}

func (e *c14Enum) report(cs *c14Case, out c14Outcome) {
	e.res.Count("failing_cases", 1)
	e.res.Count("failing_cases/"+c14FailKind(out.Fail), 1)
	pk := c14PreKey(cs, out)
	if e.preSeen[pk] {
		e.res.Suppressed++
		return
	}
	e.preSeen[pk] = true
	m, mo := e.shrink(cs, out)
	k := e.key(m, mo)
	if e.keySeen[k] {
		e.res.Suppressed++
		return
	}
	e.keySeen[k] = true
	// confirm on a freshly built system (the enumeration reuses connections)
	fo := e.run(m, true)
	if fo.Fail == "" || e.key(m, fo) != k {
		// surfaced all the same: the driver's replay validation decides
		e.res.Count("not_reproduced_on_fresh_system", 1)
		e.res.Violate(k, fmt.Sprintf("%s: %s (inside the shard a freshly built system gave %q)", m, mo.Fail, fo.Fail), c14Replay{Case: *m, FailKind: c14FailKind(mo.Fail), Key: k})
		return
	}
	e.res.Violate(k, fmt.Sprintf("%s: %s", m, fo.Fail), c14Replay{Case: *m, FailKind: c14FailKind(fo.Fail), Key: k})
}

func c14DFAllowed(op c14Op) bool {
	return op.Kind != "tx" || !c14HasCancel(op.Tx)
}

var c14DFModes = []string{"err", "badconn"}

func (e *c14Enum) visit(tgt c14Target, ops []c14Op, df c14DF) {
	if e.stop {
		return
	}
	if e.p.Expired() {
		e.res.Exhaustive = false
		e.stop = true
		return
	}
	// The tree is walked in passes: pass D accounts for the histories of
	// length D; shorter ones are re-executed (all shards) only as prefixes,
	// because a history is extended only while it has no violation.
	depth := len(ops)
	hasKids := depth < e.maxDepth
	if hasKids {
		for _, o := range ops {
			if !e.inLevel[depth][o.String()] {
				hasKids = false
				break
			}
		}
	}
	if depth < e.maxDepth && !hasKids {
		return
	}
	// ownership: the first two operations decide the shard
	n := depth
	if n > 2 {
		n = 2
	}
	mine := e.p.NShard <= 1 || int(c14Hash(tgt.String()+" "+c14OpsString(ops[:n]))%uint32(e.p.NShard)) == e.p.Shard
	if !mine && depth >= 2 {
		return // somebody else's subtree
	}
	own := depth == e.maxDepth
	if own && !mine {
		return
	}
	cs := &c14Case{Target: tgt, Ops: ops, DF: df}
	out := e.run(cs, false)
	if own {
		e.res.Evaluations++
		e.res.Count(fmt.Sprintf("cases/length=%d", depth), 1)
		if df.K > 0 {
			e.res.Count("cases/with_driver_fault", 1)
		}
		if c14HasFault(cs) {
			e.res.Distinct++
		}
		e.res.Count("nested_call_waited_for_the_only_connection_until_its_context_ended", int64(out.NestedBlocked))
		if e.res.Evaluations%1009 == 1 {
			e.res.Sample(6, map[string]any{"case": cs.String(), "driver_calls_per_op": out.Calls, "verdict": "ok:" + fmt.Sprint(out.Fail == "")})
		}
		if out.Fail != "" {
			e.report(cs, out)
		}
	} else {
		e.res.Count("prefix_reruns_for_pruning", 1)
	}
	if out.Fail != "" {
		return
	}
	if df.K == 0 && c14DFAllowed(ops[depth-1]) {
		for k := 1; k <= out.Calls[depth-1]; k++ {
			for _, m := range c14DFModes {
				e.visit(tgt, ops, c14DF{Op: depth - 1, K: k, Mode: m})
			}
		}
	}
	if hasKids {
		for _, o := range e.levels[depth] {
			e.visit(tgt, append(append(make([]c14Op, 0, depth+1), ops...), o), df)
		}
	}
}

func TestVerif_C14(t *testing.T) {
	p := vk.Env()
	res := vk.NewResult("tree of histories of 1-3 operations (Transaction with a statement list, an optional nested Transaction call and at most one callback fault {error return, panic, failing statement, sql.ErrNoRows from a lookup, context cancelled and ignored, context cancelled and reported, runtime.Goexit} at every position; BulkInsert of 0-4 rows with short / duplicate-key / NULL rows; plain autocommit statement) on SQLiteDB, PostgresDB, MySQLDB, ORM (ORM methods) and ORM (raw *sql.Tx) wrapped around an in-memory SQLite database; for every history and every operation in it every driver-call index k x {error, ErrBadConn}; a history is extended only while it has no violation; a case is non-trivial if it contains a fault, a nested call, a failing statement or a bad bulk row, distinct by (target, history, driver fault)")
	e := &c14Enum{p: p, res: res, systems: map[c14Target]*c14Sys{}, preSeen: map[string]bool{}, keySeen: map[string]bool{}, maxDepth: 3}
	defer e.closeAll()
	if p.Replay != "" {
		var rp c14Replay
		if err := vk.LoadReplay(p.Replay, &rp); err != nil {
			t.Fatal(err)
		}
		out := e.run(&rp.Case, true)
		fmt.Printf("replay %s -> %q\n", rp.Case.String(), out.Fail)
		ok := false
		if out.Fail != "" {
			k := e.key(&rp.Case, out)
			ok = k == rp.Key
			res.Violate(k, fmt.Sprintf("%s: %s", rp.Case.String(), out.Fail), rp)
		}
		res.Replayed = &ok
		res.Write(p)
		return
	}
	targets := c14Targets(p.Thorough)
	var tn []string
	for _, tgt := range targets {
		tn = append(tn, tgt.String())
	}
	res.Bounds["targets"] = tn
	res.Bounds["history_length"] = 3
	res.Bounds["history_length_completed"] = 0
	res.Bounds["driver_fault_modes"] = c14DFModes
	res.Bounds["callback_fault_kinds"] = c14Kinds
	for pass := 1; pass <= 3; pass++ {
		e.maxDepth = pass
		for _, tgt := range targets {
			e.levels = c14Levels(p.Thorough, tgt)
			for d := range e.levels {
				e.inLevel[d] = map[string]bool{}
				for _, o := range e.levels[d] {
					e.inLevel[d][o.String()] = true
				}
				res.Bounds[fmt.Sprintf("alphabet_size/%s/length>=%d", tgt.Wrapper, d+1)] = len(e.levels[d])
			}
			// sanity of the alphabets: nested subsets, no duplicates
			for d := 1; d < 3; d++ {
				for s := range e.inLevel[d] {
					if !e.inLevel[d-1][s] {
						t.Fatalf("c14: alphabet %d is not a subset of alphabet %d: %s", d, d-1, s)
					}
				}
			}
			if len(e.inLevel[0]) != len(e.levels[0]) {
				t.Fatalf("c14: duplicate operations in alphabet 0")
			}
			for _, o := range e.levels[0] {
				e.visit(tgt, []c14Op{o}, c14DF{})
			}
		}
		if !e.stop {
			res.Bounds["history_length_completed"] = pass
		}
	}
	res.Write(p)
}
