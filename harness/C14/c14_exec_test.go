package database

// C14 executor: runs one case (a history of operations on one wrapper around
// an in-memory SQLite database, with at most one callback fault per
// transaction and at most one failing driver call) against the real
// Transaction / BulkInsert code and judges it after every operation.

import (
	"context"
	"database/sql"
	"errors"
	"fmt"
	"os"
	"runtime"
	"sort"
	"strings"
	"sync"
	"sync/atomic"
	"time"
)

// ---------------------------------------------------------------------------
// case description

type c14Target struct {
	Wrapper string `json:"wrapper"` // sqlite | postgres | mysql | orm (ORM methods on the tx context) | orm-rawtx (the *sql.Tx stored in the context)
	Pool    int    `json:"pool"`    // MaxOpenConns of the wrapped *sql.DB
}

func (t c14Target) String() string { return fmt.Sprintf("%s[pool=%d]", t.Wrapper, t.Pool) }

// c14Fault: what the callback does at position Pos (= after Pos statements).
//
//	err        return an error
//	panic      panic
//	stmt       run a statement that fails (duplicate primary key) and return its error
//	norows     look up a row that does not exist and return the error (sql.ErrNoRows)
//	cancel_nil cancel the context passed to Transaction, carry on (ignoring errors; statements on the *sql.Tx use context.Background()), return nil
//	cancel_err cancel the context, carry on with the cancelled context, return the first error (ctx.Err() at the latest)
//	goexit     runtime.Goexit()
type c14Fault struct {
	Kind string `json:"kind,omitempty"`
	Pos  int    `json:"pos,omitempty"`
}

// c14Tx: one call of Transaction.  Prog is the callback's statement list:
//
//	i insert a fresh row        u UPDATE t SET v=v+10 WHERE id=1     d DELETE WHERE id=2
//	x insert a duplicate of id 1 and ignore the error                q SELECT count(*)
//	o SELECT leaving the *sql.Rows open
//
// the callback returns the first error of any statement but x.
type c14Tx struct {
	Prog  string   `json:"prog"`
	Fault c14Fault `json:"fault"`
	Nest  *c14Nest `json:"nest,omitempty"`
}

// c14Nest: at position Pos the callback calls Transaction again on the same
// handle; Propagate: the outer callback returns the inner call's error.
type c14Nest struct {
	Pos       int   `json:"pos"`
	Tx        c14Tx `json:"tx"`
	Propagate bool  `json:"propagate"`
}

type c14Op struct {
	Kind string `json:"kind"`           // tx | stmt (one autocommit INSERT on the handle) | bulk
	Tx   *c14Tx `json:"tx,omitempty"`   // kind tx
	Bulk string `json:"bulk,omitempty"` // kind bulk: one letter per row: g good, s short row, c duplicate key, n NULL in a NOT NULL column
}

// c14DF: the K-th (1-based) driver call made during operation Op fails.
type c14DF struct {
	Op   int    `json:"op"`
	K    int    `json:"k"` // 0 = no driver fault
	Mode string `json:"mode,omitempty"`
}

type c14Case struct {
	Target c14Target `json:"target"`
	Ops    []c14Op   `json:"ops"`
	DF     c14DF     `json:"driver_fault"`
}

func (f c14Fault) String() string {
	if f.Kind == "" {
		return ""
	}
	return fmt.Sprintf("!%s@%d", f.Kind, f.Pos)
}

func (t *c14Tx) String() string {
	s := "T(" + t.Prog + ")"
	if t.Nest != nil {
		p := "swallow"
		if t.Nest.Propagate {
			p = "propagate"
		}
		s += fmt.Sprintf("{@%d:%s:%s}", t.Nest.Pos, t.Nest.Tx.String(), p)
	}
	return s + t.Fault.String()
}

func (o c14Op) String() string {
	switch o.Kind {
	case "tx":
		return o.Tx.String()
	case "bulk":
		return "B(" + o.Bulk + ")"
	}
	return "S"
}

func c14OpsString(ops []c14Op) string {
	var s []string
	for _, o := range ops {
		s = append(s, o.String())
	}
	return strings.Join(s, ";")
}

func (c *c14Case) String() string {
	s := c.Target.String() + " " + c14OpsString(c.Ops)
	if c.DF.K > 0 {
		s += fmt.Sprintf(" #op%d.call%d:%s", c.DF.Op, c.DF.K, c.DF.Mode)
	}
	return s
}

func (c *c14Case) clone() *c14Case {
	n := &c14Case{Target: c.Target, DF: c.DF}
	for _, o := range c.Ops {
		n.Ops = append(n.Ops, o.clone())
	}
	return n
}

func (o c14Op) clone() c14Op {
	if o.Tx != nil {
		t := *o.Tx
		if t.Nest != nil {
			nn := *t.Nest
			t.Nest = &nn
		}
		o.Tx = &t
	}
	return o
}

// ---------------------------------------------------------------------------
// system under test: wrapper + pool + observer connection

const (
	// Time bounds are counted in ticks of the harness's own watchdog loop rather
	// than set as context deadlines: a deadline also expires while the whole VM
	// is suspended, a tick needs the process to run.
	c14Tick       = 10 * time.Millisecond
	c14CtxTicks   = 500              // ~5 s: every context handed to the code under test is ended then
	c14WatchTicks = 1500             // ~15 s (generous: operations normally take microseconds): the call is given up
	c14CtxTimeout = 30 * time.Second // only for re-seeding through the observer
	c14Seed       = "BEGIN; DELETE FROM t; INSERT INTO t (id, v) VALUES (1, 10), (2, 20); COMMIT"
	c14PanicValue = "c14: callback panic"
	// 'B' in a bulk program: a block of good rows large enough that a driver-imposed limit on bound parameters
	// (SQLite: 999) forces any chunked implementation into several statements
	c14BigBlock = 560
)

var c14ErrCallback = errors.New("c14: callback error")

type c14Sys struct {
	tgt c14Target
	dsn string
	obs *sql.DB // second, unwrapped connection: keeps the memdb alive and shows what is committed
	db  *sql.DB // the pool handed to the wrapper (fault-injecting driver)
	ctl *c14Ctl
	sq  *SQLiteDB
	pg  *PostgresDB
	my  *MySQLDB
	orm *ORM
}

var c14SysSeq atomic.Int64

func c14NewSys(t c14Target) *c14Sys {
	// SQLite's "memdb" VFS: a named in-memory database shared by all
	// connections of the process that open the same name, with ordinary
	// file-locking semantics (a conflicting access fails with SQLITE_BUSY
	// at once; nothing ever waits inside SQLite).
	dsn := fmt.Sprintf("file:/c14_%d_%d?vfs=memdb", os.Getpid(), c14SysSeq.Add(1))
	s := &c14Sys{tgt: t, dsn: dsn, ctl: &c14Ctl{}}
	c14Ctls.Store(dsn, s.ctl)
	var err error
	if s.obs, err = sql.Open("sqlite", dsn); err != nil {
		panic(err)
	}
	s.obs.SetMaxOpenConns(1)
	if _, err = s.obs.Exec(`CREATE TABLE t (id INTEGER PRIMARY KEY, v INTEGER NOT NULL)`); err != nil {
		panic(err)
	}
	if s.db, err = sql.Open(c14DriverName, dsn); err != nil {
		panic(err)
	}
	s.db.SetMaxOpenConns(t.Pool)
	s.db.SetMaxIdleConns(t.Pool)
	s.db.SetConnMaxLifetime(0)
	switch t.Wrapper {
	case "sqlite":
		s.sq = &SQLiteDB{config: &Config{Driver: "sqlite"}, db: s.db}
	case "mysql":
		s.my = &MySQLDB{config: &Config{Driver: "mysql"}, db: s.db}
	case "postgres", "orm", "orm-rawtx":
		s.pg = &PostgresDB{config: &Config{Driver: "postgres"}, db: s.db}
		s.orm = NewORM(s.pg, "t")
	default:
		panic("c14: wrapper " + t.Wrapper)
	}
	return s
}

func (s *c14Sys) close() {
	s.db.Close()
	s.ctl.purge()
	s.obs.Close()
	c14Ctls.Delete(s.dsn)
}

// reset puts the table back to its two seed rows; false = the system is not
// clean (a connection is checked out or the table is locked) and must be rebuilt.
func (s *c14Sys) reset() bool {
	s.ctl.disarm()
	if s.db.Stats().InUse != 0 {
		return false
	}
	ctx, cancel := context.WithTimeout(context.Background(), c14CtxTimeout)
	defer cancel()
	_, err := s.obs.ExecContext(ctx, c14Seed)
	return err == nil
}

func (s *c14Sys) transaction(ctx context.Context, fn func(tx *sql.Tx, txCtx context.Context) error) error {
	switch s.tgt.Wrapper {
	case "sqlite":
		return s.sq.Transaction(ctx, func(tx *sql.Tx) error { return fn(tx, ctx) })
	case "postgres":
		return s.pg.Transaction(ctx, func(tx *sql.Tx) error { return fn(tx, ctx) })
	case "mysql":
		return s.my.Transaction(ctx, func(tx *sql.Tx) error { return fn(tx, ctx) })
	}
	return s.orm.Transaction(ctx, func(txCtx context.Context) error {
		tx, _ := txCtx.Value(txContextKey{}).(*sql.Tx)
		if tx == nil {
			return errors.New("c14: ORM.Transaction put no *sql.Tx into the context")
		}
		return fn(tx, txCtx)
	})
}

func (s *c14Sys) handle() Database {
	switch s.tgt.Wrapper {
	case "sqlite":
		return s.sq
	case "mysql":
		return s.my
	}
	return s.pg
}

func (s *c14Sys) bulkInsert(ctx context.Context, rows [][]interface{}) error {
	cols := []string{"id", "v"}
	switch s.tgt.Wrapper {
	case "sqlite":
		return s.sq.BulkInsert(ctx, "t", cols, rows)
	case "mysql":
		return s.my.BulkInsert(ctx, "t", cols, rows)
	}
	return s.pg.BulkInsert(ctx, "t", cols, rows)
}

// ---------------------------------------------------------------------------
// reference: the table as a map, changed only by what counts as committed

type c14Effect struct {
	Kind  byte // 's' set, 'a' add, 'd' delete
	ID, V int
}

func c14Apply(m map[int]int, es []c14Effect) {
	for _, e := range es {
		switch e.Kind {
		case 's':
			m[e.ID] = e.V
		case 'a':
			if _, ok := m[e.ID]; ok {
				m[e.ID] += e.V
			}
		case 'd':
			delete(m, e.ID)
		}
	}
}

func c14Table(m map[int]int) string {
	ids := make([]int, 0, len(m))
	for id := range m {
		ids = append(ids, id)
	}
	sort.Ints(ids)
	var b strings.Builder
	b.WriteByte('{')
	for i, id := range ids {
		if i > 0 {
			b.WriteByte(' ')
		}
		fmt.Fprintf(&b, "%d:%d", id, m[id])
	}
	b.WriteByte('}')
	return b.String()
}

// ---------------------------------------------------------------------------
// one run

type c14Run struct {
	sys     *c14Sys
	ref     map[int]int
	nextID  int
	txs     []*sql.Tx
	rows    []*sql.Rows
	cmu     sync.Mutex
	cancels []context.CancelFunc
	expired bool // the watchdog had to end the contexts: the case is void (re-run)
	// per operation
	panicked   bool // a callback panicked with c14PanicValue
	exited     bool // a callback called runtime.Goexit
	async      bool // a context was cancelled: the pool may release the connection asynchronously
	notApplied bool // some transaction / statement / bulk insert of the operation must leave no trace
	applied    bool // some transaction / statement / bulk insert of the operation counts as committed
	// whole run
	nestedBlocked int // nested Transaction calls that waited for the only connection until their context ended
}

type c14Outcome struct {
	FailAt        int
	Fail          string // "" = passed; "<failure kind>: details"
	Calls         []int  // driver calls counted per executed operation
	FailedCall    string // name + ordinal of the driver call that was failed, e.g. Commit1
	NestedBlocked int
	Dirty         bool // the system must not be reused
	Void          bool // a time bound was hit: the run says nothing reliable, run it again
}

func c14FailKind(fail string) string {
	if i := strings.Index(fail, ":"); i >= 0 {
		return fail[:i]
	}
	return fail
}

type c14Stmts struct {
	r   *c14Run
	tx  *sql.Tx
	ctx context.Context
	orm bool
}

// do runs one callback statement; the effects are those of a successful run.
func (s *c14Stmts) do(step byte) ([]c14Effect, error) {
	r := s.r
	if s.orm {
		o := r.sys.orm
		switch step {
		case 'i':
			id := r.nextID
			r.nextID++
			_, err := o.Create(s.ctx, map[string]interface{}{"id": id, "v": 100 + id})
			return []c14Effect{{'s', id, 100 + id}}, err
		case 'u':
			row, err := o.FindByID(s.ctx, 1)
			if err != nil {
				return nil, err
			}
			cur, ok := row["v"].(int64)
			if !ok {
				return nil, fmt.Errorf("c14: FindByID returned v=%T", row["v"])
			}
			_, err = o.Update(s.ctx, 1, map[string]interface{}{"v": int(cur) + 10})
			return []c14Effect{{'s', 1, int(cur) + 10}}, err
		case 'd':
			return []c14Effect{{'d', 2, 0}}, o.Delete(s.ctx, 2)
		case 'x':
			_, err := o.Create(s.ctx, map[string]interface{}{"id": 1, "v": 99})
			return []c14Effect{{'s', 1, 99}}, err
		case 'r': // look up a row that does not exist
			_, err := o.FindByID(s.ctx, 999)
			return nil, err
		default: // q, o
			_, err := o.Count(s.ctx)
			return nil, err
		}
	}
	switch step {
	case 'i':
		id := r.nextID
		r.nextID++
		_, err := s.tx.ExecContext(s.ctx, `INSERT INTO t (id, v) VALUES (?, ?)`, id, 100+id)
		return []c14Effect{{'s', id, 100 + id}}, err
	case 'u':
		_, err := s.tx.ExecContext(s.ctx, `UPDATE t SET v = v + 10 WHERE id = 1`)
		return []c14Effect{{'a', 1, 10}}, err
	case 'd':
		_, err := s.tx.ExecContext(s.ctx, `DELETE FROM t WHERE id = 2`)
		return []c14Effect{{'d', 2, 0}}, err
	case 'x':
		_, err := s.tx.ExecContext(s.ctx, `INSERT INTO t (id, v) VALUES (1, 99)`)
		return []c14Effect{{'s', 1, 99}}, err
	case 'q':
		var n int
		return nil, s.tx.QueryRowContext(s.ctx, `SELECT count(*) FROM t`).Scan(&n)
	case 'r': // look up a row that does not exist: sql.ErrNoRows
		var v int
		return nil, s.tx.QueryRowContext(s.ctx, `SELECT v FROM t WHERE id = 999`).Scan(&v)
	case 'o':
		rows, err := s.tx.QueryContext(s.ctx, `SELECT id FROM t ORDER BY id`)
		if err != nil {
			return nil, err
		}
		rows.Next()
		r.rows = append(r.rows, rows) // left open on purpose
		return nil, nil
	}
	panic("c14: step " + string(step))
}

func (r *c14Run) body(spec *c14Tx, tx *sql.Tx, ctx context.Context, cancel func(), effects *[]c14Effect) error {
	st := &c14Stmts{r: r, tx: tx, ctx: ctx, orm: r.sys.tgt.Wrapper == "orm"}
	ignore, cancelled := false, false
	n := len(spec.Prog)
	for pos := 0; pos <= n; pos++ {
		if spec.Nest != nil && spec.Nest.Pos == pos {
			if err := r.runTx(&spec.Nest.Tx, true); err != nil && spec.Nest.Propagate {
				return err
			}
		}
		if spec.Fault.Kind != "" && spec.Fault.Pos == pos {
			switch spec.Fault.Kind {
			case "err":
				return c14ErrCallback
			case "panic":
				r.panicked, r.notApplied = true, true
				panic(c14PanicValue)
			case "panic_err":
				// a panic whose value implements error (panic(err) is a common idiom)
				r.panicked, r.notApplied = true, true
				panic(c14PanicErr)
			case "panic_rt":
				// a runtime error raised by the callback's own code (the value is a runtime.Error)
				r.panicked, r.notApplied = true, true
				var m map[string]int
				m["c14"] = 1
			case "goexit":
				r.exited, r.notApplied = true, true
				runtime.Goexit()
			case "stmt":
				eff, err := st.do('x')
				if err == nil {
					*effects = append(*effects, eff...)
					err = errors.New("c14: the duplicate-key insert did not fail")
				}
				return err
			case "norows":
				_, err := st.do('r')
				if err == nil {
					err = errors.New("c14: the lookup of a missing row did not fail")
				}
				return err
			case "cancel_nil":
				cancel()
				r.async, ignore = true, true
				if !st.orm {
					// (ORM methods have only the context to find the transaction)
					st.ctx = context.Background()
				}
			case "cancel_err":
				cancel()
				r.async, cancelled = true, true
			default:
				panic("c14: fault kind " + spec.Fault.Kind)
			}
		}
		if pos == n {
			break
		}
		eff, err := st.do(spec.Prog[pos])
		if err == nil {
			*effects = append(*effects, eff...)
		} else if !ignore && spec.Prog[pos] != 'x' {
			return err
		}
	}
	if cancelled {
		return ctx.Err()
	}
	return nil
}

// runTx calls the wrapper's Transaction once.  Reference rule: the effects of
// the statements that reported success count iff the callback returned nil
// and Transaction (hence Commit) returned nil.
func (r *c14Run) runTx(spec *c14Tx, inner bool) error {
	ctx, cancel := r.newCtx()
	defer func() {
		// After runtime.Goexit the context is deliberately left alive until
		// the case has been judged: cancelling it would make database/sql
		// roll the abandoned transaction back in the background and hide
		// what the code under test did (or did not do) by itself.
		if !r.exited {
			cancel()
		}
	}()
	if inner && r.sys.tgt.Pool == 1 {
		// The outer transaction holds the only connection, so this call can
		// only wait for its context to end.  Rather than sleeping until the
		// deadline, cancel the context as soon as the pool reports that a
		// request is waiting (no other goroutine uses this pool).
		base := r.sys.db.Stats().WaitCount
		stop := make(chan struct{})
		var blocked atomic.Bool
		go func() {
			for {
				select {
				case <-stop:
					return
				default:
				}
				if r.sys.db.Stats().WaitCount > base {
					blocked.Store(true)
					cancel()
					return
				}
				runtime.Gosched()
			}
		}()
		defer func() {
			close(stop)
			if blocked.Load() {
				r.nestedBlocked++
			}
		}()
	}
	var effects []c14Effect
	cbNil := false
	err := r.sys.transaction(ctx, func(tx *sql.Tx, txCtx context.Context) error {
		r.txs = append(r.txs, tx)
		e := r.body(spec, tx, txCtx, cancel, &effects)
		cbNil = e == nil
		return e
	})
	if cbNil && err == nil {
		c14Apply(r.ref, effects)
		r.applied = true
	} else {
		r.notApplied = true
	}
	return err
}

// newCtx: a context the watchdog of c14Top ends after c14CtxTicks ticks.
func (r *c14Run) newCtx() (context.Context, context.CancelFunc) {
	ctx, cancel := context.WithCancel(context.Background())
	r.cmu.Lock()
	r.cancels = append(r.cancels, cancel)
	r.cmu.Unlock()
	return ctx, cancel
}

func (r *c14Run) cancelAll(expire bool) {
	r.cmu.Lock()
	cs := r.cancels
	r.cancels = nil
	if expire {
		r.expired = true
	}
	r.cmu.Unlock()
	for _, c := range cs {
		c()
	}
}

type c14OpOut struct {
	returned, goexited, timedOut bool
	panicVal                     any
	err                          error
}

// top runs one operation on its own goroutine (Goexit must not kill the test)
// under the tick watchdog.
func (r *c14Run) top(f func() error) c14OpOut {
	ch := make(chan c14OpOut, 1)
	go func() {
		var out c14OpOut
		normal := false
		defer func() {
			if !normal {
				if p := recover(); p != nil {
					out.panicVal = p
				} else {
					out.goexited = true
				}
			}
			ch <- out
		}()
		out.err = f()
		normal, out.returned = true, true
	}()
	// fast path: nearly every operation is over within microseconds
	for i := 0; i < 200; i++ {
		select {
		case o := <-ch:
			return o
		default:
			runtime.Gosched()
		}
	}
	t := time.NewTicker(c14Tick)
	defer t.Stop()
	for ticks := 0; ticks < c14WatchTicks; ticks++ {
		select {
		case o := <-ch:
			return o
		case <-t.C:
			if ticks == c14CtxTicks {
				r.cancelAll(true)
			}
		}
	}
	return c14OpOut{timedOut: true}
}

func (r *c14Run) bulkRows(kinds string) (rows [][]interface{}, eff []c14Effect) {
	for i := 0; i < len(kinds); i++ {
		id := r.nextID
		r.nextID++
		switch kinds[i] {
		case 'g':
			rows = append(rows, []interface{}{id, 100 + id})
			eff = append(eff, c14Effect{'s', id, 100 + id})
		case 'B':
			rows = append(rows, []interface{}{id, 100 + id})
			eff = append(eff, c14Effect{'s', id, 100 + id})
			for k := 1; k < c14BigBlock; k++ {
				id = r.nextID
				r.nextID++
				rows = append(rows, []interface{}{id, 100 + id})
				eff = append(eff, c14Effect{'s', id, 100 + id})
			}
		case 's':
			rows = append(rows, []interface{}{id})
		case 'c':
			rows = append(rows, []interface{}{1, 99})
			eff = append(eff, c14Effect{'s', 1, 99})
		case 'n':
			rows = append(rows, []interface{}{id, nil})
		default:
			panic("c14: bulk row kind")
		}
	}
	return
}

// waitIdle: no connection may stay checked out once the operation is over.
func (r *c14Run) waitIdle() bool {
	if r.sys.db.Stats().InUse == 0 {
		return true
	}
	if !r.async {
		return false // every release on this path is synchronous
	}
	for i := 0; i < 5000; i++ {
		runtime.Gosched()
		if r.sys.db.Stats().InUse == 0 {
			return true
		}
	}
	for ticks := 0; ticks < c14WatchTicks; ticks++ {
		time.Sleep(c14Tick)
		if r.sys.db.Stats().InUse == 0 {
			return true
		}
	}
	return false
}

func c14ReadRows(rows *sql.Rows, err error) (map[int]int, error) {
	if err != nil {
		return nil, err
	}
	defer rows.Close()
	m := map[int]int{}
	for rows.Next() {
		var id, v int
		if err := rows.Scan(&id, &v); err != nil {
			return nil, err
		}
		m[id] = v
	}
	return m, rows.Err()
}

// readViaHandle: a trivial follow-up transaction through the same wrapper.
func (r *c14Run) readViaHandle() (m map[int]int, err error) {
	o := r.top(func() error {
		ctx, cancel := r.newCtx()
		defer cancel()
		return r.sys.transaction(ctx, func(tx *sql.Tx, _ context.Context) error {
			var e error
			m, e = c14ReadRows(tx.QueryContext(ctx, `SELECT id, v FROM t ORDER BY id`))
			return e
		})
	})
	switch {
	case o.timedOut:
		return nil, errors.New("the call does not return")
	case o.panicVal != nil:
		return nil, fmt.Errorf("panic: %v", o.panicVal)
	}
	return m, o.err
}

// readViaObserver: what a second connection sees (cannot block: a lock conflict
// is an immediate SQLITE_BUSY).
func (r *c14Run) readViaObserver() (map[int]int, error) {
	ctx, cancel := r.newCtx()
	defer cancel()
	return c14ReadRows(r.sys.obs.QueryContext(ctx, `SELECT id, v FROM t ORDER BY id`))
}

func (r *c14Run) cleanup() {
	for _, rows := range r.rows {
		rows.Close()
	}
	for _, tx := range r.txs {
		tx.Rollback() // ErrTxDone unless the code under test leaked the transaction
	}
	r.cancelAll(false)
}

// c14RunCase executes the case on sys (which must be clean) and judges it.
func c14RunCase(sys *c14Sys, cs *c14Case) (out c14Outcome) {
	r := &c14Run{sys: sys, ref: map[int]int{1: 10, 2: 20}, nextID: 3}
	out.FailAt = -1
	defer func() {
		r.cleanup()
		out.NestedBlocked = r.nestedBlocked
		r.cmu.Lock()
		out.Void = r.expired
		r.cmu.Unlock()
		if sys.db.Stats().InUse != 0 {
			out.Dirty = true
		}
	}()
	fail := func(i int, f string, a ...any) c14Outcome {
		out.FailAt, out.Fail = i, fmt.Sprintf(f, a...)
		return out
	}
	for i, op := range cs.Ops {
		r.panicked, r.exited, r.async, r.notApplied, r.applied = false, false, false, false, false
		before := c14Table(r.ref)
		k := 0
		if cs.DF.K > 0 && cs.DF.Op == i {
			k = cs.DF.K
		}
		var bulkErr error
		sys.ctl.arm(k, cs.DF.Mode)
		var o c14OpOut
		switch op.Kind {
		case "tx":
			o = r.top(func() error { return r.runTx(op.Tx, false) })
		case "stmt":
			o = r.top(func() error {
				ctx, cancel := r.newCtx()
				defer cancel()
				id := r.nextID
				r.nextID++
				_, err := sys.handle().Exec(ctx, `INSERT INTO t (id, v) VALUES (?, ?)`, id, 100+id)
				if err == nil {
					r.ref[id] = 100 + id
					r.applied = true
				} else {
					r.notApplied = true
				}
				return err
			})
		case "bulk":
			o = r.top(func() error {
				ctx, cancel := r.newCtx()
				defer cancel()
				rows, eff := r.bulkRows(op.Bulk)
				err := sys.bulkInsert(ctx, rows)
				bulkErr = err
				if err == nil {
					c14Apply(r.ref, eff)
					r.applied = true
				} else {
					r.notApplied = true
				}
				return err
			})
		default:
			panic("c14: op kind " + op.Kind)
		}
		calls, failed, log := sys.ctl.disarm()
		out.Calls = append(out.Calls, calls)
		if failed != "" {
			n := 0
			for _, c := range log[:k] {
				if c == failed {
					n++
				}
			}
			out.FailedCall = fmt.Sprintf("%s%d", failed, n)
		}
		if o.timedOut {
			out.Dirty = true
			return fail(i, "operation-never-returns: %s did not return within %d ticks of %v although its contexts were ended after %d ticks", op, c14WatchTicks, c14Tick, c14CtxTicks)
		}
		if r.panicked && !c14IsCallbackPanic(o.panicVal) {
			if o.panicVal == nil {
				return fail(i, "panic-swallowed: the callback panicked but %s returned normally (err=%v)", op, o.err)
			}
			return fail(i, "panic-value-changed: the callback panicked with %q but the caller saw %v", c14PanicValue, o.panicVal)
		}
		if !r.panicked && o.panicVal != nil {
			return fail(i, "unexpected-panic: %s panicked with %v although no callback panicked", op, o.panicVal)
		}
		if !r.waitIdle() {
			return fail(i, "connection-leaked: after %s the pool still has %d connection(s) checked out (the transaction was neither committed nor rolled back)", op, sys.db.Stats().InUse)
		}
		want := c14Table(r.ref)
		name := func() string {
			switch {
			case op.Kind == "bulk" && bulkErr != nil:
				return "bulk-insert-partial"
			case op.Kind == "bulk":
				return "bulk-insert-incomplete"
			case r.notApplied && !r.applied:
				return "rolled-back-work-visible"
			case !r.notApplied:
				return "committed-work-missing"
			}
			return "atomicity-violated"
		}
		got, err := r.readViaHandle()
		if err != nil {
			return fail(i, "handle-unusable: after %s a trivial transaction on the same handle fails: %v", op, err)
		}
		if g := c14Table(got); g != want {
			return fail(i, "%s: after %s (result: %s) the table read through the handle is %s, expected %s (before: %s)", name(), op, c14OutString(o), g, want, before)
		}
		got, err = r.readViaObserver()
		if err != nil {
			return fail(i, "open-transaction-left-behind: after %s a second connection cannot read the table: %v", op, err)
		}
		if g := c14Table(got); g != want {
			return fail(i, "%s: after %s (result: %s) the table read through a second connection is %s, expected %s (before: %s)", name(), op, c14OutString(o), g, want, before)
		}
	}
	return out
}

func c14OutString(o c14OpOut) string {
	switch {
	case o.goexited:
		return "goroutine exited"
	case o.panicVal != nil:
		return fmt.Sprintf("panic(%v)", o.panicVal)
	case o.err != nil:
		return "error " + o.err.Error()
	}
	return "nil"
}

// c14PanicErr is the error value the panic_err fault panics with.
var c14PanicErr = errors.New("c14: callback panic with an error value")

// c14IsCallbackPanic: the value the caller recovered is the one a callback fault raised.
func c14IsCallbackPanic(p any) bool {
	if p == any(c14PanicValue) {
		return true
	}
	if e, ok := p.(error); ok {
		if errors.Is(e, c14PanicErr) {
			return true
		}
		if _, rt := e.(runtime.Error); rt && strings.Contains(e.Error(), "nil map") {
			return true
		}
	}
	return false
}
