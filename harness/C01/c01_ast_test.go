package main

// Verification harness for C01 (evaluation follows the language definition).
//
// This file: the generator's own small AST (never pkg/ast), its rendering to
// GlyphLang source text, the shape-abstracted canonical rendering used in
// finding keys, and the shrink candidates.

import (
	"encoding/json"
	"fmt"
	"strconv"
	"strings"
)

// c01N is one node of the generator AST; expressions, patterns and statements
// share the type so that shrinking and (de)serialisation are generic.
//
// expressions: int float str bool null var bin un flat arr obj field index call match pipe
// patterns:    pint pfloat pstr pbool pnull pvar pwild pobj parr none mcase
// statements:  decl set fset iset ret guard if while for switch break continue expr
type c01N struct {
	K  string    `json:"k"`
	S  string    `json:"s,omitempty"`  // operator / name / string value / message
	I  int64     `json:"-"`            // int value / status code (serialised as text, see MarshalJSON)
	IT string    `json:"i,omitempty"`  // decimal text of I in replay files (the driver re-encodes numbers as float64)
	F  float64   `json:"f,omitempty"`  // float value
	B  bool      `json:"b,omitempty"`  // bool value / "$"-form of iset / switch has default
	C  []*c01N   `json:"c,omitempty"`  // expression children
	Bl [][]*c01N `json:"bl,omitempty"` // statement blocks
	Ss []string  `json:"ss,omitempty"` // object keys / loop variables / flat-chain operators
}

type c01Param struct {
	Name string `json:"name"`
	Type string `json:"type"` // int str bool float any
	Req  bool   `json:"req,omitempty"`
	Def  *c01N  `json:"def,omitempty"`
}

type c01Fn struct {
	Name   string     `json:"name"`
	Params []c01Param `json:"params,omitempty"`
	Ret    string     `json:"ret,omitempty"`
	Body   []*c01N    `json:"body"`
}

type c01Const struct {
	Name string `json:"name"`
	Val  *c01N  `json:"val"`
}

// c01Prog is a module: constants, functions and one or two routes
// (route i is `@ POST /r<i>/:p`).  The judged route is the last one; an
// earlier route is only executed before it on a reused interpreter.
type c01Prog struct {
	Consts []c01Const `json:"consts,omitempty"`
	Fns    []c01Fn    `json:"fns,omitempty"`
	Routes [][]*c01N  `json:"routes"`
}

// c01Req is one earlier request of a history: route index and path parameter.
type c01Req struct {
	Route int    `json:"route"`
	P     string `json:"p"`
}

// c01Case = program + inputs (+ the history of the reused interpreter).
type c01Case struct {
	Layer string  `json:"layer"`
	Prog  c01Prog `json:"prog"`
	P     string  `json:"p"`              // path parameter
	Body  *c01N   `json:"body,omitempty"` // literal for request-body field b (nil: no body)
	// Hist (layer L8): the requests evaluated, in this order, on the reused
	// interpreter before the judged request (the last route with P).  Empty:
	// the default history (every earlier route once; a single-route program
	// evaluated twice).
	Hist []c01Req `json:"hist,omitempty"`
}

type c01NAlias c01N

func (n c01N) MarshalJSON() ([]byte, error) {
	a := c01NAlias(n)
	if a.I != 0 {
		a.IT = strconv.FormatInt(a.I, 10)
	}
	return json.Marshal(a)
}

func (n *c01N) UnmarshalJSON(b []byte) error {
	var a c01NAlias
	if err := json.Unmarshal(b, &a); err != nil {
		return err
	}
	if a.IT != "" {
		v, err := strconv.ParseInt(a.IT, 10, 64)
		if err != nil {
			return err
		}
		a.I = v
		a.IT = ""
	}
	*n = c01N(a)
	return nil
}

// ---- constructors ----------------------------------------------------------

func nInt(i int64) *c01N     { return &c01N{K: "int", I: i} }
func nFloat(f float64) *c01N { return &c01N{K: "float", F: f} }
func nStr(s string) *c01N    { return &c01N{K: "str", S: s} }
func nBool(b bool) *c01N     { return &c01N{K: "bool", B: b} }
func nNull() *c01N           { return &c01N{K: "null"} }
func nVar(s string) *c01N    { return &c01N{K: "var", S: s} }
func nBin(op string, l, r *c01N) *c01N {
	return &c01N{K: "bin", S: op, C: []*c01N{l, r}}
}
func nUn(op string, x *c01N) *c01N { return &c01N{K: "un", S: op, C: []*c01N{x}} }
func nArr(e ...*c01N) *c01N        { return &c01N{K: "arr", C: e} }
func nObj(kv ...interface{}) *c01N {
	n := &c01N{K: "obj"}
	for i := 0; i+1 < len(kv); i += 2 {
		n.Ss = append(n.Ss, kv[i].(string))
		n.C = append(n.C, kv[i+1].(*c01N))
	}
	return n
}
func nField(base *c01N, f string) *c01N { return &c01N{K: "field", S: f, C: []*c01N{base}} }
func nIndex(base, i *c01N) *c01N        { return &c01N{K: "index", C: []*c01N{base, i}} }
func nCall(name string, a ...*c01N) *c01N {
	return &c01N{K: "call", S: name, C: a}
}
func nFlat(operands []*c01N, ops []string) *c01N {
	return &c01N{K: "flat", C: operands, Ss: ops}
}
func nPipe(fn string, left *c01N, extra ...*c01N) *c01N {
	return &c01N{K: "pipe", S: fn, C: append([]*c01N{left}, extra...)}
}
func nMatch(x *c01N, cases ...*c01N) *c01N {
	return &c01N{K: "match", C: append([]*c01N{x}, cases...)}
}
func nCase(pat, guard, body *c01N) *c01N {
	if guard == nil {
		guard = &c01N{K: "none"}
	}
	return &c01N{K: "mcase", C: []*c01N{pat, guard, body}}
}

func sDecl(name string, e *c01N) *c01N { return &c01N{K: "decl", S: name, C: []*c01N{e}} }
func sSet(name string, e *c01N) *c01N  { return &c01N{K: "set", S: name, C: []*c01N{e}} }
func sFset(path string, e *c01N) *c01N { return &c01N{K: "fset", S: path, C: []*c01N{e}} }
func sIset(dollar bool, target, e *c01N) *c01N {
	return &c01N{K: "iset", B: dollar, C: []*c01N{target, e}}
}
func sRet(e *c01N) *c01N              { return &c01N{K: "ret", C: []*c01N{e}} }
func sRetS(e *c01N, status int) *c01N { return &c01N{K: "ret", I: int64(status), C: []*c01N{e}} }
func sGuard(c *c01N, st int, m string) *c01N {
	return &c01N{K: "guard", I: int64(st), S: m, C: []*c01N{c}}
}
func sIf(c *c01N, then []*c01N, els ...[]*c01N) *c01N {
	n := &c01N{K: "if", C: []*c01N{c}, Bl: [][]*c01N{then}}
	if len(els) > 0 {
		n.Bl = append(n.Bl, els[0])
	}
	return n
}
func sWhile(c *c01N, body []*c01N) *c01N {
	return &c01N{K: "while", C: []*c01N{c}, Bl: [][]*c01N{body}}
}
func sFor(vars []string, it *c01N, body []*c01N) *c01N {
	return &c01N{K: "for", Ss: vars, C: []*c01N{it}, Bl: [][]*c01N{body}}
}
func sSwitch(v *c01N, caseVals []*c01N, caseBodies [][]*c01N, def []*c01N) *c01N {
	n := &c01N{K: "switch", C: append([]*c01N{v}, caseVals...), Bl: caseBodies}
	if def != nil {
		n.B = true
		n.Bl = append(append([][]*c01N{}, caseBodies...), def)
	}
	return n
}
func sBreak() *c01N         { return &c01N{K: "break"} }
func sContinue() *c01N      { return &c01N{K: "continue"} }
func sExpr(e *c01N) *c01N   { return &c01N{K: "expr", C: []*c01N{e}} }
func bl(s ...*c01N) []*c01N { return s }

func (n *c01N) clone() *c01N {
	if n == nil {
		return nil
	}
	m := *n
	m.C = make([]*c01N, len(n.C))
	for i, c := range n.C {
		m.C[i] = c.clone()
	}
	if n.C == nil {
		m.C = nil
	}
	m.Bl = nil
	for _, b := range n.Bl {
		m.Bl = append(m.Bl, cloneList(b))
	}
	m.Ss = append([]string(nil), n.Ss...)
	return &m
}

func cloneList(l []*c01N) []*c01N {
	out := make([]*c01N, len(l))
	for i, s := range l {
		out[i] = s.clone()
	}
	return out
}

func (p c01Prog) clone() c01Prog {
	var q c01Prog
	for _, c := range p.Consts {
		q.Consts = append(q.Consts, c01Const{c.Name, c.Val.clone()})
	}
	for _, f := range p.Fns {
		g := c01Fn{Name: f.Name, Ret: f.Ret, Body: cloneList(f.Body)}
		for _, pa := range f.Params {
			g.Params = append(g.Params, c01Param{pa.Name, pa.Type, pa.Req, pa.Def.clone()})
		}
		q.Fns = append(q.Fns, g)
	}
	for _, r := range p.Routes {
		q.Routes = append(q.Routes, cloneList(r))
	}
	return q
}

func (c c01Case) clone() c01Case {
	d := c
	d.Prog = c.Prog.clone()
	d.Body = c.Body.clone()
	d.Hist = append([]c01Req(nil), c.Hist...)
	return d
}

// ---- rendering -------------------------------------------------------------

// c01R renders either real source text (abs=false) or the canonical
// single-line form with literals abstracted to their shape (abs=true).
type c01R struct{ abs bool }

func c01Quote(s string) string {
	var b strings.Builder
	b.WriteByte('"')
	for _, r := range s {
		switch r {
		case '"':
			b.WriteString(`\"`)
		case '\\':
			b.WriteString(`\\`)
		case '\n':
			b.WriteString(`\n`)
		case '\t':
			b.WriteString(`\t`)
		default:
			b.WriteRune(r)
		}
	}
	b.WriteByte('"')
	return b.String()
}

func c01FloatLit(f float64) string {
	s := strconv.FormatFloat(f, 'f', -1, 64)
	if !strings.Contains(s, ".") {
		s += ".0"
	}
	return s
}

func isPrimary(n *c01N) bool {
	switch n.K {
	case "bin", "flat", "un", "pipe", "match":
		return false
	case "int":
		return n.I >= 0
	case "float":
		return n.F >= 0
	}
	return true
}

func (r c01R) operand(n *c01N) string {
	if isPrimary(n) || (r.abs && (n.K == "int" || n.K == "float")) {
		// (in keys a literal is INT/FLOAT whatever its sign)
		return r.expr(n)
	}
	return "(" + r.expr(n) + ")"
}

func (r c01R) expr(n *c01N) string {
	switch n.K {
	case "int":
		if r.abs {
			return "INT"
		}
		return strconv.FormatInt(n.I, 10)
	case "float":
		if r.abs {
			return "FLOAT"
		}
		return c01FloatLit(n.F)
	case "str":
		if r.abs {
			return "STR"
		}
		return c01Quote(n.S)
	case "bool":
		if r.abs {
			return "BOOL"
		}
		if n.B {
			return "true"
		}
		return "false"
	case "null":
		if r.abs {
			return "NULL"
		}
		return "null"
	case "var":
		return n.S
	case "bin":
		return r.operand(n.C[0]) + " " + n.S + " " + r.operand(n.C[1])
	case "un":
		// unary operand: primary or another unary, else parenthesised
		x := n.C[0]
		if isPrimary(x) || x.K == "un" {
			return n.S + r.expr(x)
		}
		if (x.K == "int" || x.K == "float") && !isPrimary(x) {
			return n.S + "(" + r.expr(x) + ")"
		}
		return n.S + "(" + r.expr(x) + ")"
	case "flat":
		// emitted WITHOUT parentheses: the real parser decides the grouping
		var b strings.Builder
		for i, o := range n.C {
			if i > 0 {
				b.WriteString(" " + n.Ss[i-1] + " ")
			}
			if o.K == "un" || isPrimary(o) || o.K == "int" || o.K == "float" {
				b.WriteString(r.expr(o))
			} else {
				b.WriteString("(" + r.expr(o) + ")")
			}
		}
		return b.String()
	case "arr":
		var p []string
		for _, c := range n.C {
			p = append(p, r.expr(c))
		}
		return "[" + strings.Join(p, ", ") + "]"
	case "obj":
		var p []string
		for i, c := range n.C {
			p = append(p, n.Ss[i]+": "+r.expr(c))
		}
		return "{" + strings.Join(p, ", ") + "}"
	case "field":
		return r.expr(n.C[0]) + "." + n.S
	case "index":
		return r.expr(n.C[0]) + "[" + r.expr(n.C[1]) + "]"
	case "call":
		var p []string
		for _, c := range n.C {
			p = append(p, r.expr(c))
		}
		return n.S + "(" + strings.Join(p, ", ") + ")"
	case "pipe":
		s := r.operand(n.C[0]) + " |> " + n.S
		if len(n.C) > 1 {
			var p []string
			for _, c := range n.C[1:] {
				p = append(p, r.expr(c))
			}
			s += "(" + strings.Join(p, ", ") + ")"
		}
		return s
	case "match":
		sep, ind := "\n", "    "
		if r.abs {
			sep, ind = " ", ""
		}
		s := "match " + r.operand(n.C[0]) + " {" + sep
		for _, c := range n.C[1:] {
			s += ind + r.pat(c.C[0])
			if c.C[1].K != "none" {
				s += " when " + r.expr(c.C[1])
			}
			s += " => " + r.expr(c.C[2]) + sep
		}
		if !r.abs {
			s += "  "
		}
		return s + "}"
	}
	panic("c01 render: unknown expression kind " + n.K)
}

func (r c01R) pat(n *c01N) string {
	switch n.K {
	case "pint":
		if r.abs {
			return "INT"
		}
		return strconv.FormatInt(n.I, 10)
	case "pfloat":
		if r.abs {
			return "FLOAT"
		}
		return c01FloatLit(n.F)
	case "pstr":
		if r.abs {
			return "STR"
		}
		return c01Quote(n.S)
	case "pbool":
		if r.abs {
			return "BOOL"
		}
		return strconv.FormatBool(n.B)
	case "pnull":
		return "null"
	case "pvar":
		return n.S
	case "pwild":
		return "_"
	case "pobj":
		var p []string
		for i, c := range n.C {
			if c.K == "none" {
				p = append(p, n.Ss[i])
			} else {
				p = append(p, n.Ss[i]+": "+r.pat(c))
			}
		}
		return "{" + strings.Join(p, ", ") + "}"
	case "parr":
		var p []string
		for _, c := range n.C {
			p = append(p, r.pat(c))
		}
		if n.S != "" {
			p = append(p, "..."+n.S)
		}
		return "[" + strings.Join(p, ", ") + "]"
	}
	panic("c01 render: unknown pattern kind " + n.K)
}

func (r c01R) block(b *strings.Builder, stmts []*c01N, depth int) {
	for _, s := range stmts {
		r.stmt(b, s, depth)
	}
}

func (r c01R) line(b *strings.Builder, depth int, s string) {
	if r.abs {
		if b.Len() > 0 {
			last := b.String()[b.Len()-1]
			if last != '{' && last != ' ' {
				b.WriteString(";")
			}
			if last != ' ' {
				b.WriteString(" ")
			}
		}
		b.WriteString(s)
		return
	}
	b.WriteString(strings.Repeat("  ", depth))
	b.WriteString(s)
	b.WriteString("\n")
}

func (r c01R) stmt(b *strings.Builder, s *c01N, d int) {
	switch s.K {
	case "decl":
		r.line(b, d, "$ "+s.S+" = "+r.expr(s.C[0]))
	case "set":
		r.line(b, d, s.S+" = "+r.expr(s.C[0]))
	case "fset":
		r.line(b, d, "$ "+s.S+" = "+r.expr(s.C[0]))
	case "iset":
		p := ""
		if s.B {
			p = "$ "
		}
		r.line(b, d, p+r.expr(s.C[0])+" = "+r.expr(s.C[1]))
	case "ret":
		t := "> " + r.expr(s.C[0])
		if s.I != 0 {
			t += " :: " + strconv.FormatInt(s.I, 10)
		}
		r.line(b, d, t)
	case "guard":
		t := "? " + r.expr(s.C[0]) + " :: " + strconv.FormatInt(s.I, 10)
		if s.S != "" {
			t += " " + c01Quote(s.S)
		}
		r.line(b, d, t)
	case "if":
		r.line(b, d, "if "+r.expr(s.C[0])+" {")
		r.block(b, s.Bl[0], d+1)
		if len(s.Bl) > 1 {
			r.line(b, d, "} else {")
			r.block(b, s.Bl[1], d+1)
		}
		r.line(b, d, "}")
	case "while":
		r.line(b, d, "while "+r.expr(s.C[0])+" {")
		r.block(b, s.Bl[0], d+1)
		r.line(b, d, "}")
	case "for":
		r.line(b, d, "for "+strings.Join(s.Ss, ", ")+" in "+r.expr(s.C[0])+" {")
		r.block(b, s.Bl[0], d+1)
		r.line(b, d, "}")
	case "switch":
		r.line(b, d, "switch "+r.expr(s.C[0])+" {")
		for i, cv := range s.C[1:] {
			r.line(b, d+1, "case "+r.expr(cv)+" {")
			r.block(b, s.Bl[i], d+2)
			r.line(b, d+1, "}")
		}
		if s.B {
			r.line(b, d+1, "default {")
			r.block(b, s.Bl[len(s.Bl)-1], d+2)
			r.line(b, d+1, "}")
		}
		r.line(b, d, "}")
	case "break":
		r.line(b, d, "break")
	case "continue":
		r.line(b, d, "continue")
	case "expr":
		r.line(b, d, r.expr(s.C[0]))
	default:
		panic("c01 render: unknown statement kind " + s.K)
	}
}

func (r c01R) prog(p c01Prog) string {
	var b strings.Builder
	for _, c := range p.Consts {
		r.line(&b, 0, "const "+c.Name+" = "+r.expr(c.Val))
	}
	for _, f := range p.Fns {
		var ps []string
		for _, pa := range f.Params {
			t := pa.Name + ": " + pa.Type
			if pa.Req {
				t += "!"
			}
			if pa.Def != nil {
				t += " = " + r.expr(pa.Def)
			}
			ps = append(ps, t)
		}
		h := "! " + f.Name + "(" + strings.Join(ps, ", ") + ")"
		if f.Ret != "" {
			h += ": " + f.Ret
		}
		r.line(&b, 0, h+" {")
		r.block(&b, f.Body, 1)
		r.line(&b, 0, "}")
	}
	for i, rt := range p.Routes {
		r.line(&b, 0, fmt.Sprintf("@ POST /r%d/:p {", i))
		r.block(&b, rt, 1)
		r.line(&b, 0, "}")
	}
	return b.String()
}

// c01Source is the text handed to the real lexer and parser.
func c01Source(p c01Prog) string { return c01R{}.prog(p) }

// c01Canon is the single-line, shape-abstracted form used in finding keys.
func c01Canon(c c01Case) string {
	r := c01R{abs: true}
	s := r.prog(c.Prog)
	usesP, usesInput := false, false
	c.Prog.walk(func(n *c01N) {
		if n.K == "var" && n.S == "p" {
			usesP = true
		}
		if (n.K == "var" && n.S == "input") || (n.K == "call" && strings.HasPrefix(n.S, "input.")) {
			usesInput = true
		}
		if n.K == "call" && strings.HasPrefix(n.S, "p.") {
			usesP = true
		}
	})
	in := ""
	if usesP {
		in += " path=" + c01ShapeOfString(c.P)
	}
	if usesInput {
		if c.Body != nil {
			in += " body=" + r.expr(nObj("b", c.Body))
		} else {
			in += " body=none"
		}
	}
	return s + in
}

// c01HistCanon: ` after=[r0 "INT" gave_error, r0 "INT" gave_value]` for a
// case with an explicit history, "" otherwise.  outcomes = what each request
// of the history gave when the case was judged (value / error), so that a
// finding key names the scenario: an earlier request that was refused vs one
// that was answered.
func c01HistCanon(c c01Case, outcomes []string) string {
	if len(c.Hist) == 0 {
		return ""
	}
	var p []string
	for i, h := range c.Hist {
		t := fmt.Sprintf("r%d %s", h.Route, c01ShapeOfString(h.P))
		if i < len(outcomes) {
			t += " gave_" + outcomes[i]
		}
		p = append(p, t)
	}
	return " after=[" + strings.Join(p, ", ") + "]"
}

func c01ShapeOfString(s string) string {
	if _, err := strconv.ParseInt(s, 10, 64); err == nil {
		return "\"INT\""
	}
	if _, err := strconv.ParseFloat(s, 64); err == nil {
		return "\"FLOAT\""
	}
	return "STR"
}

// ---- syntactic queries -----------------------------------------------------

func (n *c01N) walk(f func(*c01N)) {
	if n == nil {
		return
	}
	f(n)
	for _, c := range n.C {
		c.walk(f)
	}
	for _, b := range n.Bl {
		for _, s := range b {
			s.walk(f)
		}
	}
}

func (p c01Prog) walk(f func(*c01N)) {
	for _, c := range p.Consts {
		c.Val.walk(f)
	}
	for _, fn := range p.Fns {
		for _, pa := range fn.Params {
			pa.Def.walk(f)
		}
		for _, s := range fn.Body {
			s.walk(f)
		}
	}
	for _, r := range p.Routes {
		for _, s := range r {
			s.walk(f)
		}
	}
}

// c01OrderSensitive: the program iterates an object or calls keys().
func c01OrderSensitive(p c01Prog) bool {
	found := false
	p.walk(func(n *c01N) {
		if n.K == "for" && len(n.Ss) == 2 {
			// key,value form may iterate an object (the iterable's type is dynamic)
			found = true
		}
		if n.K == "for" && len(n.Ss) == 1 {
			found = true
		}
		// keys(o), o.keys(), input.b.keys(), o |> keys
		if (n.K == "call" || n.K == "pipe") && (n.S == "keys" || strings.HasSuffix(n.S, ".keys")) {
			found = true
		}
	})
	return found
}

// c01Volatile: the program calls a clock / random source.
func c01Volatile(p c01Prog) bool {
	found := false
	p.walk(func(n *c01N) {
		if n.K == "call" || n.K == "pipe" {
			nm := n.S
			if strings.HasPrefix(nm, "time.") {
				nm = "time.now"
			} else if i := strings.LastIndex(nm, "."); i >= 0 {
				nm = nm[i+1:]
			}
			switch nm {
			case "now", "time.now", "randomInt", "generateId":
				found = true
			}
		}
	})
	return found
}

func c01StmtCount(p c01Prog) int {
	k := 0
	p.walk(func(n *c01N) {
		switch n.K {
		case "decl", "set", "fset", "iset", "ret", "guard", "if", "while", "for", "switch", "break", "continue", "expr":
			k++
		}
	})
	return k
}

// ---- shrink candidates -----------------------------------------------------

// c01Shrinks returns all programs obtained from c by one reduction step:
// delete one statement, replace one expression by one of its operands, drop
// one element of an array/object literal, drop a function, constant, route,
// match case, or the request body.
func c01Shrinks(c c01Case) []c01Case {
	var out []c01Case
	add := func(mut func(d *c01Case) bool) {
		d := c.clone()
		if mut(&d) {
			out = append(out, d)
		}
	}
	// drop a leading route (with an explicit history: any route no request of
	// the history goes to; the history's route indices follow)
	if len(c.Prog.Routes) > 1 && len(c.Hist) == 0 {
		add(func(d *c01Case) bool { d.Prog.Routes = d.Prog.Routes[1:]; return true })
	}
	if len(c.Hist) > 0 {
		last := len(c.Prog.Routes) - 1
		for k := 0; k < last; k++ {
			k := k
			used := false
			for _, h := range c.Hist {
				if h.Route == k {
					used = true
				}
			}
			if used {
				continue
			}
			add(func(d *c01Case) bool {
				d.Prog.Routes = append(d.Prog.Routes[:k:k], d.Prog.Routes[k+1:]...)
				for i := range d.Hist {
					if d.Hist[i].Route > k {
						d.Hist[i].Route--
					}
				}
				return true
			})
		}
		// drop one request of the history (never the last one: an empty history
		// means the default history, a different scenario)
		if len(c.Hist) > 1 {
			for k := range c.Hist {
				k := k
				add(func(d *c01Case) bool {
					d.Hist = append(d.Hist[:k:k], d.Hist[k+1:]...)
					return true
				})
			}
		}
		// send a request of the history to the judged route instead (so that the
		// route and the functions only it used can go)
		for k, h := range c.Hist {
			k := k
			if h.Route != last {
				add(func(d *c01Case) bool { d.Hist[k].Route = last; return true })
			}
		}
	}
	for i := range c.Prog.Fns {
		i := i
		add(func(d *c01Case) bool {
			d.Prog.Fns = append(d.Prog.Fns[:i:i], d.Prog.Fns[i+1:]...)
			return true
		})
		for j := range c.Prog.Fns[i].Params {
			j := j
			if c.Prog.Fns[i].Params[j].Def != nil {
				add(func(d *c01Case) bool { d.Prog.Fns[i].Params[j].Def = nil; return true })
			}
			// a failure that does not depend on the declared type / required mark is keyed without them
			if c.Prog.Fns[i].Params[j].Type != "any" {
				add(func(d *c01Case) bool { d.Prog.Fns[i].Params[j].Type = "any"; return true })
			}
			if c.Prog.Fns[i].Params[j].Req {
				add(func(d *c01Case) bool { d.Prog.Fns[i].Params[j].Req = false; return true })
			}
			add(func(d *c01Case) bool {
				ps := d.Prog.Fns[i].Params
				d.Prog.Fns[i].Params = append(ps[:j:j], ps[j+1:]...)
				return true
			})
		}
		if c.Prog.Fns[i].Ret != "" {
			add(func(d *c01Case) bool { d.Prog.Fns[i].Ret = ""; return true })
		}
		for j := range c.Prog.Fns[i].Params {
			j := j
			add(func(d *c01Case) bool {
				name := d.Prog.Fns[i].Name
				ps := d.Prog.Fns[i].Params
				d.Prog.Fns[i].Params = append(ps[:j:j], ps[j+1:]...)
				d.Prog.walk(func(n *c01N) {
					if n.K == "call" && n.S == name && len(n.C) > j {
						n.C = append(n.C[:j:j], n.C[j+1:]...)
					}
				})
				return true
			})
		}
	}
	for i := range c.Prog.Consts {
		i := i
		add(func(d *c01Case) bool {
			d.Prog.Consts = append(d.Prog.Consts[:i:i], d.Prog.Consts[i+1:]...)
			return true
		})
	}
	if c.Body != nil {
		add(func(d *c01Case) bool { d.Body = nil; return true })
	}
	// statement deletions / block hoists, addressed by a running index over all blocks
	nb := c01CountBlocks(c.Prog)
	for bi := 0; bi < nb; bi++ {
		blk := *c01BlockAt(&c.Prog, bi)
		for si := range blk {
			bi, si := bi, si
			add(func(d *c01Case) bool {
				b := c01BlockAt(&d.Prog, bi)
				*b = append((*b)[:si:si], (*b)[si+1:]...)
				return true
			})
			// replace a compound statement by one of its blocks
			for k := range blk[si].Bl {
				k := k
				add(func(d *c01Case) bool {
					b := c01BlockAt(&d.Prog, bi)
					inner := (*b)[si].Bl[k]
					nw := append([]*c01N{}, (*b)[:si]...)
					nw = append(nw, inner...)
					nw = append(nw, (*b)[si+1:]...)
					*b = nw
					return true
				})
			}
		}
	}
	// structural normalisations (each strictly reduces a measure: number of
	// functions called, compound statements, bare assignments)
	for bi := 0; bi < nb; bi++ {
		blk := *c01BlockAt(&c.Prog, bi)
		for si, st := range blk {
			bi, si := bi, si
			// for v in e { B }  →  $ v = 0 ; B
			if st.K == "for" {
				add(func(d *c01Case) bool {
					b := c01BlockAt(&d.Prog, bi)
					f := (*b)[si]
					nw := append([]*c01N{}, (*b)[:si]...)
					for _, v := range f.Ss {
						nw = append(nw, sDecl(v, nInt(0)))
					}
					nw = append(nw, f.Bl[0]...)
					nw = append(nw, (*b)[si+1:]...)
					*b = nw
					return true
				})
			}
			// $ r = g()  →  the body of g without its return statements
			if (st.K == "decl" || st.K == "expr") && len(st.C) == 1 && st.C[0].K == "call" && len(st.C[0].C) == 0 {
				for fi := range c.Prog.Fns {
					if c.Prog.Fns[fi].Name != st.C[0].S || len(c.Prog.Fns[fi].Params) != 0 {
						continue
					}
					callsUser := false
					for _, fs := range c.Prog.Fns[fi].Body {
						fs.walk(func(n *c01N) {
							if n.K == "call" || n.K == "pipe" {
								for _, g := range c.Prog.Fns {
									if g.Name == n.S {
										callsUser = true
									}
								}
							}
						})
					}
					if callsUser {
						continue
					}
					fi := fi
					add(func(d *c01Case) bool {
						b := c01BlockAt(&d.Prog, bi)
						nw := append([]*c01N{}, (*b)[:si]...)
						for _, fs := range d.Prog.Fns[fi].Body {
							if fs.K != "ret" {
								nw = append(nw, fs.clone())
							}
						}
						nw = append(nw, (*b)[si+1:]...)
						*b = nw
						return true
					})
				}
			}
			// $ r = e   →   > e   (a failure that shows while e is evaluated is keyed
			// with the return form, whatever statement held e)
			if st.K == "decl" && len(st.C) == 1 {
				add(func(d *c01Case) bool {
					b := c01BlockAt(&d.Prog, bi)
					(*b)[si] = sRet((*b)[si].C[0])
					*b = (*b)[:si+1]
					return true
				})
			}
			// x = e ; rest   →   $ fresh = e ; rest[x := fresh]
			if st.K == "set" {
				add(func(d *c01Case) bool {
					b := c01BlockAt(&d.Prog, bi)
					old := (*b)[si].S
					fresh := c01FreshName(d.Prog)
					(*b)[si] = sDecl(fresh, (*b)[si].C[0])
					for _, later := range (*b)[si+1:] {
						later.walk(func(n *c01N) {
							switch n.K {
							case "var", "decl", "set":
								if n.S == old {
									n.S = fresh
								}
							}
						})
					}
					return true
				})
			}
		}
	}
	// inline the initialiser of a declared variable at one use; the request
	// variable `input` becomes the literal body
	inits := map[string]*c01N{}
	c.Prog.walk(func(n *c01N) {
		if n.K == "decl" {
			if _, ok := inits[n.S]; !ok {
				inits[n.S] = n.C[0]
			}
		}
	})
	if c.Body != nil {
		inits["input"] = nObj("b", c.Body)
	}
	{
		ne := c01CountExprs(c.Prog)
		for ei := 0; ei < ne; ei++ {
			e := *c01ExprAt(&c.Prog, ei)
			if e.K != "var" {
				continue
			}
			init, ok := inits[e.S]
			if !ok || init == e {
				continue
			}
			closed := true
			init.walk(func(n *c01N) {
				if n.K == "var" {
					if _, declared := inits[n.S]; declared {
						closed = false
					}
				}
			})
			if !closed {
				// only closed initialisers (every inlining removes one reference to a
				// declared variable) — or a plain alias `$ n3 = n1` of a name that is
				// not itself an alias: the use of n3 becomes a use of n1 (strictly
				// fewer references to alias variables), so that the same defect met
				// through an extra alias collapses to one key
				if init.K != "var" || init.S == e.S {
					continue
				}
				if target, ok2 := inits[init.S]; ok2 && target.K == "var" {
					continue
				}
			}
			ei, init := ei, init.clone()
			add(func(d *c01Case) bool {
				*c01ExprAt(&d.Prog, ei) = init
				return true
			})
		}
	}
	// expression reductions, addressed by a running index over all expression nodes
	ne := c01CountExprs(c.Prog)
	for ei := 0; ei < ne; ei++ {
		e := *c01ExprAt(&c.Prog, ei)
		var repl []*c01N
		switch e.K {
		case "bin", "un", "flat", "index", "field":
			repl = append(repl, e.C...)
		case "call", "pipe":
			repl = append(repl, e.C...)
			for k := range e.C {
				m := e.clone()
				m.C = append(m.C[:k:k], m.C[k+1:]...)
				if e.K == "pipe" && k == 0 {
					continue
				}
				repl = append(repl, m)
			}
			if e.K == "pipe" {
				// x |> f(a)  →  f(x, a): a failure that does not depend on the call form is keyed with the plain call
				repl = append(repl, nCall(e.S, e.C...))
			}
		case "arr":
			for k := range e.C {
				m := e.clone()
				m.C = append(m.C[:k:k], m.C[k+1:]...)
				repl = append(repl, m)
			}
			repl = append(repl, e.C...)
		case "obj":
			for k := range e.C {
				m := e.clone()
				m.C = append(m.C[:k:k], m.C[k+1:]...)
				m.Ss = append(m.Ss[:k:k], m.Ss[k+1:]...)
				repl = append(repl, m)
			}
			repl = append(repl, e.C...)
		case "match":
			repl = append(repl, e.C[0])
			for k := 1; k < len(e.C); k++ {
				repl = append(repl, e.C[k].C[2])
				if len(e.C) > 2 {
					m := e.clone()
					m.C = append(m.C[:k:k], m.C[k+1:]...)
					repl = append(repl, m)
				}
				if e.C[k].C[1].K != "none" {
					m := e.clone()
					m.C[k].C[1] = &c01N{K: "none"}
					repl = append(repl, m)
				}
				// reduce the pattern of the arm: to one of its sub-patterns, without one
				// element / field / the rest binding, a field sub-pattern to the
				// shorthand, a literal pattern to the integer 0 (so that a failure that
				// does not depend on the exact pattern is keyed with the smallest one)
				for _, q := range c01PatShrinks(e.C[k].C[0]) {
					m := e.clone()
					m.C[k].C[0] = q
					repl = append(repl, m)
				}
			}
		}
		if e.K == "flat" && len(e.C) > 2 {
			for k := range e.C {
				m := e.clone()
				m.C = append(m.C[:k:k], m.C[k+1:]...)
				oi := k
				if oi >= len(m.Ss) {
					oi = len(m.Ss) - 1
				}
				m.Ss = append(m.Ss[:oi:oi], m.Ss[oi+1:]...)
				repl = append(repl, m)
			}
		}
		if e.K == "field" && e.S == "b" && e.C[0].K == "var" && e.C[0].S == "input" && c.Body != nil {
			repl = append(repl, c.Body)
		}
		switch e.K {
		case "int":
		case "float", "str", "bool", "null":
			// a failure that does not depend on the kind of a literal is keyed with
			// INT (two values, so that literals that must differ can stay different)
			repl = append(repl, nInt(0), nInt(1))
		case "arr", "obj":
			repl = append(repl, nInt(0), nInt(1))
		default:
			repl = append(repl, nInt(0))
		}
		for _, rp := range repl {
			if rp == nil || rp.K == "none" || rp.K == "mcase" {
				continue
			}
			ei, rp := ei, rp.clone()
			add(func(d *c01Case) bool {
				*c01ExprAt(&d.Prog, ei) = rp
				return true
			})
		}
	}
	return out
}

// c01PatShrinks: the one-step reductions of a match pattern.
func c01PatShrinks(p *c01N) []*c01N {
	var out []*c01N
	if p.K != "pwild" && p.K != "none" {
		out = append(out, &c01N{K: "pwild"})
	}
	switch p.K {
	case "pfloat", "pstr", "pbool", "pnull":
		out = append(out, &c01N{K: "pint"})
	case "pint":
		if p.I != 0 {
			out = append(out, &c01N{K: "pint"})
		}
	case "parr", "pobj":
		for i, c := range p.C {
			if c.K != "none" {
				out = append(out, c.clone())
			}
			m := p.clone()
			m.C = append(m.C[:i:i], m.C[i+1:]...)
			if p.K == "pobj" {
				m.Ss = append(m.Ss[:i:i], m.Ss[i+1:]...)
			}
			out = append(out, m)
			if p.K == "pobj" && c.K != "none" {
				m := p.clone()
				m.C[i] = &c01N{K: "none"}
				out = append(out, m)
			}
			for _, q := range c01PatShrinks(c) {
				m := p.clone()
				m.C[i] = q
				out = append(out, m)
			}
		}
		if p.K == "parr" && p.S != "" {
			m := p.clone()
			m.S = ""
			out = append(out, m)
		}
	}
	return out
}

func c01FreshName(p c01Prog) string {
	used := map[string]bool{}
	p.walk(func(n *c01N) {
		used[n.S] = true
		for _, x := range n.Ss {
			used[x] = true
		}
	})
	for i := 1; ; i++ {
		nm := fmt.Sprintf("n%d", i)
		if !used[nm] {
			return nm
		}
	}
}

func c01Blocks(p *c01Prog, f func(b *[]*c01N)) {
	var rec func(b *[]*c01N)
	rec = func(b *[]*c01N) {
		f(b)
		for _, s := range *b {
			for k := range s.Bl {
				rec(&s.Bl[k])
			}
		}
	}
	for i := range p.Fns {
		rec(&p.Fns[i].Body)
	}
	for i := range p.Routes {
		rec(&p.Routes[i])
	}
}

func c01CountBlocks(p c01Prog) int {
	k := 0
	c01Blocks(&p, func(*[]*c01N) { k++ })
	return k
}

func c01BlockAt(p *c01Prog, idx int) *[]*c01N {
	k := 0
	var res *[]*c01N
	c01Blocks(p, func(b *[]*c01N) {
		if k == idx {
			res = b
		}
		k++
	})
	return res
}

// expression slots: every *c01N pointer position that holds an expression
func c01Exprs(p *c01Prog, f func(slot **c01N)) {
	var recE func(slot **c01N)
	recE = func(slot **c01N) {
		n := *slot
		if n == nil {
			return
		}
		switch n.K {
		case "none", "mcase", "pint", "pfloat", "pstr", "pbool", "pnull", "pvar", "pwild", "pobj", "parr":
		default:
			f(slot)
		}
		if n.K == "match" {
			recE(&n.C[0])
			for _, mc := range n.C[1:] {
				recE(&mc.C[1])
				recE(&mc.C[2])
			}
			return
		}
		if n.K == "field" {
			return // base of a field chain must stay an identifier chain
		}
		for i := range n.C {
			if n.K == "index" && i == 0 {
				continue
			}
			recE(&n.C[i])
		}
	}
	var recS func(b []*c01N)
	recS = func(b []*c01N) {
		for _, s := range b {
			for i := range s.C {
				if s.K == "iset" && i == 0 {
					continue
				}
				recE(&s.C[i])
			}
			for _, bb := range s.Bl {
				recS(bb)
			}
		}
	}
	for i := range p.Consts {
		recE(&p.Consts[i].Val)
	}
	for i := range p.Fns {
		for j := range p.Fns[i].Params {
			if p.Fns[i].Params[j].Def != nil {
				recE(&p.Fns[i].Params[j].Def)
			}
		}
		recS(p.Fns[i].Body)
	}
	for i := range p.Routes {
		recS(p.Routes[i])
	}
}

func c01CountExprs(p c01Prog) int {
	k := 0
	c01Exprs(&p, func(**c01N) { k++ })
	return k
}

func c01ExprAt(p *c01Prog, idx int) **c01N {
	k := 0
	var res **c01N
	c01Exprs(p, func(s **c01N) {
		if k == idx {
			res = s
		}
		k++
	})
	return res
}
