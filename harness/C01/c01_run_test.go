package main

// C01: execution of a case on the REAL lexer + parser + interpreter, the
// verdict (comparison with the reference, determinism clause), shrinking,
// finding keys, replay, and the test entry point.

import (
	"fmt"
	"go/ast"
	goparser "go/parser"
	"go/token"
	"io"
	"log"
	"os"
	"path/filepath"
	"sort"
	"strconv"
	"strings"
	"testing"
	"time"

	"github.com/glyphlang/glyph/internal/verif/vk"
	gast "github.com/glyphlang/glyph/pkg/ast"
	"github.com/glyphlang/glyph/pkg/interpreter"
)

// c01Obs is what the implementation did with one request.
type c01Obs struct {
	Kind   string `json:"kind"` // value | error | panic | hang | parse-reject | load-error
	Status int    `json:"status,omitempty"`
	Val    string `json:"val,omitempty"`
	Msg    string `json:"msg,omitempty"`
}

func (o c01Obs) String() string {
	switch o.Kind {
	case "value":
		return fmt.Sprintf("%d %s", o.Status, o.Val)
	case "error":
		return "error"
	}
	return o.Kind + "(" + o.Msg + ")"
}

func (o c01Obs) show() string {
	if o.Kind == "error" {
		return "error(" + o.Msg + ")"
	}
	return o.String()
}

// canonical typed text of an implementation value (same format as rCanon)
func c01ImplCanon(v interface{}) string {
	switch t := v.(type) {
	case nil:
		return "null"
	case bool:
		return strconv.FormatBool(t)
	case int64:
		return "i" + strconv.FormatInt(t, 10)
	case int:
		return "i" + strconv.Itoa(t)
	case float64:
		return "f" + strconv.FormatFloat(t, 'g', -1, 64)
	case string:
		return strconv.Quote(t)
	case []interface{}:
		var p []string
		for _, e := range t {
			p = append(p, c01ImplCanon(e))
		}
		return "[" + strings.Join(p, ",") + "]"
	case map[string]interface{}:
		ks := make([]string, 0, len(t))
		for k := range t {
			ks = append(ks, k)
		}
		sort.Strings(ks)
		var p []string
		for _, k := range ks {
			p = append(p, strconv.Quote(k)+":"+c01ImplCanon(t[k]))
		}
		return "{" + strings.Join(p, ",") + "}"
	}
	return fmt.Sprintf("?%T", v)
}

// literal node → Go value as a decoded JSON body would hold it
func c01GoValue(n *c01N) interface{} {
	switch n.K {
	case "int":
		return n.I
	case "float":
		return n.F
	case "str":
		return n.S
	case "bool":
		return n.B
	case "null":
		return nil
	case "arr":
		out := make([]interface{}, 0, len(n.C))
		for _, c := range n.C {
			out = append(out, c01GoValue(c))
		}
		return out
	case "obj":
		out := map[string]interface{}{}
		for i, c := range n.C {
			out[n.Ss[i]] = c01GoValue(c)
		}
		return out
	}
	panic("c01GoValue: not a literal: " + n.K)
}

func c01Exec(in *interpreter.Interpreter, r *gast.Route, idx int, c c01Case) (o c01Obs) {
	return c01ExecP(in, r, idx, c.P, c)
}

// c01ExecP: the request of case c with path parameter pv.
func c01ExecP(in *interpreter.Interpreter, r *gast.Route, idx int, pv string, c c01Case) (o c01Obs) {
	defer func() {
		if rec := recover(); rec != nil {
			o = c01Obs{Kind: "panic", Msg: c01Short(fmt.Sprint(rec))}
		}
	}()
	var body interface{}
	if c.Body != nil {
		body = map[string]interface{}{"b": c01GoValue(c.Body)}
	}
	req := &interpreter.Request{
		Path:    fmt.Sprintf("/r%d/%s", idx, pv),
		Method:  "POST",
		Params:  map[string]string{},
		Body:    body,
		Headers: map[string]string{},
	}
	resp, err := in.ExecuteRoute(r, req)
	if err != nil {
		return c01Obs{Kind: "error", Msg: c01Short(err.Error())}
	}
	if resp == nil {
		return c01Obs{Kind: "value", Status: 0, Val: "?nil-response"}
	}
	return c01Obs{Kind: "value", Status: resp.StatusCode, Val: c01ImplCanon(resp.Body)}
}

func c01Short(s string) string {
	s = strings.ReplaceAll(s, "\n", " ")
	if len(s) > 160 {
		s = s[:160] + "…"
	}
	return s
}

// c01RunReal executes the case: o1 = the judged route as the first request of
// a fresh interpreter; o2 = the judged route after the earlier routes (if any)
// and, for a single-route program, after itself, on a second / reused
// interpreter.  A case with an explicit history (c.Hist): o2 = the judged
// request after exactly the requests of the history, in order, on one
// interpreter; hist = what each of them gave.
func c01RunReal(c c01Case, extraFresh int, stopOnDiff bool) (o1, o2 c01Obs, fresh []c01Obs, hist []c01Obs) {
	src := c01Source(c.Prog)
	done, pan := vk.WithWatchdog(20*time.Second, func() {
		mod, err := parseSource(src)
		if err != nil {
			o1 = c01Obs{Kind: "parse-reject", Msg: c01Short(err.Error())}
			o2 = o1
			return
		}
		var routes []*gast.Route
		for _, it := range mod.Items {
			if r, ok := it.(*gast.Route); ok {
				routes = append(routes, r)
			}
		}
		if len(routes) != len(c.Prog.Routes) {
			o1 = c01Obs{Kind: "parse-reject", Msg: fmt.Sprintf("%d routes parsed, %d generated", len(routes), len(c.Prog.Routes))}
			o2 = o1
			return
		}
		last := len(routes) - 1
		mk := func() (*interpreter.Interpreter, *c01Obs) {
			in := newConfiguredInterpreter()
			var lerr error
			func() {
				defer func() {
					if rec := recover(); rec != nil {
						lerr = fmt.Errorf("panic: %v", rec)
					}
				}()
				lerr = in.LoadModule(*mod)
			}()
			if lerr != nil {
				return nil, &c01Obs{Kind: "load-error", Msg: c01Short(lerr.Error())}
			}
			return in, nil
		}
		in1, bad := mk()
		if bad != nil {
			o1, o2 = *bad, *bad
			return
		}
		o1 = c01Exec(in1, routes[last], last, c)
		if len(c.Hist) > 0 {
			in2, bad := mk()
			if bad != nil {
				o2 = *bad
				return
			}
			for _, h := range c.Hist {
				if h.Route < 0 || h.Route > last {
					o2 = c01Obs{Kind: "parse-reject", Msg: fmt.Sprintf("history names route %d of %d", h.Route, last+1)}
					return
				}
				hist = append(hist, c01ExecP(in2, routes[h.Route], h.Route, h.P, c))
			}
			o2 = c01Exec(in2, routes[last], last, c)
		} else if last == 0 {
			o2 = c01Exec(in1, routes[0], 0, c)
		} else {
			in2, bad := mk()
			if bad != nil {
				o2 = *bad
				return
			}
			for i := 0; i < last; i++ {
				c01Exec(in2, routes[i], i, c)
			}
			o2 = c01Exec(in2, routes[last], last, c)
		}
		for k := 0; k < extraFresh; k++ {
			in, bad := mk()
			if bad != nil {
				fresh = append(fresh, *bad)
				continue
			}
			f := c01Exec(in, routes[last], last, c)
			fresh = append(fresh, f)
			if stopOnDiff && f.String() != o1.String() {
				break // one differing execution decides the determinism clause
			}
		}
	})
	if !done {
		o1 = c01Obs{Kind: "hang", Msg: "no result within 20 s"}
		o2 = o1
		return
	}
	if pan != nil {
		o1 = c01Obs{Kind: "panic", Msg: c01Short(fmt.Sprint(pan))}
		o2 = o1
	}
	return
}

// c01Verdict: Kind "" = conforms (or not judged).
type c01Verdict struct {
	Kind   string
	Desc   string
	Judged bool     // the reference assigned an outcome (set)
	Unspec string   // reason when not judged
	Hist   []string // value / error: what each request of an explicit history gave
}

func c01Member(o c01Obs, allowed []c01Outcome) bool {
	for _, a := range allowed {
		if a.Err && o.Kind == "error" {
			return true
		}
		if !a.Err && o.Kind == "value" && o.Status == a.Status && o.Val == a.Val {
			return true
		}
	}
	return false
}

func c01AllowedText(allowed []c01Outcome) string {
	var p []string
	for _, a := range allowed {
		p = append(p, a.String())
	}
	s := strings.Join(p, " | ")
	if len(s) > 300 {
		s = s[:300] + "…"
	}
	return s
}

func c01Mismatch(o c01Obs, allowed []c01Outcome) string {
	allErr, allVal := true, true
	for _, a := range allowed {
		if a.Err {
			allVal = false
		} else {
			allErr = false
		}
	}
	switch {
	case allVal && o.Kind == "value":
		return "wrong-value"
	case allVal && o.Kind == "error":
		return "error-for-value"
	case allErr && o.Kind == "value":
		return "value-for-error"
	}
	return "outside-allowed-outcomes"
}

var c01RefPanics int64

// c01OrderRuns: fresh executions of an L7 program.  Go starts the iteration
// of a small map at a random slot, so an order-dependent program over a
// 2-key object shows its second outcome with probability ≥ 1/8 per execution;
// 120 identical executions (quick tier) of a program that does depend on the
// order have probability ≤ (7/8)^120 < 1.2e-7, 400 (thorough tier) < 1e-23.
var c01OrderRuns = 120

func c01SafeRef(c c01Case) (res c01RefResult) {
	defer func() {
		if r := recover(); r != nil {
			c01RefPanics++
			res = c01RefResult{Unspecified: fmt.Sprintf("HARNESS BUG: reference panicked: %v", r)}
		}
	}()
	return c01Ref(c)
}

// c01Judge runs the case and decides.  reps = additional fresh executions for
// programs whose outcome could depend on map iteration order.
func c01Judge(c c01Case, reps int) (v c01Verdict, o1 c01Obs) {
	ref := c01SafeRef(c)
	if strings.HasPrefix(ref.Unspecified, "HARNESS BUG") {
		return c01Verdict{Kind: "harness-reference-panic", Desc: ref.Unspecified}, o1
	}
	judged := ref.Unspecified == ""
	orderSens := c01OrderSensitive(c.Prog)
	volatile := c01Volatile(c.Prog)
	extra := 0
	if orderSens && judged {
		extra = reps
	}
	// L7 decides the determinism clause for programs whose outcome can depend on
	// the order in which an object is iterated: the runtime's map iteration
	// order cannot be enumerated from here, so the program is executed
	// c01OrderRuns times on fresh interpreters and all outcomes must be
	// identical (whatever the reference says about the value).
	orderLayer := c.Layer == "L7" && !volatile
	if orderLayer {
		extra = c01OrderRuns
	}
	o1, o2, fresh, hist := c01RunReal(c, extra, orderLayer)
	v.Judged, v.Unspec = judged, ref.Unspecified
	for _, h := range hist {
		v.Hist = append(v.Hist, h.Kind)
	}
	src := func() string { return "\n" + c01Source(c.Prog) + c01Inputs(c) }
	for _, o := range append(append([]c01Obs{o1, o2}, fresh...), hist...) {
		switch o.Kind {
		case "parse-reject", "load-error":
			v.Kind = "harness-" + o.Kind
			v.Desc = "the generated program was rejected before execution (harness bug, not a finding): " + o.Msg + src()
			return
		case "panic":
			v.Kind = "panic"
			v.Desc = "the interpreter panicked (outcome is neither a value nor an error): " + o.Msg + src()
			return
		case "hang":
			v.Kind = "hang"
			v.Desc = "the interpreter did not return: " + o.Msg + src()
			return
		}
	}
	if judged {
		if !c01Member(o1, ref.Allowed) {
			v.Kind = c01Mismatch(o1, ref.Allowed)
			v.Desc = fmt.Sprintf("language definition gives %s; interpreter gives %s%s", c01AllowedText(ref.Allowed), o1.show(), src())
			return
		}
	}
	if orderLayer {
		for k, o := range append([]c01Obs{o2}, fresh...) {
			if o.String() != o1.String() {
				v.Kind = "nondeterministic"
				what := fmt.Sprintf("execution %d of %d on a fresh interpreter", k+1, c01OrderRuns+1)
				if k == 0 {
					what = "the same request evaluated a second time on the same interpreter"
				}
				v.Desc = fmt.Sprintf("outcome is not a function of program text and inputs (it follows the runtime's random map iteration order): the first execution gives %s; %s gives %s%s", o1.show(), what, o.show(), src())
				return
			}
		}
		return
	}
	if !volatile {
		if !orderSens || (judged && !ref.OrderDep) {
			if o2.String() != o1.String() {
				v.Kind = "state-leak"
				how := "the same request evaluated a second time on the same interpreter"
				if len(c.Prog.Routes) > 1 {
					how = "the request evaluated after a request to another route of the module"
				}
				if len(c.Hist) > 0 {
					var hs []string
					for i, h := range c.Hist {
						hs = append(hs, fmt.Sprintf("/r%d/%s -> %s", h.Route, h.P, c01Short(hist[i].show())))
					}
					how = "the same request evaluated on an interpreter that answered these requests before (" + strings.Join(hs, "; ") + ")"
				}
				v.Desc = fmt.Sprintf("outcome is not a function of program text and inputs: first request on a fresh interpreter gives %s; %s gives %s%s", o1.show(), how, o2.show(), src())
				return
			}
		} else if judged && !c01Member(o2, ref.Allowed) {
			v.Kind = c01Mismatch(o2, ref.Allowed) + "-on-reuse"
			v.Desc = fmt.Sprintf("language definition gives %s; a later evaluation on the same interpreter gives %s%s", c01AllowedText(ref.Allowed), o2.show(), src())
			return
		}
		for _, f := range fresh {
			if !c01Member(f, ref.Allowed) {
				v.Kind = c01Mismatch(f, ref.Allowed)
				v.Desc = fmt.Sprintf("language definition gives %s; a repeated fresh execution gives %s%s", c01AllowedText(ref.Allowed), f.show(), src())
				return
			}
			if !ref.OrderDep && f.String() != o1.String() {
				v.Kind = "nondeterministic"
				v.Desc = fmt.Sprintf("repeated fresh executions differ: %s vs %s%s", o1.show(), f.show(), src())
				return
			}
		}
	}
	return
}

func c01Inputs(c c01Case) string {
	s := "inputs: p=" + strconv.Quote(c.P)
	if c.Body != nil {
		s += " body={\"b\": " + c01R{}.expr(c.Body) + "}"
	} else {
		s += " (no body)"
	}
	if len(c.Hist) > 0 {
		s += " after"
		for _, h := range c.Hist {
			s += fmt.Sprintf(" /r%d/%s", h.Route, h.P)
		}
	}
	return s
}

// c01Shrink greedily reduces a failing case while it keeps failing with the
// same failure kind (expected-kind/observed-kind pair).
func c01Shrink(c c01Case, kind string, reps int) (c01Case, c01Verdict) {
	cur := c
	curV, _ := c01Judge(cur, reps)
	budget := 4000
	for changed := true; changed && budget > 0; {
		changed = false
		for _, d := range c01Shrinks(cur) {
			budget--
			if budget <= 0 {
				break
			}
			// past the shard's time budget: report the case as far as it has been
			// reduced (the run is exhaustive=false anyway) instead of running into
			// the process timeout of the driver
			if c01ShrinkExpired != nil && c01ShrinkExpired() {
				budget = 0
				break
			}
			if !c01Renderable(d) {
				continue
			}
			ck := c01Source(d.Prog) + c01Inputs(d)
			v, hit := c01ShrinkMemo[ck]
			if !hit {
				v, _ = c01Judge(d, reps)
				if len(c01ShrinkMemo) < 200000 {
					c01ShrinkMemo[ck] = v
				}
			}
			if v.Kind == kind {
				cur, curV, changed = d, v, true
				break
			}
		}
	}
	return cur, curV
}

var c01ShrinkMemo = map[string]c01Verdict{}

var c01Timing map[string]time.Duration

// set by the entry point to the shard's budget clock (nil in replay mode)
var c01ShrinkExpired func() bool

func c01Renderable(c c01Case) (ok bool) {
	defer func() {
		if recover() != nil {
			ok = false
		}
	}()
	if len(c.Prog.Routes) == 0 {
		return false
	}
	_ = c01Source(c.Prog)
	return true
}

var c01KeepIdent = map[string]bool{
	"if": true, "else": true, "while": true, "for": true, "in": true, "switch": true, "case": true, "default": true,
	"match": true, "when": true, "break": true, "continue": true, "true": true, "false": true, "null": true,
	"const": true, "input": true, "query": true, "headers": true, "p": true, "POST": true, "r0": true, "r1": true, "path": true, "body": true, "none": true,
	"r2": true, "r3": true, "r4": true, "r5": true, "after": true, "gave_value": true, "gave_error": true,
	"int": true, "str": true, "bool": true, "float": true, "any": true,
	"INT": true, "FLOAT": true, "STR": true, "BOOL": true, "NULL": true,
}

// c01Alpha renames every user identifier (variables, functions, fields, keys)
// to v1, v2, … in order of first appearance; keywords, built-ins and the
// request variables keep their names.
func c01Alpha(s string) string {
	names := map[string]string{}
	var b strings.Builder
	i := 0
	for i < len(s) {
		ch := s[i]
		if ch == '_' || (ch >= 'a' && ch <= 'z') || (ch >= 'A' && ch <= 'Z') {
			j := i
			for j < len(s) && (s[j] == '_' || (s[j] >= 'a' && s[j] <= 'z') || (s[j] >= 'A' && s[j] <= 'Z') || (s[j] >= '0' && s[j] <= '9')) {
				j++
			}
			id := s[i:j]
			if id == "b" && (strings.HasSuffix(s[:i], "input.") || strings.HasSuffix(s[:i], "body={")) {
				b.WriteString(id)
				i = j
				continue
			}
			if c01KeepIdent[id] || c01KnownBuiltins[id] || rDocBuiltins[id] || id == "_" || id == "time" || id == "now" {
				b.WriteString(id)
			} else {
				if _, ok := names[id]; !ok {
					names[id] = fmt.Sprintf("v%d", len(names)+1)
				}
				b.WriteString(names[id])
			}
			i = j
			continue
		}
		b.WriteByte(ch)
		i++
	}
	return b.String()
}

func c01Key(kind string, c c01Case, hist []string) string {
	k := kind + "/" + c01Alpha(c01Canon(c)+c01HistCanon(c, hist))
	k = strings.ReplaceAll(k, " :: ", " ::")
	k = strings.ReplaceAll(k, "\n", " ")
	return k
}

type c01Replay struct {
	Kind   string  `json:"kind"`
	Case   c01Case `json:"case"`
	Source string  `json:"source"`
	Orig   string  `json:"found_through,omitempty"`
}

// ---- built-in table of the implementation, read from its source -------------

func c01ReadBuiltinNames() ([]string, error) {
	root := os.Getenv("VERIF_REPO")
	if root == "" {
		root = "../.."
	}
	path := filepath.Join(root, "pkg", "interpreter", "builtins.go")
	fset := token.NewFileSet()
	f, err := goparser.ParseFile(fset, path, nil, 0)
	if err != nil {
		return nil, err
	}
	var names []string
	ast.Inspect(f, func(n ast.Node) bool {
		as, ok := n.(*ast.AssignStmt)
		if !ok || len(as.Lhs) != 1 || len(as.Rhs) != 1 {
			return true
		}
		id, ok := as.Lhs[0].(*ast.Ident)
		if !ok || id.Name != "builtinFuncs" {
			return true
		}
		cl, ok := as.Rhs[0].(*ast.CompositeLit)
		if !ok {
			return true
		}
		for _, el := range cl.Elts {
			if kv, ok := el.(*ast.KeyValueExpr); ok {
				if bl, ok := kv.Key.(*ast.BasicLit); ok && bl.Kind == token.STRING {
					s, _ := strconv.Unquote(bl.Value)
					names = append(names, s)
				}
			}
		}
		return false
	})
	sort.Strings(names)
	if len(names) == 0 {
		return nil, fmt.Errorf("no built-in names found in %s", path)
	}
	return names, nil
}

// ---- entry point -------------------------------------------------------------

func TestVerif_C01(t *testing.T) {
	log.SetOutput(io.Discard)
	p := vk.Env()
	res := vk.NewResult("bounded-exhaustive enumeration of GlyphLang programs in layers (L1 every operator × ordered pair of value shapes, L2 every operator pair/triple as an unparenthesised chain, L3 every statement tree up to the size bound over the template alphabet, L4 every built-in of the implementation's table × argument vectors over the shapes, L5 functions/defaults/arity, match patterns, pipes, callbacks, L6 scoping and aliasing scenarios, L7 every construct that walks the keys of an object × object sizes × literal/request-body source, each executed 400 times for the determinism clause, L8 every history of ≤ 2/3 requests that are refused by the nesting limit / fail deep down / are answered, and histories with a loop refused by the round limit, on one reused interpreter × judged requests at and around the deepest recursion / longest loop that fits on a fresh interpreter); each program × input binding is rendered to source, run through the real lexer, parser and interpreter and compared with an independent reference semantics; a case is distinct by its source text and inputs, non-trivial (counted in distinct) if the reference assigns it an outcome")
	names, err := c01ReadBuiltinNames()
	if err != nil {
		t.Fatal(err)
	}
	for _, n := range names {
		c01KnownBuiltins[n] = true
	}
	if p.Thorough {
		c01OrderRuns = 400
	}
	if probe := os.Getenv("C01_PROBE"); probe != "" {
		c01Probe(probe)
		return
	}
	if p.Replay != "" {
		var rp c01Replay
		if err := vk.LoadReplay(p.Replay, &rp); err != nil {
			t.Fatal(err)
		}
		v, o1 := c01Judge(rp.Case, 40)
		fmt.Printf("replay %s\n%s%s\nobserved: %s\nverdict: %q %s\n", rp.Kind, c01Source(rp.Case.Prog), c01Inputs(rp.Case), o1.show(), v.Kind, v.Desc)
		ok := v.Kind == rp.Kind
		if ok {
			res.Violate(c01Key(v.Kind, rp.Case, v.Hist), v.Desc, rp)
		}
		res.Replayed = &ok
		res.Write(p)
		return
	}

	c01ShrinkExpired = p.Expired
	reps := 6
	idx := 0
	distinctSrc := int64(0)
	emit := func(build func() c01Case) bool {
		i := idx
		idx++
		if !p.Mine(i) {
			return true
		}
		if p.Expired() {
			res.Exhaustive = false
			return false
		}
		c := build()
		t0 := time.Now()
		v, o1 := c01Judge(c, reps)
		if c01Timing != nil {
			c01Timing[c.Layer] += time.Since(t0)
		}
		res.Evaluations++
		res.Count("cases_"+c.Layer, 1)
		if v.Judged {
			res.Distinct++
			distinctSrc++
			res.Count("judged_"+c.Layer, 1)
		} else {
			res.Count("unspecified_"+c.Layer, 1)
			res.Count("unspecified: "+c01ReasonClass(v.Unspec), 1)
			if strings.Contains(v.Unspec, "HARNESS") {
				res.Note("%s", v.Unspec)
			}
		}
		if i%4099 == 0 {
			res.Sample(6, map[string]any{"layer": c.Layer, "source": c01Source(c.Prog), "inputs": c01Inputs(c), "observed": o1.show(), "judged": v.Judged, "unspecified": v.Unspec})
		}
		if v.Kind != "" {
			res.Count("failing_cases_"+v.Kind, 1)
			m, mv := c01Shrink(c, v.Kind, reps)
			if mv.Kind != v.Kind {
				m, mv = c, v
			}
			if p.Expired() {
				res.Exhaustive = false // the reduction above may have been cut short
			}
			res.Violate(c01Key(mv.Kind, m, mv.Hist), mv.Desc, c01Replay{Kind: mv.Kind, Case: m, Source: c01Source(m.Prog), Orig: c01Source(c.Prog) + c01Inputs(c)})
		}
		return true
	}
	if os.Getenv("C01_TIMING") != "" {
		c01Timing = map[string]time.Duration{} // development aid: time per layer on stderr, not in the evidence
	}
	bounds := c01Layers(p.Thorough, names, emit)
	if c01Timing != nil {
		fmt.Fprintf(os.Stderr, "C01 shard %d/%d time per layer: %v\n", p.Shard, p.NShard, c01Timing)
	}
	for k, v := range bounds {
		res.Bounds[k] = v
	}
	res.Bounds["builtins_in_table"] = len(names)
	if c01RefPanics > 0 {
		res.Note("HARNESS BUG: the reference interpreter panicked %d times", c01RefPanics)
	}
	res.Note("not judged (reference answers Unspecified): ordering of strings; == / != across kinds and on arrays/objects; mixed ==/< chains where spec §4.2 and §4.8/§12 group differently; level of %%; short-circuit of &&/|| when the undecided side does not evaluate to a boolean; non-boolean conditions; integer overflow; negative integer division/modulo rounding; float overflow/NaN and float text form; ints beyond 2^53 mixed with floats; missing fields; obj[\"k\"]; index assignment; what `$` on a name that resolves to the module scope does (three readings enumerated: declares a shadowing local / updates the module binding for this evaluation / is refused — the outcome must be one of them; once a local shadows the name it is an ordinary local); bare assignment to a module-level name; bare assignment to an undeclared name; for over a non-collection; which order objects and keys() are walked in (all orders enumerated, outcome must be one of them; that every execution uses the same one is judged, layer L7); aliasing of arrays/objects (copy and share models both enumerated); fall-through of a body without return; match without a matching case; built-ins outside their documented domain; undocumented built-ins (no-crash and determinism only) except the conventional reading of append/keys/reverse/slice/flat/sort/map/filter/reduce/find/some/every/set/remove")
	res.Write(p)
}

func c01ReasonClass(s string) string {
	for _, t := range []string{"array", "object", "float", "int", "str", "string", "bool", "null", "function"} {
		s = strings.ReplaceAll(s, " "+t+" ", " T ")
		if strings.HasSuffix(s, " "+t) {
			s = s[:len(s)-len(t)] + "T"
		}
		if strings.HasPrefix(s, t+" ") {
			s = "T" + s[len(t):]
		}
	}
	if i := strings.Index(s, ":"); i > 0 && i < 24 {
		s = "built-in outside its documented domain"
	}
	f := strings.Fields(s)
	if len(f) > 7 {
		f = f[:7]
	}
	return strings.Join(f, " ")
}

func c01Probe(path string) {
	b, err := os.ReadFile(path)
	if err != nil {
		panic(err)
	}
	for _, src := range strings.Split(string(b), "\n----\n") {
		fmt.Println("=====")
		fmt.Println(src)
		m, err := parseSource(src)
		if err != nil {
			fmt.Println("PARSE ERROR:", err)
			continue
		}
		func() {
			defer func() {
				if r := recover(); r != nil {
					fmt.Println("PANIC:", r)
				}
			}()
			in := newConfiguredInterpreter()
			if err := in.LoadModule(*m); err != nil {
				fmt.Println("LOAD ERROR:", err)
				return
			}
			for rep := 0; rep < 2; rep++ {
				for _, it := range m.Items {
					if r, ok := it.(*gast.Route); ok {
						path := strings.ReplaceAll(r.Path, ":p", "7")
						resp, err := in.ExecuteRoute(r, &interpreter.Request{Path: path, Method: "POST", Params: map[string]string{}, Body: map[string]interface{}{"b": "x", "n": 1.5}, Headers: map[string]string{}})
						if err != nil {
							fmt.Printf("%s -> ERR %v\n", r.Path, err)
						} else {
							fmt.Printf("%s -> %d %s\n", r.Path, resp.StatusCode, c01ImplCanon(resp.Body))
						}
					}
				}
			}
		}()
	}
}

// c01L8Fit: the deepest recursion of form kind (route of c01L8Module) that is
// answered with a value on a fresh interpreter of the tree under test: depths
// 0, 1, 2, … are evaluated, each on its own fresh interpreter, up to the first
// one that is not answered (≤ max).  -1: depth 0 is not answered; max: none is
// refused up to max.
func c01L8Fit(kind, max int) int {
	c := l8Case(nil, l8Req{kind, "0"})
	mod, err := parseSource(c01Source(c.Prog))
	if err != nil {
		return -1
	}
	var route *gast.Route
	for _, it := range mod.Items {
		if r, ok := it.(*gast.Route); ok {
			route = r
		}
	}
	if route == nil {
		return -1
	}
	for d := 0; d <= max; d++ {
		answered := false
		func() {
			defer func() { recover() }()
			in := newConfiguredInterpreter()
			if in.LoadModule(*mod) != nil {
				return
			}
			o := c01ExecP(in, route, 0, strconv.Itoa(d), c)
			answered = o.Kind == "value"
		}()
		if !answered {
			return d - 1
		}
	}
	return max
}
