package main

// C01 generator ("genum"): layers L1–L6, each an exhaustively enumerated
// finite set of programs × input bindings, emitted in a fixed order.

import (
	"fmt"
)

var c01BinOps = []string{"+", "-", "*", "/", "%", "==", "!=", "<", "<=", ">", ">=", "&&", "||"}

// the value shapes of the design (+ false)
func c01Shapes() []*c01N {
	return []*c01N{
		nInt(0), nInt(1), nInt(-1), nInt(9223372036854775807), nFloat(1.5), nFloat(2.0),
		// two integers beyond 2^53 that are distinct but round to the same float64: integer comparison and
		// arithmetic are exact, whatever helper they go through
		nInt(9007199254740992), nInt(9007199254740993),
		nStr(""), nStr("a"), nBool(true), nBool(false), nNull(),
		nArr(), nArr(nInt(1), nInt(2)), nObj("a", nInt(1)),
	}
}

// shapes a decoded JSON body can deliver unambiguously (no integral numbers:
// whether those arrive as int or float is not documented)
func c01BodyShapes() []*c01N {
	return []*c01N{
		nFloat(1.5), nStr(""), nStr("a"), nBool(true), nBool(false), nNull(),
		nArr(), nArr(nStr("a"), nStr("b")), nObj("a", nStr("x")),
	}
}

func prog1(body ...*c01N) c01Prog { return c01Prog{Routes: [][]*c01N{body}} }

func inputB() *c01N { return nField(nVar("input"), "b") }

type c01Emit func(build func() c01Case) bool

func c01Layers(thorough bool, builtinNames []string, emit c01Emit) map[string]any {
	b := map[string]any{}
	stop := false
	e := func(build func() c01Case) {
		if stop {
			return
		}
		if !emit(build) {
			stop = true
		}
	}
	c01L1(thorough, e, b)
	c01L2(thorough, e, b)
	c01L4(thorough, builtinNames, e, b)
	c01L5(thorough, e, b)
	c01L6(thorough, e, b)
	c01L7(thorough, e, b)
	c01L8(thorough, e, b)
	c01L3(thorough, e, b, &stop)
	return b
}

// ---- L1: operators × shapes ----------------------------------------------------

func c01L1(thorough bool, e func(func() c01Case), b map[string]any) {
	sh := c01Shapes()
	n := 0
	for _, op := range c01BinOps {
		for _, l := range sh {
			for _, r := range sh {
				e(func() c01Case { return c01Case{Layer: "L1", P: "a", Prog: prog1(sRet(nBin(op, l, r)))} })
				n++
				// the same through variables
				e(func() c01Case {
					return c01Case{Layer: "L1", P: "a", Prog: prog1(sDecl("u", l), sDecl("w", r), sRet(nObj("r", nBin(op, nVar("u"), nVar("w")))))}
				})
				n++
			}
		}
	}
	// one operand from the request body, the other a literal
	for _, op := range c01BinOps {
		for _, bv := range c01BodyShapes() {
			for _, s := range sh {
				e(func() c01Case {
					return c01Case{Layer: "L1", P: "a", Body: bv, Prog: prog1(sRet(nBin(op, inputB(), s)))}
				})
				e(func() c01Case {
					return c01Case{Layer: "L1", P: "a", Body: bv, Prog: prog1(sRet(nBin(op, s, inputB())))}
				})
				n += 2
			}
		}
	}
	// the path parameter is a string
	for _, op := range c01BinOps {
		for _, pv := range []string{"a", "1"} {
			for _, s := range sh {
				e(func() c01Case { return c01Case{Layer: "L1", P: pv, Prog: prog1(sRet(nBin(op, nVar("p"), s)))} })
				e(func() c01Case { return c01Case{Layer: "L1", P: pv, Prog: prog1(sRet(nBin(op, s, nVar("p"))))} })
				n += 2
			}
		}
	}
	// unary operators and their compositions
	un := [][]string{{"!"}, {"-"}, {"!", "!"}, {"-", "-"}, {"-", "!"}, {"!", "-"}}
	for _, ops := range un {
		for _, s := range sh {
			x := s
			for i := len(ops) - 1; i >= 0; i-- {
				x = nUn(ops[i], x)
			}
			e(func() c01Case { return c01Case{Layer: "L1", P: "a", Prog: prog1(sRet(x))} })
			n++
		}
		for _, bv := range c01BodyShapes() {
			var x *c01N = inputB()
			for i := len(ops) - 1; i >= 0; i-- {
				x = nUn(ops[i], x)
			}
			e(func() c01Case { return c01Case{Layer: "L1", P: "a", Body: bv, Prog: prog1(sRet(x))} })
			n++
		}
	}
	// literals, containers, field and index access on every shape
	for _, s := range sh {
		e(func() c01Case { return c01Case{Layer: "L1", P: "a", Prog: prog1(sRet(s))} })
		e(func() c01Case { return c01Case{Layer: "L1", P: "a", Prog: prog1(sRet(nArr(s, s)))} })
		e(func() c01Case { return c01Case{Layer: "L1", P: "a", Prog: prog1(sRet(nObj("k", s, "m", nArr(s))))} })
		e(func() c01Case {
			return c01Case{Layer: "L1", P: "a", Prog: prog1(sDecl("u", s), sRet(nField(nVar("u"), "a")))}
		})
		n += 4
		for _, i := range []*c01N{nInt(0), nInt(1), nInt(2), nInt(-1), nFloat(1.0), nStr("a"), nNull(), nBool(true)} {
			e(func() c01Case {
				return c01Case{Layer: "L1", P: "a", Prog: prog1(sDecl("u", s), sRet(nIndex(nVar("u"), i)))}
			})
			n++
		}
		e(func() c01Case {
			return c01Case{Layer: "L1", P: "a", Prog: prog1(sDecl("u", nObj("f", s)), sRet(nField(nVar("u"), "f")))}
		})
		e(func() c01Case {
			return c01Case{Layer: "L1", P: "a", Prog: prog1(sDecl("u", nObj("f", nObj("g", s))), sRet(nField(nField(nVar("u"), "f"), "g")))}
		})
		e(func() c01Case {
			return c01Case{Layer: "L1", P: "a", Prog: prog1(sDecl("u", nArr(nArr(s))), sRet(nIndex(nIndex(nVar("u"), nInt(0)), nInt(0))))}
		})
		e(func() c01Case {
			return c01Case{Layer: "L1", P: "a", Prog: prog1(sDecl("u", nObj("f", nArr(s))), sRet(nIndex(nField(nVar("u"), "f"), nInt(0))))}
		})
		e(func() c01Case { return c01Case{Layer: "L1", P: "a", Prog: prog1(sRetS(s, 201))} })
		n += 5
	}
	b["L1_operators_x_shapes"] = fmt.Sprintf("%d binary operators × %d×%d literal shapes (direct and through variables) + body/path operands + %d unary compositions + access forms: %d cases", len(c01BinOps), len(sh), len(sh), len(un), n)
}

// ---- L2: precedence / associativity ------------------------------------------

func c01L2(thorough bool, e func(func() c01Case), b map[string]any) {
	vals := []*c01N{nInt(12), nInt(3), nInt(2), nBool(true), nBool(false)}
	n := 0
	for _, o1 := range c01BinOps {
		for _, o2 := range c01BinOps {
			for _, x := range vals {
				for _, y := range vals {
					for _, z := range vals {
						e(func() c01Case {
							return c01Case{Layer: "L2", P: "a", Prog: prog1(sRet(nFlat([]*c01N{x, y, z}, []string{o1, o2})))}
						})
						n++
					}
				}
			}
		}
	}
	// unary operator on either operand of a binary operator, no parentheses
	for _, u := range []string{"-", "!"} {
		for _, o := range c01BinOps {
			for _, x := range vals {
				for _, y := range vals {
					e(func() c01Case {
						return c01Case{Layer: "L2", P: "a", Prog: prog1(sRet(nFlat([]*c01N{nUn(u, x), y}, []string{o})))}
					})
					e(func() c01Case {
						return c01Case{Layer: "L2", P: "a", Prog: prog1(sRet(nFlat([]*c01N{x, nUn(u, y)}, []string{o})))}
					})
					n += 2
				}
			}
		}
	}
	// three operators: numeric operands for arithmetic/relational, one trailing boolean position
	quads := [][]*c01N{
		{nInt(12), nInt(3), nInt(2), nInt(5)},
		{nInt(2), nInt(12), nInt(5), nInt(3)},
		{nInt(12), nInt(3), nInt(2), nBool(true)},
		{nBool(true), nBool(false), nBool(true), nBool(false)},
		{nBool(false), nBool(true), nInt(2), nInt(3)},
		{nInt(7), nInt(2), nBool(false), nBool(true)},
	}
	ops3 := c01BinOps
	for _, o1 := range ops3 {
		for _, o2 := range ops3 {
			for _, o3 := range ops3 {
				for qi, q := range quads {
					if !thorough && qi >= 3 {
						continue
					}
					e(func() c01Case { return c01Case{Layer: "L2", P: "a", Prog: prog1(sRet(nFlat(q, []string{o1, o2, o3})))} })
					n++
				}
			}
		}
	}
	// chains inside conditions and as call arguments / container elements
	for _, o1 := range c01BinOps {
		for _, o2 := range c01BinOps {
			ch := nFlat([]*c01N{nInt(12), nInt(3), nInt(2)}, []string{o1, o2})
			e(func() c01Case { return c01Case{Layer: "L2", P: "a", Prog: prog1(sRet(nArr(ch, nInt(1))))} })
			e(func() c01Case { return c01Case{Layer: "L2", P: "a", Prog: prog1(sRet(nObj("k", ch)))} })
			e(func() c01Case { return c01Case{Layer: "L2", P: "a", Prog: prog1(sDecl("u", ch), sRet(nVar("u")))} })
			e(func() c01Case {
				return c01Case{Layer: "L2", P: "a", Prog: prog1(sIf(ch, bl(sRet(nInt(1)))), sRet(nInt(2)))}
			})
			n += 4
		}
	}
	b["L2_precedence_chains"] = fmt.Sprintf("a op1 b op2 c for all %d² operator pairs × 5³ operand triples, unary on either side, all %d³ triples on fixed quadruples, chains in container/condition positions, emitted without parentheses: %d cases", len(c01BinOps), len(c01BinOps), n)
}

// ---- L3: statement trees -------------------------------------------------------

// Alphabet (variables: x = parseInt(p), y = 2 declared in the route scope; z is
// only ever declared inside the enumerated statements; v/k are loop variables).
type c01L3Gen struct {
	stmtMemo map[[3]int][]*c01N
	listMemo map[[3]int][][]*c01N
}

func l3x() *c01N { return nVar("x") }

func l3Simple(loop bool) []*c01N {
	s := []*c01N{
		sDecl("x", nBin("+", l3x(), nInt(1))),
		sSet("x", nBin("*", l3x(), nInt(2))),
		sDecl("z", l3x()),
		sSet("y", nVar("z")),
		sDecl("y", nBin("+", nVar("y"), l3x())),
		sRet(l3x()),
		sGuard(nBin("<", l3x(), nInt(3)), 404, "g"),
		sDecl("z", nInt(5)),
		sSet("x", nBin("+", l3x(), nVar("v"))),
	}
	if loop {
		s = append(s, sBreak(), sContinue())
	}
	return s
}

func b2i(b bool) int {
	if b {
		return 1
	}
	return 0
}

func l3Terminal(s *c01N) bool { return s.K == "break" || s.K == "continue" || s.K == "ret" }

// all single statements of exactly the given size
func (g *c01L3Gen) stmts(size, depth int, loop bool) []*c01N {
	key := [3]int{size, depth, b2i(loop)}
	if r, ok := g.stmtMemo[key]; ok {
		return r
	}
	var out []*c01N
	if size == 1 {
		out = l3Simple(loop)
	} else if depth > 0 {
		cond := nBin("<", l3x(), nInt(2))
		for _, body := range g.lists(size-1, depth-1, loop) {
			out = append(out, sIf(cond, body))
		}
		for _, body := range g.lists(size-1, depth-1, true) {
			out = append(out, sWhile(nBin("<", l3x(), nInt(3)), append(bl(sSet("x", nBin("+", l3x(), nInt(1)))), body...)))
			out = append(out, sWhile(nBool(true), append(bl(sSet("x", nBin("+", l3x(), nInt(1))), sIf(nBin(">", l3x(), nInt(3)), bl(sBreak()))), body...)))
			out = append(out, sFor([]string{"v"}, nArr(nInt(10), nInt(20)), body))
			out = append(out, sFor([]string{"k", "v"}, nObj("a", nInt(1), "b", nInt(2)), body))
		}
		for a := 1; a <= size-2; a++ {
			for _, b1 := range g.lists(a, depth-1, loop) {
				for _, b2 := range g.lists(size-1-a, depth-1, loop) {
					out = append(out, sIf(cond, b1, b2))
					out = append(out, sSwitch(l3x(), []*c01N{nInt(2)}, [][]*c01N{b1}, b2))
					out = append(out, sSwitch(l3x(), []*c01N{nInt(1), nInt(2)}, [][]*c01N{b1, b2}, nil))
				}
			}
		}
	}
	g.stmtMemo[key] = out
	return out
}

// all statement lists of exactly the given total size (no statement after a
// break/continue/return in the same block)
func (g *c01L3Gen) lists(size, depth int, loop bool) [][]*c01N {
	key := [3]int{size, depth, b2i(loop)}
	if r, ok := g.listMemo[key]; ok {
		return r
	}
	var out [][]*c01N
	for k := 1; k <= size; k++ {
		for _, s := range g.stmts(k, depth, loop) {
			if k == size {
				out = append(out, []*c01N{s})
				continue
			}
			if l3Terminal(s) {
				continue
			}
			for _, rest := range g.lists(size-k, depth, loop) {
				out = append(out, append([]*c01N{s}, rest...))
			}
		}
	}
	g.listMemo[key] = out
	return out
}

func c01L3(thorough bool, e func(func() c01Case), b map[string]any, stop *bool) {
	g := &c01L3Gen{stmtMemo: map[[3]int][]*c01N{}, listMemo: map[[3]int][][]*c01N{}}
	maxSize, depth := 4, 2
	ps := []string{"1", "2"}
	if thorough {
		maxSize = 5
		ps = []string{"1", "2", "3"}
	}
	n := 0
	wrap := func(body []*c01N) c01Prog {
		all := bl(sDecl("x", nCall("parseInt", nVar("p"))), sDecl("y", nInt(2)))
		all = append(all, body...)
		all = append(all, sRet(nObj("x", l3x(), "y", nVar("y"))))
		return prog1(all...)
	}
	for size := 1; size <= maxSize && !*stop; size++ {
		for k := 1; k <= size && !*stop; k++ {
			for _, s := range g.stmts(k, depth, false) {
				if *stop {
					break
				}
				if k == size {
					for _, pv := range ps {
						e(func() c01Case { return c01Case{Layer: "L3", P: pv, Prog: wrap([]*c01N{s})} })
						n++
					}
					continue
				}
				if l3Terminal(s) {
					continue
				}
				for _, rest := range g.lists(size-k, depth, false) {
					for _, pv := range ps {
						e(func() c01Case { return c01Case{Layer: "L3", P: pv, Prog: wrap(append([]*c01N{s}, rest...))} })
						n++
					}
					if *stop {
						break
					}
				}
			}
		}
	}
	b["L3_statement_trees"] = fmt.Sprintf("every statement tree with ≤ %d statement nodes, block depth ≤ %d, over 9 simple statements (+break/continue in loops) and 9 compound templates (if, if/else, bounded while, while true+break, for over array, for k,v over object, switch with default, two-case switch) × p ∈ %v: %d cases", maxSize, depth, ps, n)
}

// ---- L4: built-ins × argument vectors --------------------------------------------

func c01L4(thorough bool, names []string, e func(func() c01Case), b map[string]any) {
	wide := append(c01Shapes(),
		nStr(" a B "), nStr("a,b"), nStr("12"), nStr("-5"), nStr("1.5"), nStr("abc"), nStr("b"),
		nInt(2), nArr(nStr("b"), nStr("a")), nArr(nInt(3), nInt(1), nInt(2)), nArr(nArr(nInt(1)), nInt(2)), nObj("a", nInt(1), "b", nInt(2)))
	narrow := []*c01N{nInt(0), nInt(1), nInt(2), nStr("abc"), nStr("b"), nStr(""), nArr(nInt(1), nInt(2)), nObj("a", nInt(1))}
	if thorough {
		narrow = c01Shapes()
	}
	n := 0
	for _, name := range names {
		e(func() c01Case { return c01Case{Layer: "L4", P: "a", Prog: prog1(sRet(nCall(name)))} })
		n++
		for _, a := range wide {
			e(func() c01Case { return c01Case{Layer: "L4", P: "a", Prog: prog1(sRet(nCall(name, a)))} })
			e(func() c01Case {
				return c01Case{Layer: "L4", P: "a", Prog: prog1(sDecl("r", nCall(name, a)), sRet(nObj("r", nVar("r"))))}
			})
			n += 2
			for _, a2 := range wide {
				e(func() c01Case { return c01Case{Layer: "L4", P: "a", Prog: prog1(sRet(nCall(name, a, a2)))} })
				n++
			}
		}
		for _, a := range narrow {
			for _, a2 := range narrow {
				for _, a3 := range narrow {
					e(func() c01Case { return c01Case{Layer: "L4", P: "a", Prog: prog1(sRet(nCall(name, a, a2, a3)))} })
					n++
				}
			}
		}
		if thorough {
			four := []*c01N{nInt(1), nStr("a"), nArr(nInt(1)), nNull()}
			for _, a := range four {
				for _, a2 := range four {
					for _, a3 := range four {
						for _, a4 := range four {
							e(func() c01Case { return c01Case{Layer: "L4", P: "a", Prog: prog1(sRet(nCall(name, a, a2, a3, a4)))} })
							n++
						}
					}
				}
			}
		}
		// method form: receiver.name(args) — spec §4.7
		if !containsDot(name) {
			for _, a := range wide {
				e(func() c01Case {
					return c01Case{Layer: "L4", P: "a", Prog: prog1(sDecl("s", a), sRet(nCall("s."+name)))}
				})
				n++
				for _, a2 := range narrow {
					e(func() c01Case {
						return c01Case{Layer: "L4", P: "a", Prog: prog1(sDecl("s", a), sRet(nCall("s."+name, a2)))}
					})
					n++
				}
			}
			// argument taken from the path parameter and from the request body
			e(func() c01Case { return c01Case{Layer: "L4", P: "12", Prog: prog1(sRet(nCall(name, nVar("p"))))} })
			e(func() c01Case { return c01Case{Layer: "L4", P: "ab", Prog: prog1(sRet(nCall(name, nVar("p"))))} })
			e(func() c01Case { return c01Case{Layer: "L4", P: "ab", Prog: prog1(sRet(nCall("p." + name)))} })
			n += 3
			for _, bv := range c01BodyShapes() {
				e(func() c01Case {
					return c01Case{Layer: "L4", P: "a", Body: bv, Prog: prog1(sRet(nCall(name, inputB())))}
				})
				e(func() c01Case {
					return c01Case{Layer: "L4", P: "a", Body: bv, Prog: prog1(sRet(nCall("input.b." + name)))}
				})
				n += 2
			}
		}
	}
	// documented built-ins over well-typed argument domains (spec §10, API reference)
	S := []*c01N{nStr(""), nStr("a"), nStr("abc"), nStr("hello world"), nStr(" a B "), nStr("a,b,,c"), nStr("aXbXc"), nStr("AbC")}
	T := []*c01N{nStr(""), nStr("a"), nStr("b"), nStr("abc"), nStr(","), nStr("X"), nStr("o w"), nStr(" ")}
	I := []*c01N{nInt(-1), nInt(0), nInt(1), nInt(2), nInt(3), nInt(5), nInt(11), nInt(12)}
	one := func(call *c01N) {
		e(func() c01Case { return c01Case{Layer: "L4", P: "a", Prog: prog1(sRet(call))} })
		n++
	}
	for _, x := range S {
		for _, f := range []string{"length", "upper", "lower", "trim", "parseInt", "parseFloat", "toString"} {
			one(nCall(f, x))
		}
		for _, y := range T {
			for _, f := range []string{"contains", "startsWith", "endsWith", "indexOf", "split"} {
				one(nCall(f, x, y))
			}
			for _, z := range []*c01N{nStr(""), nStr("Z"), nStr("aa")} {
				one(nCall("replace", x, y, z))
			}
			one(nCall("join", nCall("split", x, y), y))
			one(nCall("length", nCall("split", x, y)))
		}
		for _, i := range I {
			one(nCall("charAt", x, i))
			for _, j := range I {
				one(nCall("substring", x, i, j))
			}
		}
	}
	for _, a := range []*c01N{nArr(), nArr(nStr("a")), nArr(nStr("a"), nStr("b")), nArr(nInt(1), nInt(2), nInt(3)), nArr(nStr("a"), nInt(1)), nArr(nFloat(1.5)), nArr(nNull())} {
		one(nCall("length", a))
		for _, y := range T {
			one(nCall("join", a, y))
		}
	}
	nums := []*c01N{nInt(-5), nInt(0), nInt(5), nInt(3), nFloat(-2.5), nFloat(2.5), nFloat(0.5), nInt(-1)}
	for _, x := range nums {
		one(nCall("abs", x))
		one(nCall("toString", x))
		for _, y := range nums {
			one(nCall("min", x, y))
			one(nCall("max", x, y))
		}
	}
	for _, x := range []string{"42", "-10", "0", "007", "+5", " 7", "7 ", "3.9", "abc", "", "12a", "9223372036854775807", "99999999999999999999", "-0", "1e3",
		// zero-padded decimal strings (ids, zip codes): decimal whatever the digits after the zero are
		"010", "089", "0755", "-0012", "00", "0x1f", "1_000", "0b11"} {
		one(nCall("parseInt", nStr(x)))
		one(nBin("+", nCall("parseInt", nStr(x)), nInt(1)))
	}
	for _, x := range []string{"3.14159", "-2.5", "0.5", "2", "abc", "", ".5", "1e3", "10.25", "5.", "-0.125"} {
		one(nCall("parseFloat", nStr(x)))
		one(nBin("*", nCall("parseFloat", nStr(x)), nInt(2)))
	}
	for _, x := range []*c01N{nInt(42), nInt(-7), nBool(true), nBool(false), nStr("x"), nFloat(3.14), nFloat(2.0), nFloat(0.1), nNull(), nArr(nInt(1)), nObj("a", nInt(1))} {
		one(nCall("toString", x))
		one(nBin("+", nStr("<"), nCall("toString", x)))
	}
	one(nCall("now"))
	one(nBin(">", nCall("now"), nInt(0)))
	b["L4_builtins"] = fmt.Sprintf("%d built-in names read from the implementation's table × arity 0, 1, 2 over %d shapes, arity 3 over %d shapes, method form, path/body arguments: %d cases", len(names), len(wide), len(narrow), n)
}

func containsDot(s string) bool {
	for _, r := range s {
		if r == '.' {
			return true
		}
	}
	return false
}

// ---- L5: functions, match, pipes, callbacks -----------------------------------------

func fnDef(name string, params []c01Param, ret string, body ...*c01N) c01Fn {
	return c01Fn{Name: name, Params: params, Ret: ret, Body: body}
}

func c01L5(thorough bool, e func(func() c01Case), b map[string]any) {
	n := 0
	// (a) parameter forms × call arities
	type pk struct {
		p        c01Param
		optional bool
	}
	first := []pk{
		{c01Param{Name: "a", Type: "int", Req: true}, false},
		{c01Param{Name: "a", Type: "int"}, true},
		{c01Param{Name: "a", Type: "int", Def: nInt(5)}, true},
		{c01Param{Name: "a", Type: "any"}, true},
		{c01Param{Name: "a", Type: "any", Req: true}, false},
		{c01Param{Name: "a", Type: "str", Req: true}, false},
		{c01Param{Name: "a", Type: "int", Req: true, Def: nInt(5)}, true},
	}
	second := []pk{
		{c01Param{Name: "b", Type: "int", Req: true}, false},
		{c01Param{Name: "b", Type: "int"}, true},
		{c01Param{Name: "b", Type: "int", Def: nInt(7)}, true},
		{c01Param{Name: "b", Type: "any"}, true},
		{c01Param{Name: "b", Type: "any", Def: nBin("+", nVar("a"), nInt(1))}, true},
		{c01Param{Name: "b", Type: "bool", Def: nBool(false)}, true},
	}
	var plists [][]c01Param
	plists = append(plists, nil)
	for _, f := range first {
		plists = append(plists, []c01Param{f.p})
		for _, s := range second {
			if f.optional && !s.optional {
				continue // the parser rejects a required parameter after an optional one
			}
			plists = append(plists, []c01Param{f.p, s.p})
		}
	}
	argv := []*c01N{nInt(1), nStr("s"), nNull(), nFloat(2.5), nBool(true)}
	var argLists [][]*c01N
	argLists = append(argLists, nil)
	for _, x := range argv {
		argLists = append(argLists, []*c01N{x})
		for _, y := range argv {
			argLists = append(argLists, []*c01N{x, y})
			for _, z := range argv {
				if !thorough && z.K != "int" && z.K != "null" {
					continue
				}
				argLists = append(argLists, []*c01N{x, y, z})
			}
		}
	}
	for _, pl := range plists {
		var els []*c01N
		for _, pa := range pl {
			els = append(els, nVar(pa.Name))
		}
		f := fnDef("f", pl, "", sRet(nArr(els...)))
		for _, al := range argLists {
			e(func() c01Case {
				return c01Case{Layer: "L5", P: "a", Prog: c01Prog{Fns: []c01Fn{f}, Routes: [][]*c01N{bl(sRet(nObj("r", nCall("f", al...))))}}}
			})
			n++
		}
	}
	// (b) declared return type × returned shape
	for _, rt := range []string{"int", "str", "bool", "float", "any", ""} {
		for _, s := range c01Shapes() {
			f := fnDef("f", nil, rt, sRet(s))
			e(func() c01Case {
				return c01Case{Layer: "L5", P: "a", Prog: c01Prog{Fns: []c01Fn{f}, Routes: [][]*c01N{bl(sRet(nObj("r", nCall("f"))))}}}
			})
			n++
		}
	}
	// (c) recursion and locals of a frame around a nested call
	nv := nVar("n")
	rec := []c01Fn{
		fnDef("f", []c01Param{{Name: "n", Type: "int", Req: true}}, "int",
			sIf(nBin("<=", nv, nInt(1)), bl(sRet(nInt(1)))), sRet(nBin("*", nv, nCall("f", nBin("-", nv, nInt(1)))))),
		fnDef("f", []c01Param{{Name: "n", Type: "int", Req: true}}, "int",
			sDecl("t", nv), sIf(nBin(">", nv, nInt(0)), bl(sDecl("r", nCall("f", nBin("-", nv, nInt(1)))))), sRet(nVar("t"))),
		fnDef("f", []c01Param{{Name: "n", Type: "int", Req: true}}, "",
			sDecl("acc", nInt(0)), sIf(nBin(">", nv, nInt(0)), bl(sDecl("acc", nBin("+", nv, nCall("f", nBin("-", nv, nInt(1))))))), sRet(nVar("acc"))),
		fnDef("f", []c01Param{{Name: "n", Type: "int", Req: true}}, "",
			sIf(nBin("<", nv, nInt(2)), bl(sRet(nv))),
			sDecl("a", nCall("f", nBin("-", nv, nInt(1)))), sDecl("b", nCall("f", nBin("-", nv, nInt(2)))), sRet(nBin("+", nVar("a"), nVar("b")))),
		fnDef("f", []c01Param{{Name: "n", Type: "int", Req: true}}, "",
			sDecl("out", nArr()), sDecl("i", nInt(0)),
			sWhile(nBin("<", nVar("i"), nv), bl(sDecl("out", nBin("+", nVar("out"), nArr(nVar("i")))), sDecl("i", nBin("+", nVar("i"), nInt(1))))),
			sRet(nVar("out"))),
	}
	for _, f := range rec {
		for _, pv := range []string{"0", "1", "2", "3", "5"} {
			e(func() c01Case {
				return c01Case{Layer: "L5", P: pv, Prog: c01Prog{Fns: []c01Fn{f}, Routes: [][]*c01N{bl(sRet(nObj("r", nCall("f", nCall("parseInt", nVar("p"))))))}}}
			})
			e(func() c01Case {
				return c01Case{Layer: "L5", P: pv, Prog: c01Prog{Fns: []c01Fn{f}, Routes: [][]*c01N{bl(
					sDecl("t", nInt(100)), sDecl("acc", nInt(200)), sDecl("i", nInt(300)),
					sDecl("r", nCall("f", nCall("parseInt", nVar("p")))),
					sRet(nArr(nVar("r"), nVar("t"), nVar("acc"), nVar("i"))))}}}
			})
			n += 2
		}
	}
	// (d) match: every pattern form × every scrutinee shape, alone and in ordered pairs, with guards
	pats := []*c01N{
		{K: "pint", I: 1}, {K: "pint", I: 0}, {K: "pfloat", F: 1.5}, {K: "pstr", S: "a"}, {K: "pstr", S: ""}, {K: "pbool", B: true}, {K: "pbool", B: false},
		{K: "pnull"}, {K: "pwild"}, {K: "pvar", S: "v"},
		{K: "pobj", Ss: []string{"a"}, C: []*c01N{{K: "none"}}},
		{K: "pobj", Ss: []string{"a"}, C: []*c01N{{K: "pint", I: 1}}},
		{K: "pobj", Ss: []string{"a"}, C: []*c01N{{K: "pvar", S: "v"}}},
		{K: "pobj", Ss: []string{"b"}, C: []*c01N{{K: "none"}}},
		{K: "pobj", Ss: []string{"a", "b"}, C: []*c01N{{K: "pvar", S: "v"}, {K: "pvar", S: "w"}}},
		{K: "pobj"},
		{K: "parr"},
		{K: "parr", C: []*c01N{{K: "pvar", S: "v"}}},
		{K: "parr", C: []*c01N{{K: "pint", I: 1}, {K: "pvar", S: "v"}}},
		{K: "parr", C: []*c01N{{K: "pvar", S: "v"}}, S: "rest"},
		{K: "parr", S: "rest"},
		{K: "parr", C: []*c01N{{K: "pvar", S: "v"}, {K: "pvar", S: "w"}}},
		{K: "parr", C: []*c01N{{K: "pwild"}, {K: "pint", I: 2}}},
		// patterns that bind a name and THEN meet an element / field that may not
		// match (the arm does not apply although it has bound something)
		{K: "parr", C: []*c01N{{K: "pvar", S: "v"}, {K: "pint", I: 9}}},
		{K: "parr", C: []*c01N{{K: "pvar", S: "v"}, {K: "pvar", S: "w"}, {K: "pint", I: 9}}},
		{K: "parr", C: []*c01N{{K: "pvar", S: "v"}, {K: "pint", I: 2}}},
		{K: "pobj", Ss: []string{"a", "b"}, C: []*c01N{{K: "none"}, {K: "pint", I: 9}}},
		{K: "pobj", Ss: []string{"a", "b"}, C: []*c01N{{K: "pvar", S: "v"}, {K: "pint", I: 9}}},
		{K: "pobj", Ss: []string{"a", "b"}, C: []*c01N{{K: "pvar", S: "v"}, {K: "pint", I: 2}}},
	}
	scrut := append(c01Shapes(), nArr(nInt(1)), nObj("a", nInt(1), "b", nInt(2)), nArr(nInt(1), nInt(2), nInt(3)), nObj("a", nArr(nInt(1))), nInt(2), nStr("b"))
	// what a case body reports: the bindings the pattern introduces
	bodyFor := func(p *c01N, tag string) *c01N {
		var names []string
		var collect func(q *c01N, key string)
		collect = func(q *c01N, key string) {
			switch q.K {
			case "pvar":
				names = append(names, q.S)
			case "none":
				names = append(names, key)
			case "pobj":
				for i, c := range q.C {
					collect(c, q.Ss[i])
				}
			case "parr":
				for _, c := range q.C {
					collect(c, "")
				}
				if q.S != "" {
					names = append(names, q.S)
				}
			}
		}
		collect(p, "")
		els := []*c01N{nStr(tag)}
		for _, nm := range names {
			els = append(els, nVar(nm))
		}
		return nArr(els...)
	}
	for _, s := range scrut {
		for i, p1 := range pats {
			m := nMatch(s, nCase(p1, nil, bodyFor(p1, "first")), nCase(&c01N{K: "pwild"}, nil, nStr("other")))
			e(func() c01Case { return c01Case{Layer: "L5", P: "a", Prog: prog1(sRet(m))} })
			e(func() c01Case {
				return c01Case{Layer: "L5", P: "a", Prog: prog1(sDecl("u", s), sDecl("r", nMatch(nVar("u"), nCase(p1, nil, bodyFor(p1, "first")), nCase(&c01N{K: "pwild"}, nil, nStr("other")))), sRet(nObj("r", nVar("r"))))}
			})
			// without a catch-all (no case may apply)
			e(func() c01Case {
				return c01Case{Layer: "L5", P: "a", Prog: prog1(sRet(nMatch(s, nCase(p1, nil, bodyFor(p1, "only")))))}
			})
			// guards
			for _, g := range []*c01N{nBool(true), nBool(false)} {
				e(func() c01Case {
					return c01Case{Layer: "L5", P: "a", Prog: prog1(sRet(nMatch(s, nCase(p1, g, bodyFor(p1, "guarded")), nCase(&c01N{K: "pwild"}, nil, nStr("other")))))}
				})
				n++
			}
			n += 3
			for j, p2 := range pats {
				if !thorough && (i+j)%3 != 0 && p1.K != "pvar" && p2.K != "pvar" {
					// quick tier: a fixed third of the ordered pairs (the full square is in the thorough tier)
					continue
				}
				m2 := nMatch(s, nCase(p1, nil, bodyFor(p1, "first")), nCase(p2, nil, bodyFor(p2, "second")), nCase(&c01N{K: "pwild"}, nil, nStr("other")))
				e(func() c01Case { return c01Case{Layer: "L5", P: "a", Prog: prog1(sRet(m2))} })
				n++
			}
		}
		// guard using the binding; the bound name shadows an outer variable only inside the case
		e(func() c01Case {
			return c01Case{Layer: "L5", P: "a", Prog: prog1(sDecl("v", nStr("outer")),
				sDecl("r", nMatch(s, nCase(&c01N{K: "pvar", S: "v"}, nBin("==", nVar("v"), nInt(1)), nArr(nStr("one"), nVar("v"))), nCase(&c01N{K: "pvar", S: "w"}, nil, nArr(nStr("w"), nVar("w"))))),
				sRet(nArr(nVar("r"), nVar("v"))))}
		})
		n++
	}
	for _, bv := range c01BodyShapes() {
		for _, p1 := range pats {
			e(func() c01Case {
				return c01Case{Layer: "L5", P: "a", Body: bv, Prog: prog1(sRet(nMatch(inputB(), nCase(p1, nil, bodyFor(p1, "first")), nCase(&c01N{K: "pwild"}, nil, nStr("other")))))}
			})
			n++
		}
	}
	// (g) scope of an arm.  Every name a pattern of the list can bind (v, w,
	// rest, a, b) is ALSO a variable of the enclosing block, and every arm — the
	// one whose pattern binds it, the arms after it, the catch-all — reports all
	// five, as does the statement after the match: an arm sees its own bindings
	// and, for every other name, the enclosing block's variable, whatever the
	// arms tried before it bound on the way to not applying (a later element /
	// field that does not match, a guard that says no).
	universe := []string{"v", "w", "rest", "a", "b"}
	outer := func() []*c01N {
		var d []*c01N
		for _, nm := range universe {
			d = append(d, sDecl(nm, nStr("outer_"+nm)))
		}
		return d
	}
	report := func(tag string) *c01N {
		els := []*c01N{nStr(tag)}
		for _, nm := range universe {
			els = append(els, nVar(nm))
		}
		return nArr(els...)
	}
	guards1 := []*c01N{nil, nBool(false)}
	if thorough {
		guards1 = append(guards1, nBool(true), nBin("==", nVar("a"), nStr("outer_a")))
	}
	ng := 0
	for _, s := range scrut {
		for _, p1 := range pats {
			for _, g1 := range guards1 {
				for j := -1; j < len(pats); j++ {
					cases := []*c01N{nCase(p1, g1, report("first"))}
					if j >= 0 {
						cases = append(cases, nCase(pats[j], nil, report("second")))
					}
					cases = append(cases, nCase(&c01N{K: "pwild"}, nil, report("other")))
					body := append(outer(), sDecl("r", nMatch(s, cases...)), sRet(nArr(nVar("r"), report("after"))))
					e(func() c01Case { return c01Case{Layer: "L5", P: "a", Prog: prog1(body...)} })
					n++
					ng++
				}
			}
		}
	}
	// the same with the guard of the SECOND arm reading a name the first arm may have bound
	for _, s := range scrut {
		for _, p1 := range pats {
			if !thorough && p1.K != "parr" && p1.K != "pobj" && p1.K != "pvar" {
				continue
			}
			for _, gname := range universe {
				g2 := nBin("==", nVar(gname), nStr("outer_"+gname))
				body := append(outer(), sDecl("r", nMatch(s,
					nCase(p1, nBool(false), report("first")),
					nCase(&c01N{K: "pwild"}, g2, report("second")),
					nCase(&c01N{K: "pwild"}, nil, report("other")))), sRet(nArr(nVar("r"), report("after"))))
				e(func() c01Case { return c01Case{Layer: "L5", P: "a", Prog: prog1(body...)} })
				n++
				ng++
			}
		}
	}
	b["L5g_match_arm_scope"] = fmt.Sprintf("%d scrutinee shapes × %d patterns (first arm) × %d guards × {no second arm, each of the %d patterns as second arm} × catch-all, every arm and the statement after the match reporting all %d bindable names, which are also variables of the enclosing block; + second-arm guards reading each name: %d programs", len(scrut), len(pats), len(guards1), len(pats), len(universe), ng)
	// (e) pipes
	dbl := fnDef("dbl", []c01Param{{Name: "a", Type: "any"}}, "", sRet(nBin("*", nVar("a"), nInt(2))))
	add := fnDef("add", []c01Param{{Name: "a", Type: "any"}, {Name: "b", Type: "any", Def: nInt(10)}}, "", sRet(nBin("+", nVar("a"), nVar("b"))))
	for _, s := range c01Shapes() {
		fns := []c01Fn{dbl, add}
		e(func() c01Case {
			return c01Case{Layer: "L5", P: "a", Prog: c01Prog{Fns: fns, Routes: [][]*c01N{bl(sRet(nPipe("dbl", s)))}}}
		})
		e(func() c01Case {
			return c01Case{Layer: "L5", P: "a", Prog: c01Prog{Fns: fns, Routes: [][]*c01N{bl(sRet(nPipe("add", s)))}}}
		})
		e(func() c01Case {
			return c01Case{Layer: "L5", P: "a", Prog: c01Prog{Fns: fns, Routes: [][]*c01N{bl(sRet(nPipe("add", s, nInt(3))))}}}
		})
		e(func() c01Case {
			return c01Case{Layer: "L5", P: "a", Prog: c01Prog{Fns: fns, Routes: [][]*c01N{bl(sRet(nPipe("add", s, nInt(3), nInt(4))))}}}
		})
		e(func() c01Case {
			return c01Case{Layer: "L5", P: "a", Prog: c01Prog{Fns: fns, Routes: [][]*c01N{bl(sRet(nPipe("dbl", nPipe("add", s, nInt(3)))))}}}
		})
		e(func() c01Case {
			return c01Case{Layer: "L5", P: "a", Prog: c01Prog{Fns: fns, Routes: [][]*c01N{bl(sRet(nPipe("nosuch", s)))}}}
		})
		e(func() c01Case {
			return c01Case{Layer: "L5", P: "a", Prog: c01Prog{Fns: fns, Routes: [][]*c01N{bl(sDecl("r", nPipe("dbl", nBin("+", s, nInt(1)))), sRet(nObj("r", nVar("r"))))}}}
		})
		n += 7
	}
	// (f) callbacks passed by name
	cbFns := []c01Fn{
		dbl,
		fnDef("big", []c01Param{{Name: "a", Type: "any"}}, "", sRet(nBin(">", nVar("a"), nInt(1)))),
		fnDef("sum", []c01Param{{Name: "a", Type: "any"}, {Name: "b", Type: "any"}}, "", sRet(nBin("+", nVar("a"), nVar("b")))),
		fnDef("viaConst", []c01Param{{Name: "a", Type: "any"}}, "", sRet(nBin("+", nVar("a"), nVar("K")))),
		fnDef("viaFn", []c01Param{{Name: "a", Type: "any"}}, "", sRet(nBin("+", nCall("dbl", nVar("a")), nInt(1)))),
		fnDef("typed", []c01Param{{Name: "a", Type: "int", Req: true}}, "int", sRet(nBin("+", nVar("a"), nInt(1)))),
		fnDef("dflt", []c01Param{{Name: "a", Type: "any"}, {Name: "b", Type: "int", Def: nInt(100)}}, "", sRet(nBin("+", nVar("a"), nVar("b")))),
		fnDef("isA", []c01Param{{Name: "a", Type: "any"}}, "", sRet(nBin("==", nVar("a"), nStr("a")))),
		fnDef("local", []c01Param{{Name: "a", Type: "any"}}, "", sDecl("t", nBin("*", nVar("a"), nInt(3))), sRet(nVar("t"))),
	}
	consts := []c01Const{{Name: "K", Val: nInt(1000)}}
	arrs := []*c01N{nArr(), nArr(nInt(1), nInt(2)), nArr(nInt(3), nInt(1), nInt(2)), nArr(nStr("a")), nArr(nInt(1), nStr("a")), nArr(nStr("b"), nStr("a")), nInt(1), nNull()}
	for _, hb := range []string{"map", "filter", "find", "some", "every", "sort", "reduce"} {
		for _, f := range cbFns {
			for _, a := range arrs {
				var call *c01N
				if hb == "reduce" {
					call = nCall(hb, a, nVar(f.Name), nInt(0))
				} else {
					call = nCall(hb, a, nVar(f.Name))
				}
				e(func() c01Case {
					return c01Case{Layer: "L5", P: "a", Prog: c01Prog{Consts: consts, Fns: cbFns, Routes: [][]*c01N{bl(sRet(call))}}}
				})
				e(func() c01Case {
					return c01Case{Layer: "L5", P: "a", Prog: c01Prog{Consts: consts, Fns: cbFns, Routes: [][]*c01N{bl(sDecl("t", nInt(7)), sDecl("arr", a), sDecl("r", call), sRet(nArr(nVar("r"), nVar("arr"), nVar("t"))))}}}
				})
				n += 2
			}
		}
	}
	b["L5_functions_match_pipes_callbacks"] = fmt.Sprintf("%d parameter lists × %d argument vectors, 6 return types × shapes, 5 recursive definitions × 5 inputs, %d pattern forms × %d scrutinee shapes (single, guarded, ordered pairs), pipes over the shapes, 7 higher-order built-ins × %d named callbacks × %d arrays: %d cases", len(plists), len(argLists), len(pats), len(scrut), len(cbFns), len(arrs), n)
}

// ---- L6: scoping and aliasing -------------------------------------------------------

func c01L6(thorough bool, e func(func() c01Case), b map[string]any) {
	n := 0
	// (a) callee and caller locals.  Function bodies over the name x; route contexts declaring x.
	xv := nVar("x")
	bodies := [][]*c01N{
		bl(sRet(xv)), // reads a name that exists only in the caller
		bl(sDecl("x", nInt(5)), sRet(xv)),
		bl(sDecl("x", nVar("a")), sRet(xv)),
		bl(sIf(nBool(true), bl(sDecl("x", nInt(5)))), sRet(nInt(0))),
		bl(sSet("x", nInt(5)), sRet(nInt(0))),
		bl(sDecl("t", nInt(5)), sRet(nVar("t"))),
		bl(sFor([]string{"x"}, nArr(nInt(8), nInt(9)), bl(sDecl("t", xv))), sRet(nInt(0))),
		bl(sDecl("x", nInt(5)), sDecl("x", nInt(6)), sRet(xv)),
	}
	for _, fb := range bodies {
		f := fnDef("g", []c01Param{{Name: "a", Type: "any"}}, "", fb...)
		fx := fnDef("g", []c01Param{{Name: "x", Type: "any"}}, "", sDecl("t", xv), sRet(nVar("t")))
		for _, fn := range []c01Fn{f, fx} {
			ctxs := [][]*c01N{
				bl(sDecl("x", nInt(1)), sDecl("r", nCall("g", nInt(7))), sRet(nArr(xv, nVar("r")))),
				bl(sDecl("r", nCall("g", nInt(7))), sRet(nArr(nVar("r")))),
				bl(sDecl("x", nInt(1)), sIf(nBool(true), bl(sDecl("r", nCall("g", nInt(7))), sRet(nArr(xv, nVar("r"))))), sRet(nInt(-1))),
				bl(sDecl("x", nInt(1)), sDecl("t", nInt(2)), sDecl("r", nCall("g", nInt(7))), sRet(nArr(xv, nVar("t"), nVar("r")))),
				bl(sFor([]string{"x"}, nArr(nInt(1), nInt(2)), bl(sDecl("r", nCall("g", nInt(7))), sIf(nBin("!=", xv, nInt(1)), bl(sRet(nArr(xv, nVar("r"))))))), sRet(nInt(-1))),
				// the same callee reached through the pipe form of a call
				bl(sDecl("x", nInt(1)), sDecl("r", nPipe("g", nInt(7))), sRet(nArr(xv, nVar("r")))),
				bl(sDecl("x", nInt(1)), sDecl("t", nInt(2)), sRet(nArr(nPipe("g", nInt(7)), xv, nVar("t")))),
			}
			for _, ctx := range ctxs {
				e(func() c01Case {
					return c01Case{Layer: "L6", P: "a", Prog: c01Prog{Fns: []c01Fn{fn}, Routes: [][]*c01N{ctx}}}
				})
				n++
			}
		}
	}
	// (b) module-level names: every write form × position × observation, within one
	// request and across requests (two routes on one interpreter)
	consts := []c01Const{{Name: "K", Val: nInt(10)}}
	fns := []c01Fn{fnDef("f", []c01Param{{Name: "a", Type: "any"}}, "", sRet(nBin("+", nVar("a"), nInt(1))))}
	writes := []*c01N{
		sDecl("K", nInt(2)), sSet("K", nInt(2)), sDecl("K", nBin("+", nVar("K"), nInt(1))),
		sDecl("f", nInt(1)), sSet("f", nInt(1)), sDecl("f", nVar("K")),
		sDecl("q", nInt(1)), // an ordinary local for comparison
	}
	observes := []*c01N{
		sRet(nVar("K")), sRet(nCall("f", nInt(1))), sRet(nArr(nVar("K"), nCall("f", nVar("K")))),
	}
	for _, w := range writes {
		for _, pos := range []int{0, 1, 2} {
			var ws []*c01N
			switch pos {
			case 0:
				ws = bl(w)
			case 1:
				ws = bl(sIf(nBool(true), bl(w)))
			case 2:
				ws = bl(sFor([]string{"i"}, nArr(nInt(1), nInt(2)), bl(w)))
			}
			for _, ob := range observes {
				e(func() c01Case {
					return c01Case{Layer: "L6", P: "a", Prog: c01Prog{Consts: consts, Fns: fns, Routes: [][]*c01N{append(append([]*c01N{}, ws...), ob)}}}
				})
				e(func() c01Case {
					return c01Case{Layer: "L6", P: "a", Prog: c01Prog{Consts: consts, Fns: fns, Routes: [][]*c01N{append(append([]*c01N{}, ws...), sRet(nInt(0))), bl(ob)}}}
				})
				n += 2
			}
		}
	}
	// the write happens inside a function called from the first route
	for _, w := range writes {
		g := fnDef("g", nil, "", w, sRet(nInt(0)))
		for _, ob := range observes {
			e(func() c01Case {
				return c01Case{Layer: "L6", P: "a", Prog: c01Prog{Consts: consts, Fns: append([]c01Fn{g}, fns...), Routes: [][]*c01N{bl(sDecl("r", nCall("g")), sRet(nInt(0))), bl(ob)}}}
			})
			e(func() c01Case {
				return c01Case{Layer: "L6", P: "a", Prog: c01Prog{Consts: consts, Fns: append([]c01Fn{g}, fns...), Routes: [][]*c01N{bl(sDecl("r", nCall("g")), ob)}}}
			})
			n += 2
		}
	}
	// module constants holding an object / an array: every write-through form × observation,
	// within one request (evaluated twice) and across requests
	oconsts := []c01Const{{Name: "O", Val: nObj("k", nInt(1), "m", nInt(2))}, {Name: "A", Val: nArr(nInt(1), nInt(2))}}
	owrites := [][]*c01N{
		bl(sFset("O.k", nInt(5))),
		bl(sDecl("r", nCall("set", nVar("O"), nStr("k"), nInt(5)))),
		bl(sDecl("r", nCall("set", nVar("O"), nStr("n"), nInt(5)))),
		bl(sDecl("r", nCall("remove", nVar("O"), nStr("k")))),
		bl(sIset(true, nIndex(nVar("A"), nInt(0)), nInt(9))),
		bl(sIset(false, nIndex(nVar("A"), nInt(0)), nInt(9))),
		bl(sDecl("r", nCall("append", nVar("A"), nInt(3)))),
		bl(sDecl("r", nBin("+", nVar("A"), nArr(nInt(3))))),
		bl(sDecl("r", nCall("reverse", nVar("A")))),
		bl(sDecl("r", nCall("sort", nVar("A")))),
		bl(sDecl("q", nVar("O"))), // an alias only (control)
		bl(sDecl("q", nVar("O")), sFset("q.k", nInt(5))), // write through a local alias
		bl(sDecl("q", nVar("A")), sIset(true, nIndex(nVar("q"), nInt(0)), nInt(9))),
	}
	oobserves := []*c01N{sRet(nVar("O")), sRet(nVar("A")), sRet(nCall("length", nVar("A")))}
	for _, w := range owrites {
		for _, ob := range oobserves {
			e(func() c01Case {
				return c01Case{Layer: "L6", P: "a", Prog: c01Prog{Consts: oconsts, Routes: [][]*c01N{append(cloneList(w), ob)}}}
			})
			e(func() c01Case {
				return c01Case{Layer: "L6", P: "a", Prog: c01Prog{Consts: oconsts, Routes: [][]*c01N{append(cloneList(w), sRet(nInt(0))), bl(ob)}}}
			})
			n += 2
		}
	}
	// ordinary locals never survive a request
	for _, first := range [][]*c01N{bl(sDecl("q", nInt(1)), sRet(nInt(0))), bl(sDecl("q", nArr(nInt(1))), sRet(nVar("q")))} {
		for _, second := range [][]*c01N{bl(sRet(nVar("q"))), bl(sDecl("q", nInt(2)), sRet(nVar("q"))), bl(sSet("q", nInt(2)), sRet(nVar("q")))} {
			e(func() c01Case { return c01Case{Layer: "L6", P: "a", Prog: c01Prog{Routes: [][]*c01N{first, second}}} })
			n++
		}
	}
	// (c) the path parameter and the implicit request variables
	for _, w := range []*c01N{sDecl("p", nStr("z")), sSet("p", nStr("z")), sDecl("p", nBin("+", nVar("p"), nStr("!")))} {
		e(func() c01Case { return c01Case{Layer: "L6", P: "a", Prog: prog1(w, sRet(nVar("p")))} })
		e(func() c01Case {
			return c01Case{Layer: "L6", P: "a", Prog: prog1(sIf(nBool(true), bl(w)), sRet(nVar("p")))}
		})
		e(func() c01Case {
			return c01Case{Layer: "L6", P: "a", Prog: prog1(sFor([]string{"i"}, nArr(nInt(1), nInt(2)), bl(w)), sRet(nVar("p")))}
		})
		e(func() c01Case {
			return c01Case{Layer: "L6", P: "a", Prog: prog1(sWhile(nBin("!=", nVar("p"), nStr("z")), bl(w, sBreak())), sRet(nVar("p")))}
		})
		n += 4
	}
	for _, nm := range []string{"input", "query", "headers"} {
		for _, w := range []*c01N{sDecl(nm, nInt(1)), sSet(nm, nInt(1))} {
			e(func() c01Case { return c01Case{Layer: "L6", P: "a", Body: nStr("a"), Prog: prog1(w, sRet(nInt(0)))} })
			e(func() c01Case {
				return c01Case{Layer: "L6", P: "a", Body: nStr("a"), Prog: prog1(sIf(nBool(true), bl(w)), sRet(nInt(0)))}
			})
			e(func() c01Case {
				return c01Case{Layer: "L6", P: "a", Body: nStr("a"), Prog: c01Prog{Routes: [][]*c01N{bl(sIf(nBool(true), bl(w)), sRet(nInt(0))), bl(sRet(nArr(inputB())))}}}
			})
			n += 3
		}
	}
	// (d) three levels of blocks: declaration level × update level × read level,
	// for a name nothing else carries (z) and for a name that is also the name
	// of a module-level constant (K) / function (f): the local is an ordinary
	// local whatever else in the program is called the same
	for _, zn := range []string{"z", "K", "f"} {
	for declAt := 0; declAt <= 2; declAt++ {
		for updAt := 0; updAt <= 2; updAt++ {
			for readAt := 0; readAt <= 2; readAt++ {
				for _, upd := range []*c01N{sDecl(zn, nInt(2)), sSet(zn, nInt(2))} {
					for _, wrapper := range []string{"if", "for", "while", "switch"} {
						// level-0 statements, level-1 block, level-2 block; order: decl, upd, read within a level by position
						l2 := []*c01N{}
						l1 := []*c01N{}
						l0 := []*c01N{sDecl("c", nInt(0))}
						put := func(level int, s *c01N) {
							switch level {
							case 0:
								l0 = append(l0, s)
							case 1:
								l1 = append(l1, s)
							default:
								l2 = append(l2, s)
							}
						}
						// sequence: decl first, then update, then read; deeper levels are entered in between as needed
						// program text order = all level-0 before?  Build explicitly as nested blocks executed in order:
						//   [decl if 0] { [decl if 1] { [decl if 2] [upd if 2] [read if 2] } [upd if 1] [read if 1] } [upd if 0] [read if 0]
						read := sSet("c", nVar(zn))
						if declAt == 2 {
							l2 = append(l2, sDecl(zn, nInt(1)))
						}
						if updAt == 2 {
							l2 = append(l2, upd)
						}
						if readAt == 2 {
							l2 = append(l2, read)
						}
						if declAt == 1 {
							l1 = append(l1, sDecl(zn, nInt(1)))
						}
						wrapBlock := func(body []*c01N) *c01N {
							if len(body) == 0 {
								body = bl(sSet("c", nVar("c")))
							}
							switch wrapper {
							case "for":
								return sFor([]string{"i"}, nArr(nInt(1)), body)
							case "while":
								return sWhile(nBin("==", nVar("c"), nVar("c")), append(append([]*c01N{}, body...), sBreak()))
							case "switch":
								return sSwitch(nInt(1), []*c01N{nInt(1)}, [][]*c01N{body}, nil)
							}
							return sIf(nBool(true), body)
						}
						l1 = append(l1, wrapBlock(l2))
						if updAt == 1 {
							l1 = append(l1, upd)
						}
						if readAt == 1 {
							l1 = append(l1, read)
						}
						if declAt == 0 {
							put(0, sDecl(zn, nInt(1)))
						}
						l0 = append(l0, wrapBlock(l1))
						if updAt == 0 {
							put(0, upd)
						}
						if readAt == 0 {
							put(0, read)
						}
						l0 = append(l0, sRet(nArr(nVar("c"))))
						pr := prog1(l0...)
						if zn != "z" {
							pr.Consts, pr.Fns = consts, fns
						}
						e(func() c01Case { return c01Case{Layer: "L6", P: "a", Prog: pr} })
						n++
					}
				}
			}
		}
	}
	}
	// (f) every way a request can come to hold a local called like a module-level
	// name × every nested block from which `$` / a bare assignment then reaches it.
	// name: z (control), K (module constant), f (module function); binder: `$` in
	// the route, function parameter, for-loop value variable, for-loop index
	// variable; the update `name = name + 5` sits 1 or 2 blocks below the binder
	// (if / for over 2 elements / while with 2 rounds / switch, every combination
	// for 2 levels); the binder's scope reads the name afterwards.
	{
		kinds := []string{"if", "for", "while", "switch"}
		wrapK := func(kind string, level int, body []*c01N) []*c01N {
			switch kind {
			case "for":
				return bl(sFor([]string{fmt.Sprintf("i%d", level)}, nArr(nInt(1), nInt(2)), body))
			case "while":
				t := fmt.Sprintf("t%d", level)
				return bl(sDecl(t, nInt(0)), sWhile(nBin("<", nVar(t), nInt(2)), append(bl(sSet(t, nBin("+", nVar(t), nInt(1)))), body...)))
			case "switch":
				return bl(sSwitch(nInt(1), []*c01N{nInt(1)}, [][]*c01N{body}, nil))
			}
			return bl(sIf(nBool(true), body))
		}
		var nests [][]string
		for _, k1 := range kinds {
			nests = append(nests, []string{k1})
			for _, k2 := range kinds {
				nests = append(nests, []string{k1, k2})
			}
		}
		for _, nm := range []string{"z", "K", "f"} {
			for _, binder := range []string{"decl", "param", "forval", "foridx"} {
				for _, nest := range nests {
					for _, dollar := range []bool{true, false} {
						upd := sSet(nm, nBin("+", nVar(nm), nInt(5)))
						if dollar {
							upd = sDecl(nm, nBin("+", nVar(nm), nInt(5)))
						}
						code := bl(upd)
						for lv := len(nest) - 1; lv >= 0; lv-- {
							code = wrapK(nest[lv], lv, code)
						}
						pr := c01Prog{Consts: consts, Fns: append([]c01Fn{}, fns...)}
						switch binder {
						case "decl":
							pr.Routes = [][]*c01N{append(append(bl(sDecl(nm, nInt(1))), code...), sRet(nArr(nVar(nm))))}
						case "param":
							pr.Fns = append(pr.Fns, fnDef("h", []c01Param{{Name: nm, Type: "any"}}, "", append(cloneList(code), sRet(nVar(nm)))...))
							pr.Routes = [][]*c01N{bl(sRet(nArr(nCall("h", nInt(1)))))}
						case "forval":
							pr.Routes = [][]*c01N{bl(sDecl("out", nArr()),
								sFor([]string{nm}, nArr(nInt(1), nInt(2)), append(cloneList(code), sSet("out", nBin("+", nVar("out"), nArr(nVar(nm)))))),
								sRet(nVar("out")))}
						case "foridx":
							pr.Routes = [][]*c01N{bl(sDecl("out", nArr()),
								sFor([]string{nm, "q"}, nArr(nInt(7), nInt(8)), append(cloneList(code), sSet("out", nBin("+", nVar("out"), nArr(nVar(nm), nVar("q")))))),
								sRet(nVar("out")))}
						}
						e(func() c01Case { return c01Case{Layer: "L6", P: "a", Prog: pr} })
						n++
					}
				}
			}
		}
	}
	// (e) aliasing: sequences of appends / field updates over three names
	names := []string{"a", "b", "c"}
	var alphabet []func(i int) *c01N
	for _, x := range names {
		for _, y := range names {
			x, y := x, y
			alphabet = append(alphabet, func(i int) *c01N { return sSet(x, nCall("append", nVar(y), nInt(int64(10+i)))) })
		}
	}
	alphabet = append(alphabet, func(i int) *c01N { return sSet("b", nVar("a")) })
	alphabet = append(alphabet, func(i int) *c01N { return sSet("c", nBin("+", nVar("a"), nArr(nInt(int64(20+i))))) })
	maxLen := 3
	if thorough {
		maxLen = 4
	}
	var seqs [][]int
	var recSeq func(cur []int)
	recSeq = func(cur []int) {
		if len(cur) > 0 {
			seqs = append(seqs, append([]int(nil), cur...))
		}
		if len(cur) == maxLen {
			return
		}
		for i := range alphabet {
			recSeq(append(cur, i))
		}
	}
	recSeq(nil)
	for _, sq := range seqs {
		body := bl(sDecl("a", nArr(nInt(1), nInt(2))), sDecl("b", nArr()), sDecl("c", nArr()))
		for i, k := range sq {
			body = append(body, alphabet[k](i))
		}
		body = append(body, sRet(nObj("a", nVar("a"), "b", nVar("b"), "c", nVar("c"))))
		e(func() c01Case { return c01Case{Layer: "L6", P: "a", Prog: prog1(body...)} })
		n++
	}
	// objects: field update, set/remove, aliasing through a second name and through a call
	oops := []func(i int) *c01N{
		func(i int) *c01N { return sFset("o.k", nInt(int64(10+i))) },
		func(i int) *c01N { return sFset("q.k", nInt(int64(10+i))) },
		func(i int) *c01N { return sSet("q", nVar("o")) },
		func(i int) *c01N { return sSet("q", nCall("set", nVar("o"), nStr("k"), nInt(int64(30+i)))) },
		func(i int) *c01N { return sSet("q", nCall("remove", nVar("o"), nStr("m"))) },
		func(i int) *c01N { return sSet("o", nCall("set", nVar("o"), nStr("n"), nInt(int64(40+i)))) },
		func(i int) *c01N { return sFset("o.inner.k", nInt(int64(50+i))) },
		func(i int) *c01N {
			return sSet("q", nObj("k", nField(nVar("o"), "k"), "m", nInt(0), "inner", nField(nVar("o"), "inner")))
		},
	}
	var oseqs [][]int
	var recO func(cur []int)
	recO = func(cur []int) {
		if len(cur) > 0 {
			oseqs = append(oseqs, append([]int(nil), cur...))
		}
		if len(cur) == maxLen {
			return
		}
		for i := range oops {
			recO(append(cur, i))
		}
	}
	recO(nil)
	for _, sq := range oseqs {
		body := bl(sDecl("o", nObj("k", nInt(1), "m", nInt(2), "inner", nObj("k", nInt(3)))), sDecl("q", nObj("k", nInt(0), "m", nInt(0), "inner", nObj("k", nInt(0)))))
		for i, k := range sq {
			body = append(body, oops[k](i))
		}
		body = append(body, sRet(nObj("o", nVar("o"), "q", nVar("q"))))
		e(func() c01Case { return c01Case{Layer: "L6", P: "a", Prog: prog1(body...)} })
		n++
	}
	// index assignment forms (not documented: crash-freedom and determinism only)
	for _, tgt := range []*c01N{nIndex(nVar("a"), nInt(0)), nIndex(nVar("a"), nInt(5)), nIndex(nVar("a"), nInt(-1)), nIndex(nVar("a"), nStr("k")), nIndex(nVar("o"), nStr("k")), nIndex(nVar("o"), nInt(0)), nIndex(nVar("s"), nInt(0)), nIndex(nVar("nope"), nInt(0)), nIndex(nIndex(nVar("m"), nInt(0)), nInt(0)), nIndex(nField(nVar("o"), "k"), nInt(0))} {
		for _, dollar := range []bool{true, false} {
			if !dollar && tgt.C[0].K == "field" {
				continue // `o.k[0] = v` without the sigil is not in the grammar
			}
			e(func() c01Case {
				return c01Case{Layer: "L6", P: "a", Prog: prog1(sDecl("a", nArr(nInt(1), nInt(2))), sDecl("o", nObj("k", nArr(nInt(1)))), sDecl("s", nStr("str")), sDecl("m", nArr(nArr(nInt(1)))),
					sIset(dollar, tgt, nInt(9)), sRet(nArr(nVar("a"), nVar("o"), nVar("s"), nVar("m"))))}
			})
			n++
		}
	}
	b["L6_scoping_aliasing"] = fmt.Sprintf("callee/caller locals (8 bodies × 2 signatures × 7 call contexts, call and pipe form), writes to module-level names (7 forms × 3 positions × 3 observations, same request and next request, also through a callee), write-through forms on constants holding an object / array (13 forms incl. through a local alias × 3 observations, same and next request), path parameter and implicit variables, 3-level declaration/update/read placement × 2 update forms × 4 block kinds × 3 names (z; K and f, which are also module-level names), a local called like a module-level name (3 names × 4 binders: `$`, parameter, for value / index variable) updated by `$` / bare assignment from 20 nestings of 1–2 blocks, all sequences of ≤ %d operations over an 11-operation array-aliasing alphabet and an 8-operation object alphabet, index-assignment forms: %d cases", maxLen, n)
}

// ---- L7: determinism of object iteration ---------------------------------------------

// Every construct of the language that walks the keys of an object (keys(o),
// o.keys(), o |> keys, for k, v in o, for v in o, nested and through keys())
// × objects of 2, 3 (thorough: 4 and 9) keys × the object coming from a
// literal or from the request body.  Which order is used is not documented and
// not judged; that the outcome is the same on every execution is (c01Judge,
// orderLayer).  Two order-independent programs are controls.
func c01L7(thorough bool, e func(func() c01Case), b map[string]any) {
	n := 0
	sizes := []int{2, 3}
	if thorough {
		sizes = []int{2, 3, 4, 9}
	}
	names := []string{"a", "b", "c", "d", "e", "f", "g", "h", "i"}
	ov := nVar("o")
	acc := func(name string, el *c01N) *c01N { return sSet(name, nBin("+", nVar(name), nArr(el))) }
	forms := [][]*c01N{
		bl(sRet(nCall("keys", ov))),
		bl(sRet(nCall("o.keys"))),
		bl(sRet(nPipe("keys", ov))),
		bl(sDecl("ks", nArr()), sFor([]string{"k", "v"}, ov, bl(acc("ks", nVar("k")))), sRet(nVar("ks"))),
		bl(sFor([]string{"k", "v"}, ov, bl(sRet(nVar("k")))), sRet(nStr("none"))),
		bl(sDecl("vs", nArr()), sFor([]string{"v"}, ov, bl(acc("vs", nVar("v")))), sRet(nVar("vs"))),
		bl(sDecl("ks", nArr()), sFor([]string{"k"}, nCall("keys", ov), bl(acc("ks", nVar("k")))), sRet(nVar("ks"))),
		bl(sDecl("ks", nArr()), sFor([]string{"k", "v"}, ov, bl(sFor([]string{"m", "w"}, ov, bl(acc("ks", nBin("+", nVar("k"), nVar("m"))))))), sRet(nVar("ks"))),
		bl(sDecl("ks", nArr()), sFor([]string{"k", "v"}, ov, bl(sIf(nBin("!=", nVar("k"), nStr("a")), bl(sContinue())), acc("ks", nVar("k")), sBreak())), sRet(nVar("ks"))),
		// controls: independent of the order
		bl(sRet(nCall("length", nCall("keys", ov)))),
		bl(sDecl("t", nStr("")), sFor([]string{"k", "v"}, ov, bl(sIf(nBin("==", nVar("k"), nStr("a")), bl(sSet("t", nVar("k")))))), sRet(nVar("t"))),
	}
	for _, size := range sizes {
		lit := &c01N{K: "obj"}
		bod := &c01N{K: "obj"}
		for i := 0; i < size; i++ {
			lit.Ss = append(lit.Ss, names[i])
			lit.C = append(lit.C, nInt(int64(i+1)))
			bod.Ss = append(bod.Ss, names[i])
			bod.C = append(bod.C, nStr(names[i]+"x"))
		}
		for _, f := range forms {
			e(func() c01Case {
				return c01Case{Layer: "L7", P: "a", Prog: prog1(append(bl(sDecl("o", lit)), f...)...)}
			})
			e(func() c01Case {
				return c01Case{Layer: "L7", P: "a", Body: bod, Prog: prog1(append(bl(sDecl("o", inputB())), f...)...)}
			})
			n += 2
		}
	}
	b["L7_object_iteration_determinism"] = fmt.Sprintf("%d key-walking forms (keys(o), o.keys(), o |> keys, for k,v / for v over the object, for over keys(o), nested, continue/break, 2 order-independent controls) × objects of %v keys × {literal, request body}, each executed %d times on fresh interpreters + once more on a reused one: %d programs", len(forms), sizes, c01OrderRuns, n)
}

// ---- L8: histories with refused evaluations on a reused interpreter --------------------

// The interpreter refuses an evaluation that nests deeper than a fixed number
// of levels (500) and a while loop that runs longer than a fixed number of
// rounds (10^6).  Both are outcomes like any other: what a request yields is a
// function of the program and that request's inputs, so a request must be
// answered the same on a fresh interpreter and on one that has refused (or
// answered, or failed) other requests before.  Module: three recursive
// functions (recursion inside an expression, recursion from a statement,
// recursion that ends in a division by zero at the bottom) and a counting loop,
// one route each, the depth / the number of rounds taken from the path parameter.
//
// Histories: every sequence of ≤ 2 (thorough: ≤ 3) requests over the alphabet
// {too deep in each of the three functions, a runtime error raised 100 frames
// down, a small request}, and the sequences with a loop that is refused.
// Judged request: every recursion depth in a window of ±5 (±12) around the
// deepest recursion that fits ON A FRESH INTERPRETER OF THE TREE UNDER TEST
// (found by evaluating every depth 0, 1, 2, … on fresh interpreters up to the
// first refusal, ≤ 520 > the limit of 500), for both recursion forms, whose
// frames differ in size so that one of them ends exactly at the limit; the
// small depths; the loop at 3 rounds and at every count in 999 998 … 1 000 001.
func c01L8Module() ([]c01Fn, [][]*c01N) {
	nv := nVar("n")
	ip := []c01Param{{Name: "n", Type: "int", Req: true}}
	fns := []c01Fn{
		fnDef("down", ip, "int", sIf(nBin("<=", nv, nInt(0)), bl(sRet(nInt(0)))), sRet(nBin("+", nInt(1), nCall("down", nBin("-", nv, nInt(1)))))),
		fnDef("step", ip, "int", sIf(nBin("<=", nv, nInt(0)), bl(sRet(nInt(0)))), sDecl("r", nCall("step", nBin("-", nv, nInt(1)))), sRet(nBin("+", nVar("r"), nInt(1)))),
		fnDef("boom", ip, "int", sIf(nBin("<=", nv, nInt(0)), bl(sRet(nBin("/", nInt(1), nInt(0))))), sRet(nBin("+", nInt(1), nCall("boom", nBin("-", nv, nInt(1)))))),
	}
	pi := nCall("parseInt", nVar("p"))
	routes := [][]*c01N{
		bl(sRet(nCall("down", pi))),
		bl(sRet(nArr(nCall("step", pi)))),
		bl(sRet(nCall("boom", pi))),
		bl(sDecl("n", pi), sDecl("i", nInt(0)), sWhile(nBin("<", nVar("i"), nVar("n")), bl(sSet("i", nBin("+", nVar("i"), nInt(1))))), sRet(nVar("i"))),
	}
	// the other ways a loop is left: break, return from inside the body, a runtime error in the body
	inc := sSet("i", nBin("+", nVar("i"), nInt(1)))
	reached := nBin(">=", nVar("i"), nVar("n"))
	for _, exit := range []*c01N{sBreak(), sRet(nVar("i")), sDecl("z", nBin("/", nInt(1), nInt(0)))} {
		routes = append(routes, bl(sDecl("n", pi), sDecl("i", nInt(0)), sWhile(nBool(true), bl(inc, sIf(reached, bl(exit)))), sRet(nVar("i"))))
	}
	return fns, routes
}

const (
	l8Down = iota
	l8Step
	l8Boom
	l8Loop
	l8LoopBreak
	l8LoopReturn
	l8LoopError
)

type l8Req struct {
	kind int
	p    string
}

// l8Case: the module reduced to the routes the scenario uses, the judged route last.
func l8Case(hist []l8Req, judged l8Req) c01Case {
	fns, routes := c01L8Module()
	var used []int
	idxOf := map[int]int{}
	for _, h := range hist {
		if h.kind == judged.kind {
			continue
		}
		if _, ok := idxOf[h.kind]; !ok {
			idxOf[h.kind] = len(used)
			used = append(used, h.kind)
		}
	}
	idxOf[judged.kind] = len(used)
	used = append(used, judged.kind)
	c := c01Case{Layer: "L8", P: judged.p, Prog: c01Prog{Fns: fns}}
	for _, k := range used {
		c.Prog.Routes = append(c.Prog.Routes, routes[k])
	}
	for _, h := range hist {
		c.Hist = append(c.Hist, c01Req{Route: idxOf[h.kind], P: h.p})
	}
	return c
}

func c01L8(thorough bool, e func(func() c01Case), b map[string]any) {
	n := 0
	maxLen, win := 2, 5
	if thorough {
		maxLen, win = 3, 12
	}
	const scanMax = 520
	// deepest recursion that is answered on a fresh interpreter, per form
	fit := map[int]int{}
	for _, k := range []int{l8Down, l8Step} {
		fit[k] = c01L8Fit(k, scanMax)
	}
	itoa := func(i int) string { return fmt.Sprint(i) }
	alphabet := []l8Req{{l8Down, "1000"}, {l8Step, "1000"}, {l8Boom, "100"}, {l8Boom, "1000"}, {l8Down, "5"}}
	var hists [][]l8Req
	var rec func(cur []l8Req)
	rec = func(cur []l8Req) {
		if len(cur) > 0 {
			hists = append(hists, append([]l8Req(nil), cur...))
		}
		if len(cur) == maxLen {
			return
		}
		for _, a := range alphabet {
			rec(append(cur, a))
		}
	}
	rec(nil)
	var judged []l8Req
	for _, k := range []int{l8Down, l8Step} {
		seen := map[int]bool{}
		add := func(d int) {
			if d >= 0 && !seen[d] {
				seen[d] = true
				judged = append(judged, l8Req{k, itoa(d)})
			}
		}
		for _, d := range []int{0, 1, 5, 30, 100} {
			add(d)
		}
		for d := fit[k] - win; d <= fit[k]+win; d++ {
			add(d)
		}
	}
	judged = append(judged, l8Req{l8Boom, "0"}, l8Req{l8Boom, "5"}, l8Req{l8Loop, "3"})
	for _, h := range hists {
		for _, j := range judged {
			e(func() c01Case { return l8Case(h, j) })
			n++
		}
	}
	cheap := n
	// histories with a refused loop, and requests at the loop limit
	loopOver := l8Req{l8Loop, "1000001"}
	loopHists := [][]l8Req{{loopOver}, {loopOver, {l8Down, "1000"}}, {{l8Down, "1000"}, loopOver}}
	if thorough {
		loopHists = append(loopHists, []l8Req{loopOver, loopOver}, []l8Req{loopOver, {l8Boom, "100"}}, []l8Req{{l8Step, "1000"}, loopOver}, []l8Req{loopOver, {l8Loop, "999999"}})
	}
	loopJudged := []l8Req{{l8Loop, "3"}, {l8Loop, "999999"}, {l8Loop, "1000000"}, {l8Down, itoa(fit[l8Down])}, {l8Step, itoa(fit[l8Step])}}
	if thorough {
		loopJudged = append(loopJudged, l8Req{l8Loop, "999998"}, l8Req{l8Loop, "1000001"}, l8Req{l8Down, itoa(fit[l8Down] + 1)}, l8Req{l8Step, itoa(fit[l8Step] + 1)}, l8Req{l8Down, "5"})
	}
	for _, h := range loopHists {
		for _, j := range loopJudged {
			e(func() c01Case { return l8Case(h, j) })
			n++
		}
	}
	// the loop limit after each single request of the alphabet
	for ai, a := range alphabet {
		if !thorough && ai != 0 && ai != 2 {
			continue // quick: after a too-deep request and after a runtime error 100 frames down
		}
		for ji, j := range []l8Req{{l8Loop, "999999"}, {l8Loop, "1000000"}} {
			if !thorough && ji > 0 {
				continue
			}
			e(func() c01Case { return l8Case([]l8Req{a}, j) })
			n++
		}
	}
	// the loop limit after a loop that was left in each of the four ways
	exits := 0
	for _, k := range []int{l8Loop, l8LoopBreak, l8LoopReturn, l8LoopError} {
		for ji, j := range []l8Req{{l8Loop, "999999"}, {l8Loop, "1000000"}, {l8Loop, "3"}} {
			if !thorough && ji > 0 {
				continue
			}
			e(func() c01Case { return l8Case([]l8Req{{k, "3"}}, j) })
			n++
			exits++
		}
	}
	b["L8_loop_exit_forms"] = fmt.Sprintf("the counting loop at 999999 rounds (thorough: and at 10^6, 3) after a 3-round loop left by its condition / break / return from the body / a runtime error in the body: %d cases", exits)
	n -= exits
	b["L8_histories_with_refused_evaluations"] = fmt.Sprintf("module of 3 recursive functions (recursion in an expression / from a statement / ending in a runtime error) + a counting while loop; %d histories = every sequence of ≤ %d requests over {too deep ×3 forms, runtime error 100 frames down, small} × %d judged requests (depths 0,1,5,30,100 and every depth within ±%d of the deepest that fits on a fresh interpreter — measured on the tree under test by scanning depths 0..%d: %d and %d — for 2 recursion forms, 2 failing requests, a 3-round loop): %d cases; + %d histories with a refused loop (10^6+1 rounds) × %d judged requests (loop of 3 rounds and at the limit: 999999, 10^6 rounds (thorough: 999998..1000001), both recursion forms at (thorough: and just past) the deepest that fits) and the loop at 999999 (thorough: and 10^6) rounds after a too-deep request and after a runtime error 100 frames down (thorough: after each single request of the alphabet): %d cases",
		len(hists), maxLen, len(judged), win, scanMax, fit[l8Down], fit[l8Step], cheap, len(loopHists), len(loopJudged), n-cheap)
}
