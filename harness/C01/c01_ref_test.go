package main

// C01 reference semantics ("refsem"): a small definitional big-step
// interpreter over the generator AST, written from
// docs/LANGUAGE_SPECIFICATION.md, docs/GLYPH_NOTATION_SPEC.md §5.5/§9/§10,
// docs/API_REFERENCE.md and the scoping rule of the property.  It shares no
// code with pkg/interpreter or pkg/ast.
//
// Result of one evaluation: Value (status, value) | Error | Unspecified.
// Undocumented choices that a conforming implementation may make either way
// are enumerated instead of fixed: iteration order of objects, whether
// arrays/objects are shared or copied on binding, whether append/set/remove
// update their argument in place.  The reference returns the SET of outcomes
// over all choices; a case is judged iff no evaluation hit Unspecified.

import (
	"fmt"
	"math"
	"sort"
	"strconv"
	"strings"
	"unicode"
)

// ---- values ----------------------------------------------------------------

type rArr struct{ E []interface{} }
type rObj struct {
	K []string
	M map[string]interface{}
}
type rFn struct{ Name string }

func rNewObj() *rObj { return &rObj{M: map[string]interface{}{}} }
func (o *rObj) set(k string, v interface{}) {
	if _, ok := o.M[k]; !ok {
		o.K = append(o.K, k)
	}
	o.M[k] = v
}
func (o *rObj) del(k string) {
	if _, ok := o.M[k]; !ok {
		return
	}
	delete(o.M, k)
	for i, x := range o.K {
		if x == k {
			o.K = append(o.K[:i:i], o.K[i+1:]...)
			break
		}
	}
}

func rCopy(v interface{}) interface{} {
	switch t := v.(type) {
	case *rArr:
		n := &rArr{E: make([]interface{}, len(t.E))}
		for i, e := range t.E {
			n.E[i] = rCopy(e)
		}
		return n
	case *rObj:
		n := rNewObj()
		for _, k := range t.K {
			n.set(k, rCopy(t.M[k]))
		}
		return n
	}
	return v
}

// canonical typed text of a reference value
func rCanon(v interface{}) string {
	switch t := v.(type) {
	case nil:
		return "null"
	case bool:
		return strconv.FormatBool(t)
	case int64:
		return "i" + strconv.FormatInt(t, 10)
	case float64:
		return "f" + strconv.FormatFloat(t, 'g', -1, 64)
	case string:
		return strconv.Quote(t)
	case *rArr:
		var p []string
		for _, e := range t.E {
			p = append(p, rCanon(e))
		}
		return "[" + strings.Join(p, ",") + "]"
	case *rObj:
		ks := append([]string(nil), t.K...)
		sort.Strings(ks)
		var p []string
		for _, k := range ks {
			p = append(p, strconv.Quote(k)+":"+rCanon(t.M[k]))
		}
		return "{" + strings.Join(p, ",") + "}"
	case *rFn:
		return "fn:" + t.Name
	}
	return fmt.Sprintf("?%T", v)
}

// ---- control signals -------------------------------------------------------

type rUnspec struct{ why string }
type rError struct{ why string }
type rReturn struct {
	v      interface{}
	status int
}
type rBreak struct{}
type rContinue struct{}

func unspec(f string, a ...interface{}) { panic(rUnspec{fmt.Sprintf(f, a...)}) }
func rerr(f string, a ...interface{})   { panic(rError{fmt.Sprintf(f, a...)}) }

// ---- scopes ----------------------------------------------------------------

type rSlot struct {
	v    interface{}
	kind int // 0 user, 1 path parameter, 2 implicit (input/query/headers), 3 loop variable, 4 global, 5 parameter / pattern binding
}
type rScope struct {
	vars   map[string]*rSlot
	parent *rScope
}

func newScope(p *rScope) *rScope { return &rScope{vars: map[string]*rSlot{}, parent: p} }
func (s *rScope) lookup(name string) (*rSlot, *rScope) {
	for c := s; c != nil; c = c.parent {
		if sl, ok := c.vars[name]; ok {
			return sl, c
		}
	}
	return nil, nil
}

// ---- evaluator -------------------------------------------------------------

type rOpts struct {
	share   bool // arrays/objects are shared references (false: copied on every read of a variable)
	inplace bool // append/set/remove update their first argument in place (only meaningful with share)
}

type rEval struct {
	prog     *c01Prog
	opts     rOpts
	global   *rScope
	steps    int
	choices  []int // pre-decided choice sequence
	arity    []int // arity observed at each choice point of this run
	pos      int
	mutated  bool // some array/object was updated in place (aliasing model matters)
	fnDepth  int
	modModel int // reading of `$` on a module-level name (see stmt, "decl")
	modSet   bool
}

const rMaxSteps = 60000

func (ev *rEval) tick() {
	ev.steps++
	if ev.steps > rMaxSteps {
		unspec("step budget exceeded (non-termination is not judged)")
	}
}

func (ev *rEval) choose(n int) int {
	if n <= 1 {
		return 0
	}
	c := 0
	if ev.pos < len(ev.choices) {
		c = ev.choices[ev.pos]
	} else {
		ev.choices = append(ev.choices, 0)
	}
	ev.arity = append(ev.arity, n)
	ev.pos++
	return c
}

// permutation number c of keys (n ≤ 3: all n!; beyond: insertion order and its reverse)
func (ev *rEval) order(keys []string) []string {
	n := len(keys)
	if n <= 1 {
		return keys
	}
	if n > 3 {
		if ev.choose(2) == 0 {
			return keys
		}
		r := make([]string, n)
		for i, k := range keys {
			r[n-1-i] = k
		}
		return r
	}
	fact := 1
	for i := 2; i <= n; i++ {
		fact *= i
	}
	c := ev.choose(fact)
	pool := append([]string(nil), keys...)
	var out []string
	for i := n; i >= 1; i-- {
		f := 1
		for j := 2; j < i; j++ {
			f *= j
		}
		idx := c / f
		c = c % f
		out = append(out, pool[idx])
		pool = append(pool[:idx:idx], pool[idx+1:]...)
	}
	return out
}

var rDocBuiltins = map[string]bool{
	"length": true, "upper": true, "lower": true, "trim": true, "contains": true, "startsWith": true,
	"endsWith": true, "indexOf": true, "replace": true, "substring": true, "charAt": true, "split": true,
	"join": true, "abs": true, "min": true, "max": true, "parseInt": true, "parseFloat": true, "toString": true,
	"now": true,
	// conventional reading (not in the documents; see assumptions)
	"append": true, "keys": true, "reverse": true, "slice": true, "flat": true, "sort": true, "map": true,
	"filter": true, "reduce": true, "find": true, "some": true, "every": true, "set": true, "remove": true,
}

// c01KnownBuiltins is filled from pkg/interpreter/builtins.go at run time
// (every name of the dispatch table); a call to one of these that the
// reference does not model is Unspecified, not "undefined function".
var c01KnownBuiltins = map[string]bool{}

func isNum(v interface{}) bool {
	switch v.(type) {
	case int64, float64:
		return true
	}
	return false
}

func toF(v interface{}) float64 {
	switch t := v.(type) {
	case int64:
		return float64(t)
	case float64:
		return t
	}
	panic("toF")
}

func typeName(v interface{}) string {
	switch v.(type) {
	case nil:
		return "null"
	case bool:
		return "bool"
	case int64:
		return "int"
	case float64:
		return "float"
	case string:
		return "str"
	case *rArr:
		return "array"
	case *rObj:
		return "object"
	case *rFn:
		return "function"
	}
	return "?"
}

const big53 = int64(1) << 53

func mixedSafe(a, b interface{}) {
	for _, v := range []interface{}{a, b} {
		if i, ok := v.(int64); ok && (i > big53 || i < -big53) {
			unspec("int beyond 2^53 combined with a float")
		}
	}
}

func finite(f float64) float64 {
	if math.IsNaN(f) || math.IsInf(f, 0) {
		unspec("float overflow / NaN")
	}
	return f
}

func (ev *rEval) arith(op string, a, b interface{}) interface{} {
	if op == "+" {
		if sa, ok := a.(string); ok {
			if sb, ok := b.(string); ok {
				return sa + sb
			}
			unspec("string + %s", typeName(b))
		}
		if aa, ok := a.(*rArr); ok {
			if ab, ok := b.(*rArr); ok {
				n := &rArr{}
				n.E = append(n.E, aa.E...)
				n.E = append(n.E, ab.E...)
				return n
			}
			unspec("array + %s", typeName(b))
		}
	}
	if !isNum(a) || !isNum(b) {
		unspec("%s %s %s", typeName(a), op, typeName(b))
	}
	ia, aInt := a.(int64)
	ib, bInt := b.(int64)
	if aInt && bInt {
		switch op {
		case "+":
			r := ia + ib
			if (r > ia) != (ib > 0) {
				unspec("integer overflow")
			}
			return r
		case "-":
			r := ia - ib
			if (r < ia) != (ib > 0) {
				unspec("integer overflow")
			}
			return r
		case "*":
			if ia == 0 || ib == 0 {
				return int64(0)
			}
			r := ia * ib
			if r/ib != ia || (ia == -1 && ib == math.MinInt64) || (ib == -1 && ia == math.MinInt64) {
				unspec("integer overflow")
			}
			return r
		case "/":
			if ib == 0 {
				rerr("division by zero")
			}
			if ia%ib != 0 && (ia < 0 || ib < 0) {
				unspec("rounding direction of integer division with a negative operand")
			}
			return ia / ib
		case "%":
			if ib == 0 {
				rerr("modulo by zero")
			}
			if ia < 0 || ib < 0 {
				unspec("sign of modulo with a negative operand")
			}
			return ia % ib
		}
	}
	mixedSafe(a, b)
	fa, fb := toF(a), toF(b)
	switch op {
	case "+":
		return finite(fa + fb)
	case "-":
		return finite(fa - fb)
	case "*":
		return finite(fa * fb)
	case "/":
		if fb == 0 {
			rerr("division by zero")
		}
		return finite(fa / fb)
	case "%":
		if fb == 0 {
			rerr("modulo by zero")
		}
		unspec("float modulo")
	}
	panic("arith " + op)
}

func (ev *rEval) equal(a, b interface{}) bool {
	if a == nil || b == nil {
		return a == nil && b == nil
	}
	if isNum(a) && isNum(b) {
		ia, aInt := a.(int64)
		ib, bInt := b.(int64)
		if aInt && bInt {
			return ia == ib
		}
		mixedSafe(a, b)
		return toF(a) == toF(b)
	}
	switch ta := a.(type) {
	case string:
		if tb, ok := b.(string); ok {
			return ta == tb
		}
	case bool:
		if tb, ok := b.(bool); ok {
			return ta == tb
		}
	}
	unspec("equality of %s and %s", typeName(a), typeName(b))
	return false
}

func (ev *rEval) compare(op string, a, b interface{}) bool {
	if !isNum(a) || !isNum(b) {
		unspec("ordering of %s and %s", typeName(a), typeName(b))
	}
	ia, aInt := a.(int64)
	ib, bInt := b.(int64)
	if aInt && bInt {
		switch op {
		case "<":
			return ia < ib
		case "<=":
			return ia <= ib
		case ">":
			return ia > ib
		case ">=":
			return ia >= ib
		}
	}
	mixedSafe(a, b)
	fa, fb := toF(a), toF(b)
	switch op {
	case "<":
		return fa < fb
	case "<=":
		return fa <= fb
	case ">":
		return fa > fb
	case ">=":
		return fa >= fb
	}
	panic("compare " + op)
}

// outcome of evaluating a sub-expression in isolation (used for && / ||)
func (ev *rEval) try(n *c01N, sc *rScope) (v interface{}, kind int) { // 0 value, 1 error, 2 unspecified
	defer func() {
		if r := recover(); r != nil {
			switch r.(type) {
			case rError:
				kind = 1
			case rUnspec:
				kind = 2
			default:
				panic(r)
			}
		}
	}()
	return ev.expr(n, sc), 0
}

func (ev *rEval) binop(op string, l, r *c01N, sc *rScope) interface{} {
	if op == "&&" || op == "||" {
		lv := ev.expr(l, sc)
		lb, ok := lv.(bool)
		if !ok {
			unspec("%s on %s", op, typeName(lv))
		}
		decided := (op == "&&" && !lb) || (op == "||" && lb)
		rv, kind := ev.try(r, sc)
		if decided {
			// short-circuiting is not documented: only judged when the right
			// operand evaluates cleanly to a boolean
			if kind != 0 {
				unspec("right operand of a decided %s does not evaluate to a value", op)
			}
			if _, ok := rv.(bool); !ok {
				unspec("right operand of a decided %s is not boolean", op)
			}
			return lb
		}
		if kind == 1 {
			rerr("right operand")
		}
		if kind == 2 {
			unspec("right operand of %s", op)
		}
		rb, ok := rv.(bool)
		if !ok {
			unspec("%s on %s", op, typeName(rv))
		}
		return rb
	}
	a := ev.expr(l, sc)
	b := ev.expr(r, sc)
	switch op {
	case "+", "-", "*", "/", "%":
		return ev.arith(op, a, b)
	case "==":
		return ev.equal(a, b)
	case "!=":
		return !ev.equal(a, b)
	case "<", "<=", ">", ">=":
		return ev.compare(op, a, b)
	}
	panic("binop " + op)
}

// documented precedence tables.  T1 = spec §4.2 (numeric column: all six
// comparison operators share level 5); T2 = spec §4.8 and the §12 grammar
// (relational binds tighter than equality).  `%` is documented as modulo
// (notation §2.1) without a level: multiplicative and additive are both tried.
func c01PrecTables() []map[string]int {
	t1 := map[string]int{"||": 2, "&&": 3, "==": 5, "!=": 5, "<": 5, "<=": 5, ">": 5, ">=": 5, "+": 10, "-": 10, "*": 20, "/": 20}
	t2 := map[string]int{"||": 1, "&&": 2, "==": 3, "!=": 3, "<": 4, "<=": 4, ">": 4, ">=": 4, "+": 5, "-": 5, "*": 6, "/": 6}
	var out []map[string]int
	for _, t := range []map[string]int{t1, t2} {
		for _, lvl := range []string{"*", "+"} {
			m := map[string]int{}
			for k, v := range t {
				m[k] = v
			}
			m["%"] = t[lvl]
			out = append(out, m)
		}
	}
	return out
}

// c01Group turns a flat chain into the tree a left-associative
// precedence-climbing reading of table t dictates.
func c01Group(operands []*c01N, ops []string, t map[string]int) *c01N {
	pos := 0
	var parse func(min int) *c01N
	parse = func(min int) *c01N {
		left := operands[pos]
		for pos < len(ops) && t[ops[pos]] >= min {
			op := ops[pos]
			pos++
			right := parse(t[op] + 1)
			left = nBin(op, left, right)
		}
		return left
	}
	return parse(0)
}

func (ev *rEval) expr(n *c01N, sc *rScope) interface{} {
	ev.tick()
	switch n.K {
	case "int":
		return n.I
	case "float":
		return n.F
	case "str":
		return n.S
	case "bool":
		return n.B
	case "null":
		return nil
	case "var":
		sl, _ := sc.lookup(n.S)
		if sl == nil {
			rerr("undefined variable %s", n.S)
		}
		if !ev.opts.share {
			return rCopy(sl.v)
		}
		return sl.v
	case "bin":
		return ev.binop(n.S, n.C[0], n.C[1], sc)
	case "flat":
		// every documented reading must agree, otherwise not judged
		var first string
		var firstV interface{}
		tables := c01PrecTables()
		hasMod := false
		for _, o := range n.Ss {
			if o == "%" {
				hasMod = true
			}
		}
		for i, t := range tables {
			if !hasMod && i%2 == 1 {
				continue
			}
			tree := c01Group(n.C, n.Ss, t)
			v, kind := ev.try(tree, sc)
			sig := fmt.Sprint(kind)
			if kind == 2 {
				unspec("a documented reading of the chain is unspecified")
			}
			if kind == 0 {
				sig += rCanon(v)
			}
			if i == 0 {
				first, firstV = sig, v
			} else if sig != first {
				unspec("the documented precedence tables (spec §4.2 vs §4.8/§12, level of %%) disagree on this chain")
			}
		}
		if strings.HasPrefix(first, "1") {
			rerr("chain")
		}
		return firstV
	case "un":
		v := ev.expr(n.C[0], sc)
		if n.S == "!" {
			b, ok := v.(bool)
			if !ok {
				unspec("! on %s", typeName(v))
			}
			return !b
		}
		switch t := v.(type) {
		case int64:
			if t == math.MinInt64 {
				unspec("integer overflow")
			}
			return -t
		case float64:
			return -t
		}
		unspec("unary - on %s", typeName(v))
	case "arr":
		a := &rArr{}
		for _, c := range n.C {
			a.E = append(a.E, ev.expr(c, sc))
		}
		return a
	case "obj":
		o := rNewObj()
		for i, c := range n.C {
			if _, dup := o.M[n.Ss[i]]; dup {
				unspec("duplicate key in object literal")
			}
			o.set(n.Ss[i], ev.expr(c, sc))
		}
		return o
	case "field":
		base := ev.lvalue(n.C[0], sc)
		o, ok := base.(*rObj)
		if !ok {
			unspec("field access on %s", typeName(base))
		}
		v, ok := o.M[n.S]
		if !ok {
			unspec("access to a missing field")
		}
		if !ev.opts.share {
			return rCopy(v)
		}
		return v
	case "index":
		base := ev.lvalue(n.C[0], sc)
		idx := ev.expr(n.C[1], sc)
		a, ok := base.(*rArr)
		if !ok {
			unspec("indexing %s", typeName(base))
		}
		i, ok := idx.(int64)
		if !ok {
			unspec("array index of type %s", typeName(idx))
		}
		if i < 0 || i >= int64(len(a.E)) {
			rerr("array index out of bounds")
		}
		if !ev.opts.share {
			return rCopy(a.E[i])
		}
		return a.E[i]
	case "call":
		args := n.C
		return ev.call(n.S, args, nil, sc)
	case "pipe":
		left := ev.expr(n.C[0], sc)
		return ev.call(n.S, n.C[1:], []interface{}{left}, sc)
	case "match":
		v := ev.expr(n.C[0], sc)
		for _, mc := range n.C[1:] {
			cs := newScope(sc)
			if !ev.match(mc.C[0], v, cs) {
				continue
			}
			if mc.C[1].K != "none" {
				g := ev.expr(mc.C[1], cs)
				gb, ok := g.(bool)
				if !ok {
					unspec("match guard of type %s", typeName(g))
				}
				if !gb {
					continue
				}
			}
			return ev.expr(mc.C[2], cs)
		}
		unspec("no match case applies")
	}
	panic("refsem: unknown expression kind " + n.K)
}

// lvalue evaluates an identifier chain WITHOUT the copy-on-read of the value
// model (the container itself is needed, not a copy).
func (ev *rEval) lvalue(n *c01N, sc *rScope) interface{} {
	switch n.K {
	case "var":
		sl, _ := sc.lookup(n.S)
		if sl == nil {
			rerr("undefined variable %s", n.S)
		}
		return sl.v
	case "field":
		base := ev.lvalue(n.C[0], sc)
		o, ok := base.(*rObj)
		if !ok {
			unspec("field access on %s", typeName(base))
		}
		v, ok := o.M[n.S]
		if !ok {
			unspec("access to a missing field")
		}
		return v
	case "index":
		base := ev.lvalue(n.C[0], sc)
		idx := ev.expr(n.C[1], sc)
		a, ok := base.(*rArr)
		if !ok {
			unspec("indexing %s", typeName(base))
		}
		i, ok := idx.(int64)
		if !ok {
			unspec("array index of type %s", typeName(idx))
		}
		if i < 0 || i >= int64(len(a.E)) {
			rerr("array index out of bounds")
		}
		return a.E[i]
	}
	return ev.expr(n, sc)
}

func (ev *rEval) match(p *c01N, v interface{}, sc *rScope) bool {
	switch p.K {
	case "pwild":
		return true
	case "pvar":
		sc.vars[p.S] = &rSlot{v: v, kind: 5}
		return true
	case "pnull":
		return v == nil
	case "pint":
		switch t := v.(type) {
		case int64:
			return t == p.I
		case float64:
			unspec("int pattern against a float")
		}
		return false
	case "pfloat":
		switch t := v.(type) {
		case float64:
			return t == p.F
		case int64:
			unspec("float pattern against an int")
		}
		return false
	case "pstr":
		s, ok := v.(string)
		return ok && s == p.S
	case "pbool":
		b, ok := v.(bool)
		return ok && b == p.B
	case "pobj":
		o, ok := v.(*rObj)
		if !ok {
			return false
		}
		for i, sub := range p.C {
			fv, ok := o.M[p.Ss[i]]
			if !ok {
				return false
			}
			if sub.K == "none" {
				sc.vars[p.Ss[i]] = &rSlot{v: fv, kind: 5}
			} else if !ev.match(sub, fv, sc) {
				return false
			}
		}
		return true
	case "parr":
		a, ok := v.(*rArr)
		if !ok {
			return false
		}
		if p.S == "" && len(a.E) != len(p.C) {
			return false
		}
		if p.S != "" && len(a.E) < len(p.C) {
			return false
		}
		for i, sub := range p.C {
			if !ev.match(sub, a.E[i], sc) {
				return false
			}
		}
		if p.S != "" {
			rest := &rArr{E: append([]interface{}(nil), a.E[len(p.C):]...)}
			sc.vars[p.S] = &rSlot{v: rest, kind: 5}
		}
		return true
	}
	panic("refsem: unknown pattern kind " + p.K)
}

func typeOK(t string, v interface{}, req bool) {
	if t == "any" || t == "" {
		return
	}
	if v == nil {
		if req {
			unspec("null for a required typed parameter")
		}
		return
	}
	got := typeName(v)
	if got == t {
		return
	}
	if (got == "int" && t == "float") || (got == "float" && t == "int") {
		unspec("int/float crossing a declared type")
	}
	if got == "array" || got == "object" || got == "function" {
		unspec("composite value against a scalar type")
	}
	rerr("type mismatch: expected %s, got %s", t, got)
}

func (ev *rEval) findFn(name string) *c01Fn {
	for i := range ev.prog.Fns {
		if ev.prog.Fns[i].Name == name {
			return &ev.prog.Fns[i]
		}
	}
	return nil
}

// call: pre = already evaluated leading arguments (pipe), args = argument expressions
func (ev *rEval) call(name string, args []*c01N, pre []interface{}, sc *rScope) interface{} {
	if rDocBuiltins[name] || c01KnownBuiltins[name] {
		vals := append([]interface{}{}, pre...)
		if len(pre) > 0 {
			unspec("pipe into a built-in")
		}
		var lv []*c01N
		for _, a := range args {
			vals = append(vals, ev.expr(a, sc))
			lv = append(lv, a)
		}
		return ev.builtin(name, vals, lv, sc)
	}
	if strings.Contains(name, ".") {
		// receiver.method(args) — spec §4.7: the built-in applied to the receiver
		if len(pre) > 0 {
			unspec("pipe into a method call")
		}
		i := strings.LastIndex(name, ".")
		parts := strings.Split(name[:i], ".")
		method := name[i+1:]
		sl, _ := sc.lookup(parts[0])
		if sl == nil {
			rerr("undefined variable %s", parts[0])
		}
		cur := sl.v
		for _, f := range parts[1:] {
			o, ok := cur.(*rObj)
			if !ok {
				unspec("field access on %s", typeName(cur))
			}
			nx, ok := o.M[f]
			if !ok {
				unspec("access to a missing field")
			}
			cur = nx
		}
		if o, ok := cur.(*rObj); ok {
			if _, has := o.M[method]; has {
				unspec("method name that is also a field of the receiver")
			}
		}
		if !rDocBuiltins[method] {
			unspec("method call %s", name)
		}
		if !ev.opts.share {
			cur = rCopy(cur)
		}
		vals := []interface{}{cur}
		for _, a := range args {
			vals = append(vals, ev.expr(a, sc))
		}
		return ev.builtin(method, vals, nil, sc)
	}
	sl, _ := sc.lookup(name)
	if sl == nil {
		rerr("undefined function %s", name)
	}
	f, ok := sl.v.(*rFn)
	if !ok {
		unspec("call of a non-function value")
	}
	vals := append([]interface{}{}, pre...)
	for _, a := range args {
		vals = append(vals, ev.expr(a, sc))
	}
	return ev.apply(f, vals)
}

// apply runs a user function on evaluated arguments.  The body's scope is
// lexical: parameters and locals above the module scope; the caller's locals
// are not visible.
// applyCallback: a function invoked by a higher-order built-in.  Those
// built-ins are not documented, so arity and declared-type mismatches between
// the callback's signature and the arguments supplied are not judged.
func (ev *rEval) applyCallback(f *rFn, vals []interface{}) interface{} {
	fn := ev.findFn(f.Name)
	if fn == nil {
		rerr("undefined function %s", f.Name)
	}
	if len(vals) != len(fn.Params) {
		unspec("callback arity differs from the arguments the built-in supplies")
	}
	if fn.Ret != "" {
		unspec("callback with a declared return type")
	}
	for i, p := range fn.Params {
		if p.Type != "any" && p.Type != "" && typeName(vals[i]) != p.Type {
			unspec("callback parameter type differs from the element type")
		}
	}
	return ev.apply(f, vals)
}

func (ev *rEval) apply(f *rFn, vals []interface{}) interface{} {
	fn := ev.findFn(f.Name)
	if fn == nil {
		rerr("undefined function %s", f.Name)
	}
	ev.fnDepth++
	defer func() { ev.fnDepth-- }()
	if ev.fnDepth > 40 {
		unspec("recursion depth")
	}
	if len(vals) > len(fn.Params) {
		rerr("too many arguments")
	}
	fs := newScope(ev.global)
	for i, p := range fn.Params {
		var v interface{}
		switch {
		case i < len(vals):
			v = vals[i]
		case p.Def != nil:
			v = ev.expr(p.Def, fs)
		case !p.Req:
			v = nil
		default:
			rerr("missing required argument %s", p.Name)
		}
		typeOK(p.Type, v, p.Req)
		if _, dup := fs.vars[p.Name]; dup {
			unspec("duplicate parameter name")
		}
		fs.vars[p.Name] = &rSlot{v: v, kind: 5}
	}
	var res interface{}
	returned := false
	func() {
		defer func() {
			if r := recover(); r != nil {
				if rt, ok := r.(rReturn); ok {
					if rt.status != 0 {
						unspec("status-carrying return inside a function")
					}
					res, returned = rt.v, true
					return
				}
				switch r.(type) {
				case rBreak, rContinue:
					unspec("break/continue escaping a function body")
				}
				panic(r)
			}
		}()
		ev.block(fn.Body, fs)
	}()
	if !returned {
		unspec("function body ends without a return")
	}
	if fn.Ret != "" {
		if res == nil {
			unspec("null against a declared return type")
		}
		typeOK(fn.Ret, res, false)
	}
	return res
}

func (ev *rEval) block(stmts []*c01N, sc *rScope) {
	for _, s := range stmts {
		ev.stmt(s, sc)
	}
}

func (ev *rEval) cond(n *c01N, sc *rScope, what string) bool {
	v := ev.expr(n, sc)
	b, ok := v.(bool)
	if !ok {
		unspec("%s condition of type %s", what, typeName(v))
	}
	return b
}

func (ev *rEval) stmt(s *c01N, sc *rScope) {
	ev.tick()
	switch s.K {
	case "decl":
		v := ev.expr(s.C[0], sc)
		if sl, ok := sc.vars[s.S]; ok {
			switch sl.kind {
			case 2:
				unspec("$ on an implicit request variable")
			case 3:
				unspec("$ on the loop variable inside its own body")
			case 5:
				unspec("$ on a parameter / pattern binding")
			}
			rerr("cannot redeclare %s in the same scope", s.S) // includes path parameters (notation §9)
		}
		sl, owner := sc.lookup(s.S)
		if sl != nil {
			if owner == ev.global {
				// `$` on a name that resolves to the module scope (function, constant):
				// the documents do not say which of three things happens, so all three
				// are enumerated — it declares a local in the current block that
				// shadows the module-level name, it updates the module-level binding
				// (for the rest of this evaluation), or it is refused.  Once a local
				// shadows the name, `$` on it from a nested block is the ordinary rule
				// (the name resolves to that local: update it).
				// (one reading per evaluation, chosen at the first such statement)
				if !ev.modSet {
					ev.modModel, ev.modSet = ev.choose(3), true
				}
				switch ev.modModel {
				case 0:
					sc.vars[s.S] = &rSlot{v: v}
				case 1:
					sl.v = v
				default:
					rerr("$ on the name of a module-level function or constant")
				}
				return
			}
			if sl.kind == 2 {
				unspec("$ on an implicit request variable")
			}
			sl.v = v
			return
		}
		sc.vars[s.S] = &rSlot{v: v}
	case "set":
		v := ev.expr(s.C[0], sc)
		sl, owner := sc.lookup(s.S)
		if sl == nil {
			unspec("bare assignment to an undeclared name")
		}
		if owner == ev.global {
			unspec("bare assignment to a module-level name")
		}
		if sl.kind == 2 {
			unspec("assignment to an implicit request variable")
		}
		sl.v = v
	case "fset":
		parts := strings.Split(s.S, ".")
		sl, owner := sc.lookup(parts[0])
		if sl == nil {
			rerr("undefined variable %s", parts[0])
		}
		if owner == ev.global {
			unspec("field assignment through a module-level name")
		}
		cur := sl.v
		for _, f := range parts[1 : len(parts)-1] {
			o, ok := cur.(*rObj)
			if !ok {
				unspec("field assignment through %s", typeName(cur))
			}
			nx, ok := o.M[f]
			if !ok {
				unspec("field assignment through a missing field")
			}
			cur = nx
		}
		o, ok := cur.(*rObj)
		if !ok {
			unspec("field assignment on %s", typeName(cur))
		}
		v := ev.expr(s.C[0], sc)
		last := parts[len(parts)-1]
		if _, ok := o.M[last]; !ok {
			unspec("field assignment creating a new field")
		}
		o.set(last, v)
		ev.mutated = true
	case "iset":
		unspec("index assignment is not documented")
	case "ret":
		v := ev.expr(s.C[0], sc)
		panic(rReturn{v: v, status: int(s.I)})
	case "guard":
		if ev.fnDepth > 0 {
			unspec("guard inside a function")
		}
		if !ev.cond(s.C[0], sc, "guard") {
			o := rNewObj()
			o.set("error", s.S)
			panic(rReturn{v: o, status: int(s.I)})
		}
	case "if":
		if ev.cond(s.C[0], sc, "if") {
			ev.block(s.Bl[0], newScope(sc))
		} else if len(s.Bl) > 1 {
			ev.block(s.Bl[1], newScope(sc))
		}
	case "while":
		for ev.cond(s.C[0], sc, "while") {
			if ev.iter(s.Bl[0], newScope(sc)) {
				break
			}
		}
	case "for":
		it := ev.expr(s.C[0], sc)
		switch t := it.(type) {
		case *rArr:
			// iteration runs over the elements the array had when the loop started
			elems := append([]interface{}(nil), t.E...)
			for i, e := range elems {
				ls := newScope(sc)
				if len(s.Ss) == 2 {
					if s.Ss[0] == s.Ss[1] {
						unspec("same name for both loop variables")
					}
					ls.vars[s.Ss[0]] = &rSlot{v: int64(i), kind: 3}
				}
				ls.vars[s.Ss[len(s.Ss)-1]] = &rSlot{v: e, kind: 3}
				if ev.iter(s.Bl[0], ls) {
					break
				}
			}
		case *rObj:
			if len(s.Ss) != 2 {
				unspec("single-variable iteration over an object")
			}
			if s.Ss[0] == s.Ss[1] {
				unspec("same name for both loop variables")
			}
			keys := ev.order(t.K)
			vals := map[string]interface{}{}
			for _, k := range keys {
				vals[k] = t.M[k]
			}
			for _, k := range keys {
				ls := newScope(sc)
				ls.vars[s.Ss[0]] = &rSlot{v: k, kind: 3}
				ls.vars[s.Ss[1]] = &rSlot{v: vals[k], kind: 3}
				if ev.iter(s.Bl[0], ls) {
					break
				}
			}
		default:
			unspec("for over %s", typeName(it))
		}
	case "switch":
		v := ev.expr(s.C[0], sc)
		for i, cv := range s.C[1:] {
			c := ev.expr(cv, sc)
			if ev.equal(v, c) {
				ev.block(s.Bl[i], newScope(sc))
				return
			}
		}
		if s.B {
			ev.block(s.Bl[len(s.Bl)-1], newScope(sc))
		}
	case "break":
		panic(rBreak{})
	case "continue":
		panic(rContinue{})
	case "expr":
		ev.expr(s.C[0], sc)
	default:
		panic("refsem: unknown statement kind " + s.K)
	}
}

// iter runs one loop iteration; reports whether the loop was left by break.
func (ev *rEval) iter(body []*c01N, sc *rScope) (broke bool) {
	defer func() {
		if r := recover(); r != nil {
			switch r.(type) {
			case rBreak:
				broke = true
			case rContinue:
			default:
				panic(r)
			}
		}
	}()
	ev.block(body, sc)
	return false
}

// ---- built-ins ---------------------------------------------------------------

func asciiOnly(ss ...string) {
	for _, s := range ss {
		for _, r := range s {
			if r > unicode.MaxASCII {
				unspec("non-ASCII string in a built-in")
			}
		}
	}
}

func (ev *rEval) builtin(name string, a []interface{}, argExprs []*c01N, sc *rScope) interface{} {
	str := func(i int) string {
		s, ok := a[i].(string)
		if !ok {
			unspec("%s: argument %d of type %s", name, i+1, typeName(a[i]))
		}
		asciiOnly(s)
		return s
	}
	integer := func(i int) int64 {
		n, ok := a[i].(int64)
		if !ok {
			unspec("%s: argument %d of type %s", name, i+1, typeName(a[i]))
		}
		return n
	}
	arr := func(i int) *rArr {
		x, ok := a[i].(*rArr)
		if !ok {
			unspec("%s: argument %d of type %s", name, i+1, typeName(a[i]))
		}
		return x
	}
	fn := func(i int) *rFn {
		x, ok := a[i].(*rFn)
		if !ok {
			unspec("%s: argument %d of type %s", name, i+1, typeName(a[i]))
		}
		return x
	}
	arity := func(n int) {
		if len(a) != n {
			unspec("%s called with %d arguments", name, len(a))
		}
	}
	boolRes := func(v interface{}) bool {
		b, ok := v.(bool)
		if !ok {
			unspec("%s: callback returned %s", name, typeName(v))
		}
		return b
	}
	// first argument as the container itself (for in-place update models)
	container := func() interface{} {
		if ev.opts.share && ev.opts.inplace {
			return a[0]
		}
		return rShallow(a[0]) // a new container holding the same elements
	}
	switch name {
	case "length":
		arity(1)
		switch t := a[0].(type) {
		case string:
			asciiOnly(t)
			return int64(len(t))
		case *rArr:
			return int64(len(t.E))
		}
		unspec("length of %s", typeName(a[0]))
	case "upper":
		arity(1)
		return strings.ToUpper(str(0))
	case "lower":
		arity(1)
		return strings.ToLower(str(0))
	case "trim":
		arity(1)
		return strings.Trim(str(0), " \t\n\r")
	case "contains":
		arity(2)
		return strings.Contains(str(0), str(1))
	case "startsWith":
		arity(2)
		return strings.HasPrefix(str(0), str(1))
	case "endsWith":
		arity(2)
		return strings.HasSuffix(str(0), str(1))
	case "indexOf":
		arity(2)
		return int64(strings.Index(str(0), str(1)))
	case "replace":
		arity(3)
		s, o, nw := str(0), str(1), str(2)
		if o == "" {
			unspec("replace of the empty string")
		}
		return strings.Join(strings.Split(s, o), nw)
	case "substring":
		arity(3)
		s, st, en := str(0), integer(1), integer(2)
		if st < 0 || en < st || en > int64(len(s)) {
			unspec("substring bounds outside 0 ≤ start ≤ end ≤ length")
		}
		return s[st:en]
	case "charAt":
		arity(2)
		s, i := str(0), integer(1)
		if i < 0 || i >= int64(len(s)) {
			unspec("charAt outside the string")
		}
		return s[i : i+1]
	case "split":
		arity(2)
		s, d := str(0), str(1)
		if d == "" {
			unspec("split on the empty delimiter")
		}
		out := &rArr{}
		for {
			i := strings.Index(s, d)
			if i < 0 {
				out.E = append(out.E, s)
				break
			}
			out.E = append(out.E, s[:i])
			s = s[i+len(d):]
		}
		return out
	case "join":
		arity(2)
		x, d := arr(0), str(1)
		var p []string
		for _, e := range x.E {
			switch t := e.(type) {
			case string:
				p = append(p, t)
			case int64:
				p = append(p, strconv.FormatInt(t, 10))
			default:
				unspec("join of an array holding %s", typeName(e))
			}
		}
		return strings.Join(p, d)
	case "abs":
		arity(1)
		switch t := a[0].(type) {
		case int64:
			if t == math.MinInt64 {
				unspec("integer overflow")
			}
			if t < 0 {
				return -t
			}
			return t
		case float64:
			return math.Abs(t)
		}
		unspec("abs of %s", typeName(a[0]))
	case "min", "max":
		arity(2)
		if !isNum(a[0]) || !isNum(a[1]) {
			unspec("%s of %s and %s", name, typeName(a[0]), typeName(a[1]))
		}
		if typeName(a[0]) != typeName(a[1]) {
			unspec("%s of an int and a float", name)
		}
		less := ev.compare("<", a[0], a[1])
		if (name == "min") == less {
			return a[0]
		}
		return a[1]
	case "parseInt":
		arity(1)
		s := str(0)
		digits := s
		if strings.HasPrefix(s, "-") {
			digits = s[1:]
		}
		if digits == "" || len(digits) > 18 {
			unspec("parseInt of a string that is not a plain decimal integer")
		}
		var v int64
		for _, r := range digits {
			if r < '0' || r > '9' {
				unspec("parseInt of a string that is not a plain decimal integer")
			}
			v = v*10 + int64(r-'0')
		}
		if digits != s {
			v = -v
		}
		return v
	case "parseFloat":
		arity(1)
		s := str(0)
		body := strings.TrimPrefix(s, "-")
		parts := strings.Split(body, ".")
		if len(parts) != 2 || parts[0] == "" || parts[1] == "" || len(body) > 15 {
			unspec("parseFloat of a string that is not digits.digits")
		}
		for _, p := range parts {
			for _, r := range p {
				if r < '0' || r > '9' {
					unspec("parseFloat of a string that is not digits.digits")
				}
			}
		}
		// exact decimal → nearest double: numerator/denominator are exact in float64 for ≤ 15 digits
		num, _ := strconv.ParseInt(parts[0]+parts[1], 10, 64)
		den := math.Pow(10, float64(len(parts[1])))
		f := float64(num) / den
		if s != body {
			f = -f
		}
		return f
	case "toString":
		arity(1)
		switch t := a[0].(type) {
		case int64:
			return strconv.FormatInt(t, 10)
		case bool:
			return strconv.FormatBool(t)
		case string:
			return t
		case float64:
			if t != math.Trunc(t) && math.Abs(t) < 1e6 && math.Abs(t) > 1e-3 {
				s := strconv.FormatFloat(t, 'f', -1, 64)
				if len(s) <= 8 {
					return s
				}
			}
			unspec("text form of this float")
		}
		unspec("toString of %s", typeName(a[0]))
	case "now":
		unspec("clock")

	// ---- conventional reading of undocumented collection built-ins --------
	case "append":
		arity(2)
		arr(0)
		c := container().(*rArr)
		c.E = append(c.E, a[1])
		ev.mutatedMark()
		return c
	case "set":
		arity(3)
		if _, ok := a[0].(*rObj); !ok {
			unspec("set on %s", typeName(a[0]))
		}
		k := str(1)
		c := container().(*rObj)
		c.set(k, a[2])
		ev.mutatedMark()
		return c
	case "remove":
		arity(2)
		if _, ok := a[0].(*rObj); !ok {
			unspec("remove on %s", typeName(a[0]))
		}
		k := str(1)
		c := container().(*rObj)
		c.del(k)
		ev.mutatedMark()
		return c
	case "keys":
		arity(1)
		o, ok := a[0].(*rObj)
		if !ok {
			unspec("keys of %s", typeName(a[0]))
		}
		out := &rArr{}
		for _, k := range ev.order(o.K) {
			out.E = append(out.E, k)
		}
		return out
	case "reverse":
		arity(1)
		x := arr(0)
		out := &rArr{}
		for i := len(x.E) - 1; i >= 0; i-- {
			out.E = append(out.E, x.E[i])
		}
		return out
	case "slice":
		arity(3)
		x, st, en := arr(0), integer(1), integer(2)
		if st < 0 || en < st || en > int64(len(x.E)) {
			unspec("slice bounds outside 0 ≤ start ≤ end ≤ length")
		}
		out := &rArr{}
		out.E = append(out.E, x.E[st:en]...)
		return out
	case "flat":
		arity(1)
		x := arr(0)
		out := &rArr{}
		for _, e := range x.E {
			if in, ok := e.(*rArr); ok {
				for _, ie := range in.E {
					if _, deeper := ie.(*rArr); deeper {
						unspec("flat of arrays nested more than one level")
					}
					out.E = append(out.E, ie)
				}
			} else {
				out.E = append(out.E, e)
			}
		}
		return out
	case "sort":
		if len(a) != 1 {
			unspec("sort with a comparator")
		}
		x := arr(0)
		out := &rArr{}
		kind := ""
		for _, e := range x.E {
			t := typeName(e)
			if t != "int" && t != "str" && t != "float" {
				unspec("sort of an array holding %s", t)
			}
			if kind != "" && t != kind {
				unspec("sort of a mixed array")
			}
			kind = t
			out.E = append(out.E, e)
		}
		if kind == "str" {
			for _, e := range out.E {
				asciiOnly(e.(string))
			}
		}
		// insertion sort (stable)
		for i := 1; i < len(out.E); i++ {
			for j := i; j > 0; j-- {
				var less bool
				switch kind {
				case "int":
					less = out.E[j].(int64) < out.E[j-1].(int64)
				case "float":
					less = out.E[j].(float64) < out.E[j-1].(float64)
				default:
					less = out.E[j].(string) < out.E[j-1].(string)
				}
				if !less {
					break
				}
				out.E[j], out.E[j-1] = out.E[j-1], out.E[j]
			}
		}
		return out
	case "map":
		arity(2)
		x, f := arr(0), fn(1)
		out := &rArr{}
		for _, e := range x.E {
			out.E = append(out.E, ev.applyCallback(f, []interface{}{rCopyIf(!ev.opts.share, e)}))
		}
		return out
	case "filter":
		arity(2)
		x, f := arr(0), fn(1)
		out := &rArr{}
		for _, e := range x.E {
			if boolRes(ev.applyCallback(f, []interface{}{rCopyIf(!ev.opts.share, e)})) {
				out.E = append(out.E, e)
			}
		}
		return out
	case "find":
		arity(2)
		x, f := arr(0), fn(1)
		for _, e := range x.E {
			if boolRes(ev.applyCallback(f, []interface{}{rCopyIf(!ev.opts.share, e)})) {
				return e
			}
		}
		unspec("find without a hit")
	case "some", "every":
		arity(2)
		x, f := arr(0), fn(1)
		// whether evaluation stops at the deciding element is not documented:
		// judged only when every callback application evaluates cleanly
		res := name == "every"
		for _, e := range x.E {
			b := boolRes(ev.applyCallback(f, []interface{}{rCopyIf(!ev.opts.share, e)}))
			if name == "some" && b {
				res = true
			}
			if name == "every" && !b {
				res = false
			}
		}
		return res
	case "reduce":
		arity(3)
		x, f := arr(0), fn(1)
		acc := a[2]
		for _, e := range x.E {
			acc = ev.applyCallback(f, []interface{}{acc, rCopyIf(!ev.opts.share, e)})
		}
		return acc
	}
	unspec("built-in %s is not modelled", name)
	return nil
}

func rShallow(v interface{}) interface{} {
	switch t := v.(type) {
	case *rArr:
		return &rArr{E: append([]interface{}(nil), t.E...)}
	case *rObj:
		n := rNewObj()
		for _, k := range t.K {
			n.set(k, t.M[k])
		}
		return n
	}
	return v
}

func rCopyIf(c bool, v interface{}) interface{} {
	if c {
		return rCopy(v)
	}
	return v
}

func (ev *rEval) mutatedMark() { ev.mutated = true }

// ---- top level ---------------------------------------------------------------

// c01Outcome is one possible outcome of the judged route.
type c01Outcome struct {
	Err    bool
	Status int
	Val    string // canonical value text
}

func (o c01Outcome) String() string {
	if o.Err {
		return "error"
	}
	return fmt.Sprintf("%d %s", o.Status, o.Val)
}

type c01RefResult struct {
	Unspecified string       // non-empty: not judged (reason)
	Allowed     []c01Outcome // distinct outcomes over all undocumented choices
	OrderDep    bool         // more than one outcome because of iteration order / aliasing model
}

func c01LitValue(n *c01N) interface{} {
	ev := &rEval{prog: &c01Prog{}, opts: rOpts{share: true}}
	return ev.expr(n, newScope(nil))
}

func (ev *rEval) runRoute(route []*c01N, p string, body *c01N) (out c01Outcome, why string) {
	defer func() {
		if r := recover(); r != nil {
			switch t := r.(type) {
			case rUnspec:
				why = t.why
			case rError:
				out = c01Outcome{Err: true}
			case rReturn:
				if _, isFn := t.v.(*rFn); isFn {
					why = "a function value escapes as the result"
					return
				}
				st := t.status
				if st == 0 {
					st = 200
				}
				c := rCanon(t.v)
				if strings.Contains(c, "fn:") {
					why = "a function value escapes as the result"
					return
				}
				out = c01Outcome{Status: st, Val: c}
			case rBreak, rContinue:
				why = "break/continue outside a loop"
			default:
				panic(r)
			}
		}
	}()
	ev.global = newScope(nil)
	for i := range ev.prog.Fns {
		f := &ev.prog.Fns[i]
		if _, dup := ev.global.vars[f.Name]; dup {
			unspec("duplicate module-level name")
		}
		if rDocBuiltins[f.Name] || c01KnownBuiltins[f.Name] {
			unspec("user function named like a built-in")
		}
		ev.global.vars[f.Name] = &rSlot{v: &rFn{Name: f.Name}, kind: 4}
	}
	for _, c := range ev.prog.Consts {
		if _, dup := ev.global.vars[c.Name]; dup {
			unspec("duplicate module-level name")
		}
		ev.global.vars[c.Name] = &rSlot{v: ev.expr(c.Val, ev.global), kind: 4}
	}
	rs := newScope(ev.global)
	rs.vars["p"] = &rSlot{v: p, kind: 1}
	var in interface{}
	if body != nil {
		o := rNewObj()
		o.set("b", ev.expr(body, ev.global))
		in = o
	}
	rs.vars["input"] = &rSlot{v: in, kind: 2}
	rs.vars["query"] = &rSlot{v: rNewObj(), kind: 2}
	rs.vars["headers"] = &rSlot{v: rNewObj(), kind: 2}
	ev.block(route, rs)
	why = "route body ends without a return"
	return
}

// c01Ref evaluates the last route of the program under every combination of
// undocumented choices.
func c01Ref(c c01Case) c01RefResult {
	route := c.Prog.Routes[len(c.Prog.Routes)-1]
	seen := map[string]bool{}
	var res c01RefResult
	optsList := []rOpts{{share: false}, {share: true, inplace: false}, {share: true, inplace: true}}
	for oi, opts := range optsList {
		var choices []int
		mutated := false
		for {
			prog := c.Prog
			ev := &rEval{prog: &prog, opts: opts, choices: append([]int(nil), choices...)}
			out, why := ev.runRoute(route, c.P, c.Body)
			if why != "" {
				return c01RefResult{Unspecified: why}
			}
			mutated = mutated || ev.mutated
			k := out.String()
			if !seen[k] {
				seen[k] = true
				res.Allowed = append(res.Allowed, out)
			}
			// next choice sequence (depth-first)
			choices = ev.choices
			i := len(ev.arity) - 1
			for i >= 0 && choices[i]+1 >= ev.arity[i] {
				i--
			}
			if i < 0 {
				break
			}
			choices = append([]int(nil), choices[:i+1]...)
			choices[i]++
			if len(seen) > 64 {
				return c01RefResult{Unspecified: "too many distinct outcomes over the undocumented choices"}
			}
		}
		if oi == 0 && !mutated {
			break // no in-place update anywhere: the aliasing model cannot matter
		}
	}
	res.OrderDep = len(res.Allowed) > 1
	return res
}
