package main

// Verification harness for C17 (static file serving never escapes its root).
// Injected into cmd/glyph so that the CLI's own mux registration
// (registerStaticRoutes, fed by the real parser) is covered next to the
// exported library entry points web.StaticFileServer.ServeHTTP and
// web.ResponseHelper.SendFile.
//
// Space: every directory tree with at most N entries (grammar below) is built
// for real under a scratch directory; on every tree every request path of at
// most K segments over a 14-symbol alphabet is sent through every
// configuration (mount prefix x directory listing x entry point).
//
// Oracle (independent of the code under test): the set of regular files that
// physically live under the EvalSymlinks-resolved root is collected with
// filepath.WalkDir.  Every file outside the root holds a unique token that
// starts with c17OUT, every outside file *name* holds c17NAME, every inside
// file holds a unique c17IN token.  A response must never contain an outside
// token; a 200 body must be exactly the bytes of an inside file or a listing
// whose names are the entries of an inside directory; every other status must
// be 403/404 (or a ServeMux redirect) and carry no file bytes.

import (
	"bytes"
	"fmt"
	"html"
	"io"
	"log"
	"net/http"
	"net/url"
	"os"
	"path"
	"path/filepath"
	"regexp"
	"sort"
	"strings"
	"testing"

	"github.com/fatih/color"
	"github.com/glyphlang/glyph/internal/verif/vk"
	"github.com/glyphlang/glyph/pkg/web"
)

// ---------------------------------------------------------------- layouts

// c17Dir is one directory of a layout.  A directory has four name slots:
// "f" (regular file), "l" (a symbolic link of some kind), "index.html" (of
// some kind) and "d" (a real sub-directory, recursively a c17Dir).
type c17Dir struct {
	F bool    `json:"f,omitempty"`
	L string  `json:"l,omitempty"`
	I string  `json:"i,omitempty"`
	D *c17Dir `json:"d,omitempty"`
}

// kinds of the link named "l"
var c17LinkKinds = []string{
	"in-file",      // -> regular file inside the root (relative target)
	"out-file-abs", // -> secret file outside the root (absolute target)
	"out-file-rel", // -> secret file outside the root (relative target climbing out)
	"in-dir",       // -> directory inside the root (absolute target)
	"out-dir",      // -> directory outside the root (absolute target)
	"sibling",      // -> ../root-evil, the sibling whose name extends the root's name (relative)
	"sibling-case", // -> ../ROOT, the sibling whose name differs from the root's only by case (relative)
	"dangling",     // -> a name that does not exist
	"self",         // -> "." (a loop that stays inside)
	"two-hop",      // -> a link inside the root that itself points to the outside directory
	"up",           // -> ".." (at the top level this is the parent of the root: outside)
}

// kinds of the entry named "index.html"
var c17IndexKinds = []string{
	"file",     // regular file
	"out-abs",  // link -> secret file outside (absolute)
	"out-rel",  // link -> index.html of the sibling root-evil (relative)
	"in",       // link -> regular file inside the root
	"dir",      // a directory named index.html
	"dangling", // link -> nothing
}

func (d *c17Dir) entries() int {
	if d == nil {
		return 0
	}
	n := 0
	if d.F {
		n++
	}
	if d.L != "" {
		n++
	}
	if d.I != "" {
		n++
	}
	if d.D != nil {
		n += 1 + d.D.entries()
	}
	return n
}

func (d *c17Dir) String() string {
	var p []string
	if d.F {
		p = append(p, "f")
	}
	if d.L != "" {
		p = append(p, "l="+d.L)
	}
	if d.I != "" {
		p = append(p, "index.html="+d.I)
	}
	if d.D != nil {
		p = append(p, "d"+d.D.String())
	}
	return "{" + strings.Join(p, " ") + "}"
}

func (d *c17Dir) clone() *c17Dir {
	if d == nil {
		return nil
	}
	c := *d
	c.D = d.D.clone()
	return &c
}

var c17GenMemo = map[int][]*c17Dir{}

// c17Gen returns every directory with exactly n entries (deterministic order).
func c17Gen(n int) []*c17Dir {
	if r, ok := c17GenMemo[n]; ok {
		return r
	}
	var out []*c17Dir
	ls := append([]string{""}, c17LinkKinds...)
	is := append([]string{""}, c17IndexKinds...)
	for _, f := range []bool{false, true} {
		for _, l := range ls {
			for _, i := range is {
				used := 0
				if f {
					used++
				}
				if l != "" {
					used++
				}
				if i != "" {
					used++
				}
				if used > n {
					continue
				}
				if used == n {
					out = append(out, &c17Dir{F: f, L: l, I: i})
					continue
				}
				for _, sub := range c17Gen(n - used - 1) {
					out = append(out, &c17Dir{F: f, L: l, I: i, D: sub})
				}
			}
		}
	}
	c17GenMemo[n] = out
	return out
}

// ---------------------------------------------------------------- scratch world

// c17World is one scratch directory:
//
//	<scratch>/{f,index.html,d/f,d/c17NAME-*,c17NAME-*}             secrets (d has no index.html)
//	<scratch>/p1/{same}                                         secrets
//	<scratch>/p1/outside/{secret.txt,f,index.html,d/...,c17NAME-*}
//	<scratch>/p1/root-evil/{f,index.html,d/...,l,c17NAME-*}
//	<scratch>/p1/ROOT/{f,index.html,d/...,c17NAME-*}
//	<scratch>/p1/rl -> root
//	<scratch>/p1/root/        the served root, rebuilt for every layout
//	<scratch>/p1/root/zin/{t.txt,f,index.html,hop -> ../../outside}   fixed inside furniture
type c17World struct {
	scratch, p1, root, outside, evil, rl string
	nsecret                              int
}

func c17Must(err error) {
	if err != nil {
		panic(err)
	}
}

func (w *c17World) secretFile(p string) {
	w.nsecret++
	rel, _ := filepath.Rel(w.scratch, p)
	c17Must(os.WriteFile(p, []byte(fmt.Sprintf("c17OUT<%d:%s>\n", w.nsecret, rel)), 0o644))
}

func (w *c17World) secretDir(dir string) {
	c17Must(os.MkdirAll(filepath.Join(dir, "d"), 0o755))
	w.secretFile(filepath.Join(dir, "f"))
	w.secretFile(filepath.Join(dir, "index.html"))
	// d has no index.html, so that a request that reaches it asks for a listing
	w.secretFile(filepath.Join(dir, "d", "f"))
	w.nsecret++
	w.secretFile(filepath.Join(dir, "d", fmt.Sprintf("c17NAME-%d", w.nsecret)))
	w.nsecret++
	w.secretFile(filepath.Join(dir, fmt.Sprintf("c17NAME-%d", w.nsecret)))
}

func c17NewWorld() *c17World {
	s, err := os.MkdirTemp("/var/tmp", "C17-")
	c17Must(err)
	s, err = filepath.EvalSymlinks(s)
	c17Must(err)
	w := &c17World{scratch: s}
	w.p1 = filepath.Join(s, "p1")
	w.root = filepath.Join(w.p1, "root")
	w.outside = filepath.Join(w.p1, "outside")
	w.evil = filepath.Join(w.p1, "root-evil")
	w.rl = filepath.Join(w.p1, "rl")
	c17Must(os.MkdirAll(w.p1, 0o755))
	w.secretDir(s)
	w.secretDir(w.p1)
	c17Must(os.MkdirAll(w.outside, 0o755))
	w.secretDir(w.outside)
	w.secretFile(filepath.Join(w.outside, "secret.txt"))
	c17Must(os.MkdirAll(w.evil, 0o755))
	w.secretDir(w.evil)
	c17Must(os.Symlink("../outside/secret.txt", filepath.Join(w.evil, "l")))
	c17Must(os.MkdirAll(filepath.Join(w.p1, "ROOT"), 0o755))
	w.secretDir(filepath.Join(w.p1, "ROOT"))
	c17Must(os.Symlink("root", w.rl))
	return w
}

func (w *c17World) Close() { os.RemoveAll(w.scratch) }

func c17InFile(root, p string) {
	rel, _ := filepath.Rel(root, p)
	c17Must(os.WriteFile(p, []byte("c17IN<"+rel+">\n"), 0o644))
}

// Build replaces the served root by the given layout.
func (w *c17World) Build(l *c17Dir) {
	c17Must(os.RemoveAll(w.root))
	c17Must(os.MkdirAll(filepath.Join(w.root, "zin"), 0o755))
	c17InFile(w.root, filepath.Join(w.root, "zin", "t.txt"))
	c17InFile(w.root, filepath.Join(w.root, "zin", "f"))
	c17InFile(w.root, filepath.Join(w.root, "zin", "index.html"))
	c17Must(os.Symlink("../../outside", filepath.Join(w.root, "zin", "hop")))
	w.buildDir(l, w.root, 0)
}

// decoys: next to every regular file inside the root sit links named like variants a server may derive from the
// requested name on its own (precompressed siblings picked by content negotiation, backup and temporary names), all
// pointing at the secret file outside the root.  No request names them; they are reachable only through a name the
// server computes, and the oracle treats their bytes like any other outside content.
var c17DecoySuffixes = []string{".gz", ".br", ".zst", ".min", "~", ".bak", ".orig"}

func (w *c17World) decoys(p string) {
	for _, suf := range c17DecoySuffixes {
		c17Must(os.Symlink(filepath.Join(w.outside, "secret.txt"), p+suf))
	}
}

func (w *c17World) buildDir(l *c17Dir, dir string, depth int) {
	up := strings.Repeat("../", depth)
	if l.F {
		c17InFile(w.root, filepath.Join(dir, "f"))
		w.decoys(filepath.Join(dir, "f"))
	}
	if l.L != "" {
		var target string
		switch l.L {
		case "in-file":
			target = up + "zin/t.txt"
		case "out-file-abs":
			target = filepath.Join(w.outside, "secret.txt")
		case "out-file-rel":
			target = up + "../outside/secret.txt"
		case "in-dir":
			target = filepath.Join(w.root, "zin")
		case "out-dir":
			target = w.outside
		case "sibling":
			target = up + "../root-evil"
		case "sibling-case":
			target = up + "../ROOT"
		case "dangling":
			target = "nonexistent"
		case "self":
			target = "."
		case "two-hop":
			target = up + "zin/hop"
		case "up":
			target = ".."
		default:
			panic(l.L)
		}
		c17Must(os.Symlink(target, filepath.Join(dir, "l")))
	}
	if l.I != "" {
		p := filepath.Join(dir, "index.html")
		switch l.I {
		case "file":
			c17InFile(w.root, p)
			w.decoys(p)
		case "out-abs":
			c17Must(os.Symlink(filepath.Join(w.outside, "index.html"), p))
		case "out-rel":
			c17Must(os.Symlink(up+"../root-evil/index.html", p))
		case "in":
			c17Must(os.Symlink(up+"zin/t.txt", p))
		case "dir":
			c17Must(os.Mkdir(p, 0o755))
		case "dangling":
			c17Must(os.Symlink("nonexistent", p))
		default:
			panic(l.I)
		}
	}
	if l.D != nil {
		p := filepath.Join(dir, "d")
		c17Must(os.Mkdir(p, 0o755))
		w.buildDir(l.D, p, depth+1)
	}
}

// ---------------------------------------------------------------- oracle

type c17Oracle struct {
	contents map[string]bool // bytes of every regular file really under the root
	listings map[string]bool // sorted, NUL-joined entry names of every directory really under the root
}

// c17BuildOracle walks the real root without following links.
func c17BuildOracle(root string) *c17Oracle {
	o := &c17Oracle{contents: map[string]bool{}, listings: map[string]bool{}}
	realRoot, err := filepath.EvalSymlinks(root)
	c17Must(err)
	c17Must(filepath.WalkDir(realRoot, func(p string, d os.DirEntry, err error) error {
		if err != nil {
			return err
		}
		rp, err := filepath.EvalSymlinks(p)
		if err != nil {
			return nil // dangling link
		}
		rel, err := filepath.Rel(realRoot, rp)
		if err != nil || rel == ".." || strings.HasPrefix(rel, ".."+string(filepath.Separator)) {
			return nil // a link whose real location is outside
		}
		switch {
		case d.Type().IsRegular():
			b, err := os.ReadFile(p)
			c17Must(err)
			o.contents[string(b)] = true
		case d.IsDir():
			es, err := os.ReadDir(p)
			c17Must(err)
			var names []string
			for _, e := range es {
				names = append(names, e.Name())
			}
			sort.Strings(names)
			o.listings[strings.Join(names, "\x00")] = true
		}
		return nil
	}))
	return o
}

var (
	c17Out   = []byte("c17OUT")
	c17Name  = []byte("c17NAME")
	c17In    = []byte("c17IN")
	c17LiRe  = regexp.MustCompile(`<li><a href="[^"]*">([^<]*)</a></li>`)
	c17TokRe = regexp.MustCompile(`c17(OUT|IN)<[^>\n]*>|c17NAME-[0-9]+`)
)

// c17Judge returns "" if the response conforms, otherwise a failure kind and a
// detail.  served=false means the API reported a refusal (SendFile error).
func (o *c17Oracle) judge(status int, body []byte, served bool) (kind, detail string) {
	if bytes.Contains(body, c17Out) {
		return "outside-content", fmt.Sprintf("status %d, body contains the bytes of a file outside the root: %s", status, c17TokRe.Find(body))
	}
	if bytes.Contains(body, c17Name) {
		return "outside-names", fmt.Sprintf("status %d, body names an entry of a directory outside the root: %s", status, c17TokRe.Find(body))
	}
	if !served {
		if bytes.Contains(body, c17In) {
			return "content-with-refusal", fmt.Sprintf("refused (status %d) but file bytes were written: %s", status, c17TokRe.Find(body))
		}
		return "", ""
	}
	switch status {
	case http.StatusOK:
		if o.contents[string(body)] {
			return "", ""
		}
		if bytes.HasPrefix(body, []byte("<html><head><title>")) && !bytes.Contains(body, c17In) {
			var names []string
			for _, m := range c17LiRe.FindAllSubmatch(body, -1) {
				names = append(names, strings.TrimSuffix(html.UnescapeString(string(m[1])), "/"))
			}
			sort.Strings(names)
			if o.listings[strings.Join(names, "\x00")] {
				return "", ""
			}
			return "listing-not-of-inside-dir", fmt.Sprintf("200 listing %q is not the entry list of a directory under the root", names)
		}
		b := body
		if len(b) > 80 {
			b = b[:80]
		}
		return "200-not-an-inside-file", fmt.Sprintf("200 body %q is not the content of a regular file under the root", b)
	case http.StatusMovedPermanently, http.StatusTemporaryRedirect, http.StatusPermanentRedirect, http.StatusForbidden, http.StatusNotFound:
		if bytes.Contains(body, c17In) {
			return "content-with-refusal", fmt.Sprintf("status %d but file bytes were written: %s", status, c17TokRe.Find(body))
		}
		return "", ""
	}
	return fmt.Sprintf("status-%d", status), fmt.Sprintf("status %d is neither 200 for an inside file nor 403/404", status)
}

// ---------------------------------------------------------------- requests

var c17Alphabet = []string{"f", "d", "l", "..", ".", "%2e%2e", "%2f", "..%2f", "\\", "%5c", "%00", "", "index.html", "root-evil"}

// c17Case is one fully described case (also the replay record).
type c17Case struct {
	Layout  *c17Dir  `json:"layout"`
	API     string   `json:"api"`               // "lib" | "mux" | "sendfile"
	Prefix  string   `json:"prefix"`            // lib, mux: mount prefix
	Listing bool     `json:"listing,omitempty"` // lib: directory listing enabled
	RootVia string   `json:"root_via"`          // how the root is named: "abs" | "abs-slash" | "link" | "rel" (mux: relative to the source file)
	Form    string   `json:"form"`              // lib, mux: "mounted" prefix+/+path | "glued" prefix+path | "bare" /+path | "prefix-only";  sendfile: "rel" | "abs-in-root" | "fixed"
	Segs    []string `json:"segs"`
	Trail   bool     `json:"trail,omitempty"`
	Fixed   string   `json:"fixed,omitempty"` // sendfile form "fixed": target relative to <p1>
}

func c17JoinSegs(segs []string, trail bool) string {
	s := strings.Join(segs, "/")
	if trail {
		s += "/"
	}
	return s
}

// Raw returns the request target (lib, mux) for the case.
func (c *c17Case) Raw() string {
	p0 := strings.TrimSuffix(c.Prefix, "/")
	x := c17JoinSegs(c.Segs, c.Trail)
	switch c.Form {
	case "mounted":
		return p0 + "/" + x
	case "glued":
		return p0 + x
	case "bare":
		return "/" + x
	case "prefix-only":
		return p0
	}
	panic(c.Form)
}

func c17Decode(x string) string {
	d, err := url.PathUnescape(x)
	if err != nil {
		return x
	}
	return d
}

func (c *c17Case) String() string {
	switch c.API {
	case "sendfile":
		t := c17Decode(c17JoinSegs(c.Segs, c.Trail))
		switch c.Form {
		case "abs-in-root":
			t = "<root>/" + t
		case "fixed":
			t = "<parent-of-root>/" + c.Fixed
		}
		return fmt.Sprintf("SendFile(root=%s,target=%q)", c.RootVia, t)
	case "mux":
		return fmt.Sprintf("registerStaticRoutes(@ static %s, root=%s) GET %q", c.Prefix, c.RootVia, c.Raw())
	}
	return fmt.Sprintf("StaticFileServer(prefix=%q, listing=%v, root=%s) GET %q", c.Prefix, c.Listing, c.RootVia, c.Raw())
}

type c17Rec struct {
	h     http.Header
	code  int
	wrote bool
	buf   bytes.Buffer
}

func (r *c17Rec) Header() http.Header { return r.h }
func (r *c17Rec) WriteHeader(c int) {
	if !r.wrote && c >= 200 {
		r.code, r.wrote = c, true
	}
}
func (r *c17Rec) Write(b []byte) (int, error) {
	if !r.wrote {
		r.WriteHeader(200)
	}
	return r.buf.Write(b)
}
func (r *c17Rec) reset() {
	if r.h == nil {
		r.h = http.Header{}
	}
	clear(r.h)
	r.code, r.wrote = 0, false
	r.buf.Reset()
}
func (r *c17Rec) status() int {
	if !r.wrote {
		return 200
	}
	return r.code
}

func c17NewRequest(u *url.URL, raw string) *http.Request {
	uc := *u
	// the negotiation headers every browser sends: a server that picks a variant of the file by them is inside the path
	return &http.Request{Method: http.MethodGet, URL: &uc, Proto: "HTTP/1.1", ProtoMajor: 1, ProtoMinor: 1,
		Header: http.Header{"Accept-Encoding": {"gzip, deflate, br, zstd"}, "Accept": {"*/*"}, "Accept-Language": {"en"}},
		Host: "localhost", RequestURI: raw, RemoteAddr: "10.0.0.1:4242", Body: http.NoBody}
}

// c17Serve sends one request target the way net/http's server would hand it to
// a handler.  routable=false: the target is not a valid request-URI (the server
// answers 400 before any handler runs).
func c17Serve(h http.Handler, rec *c17Rec, raw string, u *url.URL) {
	rec.reset()
	h.ServeHTTP(rec, c17NewRequest(u, raw))
}

func (w *c17World) rootArg(via string) string {
	switch via {
	case "abs":
		return w.root
	case "abs-slash":
		return w.root + "/"
	case "link":
		return w.rl
	}
	panic(via)
}

// handler builds the handler of a lib or mux case on the current root.
func (w *c17World) handler(c *c17Case) http.Handler {
	switch c.API {
	case "lib":
		opts := []web.StaticOption{web.WithDirectoryListing(c.Listing)}
		if c.Prefix != "" {
			opts = append(opts, web.WithPrefix(c.Prefix))
		}
		s, err := web.NewStaticFileServer(w.rootArg(c.RootVia), opts...)
		c17Must(err)
		return s
	case "mux":
		var dir string
		switch c.RootVia {
		case "rel":
			dir = "root"
		case "abs":
			dir = w.root
		case "link":
			dir = "./rl"
		default:
			panic(c.RootVia)
		}
		module, err := parseSource(fmt.Sprintf("@ static %s %q\n", c.Prefix, dir))
		c17Must(err)
		mux := http.NewServeMux()
		// the CLI installs its router on "/"; here: a catch-all without routes
		mux.HandleFunc("/", func(rw http.ResponseWriter, _ *http.Request) {
			http.Error(rw, "no such route", http.StatusNotFound)
		})
		c17Must(registerStaticRoutes(mux, module, filepath.Join(w.p1, "main.glyph"), 0))
		return mux
	}
	panic(c.API)
}

var c17Helper = web.NewResponseHelper()
var c17SendReqURL = &url.URL{Path: "/download"}

func (w *c17World) sendFileTarget(c *c17Case) string {
	t := c17Decode(c17JoinSegs(c.Segs, c.Trail))
	switch c.Form {
	case "rel":
		return t
	case "abs-in-root":
		return w.root + "/" + t
	case "fixed":
		return filepath.Join(w.p1) + "/" + c.Fixed
	}
	panic(c.Form)
}

// run executes one case on the currently built root and judges it.
func (w *c17World) run(c *c17Case, o *c17Oracle, rec *c17Rec) (kind, detail string, status int, routable bool) {
	if c.API == "sendfile" {
		rec.reset()
		err := c17Helper.SendFile(rec, c17NewRequest(c17SendReqURL, "/download"), w.rootArg(c.RootVia), w.sendFileTarget(c))
		kind, detail = o.judge(rec.status(), rec.buf.Bytes(), err == nil)
		if err != nil {
			return kind, detail, -1, true
		}
		return kind, detail, rec.status(), true
	}
	raw := c.Raw()
	u, err := url.ParseRequestURI(raw)
	if err != nil {
		return "", "", 0, false
	}
	c17Serve(w.handler(c), rec, raw, u)
	kind, detail = o.judge(rec.status(), rec.buf.Bytes(), true)
	return kind, detail, rec.status(), true
}

// ---------------------------------------------------------------- shrinking, keys

var c17Simpler = map[string]string{"%2e%2e": "..", "..%2f": "..", "%2f": "", "%5c": "\\"}
var c17SimplerLink = map[string]string{"out-file-rel": "out-file-abs", "sibling": "out-dir", "sibling-case": "out-dir", "two-hop": "out-dir", "up": "out-dir"}
var c17SimplerIndex = map[string]string{"out-rel": "out-abs"}

// c17Candidates lists strictly simpler variants of a case.
func c17Candidates(c *c17Case) []*c17Case {
	var out []*c17Case
	mod := func(f func(n *c17Case)) {
		n := *c
		n.Layout = c.Layout.clone()
		n.Segs = append([]string{}, c.Segs...)
		f(&n)
		out = append(out, &n)
	}
	// hoist the sub-directory "d" to the top when the request enters it first
	if c.Layout.D != nil && len(c.Segs) > 0 && c.Segs[0] == "d" && c.Form != "glued" && c.Form != "fixed" {
		mod(func(n *c17Case) { n.Layout = n.Layout.D; n.Segs = n.Segs[1:] })
	}
	// remove one entry
	depth := 0
	for d := c.Layout; d != nil; d = d.D {
		k := depth
		at := func(n *c17Case) *c17Dir {
			x := n.Layout
			for i := 0; i < k; i++ {
				x = x.D
			}
			return x
		}
		if d.D != nil {
			mod(func(n *c17Case) { at(n).D = nil })
		}
		if d.F {
			mod(func(n *c17Case) { at(n).F = false })
		}
		if d.L != "" {
			mod(func(n *c17Case) { at(n).L = "" })
			if s, ok := c17SimplerLink[d.L]; ok {
				mod(func(n *c17Case) { at(n).L = s })
			}
		}
		if d.I != "" {
			mod(func(n *c17Case) { at(n).I = "" })
			if s, ok := c17SimplerIndex[d.I]; ok {
				mod(func(n *c17Case) { at(n).I = s })
			}
		}
		depth++
	}
	// simpler request
	for i := range c.Segs {
		i := i
		mod(func(n *c17Case) { n.Segs = append(n.Segs[:i:i], n.Segs[i+1:]...) })
		if s, ok := c17Simpler[c.Segs[i]]; ok {
			mod(func(n *c17Case) { n.Segs[i] = s })
		}
	}
	for i := 0; i+1 < len(c.Segs); i++ {
		i := i
		mod(func(n *c17Case) { n.Segs = append(n.Segs[:i:i], n.Segs[i+2:]...) })
	}
	if c.Trail {
		mod(func(n *c17Case) { n.Trail = false })
	}
	// simpler configuration
	if c.API == "mux" {
		mod(func(n *c17Case) {
			n.API = "lib"
			if n.RootVia == "rel" {
				n.RootVia = "abs"
			}
		})
	}
	if c.API == "lib" {
		if c.Prefix != "" {
			mod(func(n *c17Case) {
				n.Prefix = ""
				if n.Form == "prefix-only" {
					n.Form, n.Segs, n.Trail = "mounted", nil, false
				}
			})
		}
		if c.Listing {
			mod(func(n *c17Case) { n.Listing = false })
		}
	}
	if c.API != "sendfile" && (c.Form == "glued" || c.Form == "bare") {
		mod(func(n *c17Case) { n.Form = "mounted" })
	}
	if c.API == "sendfile" && c.Form == "abs-in-root" {
		mod(func(n *c17Case) { n.Form = "rel" })
	}
	if c.RootVia != "abs" && c.RootVia != "rel" {
		mod(func(n *c17Case) { n.RootVia = "abs" })
	}
	return out
}

// c17RunFresh builds the layout of the case in world w and runs it.
func c17RunFresh(w *c17World, c *c17Case) (kind, detail string) {
	w.Build(c.Layout)
	var rec c17Rec
	kind, detail, _, _ = w.run(c, c17BuildOracle(w.root), &rec)
	return
}

// c17Shrink greedily simplifies a failing case while the same kind of failure persists.
func c17Shrink(w *c17World, c *c17Case, kind string) (*c17Case, string) {
	_, detail := c17RunFresh(w, c)
	for changed := true; changed; {
		changed = false
		for _, n := range c17Candidates(c) {
			if k, d := c17RunFresh(w, n); k == kind {
				c, detail, changed = n, d, true
				break
			}
		}
	}
	return c, detail
}

func c17Key(c *c17Case, kind string) string {
	api := map[string]string{"lib": "ServeHTTP", "mux": "registerStaticRoutes", "sendfile": "SendFile"}[c.API]
	req := c.String()
	if c.API != "sendfile" {
		req = c.Form + ":" + c.Raw()
		if c.Prefix != "" {
			req = "prefix=" + c.Prefix + "," + req
		}
		if c.Listing {
			req = "listing," + req
		}
		if c.RootVia != "abs" && c.RootVia != "rel" {
			req = "root=" + c.RootVia + "," + req
		}
	}
	return strings.ReplaceAll(kind+"/"+api+"/"+c.Layout.String()+"/"+req, " ", ",")
}

// c17Trace abstracts how a decoded request path walks the layout model; it is
// only used to group failing cases before shrinking (never by the oracle).
func c17Trace(l *c17Dir, decoded string) string {
	var out []string
	cur := l
	for _, s := range strings.Split(strings.Trim(path.Clean("/"+decoded), "/"), "/") {
		if s == "" {
			continue
		}
		if cur == nil {
			out = append(out, "+")
			continue
		}
		switch s {
		case "f":
			out = append(out, fmt.Sprintf("f:%v", cur.F))
			cur = nil
		case "d":
			if cur.D == nil {
				out = append(out, "d:false")
			} else {
				out = append(out, "d")
			}
			cur = cur.D
		case "l":
			out = append(out, "l="+cur.L)
			cur = nil
		case "index.html":
			out = append(out, "i="+cur.I)
			cur = nil
		default:
			out = append(out, "other")
			cur = nil
		}
	}
	if cur != nil {
		out = append(out, "[i="+cur.I+"]")
	}
	return strings.Join(out, "/")
}

// ---------------------------------------------------------------- enumeration

type c17Path struct {
	segs    []string
	trail   bool
	x       string // joined
	decoded string
}

// c17Paths: every sequence of minSegs..maxSegs alphabet symbols, with and
// without a trailing slash.
func c17Paths(minSegs, maxSegs int) []c17Path {
	var out []c17Path
	var rec func(segs []string)
	rec = func(segs []string) {
		for _, tr := range []bool{false, true} {
			if len(segs) < minSegs {
				break
			}
			s := append([]string{}, segs...)
			x := c17JoinSegs(s, tr)
			out = append(out, c17Path{segs: s, trail: tr, x: x, decoded: c17Decode(x)})
		}
		if len(segs) == maxSegs {
			return
		}
		for _, a := range c17Alphabet {
			rec(append(segs, a))
		}
	}
	rec(nil)
	return out
}

type c17Cfg struct {
	api, prefix, rootVia string
	listing              bool
}

type c17PreReq struct {
	pi   int // index into paths (-1: prefix-only)
	form string
	raw  string
	u    *url.URL // nil: not a valid request-URI
}

// c17Configs: all = mount prefix x listing; otherwise each prefix with one
// listing setting (alternating).  The sweep uses the reduced set (the code
// under test has no interplay between prefix and listing).
func c17Configs(all bool) []c17Cfg {
	var cfgs []c17Cfg
	for i, pre := range []string{"", "/s", "/s/", "/static/x"} {
		for _, ls := range []bool{false, true} {
			if all || ls == (i%2 == 1) {
				cfgs = append(cfgs, c17Cfg{api: "lib", prefix: pre, rootVia: "abs", listing: ls})
			}
		}
	}
	cfgs = append(cfgs, c17Cfg{api: "lib", prefix: "/s", rootVia: "link", listing: true})
	cfgs = append(cfgs,
		c17Cfg{api: "mux", prefix: "/s", rootVia: "rel"},
		c17Cfg{api: "mux", prefix: "/s/", rootVia: "abs"},
		c17Cfg{api: "mux", prefix: "/static/x", rootVia: "link"})
	return cfgs
}

func c17Requests(cfg c17Cfg, paths []c17Path, sideSegs int, first bool) []c17PreReq {
	var out []c17PreReq
	add := func(pi int, form string, c *c17Case) {
		raw := c.Raw()
		u, err := url.ParseRequestURI(raw)
		if err != nil {
			u = nil
		}
		out = append(out, c17PreReq{pi: pi, form: form, raw: raw, u: u})
	}
	p0 := strings.TrimSuffix(cfg.prefix, "/")
	if p0 != "" && first {
		add(-1, "prefix-only", &c17Case{Prefix: cfg.prefix, Form: "prefix-only"})
	}
	for pi, p := range paths {
		add(pi, "mounted", &c17Case{Prefix: cfg.prefix, Form: "mounted", Segs: p.segs, Trail: p.trail})
		if p0 != "" && len(p.segs) >= 1 && len(p.segs) <= sideSegs {
			add(pi, "glued", &c17Case{Prefix: cfg.prefix, Form: "glued", Segs: p.segs, Trail: p.trail})
			add(pi, "bare", &c17Case{Prefix: cfg.prefix, Form: "bare", Segs: p.segs, Trail: p.trail})
		}
	}
	return out
}

var c17FixedTargets = []string{
	"outside/secret.txt", "f", "root-evil/f", "root-evil/l", "rl/../outside/secret.txt", "root/../f",
	"root/zin/hop/secret.txt", "root/zin/t.txt", "rl/zin/t.txt", "root-evil", "outside/d/f", "ROOT/f", "root/../ROOT/d/f",
}

type c17Replay struct {
	Case   c17Case    `json:"case"`
	Kind   string     `json:"kind"`
	Relink *c17Relink `json:"relink,omitempty"` // a two-request history with a re-link in between (c17_relink_test.go)
}

func TestVerif_C17(t *testing.T) {
	log.SetOutput(io.Discard)
	color.Output = io.Discard
	color.NoColor = true
	p := vk.Env()
	res := vk.NewResult("every directory tree with at most N entries over the slots f (regular file), l (11 kinds of symbolic link: to files/directories inside and outside, relative and absolute, the siblings root-evil and ROOT, two-hop, '..', '.', dangling), index.html (6 kinds: file, link outside abs/rel, link inside, directory, dangling), d (real sub-directory, recursively) is built for real; on each tree every request path of at most K segments over a 14-symbol alphabet, with and without trailing slash, is sent (a) to web.StaticFileServer.ServeHTTP under 4 mount prefixes x listing on/off (+ root named through a symlink), as prefix+/+path, and for short paths also glued to the prefix and without the prefix, (b) through the mux that cmd/glyph registerStaticRoutes builds from a parsed '@ static' directive, (c) as target of web.ResponseHelper.SendFile (relative, absolute under the root, fixed absolute targets outside; root named absolutely, with trailing slash, through a symlink). A case is (tree, configuration, request); it is non-trivial if the kernel resolves <root>/<decoded path> to an existing object or the response is not a 404/refusal")

	if p.Replay != "" {
		var rp c17Replay
		if err := vk.LoadReplay(p.Replay, &rp); err != nil {
			t.Fatal(err)
		}
		w := c17NewWorld()
		defer w.Close()
		if rp.Relink != nil {
			r := *rp.Relink
			ok := false
			c17RelinkRun(w, r.Layout, [2]string{r.Replace, r.With}, r.API, r.Prefix, r.Listing, r.Path, func(q c17Relink, kind, detail string) {
				if q.Replace == r.Replace && !ok {
					ok = true
					fmt.Printf("replay %s -> %s %s\n", q, kind, detail)
					res.Violate(c17RelinkKey(q, kind), q.String()+": "+detail, rp)
				}
			})
			res.Replayed = &ok
			res.Write(p)
			return
		}
		kind, detail := c17RunFresh(w, &rp.Case)
		fmt.Printf("replay %s on %s -> %q %s\n", rp.Case.String(), rp.Case.Layout, kind, detail)
		ok := kind != ""
		if ok {
			res.Violate(c17Key(&rp.Case, kind), fmt.Sprintf("layout %s: %s: %s", rp.Case.Layout, rp.Case.String(), detail), rp)
		}
		res.Replayed = &ok
		res.Write(p)
		return
	}

	// bounds.  The sweep is a sequence of passes; pass i runs every tree with at
	// most passEntries[i] entries against every request path whose number of
	// segments lies in passSegs[i] (so short paths meet all trees first, the
	// longest paths meet the small trees last).
	passEntries, passSegs := []int{3, 1}, [][2]int{{0, 2}, {3, 3}}
	sideSegs := 2 // glued / prefix-less request forms for paths of 1..sideSegs segments
	if p.Thorough {
		passEntries, passSegs = []int{4, 3}, [][2]int{{0, 2}, {3, 3}}
	}
	res.Bounds["pass_max_entries"] = passEntries
	res.Bounds["pass_path_segments"] = passSegs
	res.Bounds["segments_glued_or_unprefixed"] = sideSegs
	res.Bounds["alphabet"] = c17Alphabet
	res.Bounds["link_kinds"] = c17LinkKinds
	res.Bounds["index_kinds"] = c17IndexKinds

	type reqSet struct {
		layouts   []*c17Dir
		first     bool // the pass that contains the empty path: also prefix-only requests and the fixed SendFile targets
		paths     []c17Path
		cfgs      []c17Cfg
		reqs      [][]c17PreReq // per cfg
		send      []int         // indexes into paths with distinct decoded targets
		sendRoots []string
	}
	var sets []*reqSet
	var npaths, ncfgs, nlayouts []int
	var ncases []int64
	for i, sg := range passSegs {
		rs := &reqSet{first: sg[0] == 0, paths: c17Paths(sg[0], sg[1]), cfgs: c17Configs(false), sendRoots: []string{"abs", "link"}}
		if sg[1] < 3 {
			rs.sendRoots = []string{"abs", "abs-slash", "link"}
		}
		for n := 0; n <= passEntries[i]; n++ {
			rs.layouts = append(rs.layouts, c17Gen(n)...)
		}
		for _, cfg := range rs.cfgs {
			rs.reqs = append(rs.reqs, c17Requests(cfg, rs.paths, sideSegs, rs.first))
		}
		seen := map[string]bool{}
		for i, pp := range rs.paths {
			if !seen[pp.decoded] {
				seen[pp.decoded] = true
				rs.send = append(rs.send, i)
			}
		}
		sets = append(sets, rs)
		per := len(rs.sendRoots) * 2 * len(rs.send)
		if rs.first {
			per += len(rs.sendRoots) * len(c17FixedTargets)
		}
		for _, rq := range rs.reqs {
			per += len(rq)
		}
		ncases = append(ncases, int64(per)*int64(len(rs.layouts)))
		npaths = append(npaths, len(rs.paths))
		ncfgs = append(ncfgs, len(rs.cfgs))
		nlayouts = append(nlayouts, len(rs.layouts))
	}
	res.Bounds["pass_paths"] = npaths
	res.Bounds["pass_http_configurations"] = ncfgs
	res.Bounds["pass_layouts"] = nlayouts
	res.Bounds["pass_cases"] = ncases

	w := c17NewWorld()
	defer w.Close()
	var w2 *c17World // second world for shrinking (the first keeps the layout under test)
	defer func() {
		if w2 != nil {
			w2.Close()
		}
	}()

	preSeen := map[string]bool{}
	shrinks := 0
	var rec c17Rec

	report := func(c *c17Case, kind, detail, decoded string) {
		res.Count("failing_cases", 1)
		// group before shrinking: failure kind, entry point, request form and how
		// the request walks the layout (leading real sub-directories dropped)
		tr := c17Trace(c.Layout, decoded)
		for strings.HasPrefix(tr, "d/") {
			tr = tr[2:]
		}
		pre := strings.Join([]string{kind, c.API, c.Form, c.Fixed, tr}, "|")
		if preSeen[pre] {
			return
		}
		preSeen[pre] = true
		cc := *c
		cc.Layout = c.Layout.clone()
		cc.Segs = append([]string{}, c.Segs...)
		if shrinks < 400 {
			shrinks++
			if w2 == nil {
				w2 = c17NewWorld()
			}
			if k, _ := c17RunFresh(w2, &cc); k != kind {
				res.Note("case %s on %s failed (%s) in the sweep but gave %q when re-run alone", cc.String(), cc.Layout, kind, k)
			} else {
				m, d := c17Shrink(w2, &cc, kind)
				cc, detail = *m, d
			}
		}
		res.Violate(c17Key(&cc, kind), fmt.Sprintf("layout %s: %s: %s", cc.Layout, cc.String(), detail), c17Replay{Case: cc, Kind: kind})
	}

	maxPaths := 0
	for _, rs := range sets {
		if len(rs.paths) > maxPaths {
			maxPaths = len(rs.paths)
		}
	}
	classes := make([]bool, maxPaths)
	type workItem struct {
		rs *reqSet
		l  *c17Dir
	}
	var items []workItem
	for _, rs := range sets {
		for _, l := range rs.layouts {
			items = append(items, workItem{rs, l})
		}
	}
	for ii, it := range items {
		if !p.Mine(ii) {
			continue
		}
		if p.Expired() {
			res.Exhaustive = false
			break
		}
		rs, l := it.rs, it.l
		w.Build(l)
		orc := c17BuildOracle(w.root)
		res.States++
		// independent classification, for the statistics only
		outsideTargets := int64(0)
		for i, pp := range rs.paths {
			classes[i] = false
			if strings.IndexByte(pp.decoded, 0) >= 0 {
				continue
			}
			fp := w.root + "/" + pp.decoded
			if _, err := os.Stat(fp); err == nil {
				classes[i] = true
				if rp, err := filepath.EvalSymlinks(fp); err == nil && rp != w.root && !strings.HasPrefix(rp, w.root+"/") {
					outsideTargets++
				}
			}
		}
		res.Count("paths_whose_kernel_resolution_is_outside_the_root", outsideTargets)

		for ci, cfg := range rs.cfgs {
			base := c17Case{Layout: l, API: cfg.api, Prefix: cfg.prefix, Listing: cfg.listing, RootVia: cfg.rootVia}
			h := w.handler(&base)
			for _, rq := range rs.reqs[ci] {
				res.Evaluations++
				if rq.u == nil {
					res.Count("not_a_valid_request_uri", 1)
					continue
				}
				c17Serve(h, &rec, rq.raw, rq.u)
				st := rec.status()
				switch st {
				case 200:
					res.Count("status_200", 1)
				case 403:
					res.Count("status_403", 1)
				case 404:
					res.Count("status_404", 1)
				case 301, 307, 308:
					res.Count("status_redirect", 1)
				default:
					res.Count("status_other", 1)
				}
				if (rq.pi >= 0 && classes[rq.pi]) || st != 404 {
					res.Distinct++
				}
				if kind, detail := orc.judge(st, rec.buf.Bytes(), true); kind != "" {
					c := base
					c.Form = rq.form
					dec := ""
					if rq.pi >= 0 {
						c.Segs, c.Trail = rs.paths[rq.pi].segs, rs.paths[rq.pi].trail
						dec = rs.paths[rq.pi].decoded
					}
					report(&c, kind, detail, dec)
				} else if st == 200 && res.Evaluations%50021 == 0 {
					res.Sample(6, map[string]any{"layout": l.String(), "config": fmt.Sprintf("%+v", cfg), "request": rq.raw, "status": st, "body": rec.buf.String()})
				}
			}
		}

		// SendFile
		for _, via := range rs.sendRoots {
			rootArg := w.rootArg(via)
			for _, form := range []string{"rel", "abs-in-root", "fixed"} {
				n := len(rs.send)
				if form == "fixed" {
					n = len(c17FixedTargets)
					if !rs.first {
						n = 0
					}
				}
				for k := 0; k < n; k++ {
					c := c17Case{Layout: l, API: "sendfile", RootVia: via, Form: form}
					dec := ""
					if form == "fixed" {
						c.Fixed = c17FixedTargets[k]
					} else {
						pp := rs.paths[rs.send[k]]
						c.Segs, c.Trail, dec = pp.segs, pp.trail, pp.decoded
					}
					res.Evaluations++
					rec.reset()
					err := c17Helper.SendFile(&rec, c17NewRequest(c17SendReqURL, "/download"), rootArg, w.sendFileTarget(&c))
					if err == nil {
						res.Count("sendfile_served", 1)
						res.Distinct++
					} else {
						res.Count("sendfile_refused", 1)
						if form != "fixed" && classes[rs.send[k]] {
							res.Distinct++
						}
					}
					if kind, detail := orc.judge(rec.status(), rec.buf.Bytes(), err == nil); kind != "" {
						report(&c, kind, detail, dec)
					}
				}
			}
		}
	}
	res.Count("shrinks", int64(shrinks))
	c17RelinkPart(p, res, w, len(items))
	res.Write(p)
}
