package main

// C17, re-link histories: one server instance answers a request, then a regular file or a directory under the root
// is replaced by a symbolic link that leaves the root (an upload/deploy step, a hostile co-tenant), and the same
// request arrives again.  Whatever the server remembered from the first answer (a resolved path, an open handle, a
// cached verdict) must not make the second answer leave the root.  Every layout of the small family x every
// replaceable entry x every server configuration x every request path is run as such a two-step history on ONE handler.

import (
	"fmt"
	"net/url"
	"os"
	"path/filepath"
	"strings"

	"github.com/glyphlang/glyph/internal/verif/vk"
)

type c17Relink struct {
	Layout  *c17Dir `json:"layout"`
	Replace string  `json:"replace"` // entry (relative to the root) replaced after the first round
	With    string  `json:"with"`    // "out-file" | "out-dir"
	API     string  `json:"api"`
	Prefix  string  `json:"prefix"`
	Listing bool    `json:"listing,omitempty"`
	Path    string  `json:"path"` // raw request path of the reported request
}

func (r c17Relink) String() string {
	return fmt.Sprintf("layout %s, %s(prefix=%q, listing=%v): GET %q answered, then %q replaced by a link to %s, then GET %q again", r.Layout, r.API, r.Prefix, r.Listing, r.Path, r.Replace, r.With, r.Path)
}

func c17RelinkLayouts() []*c17Dir {
	return []*c17Dir{
		{F: true},
		{I: "file"},
		{F: true, I: "file"},
		{D: &c17Dir{F: true}},
		{D: &c17Dir{I: "file"}},
		{F: true, D: &c17Dir{F: true, I: "file"}},
	}
}

// replaceable entries of a layout: regular files and directories
func c17Replaceable(l *c17Dir, prefix string) (out [][2]string) {
	if l.F {
		out = append(out, [2]string{prefix + "f", "out-file"})
	}
	if l.I == "file" {
		out = append(out, [2]string{prefix + "index.html", "out-file"})
	}
	if l.D != nil {
		out = append(out, [2]string{prefix + "d", "out-dir"})
		out = append(out, c17Replaceable(l.D, prefix+"d/")...)
	}
	return
}

func c17RelinkPaths() []string {
	segs := []string{"f", "d", "index.html"}
	var out []string
	out = append(out, "", "/")
	for _, a := range segs {
		out = append(out, "/"+a, "/"+a+"/")
		for _, b := range segs {
			out = append(out, "/"+a+"/"+b, "/"+a+"/"+b+"/")
		}
	}
	return out
}

// c17RelinkRun runs one history family member; report is called for every failing second-round request.
func c17RelinkRun(w *c17World, l *c17Dir, rep [2]string, api, prefix string, listing bool, only string, report func(r c17Relink, kind, detail string)) (n int) {
	w.Build(l)
	c := c17Case{Layout: l, API: api, Prefix: prefix, Listing: listing, RootVia: "abs"}
	if api == "mux" {
		c.RootVia = "abs"
	}
	h := w.handler(&c)
	var rec c17Rec
	paths := c17RelinkPaths()
	serve := func(p string) (int, []byte, bool) {
		raw := strings.TrimSuffix(prefix, "/") + p
		if raw == "" {
			raw = "/"
		}
		u, err := url.ParseRequestURI(raw)
		if err != nil {
			return 0, nil, false
		}
		c17Serve(h, &rec, raw, u)
		return rec.status(), append([]byte{}, rec.buf.Bytes()...), true
	}
	orc := c17BuildOracle(w.root)
	for _, p := range paths {
		if only != "" && p != only {
			continue
		}
		if st, body, ok := serve(p); ok {
			n++
			if kind, detail := orc.judge(st, body, true); kind != "" {
				report(c17Relink{l, "", "", api, prefix, listing, p}, kind, "first round: "+detail)
			}
		}
	}
	// replace the entry
	target := filepath.Join(w.root, filepath.FromSlash(rep[0]))
	c17Must(os.RemoveAll(target))
	if rep[1] == "out-file" {
		c17Must(os.Symlink(filepath.Join(w.outside, "secret.txt"), target))
	} else {
		c17Must(os.Symlink(w.outside, target))
	}
	orc = c17BuildOracle(w.root)
	for _, p := range paths {
		if only != "" && p != only {
			continue
		}
		if st, body, ok := serve(p); ok {
			n++
			if kind, detail := orc.judge(st, body, true); kind != "" {
				report(c17Relink{l, rep[0], rep[1], api, prefix, listing, p}, kind, detail)
			}
		}
	}
	return n
}

func c17RelinkKey(r c17Relink, kind string) string {
	return strings.ReplaceAll(fmt.Sprintf("%s-after-relink/%s/%s/%s->%s/%s", kind, r.API, r.Layout, r.Replace, r.With, r.Path), " ", ",")
}

func c17RelinkPart(p vk.Params, res *vk.Result, w *c17World, base int) {
	type cfg struct {
		api, prefix string
		listing     bool
	}
	cfgs := []cfg{{"lib", "", false}, {"lib", "", true}, {"lib", "/s", false}, {"lib", "/s/", true}, {"mux", "/s", false}}
	i := base
	seen := map[string]bool{}
	histories := 0
	for _, l := range c17RelinkLayouts() {
		for _, rep := range c17Replaceable(l, "") {
			for _, cf := range cfgs {
				i++
				if !p.Mine(i) {
					continue
				}
				histories++
				n := c17RelinkRun(w, l, rep, cf.api, cf.prefix, cf.listing, "", func(r c17Relink, kind, detail string) {
					key := c17RelinkKey(r, kind)
					if !seen[key] {
						seen[key] = true
						res.Violate(key, r.String()+": "+detail, c17Replay{Kind: kind, Relink: &r})
					}
				})
				res.Evaluations += int64(n)
			}
		}
	}
	res.Count("relink_histories", int64(histories))
}
