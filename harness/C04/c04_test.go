package main

// Verification harness for C04 (faults in user programs are contained).
// Injected into cmd/glyph (package main) so that the handler chain is the one
// the CLI builds: parseSource -> setupRoutes -> createHandler.
//
// Architecture.  Every shard process is a *supervisor*; the cases are executed
// by a disposable *worker* (the same test binary re-executed with C04_WORKER=1).
// Before every step of every case the worker writes "<case index> <step>" to a
// progress file.  The supervisor polls that file together with the worker's CPU
// time, state and resident set (/proc):
//   - the worker dies (fatal error, panic on a goroutine the program started):
//     the death is attributed to the case in the progress file  -> "crash";
//   - one step consumes more CPU than the watchdog allows, or stays blocked
//     without consuming CPU -> the worker is killed              -> "hang";
//   - the resident set exceeds the cap -> killed                  -> "memory".
// In each case the supervisor records the finding and starts a fresh worker
// behind the failed step, so a spinning goroutine (which Go cannot kill) never
// outlives its case and never takes the shard with it.
//
// Steps of a case: parse; interpreter at engine level (cmd/glyph executeRoute
// -> Interpreter.ExecuteRoute); interpreter through setupRoutes(force
// interpreter)+createHandler with an httptest recorder; VM at engine level
// (CompileRoute + VM.Execute); compiled mode through setupRoutes+createHandler.

import (
	"bytes"
	"encoding/json"
	"fmt"
	"io"
	"log"
	"net/http"
	"net/http/httptest"
	"net/url"
	"os"
	"os/exec"
	"path/filepath"
	"reflect"
	"regexp"
	"runtime"
	"runtime/debug"
	"sort"
	"strconv"
	"strings"
	"syscall"
	"testing"
	"time"
	"unsafe"

	"github.com/fatih/color"
	"github.com/glyphlang/glyph/internal/verif/vk"
	"github.com/glyphlang/glyph/pkg/ast"
	"github.com/glyphlang/glyph/pkg/compiler"
	"github.com/glyphlang/glyph/pkg/interpreter"
	"github.com/glyphlang/glyph/pkg/server"
	"github.com/glyphlang/glyph/pkg/vm"
	"github.com/glyphlang/glyph/pkg/websocket"
)

// ---------------------------------------------------------------- cases

type c04Req struct {
	Method  string `json:"method,omitempty"` // default GET
	Target  string `json:"target,omitempty"` // default /t
	CT      string `json:"ct,omitempty"`     // Content-Type header ("" = none)
	Body    string `json:"body,omitempty"`
	BodyGen string `json:"body_gen,omitempty"` // generated body, see c04GenBody
	HasBody bool   `json:"has_body,omitempty"`
}

type c04Case struct {
	ID      string   `json:"id"`
	Layer   string   `json:"layer"`
	Decls   []string `json:"decls,omitempty"`  // module-level items
	Header  string   `json:"header,omitempty"` // route header, default "@ GET /t"
	Inj     []string `json:"inj,omitempty"`    // injection / declaration lines at the top of the route
	Body    []string `json:"body,omitempty"`   // statements
	SrcGen  string   `json:"src_gen,omitempty"`
	Req     c04Req   `json:"req"`
	NonTerm bool     `json:"nonterm,omitempty"` // by the language definition the program cannot complete (documentation; not judged)
	NoVMRaw bool     `json:"no_vm_raw,omitempty"`
	SkipVM  bool     `json:"skip_vm,omitempty"` // compiled mode not run for this case (quick tier, see c04LoopLayer)
	Group   string   `json:"group,omitempty"`   // root-cause tag used in hang/memory keys
	Lambda  string   `json:"lambda,omitempty"`
	Async   bool     `json:"async,omitempty"`
	Wedge   bool     `json:"wedge,omitempty"` // the request is repeated c04WedgeRepeats times on one runtime before the probes
	Repeats int      `json:"repeats,omitempty"` // wedge: number of repetitions if not c04WedgeRepeats
}

const c04ProbePath = "/zzprobe"

func (c *c04Case) routeText(path string) string {
	var b strings.Builder
	h := c.Header
	if h == "" {
		h = "@ GET /t"
	}
	if path != "/t" {
		h = strings.Replace(h, " /t", " "+path, 1)
	}
	b.WriteString(h + " {\n")
	for _, l := range c.Inj {
		b.WriteString("  " + l + "\n")
	}
	body := c.Body
	if c.SrcGen != "" {
		body = c04GenSrc(c.SrcGen)
	}
	for _, l := range body {
		b.WriteString("  " + l + "\n")
	}
	b.WriteString("}\n")
	return b.String()
}

const c04ProbeRoute = "@ GET " + c04ProbePath + " {\n  > 7\n}\n"

func (c *c04Case) source() string {
	if c.Wedge {
		return strings.Join(c.Decls, "\n") + "\n" + c.routeText("/t") + c04ProbeRoute + "@ GET /zzdeep/:n {\n  > zzdown(parseInt(n))\n}\n"
	}
	return strings.Join(c.Decls, "\n") + "\n" + c.routeText("/t") + c04ProbeRoute
}

// one module for several cases that share their declarations: case i is served at /t<i>
func c04BatchSource(cs []*c04Case) string {
	var b strings.Builder
	b.WriteString(strings.Join(cs[0].Decls, "\n") + "\n")
	for i, c := range cs {
		b.WriteString(c.routeText(fmt.Sprintf("/t%d", i)))
	}
	b.WriteString(c04ProbeRoute)
	return b.String()
}

func (c *c04Case) signature() string { return strings.Join(c.Decls, "\n") }

// cases that may share a module and a runtime with their neighbours
func (c *c04Case) batchable() bool {
	if c.Async || c.Lambda != "" || c.SrcGen != "" || c.NonTerm || c.NoVMRaw {
		return false
	}
	switch c.Layer {
	case "deep", "loops", "async", "providers", "cyclic", "wedge":
		return false
	}
	for _, l := range c.Inj {
		if strings.HasPrefix(l, "%") {
			return false
		}
	}
	t := c.Req.Target
	return t == "" || t == "/t" || strings.HasPrefix(t, "/t?")
}

// short printable program (generated sources are shown by their spec)
func (c *c04Case) show() string {
	if c.SrcGen != "" {
		return "<generated " + c.SrcGen + ">"
	}
	parts := append(append(append([]string{}, c.Decls...), c.Inj...), c.Body...)
	s := strings.Join(parts, " ; ")
	if c.Header != "" {
		s = c.Header + " { " + s + " }"
	}
	if c.Lambda != "" {
		s += "  [LAMBDA = " + c.Lambda + "]"
	}
	if len(s) > 300 {
		s = s[:300] + "…"
	}
	return s
}

func (r c04Req) show() string {
	m := r.Method
	if m == "" {
		m = "GET"
	}
	t := r.Target
	if t == "" {
		t = "/t"
	}
	s := m + " " + t
	if len(s) > 120 {
		s = s[:120] + "…"
	}
	if r.CT != "" {
		ct := r.CT
		if len(ct) > 60 {
			ct = ct[:60] + "…"
		}
		s += " Content-Type=" + strconv.Quote(ct)
	}
	if r.BodyGen != "" {
		s += " body=<" + r.BodyGen + ">"
	} else if r.HasBody {
		b := r.Body
		if len(b) > 80 {
			b = b[:80] + "…"
		}
		s += " body=" + strconv.Quote(b)
	}
	return s
}

// build the request; ok=false when the target is not a valid request-URI
// (net/http never hands such a request to a handler).  path replaces the
// leading "/t" of the target (batched modules use /t<i>).
func (r c04Req) build(path string) (*http.Request, bool) {
	m := r.Method
	if m == "" {
		m = "GET"
	}
	t := r.Target
	if t == "" {
		t = "/t"
	}
	if path != "" && path != "/t" {
		t = path + strings.TrimPrefix(t, "/t")
	}
	u, err := url.ParseRequestURI(t)
	if err != nil {
		return nil, false
	}
	req := &http.Request{Method: m, URL: u, Proto: "HTTP/1.1", ProtoMajor: 1, ProtoMinor: 1, Header: http.Header{},
		Host: "example.com", RemoteAddr: "192.0.2.1:1234", RequestURI: t, Body: http.NoBody}
	if r.BodyGen != "" {
		b := c04GenBody(r.BodyGen)
		req.Body = io.NopCloser(bytes.NewReader(b))
		req.ContentLength = int64(len(b))
	} else if r.HasBody {
		req.Body = io.NopCloser(strings.NewReader(r.Body))
		req.ContentLength = int64(len(r.Body))
	}
	if r.CT != "" {
		req.Header.Set("Content-Type", r.CT)
	}
	return req, true
}

func c04ProbeRequest() *http.Request {
	u, _ := url.ParseRequestURI(c04ProbePath)
	return &http.Request{Method: "GET", URL: u, Proto: "HTTP/1.1", ProtoMajor: 1, ProtoMinor: 1, Header: http.Header{},
		Host: "example.com", RemoteAddr: "192.0.2.1:1234", RequestURI: c04ProbePath, Body: http.NoBody}
}

// ---------------------------------------------------------------- steps

const (
	c04StepParse = iota
	c04StepInterpEngine
	c04StepInterpHTTP
	c04StepVMEngine
	c04StepVMHTTP
	c04StepEnd
)

var c04StepNames = []string{"parse", "interpreter/engine", "interpreter/http", "vm/engine", "vm/http", "end"}

func c04StepEngine(step int) string {
	switch step {
	case c04StepInterpEngine, c04StepInterpHTTP:
		return "interp"
	case c04StepVMEngine, c04StepVMHTTP:
		return "vm"
	}
	return "front"
}

type c04Finding struct {
	Kind  string    `json:"kind"`
	Key   string    `json:"key"`
	Desc  string    `json:"desc"`
	Step  int       `json:"step"`
	Case  c04Case   `json:"case"`
	Batch []c04Case `json:"batch,omitempty"` // the sequence of cases one runtime served, when the finding needs it
}

type c04Replay struct {
	Case  c04Case   `json:"case"`
	Batch []c04Case `json:"batch,omitempty"`
	Step  int       `json:"step"`
	Key   string    `json:"key"`
}

// engine-level outcome
type c04Eval struct {
	Ran    bool
	Failed bool   // evaluation ended in an error
	Err    string // error text
	Status int    // interpreter: status of the response object
}

var c04LeakCore = []string{"runtime error", "goroutine ", ".go:", "/repo/", "reflect:", "reflect.Value", "interface {}",
	"map[string]interface", "[]interface", "invalid memory address", "nil pointer dereference", "index out of range",
	"slice bounds out of range", "panic:", "runtime."}

// additional Go error text that must not appear in an error (non-2xx) body
var c04LeakErr = []string{"strconv.", "%!", "*errors.", "*fmt.", "json: ", "*ast.", "ast.", "*interpreter.", "*vm.", "vm.", "<nil>", "0xc0"}

func c04LeakPatterns(status int) []string {
	pats := append([]string{}, c04LeakCore...)
	if rd := os.Getenv("VERIF_REPO"); rd != "" && rd != "/repo" {
		pats = append(pats, rd+"/")
	}
	if status >= 400 {
		pats = append(pats, c04LeakErr...)
	}
	return pats
}

func c04Leaks(status int, body string) string {
	for _, p := range c04LeakPatterns(status) {
		if strings.Contains(body, p) {
			return p
		}
	}
	return ""
}

func c04Protect(f func()) (pv any, stack string) {
	defer func() {
		if r := recover(); r != nil {
			pv = r
			stack = string(debug.Stack())
		}
	}()
	f()
	return
}

var c04DigitsRe = regexp.MustCompile(`-?[0-9]+`)

func c04PanicClass(msg string) string {
	known := []string{
		"runtime error: comparing uncomparable type", "runtime error: hash of unhashable type",
		"runtime error: index out of range", "runtime error: slice bounds out of range",
		"runtime error: invalid memory address or nil pointer dereference", "runtime error: integer divide by zero",
		"runtime error: makeslice", "runtime error: growslice", "interface conversion",
		"reflect: Call using zero Value argument", "reflect: Call using", "reflect: Call with too", "reflect:",
		"assignment to entry in nil map", "invalid argument to Int", "stack overflow", "out of memory",
		"concurrent map", "all goroutines are asleep", "send on closed channel", "close of closed channel",
	}
	for _, k := range known {
		if strings.Contains(msg, k) {
			return k
		}
	}
	m := c04DigitsRe.ReplaceAllString(msg, "N")
	if len(m) > 70 {
		m = m[:70]
	}
	return m
}

const c04ModPrefix = "github.com/glyphlang/glyph/"

// innermost repository function on a panicking stack (debug.Stack or crash dump text)
func c04RepoFrame(stack string) string {
	lines := strings.Split(stack, "\n")
	start := 0
	for i, l := range lines {
		if strings.HasPrefix(l, "panic(") || strings.HasPrefix(l, "runtime.throw") || strings.HasPrefix(l, "runtime.fatalpanic") {
			start = i
			break
		}
	}
	for _, l := range lines[start:] {
		if !strings.HasPrefix(l, c04ModPrefix) {
			continue
		}
		if strings.Contains(l, ".c04") || strings.Contains(l, "TestVerif_C04") || strings.Contains(l, "internal/verif") {
			continue
		}
		f := strings.TrimPrefix(l, c04ModPrefix)
		if i := strings.LastIndex(f, "("); i > 0 {
			f = f[:i]
		}
		// closures: keep the enclosing function
		for strings.HasSuffix(f, ".func1") || regexp.MustCompile(`\.func[0-9]+(\.[0-9]+)*$`).MatchString(f) {
			f = regexp.MustCompile(`\.func[0-9]+(\.[0-9]+)*$`).ReplaceAllString(f, "")
		}
		f = strings.TrimSuffix(f, "[...]")
		return f
	}
	return "outside-repo"
}

func c04ErrClass(err string) string {
	switch {
	case strings.Contains(err, "return type mismatch"):
		return "return-type-mismatch"
	case strings.Contains(err, "input validation"), strings.Contains(err, "applying defaults"):
		return "input-validation"
	case strings.Contains(err, "query param"):
		return "query-parameter"
	case strings.Contains(err, "maximum") || strings.Contains(err, "exceeded"):
		return "limit-exceeded"
	}
	return "runtime-error"
}

// ---------------------------------------------------------------- worker runtime

type c04Runtime struct {
	prog     *os.File
	idx      int
	generic  map[string]string // engine -> reference 5xx body
	counters map[string]int64
	evals    int64
	distinct int64
	dir      string
	bad      map[int][]int // ordinal -> steps that killed a previous worker
}

func (rt *c04Runtime) progress(step int) {
	if rt.prog != nil {
		rt.prog.WriteAt([]byte(fmt.Sprintf("%010d %02d\n", rt.idx, step)), 0)
	}
}

func c04Quiet() {
	color.Output = io.Discard
	color.NoColor = true
	log.SetOutput(io.Discard)
	if dn, err := os.OpenFile(os.DevNull, os.O_WRONLY, 0); err == nil {
		os.Stdout = dn
	}
}

func c04FindRoute(m *ast.Module, path string) *ast.Route {
	for _, it := range m.Items {
		if r, ok := it.(*ast.Route); ok && r.Path == path {
			return r
		}
	}
	return nil
}

func (rt *c04Runtime) parse(c *c04Case) (*ast.Module, error) {
	m, err := parseSource(c.source())
	if err != nil {
		return nil, err
	}
	if c.Lambda != "" {
		if err := c04PatchLambda(m, c.Lambda); err != nil {
			return nil, err
		}
	}
	return m, nil
}

// replicate of the locals createCompiledRouteHandler injects (kept in step with cmd/glyph/handlers.go: the query
// string is split by the interpreter's parser, bodies are read for POST/PUT/PATCH/DELETE, a null body is no object,
// input-type defaults are applied before validation, and "no JSON object" is validated against the input type too)
func c04VMLocals(v *vm.VM, route *ast.Route, req *http.Request) error {
	rawQuery, rawErr := interpreter.ExtractRawQueryParams("?" + req.URL.RawQuery)
	qp, err := interpreter.ProcessQueryParams(rawQuery, route.QueryParams)
	if rawErr != nil {
		err = rawErr
	}
	if err != nil {
		return err
	}
	for _, decl := range route.QueryParams {
		if _, exists := qp[decl.Name]; !exists && decl.Default != nil {
			if val, ok := evalLiteralExpr(decl.Default); ok {
				qp[decl.Name] = val
			}
		}
	}
	qo := make(map[string]vm.Value, len(qp))
	for k, x := range qp {
		qo[k] = interfaceToValue(x)
	}
	v.SetLocal("query", vm.ObjectValue{Val: qo})
	for _, decl := range route.QueryParams {
		if val, ok := qp[decl.Name]; ok {
			v.SetLocal(decl.Name, interfaceToValue(val))
		}
	}
	v.SetLocal("input", vm.NullValue{})
	inputIsObject := false
	if req.Method == "POST" || req.Method == "PUT" || req.Method == "PATCH" || req.Method == "DELETE" {
		ct := req.Header.Get("Content-Type")
		if (ct == "" || strings.HasPrefix(ct, "application/json")) && req.Body != nil {
			var bodyMap map[string]interface{}
			if err := json.NewDecoder(io.LimitReader(req.Body, 10*1024*1024)).Decode(&bodyMap); err == nil && bodyMap != nil {
				applyCompiledInputDefaults(route, bodyMap)
				if err := validateCompiledInput(route, bodyMap); err != nil {
					return err
				}
				v.SetLocal("input", interfaceToValue(bodyMap))
				inputIsObject = true
			}
		}
	}
	if !inputIsObject {
		if err := validateCompiledInput(route, nil); err != nil {
			return err
		}
	}
	ho := make(map[string]vm.Value)
	for k, vals := range req.Header {
		if len(vals) > 0 {
			ho[k] = vm.StringValue{Val: vals[0]}
		}
	}
	v.SetLocal("headers", vm.ObjectValue{Val: ho})
	return nil
}

type c04HTTPOut struct {
	Ran         bool
	Status      int
	Body        string
	UseCompiler bool
	ProbeStatus int
	ProbeBody   string
	WedgeNote   string // wedge cases: the deep probe failed after the repetitions
	SetupErr    string
}

func (rt *c04Runtime) file() string { return filepath.Join(rt.dir, "main.glyph") }

// engine-level run of the interpreter exactly as the interpreted handler does it
func (rt *c04Runtime) interpEngine(c *c04Case) (ev c04Eval, note string, pv any, stack string) {
	pv, stack = c04Protect(func() {
		m, err := rt.parse(c)
		if err != nil {
			note = "parse-error"
			return
		}
		interp := newConfiguredInterpreter()
		if err := interp.LoadModuleWithPath(*m, rt.dir); err != nil {
			note = "load-error"
			return
		}
		route := c04FindRoute(m, "/t")
		if route == nil {
			note = "no-route"
			return
		}
		req, ok := c.Req.build("")
		if !ok {
			note = "invalid-request-uri"
			return
		}
		rec := httptest.NewRecorder()
		ctx := &server.Context{Request: req, ResponseWriter: rec, PathParams: map[string]string{}, StatusCode: http.StatusOK}
		resp, err := executeRoute(route, ctx, interp)
		ev.Ran = true
		if err != nil {
			ev.Failed = true
			ev.Err = err.Error()
		}
		if resp != nil {
			ev.Status = resp.StatusCode
		}
	})
	return
}

func (rt *c04Runtime) vmEngine(c *c04Case) (ev c04Eval, note string, pv any, stack string) {
	pv, stack = c04Protect(func() {
		m, err := rt.parse(c)
		if err != nil {
			note = "parse-error"
			return
		}
		route := c04FindRoute(m, "/t")
		if route == nil {
			note = "no-route"
			return
		}
		if len(route.Injections) > 0 {
			note = "injection-forces-interpreter"
			return
		}
		comp := compiler.NewCompilerWithOptLevel(compiler.OptBasic)
		bc, err := comp.CompileRoute(route)
		if err != nil {
			note = "compile-error"
			return
		}
		req, ok := c.Req.build("")
		if !ok {
			note = "invalid-request-uri"
			return
		}
		v := vm.NewVM()
		if err := c04VMLocals(v, route, req); err != nil {
			note = "request-rejected-before-execution"
			return
		}
		_, err = v.Execute(bc)
		ev.Ran = true
		if err != nil {
			ev.Failed = true
			ev.Err = err.Error()
		}
	})
	return
}

func (rt *c04Runtime) httpRun(c *c04Case, force bool) (out c04HTTPOut, note string, pv any, stack string) {
	pv, stack = c04Protect(func() {
		m, err := rt.parse(c)
		if err != nil {
			note = "parse-error"
			return
		}
		req, ok := c.Req.build("")
		if !ok {
			note = "invalid-request-uri"
			return
		}
		useCompiler, _, ws, router, err := setupRoutes(m, rt.file(), force)
		if ws != nil {
			defer c04Shutdown(ws)
		}
		if err != nil {
			note = "rejected-at-startup"
			out.SetupErr = err.Error()
			return
		}
		out.UseCompiler = useCompiler
		if !force && !useCompiler {
			note = "fell-back-to-interpreter"
			return
		}
		h := createHandler(router)
		rec := httptest.NewRecorder()
		h(rec, req)
		out.Ran = true
		out.Status = rec.Code
		out.Body = rec.Body.String()
		if c.Wedge {
			// the same failing request again and again on this runtime, then a probe that needs nearly the whole
			// evaluation depth: the deepest recursion a fresh runtime of this module answers (bisected on fresh
			// runtimes first), which must still be answered here
			deep := func(hh http.HandlerFunc, n int) (int, string) {
				u, _ := url.ParseRequestURI(fmt.Sprintf("/zzdeep/%d", n))
				r := &http.Request{Method: "GET", URL: u, Proto: "HTTP/1.1", ProtoMajor: 1, ProtoMinor: 1, Header: http.Header{},
					Host: "example.com", RemoteAddr: "192.0.2.1:1234", RequestURI: u.Path, Body: http.NoBody}
				rec := httptest.NewRecorder()
				hh(rec, r)
				return rec.Code, rec.Body.String()
			}
			fresh := func() http.HandlerFunc {
				_, _, ws2, router2, err := setupRoutes(m, rt.file(), force)
				if ws2 != nil {
					defer c04Shutdown(ws2)
				}
				if err != nil {
					return nil
				}
				return createHandler(router2)
			}
			lo, hi := 1, 600
			for lo < hi {
				mid := (lo + hi + 1) / 2
				fh := fresh()
				if fh == nil {
					break
				}
				if st, _ := deep(fh, mid); st == 200 {
					lo = mid
				} else {
					hi = mid - 1
				}
			}
			reps := c04WedgeRepeats
			if c.Repeats > 0 {
				reps = c.Repeats
			}
			for i := 0; i < reps; i++ {
				rq, _ := c.Req.build("")
				h(httptest.NewRecorder(), rq)
			}
			if st, body := deep(h, lo); st != 200 {
				out.WedgeNote = fmt.Sprintf("after %d repetitions of the failing request GET /zzdeep/%d (a recursion of depth %d, answered 200 on a fresh runtime) is answered %d %s", reps, lo, lo, st, strconv.Quote(c04Trunc(body, 120)))
			}
		}
		// liveness: the same runtime must still answer a trivial request
		prec := httptest.NewRecorder()
		h(prec, c04ProbeRequest())
		out.ProbeStatus = prec.Code
		out.ProbeBody = prec.Body.String()
	})
	return
}

// websocket.NewServer starts the hub loop on a goroutine and Hub.Shutdown is a
// no-op until that loop has begun, so wait for the hub's "started" signal first
// (otherwise every setupRoutes would leave a goroutine behind).
func c04Shutdown(ws *websocket.Server) {
	defer func() { recover() }()
	f := reflect.ValueOf(ws.GetHub()).Elem().FieldByName("started")
	if f.IsValid() && f.Kind() == reflect.Chan {
		ch := reflect.NewAt(f.Type(), unsafe.Pointer(f.UnsafeAddr())).Elem()
		timeout := time.After(2 * time.Second)
		reflect.Select([]reflect.SelectCase{{Dir: reflect.SelectRecv, Chan: ch}, {Dir: reflect.SelectRecv, Chan: reflect.ValueOf(timeout)}})
	}
	ws.Shutdown()
}

func c04Trunc(s string, n int) string {
	if len(s) > n {
		return s[:n] + "…"
	}
	return s
}

func (rt *c04Runtime) panicFinding(c *c04Case, step int, pv any, stack string) c04Finding {
	msg := fmt.Sprint(pv)
	eng := c04StepEngine(step)
	fn := c04RepoFrame(stack)
	key := fmt.Sprintf("panic/%s/%s/%s", eng, fn, c04PanicClass(msg))
	what := "a Go panic escapes " + map[int]string{c04StepParse: "the parser", c04StepInterpEngine: "Interpreter.ExecuteRoute",
		c04StepInterpHTTP: "the interpreted handler chain (net/http drops the connection)", c04StepVMEngine: "CompileRoute/VM.Execute",
		c04StepVMHTTP: "the compiled handler chain (net/http drops the connection)"}[step]
	return c04Finding{Kind: "panic", Key: key, Step: step, Case: *c,
		Desc: fmt.Sprintf("%s: %s in %s | program: %s | request: %s", what, c04Trunc(msg, 160), fn, c.show(), c.Req.show())}
}

// judge one HTTP response
func (rt *c04Runtime) judgeHTTP(c *c04Case, step int, ev c04Eval, out c04HTTPOut) []c04Finding {
	var fs []c04Finding
	eng := c04StepEngine(step)
	add := func(kind, key, desc string) {
		fs = append(fs, c04Finding{Kind: kind, Key: key, Step: step, Case: *c,
			Desc: desc + " | program: " + c.show() + " | request: " + c.Req.show()})
	}
	failed := ev.Ran && ev.Failed
	if failed {
		errText := ev.Err
		cls := c04ErrClass(errText)
		if out.Status < 400 || out.Status > 599 {
			add("status", fmt.Sprintf("success-status-on-failure/%s/%d/%s", eng, out.Status, cls),
				fmt.Sprintf("evaluation fails in this engine (%s) but the response status is %d, body %s", c04Trunc(errText, 160), out.Status, strconv.Quote(c04Trunc(out.Body, 120))))
		} else if out.Status >= 500 {
			ref := rt.generic[eng]
			if out.Body != ref {
				add("non-generic-5xx", fmt.Sprintf("non-generic-5xx/%s/%s", eng, cls),
					fmt.Sprintf("evaluation fails (%s); the %d body is %s, the generic body is %s", c04Trunc(errText, 160), out.Status, strconv.Quote(c04Trunc(out.Body, 200)), strconv.Quote(ref)))
			}
		}
	}
	if p := c04Leaks(out.Status, out.Body); p != "" {
		cls := "success"
		if failed {
			cls = c04ErrClass(ev.Err)
		}
		add("leak", fmt.Sprintf("leaked-internals/%s/%dxx/%s/%s", eng, out.Status/100, p, cls),
			fmt.Sprintf("the %d body carries Go-internal text %q: %s", out.Status, p, strconv.Quote(c04Trunc(out.Body, 240))))
	}
	if out.WedgeNote != "" {
		add("wedged", fmt.Sprintf("wedged/%s/limit-not-given-back/%s", eng, c.Group), out.WedgeNote)
	}
	if out.ProbeStatus != 200 || strings.TrimSpace(out.ProbeBody) != "7" {
		add("wedged", fmt.Sprintf("wedged/%s/probe-%d", eng, out.ProbeStatus),
			fmt.Sprintf("after this request the same runtime answers GET %s with %d %s instead of 200 7", c04ProbePath, out.ProbeStatus, strconv.Quote(c04Trunc(out.ProbeBody, 120))))
	}
	return fs
}

func (rt *c04Runtime) count(name string) { rt.counters[name]++ }

// waits until the goroutines started during the step are gone; reports a
// goroutine that keeps consuming CPU after the response was produced.
func (rt *c04Runtime) settle(base int, c *c04Case, step int) *c04Finding {
	if !c.Async {
		return nil
	}
	var ru0 syscall.Rusage
	syscall.Getrusage(syscall.RUSAGE_SELF, &ru0)
	t0 := time.Now()
	pause := 50 * time.Microsecond
	for runtime.NumGoroutine() > base {
		if time.Since(t0) > 12*time.Second {
			var ru1 syscall.Rusage
			syscall.Getrusage(syscall.RUSAGE_SELF, &ru1)
			cpu := time.Duration(ru1.Utime.Nano()+ru1.Stime.Nano()) - time.Duration(ru0.Utime.Nano()+ru0.Stime.Nano())
			wall := time.Since(t0)
			if cpu > wall*7/10 {
				g := c.Group
				if g == "" {
					g = "async"
				}
				return &c04Finding{Kind: "wedged", Key: fmt.Sprintf("wedged/%s/goroutine-spins-after-response/%s", c04StepEngine(step), g), Step: step, Case: *c,
					Desc: fmt.Sprintf("%s: the evaluation returned, but a goroutine the program started is still running and consumed %.1fs CPU in the following %.1fs (nothing can stop it) | program: %s",
						c04StepNames[step], cpu.Seconds(), wall.Seconds(), c.show())}
			}
			rt.count("goroutine-still-blocked-after-12s(not judged)")
			if os.Getenv("C04_DEBUG") != "" {
				buf := make([]byte, 1<<16)
				fmt.Fprintf(os.Stderr, "SETTLE %s base=%d now=%d\n%s\n", c.show(), base, runtime.NumGoroutine(), buf[:runtime.Stack(buf, true)])
			}
			return nil
		}
		time.Sleep(pause)
		if pause < 20*time.Millisecond {
			pause *= 2
		}
	}
	return nil
}

func (rt *c04Runtime) skip(ord, step int) bool {
	for _, b := range rt.bad[ord] {
		if b == c04StepParse || b == step || (c04StepEngine(b) == c04StepEngine(step) && step > b) {
			return true
		}
	}
	return false
}

type c04Engines struct {
	parsed   bool
	evI, evV c04Eval
	noteV    string
}

// parse + the two engine-level evaluations of one case
func (rt *c04Runtime) enginePhase(c *c04Case, ord int, want func(int) bool) (en c04Engines, fs []c04Finding, exit bool) {
	if !rt.skip(ord, c04StepParse) {
		rt.progress(c04StepParse)
		var perr error
		pv, st := c04Protect(func() { _, perr = rt.parse(c) })
		rt.evals++
		if pv != nil {
			if want(c04StepParse) {
				fs = append(fs, rt.panicFinding(c, c04StepParse, pv, st))
			}
			return
		}
		if perr != nil {
			rt.count("rejected-by-parser")
			return
		}
		en.parsed = true
	}
	// the engine-level evaluations are needed by the HTTP judgement even when only an HTTP step is wanted
	if (want(c04StepInterpEngine) || want(c04StepInterpHTTP)) && !rt.skip(ord, c04StepInterpEngine) {
		rt.progress(c04StepInterpEngine)
		base := runtime.NumGoroutine()
		ev, note, pv, st := rt.interpEngine(c)
		rt.evals++
		en.evI = ev
		if pv != nil {
			if want(c04StepInterpEngine) {
				fs = append(fs, rt.panicFinding(c, c04StepInterpEngine, pv, st))
			}
		} else if note != "" {
			rt.count("interpreter/" + note)
		} else if ev.Failed {
			rt.count("interpreter/evaluation-error")
		} else {
			rt.count("interpreter/evaluation-ok")
		}
		if f := rt.settle(base, c, c04StepInterpEngine); f != nil {
			return en, append(fs, *f), true
		}
	}
	if (want(c04StepVMEngine) || want(c04StepVMHTTP)) && !c.NoVMRaw && !rt.skip(ord, c04StepVMEngine) {
		rt.progress(c04StepVMEngine)
		base := runtime.NumGoroutine()
		ev, note, pv, st := rt.vmEngine(c)
		rt.evals++
		en.evV, en.noteV = ev, note
		if pv != nil {
			en.noteV = "panic"
			if want(c04StepVMEngine) {
				fs = append(fs, rt.panicFinding(c, c04StepVMEngine, pv, st))
			}
		} else if note != "" {
			rt.count("vm/" + note)
		} else if ev.Failed {
			rt.count("vm/evaluation-error")
		} else {
			rt.count("vm/evaluation-ok")
		}
		if f := rt.settle(base, c, c04StepVMEngine); f != nil {
			return en, append(fs, *f), true
		}
	}
	return
}

// only a deterministic engine-level failure is held against the HTTP response
func (rt *c04Runtime) confirmFailure(c *c04Case, step int, ev c04Eval, out c04HTTPOut) c04Eval {
	eng := c04StepEngine(step)
	if !(ev.Ran && ev.Failed) || (out.Status >= 400 && out.Body == rt.generic[eng]) {
		return ev
	}
	for k := 0; k < 2 && ev.Failed; k++ {
		var e2 c04Eval
		var p2 any
		if eng == "interp" {
			e2, _, p2, _ = rt.interpEngine(c)
		} else {
			e2, _, p2, _ = rt.vmEngine(c)
		}
		if p2 != nil || !e2.Ran || !e2.Failed {
			ev.Failed = false
			rt.count(eng + "/nondeterministic-failure(not judged)")
		}
	}
	return ev
}

// one case through one handler chain of its own
func (rt *c04Runtime) httpPhase(c *c04Case, ord, step int, en c04Engines) (fs []c04Finding, exit bool) {
	if rt.skip(ord, step) {
		return
	}
	force := step == c04StepInterpHTTP
	ev := en.evI
	if !force {
		ev = en.evV
		if c.SkipVM {
			rt.count("vm/http-skipped-in-quick-tier")
			return
		}
		if en.noteV == "compile-error" || en.noteV == "injection-forces-interpreter" {
			rt.count("vm/http-not-compiled(interpreter serves it)")
			return
		}
	}
	rt.progress(step)
	base := runtime.NumGoroutine()
	out, note, pv, st := rt.httpRun(c, force)
	rt.evals++
	eng := c04StepEngine(step)
	if pv != nil {
		fs = append(fs, rt.panicFinding(c, step, pv, st))
	} else if out.Ran {
		rt.count(fmt.Sprintf("%s/http-%dxx", eng, out.Status/100))
		fs = append(fs, rt.judgeHTTP(c, step, rt.confirmFailure(c, step, ev, out), out)...)
	} else {
		rt.count(eng + "/http-" + note)
	}
	if f := rt.settle(base, c, step); f != nil {
		return append(fs, *f), true
	}
	return
}

// runs one case on its own; only >= 0 restricts the reported findings to that step.
// exit=true asks the worker to terminate (a goroutine is spinning).
func (rt *c04Runtime) runCase(c *c04Case, ord int, only int) (fs []c04Finding, exit bool) {
	want := func(s int) bool { return only < 0 || only == s }
	en, fs, exit := rt.enginePhase(c, ord, want)
	if exit || !en.parsed {
		return fs, exit
	}
	if only < 0 {
		rt.distinct++
	}
	for _, step := range []int{c04StepInterpHTTP, c04StepVMHTTP} {
		if !want(step) {
			continue
		}
		f2, ex := rt.httpPhase(c, ord, step, en)
		fs = append(fs, f2...)
		if ex {
			return fs, true
		}
	}
	return fs, false
}

// several cases with identical declarations: engine level one by one, then one
// module / one runtime per execution mode serving case i at /t<i>.  A finding
// seen there is re-examined on the case alone; if it does not show alone it is
// reported with the whole sequence as its replay.
func (rt *c04Runtime) runBatch(cs []*c04Case, ords []int) (fs []c04Finding, exit bool) {
	n := len(cs)
	ens := make([]c04Engines, n)
	all := func(int) bool { return true }
	for i, c := range cs {
		rt.idx = ords[i]
		en, f, ex := rt.enginePhase(c, ords[i], all)
		ens[i] = en
		fs = append(fs, f...)
		if ex {
			return fs, true
		}
		if en.parsed {
			rt.distinct++
		}
	}
	for _, step := range []int{c04StepInterpHTTP, c04StepVMHTTP} {
		force := step == c04StepInterpHTTP
		eng := c04StepEngine(step)
		var sel []int
		for i := range cs {
			if !ens[i].parsed {
				continue
			}
			if !force && (ens[i].noteV == "compile-error" || ens[i].noteV == "injection-forces-interpreter" || ens[i].noteV == "panic") {
				if ens[i].noteV != "panic" {
					rt.count("vm/http-not-compiled(interpreter serves it)")
				}
				continue
			}
			sel = append(sel, i)
		}
		if len(sel) == 0 {
			continue
		}
		alone := func(list []int) bool {
			for _, i := range list {
				rt.idx = ords[i]
				f, ex := rt.httpPhase(cs[i], ords[i], step, ens[i])
				fs = append(fs, f...)
				if ex {
					return true
				}
			}
			return false
		}
		var sub []*c04Case
		for _, i := range sel {
			sub = append(sub, cs[i])
		}
		rt.idx = ords[sel[0]]
		rt.progress(step)
		var handler http.HandlerFunc
		var shutdown func()
		okSetup := false
		pv, _ := c04Protect(func() {
			m, err := parseSource(c04BatchSource(sub))
			if err != nil {
				return
			}
			useCompiler, _, ws, router, err := setupRoutes(m, rt.file(), force)
			if ws != nil {
				shutdown = func() { c04Shutdown(ws) }
			}
			if err != nil || (!force && !useCompiler) {
				return
			}
			handler = createHandler(router)
			okSetup = true
		})
		if pv != nil || !okSetup {
			if shutdown != nil {
				shutdown()
			}
			rt.count(eng + "/batch-setup-refused(cases run alone)")
			if alone(sel) {
				return fs, true
			}
			continue
		}
		for bi, i := range sel {
			c := cs[i]
			rt.idx = ords[i]
			rt.progress(step)
			req, ok := c.Req.build(fmt.Sprintf("/t%d", bi))
			if !ok {
				rt.count(eng + "/http-invalid-request-uri")
				continue
			}
			var out c04HTTPOut
			pv, st := c04Protect(func() {
				rec := httptest.NewRecorder()
				handler(rec, req)
				out.Ran, out.Status, out.Body = true, rec.Code, rec.Body.String()
				prec := httptest.NewRecorder()
				handler(prec, c04ProbeRequest())
				out.ProbeStatus, out.ProbeBody = prec.Code, prec.Body.String()
			})
			rt.evals++
			var found []c04Finding
			if pv != nil {
				found = append(found, rt.panicFinding(c, step, pv, st))
			} else {
				rt.count(fmt.Sprintf("%s/http-%dxx", eng, out.Status/100))
				ev := ens[i].evI
				if !force {
					ev = ens[i].evV
				}
				found = rt.judgeHTTP(c, step, rt.confirmFailure(c, step, ev, out), out)
			}
			if len(found) == 0 {
				continue
			}
			// re-examine on the case alone
			solo, ex := rt.httpPhase(c, ords[i], step, ens[i])
			if ex {
				return append(fs, solo...), true
			}
			rt.idx = ords[i]
			if len(solo) > 0 {
				fs = append(fs, solo...)
				continue
			}
			for _, f := range found {
				f.Key += "/only-after-other-requests"
				f.Desc = fmt.Sprintf("(seen only when the same runtime served %d other programs before; alone the case is clean) ", bi) + f.Desc
				for _, j := range sel[:bi+1] {
					f.Batch = append(f.Batch, *cs[j])
				}
				fs = append(fs, f)
			}
		}
		shutdown()
	}
	return fs, false
}

// greedy shrinking: adopt a simpler variant while it still yields a finding with the same key at the same step
func (rt *c04Runtime) shrink(f c04Finding) c04Finding {
	cur := f
	for round := 0; round < 40; round++ {
		improved := false
		for _, cand := range c04Shrinks(cur.Case) {
			cand := cand
			fs, _ := rt.runCase(&cand, -1, cur.Step)
			for _, g := range fs {
				if g.Key == cur.Key && g.Step == cur.Step {
					cur = g
					improved = true
					break
				}
			}
			if improved {
				break
			}
		}
		if !improved {
			break
		}
	}
	return cur
}

// reference generic 5xx bodies: the body produced for a failing program that has nothing to do with the judged one
func (rt *c04Runtime) references() {
	rt.generic = map[string]string{"interp": "{\"error\":\"Internal server error\"}\n", "vm": "{\"error\":\"Internal server error\"}\n"}
	ref := c04Case{ID: "reference", Layer: "reference", Body: []string{"$ zz = [1]", "> zz[5]"}}
	for _, eng := range []string{"interp", "vm"} {
		out, _, pv, _ := rt.httpRun(&ref, eng == "interp")
		if pv == nil && out.Ran && out.Status >= 500 && c04Leaks(out.Status, out.Body) == "" &&
			!strings.Contains(out.Body, "bounds") && !strings.Contains(out.Body, "index") && !strings.Contains(out.Body, "zz") {
			rt.generic[eng] = out.Body
		}
	}
}

// ---------------------------------------------------------------- worker

type c04WLine struct {
	Type     string           `json:"type"` // violation | ckpt | done | expired | exit
	Finding  *c04Finding      `json:"finding,omitempty"`
	Next     int              `json:"next"` // ordinal of the next case to run
	Step     int              `json:"step"`
	Evals    int64            `json:"evals"`
	Distinct int64            `json:"distinct"`
	Counters map[string]int64 `json:"counters,omitempty"`
	Samples  []string         `json:"samples,omitempty"`
}

const c04Group = 64 // cases per group; a restarted worker resumes at a group boundary

// the case list of this process: the layers (sharded) or the cases of a replay file
type c04Source struct {
	n  int
	at func(k int) c04Case
}

func c04OpenSource(p vk.Params, replayFile string) c04Source {
	if replayFile != "" {
		var r c04Replay
		b, _ := os.ReadFile(replayFile)
		if json.Unmarshal(b, &r) != nil {
			os.Exit(3)
		}
		list := r.Batch
		if len(list) == 0 {
			list = []c04Case{r.Case}
		}
		return c04Source{n: len(list), at: func(k int) c04Case { return list[k] }}
	}
	layers := c04Layers(p.Thorough)
	if only := os.Getenv("C04_ONLY_LAYER"); only != "" { // exploration aid
		var sel []c04Layer
		for _, l := range layers {
			if l.Name == only {
				sel = append(sel, l)
			}
		}
		layers = sel
	}
	total := c04Total(layers)
	n := p.NShard
	if n < 1 {
		n = 1
	}
	mine := 0
	if total > p.Shard {
		mine = (total - p.Shard + n - 1) / n
	}
	return c04Source{n: mine, at: func(k int) c04Case { return c04CaseAt(layers, p.Shard+k*n) }}
}

func c04ParseBad(s string) map[int][]int {
	bad := map[int][]int{}
	for _, e := range strings.Split(s, ",") {
		a, b, ok := strings.Cut(e, ":")
		if !ok {
			continue
		}
		i, _ := strconv.Atoi(a)
		st, _ := strconv.Atoi(b)
		bad[i] = append(bad[i], st)
	}
	return bad
}

func c04Worker(p vk.Params) {
	c04Quiet()
	from, _ := strconv.Atoi(os.Getenv("C04_W_FROM"))
	resume, _ := strconv.Atoi(os.Getenv("C04_W_RESUME"))
	deadlineNs, _ := strconv.ParseInt(os.Getenv("C04_W_DEADLINE"), 10, 64)
	outf, err := os.OpenFile(os.Getenv("C04_W_OUT"), os.O_WRONLY|os.O_APPEND|os.O_CREATE, 0o644)
	if err != nil {
		os.Exit(3)
	}
	prog, err := os.OpenFile(os.Getenv("C04_W_PROG"), os.O_WRONLY|os.O_CREATE, 0o644)
	if err != nil {
		os.Exit(3)
	}
	dir, _ := os.MkdirTemp(os.Getenv("VERIF_SCRATCH_DIR"), "c04w-")
	defer os.RemoveAll(dir)
	rt := &c04Runtime{prog: prog, counters: map[string]int64{}, dir: dir, idx: -1, bad: c04ParseBad(os.Getenv("C04_W_BAD"))}
	rt.progress(c04StepEnd)
	emit := func(l c04WLine) {
		b, _ := json.Marshal(l)
		outf.Write(append(b, '\n'))
	}
	src := c04OpenSource(p, os.Getenv("C04_W_REPLAY"))
	rt.references()

	var samples []string
	ckpt := func(typ string, next int) {
		emit(c04WLine{Type: typ, Next: next, Evals: rt.evals, Distinct: rt.distinct, Counters: rt.counters, Samples: samples})
	}
	seenKey := map[string]bool{}
	report := func(fs []c04Finding, exit bool) {
		for _, f := range fs {
			if seenKey[f.Key] {
				rt.count("repeat-of-reported-key")
				continue
			}
			seenKey[f.Key] = true
			if !exit && len(f.Batch) == 0 && (f.Kind == "panic" || f.Kind == "status" || f.Kind == "leak" || f.Kind == "non-generic-5xx") {
				keep := rt.idx
				f = rt.shrink(f)
				rt.idx = keep
			}
			emit(c04WLine{Type: "violation", Finding: &f})
		}
	}
	for g := from / c04Group; g*c04Group < src.n; g++ {
		lo, hi := g*c04Group, (g+1)*c04Group
		if hi > src.n {
			hi = src.n
		}
		if deadlineNs > 0 && time.Now().UnixNano() > deadlineNs {
			ckpt("expired", lo)
			return
		}
		cs := make([]c04Case, hi-lo)
		for k := lo; k < hi; k++ {
			cs[k-lo] = src.at(k)
			if k >= resume {
				rt.count("cases/" + cs[k-lo].Layer)
				if len(samples) < 3 && k%997 == 0 {
					samples = append(samples, cs[k-lo].show())
				}
			}
		}
		for i := 0; i < len(cs); {
			j := i + 1
			if cs[i].batchable() && len(rt.bad[lo+i]) == 0 {
				for j < len(cs) && cs[j].batchable() && len(rt.bad[lo+j]) == 0 && cs[j].signature() == cs[i].signature() {
					j++
				}
			}
			var fs []c04Finding
			var exit bool
			t0 := time.Now()
			if j-i == 1 {
				rt.idx = lo + i
				fs, exit = rt.runCase(&cs[i], lo+i, -1)
			} else {
				var ptrs []*c04Case
				var ords []int
				for k := i; k < j; k++ {
					ptrs = append(ptrs, &cs[k])
					ords = append(ords, lo+k)
				}
				fs, exit = rt.runBatch(ptrs, ords)
			}
			rt.counters["wall-ms/"+cs[i].Layer] += time.Since(t0).Milliseconds()
			t0 = time.Now()
			report(fs, exit)
			rt.counters["wall-ms/shrinking"] += time.Since(t0).Milliseconds()
			if exit {
				// a goroutine keeps spinning: this process must be replaced; the case that caused it is not run again
				st := c04StepParse
				if len(fs) > 0 {
					st = fs[len(fs)-1].Step
				}
				emit(c04WLine{Type: "exit", Next: rt.idx, Step: st, Evals: rt.evals, Distinct: rt.distinct, Counters: rt.counters, Samples: samples})
				os.Exit(0)
			}
			i = j
		}
		ckpt("ckpt", hi)
	}
	rt.idx = src.n
	rt.progress(c04StepEnd)
	ckpt("done", src.n)
}

// ---------------------------------------------------------------- supervisor

type c04ProcStat struct {
	cpu   time.Duration
	state byte
	rss   int64
	ok    bool
}

func c04ReadProc(pid int) c04ProcStat {
	var ps c04ProcStat
	b, err := os.ReadFile(fmt.Sprintf("/proc/%d/stat", pid))
	if err != nil {
		return ps
	}
	s := string(b)
	i := strings.LastIndex(s, ")")
	if i < 0 || i+2 >= len(s) {
		return ps
	}
	f := strings.Fields(s[i+2:])
	if len(f) < 22 {
		return ps
	}
	ps.state = f[0][0]
	ut, _ := strconv.ParseInt(f[11], 10, 64)
	st, _ := strconv.ParseInt(f[12], 10, 64)
	ps.cpu = time.Duration(ut+st) * (time.Second / 100)
	rssPages, _ := strconv.ParseInt(f[21], 10, 64)
	ps.rss = rssPages * int64(os.Getpagesize())
	ps.ok = true
	return ps
}

type c04Limits struct {
	cpu     time.Duration // CPU a single step may consume
	blocked time.Duration // wall time a step may stay without consuming CPU
	wallCap time.Duration
	rss     int64
}

type c04SegResult struct {
	reason string // done | expired | exit | hang-cpu | hang-blocked | memory | died
	idx    int
	step   int
	stderr string
	detail string
}

func c04ReadProgress(path string) (int, int) {
	b, err := os.ReadFile(path)
	if err != nil || len(b) < 13 {
		return -1, c04StepEnd
	}
	idx, err1 := strconv.Atoi(string(b[0:10]))
	step, err2 := strconv.Atoi(string(b[11:13]))
	if err1 != nil || err2 != nil {
		return -1, c04StepEnd
	}
	return idx, step
}

// runs one worker segment under the watchdogs
func c04RunSegment(scratch string, seg int, from, resume int, bad string, deadline time.Time, replayFile string, lim c04Limits) (c04SegResult, []c04WLine) {
	progPath := filepath.Join(scratch, fmt.Sprintf("c04-prog-%d-%d", os.Getpid(), seg))
	outPath := filepath.Join(scratch, fmt.Sprintf("c04-out-%d-%d", os.Getpid(), seg))
	errPath := filepath.Join(scratch, fmt.Sprintf("c04-err-%d-%d", os.Getpid(), seg))
	defer os.Remove(progPath)
	defer os.Remove(outPath)
	defer os.Remove(errPath)
	errf, _ := os.Create(errPath)
	cmd := exec.Command(os.Args[0], "-test.run", "^TestVerif_C04$", "-test.count=1", "-test.timeout=0")
	cmd.Env = append(os.Environ(), "C04_WORKER=1", fmt.Sprintf("C04_W_FROM=%d", from), fmt.Sprintf("C04_W_RESUME=%d", resume), "C04_W_BAD="+bad,
		"C04_W_PROG="+progPath, "C04_W_OUT="+outPath, fmt.Sprintf("C04_W_DEADLINE=%d", deadline.UnixNano()), "C04_W_REPLAY="+replayFile,
		"GOTRACEBACK=all")
	cmd.Stdout = nil
	cmd.Stderr = errf
	res := c04SegResult{reason: "died", idx: -1, step: c04StepEnd}
	if err := cmd.Start(); err != nil {
		res.detail = "cannot start worker: " + err.Error()
		return res, nil
	}
	done := make(chan error, 1)
	go func() { done <- cmd.Wait() }()
	pid := cmd.Process.Pid
	lastIdx, lastStep := -2, -1
	var stepStart time.Time
	var cpuAtStep time.Duration
	type sample struct {
		t   time.Time
		cpu time.Duration
	}
	var window []sample
	killed := ""
	tick := time.NewTicker(25 * time.Millisecond)
	defer tick.Stop()
loop:
	for {
		select {
		case <-done:
			break loop
		case <-tick.C:
			ps := c04ReadProc(pid)
			if !ps.ok {
				continue
			}
			idx, step := c04ReadProgress(progPath)
			now := time.Now()
			if idx != lastIdx || step != lastStep {
				lastIdx, lastStep = idx, step
				stepStart, cpuAtStep = now, ps.cpu
				window = window[:0]
			}
			window = append(window, sample{now, ps.cpu})
			for len(window) > 1 && now.Sub(window[0].t) > 10*time.Second {
				window = window[1:]
			}
			if idx < 0 || step == c04StepEnd {
				// start-up / wind-down of the worker: only the absolute cap applies
				if now.Sub(stepStart) > lim.wallCap {
					killed = "hang-blocked"
				}
			} else if ps.rss > lim.rss {
				killed = "memory"
				res.detail = fmt.Sprintf("resident set %d MiB", ps.rss>>20)
			} else if ps.cpu-cpuAtStep > lim.cpu {
				killed = "hang-cpu"
				res.detail = fmt.Sprintf("%.1fs CPU in this step, still running", (ps.cpu - cpuAtStep).Seconds())
			} else if now.Sub(stepStart) > lim.blocked && now.Sub(window[0].t) >= 9*time.Second && ps.cpu-window[0].cpu < 200*time.Millisecond {
				killed = "hang-blocked"
				res.detail = fmt.Sprintf("blocked for %.0fs without consuming CPU (process state %c)", now.Sub(stepStart).Seconds(), ps.state)
			} else if now.Sub(stepStart) > lim.wallCap {
				killed = "hang-cpu"
				res.detail = fmt.Sprintf("%.0fs wall, %.1fs CPU in this step, still running", now.Sub(stepStart).Seconds(), (ps.cpu - cpuAtStep).Seconds())
			}
			if killed != "" {
				cmd.Process.Kill()
				<-done
				break loop
			}
		}
	}
	errf.Close()
	idx, step := c04ReadProgress(progPath)
	res.idx, res.step = idx, step
	var lines []c04WLine
	if b, err := os.ReadFile(outPath); err == nil {
		for _, l := range bytes.Split(b, []byte("\n")) {
			if len(bytes.TrimSpace(l)) == 0 {
				continue
			}
			var wl c04WLine
			if json.Unmarshal(l, &wl) == nil {
				lines = append(lines, wl)
			}
		}
	}
	if killed != "" {
		res.reason = killed
		return res, lines
	}
	for i := len(lines) - 1; i >= 0; i-- {
		if t := lines[i].Type; t == "done" || t == "expired" || t == "exit" {
			res.reason = t
			return res, lines
		}
	}
	// died
	if b, err := os.ReadFile(errPath); err == nil {
		s := string(b)
		if len(s) > 200000 {
			s = s[:100000] + "\n…\n" + s[len(s)-100000:]
		}
		res.stderr = s
	}
	return res, lines
}

// finding for a worker that died
func c04CrashFinding(c *c04Case, step int, stderr string) c04Finding {
	msg := "process died without a Go crash report"
	lines := strings.Split(stderr, "\n")
	at := -1
	for i, l := range lines {
		if strings.HasPrefix(l, "panic: ") || strings.HasPrefix(l, "fatal error: ") {
			msg = l
			at = i
			break
		}
	}
	if strings.Contains(msg, "stack overflow") {
		return c04HangFinding(c, "stack overflow", step, "worker died")
	}
	if strings.Contains(msg, "out of memory") || strings.Contains(msg, "cannot allocate memory") {
		return c04HangFinding(c, "out of memory", step, "worker died")
	}
	fn, creator := "unknown", ""
	if at >= 0 {
		// the first goroutine block after the message is the crashing one
		fn, creator = c04CrashFrame(strings.Join(lines[at:], "\n"))
	}
	eng := c04StepEngine(step)
	key := fmt.Sprintf("crash/%s/%s/%s", eng, fn, c04PanicClass(msg))
	where := ""
	if creator != "" {
		key += "/on-goroutine-of:" + creator
		where = " on a goroutine started by " + creator + " (no recover there: the panic cannot be contained by the handler)"
	}
	return c04Finding{Kind: "crash", Key: key, Step: step, Case: *c,
		Desc: fmt.Sprintf("%s: the process running the evaluation died (%s) in %s%s - the server process is gone | program: %s | request: %s",
			c04StepNames[step], c04Trunc(msg, 200), fn, where, c.show(), c.Req.show())}
}

func c04CrashFrame(dump string) (fn, creator string) {
	fn = "unknown"
	lines := strings.Split(dump, "\n")
	in := false
	trim := func(l string) string {
		f := strings.TrimPrefix(l, c04ModPrefix)
		if i := strings.LastIndex(f, "("); i > 0 {
			f = f[:i]
		}
		return regexp.MustCompile(`\.func[0-9]+(\.[0-9]+)*$`).ReplaceAllString(f, "")
	}
	for _, l := range lines {
		if strings.HasPrefix(l, "goroutine ") {
			if in {
				break
			}
			in = true
			continue
		}
		if !in {
			continue
		}
		if strings.HasPrefix(l, "created by ") {
			cr := strings.TrimPrefix(l, "created by ")
			if i := strings.Index(cr, " in goroutine"); i > 0 {
				cr = cr[:i]
			}
			if strings.HasPrefix(cr, c04ModPrefix) && !strings.Contains(cr, ".c04") {
				creator = regexp.MustCompile(`\.func[0-9]+(\.[0-9]+)*$`).ReplaceAllString(strings.TrimPrefix(cr, c04ModPrefix), "")
			}
			break
		}
		if fn != "unknown" || !strings.HasPrefix(l, c04ModPrefix) {
			continue
		}
		if strings.Contains(l, ".c04") || strings.Contains(l, "TestVerif_C04") || strings.Contains(l, "internal/verif") {
			continue
		}
		fn = trim(l)
	}
	return
}

// a case that had to be stopped (CPU watchdog, blocked, memory cap) or that ended the process with a stack
// overflow / out of memory: one kind ("runaway"), because which limit trips first is a matter of timing
func c04HangFinding(c *c04Case, kind string, step int, detail string) c04Finding {
	eng := c04StepEngine(step)
	g := c.Group
	if g == "" {
		// no root-cause tag: the program itself, literals abstracted to their shapes
		g = c.Layer + "/" + c04AbstractProgram(c)
	}
	what := "the evaluation does not return"
	switch kind {
	case "memory":
		what = "the evaluation allocates without bound (the Go runtime aborts the whole process when memory runs out)"
	case "hang-blocked":
		what = "the evaluation is blocked forever"
	case "stack overflow":
		what = "the evaluation recurses until the goroutine stack limit: fatal error: stack overflow, which no recover can catch - the server process is gone"
	case "out of memory":
		what = "the evaluation allocates until the Go runtime aborts: fatal error: out of memory - the server process is gone"
	}
	lvl := "engine"
	if step == c04StepInterpHTTP || step == c04StepVMHTTP {
		lvl = "http"
	}
	_ = lvl
	if os.Getenv("C04_KEY_ID") != "" { // exploration aid: one key per case and step
		g += "/" + c.ID + "/" + c04StepNames[step] + "/" + kind
	}
	return c04Finding{Kind: "runaway", Key: fmt.Sprintf("runaway/%s/%s", eng, g), Step: step, Case: *c,
		Desc: fmt.Sprintf("%s: %s (%s) | program: %s | request: %s", c04StepNames[step], what, detail, c.show(), c.Req.show())}
}

// the program text with every literal replaced by the name of its shape (`1 == 1.5` -> `INT == FLOAT`)
func c04AbstractProgram(c *c04Case) string {
	if c.SrcGen != "" {
		return "generated:" + c.SrcGen
	}
	shapes := append([]c04Shape{}, c04Shapes...)
	sort.SliceStable(shapes, func(i, j int) bool { return len(shapes[i].Lit) > len(shapes[j].Lit) })
	text := strings.Join(append(append([]string{}, c.Inj...), c.Body...), "; ")
	var b strings.Builder
outer:
	for i := 0; i < len(text); {
		prevIdent := i > 0 && c04IdentByte(text[i-1])
		for _, sh := range shapes {
			if !strings.HasPrefix(text[i:], sh.Lit) {
				continue
			}
			end := i + len(sh.Lit)
			first := sh.Lit[0]
			if (first >= '0' && first <= '9') || first == '-' || (first >= 'a' && first <= 'z') {
				// a number or keyword must not be part of a longer word or number
				if prevIdent || (end < len(text) && c04IdentByte(text[end])) || (first == '-' && b.Len() > 0 && !strings.HasSuffix(strings.TrimRight(b.String(), " "), "(") && !strings.HasSuffix(strings.TrimRight(b.String(), " "), ",")) {
					continue
				}
			}
			b.WriteString(sh.Name)
			i = end
			continue outer
		}
		b.WriteByte(text[i])
		i++
	}
	// " :: " separates key and description in known_findings.txt
	out := strings.ReplaceAll(strings.Join(strings.Fields(b.String()), " "), "::", "status")
	if len(out) > 160 {
		out = out[:160]
	}
	return out
}

func TestVerif_C04(t *testing.T) {
	p := vk.Env()
	if os.Getenv("C04_WORKER") != "" {
		c04Worker(p)
		return
	}
	if f := os.Getenv("C04_PROBE"); f != "" {
		c04Probe(f)
		return
	}
	res := vk.NewResult("every program of the hostile layers (operators x operand shapes, every built-in of both engines x argument vectors, field/index/method access on every shape, provider calls with every arity, statement lists, patterns, functions and recursion, async blocks, unbounded loops and growth, nesting to depth 10^4, malformed/huge/deep request bodies and odd content types) is run at engine level and through the CLI's handler chain in both execution modes inside a disposable worker; distinct = programs accepted by the parser")
	scratch := os.Getenv("VERIF_SCRATCH_DIR")
	if scratch == "" {
		scratch = os.TempDir()
	}
	// the slowest terminating evaluations of the corpus (10^6 loop iterations in the interpreter, 10^8 VM steps)
	// take 1-4 s of CPU depending on the machine
	lim := c04Limits{cpu: 15 * time.Second, blocked: 30 * time.Second, wallCap: 150 * time.Second, rss: 1 << 30}
	if p.Thorough {
		lim.cpu = 20 * time.Second
	}
	replayFile := ""
	var rp c04Replay
	deadline := p.Deadline
	if p.Replay != "" {
		if err := vk.LoadReplay(p.Replay, &rp); err != nil {
			t.Fatal(err)
		}
		replayFile = filepath.Join(scratch, fmt.Sprintf("c04-replay-%d.json", os.Getpid()))
		b, _ := json.Marshal(rp)
		os.WriteFile(replayFile, b, 0o644)
		defer os.Remove(replayFile)
		deadline = time.Now().Add(15 * time.Minute)
	}
	src := c04OpenSource(p, replayFile)

	counters := map[string]int64{}
	violate := func(f c04Finding) {
		if p.Replay != "" && f.Key != rp.Key {
			fmt.Fprintf(os.Stderr, "replay: other finding %s :: %s\n", f.Key, f.Desc)
			return
		}
		res.Violate(f.Key, f.Desc, c04Replay{Case: f.Case, Batch: f.Batch, Step: f.Step, Key: f.Key})
	}
	addSeg := func(lines []c04WLine) {
		// the last checkpoint of the segment carries its cumulative counters
		for i := len(lines) - 1; i >= 0; i-- {
			l := lines[i]
			if l.Type == "violation" {
				continue
			}
			res.Evaluations += l.Evals
			res.Distinct += l.Distinct
			for k, v := range l.Counters {
				counters[k] += v
			}
			for _, s := range l.Samples {
				res.Sample(3, s)
			}
			break
		}
		for _, l := range lines {
			if l.Type == "violation" && l.Finding != nil {
				violate(*l.Finding)
			}
		}
	}
	from, resume := 0, 0
	var bad []string
	restarts := 0
	for seg := 0; from < src.n; seg++ {
		if time.Now().After(deadline) {
			res.Exhaustive = false
			break
		}
		if restarts > 300 {
			res.Exhaustive = false
			res.Note("more than 300 worker restarts in one shard; stopped")
			break
		}
		sr, lines := c04RunSegment(scratch, seg, from, resume, strings.Join(bad, ","), deadline, replayFile, lim)
		addSeg(lines)
		if sr.reason == "done" {
			break
		}
		if sr.reason == "expired" {
			res.Exhaustive = false
			break
		}
		restarts++
		counters["worker-restarts"]++
		if sr.reason == "exit" {
			// the worker asked to be replaced (a goroutine kept spinning after the case at Next)
			at, st := from, c04StepParse
			for _, l := range lines {
				if l.Type == "exit" {
					at, st = l.Next, l.Step
				}
			}
			bad = append(bad, fmt.Sprintf("%d:%d", at, st))
			from, resume = at/c04Group*c04Group, at
			continue
		}
		if sr.idx < 0 || sr.idx >= src.n || sr.step == c04StepEnd {
			t.Fatalf("C04 worker failed outside a case (%s %s idx=%d): %s", sr.reason, sr.detail, sr.idx, c04Trunc(sr.stderr, 3000))
		}
		c := src.at(sr.idx)
		var f c04Finding
		if sr.reason == "died" {
			f = c04CrashFinding(&c, sr.step, sr.stderr)
		} else {
			f = c04HangFinding(&c, sr.reason, sr.step, sr.detail)
		}
		violate(f)
		counters["cases-ended-by-"+sr.reason]++
		// a fresh worker resumes at the group boundary and skips the step that killed this one
		// (and the later steps of the same engine of that case)
		bad = append(bad, fmt.Sprintf("%d:%d", sr.idx, sr.step))
		from, resume = sr.idx/c04Group*c04Group, sr.idx
	}
	if p.Replay != "" {
		ok := len(res.Violations) > 0
		res.Replayed = &ok
		res.Write(p)
		return
	}
	for k, v := range counters {
		res.Count(k, v)
	}
	layers := c04Layers(p.Thorough)
	var names []string
	for _, l := range layers {
		names = append(names, fmt.Sprintf("%s=%d", l.Name, l.N))
	}
	sort.Strings(names)
	res.Bounds["layers(cases)"] = names
	res.Bounds["cases_total"] = c04Total(layers)
	res.Bounds["steps_per_case"] = "parse, interpreter/engine, interpreter/http, vm/engine, vm/http"
	res.Bounds["watchdog"] = fmt.Sprintf("%.0fs CPU per step, %.0fs blocked, %d MiB resident", lim.cpu.Seconds(), lim.blocked.Seconds(), lim.rss>>20)
	res.Bounds["shapes"] = c04ShapeNames()
	res.Write(p)
}

// ---------------------------------------------------------------- exploration aid (not part of the check)

func c04Probe(file string) {
	b, err := os.ReadFile(file)
	if err != nil {
		panic(err)
	}
	stdout := os.Stdout
	c04Quiet()
	dir, _ := os.MkdirTemp("", "c04p-")
	defer os.RemoveAll(dir)
	rt := &c04Runtime{counters: map[string]int64{}, dir: dir}
	rt.references()
	for i, blk := range strings.Split(string(b), "\n----\n") {
		var c c04Case
		if strings.HasPrefix(strings.TrimSpace(blk), "{") {
			if err := json.Unmarshal([]byte(blk), &c); err != nil {
				fmt.Fprintln(stdout, "bad case:", err)
				continue
			}
		} else {
			for _, l := range strings.Split(blk, "\n") {
				if strings.HasPrefix(l, "!") || strings.HasPrefix(l, ":") {
					c.Decls = append(c.Decls, l)
				} else if strings.TrimSpace(l) != "" {
					c.Body = append(c.Body, l)
				}
			}
		}
		c.ID = fmt.Sprintf("probe%d", i)
		fmt.Fprintf(stdout, "=== %s\n", c.show())
		_, perr := rt.parse(&c)
		if perr != nil {
			fmt.Fprintf(stdout, "  parse: %v\n", perr)
			continue
		}
		ev, note, pv, st := rt.interpEngine(&c)
		fmt.Fprintf(stdout, "  interp/engine: ran=%v failed=%v err=%q note=%s panic=%v %s\n", ev.Ran, ev.Failed, c04Trunc(ev.Err, 200), note, pv, c04RepoFrameIf(pv, st))
		out, note, pv, st := rt.httpRun(&c, true)
		fmt.Fprintf(stdout, "  interp/http: ran=%v %d %q note=%s %s panic=%v %s\n", out.Ran, out.Status, c04Trunc(out.Body, 200), note, out.SetupErr, pv, c04RepoFrameIf(pv, st))
		if !c.NoVMRaw {
			ev, note, pv, st = rt.vmEngine(&c)
			fmt.Fprintf(stdout, "  vm/engine: ran=%v failed=%v err=%q note=%s panic=%v %s\n", ev.Ran, ev.Failed, c04Trunc(ev.Err, 200), note, pv, c04RepoFrameIf(pv, st))
		}
		out, note, pv, st = rt.httpRun(&c, false)
		fmt.Fprintf(stdout, "  vm/http: ran=%v %d %q note=%s %s panic=%v %s\n", out.Ran, out.Status, c04Trunc(out.Body, 200), note, out.SetupErr, pv, c04RepoFrameIf(pv, st))
	}
}

func c04RepoFrameIf(pv any, st string) string {
	if pv == nil {
		return ""
	}
	return "@" + c04RepoFrame(st)
}
