package main

// Case generators of the C04 harness: finite layers, each indexable so that no
// process has to materialise the whole space.

import (
	"fmt"
	"go/ast"
	"go/parser"
	"go/token"
	"os"
	"path/filepath"
	"reflect"
	"sort"
	"strconv"
	"strings"

	gast "github.com/glyphlang/glyph/pkg/ast"
	"github.com/glyphlang/glyph/pkg/database"
	"github.com/glyphlang/glyph/pkg/httpclient"
	gparser "github.com/glyphlang/glyph/pkg/parser"
	"github.com/glyphlang/glyph/pkg/vm"
)

type c04Layer struct {
	Name string
	N    int
	At   func(i int) c04Case
}

func c04Total(ls []c04Layer) int {
	n := 0
	for _, l := range ls {
		n += l.N
	}
	return n
}

func c04CaseAt(ls []c04Layer, g int) c04Case {
	for _, l := range ls {
		if g < l.N {
			c := l.At(g)
			c.Layer = l.Name
			if c.ID == "" {
				c.ID = fmt.Sprintf("%s#%d", l.Name, g)
			}
			return c
		}
		g -= l.N
	}
	panic("case index out of range")
}

// a layer from an explicit list
func c04ListLayer(name string, cs []c04Case) c04Layer {
	return c04Layer{Name: name, N: len(cs), At: func(i int) c04Case { return cs[i] }}
}

type c04Shape struct{ Name, Lit string }

var c04Shapes = []c04Shape{
	{"ZERO", "0"}, {"INT", "1"}, {"NEG", "-1"}, {"BIG", "9223372036854775807"}, {"FLOAT", "1.5"},
	{"ESTR", `""`}, {"STR", `"a"`}, {"BOOL", "true"}, {"NULL", "null"},
	{"EARR", "[]"}, {"ARR", "[1, 2]"}, {"OBJ", "{a: 1}"}, {"NEST", "{a: [1, {b: null}], c: {d: [[]]}}"},
}

func c04ShapeNames() []string {
	var s []string
	for _, x := range c04Shapes {
		s = append(s, x.Name+"="+x.Lit)
	}
	return s
}

func c04Lits(names ...string) []string {
	var out []string
	for _, n := range names {
		for _, s := range c04Shapes {
			if s.Name == n {
				out = append(out, s.Lit)
			}
		}
	}
	return out
}

func c04AllLits() []string {
	var out []string
	for _, s := range c04Shapes {
		out = append(out, s.Lit)
	}
	return out
}

// functions available to every program that mentions them
var c04FnDecls = map[string]string{
	"f1":  "! f1(x: any) { > x }",
	"f2":  "! f2(x: any, y: any) { > x }",
	"fb":  "! fb(x: any) { > true }",
	"fe":  "! fe(x: any) { > x.a.b.c }",
	"cmp": "! cmp(x: any, y: any) { > x - y }",
}

func c04DeclsFor(text string) []string {
	var names []string
	for n := range c04FnDecls {
		if c04HasWord(text, n) {
			names = append(names, n)
		}
	}
	sort.Strings(names)
	var out []string
	for _, n := range names {
		out = append(out, c04FnDecls[n])
	}
	return out
}

func c04HasWord(text, w string) bool {
	for i := 0; ; {
		j := strings.Index(text[i:], w)
		if j < 0 {
			return false
		}
		j += i
		before := j == 0 || !c04IdentByte(text[j-1])
		after := j+len(w) >= len(text) || !c04IdentByte(text[j+len(w)])
		if before && after {
			return true
		}
		i = j + 1
	}
}

func c04IdentByte(b byte) bool {
	return b == '_' || b == '.' || (b >= '0' && b <= '9') || (b >= 'a' && b <= 'z') || (b >= 'A' && b <= 'Z')
}

// ---------------------------------------------------------------- tables read from the tree

func c04RepoDir() string {
	if d := os.Getenv("VERIF_REPO"); d != "" {
		return d
	}
	wd, _ := os.Getwd()
	return filepath.Clean(filepath.Join(wd, "..", ".."))
}

// keys of a package-level map[string]X in pkg/interpreter (composite literal keys and index assignments)
var c04TableCache = map[string][]string{}
var c04InterpFiles []*ast.File

func c04InterpTable(varName string) []string {
	if t, ok := c04TableCache[varName]; ok {
		return t
	}
	if c04InterpFiles == nil {
		dir := filepath.Join(c04RepoDir(), "pkg", "interpreter")
		fset := token.NewFileSet()
		files, _ := filepath.Glob(filepath.Join(dir, "*.go"))
		for _, f := range files {
			if strings.HasSuffix(f, "_test.go") {
				continue
			}
			if af, err := parser.ParseFile(fset, f, nil, parser.SkipObjectResolution); err == nil {
				c04InterpFiles = append(c04InterpFiles, af)
			}
		}
	}
	set := map[string]bool{}
	for _, af := range c04InterpFiles {
		ast.Inspect(af, func(n ast.Node) bool {
			switch x := n.(type) {
			case *ast.AssignStmt:
				for i, lhs := range x.Lhs {
					if id, ok := lhs.(*ast.Ident); ok && id.Name == varName && i < len(x.Rhs) {
						c04LitKeys(x.Rhs[i], set)
					}
					if ix, ok := lhs.(*ast.IndexExpr); ok {
						if id, ok := ix.X.(*ast.Ident); ok && id.Name == varName {
							if bl, ok := ix.Index.(*ast.BasicLit); ok && bl.Kind == token.STRING {
								if s, err := strconv.Unquote(bl.Value); err == nil {
									set[s] = true
								}
							}
						}
					}
				}
			case *ast.ValueSpec:
				for i, id := range x.Names {
					if id.Name == varName && i < len(x.Values) {
						c04LitKeys(x.Values[i], set)
					}
				}
			}
			return true
		})
	}
	var out []string
	for k := range set {
		out = append(out, k)
	}
	sort.Strings(out)
	c04TableCache[varName] = out
	return out
}

func c04LitKeys(e ast.Expr, set map[string]bool) {
	cl, ok := e.(*ast.CompositeLit)
	if !ok {
		return
	}
	for _, el := range cl.Elts {
		if kv, ok := el.(*ast.KeyValueExpr); ok {
			if bl, ok := kv.Key.(*ast.BasicLit); ok && bl.Kind == token.STRING {
				if s, err := strconv.Unquote(bl.Value); err == nil {
					set[s] = true
				}
			}
		}
	}
}

// names of the VM's built-in table (unexported field, read by reflection)
func c04VMBuiltins() []string {
	v := reflect.ValueOf(vm.NewVM()).Elem().FieldByName("builtins")
	var out []string
	if v.IsValid() && v.Kind() == reflect.Map {
		for _, k := range v.MapKeys() {
			out = append(out, k.String())
		}
	}
	sort.Strings(out)
	return out
}

func c04Union(a ...[]string) []string {
	set := map[string]bool{}
	for _, l := range a {
		for _, s := range l {
			set[s] = true
		}
	}
	var out []string
	for s := range set {
		out = append(out, s)
	}
	sort.Strings(out)
	return out
}

// ---------------------------------------------------------------- layers

func c04Pow(b, e int) int {
	n := 1
	for ; e > 0; e-- {
		n *= b
	}
	return n
}

var c04BinOps = []string{"+", "-", "*", "/", "%", "==", "!=", "<", "<=", ">", ">=", "&&", "||"}
var c04UnOps = []string{"!", "-"}

func c04OpsLayer() c04Layer {
	lits := c04AllLits()
	n := len(lits)
	nb := len(c04BinOps) * n * n
	nu := len(c04UnOps) * n
	per := nb + nu
	return c04Layer{Name: "operators", N: 3 * per, At: func(i int) c04Case {
		form := i / per
		j := i % per
		var expr, a, b string
		if j < nb {
			op := c04BinOps[j/(n*n)]
			a, b = lits[(j/n)%n], lits[j%n]
			if form == 0 {
				expr = a + " " + op + " " + b
			} else {
				expr = "a " + op + " b"
			}
		} else {
			j -= nb
			op := c04UnOps[j/n]
			a = lits[j%n]
			b = "0"
			if form == 0 {
				expr = op + " " + a
				if op == "-" {
					expr = "-(" + a + ")"
				}
			} else {
				expr = op + "a"
			}
		}
		switch form {
		case 0:
			return c04Case{Body: []string{"> " + expr}}
		case 1:
			return c04Case{Body: []string{"$ a = " + a, "$ b = " + b, "> " + expr}}
		default:
			// the operands arrive through a conditional so that no constant folding can see them
			return c04Case{Body: []string{"$ a = 0", "$ b = 0", "if input == null {", "  a = " + a, "  b = " + b, "}", "> " + expr}}
		}
	}}
}

func c04BuiltinAtoms() []string {
	return append(c04AllLits(), "f1", "f2")
}

func c04BuiltinLayer(thorough bool) c04Layer {
	names := c04Union(c04InterpTable("builtinFuncs"), c04VMBuiltins())
	atoms := c04BuiltinAtoms()
	a3 := append(c04AllLits(), "f1")
	a4 := c04Lits("INT", "STR", "NULL", "ARR", "OBJ", "FLOAT")
	if thorough {
		a3 = atoms
		a4 = c04Lits("ZERO", "INT", "NEG", "BIG", "FLOAT", "STR", "BOOL", "NULL", "EARR", "ARR", "OBJ")
	}
	na := len(atoms)
	c := []int{1, na, na * na, c04Pow(len(a3), 3), c04Pow(len(a4), 4)}
	per := 0
	for _, x := range c {
		per += x
	}
	return c04Layer{Name: "builtins", N: len(names) * per, At: func(i int) c04Case {
		name := names[i/per]
		j := i % per
		ar := 0
		for j >= c[ar] {
			j -= c[ar]
			ar++
		}
		set := atoms
		if ar == 3 {
			set = a3
		}
		if ar == 4 {
			set = a4
		}
		args := make([]string, ar)
		for k := ar - 1; k >= 0; k-- {
			args[k] = set[j%len(set)]
			j /= len(set)
		}
		call := name + "(" + strings.Join(args, ", ") + ")"
		return c04Case{Decls: c04DeclsFor("f1 f2"), Body: []string{"> " + call}}
	}}
}

// values a method / field / index can be applied to
type c04Recv struct{ Name, Setup string }

func c04Receivers() []c04Recv {
	var rs []c04Recv
	for _, s := range c04Shapes {
		rs = append(rs, c04Recv{s.Name, "$ x = " + s.Lit})
	}
	rs = append(rs,
		c04Recv{"OK", "$ x = Ok(1)"}, c04Recv{"ERR", `$ x = Err("a")`}, c04Recv{"FUTURE", "$ x = async { > 1 }"},
		c04Recv{"TEXT", `$ x = text("a")`}, c04Recv{"REDIRECT", `$ x = redirect("/a")`}, c04Recv{"FN", "$ x = f1"},
		c04Recv{"INPUT", "$ x = input"}, c04Recv{"QUERY", "$ x = query"}, c04Recv{"HEADERS", "$ x = headers"})
	return rs
}

func c04AccessLayer() c04Layer {
	recvs := c04Receivers()
	idx := []string{"0", "1", "2", "-1", "9223372036854775807", "1.5", `"a"`, `"zz"`, `""`, "null", "true", "[]", "[0]", "{a: 1}", "x", "0 - 1", "1 / 0"}
	var forms [][]string
	for _, i := range idx {
		forms = append(forms, []string{"> x[" + i + "]"})
		forms = append(forms, []string{"$ x[" + i + "] = 1", "> x"})
		forms = append(forms, []string{"x[" + i + "] = 1", "> x"})
		forms = append(forms, []string{"> x[" + i + "][" + i + "]"})
		forms = append(forms, []string{"> x.a[" + i + "]"})
		forms = append(forms, []string{"$ x.a[" + i + "] = 1", "> x"})
		forms = append(forms, []string{"$ x[" + i + "].a = 1", "> x"})
		forms = append(forms, []string{"$ x[" + i + "][" + i + "] = x", "> x"})
	}
	forms = append(forms,
		[]string{"> x.a"}, []string{"> x.zz"}, []string{"> x.a.b"}, []string{"> x.a.b.c.d"}, []string{"> x.c.d"},
		[]string{"$ x.a = 1", "> x"}, []string{"$ x.a.b = 1", "> x"}, []string{"$ x.a.b.c = 1", "> x"}, []string{"$ x.zz = x", "> x"},
		[]string{"$ x.a = x", "> x.a"}, []string{"> x.length()"}, []string{"> x.a.length()"}, []string{"> x"}, []string{"> [x, x]"},
		[]string{"> {k: x}"}, []string{"> x :: 201"}, []string{"> x :: 404"}, []string{"> x :: 500"}, []string{"for v in x {", "  $ y = v", "}", "> 1"},
		[]string{"for k, v in x {", "  $ y = k", "}", "> 1"}, []string{"if x {", "  > 1", "}", "> 2"}, []string{"while x {", "  break", "}", "> 1"},
		[]string{"? x :: 400 \"m\"", "> 1"}, []string{"> await x"}, []string{"> x(1)"}, []string{"$ y = x |> f1", "> y"}, []string{"> x |> x"},
		[]string{"> x |> length"}, []string{"> x |> zz"}, []string{"> toString(x)"}, []string{"$ s = \"\" + toString(x)", "> s"},
		[]string{"switch x {", "  case 1 {", "    > 1", "  }", "  case \"a\" {", "    > 2", "  }", "  case [1, 2] {", "    > 3", "  }", "  default {", "    > 4", "  }", "}"},
		[]string{"switch 1 {", "  case x {", "    > 1", "  }", "}", "> 2"},
		[]string{"$ y = match x {", "  1 => 1", "  \"a\" => 2", "  [p] => p", "  [p, q] => q", "  {a} => a", "  n when n > 1 => 3", "  _ => 0", "}", "> y"},
	)
	nf := len(forms)
	return c04Layer{Name: "access", N: len(recvs) * nf, At: func(i int) c04Case {
		r := recvs[i/nf]
		body := append([]string{r.Setup}, forms[i%nf]...)
		return c04Case{Decls: c04DeclsFor("f1"), Body: body, Async: strings.Contains(r.Setup, "async")}
	}}
}

func c04MethodLayer(thorough bool) c04Layer {
	recvs := c04Receivers()
	resultMethods := []string{"isOk", "isErr", "unwrap", "unwrapOr", "unwrapErr", "map", "mapErr", "andThen", "orElse", "ok", "err", "value", "zz"}
	var plain []string
	for _, n := range c04Union(c04InterpTable("builtinFuncs"), c04VMBuiltins()) {
		if !strings.Contains(n, ".") {
			plain = append(plain, n)
		}
	}
	allowed := c04InterpTable("allowedMethods")
	var lowered []string
	for _, a := range allowed {
		lowered = append(lowered, strings.ToLower(a[:1])+a[1:])
	}
	names := c04Union(plain, allowed, lowered, resultMethods)
	atoms := append(c04Lits("INT", "STR", "NULL", "ARR", "OBJ", "FLOAT"), "f1")
	maxAr := 1
	if thorough {
		maxAr = 2
	}
	per := 0
	for a := 0; a <= maxAr; a++ {
		per += c04Pow(len(atoms), a)
	}
	return c04Layer{Name: "methods", N: len(recvs) * len(names) * per, At: func(i int) c04Case {
		r := recvs[i/(len(names)*per)]
		name := names[(i/per)%len(names)]
		j := i % per
		ar := 0
		for j >= c04Pow(len(atoms), ar) {
			j -= c04Pow(len(atoms), ar)
			ar++
		}
		args := make([]string, ar)
		for k := ar - 1; k >= 0; k-- {
			args[k] = atoms[j%len(atoms)]
			j /= len(atoms)
		}
		body := []string{r.Setup, "> x." + name + "(" + strings.Join(args, ", ") + ")"}
		return c04Case{Decls: c04DeclsFor("f1"), Body: body, Async: strings.Contains(r.Setup, "async")}
	}}
}

// provider receivers the CLI injects, with the methods reflection finds on them
type c04Prov struct {
	Inj, Recv string
	Pre       []string
	Methods   []c04ProvMethod
}
type c04ProvMethod struct {
	Name  string
	Arity int
}

func c04ProvMethods(obj interface{}, allowed map[string]bool) []c04ProvMethod {
	var out []c04ProvMethod
	if obj == nil {
		return out
	}
	t := reflect.TypeOf(obj)
	for i := 0; i < t.NumMethod(); i++ {
		m := t.Method(i)
		if !allowed[strings.ToLower(m.Name)] {
			continue
		}
		out = append(out, c04ProvMethod{Name: strings.ToLower(m.Name[:1]) + m.Name[1:], Arity: m.Type.NumIn() - 1})
	}
	return out
}

func c04CallOrNil(obj interface{}, method string, arg string) (res interface{}) {
	defer func() { recover() }()
	m := reflect.ValueOf(obj).MethodByName(method)
	if !m.IsValid() {
		return nil
	}
	out := m.Call([]reflect.Value{reflect.ValueOf(arg)})
	if len(out) == 0 {
		return nil
	}
	return out[0].Interface()
}

func c04Providers() []c04Prov {
	allowed := map[string]bool{}
	for _, a := range c04InterpTable("allowedMethods") {
		allowed[strings.ToLower(a)] = true
	}
	db := database.NewMockDatabase()
	redis := newRedisHandler()
	mongo := newMongoDBHandler()
	ps := []c04Prov{
		{Inj: "% db: Database", Recv: "db", Methods: c04ProvMethods(db, allowed)},
		{Inj: "% db: Database", Recv: "db.t", Methods: c04ProvMethods(c04CallOrNil(db, "Table", "t"), allowed)},
		{Inj: "% db: Database", Recv: "tb", Pre: []string{"$ tb = db.t", `$ seeded = tb.create({id: 1, name: "a", tags: [1, 2]})`}, Methods: c04ProvMethods(c04CallOrNil(db, "Table", "t"), allowed)},
		{Inj: "% rd: Redis", Recv: "rd", Methods: c04ProvMethods(redis, allowed)},
		{Inj: "% mg: MongoDB", Recv: "mg", Methods: c04ProvMethods(mongo, allowed)},
		{Inj: "% mg: MongoDB", Recv: "col", Pre: []string{`$ col = mg.collection("c")`}, Methods: c04ProvMethods(c04CallOrNil(mongo, "Collection", "c"), allowed)},
		{Inj: "% h: HTTP", Recv: "h", Methods: c04ProvMethods(httpclient.NewHandler(), allowed)},
		{Inj: "% ai: LLM", Recv: "ai", Methods: []c04ProvMethod{{"complete", 1}, {"chat", 1}}},
		{Inj: "% zz: Zz", Recv: "zz", Methods: []c04ProvMethod{{"get", 1}}},
	}
	return ps
}

func c04ProviderLayer(thorough bool) c04Layer {
	provs := c04Providers()
	atoms := c04Lits("INT", "STR", "NULL", "ARR", "OBJ", "FLOAT")
	maxAr := 3
	if thorough {
		atoms = c04Lits("ZERO", "INT", "NEG", "FLOAT", "ESTR", "STR", "BOOL", "NULL", "ARR", "OBJ")
		maxAr = 4
	}
	type ent struct {
		p     int
		m     c04ProvMethod
		ar    int
		count int
	}
	var ents []ent
	total := 0
	for pi, p := range provs {
		for _, m := range p.Methods {
			top := m.Arity + 1
			if top > maxAr {
				top = maxAr
			}
			for a := 0; a <= top; a++ {
				n := c04Pow(len(atoms), a)
				ents = append(ents, ent{pi, m, a, n})
				total += n
			}
		}
	}
	return c04Layer{Name: "providers", N: total, At: func(i int) c04Case {
		for _, e := range ents {
			if i >= e.count {
				i -= e.count
				continue
			}
			args := make([]string, e.ar)
			for k := e.ar - 1; k >= 0; k-- {
				args[k] = atoms[i%len(atoms)]
				i /= len(atoms)
			}
			p := provs[e.p]
			body := append(append([]string{}, p.Pre...), "> "+p.Recv+"."+e.m.Name+"("+strings.Join(args, ", ")+")")
			return c04Case{Inj: []string{p.Inj}, Body: body}
		}
		panic("provider index")
	}}
}

var c04StmtTemplates = [][]string{
	{"$ y = x"}, {"x = null"}, {"x = x + x"}, {"$ x = 1"}, {"y = 1"}, {"$ y = 2"}, {"$ x.a = y"}, {"$ x[0] = y"}, {"x[1] = x"},
	{"if x {", "  x = 1", "}"}, {"if x == null {", "  > 1", "} else {", "  $ y = 3", "}"}, {"if y {", "  break", "}"},
	{"while x {", "  break", "}"}, {"while y < 3 {", "  y = y + 1", "  continue", "}"}, {"while false {", "}"},
	{"for v in x {", "  $ w = v", "}"}, {"for k, v in x {", "  x = v", "}"}, {"for v in [1, 2] {", "  $ y = v", "  break", "}"},
	{"break"}, {"continue"}, {"> x"}, {"> y :: 404"}, {"? x :: 400 \"m\""}, {"? y != null :: 404"},
	{"switch x {", "  case 1 {", "    $ y = 1", "  }", "  default {", "    x = 2", "  }", "}"},
	{"$ y = match x {", "  1 => 1", "  [p] => p", "  {a} => a", "  _ => 0", "}"},
	{"$ y = async {", "  > x", "}"}, {"$ x = await y"}, {"x.a(1)"}, {"? validate(x)"}, {"yield x"}, {"assert(x)"},
	{"$ y = f1(x)"}, {"$ y: int = x"}, {"let y = x"}, {"return y"},
}

func c04StmtLayer(thorough bool) c04Layer {
	inits := c04Lits("INT", "STR", "NULL", "ARR", "OBJ")
	nt := len(c04StmtTemplates)
	depth := 2
	if thorough {
		depth = 3
	}
	per := 0
	for d := 1; d <= depth; d++ {
		per += c04Pow(nt, d)
	}
	return c04Layer{Name: "statements", N: len(inits) * per, At: func(i int) c04Case {
		init := inits[i/per]
		j := i % per
		d := 1
		for j >= c04Pow(nt, d) {
			j -= c04Pow(nt, d)
			d++
		}
		body := []string{"$ x = " + init}
		sel := make([]int, d)
		for k := d - 1; k >= 0; k-- {
			sel[k] = j % nt
			j /= nt
		}
		async := false
		for _, s := range sel {
			body = append(body, c04StmtTemplates[s]...)
			if strings.Contains(c04StmtTemplates[s][0], "async") {
				async = true
			}
		}
		body = append(body, "> x")
		return c04Case{Decls: c04DeclsFor("f1"), Body: body, Async: async}
	}}
}

func c04PatternLayer() c04Layer {
	pats := []string{"0", "1", "1.5", `"a"`, `""`, "true", "null", "[p]", "[p, q]", "[p, ...r]", "[]", "{a}", "{a, b}", "{a: p}", "{}", "n when n > 1",
		"n when n", "n when n.a.b", "n when n[5]", "_", "[[p]]", "{a: [p]}", "[1, p]", "{a: 1}"}
	lits := c04AllLits()
	return c04Layer{Name: "patterns", N: 2 * len(pats) * len(lits), At: func(i int) c04Case {
		form := i / (len(pats) * len(lits))
		i %= len(pats) * len(lits)
		p, l := pats[i/len(lits)], lits[i%len(lits)]
		use := "1"
		if strings.Contains(p, "p") {
			use = "p"
		}
		if form == 0 {
			return c04Case{Body: []string{"$ x = " + l, "$ y = match x {", "  " + p + " => " + use, "  _ => 0", "}", "> y"}}
		}
		return c04Case{Body: []string{"$ x = " + l, "$ y = match x {", "  " + p + " => " + use, "}", "> y"}}
	}}
}

func c04FunctionLayer() c04Layer {
	defs := []string{
		"! g() { > 1 }", "! g(a: int) { > a }", "! g(a: int!) { > a }", "! g(a: int = 5) { > a }", "! g(a: int!, b: str = \"d\") { > b }",
		"! g(a: any, b: any) { > a + b }", "! g(a: int): str { > a }", "! g(a: [int]): int { > a[0] }", "! g(a: any) { > a.x.y }",
		"! g(a: any) { }", "! g(a: any) { > g }", "! g(a: any) { $ a = 1 \n > a }", "! g(a: any = 1 / 0) { > a }", "! g(a: any = g(1)) { > a }",
		"! g(a: any) { > h(a) }", "! g(a: any): int { > null }", "! g<T>(a: T): T { > a }", "! g<T>(a: T, b: T): T { > b }",
	}
	lits := c04AllLits()
	calls := []string{"g()", "g(A)", "g(A, A)", "g(A, A, A)", "g(g(A))", "[g(A)]", "A |> g", "A |> g(A)", "g", "g.a", "g[0]", "g + 1", "g == g", "map([A], g)", "filter([A, A], g)",
		"reduce([A, A], g, A)", "sort([A, A], g)", "find([A], g)", "some([A], g)", "every([A], g)", "Ok(A).map(g)", "Err(A).mapErr(g)", "Ok(A).andThen(g)", "Err(A).orElse(g)"}
	return c04Layer{Name: "functions", N: len(defs) * len(calls) * len(lits), At: func(i int) c04Case {
		d := defs[i/(len(calls)*len(lits))]
		c := calls[(i/len(lits))%len(calls)]
		a := lits[i%len(lits)]
		expr := strings.ReplaceAll(c, "A", a)
		body := []string{"> " + expr}
		if strings.HasPrefix(c, "Ok(") || strings.HasPrefix(c, "Err(") {
			// method calls are only parsed on identifiers
			recv := expr[:strings.Index(expr, ").")+1]
			body = []string{"$ r = " + recv, "> r" + expr[len(recv):]}
		}
		return c04Case{Decls: strings.Split(d, "\n"), Body: body}
	}}
}

func c04MiscLayer() c04Layer {
	var cs []c04Case
	add := func(group string, decls []string, body ...string) {
		cs = append(cs, c04Case{Decls: decls, Body: body, Group: group, Async: strings.Contains(strings.Join(body, " "), "async")})
	}
	// aliasing / mutation during iteration
	add("mutation", nil, "$ a = [1, 2, 3]", "for v in a {", "  a = a + [v]", "}", "> length(a)")
	add("mutation", nil, "$ a = [1, 2, 3]", "for i, v in a {", "  $ a[i] = a", "}", "> 1")
	add("mutation", nil, "$ o = {a: 1, b: 2}", "for k, v in o {", `  $ q = remove(o, "a")`, `  $ r = set(o, k + "x", v)`, "}", "> 1")
	add("mutation", nil, "$ o = {a: 1}", "for k, v in o {", `  $ r = set(o, k + k, v)`, "}", "> 1")
	// results, responses and futures used as ordinary values
	for _, v := range []string{"Ok(1)", `Err("a")`, "Ok(Ok(null))", `text("a")`, `html("a")`, `redirect("/a")`, `redirect("")`, `redirect(1)`, `blob("a", "b")`, `blob([1], "text/plain")`,
		`text("a", 99999)`, `text("a", -1)`, `text("a", 0)`, `text("a", 200, 1)`, `html(null)`, `text([1])`, "async { > 1 }", "f1", "now", "length", "query", "headers", "input", "ws", "auth", "db"} {
		for _, use := range []string{"> V", "> [V]", "> {a: V}", "> V + V", "> V == V", "> toString(V)", "> V :: 201", "> length(V)", "> keys(V)", "$ y = V\n> y.a", "$ y = V\n> y[0]", "> text(V)", "> redirect(V)", "> Ok(V)", "$ y = V\n> await y", "> text(V, V)"} {
			add("values", c04DeclsFor(v), strings.Split(strings.ReplaceAll(use, "V", v), "\n")...)
		}
	}
	// status codes
	for _, s := range []string{"0", "1", "99", "100", "199", "204", "304", "600", "999", "1000", "99999", "-1"} {
		add("status", nil, "> 1 :: "+s)
		add("status", nil, "? false :: "+s+" \"m\"", "> 1")
		add("status", nil, `> text("a", `+s+`)`)
		add("status", nil, `> html("a", `+s+`)`)
		add("status", nil, `> redirect("/a", `+s+`)`)
	}
	// typed routes and return types
	for _, rt := range []string{"int", "str", "[int]", "T", "Zz", "any", "bool", "float"} {
		for _, v := range c04AllLits() {
			cs = append(cs, c04Case{Decls: []string{": T {", "  a: int!", "}"}, Header: "@ GET /t -> " + rt, Body: []string{"> " + v}, Group: "return-type"})
		}
	}
	// declarations with hostile defaults
	for _, d := range []string{"a: int = 1 / 0", "a: int = zz", "a: int = f1(1)", "a: [int] = [1, 2][5]", "a: str = 1 + \"a\"", "a: int!", "a: T", "a: [T]!"} {
		cs = append(cs, c04Case{Decls: []string{": T {", "  " + d, "}"}, Header: "@ POST /t", Inj: []string{"< input: T"}, Body: []string{"> input"},
			Req: c04Req{Method: "POST", HasBody: true, Body: `{"b":1}`, CT: "application/json"}, Group: "type-default"})
		cs = append(cs, c04Case{Decls: []string{": T {", "  " + d, "}"}, Header: "@ POST /t", Inj: []string{"< input: T"}, Body: []string{"> input"},
			Req: c04Req{Method: "POST", HasBody: true, Body: `{"a":{"a":{"a":null}}}`, CT: "application/json"}, Group: "type-default"})
	}
	// query parameter declarations
	for _, q := range []string{"? n: int", "? n: int!", "? n: int = 1", "? n: float", "? n: bool", "? n: str[]", "? n: int[]", "? n: int = zz", "? n: int = 1 / 0"} {
		for _, t := range []string{"/t", "/t?n=1", "/t?n=x", "/t?n=", "/t?n=1&n=2", "/t?n=99999999999999999999", "/t?n=1e400", "/t?n=%00", "/t?n=NaN"} {
			cs = append(cs, c04Case{Inj: []string{q}, Body: []string{"> n"}, Req: c04Req{Target: t}, Group: "query-decl"})
			cs = append(cs, c04Case{Inj: []string{q}, Body: []string{"> query.n + 1"}, Req: c04Req{Target: t}, Group: "query-decl"})
		}
	}
	// lambdas (AST only: the parser has no lambda production)
	for _, l := range []string{"x => x", "x => x.a.b", "x => 1 / 0", "x => [x] == [x]", "x => map([x, x], LAMBDA)", "x, y => x", "=> 1", "x => LAMBDA", "x => x(1)"} {
		for _, use := range []string{"> map([1, 2], LAMBDA)", "> filter([1, 2], LAMBDA)", "> reduce([1, 2], LAMBDA, 0)", "> sort([2, 1], LAMBDA)", "> find([1], LAMBDA)", "> some([1], LAMBDA)",
			"> every([1], LAMBDA)", "> LAMBDA", "> [LAMBDA]", "> toString(LAMBDA)", "> LAMBDA == LAMBDA", "> 1 |> LAMBDA", "$ r = Ok(1)\n> r.map(LAMBDA)", "$ r = Ok(1)\n> r.andThen(LAMBDA)",
			"> LAMBDA(1)", "> length(LAMBDA)"} {
			cs = append(cs, c04Case{Body: append([]string{"$ LAMBDA = 0"}, strings.Split(use, "\n")...), Lambda: l, Group: "lambda"})
		}
	}
	return c04ListLayer("misc", cs)
}

// self-referential values: every consumer that walks a value must terminate
func c04CyclicLayer() c04Layer {
	var cs []c04Case
	builders := [][]string{{"$ o = {a: 1}", "$ o.a = o"}, {"$ o = [1, 2]", "$ o[0] = o"}, {"$ o = {a: 1}", `$ p = set(o, "a", o)`}, {"$ o = [1]", "$ o = append(o, o)", "$ o[0] = o"}}
	uses := []string{"> o", "> toString(o)", "> o == o", "> [o]", "> keys(o)", "> length(o)", "> o.a.a.a.a", `> join([o], ",")`, "> sort([o, o])",
		"$ y = match o {\n  {a} => a\n  _ => 0\n}\n> y", "> o :: 500", "> text(o)", "> html(o)", "> contains([o], o)", "> indexOf([o], o)", "for k, v in o {\n  $ o.b = v\n}\n> 1",
		"> flat([o])", "> reverse([o])", `> "" + toString(o)`, "> o[0][0][0]"}
	for bi, b := range builders {
		for _, u := range uses {
			if bi >= 2 && !(u == "> o" || u == "> toString(o)") {
				continue
			}
			cs = append(cs, c04Case{Body: append(append([]string{}, b...), strings.Split(u, "\n")...), Group: "self-containing-value/" + c04CyclicUse(u)})
		}
	}
	// a self-containing value handed to a provider operation (and coming back in its result): every mock provider
	// the CLI injects, the operations that store or echo their argument
	provUses := []struct{ inj, use, tag string }{
		{"% db: Database", "> db.users.create(o)", "db.create"},
		{"% db: Database", "$ r = db.users.create(o)\n> db.users.all()", "db.create+all"},
		{"% db: Database", "$ r = db.users.create({id: 1})\n> db.users.update(1, o)", "db.update"},
		{"% db: Database", "$ r = db.users.create(o)\n> db.users.filter(\"a\", o)", "db.filter"},
		{"% db: Database", "$ r = db.users.create(o)\n> db.users.get(1)", "db.get"},
		{"% db: Database", "> db.users.count(\"a\", o)", "db.count"},
		{"% cache: Redis", "> cache.set(\"k\", o)", "redis.set"},
		{"% cache: Redis", "> cache.hset(\"h\", \"f\", o)", "redis.hset"},
		{"% cache: Redis", "> cache.lpush(\"l\", o)", "redis.lpush"},
		{"% mongo: MongoDB", "> mongo.collection(\"c\").insertOne(o)", "mongo.insertOne"},
		{"% mongo: MongoDB", "> mongo.collection(\"c\").find(o)", "mongo.find"},
	}
	for _, b := range builders[:2] {
		for _, pu := range provUses {
			cs = append(cs, c04Case{Inj: []string{pu.inj}, Body: append(append([]string{}, b...), strings.Split(pu.use, "\n")...), Group: "self-containing-value/" + pu.tag})
		}
	}
	return c04ListLayer("cyclic", cs)
}

// the consumer a self-containing value is handed to: the first built-in named in the use, else the statement form
func c04CyclicUse(u string) string {
	for _, f := range []string{"toString", "keys", "length", "join", "sort", "text", "html", "contains", "indexOf", "flat", "reverse"} {
		if strings.Contains(u, f+"(") {
			return f
		}
	}
	switch {
	case strings.Contains(u, "match"):
		return "match"
	case strings.Contains(u, "for "):
		return "for"
	case strings.Contains(u, "=="):
		return "=="
	case strings.Contains(u, "::"):
		return "return-with-status"
	case strings.Contains(u, ".a.a") || strings.Contains(u, "[0][0]"):
		return "access"
	}
	return "return"
}

func c04AsyncLayer() c04Layer {
	bodies := []string{"> 1", "> 1 / 0", "> zz", "> [1] == [1]", "$ o = {a: 1}\n  > o.a.b.c", "x = 2\n  > x", "$ x = 3\n  > x", "> await async {\n    > 1 / 0\n  }",
		"$ i = 0\n  while i < 1000 {\n    i = i + 1\n  }\n  > i", "> f1(1)", "> fe(1)", "> input", "break", "> 1 :: 404", "? false :: 400 \"m\"\n  > 1", "> text(\"a\")"}
	uses := []string{"> 1", "> await f", "$ a = await f\n$ b = await f\n> [a, b]", "> f", "> [f]", "> {a: f}", "> await await f", "> toString(f)", "> f == f", "> f.a", "> length(f)",
		"$ g = async {\n  > await f\n}\n> await g", "x = 5\n> await f", "> await f :: 201", "for v in [1, 2] {\n  $ h = async {\n    > await f\n  }\n}\n> 1", "> await 1", "> await null"}
	return c04Layer{Name: "async", N: len(bodies) * len(uses), At: func(i int) c04Case {
		b := bodies[i/len(uses)]
		u := uses[i%len(uses)]
		body := append([]string{"$ x = 1"}, strings.Split("$ f = async {\n  "+b+"\n}", "\n")...)
		body = append(body, strings.Split(u, "\n")...)
		return c04Case{Decls: c04DeclsFor(b), Body: body, Async: true, Group: "async"}
	}}
}

// request side: bodies, content types, queries
func c04RequestLayer(thorough bool) c04Layer {
	progs := [][]string{{"> input"}, {"> input.a"}, {"> input.a.b"}, {"> input.a + 1"}, {"> length(input.a)"}, {"> keys(input)"}, {"for k, v in input {", "  $ y = v", "}", "> 1"},
		{"> query"}, {"> query.q + 1"}, {"> headers"}, {"> input == null"}, {"> input.a[0]"}, {"> toString(input)"}}
	bodies := []c04Req{
		{}, {HasBody: true, Body: ""}, {HasBody: true, Body: "{}"}, {HasBody: true, Body: `{"a":1}`}, {HasBody: true, Body: `{"a":{"b":[1,2]}}`}, {HasBody: true, Body: `[1,2]`},
		{HasBody: true, Body: `"s"`}, {HasBody: true, Body: `1`}, {HasBody: true, Body: `null`}, {HasBody: true, Body: `true`}, {HasBody: true, Body: `{`}, {HasBody: true, Body: `{"a":`},
		{HasBody: true, Body: `{"a":1}{"b":2}`}, {HasBody: true, Body: `{"a":1} trailing`}, {HasBody: true, Body: `{"a":1e400}`}, {HasBody: true, Body: `{"a":NaN}`}, {HasBody: true, Body: "\xff\xfe{\"a\":1}"},
		{HasBody: true, Body: "\xef\xbb\xbf{\"a\":1}"}, {HasBody: true, Body: `{"a":"\ud800"}`}, {HasBody: true, Body: `{"a":1,"a":[2]}`}, {HasBody: true, Body: `{"a":9223372036854775808}`},
		{HasBody: true, Body: `{"a":-0}`}, {HasBody: true, Body: `{"a":1e308}`}, {HasBody: true, Body: `{"":1}`}, {HasBody: true, Body: `{"a\u0000b":1,"a":"\u0000"}`}, {HasBody: true, Body: `{"a":"\xff"}`},
		{HasBody: true, Body: `{"a":[]}`}, {HasBody: true, Body: `{"a":null}`}, {HasBody: true, Body: `{"a":{"b":null}}`}, {HasBody: true, Body: `a=1&b=2`}, {HasBody: true, Body: "--x\r\nContent-Disposition: form-data; name=\"a\"\r\n\r\n1\r\n--x--\r\n"},
	}
	big := []c04Req{
		{BodyGen: "nest-arr:100"}, {BodyGen: "nest-arr:9990"}, {BodyGen: "nest-arr:10001"}, {BodyGen: "nest-obj:5000"}, {BodyGen: "nest-obj:10001"}, {BodyGen: "bigstr:1000000"},
		{BodyGen: "bigstr:10485700"}, {BodyGen: "bigstr:11000000"}, {BodyGen: "manykeys:100000"}, {BodyGen: "digits:100000"}, {BodyGen: "spaces:11000000"}, {BodyGen: "arr:1000000"},
	}
	cts := []string{"", "application/json", "application/json; charset=utf-8", "APPLICATION/JSON", "application/jsonx", "text/plain", "application/x-www-form-urlencoded",
		"multipart/form-data; boundary=x", ";", "application/json\x00", strings.Repeat("a/", 2000)}
	methods := []string{"POST", "PUT", "PATCH", "DELETE", "GET"}
	targets := []string{"/t", "/t?q=1", "/t?q=%zz", "/t?q=a&q=b", "/t?%00=1", "/t?q=" + strings.Repeat("a", 100000), "/t?a[b]=1&q[]=2", "/t?;", "/t?q", "/t?=1", "/t?q=1.5&q2=true&q3=null",
		"/t?" + strings.Repeat("k=v&", 20000), "/t/", "/t//", "/T", "/t%2f", "/zz", "/", "//t", "/t?q=%ff%fe", "/t#frag"}
	if !thorough {
		methods = []string{"POST", "DELETE", "GET"}
	}
	bigProgs := [][]string{{"> input"}, {"> length(input.a)"}, {"> input == null"}}
	bigCTs := []string{"", "application/json", "text/plain"}
	bigMethods := []string{"POST", "DELETE"}
	nA := len(progs) * len(bodies) * len(cts) * len(methods)
	nB := len(progs) * len(targets) * 2
	nC := len(bigProgs) * len(big) * len(bigCTs) * len(bigMethods)
	return c04Layer{Name: "requests", N: nA + nB + nC, At: func(i int) c04Case {
		if i >= nA+nB {
			i -= nA + nB
			p := bigProgs[i%len(bigProgs)]
			i /= len(bigProgs)
			r := big[i%len(big)]
			i /= len(big)
			r.CT = bigCTs[i%len(bigCTs)]
			i /= len(bigCTs)
			r.Method = bigMethods[i%len(bigMethods)]
			return c04Case{Header: "@ " + r.Method + " /t", Body: p, Req: r, Group: "request-body"}
		}
		if i < nA {
			p := progs[i%len(progs)]
			i /= len(progs)
			r := bodies[i%len(bodies)]
			i /= len(bodies)
			r.CT = cts[i%len(cts)]
			i /= len(cts)
			r.Method = methods[i%len(methods)]
			return c04Case{Header: "@ " + r.Method + " /t", Body: p, Req: r, Group: "request-body"}
		}
		i -= nA
		p := progs[i%len(progs)]
		i /= len(progs)
		tg := targets[i%len(targets)]
		i /= len(targets)
		m := []string{"GET", "POST"}[i]
		r := c04Req{Method: m, Target: tg}
		if m == "POST" {
			r.HasBody, r.Body, r.CT = true, `{"a":1}`, "application/json"
		}
		return c04Case{Header: "@ " + m + " /t", Body: p, Req: r, Group: "request-target"}
	}}
}

var c04BodyCache = map[string][]byte{}

func c04GenBody(spec string) []byte {
	if b, ok := c04BodyCache[spec]; ok {
		return b
	}
	b := c04GenBodyMake(spec)
	c04BodyCache[spec] = b
	return b
}

func c04GenBodyMake(spec string) []byte {
	kind, ns, _ := strings.Cut(spec, ":")
	n, _ := strconv.Atoi(ns)
	switch kind {
	case "nest-arr":
		return []byte(`{"a":` + strings.Repeat("[", n) + strings.Repeat("]", n) + "}")
	case "nest-obj":
		return []byte(strings.Repeat(`{"a":`, n) + "1" + strings.Repeat("}", n))
	case "bigstr":
		return []byte(`{"a":"` + strings.Repeat("x", n) + `"}`)
	case "manykeys":
		var b strings.Builder
		b.WriteString("{")
		for i := 0; i < n; i++ {
			if i > 0 {
				b.WriteString(",")
			}
			fmt.Fprintf(&b, `"k%d":%d`, i, i)
		}
		b.WriteString("}")
		return []byte(b.String())
	case "digits":
		return []byte(`{"a":` + strings.Repeat("9", n) + "}")
	case "spaces":
		return []byte(strings.Repeat(" ", n) + `{"a":1}`)
	case "arr":
		return []byte(`{"a":[` + strings.Repeat("1,", n) + "1]}")
	}
	return nil
}

// ---------------------------------------------------------------- risky layers (run last)

func c04DeepLayer() c04Layer {
	kinds := []string{"paren", "neg", "not", "array", "object", "binary-right", "binary-left", "call", "field", "index", "if", "while", "for", "and", "concat", "pipe", "await", "match", "string", "elements", "fields", "statements", "args"}
	depths := []int{10, 100, 1000, 10000}
	return c04Layer{Name: "deep", N: len(kinds) * len(depths), At: func(i int) c04Case {
		k := kinds[i/len(depths)]
		d := depths[i%len(depths)]
		return c04Case{SrcGen: fmt.Sprintf("%s:%d", k, d), Group: "deep-" + k}
	}}
}

func c04GenSrc(spec string) []string {
	kind, ns, _ := strings.Cut(spec, ":")
	n, _ := strconv.Atoi(ns)
	rep := strings.Repeat
	switch kind {
	case "paren":
		return []string{"> " + rep("(", n) + "1" + rep(")", n)}
	case "neg":
		return []string{"> " + rep("- ", n) + "1"}
	case "not":
		return []string{"> " + rep("!", n) + "true"}
	case "array":
		return []string{"> " + rep("[", n) + "1" + rep("]", n)}
	case "object":
		return []string{"> " + rep("{a: ", n) + "1" + rep("}", n)}
	case "binary-right":
		return []string{"> " + rep("1 + (", n) + "1" + rep(")", n)}
	case "binary-left":
		return []string{"> 1" + rep(" + 1", n)}
	case "call":
		return []string{"> " + rep("abs(", n) + "1" + rep(")", n)}
	case "field":
		return []string{"$ x = {a: 1}", "> x" + rep(".a", n)}
	case "index":
		return []string{"$ x = [1]", "> x" + rep("[0]", n)}
	case "if":
		var b []string
		for i := 0; i < n; i++ {
			b = append(b, "if true {")
		}
		b = append(b, "> 1")
		for i := 0; i < n; i++ {
			b = append(b, "}")
		}
		return b
	case "while":
		var b []string
		for i := 0; i < n; i++ {
			b = append(b, "while true {")
		}
		b = append(b, "> 1")
		for i := 0; i < n; i++ {
			b = append(b, "}")
		}
		return b
	case "for":
		var b []string
		for i := 0; i < n; i++ {
			b = append(b, "for v in [1] {")
		}
		b = append(b, "> 1")
		for i := 0; i < n; i++ {
			b = append(b, "}")
		}
		return b
	case "and":
		return []string{"> true" + rep(" && true", n)}
	case "concat":
		return []string{`> "a"` + rep(` + "a"`, n)}
	case "pipe":
		return []string{"> 1" + rep(" |> abs", n)}
	case "await":
		return []string{"> " + rep("await ", n) + "1"}
	case "match":
		return []string{"> " + rep("match 1 { _ => ", n) + "1" + rep(" }", n)}
	case "string":
		return []string{`> "` + rep("a", n*100) + `"`}
	case "elements":
		return []string{"> [" + rep("1, ", n*10) + "1]"}
	case "fields":
		var b strings.Builder
		b.WriteString("> {")
		for i := 0; i < n; i++ {
			fmt.Fprintf(&b, "k%d: %d, ", i, i)
		}
		b.WriteString("z: 0}")
		return []string{b.String()}
	case "statements":
		var b []string
		b = append(b, "$ x = 0")
		for i := 0; i < n*10; i++ {
			b = append(b, "x = x + 1")
		}
		return append(b, "> x")
	case "args":
		return []string{"> max(" + rep("1, ", n) + "1)"}
	}
	return []string{"> 1"}
}

// programs whose evaluation may not end or may not fit in memory
func c04LoopLayer(thorough bool) c04Layer {
	var cs []c04Case
	seen := map[string]int{}
	// group = the mechanism a case probes; it is the last component of a runaway key, so every
	// group must stand for one reason why the evaluation could fail to end
	add := func(group string, nonterm bool, decls []string, body ...string) {
		c := c04Case{Decls: decls, Body: body, Group: group, NonTerm: nonterm, NoVMRaw: true,
			Async: strings.Contains(strings.Join(body, " "), "async")}
		// every loop without an exit costs the compiled mode its whole step budget; the quick tier pays that twice
		if !thorough && group == "loop-without-exit" && seen[group] >= 2 {
			c.SkipVM = true
		}
		seen[group]++
		cs = append(cs, c)
	}
	// small bounds first: the same constructs terminate quickly when bounded
	add("bounded-loop", false, nil, "$ i = 0", "while i < 1000 {", "  i = i + 1", "}", "> i")
	add("bounded-loop", false, nil, "$ s = \"a\"", "$ i = 0", "while i < 10 {", "  s = s + s", "  i = i + 1", "}", "> length(s)")
	add("bounded-loop", false, nil, "$ a = [1]", "$ i = 0", "while i < 10 {", "  a = a + a", "  i = i + 1", "}", "> length(a)")
	add("bounded-loop", false, []string{"! fib(n: int) {", "  if n < 2 {", "    > n", "  }", "  > fib(n - 1) + fib(n - 2)", "}"}, "> fib(10)")
	// loops that never exit: only an iteration / step limit ends them
	add("loop-without-exit", true, nil, "while true {", "}", "> 1")
	add("loop-without-exit", true, nil, "$ i = 0", "while true {", "  i = i + 1", "}", "> i")
	add("loop-without-exit", true, nil, "$ i = 0", "while i >= 0 {", "  i = i + 1", "  continue", "}", "> i")
	add("loop-without-exit", true, nil, "while true {", "  while true {", "    break", "  }", "}", "> 1")
	add("loop-without-exit", true, nil, "for v in [1, 2] {", "  while true {", "  }", "}", "> 1")
	add("loop-without-exit", true, nil, "if true {", "  while 1 == 1 {", "    $ y = 1", "  }", "}", "> 1")
	// ends through the iteration / step limit as long as append is amortised constant time
	add("append-per-iteration", true, nil, "$ a = []", "while true {", "  a = append(a, 1)", "}", "> 1")
	// a value that doubles on every iteration: no limit on iterations helps, only a limit on the size of a value.
	// Every such case costs one watchdog period, so the quick tier runs one representative per group.
	add("string-doubling", true, nil, "$ s = \"aaaaaaaa\"", "$ i = 0", "while i < 100 {", "  s = s + s", "  i = i + 1", "}", "> length(s)")
	add("array-doubling", true, nil, "$ a = [1, 2, 3, 4]", "$ i = 0", "while i < 100 {", "  a = a + a", "  i = i + 1", "}", "> length(a)")
	if thorough {
		add("string-doubling", true, nil, "$ s = \"aaaaaaaa\"", "while true {", "  s = s + s", "}", "> 1")
		add("array-doubling", true, nil, "$ a = [1, 2, 3, 4]", "while true {", "  a = a + a", "}", "> 1")
		add("array-doubling", true, nil, "$ a = [1, 2]", "for v in [1, 2, 3, 4, 5, 6, 7, 8, 9, 10, 11, 12, 13, 14, 15, 16, 17, 18, 19, 20, 21, 22, 23, 24, 25, 26, 27, 28, 29, 30, 31, 32, 33, 34, 35, 36, 37, 38, 39, 40] {", "  a = a + a", "}", "> length(a)")
	}
	// 64 objects in memory, 2^64 nodes for whoever walks the value (here: the response encoder).  The unbounded form
	// `while true { o = {a: o, b: o} }` is not used: the interpreter ends it through its iteration limit after 10^6
	// allocations, which takes a few seconds of CPU - too close to the watchdog to give the same verdict on every machine.
	add("object-doubling", true, nil, "$ o = {a: 1}", "$ i = 0", "while i < 64 {", "  o = {a: o, b: o}", "  i = i + 1", "}", "> o")
	// an array that grows by one element and is copied on every iteration: quadratic work inside any iteration limit
	add("growing-array-copied-per-iteration", true, nil, "$ a = []", "while true {", "  a = a + [a]", "}", "> 1")
	// each loop stays within the per-loop iteration limit, the product does not
	add("nested-loops-each-within-the-iteration-limit", true, nil, "$ i = 0", "while i < 900000 {", "  $ j = 0", "  while j < 900000 {", "    j = j + 1", "  }", "  i = i + 1", "}", "> i")
	// recursion
	add("unbounded-recursion", true, []string{"! r(n: any) {", "  > r(n)", "}"}, "> r(1)")
	add("unbounded-recursion", true, []string{"! r(n: any) {", "  > [r(n + 1)]", "}"}, "> r(1)")
	add("unbounded-recursion", true, []string{"! p(n: any) {", "  > q(n)", "}", "! q(n: any) {", "  > p(n)", "}"}, "> p(1)")
	add("unbounded-recursion", true, []string{"! r(n: any) {", "  > map([n], r)", "}"}, "> r(1)")
	add("unbounded-recursion", true, []string{"! r(n: any) {", "  > filter([n, n], r)", "}"}, "> r(1)")
	add("unbounded-recursion", true, []string{"! r(a: any, b: any) {", "  > reduce([a, b], r, a)", "}"}, "> r(1, 2)")
	add("unbounded-recursion", true, []string{"! r(a: any, b: any) {", "  > sort([a, b, a], r)", "}"}, "> r(2, 1)")
	add("unbounded-recursion", true, []string{"! r(n: any) {", "  > n |> r", "}"}, "> r(1)")
	add("unbounded-recursion", true, []string{"! r(n: any) {", "  $ f = async {", "    > r(n)", "  }", "  > await f", "}"}, "> r(1)")
	add("unbounded-recursion", true, []string{"! r(n: any = r()) {", "  > n", "}"}, "> r()")
	// recursion of bounded depth whose call tree is exponential
	add("exponential-recursion-within-the-depth-limit", true, []string{"! fib(n: int) {", "  if n < 2 {", "    > n", "  }", "  > fib(n - 1) + fib(n - 2)", "}"}, "> fib(90)")
	if thorough {
		add("exponential-recursion-within-the-depth-limit", true, []string{"! t(n: int) {", "  if n < 1 {", "    > [1]", "  }", "  > t(n - 1) + t(n - 1)", "}"}, "> length(t(200))")
	}
	// async blocks that never finish
	add("async-never-finishes", false, nil, "$ f = async {", "  while true {", "  }", "}", "> 1")
	add("async-never-finishes", true, nil, "$ f = async {", "  while true {", "  }", "}", "> await f")
	add("async-never-finishes", true, nil, "$ f = async {", "  $ g = async {", "    while true {", "    }", "  }", "  > await g", "}", "> await f")
	add("async-many", false, nil, "$ i = 0", "while i < 5000 {", "  $ f = async {", "    > i", "  }", "  i = i + 1", "}", "> i")
	return c04ListLayer("loops", cs)
}

// c04WedgeDecls: the function the wedge probe recurses through; c04WedgeProbe: a second probe route that needs nearly
// all of the evaluation depth a request may use (the deepest recursion that is answered on a fresh runtime is found by
// the harness at start-up).  One failing request per failure mechanism is repeated c04WedgeRepeats times on one
// runtime; afterwards both probes must be answered as on a fresh runtime: a limit that is not given back, a counter
// that only grows, a pool that leaks one slot per failure show up here and nowhere in single-request cases.
var c04WedgeDecls = []string{"! zzdown(n: int): int {", "  if n <= 0 {", "    > 0", "  }", "  > 1 + zzdown(n - 1)", "}"}

const c04WedgeRepeats = 520

func c04WedgeLayer() c04Layer {
	var cs []c04Case
	add := func(group string, body ...string) {
		cs = append(cs, c04Case{Decls: c04WedgeDecls, Body: body, Group: group, Wedge: true, NoVMRaw: true})
	}
	add("depth-limit", "> zzdown(100000)")
	// (a loop ended by the iteration limit costs about 10^6 iterations per request: repeated 8 times only)
	add("loop-limit", "$ i = 0", "while true {", "  i = i + 1", "}", "> i")
	cs[len(cs)-1].Repeats = 8
	add("division-by-zero", "$ z = 0", "> 1 / z")
	add("type-error", "> 1 + true")
	add("undefined-function", "> zznone(1)")
	add("index-out-of-range", "$ a = [1]", "> a[5]")
	add("status-range", "> text(\"x\", 99)")
	add("guard-4xx", "? 1 > 2 :: 422", "> 1")
	add("await-rejected", "$ f = async {", "  > 1 / 0", "}", "> await f")
	add("deep-then-error", "> zzdown(200) + true")
	return c04ListLayer("wedge", cs)
}

// c04TextIndexLayer: every built-in on a text whose length in characters (3) and in bytes (9) differ, with every
// index / count from below zero to past the byte length, in second and in second+third position: a bound checked in
// one unit and applied in the other is a slice out of range (or NUL padding) for the indices in between.
func c04TextIndexLayer() c04Layer {
	names := c04Union(c04InterpTable("builtinFuncs"), c04VMBuiltins())
	type tx struct {
		lit string
		idx []string
	}
	short := []string{"-1", "0", "1", "2", "3", "4", "5", "8", "9", "10"}
	// 40 characters, 120 bytes: longer than the 32-element buffer Go converts short strings into, so that a rune slice of
	// it has no spare capacity to hide an index between the two lengths
	long := []string{"0", "1", "39", "40", "41", "50", "120", "121"}
	texts := []tx{{`"日本語"`, short}, {`"aé"`, short}, {`"` + strings.Repeat("語", 40) + `"`, long}}
	var per []int
	total := 0
	for _, t := range texts {
		n := len(t.idx) + len(t.idx)*len(t.idx)
		per = append(per, n)
		total += n
	}
	return c04Layer{Name: "text-index", N: len(names) * total, At: func(i int) c04Case {
		name := names[i/total]
		j := i % total
		k := 0
		for j >= per[k] {
			j -= per[k]
			k++
		}
		t := texts[k]
		call := ""
		if j < len(t.idx) {
			call = name + "(" + t.lit + ", " + t.idx[j] + ")"
		} else {
			j -= len(t.idx)
			call = name + "(" + t.lit + ", " + t.idx[j/len(t.idx)] + ", " + t.idx[j%len(t.idx)] + ")"
		}
		return c04Case{Body: []string{"> " + call}}
	}}
}

func c04Layers(thorough bool) []c04Layer {
	return []c04Layer{
		// the expensive layers come first so that a time cap cuts the tail of the largest cheap layer instead
		c04LoopLayer(thorough), c04WedgeLayer(), c04CyclicLayer(), c04DeepLayer(), c04AsyncLayer(),
		c04OpsLayer(), c04AccessLayer(), c04PatternLayer(), c04FunctionLayer(), c04MiscLayer(),
		c04TextIndexLayer(), c04StmtLayer(thorough), c04MethodLayer(thorough), c04ProviderLayer(thorough), c04RequestLayer(thorough), c04BuiltinLayer(thorough),
	}
}

// ---------------------------------------------------------------- shrinking

// simpler variants of a case, most aggressive first
func c04Shrinks(c c04Case) []c04Case {
	if c.SrcGen != "" {
		kind, ns, _ := strings.Cut(c.SrcGen, ":")
		n, _ := strconv.Atoi(ns)
		var out []c04Case
		for _, m := range []int{1, 2, 3, 10, 100, 1000} {
			if m < n {
				d := c
				d.SrcGen = fmt.Sprintf("%s:%d", kind, m)
				out = append(out, d)
			}
		}
		return out
	}
	var out []c04Case
	clone := func() c04Case {
		d := c
		d.Decls = append([]string{}, c.Decls...)
		d.Body = append([]string{}, c.Body...)
		d.Inj = append([]string{}, c.Inj...)
		return d
	}
	// drop one statement line (block statements only parse when dropped as a whole, the parser rejects the rest)
	for i := range c.Body {
		if len(c.Body) > 1 {
			d := clone()
			d.Body = append(d.Body[:i], d.Body[i+1:]...)
			out = append(out, d)
		}
	}
	for i := range c.Decls {
		d := clone()
		d.Decls = append(d.Decls[:i], d.Decls[i+1:]...)
		out = append(out, d)
	}
	// replace one occurrence of a structured literal by a simpler one
	simpler := [][2]string{{"{a: [1, {b: null}], c: {d: [[]]}}", "{a: 1}"}, {"9223372036854775807", "1"}, {"[1, 2]", "[]"}, {"{a: 1}", "1"}, {"[]", "1"}, {"1.5", "1"}, {`"a"`, "1"}, {`""`, "1"}, {"true", "1"}, {"null", "1"}, {"-1", "1"}, {"f1", "1"}, {"f2", "1"}}
	for li, line := range c.Body {
		for _, s := range simpler {
			for from := 0; ; {
				j := strings.Index(line[from:], s[0])
				if j < 0 {
					break
				}
				j += from
				d := clone()
				d.Body[li] = line[:j] + s[1] + line[j+len(s[0]):]
				if d.Body[li] != line {
					out = append(out, d)
				}
				from = j + len(s[0])
			}
		}
	}
	// simpler request
	if c.Req.BodyGen != "" || c.Req.HasBody || c.Req.CT != "" || (c.Req.Target != "" && c.Req.Target != "/t") {
		d := clone()
		d.Req.CT = ""
		if d.Req.CT != c.Req.CT {
			out = append(out, d)
		}
		d = clone()
		d.Req.Target = ""
		if d.Req.Target != c.Req.Target {
			out = append(out, d)
		}
		if c.Req.BodyGen != "" {
			kind, ns, _ := strings.Cut(c.Req.BodyGen, ":")
			n, _ := strconv.Atoi(ns)
			for _, m := range []int{1, 10, 1000} {
				if m < n {
					d = clone()
					d.Req.BodyGen = fmt.Sprintf("%s:%d", kind, m)
					out = append(out, d)
				}
			}
		}
	}
	return out
}

// ---------------------------------------------------------------- lambdas (AST only)

// replaces the value of the statement `$ LAMBDA = 0` by a LambdaExpr built from "params => body"
func c04PatchLambda(m *gast.Module, spec string) error {
	ps, bodySrc, ok := strings.Cut(spec, "=>")
	if !ok {
		return fmt.Errorf("bad lambda spec")
	}
	var params []gast.Field
	for _, p := range strings.Split(ps, ",") {
		p = strings.TrimSpace(p)
		if p != "" {
			params = append(params, gast.Field{Name: p})
		}
	}
	lx := gparser.NewLexer(strings.TrimSpace(bodySrc))
	toks, err := lx.Tokenize()
	if err != nil {
		return err
	}
	body, err := gparser.NewParser(toks).ParseExpression()
	if err != nil {
		return err
	}
	lam := gast.LambdaExpr{Params: params, Body: body}
	route := c04FindRoute(m, "/t")
	if route == nil {
		return fmt.Errorf("no route")
	}
	for i, st := range route.Body {
		if as, ok := st.(gast.AssignStatement); ok && as.Target == "LAMBDA" {
			as.Value = lam
			route.Body[i] = as
			return nil
		}
	}
	return fmt.Errorf("no LAMBDA statement")
}
